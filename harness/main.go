package main

import (
	"flag"
	"fmt"
	"os"
)

func main() {
	if len(os.Args) < 2 {
		fmt.Fprintln(os.Stderr, "usage: verifharness <stream> [-seed N] [-n N] [-out DIR] …")
		os.Exit(2)
	}
	cmd := os.Args[1]
	fs := flag.NewFlagSet(cmd, flag.ExitOnError)
	seed := fs.Int64("seed", 1, "PRNG seed")
	n := fs.Int("n", 1000, "number of generated cases")
	out := fs.String("out", "", "output directory")
	_ = fs.Parse(os.Args[2:])
	if *out == "" {
		fmt.Fprintln(os.Stderr, "-out is required")
		os.Exit(2)
	}
	switch cmd {
	case "c06":
		runC06(*seed, *n, *out)
	default:
		fmt.Fprintln(os.Stderr, "unknown stream", cmd)
		os.Exit(2)
	}
}
