package hc

import (
	"bufio"
	"bytes"
	"context"
	"encoding/hex"
	"encoding/json"
	"flag"
	"fmt"
	"math"
	"math/big"
	"math/rand"
	"os"
	"path/filepath"
	"sort"
	"strconv"
	"strings"
	"time"
	"unicode"

	"github.com/mithrandie/csvq/lib/file"
	"github.com/mithrandie/csvq/lib/option"
	"github.com/mithrandie/csvq/lib/parser"
	"github.com/mithrandie/csvq/lib/query"
	"github.com/mithrandie/csvq/lib/value"
	"github.com/mithrandie/ternary"
)

// Out collects, for one stream, the operation lines (for the Lean model), the implementation's
// canonical answers (one line per operation), and failures of laws checked directly on the
// implementation's outputs.
type Out struct {
	dir     string
	ops     *bufio.Writer
	impl    *bufio.Writer
	laws    *bufio.Writer
	ctx     *bufio.Writer
	files   []*os.File
	n       int
	extra   int // executions that have no op line (law-only checks on the implementation)
	Stats   map[string]int
	sig     map[string]bool // distinct non-trivial signatures
	Samples []string
}

func NewOut(dir string) *Out {
	_ = os.MkdirAll(dir, 0o755)
	o := &Out{dir: dir, Stats: map[string]int{}, sig: map[string]bool{}}
	mk := func(name string) *bufio.Writer {
		f, err := os.Create(filepath.Join(dir, name))
		if err != nil {
			panic(err)
		}
		o.files = append(o.files, f)
		return bufio.NewWriterSize(f, 1<<20)
	}
	o.ops, o.impl, o.laws = mk("ops.txt"), mk("impl.txt"), mk("laws.txt")
	return o
}

// Case records one operation line and the implementation's answer. Returns the 0-based line index.
func (o *Out) Case(op string, impl string) int {
	if strings.ContainsAny(op, "\n\r") || strings.ContainsAny(impl, "\n\r") {
		panic("newline in protocol line: " + op)
	}
	op = strings.TrimRight(op, " ")
	fmt.Fprintln(o.ops, op)
	fmt.Fprintln(o.impl, impl)
	if len(o.Samples) < 8 && o.n%97 == 0 {
		o.Samples = append(o.Samples, op+"  =>  "+impl)
	}
	o.n++
	return o.n - 1
}

// Context attaches a free text (the program, the table, …) to the NEXT operation line; the orchestrator copies it
// into the replay when that line disagrees with the model.
func (o *Out) Context(text string) {
	if o.ctx == nil {
		f, err := os.Create(filepath.Join(o.dir, "ctx.txt"))
		if err != nil {
			return
		}
		o.files = append(o.files, f)
		o.ctx = bufio.NewWriterSize(f, 1<<16)
	}
	b, _ := json.Marshal(text)
	fmt.Fprintf(o.ctx, "%d\t%s\n", o.n, string(b))
}

// Law records a law that failed on the implementation's own outputs.
func (o *Out) Law(name string, replay interface{}) {
	b, _ := json.Marshal(map[string]interface{}{"law": name, "case": replay})
	fmt.Fprintln(o.laws, string(b))
	o.Stats["law_fail:"+name]++
}

func (o *Out) Count(key string) { o.Stats[key]++ }

// Eval counts one execution of the implementation that is checked by laws only (no op line).
func (o *Out) Eval() { o.extra++ }

// NonTrivial records a signature of a non-trivial case (distinct ones are counted).
func (o *Out) NonTrivial(sig string) { o.sig[sig] = true }

func (o *Out) Close() {
	o.ops.Flush()
	o.impl.Flush()
	o.laws.Flush()
	if o.ctx != nil {
		o.ctx.Flush()
	}
	for _, f := range o.files {
		f.Close()
	}
	st := map[string]interface{}{"evaluations": o.n + o.extra, "distinct_nontrivial": len(o.sig), "stats": o.Stats, "samples": o.Samples}
	b, _ := json.MarshalIndent(st, "", " ")
	_ = os.WriteFile(filepath.Join(o.dir, "stats.json"), b, 0o644)
}

// ---------- encoding of values (see lean/Csvq/Model/Proto.lean) ----------

var two1074 = new(big.Float).SetMantExp(big.NewFloat(1), 1074)

func EncF(f float64) string {
	switch {
	case math.IsNaN(f):
		return "nan"
	case math.IsInf(f, 1):
		return "+inf"
	case math.IsInf(f, -1):
		return "-inf"
	case f == 0 && math.Signbit(f):
		return "-0"
	}
	bf := new(big.Float).SetFloat64(f)
	bf.SetMantExp(bf, 1074)
	i, acc := bf.Int(nil)
	if acc != big.Exact {
		panic("inexact float encoding")
	}
	return i.String()
}

func EncT(t ternary.Value) string {
	switch t {
	case ternary.TRUE:
		return "T"
	case ternary.FALSE:
		return "F"
	}
	return "U"
}

func EncTime(t time.Time) string {
	n := new(big.Int).Mul(big.NewInt(t.Unix()), big.NewInt(1000000000))
	n.Add(n, big.NewInt(int64(t.Nanosecond())))
	return n.String()
}

func EncVal(p value.Primary) string {
	switch v := p.(type) {
	case *value.Null:
		return "N"
	case *value.Integer:
		return fmt.Sprintf("I%d", v.Raw())
	case *value.Float:
		return "F" + EncF(v.Raw())
	case *value.String:
		return "S" + hex.EncodeToString([]byte(v.Raw()))
	case *value.Boolean:
		if v.Raw() {
			return "B1"
		}
		return "B0"
	case *value.Ternary:
		return "T" + EncT(v.Ternary())
	case *value.Datetime:
		return "D" + EncTime(v.Raw())
	}
	panic(fmt.Sprintf("unknown primary %T", p))
}

// TrimSpaceRef: the documented "trimmed text" as csvq implements it (option.TrimSpace), written
// independently: if the first or last *byte* is a space rune, strings.TrimSpace applies.
func TrimSpaceRef(s string) string {
	if 0 < len(s) && (unicode.IsSpace(rune(s[0])) || unicode.IsSpace(rune(s[len(s)-1]))) {
		return strings.TrimSpace(s)
	}
	return s
}

var UTC = time.UTC

// DatetimeFormats: the session's custom datetime formats (@@DATETIME_FORMAT) the profiles are computed under
var DatetimeFormats []string

// EncProfile asks the real conversion functions what they make of p.
func EncProfile(p value.Primary) string {
	if _, ok := p.(*value.String); !ok {
		return EncVal(p) // the model derives the profile of non-strings itself (validated by stream prof)
	}
	return EncFullProfile(p)
}

func EncFullProfile(p value.Primary) string {
	parts := make([]string, 7)
	parts[0] = EncVal(p)
	if i := value.ToIntegerStrictly(p); !value.IsNull(i) {
		parts[1] = fmt.Sprintf("%d", i.(*value.Integer).Raw())
	} else {
		parts[1] = "-"
	}
	if f := value.ToFloat(p); !value.IsNull(f) {
		parts[2] = EncF(f.(*value.Float).Raw())
	} else {
		parts[2] = "-"
	}
	if d := value.ToDatetime(p, DatetimeFormats, UTC); !value.IsNull(d) {
		parts[3] = EncTime(d.(*value.Datetime).Raw())
	} else {
		parts[3] = "-"
	}
	if b := value.ToBoolean(p); !value.IsNull(b) {
		if b.(*value.Boolean).Raw() {
			parts[4] = "1"
		} else {
			parts[4] = "0"
		}
	} else {
		parts[4] = "-"
	}
	if s, ok := p.(*value.String); ok {
		parts[5] = "x" + hex.EncodeToString([]byte(strings.ToUpper(TrimSpaceRef(s.Raw()))))
	} else {
		parts[5] = "-"
	}
	parts[6] = EncT(p.Ternary())
	return strings.Join(parts, ";")
}

// ---------- value generators ----------

type Gen struct{ *rand.Rand }

func NewGen(seed int64) *Gen { return &Gen{rand.New(rand.NewSource(seed))} }

func (g *Gen) Pick(xs ...string) string { return xs[g.Intn(len(xs))] }

var intPool = []int64{0, 1, -1, 2, 3, 5, 7, 10, -10, 100, 1 << 31, 1<<53 - 1, 1 << 53, 1<<53 + 1, -(1 << 53) - 1,
	math.MaxInt64, math.MinInt64, math.MaxInt64 - 1, math.MinInt64 + 1, 1 << 62, -(1 << 62), 4611686018427387905}

func (g *Gen) Int64() int64 {
	switch g.Intn(4) {
	case 0:
		return intPool[g.Intn(len(intPool))]
	case 1:
		return int64(g.Intn(21) - 10)
	case 2:
		return g.Rand.Int63() - g.Rand.Int63()
	}
	return int64(g.Intn(2001) - 1000)
}

var floatPool = []float64{0, math.Copysign(0, -1), 1, -1, 0.5, 1.5, 2.5, -2.5, 3, 5, 1e300, -1e300, math.MaxFloat64, -math.MaxFloat64,
	math.SmallestNonzeroFloat64, -math.SmallestNonzeroFloat64, 2.2250738585072014e-308, math.NaN(), math.Inf(1), math.Inf(-1),
	9007199254740992, 9007199254740993, 9007199254740994, 0.1, 0.2, 0.3, 1e-7, 123456.789, 9.223372036854775807e18, -9.223372036854775808e18}

func (g *Gen) Float64() float64 {
	switch g.Intn(5) {
	case 0:
		return floatPool[g.Intn(len(floatPool))]
	case 1:
		return float64(g.Intn(21) - 10)
	case 2:
		return math.Float64frombits(g.Uint64())
	case 3:
		return float64(g.Intn(2001)-1000) / 8
	}
	return g.NormFloat64() * math.Pow(10, float64(g.Intn(40)-20))
}

var strPool = []string{"", " ", "a", "A", " a ", "abc", "ABC", "abd", "ab", "true", "TRUE", " True ", "false", "t", "f", "1", "0", " 1 ", "01", "+1", "1.0", "1e0", "1.5", " 1.5 ",
	"-0", "-0.0", "0.0", "NaN", "nan", "Inf", "-Inf", "+Inf", "infinity", "0x10", "1_000", "9223372036854775807", "9223372036854775808", "-9223372036854775808", "1e400",
	"2012-02-03", "2012-2-3", "2012-02-03 09:18:15", "2012-02-03T09:18:15Z", "2012-02-03T09:18:15.123456789+09:00", "2012/02/03", "2012/2/3 1:02:03", "2012-02-03 09:18:15 +0900",
	"2012-02-03 09:18:15 JST", "03 Feb 12 09:18 PST", "03 Feb 12 09:18 -0700", "2012-02-30", "20120203", "2012-02-03x", "1970-01-01T00:00:00Z", "0001-01-01 00:00:00", "9999-12-31 23:59:59.999999999",
	"é", "É", "ß", "ǆ", "　a　", "\xa0a", "a\x85", "\xff", "a\x00b", "x:[S]y", "\tTab\n", "null", "NULL", "unknown"}

func (g *Gen) Str() string {
	switch g.Intn(6) {
	case 0, 1, 2:
		return strPool[g.Intn(len(strPool))]
	case 3:
		// numeric-looking with padding / case variants
		base := g.Pick(fmt.Sprintf("%d", g.Int64()), value.Float64ToStr(g.Float64(), g.Intn(2) == 0), "true", "false", "T", "F", "1", "0")
		if g.Intn(2) == 0 {
			base = g.Pick(" ", "\t", "\n", "  ", "") + base + g.Pick(" ", "\t", "\r\n", "")
		}
		if g.Intn(3) == 0 {
			base = strings.ToUpper(base)
		}
		return base
	case 4:
		// datetime-looking
		t := time.Unix(int64(g.Intn(2000000000)), int64(g.Intn(3))*int64(g.Intn(1000000000))).UTC()
		return t.Format(g.Pick("2006-01-02", "2006-1-2", "2006-01-02 15:04:05", "2006-01-02T15:04:05Z07:00", "2006-01-02 15:04:05.999999999", "2006/01/02 15:04:05", "2006/1/2", time.RFC3339Nano, time.RFC822, time.RFC822Z, "2006-01-02 15:04:05 -0700", "2006-1-2 15:04:05 Z07:00"))
	}
	n := g.Intn(4)
	b := make([]byte, n)
	for i := range b {
		b[i] = "abAB 1:\\[]S"[g.Intn(11)]
	}
	return string(b)
}

func (g *Gen) Time() time.Time {
	switch g.Intn(4) {
	case 0:
		return time.Unix(int64(g.Intn(10)), 0).UTC()
	case 1:
		return time.Unix(g.Int63n(4e9)-2e9, g.Int63n(1e9)).UTC()
	case 2:
		return time.Date(g.Intn(9999)+1, 1, 1, 0, 0, 0, g.Intn(2), time.UTC)
	}
	return time.Date(2012, 2, 3, 9, 18, 15, g.Intn(3), time.FixedZone("x", g.Intn(3)*3600))
}

// Val draws from every value class named in C06.
func (g *Gen) Val() value.Primary {
	switch g.Intn(14) {
	case 0:
		return value.NewNull()
	case 1, 2, 3:
		return value.NewInteger(g.Int64())
	case 4, 5, 6:
		return value.NewFloat(g.Float64())
	case 7, 8, 9, 10:
		return value.NewString(g.Str())
	case 11:
		return value.NewBoolean(g.Intn(2) == 0)
	case 12:
		return value.NewTernary([]ternary.Value{ternary.TRUE, ternary.FALSE, ternary.UNKNOWN}[g.Intn(3)])
	}
	return value.NewDatetime(g.Time())
}

func ClassName(p value.Primary) string {
	switch p.(type) {
	case *value.Null:
		return "null"
	case *value.Integer:
		return "int"
	case *value.Float:
		return "float"
	case *value.String:
		return "str"
	case *value.Boolean:
		return "bool"
	case *value.Ternary:
		return "tern"
	}
	return "dt"
}

// ---------- running SQL through the real processor, in-process ----------

type NopCloser struct{ *bytes.Buffer }

func (NopCloser) Close() error { return nil }

type Proc struct {
	P      *query.Processor
	Stdout *bytes.Buffer
	Stderr *bytes.Buffer
	Ctx    context.Context
}

func NewProc(repo string) *Proc {
	ctx := context.Background()
	sess := query.NewSession()
	so, se := &bytes.Buffer{}, &bytes.Buffer{}
	sess.SetStdout(NopCloser{so})
	sess.SetStderr(NopCloser{se})
	// VERIF_WAIT_TIMEOUT (seconds): how long an in-process transaction waits for a lock.  No in-process scenario needs a
	// long wait; a changed csvq that blocks on its own locks then costs seconds per statement instead of ten.
	wait := file.DefaultWaitTimeout
	if v := os.Getenv("VERIF_WAIT_TIMEOUT"); v != "" {
		if f, e := strconv.ParseFloat(v, 64); e == nil && f > 0 {
			wait = time.Duration(f * float64(time.Second))
		}
	}
	tx, err := query.NewTransaction(ctx, wait, file.DefaultRetryDelay, sess)
	if err != nil {
		panic(err)
	}
	if repo != "" {
		if err := tx.SetFlag(option.RepositoryFlag, repo); err != nil {
			panic(err)
		}
	}
	_ = tx.SetFlag(option.TimezoneFlag, "UTC")
	_ = tx.SetFlag(option.QuietFlag, false)
	return &Proc{P: query.NewProcessor(tx), Stdout: so, Stderr: se, Ctx: ctx}
}

// Exec parses and executes a program; returns what was printed on stdout.
func (p *Proc) Exec(sql string) (string, error) {
	p.Stdout.Reset()
	stmts, _, err := parser.Parse(sql, "", false, p.P.Tx.Flags.AnsiQuotes)
	if err != nil {
		return "", err
	}
	_, err = p.P.Execute(p.Ctx, stmts)
	return p.Stdout.String(), err
}

// Query evaluates one SELECT and returns its view.
func (p *Proc) Query(sql string) (*query.View, error) {
	stmts, _, err := parser.Parse(sql, "", false, p.P.Tx.Flags.AnsiQuotes)
	if err != nil {
		return nil, err
	}
	if len(stmts) != 1 {
		return nil, fmt.Errorf("expected one statement")
	}
	sq, ok := stmts[0].(parser.SelectQuery)
	if !ok {
		return nil, fmt.Errorf("not a select query")
	}
	return query.Select(p.Ctx, p.P.ReferenceScope, sq)
}

func (p *Proc) Close() {
	_ = p.P.AutoRollback()
	_ = p.P.ReleaseResourcesWithErrors()
}

// ErrCode maps an error to csvq's error number (0 = no error, -1 = not a csvq error).
// (Error.Code() is only the process return code, 1 for nearly every error.)
func ErrCode(err error) int { return ErrNum(err) }

// ErrNum maps an error to csvq's error number (0 = no error, -1 = not a csvq error).
func ErrNum(err error) int {
	if err == nil {
		return 0
	}
	if e, ok := err.(query.Error); ok {
		return e.Number()
	}
	return -1
}

func SortedKeys(m map[string]int) []string {
	ks := make([]string, 0, len(m))
	for k := range m {
		ks = append(ks, k)
	}
	sort.Strings(ks)
	return ks
}

// Main parses the common flags of a stream binary and runs it.
func Main(run func(seed int64, n int, out string, args []string)) {
	fs := flag.NewFlagSet(os.Args[0], flag.ExitOnError)
	seed := fs.Int64("seed", 1, "PRNG seed")
	n := fs.Int("n", 1000, "number of generated cases")
	out := fs.String("out", "", "output directory")
	_ = fs.Parse(os.Args[1:])
	if *out == "" {
		fmt.Fprintln(os.Stderr, "-out is required")
		os.Exit(2)
	}
	run(*seed, *n, *out, fs.Args())
}
