package hc

import (
	"encoding/hex"
	"fmt"
	"math"
	"strconv"
	"strings"
	"unicode/utf8"

	"github.com/mithrandie/csvq/lib/option"
	"github.com/mithrandie/csvq/lib/query"
	"github.com/mithrandie/csvq/lib/value"
	"github.com/mithrandie/ternary"
)

// SqlLit spells p as csvq program text when that is possible without going through another
// conversion whose result could differ from p.
func SqlLit(p value.Primary) (string, bool) {
	switch v := p.(type) {
	case *value.Null:
		return "NULL", true
	case *value.Integer:
		if v.Raw() == math.MinInt64 {
			return "", false
		}
		if v.Raw() < 0 {
			return fmt.Sprintf("(-%d)", -v.Raw()), true
		}
		return fmt.Sprintf("%d", v.Raw()), true
	case *value.Float:
		f := v.Raw()
		if math.IsNaN(f) || math.IsInf(f, 0) || f == 0 && math.Signbit(f) {
			return "", false
		}
		s := strconv.FormatFloat(math.Abs(f), 'f', -1, 64)
		if !strings.Contains(s, ".") {
			s += ".0"
		}
		if f < 0 {
			return "(-" + s + ")", true
		}
		return s, true
	case *value.String:
		s := v.Raw()
		if !utf8.ValidString(s) || strings.ContainsRune(s, 0) {
			return "", false
		}
		return option.QuoteString(s), true
	case *value.Boolean:
		if v.Raw() {
			return "BOOLEAN(TRUE)", true
		}
		return "BOOLEAN(FALSE)", true
	case *value.Ternary:
		switch v.Ternary() {
		case ternary.TRUE:
			return "TRUE", true
		case ternary.FALSE:
			return "FALSE", true
		}
		return "UNKNOWN", true
	case *value.Datetime:
		t := v.Raw()
		if t.Year() < 1 || t.Year() > 9999 {
			return "", false
		}
		return "DATETIME('" + t.UTC().Format("2006-01-02T15:04:05.999999999Z07:00") + "')", true
	}
	return "", false
}

// LitVal draws a value that SqlLit can spell.
func (g *Gen) LitVal() value.Primary {
	for {
		v := g.Val()
		if _, ok := SqlLit(v); ok {
			return v
		}
	}
}

// DeclareTable creates a temporary table `name` with columns id (0..n-1) followed by cols, holding rows.
func (p *Proc) DeclareTable(name string, cols []string, rows [][]value.Primary) error {
	var sb strings.Builder
	fmt.Fprintf(&sb, "DECLARE %s VIEW (id, %s);", name, strings.Join(cols, ", "))
	for start := 0; start < len(rows); start += 200 {
		end := start + 200
		if end > len(rows) {
			end = len(rows)
		}
		fmt.Fprintf(&sb, "INSERT INTO %s VALUES ", name)
		for i := start; i < end; i++ {
			if i > start {
				sb.WriteString(", ")
			}
			sb.WriteString("(" + strconv.Itoa(i))
			for _, v := range rows[i] {
				lit, ok := SqlLit(v)
				if !ok {
					return fmt.Errorf("value without literal")
				}
				sb.WriteString(", " + lit)
			}
			sb.WriteString(")")
		}
		sb.WriteString(";")
	}
	_, err := p.Exec(sb.String())
	return err
}

func (p *Proc) DisposeTable(name string) { _, _ = p.Exec("DISPOSE VIEW " + name + ";") }

func (p *Proc) SetCPU(n int) { _ = p.P.Tx.SetFlag(option.CPUFlag, int64(n)) }

// ViewCell returns the j-th cell of the i-th record.
func ViewCell(v *query.View, i, j int) value.Primary { return v.RecordSet[i][j][0] }

// CellText renders a cell for canonical comparison (never floats as text: exact encoding).
func CellText(p value.Primary) string { return EncVal(p) }

func Hex(s string) string { return hex.EncodeToString([]byte(s)) }

// StrOf returns the string content of a *value.String or the string form of other simple values.
func StrOf(p value.Primary) string {
	if s, ok := p.(*value.String); ok {
		return s.Raw()
	}
	if value.IsNull(p) {
		return ""
	}
	if i, ok := p.(*value.Integer); ok {
		return strconv.FormatInt(i.Raw(), 10)
	}
	return p.String()
}
