package hc

import (
	"fmt"
	"os"
	"path/filepath"
	"strings"
)

// EndingWrapper puts a statement (EXIT, a failing statement) at some depth of nested statement lists.  Wrap may write
// the files it SOURCEs into dir.  Files named end*.sql; markers 'LATE-IN-FILE' are PRINTed by statements that stand
// behind the ending statement inside a sourced file and must never run.
type EndingWrapper struct {
	Name string
	Wrap func(dir, st string) string
}

// EndingWrappers: every construct of csvq that runs a nested statement list, alone and two deep.  Table `b` (column id)
// is expected to exist for the cursor loop.
func EndingWrappers() []EndingWrapper {
	file := func(d, name, text string) string {
		p := filepath.Join(d, name)
		if err := os.WriteFile(p, []byte(text), 0o644); err != nil {
			panic(err)
		}
		return p
	}
	q := func(st string) string { return strings.ReplaceAll(strings.TrimSuffix(st, ";"), "'", "\\'") }
	return []EndingWrapper{
		{"plain", func(d, st string) string { return st }},
		{"if", func(d, st string) string { return "IF TRUE THEN " + st + " END IF;" }},
		{"elseif", func(d, st string) string { return "IF FALSE THEN PRINT 'no'; ELSEIF TRUE THEN " + st + " END IF;" }},
		{"else", func(d, st string) string { return "IF FALSE THEN PRINT 'no'; ELSE " + st + " END IF;" }},
		{"case", func(d, st string) string {
			return "CASE WHEN FALSE THEN PRINT 'no'; WHEN TRUE THEN " + st + " END CASE;"
		}},
		{"case-else", func(d, st string) string { return "CASE 1 WHEN 2 THEN PRINT 'no'; ELSE " + st + " END CASE;" }},
		{"while", func(d, st string) string {
			return "VAR @we := 0; WHILE @we < 3 DO @we := @we + 1; " + st + " END WHILE;"
		}},
		{"while-in", func(d, st string) string {
			return "DECLARE wc CURSOR FOR SELECT id FROM b WHERE id < 3; OPEN wc; VAR @wi; WHILE @wi IN wc DO " + st + " END WHILE;"
		}},
		{"source", func(d, st string) string { return fmt.Sprintf("SOURCE `%s`;", file(d, "end1.sql", st)) }},
		{"source-in-if", func(d, st string) string {
			return fmt.Sprintf("IF TRUE THEN SOURCE `%s`; END IF;", file(d, "end1.sql", st))
		}},
		{"if-in-source", func(d, st string) string {
			return fmt.Sprintf("SOURCE `%s`;", file(d, "end1.sql", "IF TRUE THEN "+st+" END IF; PRINT 'LATE-IN-FILE';"))
		}},
		{"source-in-source", func(d, st string) string {
			inner := file(d, "end2.sql", st)
			return fmt.Sprintf("SOURCE `%s`;", file(d, "end1.sql", fmt.Sprintf("SOURCE `%s`; PRINT 'LATE-IN-FILE';", inner)))
		}},
		{"source-in-while", func(d, st string) string {
			return fmt.Sprintf("VAR @we := 0; WHILE @we < 2 DO @we := @we + 1; SOURCE `%s`; END WHILE;", file(d, "end1.sql", st))
		}},
		{"execute", func(d, st string) string { return "EXECUTE '" + q(st) + "';" }},
		{"prepare", func(d, st string) string { return "PREPARE pe FROM '" + q(st) + "'; EXECUTE pe;" }},
		{"prepare-if", func(d, st string) string {
			return "PREPARE pe FROM 'IF TRUE THEN " + strings.ReplaceAll(st, "'", "\\'") + " END IF'; EXECUTE pe;"
		}},
		{"execute-source", func(d, st string) string {
			return fmt.Sprintf("EXECUTE 'SOURCE `%s`';", file(d, "end1.sql", st))
		}},
	}
}
