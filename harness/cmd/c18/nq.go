package main

// Sub-queries as values and as tables (op c18.nq): the REAL parser and SelectQuery.String() against the Lean model's
// `parseNWhole` / `printN` (Csvq/Model/SubQuery.lean).  Op line `c18.nq <word> …` (the words of c18.qry; a "(" followed
// by SELECT may now stand where a value or a table may); answer: `<shape of the skeleton>{<shapes of its sub-queries in
// text order, separated by ;>} | <printed words>`, or ERR.  The skeleton is the query with its value / table sub-queries
// taken out: the operands of set operators and the bodies of inline tables belong to it (shape letters of c18.qry).
//
// x [NOT] IN (SELECT …) is inside (its sub-query is listed with the others, in text order).
// EXISTS (SELECT …) is inside too (one value).
// Outside the model (counted, not compared): ANY / ALL, row values outside IN, a value sub-query whose text starts
// with a parenthesis, parenthesised tables, back-quoted identifiers, function calls, LATERAL, CASE.

import (
	"fmt"
	"reflect"
	"strings"

	"github.com/mithrandie/csvq/lib/parser"

	"verifharness/hc"
)

type nqWalk struct {
	outside bool
}

// nqShape: skeleton shape + the direct value / table sub-queries of the skeleton, in text order
func (w *nqWalk) nqShape(sq parser.SelectQuery) string {
	var subs []string
	w.collectQuery(sq, &subs)
	return qryShape(sq) + "{" + strings.Join(subs, ";") + "}"
}

func (w *nqWalk) collectQuery(sq parser.SelectQuery, subs *[]string) {
	if wc, ok := sq.WithClause.(parser.WithClause); ok {
		for _, it := range wc.InlineTables {
			if t, ok := it.(parser.InlineTable); ok {
				w.collectQuery(t.Query, subs)
			} else {
				w.outside = true
			}
		}
	}
	w.collectEntity(sq.SelectEntity, subs)
	w.collectValue(reflect.ValueOf(sq.OrderByClause), subs)
	w.collectValue(reflect.ValueOf(sq.LimitClause), subs)
}

func (w *nqWalk) collectEntity(e parser.QueryExpression, subs *[]string) {
	switch x := e.(type) {
	case parser.SelectEntity:
		w.collectValue(reflect.ValueOf(x), subs)
	case parser.Subquery:
		w.collectQuery(x.Query, subs)
	case parser.SelectSet:
		w.collectEntity(x.LHS, subs)
		w.collectEntity(x.RHS, subs)
	default:
		w.outside = true
	}
}

func leftmostIsParen(e parser.QueryExpression) bool {
	switch x := e.(type) {
	case parser.Subquery:
		return true
	case parser.SelectSet:
		return leftmostIsParen(x.LHS)
	}
	return false
}

// every Subquery node met below a clause is a value or a table of this skeleton (fields are visited in the order of the
// struct declarations of ast.go, which is the order of the text for the node types of the modelled vocabulary)
func (w *nqWalk) collectValue(v reflect.Value, subs *[]string) {
	if !v.IsValid() {
		return
	}
	switch v.Kind() {
	case reflect.Interface, reflect.Ptr:
		if !v.IsNil() {
			w.collectValue(v.Elem(), subs)
		}
	case reflect.Slice:
		for i := 0; i < v.Len(); i++ {
			w.collectValue(v.Index(i), subs)
		}
	case reflect.Struct:
		t := v.Type()
		if t.PkgPath() != "github.com/mithrandie/csvq/lib/parser" {
			return
		}
		switch t.Name() {
		case "Subquery":
			sq := v.Interface().(parser.Subquery)
			if leftmostIsParen(sq.Query.SelectEntity) {
				w.outside = true
			}
			*subs = append(*subs, w.nqShape(sq.Query))
			return
		case "In":
			// x [NOT] IN ( sub-query ) / ( values ): the row value behind IN is IN's own parentheses
			in := v.Interface().(parser.In)
			w.collectValue(reflect.ValueOf(in.LHS), subs)
			if rv, ok := in.Values.(parser.RowValue); ok {
				w.collectValue(reflect.ValueOf(rv.Value), subs)
			} else {
				w.outside = true
			}
			return
		case "RowValue", "RowValueList":
			w.outside = true // row values outside IN: row comparisons
		case "Any", "All", "CaseExpr", "TableFunction", "JsonQuery", "FormatSpecifiedFunction", "Function", "AggregateFunction", "AnalyticFunction", "ListFunction":
			w.outside = true
		case "Table":
			if !v.Interface().(parser.Table).Lateral.IsEmpty() {
				w.outside = true
			}
		case "Parentheses":
			if _, ok := v.Interface().(parser.Parentheses).Expr.(parser.Table); ok {
				w.outside = true // '(' table ')': parenthesised tables are not in the model
			}
		}
		for i := 0; i < t.NumField(); i++ {
			if t.Field(i).PkgPath == "" && t.Field(i).Type != typBaseExpr {
				w.collectValue(v.Field(i), subs)
			}
		}
	}
}

// rowValueOutsideIn: the tree holds a row value that is not the parenthesised list / sub-query behind IN (row
// comparisons `(a, b) = (c, d)`, which damaged texts of c18.sel / c18.qry / c18.nq can spell): outside the token model
func rowValueOutsideIn(v reflect.Value) bool {
	if !v.IsValid() {
		return false
	}
	switch v.Kind() {
	case reflect.Interface, reflect.Ptr:
		return !v.IsNil() && rowValueOutsideIn(v.Elem())
	case reflect.Slice:
		for i := 0; i < v.Len(); i++ {
			if rowValueOutsideIn(v.Index(i)) {
				return true
			}
		}
	case reflect.Struct:
		t := v.Type()
		if t.PkgPath() != "github.com/mithrandie/csvq/lib/parser" {
			return false
		}
		switch t.Name() {
		case "RowValue", "RowValueList":
			return true
		case "In":
			in := v.Interface().(parser.In)
			if rowValueOutsideIn(reflect.ValueOf(in.LHS)) {
				return true
			}
			if rv, ok := in.Values.(parser.RowValue); ok {
				return rowValueOutsideIn(reflect.ValueOf(rv.Value))
			}
			return true
		}
		for i := 0; i < t.NumField(); i++ {
			if t.Field(i).PkgPath == "" && t.Field(i).Type != typBaseExpr && rowValueOutsideIn(v.Field(i)) {
				return true
			}
		}
	}
	return false
}

func nqImpl(text string, names map[string]string) string {
	r := tryParse(text, false, false)
	if r.panicked != nil || r.err != nil || len(r.stmts) != 1 {
		return "ERR"
	}
	sq, ok := r.stmts[0].(parser.SelectQuery)
	if !ok {
		return "ERR"
	}
	w := &nqWalk{}
	shape := w.nqShape(sq)
	if w.outside {
		return "OUTSIDE"
	}
	printed, pn := safeString(sq)
	if pn != nil {
		return "PANIC"
	}
	ws, ok := selWords(printed, names)
	if !ok {
		return "OUTSIDE"
	}
	return shape + " | " + strings.Join(ws, " ")
}

func nqCase(o *hc.Out, text string) {
	qryMode, nqMode = true, true
	defer func() { qryMode, nqMode = false, false }()
	names := map[string]string{}
	ws, ok := selWords(text, names)
	if !ok || len(ws) == 0 {
		o.Count("nq.outside_fragment")
		return
	}
	impl := nqImpl(text, names)
	if impl == "OUTSIDE" {
		o.Count("nq.outside_fragment")
		return
	}
	if quotedCallName(ws) {
		o.Count("nq.outside_fragment:quoted_function_name")
		return
	}
	o.Case("c18.nq "+strings.Join(ws, " "), impl)
	if parts := strings.SplitN(impl, " | ", 2); len(parts) == 2 {
		printedLiteralLaw(o, text, ws, strings.Fields(parts[1]))
	}
	if impl == "ERR" {
		o.Count("nq.err")
		o.NonTrivial("nq:err:" + strings.Join(ws, " "))
		return
	}
	o.Count("nq.ok")
	o.Count(fmt.Sprintf("nq.depth:%d", nqDepth(strings.SplitN(impl, " | ", 2)[0])))
	sig := make([]string, 0, len(ws))
	for i, w := range ws {
		if selKeywords[w] || qryKeywords[w] || w == "," || w == "(" || w == ")" {
			sig = append(sig, w)
		} else if i > 0 && ws[i-1] == ")" {
			sig = append(sig, "a")
		}
	}
	o.NonTrivial("nq:" + strings.Join(sig, " "))
}

func nqDepth(shape string) int {
	d, m := 0, 0
	for _, c := range shape {
		switch c {
		case '{':
			d++
			if d > m {
				m = d
			}
		case '}':
			d--
		}
	}
	return m
}

var nqWitnesses = []string{
	"select (select 1)", "select (select (select (select 1)))", "select (select 1) + 2, 3 * (select 4)", "select a from (select 1) t", "select a from (select 1) as t",
	"select a from (select 1)", "select a from t join (select 2) u on t.a = u.a", "select a from (select 1) t cross join (select 2) u",
	"select a from t where a = (select 1)", "select a from t where (select 1) < a and not (select 2) is null", "select a from t where a between (select 1) and (select 2)",
	"select a from t where a in ((select 1), 2)", "select a from t where a not in ((select 1))", "select ((select 1))", "select -(select 1)",
	"select a from t group by (select 1) having (select 2) = 3 order by (select 4) desc limit 2",
	"select (select (select 1 from (select 2) x where (select 3) = 3) from (select (select 4)) y) from (select a from (select b from (select 5) z) w) v where (select (select (select 6))) = 1",
	"select (select 1) union select (select 2)", "select 1 union (select (select 2) from (select 3) t)", "with w as (select (select 1)) select (select a from w) from w",
	"(select (select 1)) union (select 2) order by 1", "select (select 1 union select 2)", "select (select 1 order by 1 limit 1)", "select (with w as (select 1) select a from w)",
	// rejected by both sides
	"select (select 1", "select (select 1))", "select (select)", "select a from t (select 1)", "select a from t as (select 1)", "select 1 as (select 2)", "select (select 1) (select 2)",
	"select a from t join u using ((select 1))", "with (select 1) as (select 2) select 3", "with w ((select 1)) as (select 2) select 3", "select (select 1).*", "select a from (select 1) (select 2)",
	"select (select 1) t from u", "select a from (select 1) t (select 2)",
	"select a from t where a in (select 1)", "select a from t where a not in (select b from (select 2) u) and a in ((select 3))", "select a in (select 1), (select 2) in (select 3 union select 4)",
	"select a in (select 1, 2)", "select a in (select 1) (select 2)", "select a in (select 1", "select a in select 1", "select a from t where a in (with w as (select 1) select b from w)",
	"select exists (select 1)", "select a from t where not exists (select b from u where exists (select 2)) and exists (select 3) = true or a in (select 4)", "select exists (select 1) + 1, -exists (select 2)",
	"select exists 1", "select exists (1)", "select exists", "select exists ((select 1))", "select 1 as exists (select 1)", "select a from exists (select 1)", "select exists (select 1) (select 2)", "select exists (select 1) x",
	// outside the model (counted): a sub-query text that starts with a parenthesis, parenthesised tables
	"select ((select 1) union (select 2))", "select a in ((select 1) union (select 2))", "select a from ((select 1))", "select a from ((select 1) t)",
}

// nqBudget: sub-queries still to be written in the current case (keeps the texts short at every depth)
var nqBudget int

func genNqText(g *hc.Gen, d int) string {
	sub := func() string {
		nqBudget--
		if nqBudget < 0 {
			return g.Pick("a", "7")
		}
		if d <= 0 {
			if g.Intn(3) == 0 {
				return "(" + genQryText(g, 1) + ")"
			}
			return "(select " + fmt.Sprint(1+g.Intn(9)) + g.Pick("", "", " from t", " from u where b > 1", " union select 0") + ")"
		}
		return "(" + genNqText(g, d-1) + ")"
	}
	col := func() string { return g.Pick("a", "b", "c", "d", "7", "12") } // no qualified names: as one word they would pass for a table name
	val := func() string {
		switch g.Intn(6) {
		case 0, 1:
			return sub()
		case 2:
			return sub() + " " + g.Pick("+", "*", "||", "-") + " " + col()
		case 3:
			return g.Pick("-", "not ", "") + "(" + sub() + ")"
		case 4:
			if g.Intn(2) == 0 && nqBudget > 0 {
				return g.Pick("", "not ") + "exists " + sub()
			}
		}
		return col()
	}
	cond := func() string {
		switch g.Intn(6) {
		case 0:
			return val() + " " + g.Pick("=", "<", ">=", "<>") + " " + val()
		case 1:
			return col() + " " + g.Pick("", "not ") + "between " + val() + " and " + val()
		case 2:
			return col() + " " + g.Pick("", "not ") + "in (" + val() + g.Pick("", ", "+val()) + ")"
		case 3:
			if g.Intn(2) == 0 && nqBudget > 1 {
				return col() + " " + g.Pick("", "not ") + "in " + sub()
			}
			return sub() + " is " + g.Pick("", "not ") + "null"
		case 4:
			return val() + " = " + col() + " " + g.Pick("and", "or") + " " + col() + " < " + val()
		}
		return col() + " = " + sub()
	}
	tab := func() string {
		if g.Intn(2) == 0 && nqBudget > 0 {
			return sub() + g.Pick("", " x", " as y", " z")
		}
		return g.Pick("t", "u", "v") + g.Pick("", " x", " as y")
	}
	n := 1 + g.Intn(2)
	items := make([]string, n)
	for i := range items {
		items[i] = val()
		if g.Intn(4) == 0 {
			items[i] += " as " + g.Pick("k", "lbl")
		}
	}
	s := "select " + g.Pick("", "", "distinct ") + strings.Join(items, ", ")
	if g.Intn(4) != 0 {
		r := tab()
		for k := g.Intn(2); k > 0; k-- {
			switch g.Intn(3) {
			case 0:
				r += " cross join " + tab()
			default:
				r += " " + g.Pick("", "inner ", "left ", "full outer ") + "join " + tab() + " on " + cond()
			}
		}
		s += " from " + r + g.Pick("", "", ", "+tab())
	}
	if g.Intn(2) == 0 {
		s += " where " + cond()
	}
	if g.Intn(5) == 0 {
		s += " group by " + val() + g.Pick("", " having "+cond())
	}
	tailed := false
	if g.Intn(4) == 0 {
		s += " order by " + val() + g.Pick("", " desc", " nulls last")
		tailed = true
	}
	if g.Intn(6) == 0 {
		s += " limit " + fmt.Sprint(1+g.Intn(5))
		tailed = true
	}
	k := g.Intn(8)
	if tailed && k < 2 {
		k = 2 // only the last operand of a set operator may carry ORDER BY / LIMIT
	}
	switch k {
	case 0:
		rhs := genNqText(g, d-1)
		if strings.HasPrefix(rhs, "with ") {
			rhs = "(" + rhs + ")" // an operand with its own WITH must be parenthesised
		}
		s += " " + g.Pick("union", "except all", "intersect") + " " + rhs
	case 1:
		s += " union (" + genNqText(g, d-1) + ")" + g.Pick("", " order by 1")
	case 2:
		s = "with w as (" + genNqText(g, d-1) + ") " + s
	}
	return s
}

func genNqCaseText(g *hc.Gen) string {
	nqBudget = 1 + g.Intn(7)
	s := genNqText(g, g.Intn(5))
	if g.Intn(5) == 0 {
		ws := strings.Fields(strings.NewReplacer("(", " ( ", ")", " ) ", ",", " , ").Replace(s))
		i := g.Intn(len(ws))
		switch g.Intn(4) {
		case 0:
			ws = append(ws[:i:i], ws[i+1:]...)
		case 1:
			ws = append(ws[:i+1:i+1], ws[i:]...)
		case 2:
			j := g.Intn(len(ws))
			ws[i], ws[j] = ws[j], ws[i]
		case 3:
			ins := g.Pick("(", ")", "( select 1 )", "select", "as", "union", "in", "x", "1", ",")
			ws = append(ws[:i:i], append([]string{ins}, ws[i:]...)...)
		}
		s = strings.Join(ws, " ")
	}
	return s
}
