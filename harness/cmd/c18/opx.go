package main

// Operator expressions: the REAL parser and String() against the Lean model's precedence-climbing `parse` (driven by the
// table regenerated from parser.y) and `print`.  Op line `c18.opx <word> <word> …`; answer: `<tree shape> <printed
// tokens>` or `ERR`.

import (
	"encoding/hex"
	"fmt"
	"strings"

	"github.com/mithrandie/csvq/lib/option"
	"github.com/mithrandie/csvq/lib/parser"
	"github.com/mithrandie/csvq/lib/value"
	"github.com/mithrandie/ternary"

	"verifharness/hc"
)

type opNode struct {
	kind byte // 'a' atom, 'p' paren, 'u' prefix, 'b' binary, 'i' IS, 'n' NOT LIKE, 'w' BETWEEN, 'l' IN list, 'f' call, 'c' cursor status, 't' cursor attribute
	word string
	neg  bool
	l, r *opNode
	m    *opNode   // lower bound of BETWEEN
	args []*opNode // IN list, call arguments
}

var opBin = []string{"OR", "AND", "=", "==", "<", "<=", ">", ">=", "<>", "!=", "LIKE", "||", "+", "-", "*", "/", "%"}
var opPre = []string{"NOT", "!", "-", "+"}
var opLit = []string{"NULL", "TRUE", "FALSE", "UNKNOWN"}

// ---------- literal words: a string literal is the word '<hex of its content>, a back-quoted identifier `<hex> ----------
// (no blank inside a word; the program text carries option.QuoteString / QuoteIdentifier of the content)

// white space a printer must keep inside a literal: runs of blanks, tab, line breaks, NEL, no-break space, ideographic
// space, EM space - at the start, in the middle and at the end of the content
var litBlanks = []string{"  ", "   ", " ", "\t", "\n", "\r\n", "\u0085", "\u00a0", "\u3000", "\u2003", " \u3000 ", "\t\t", " \u00a0"}
var litPieces = []string{"a", "b", "é", "x1", "'", "`", "\\", "\"", "--", "/*", "1", "%", "_", "AND", "(", ")", ",", "名"}

// the names of the weird columns of table xt (lbl.go): quoted identifiers that evaluate
var quotedColumns = []string{"y  z", "y\u3000z", "y\u00a0z", " y", "y\tz", "y z"}

// op c18.lbl narrows the vocabulary to what table xt and the declared functions have, so that most items evaluate
var opIdentMax = 10
var opQuotedColumnsOnly = false
var opFuncNames = []string{"x0", "x1", "x2", "x3", "x4", "x5", "x6", "x7", "x8", "x9"}

func genLitContent(g *hc.Gen) string {
	var b strings.Builder
	for k := g.Intn(4); k >= 0; k-- {
		switch g.Intn(5) {
		case 0, 1:
			b.WriteString(litBlanks[g.Intn(len(litBlanks))])
		default:
			b.WriteString(litPieces[g.Intn(len(litPieces))])
		}
	}
	return b.String()
}

func strWord(content string) string { return "'" + hex.EncodeToString([]byte(content)) }
func qidWord(content string) string { return "`" + hex.EncodeToString([]byte(content)) }

func isLitWord(w string) bool { return w != "" && (w[0] == '\'' || w[0] == '`') }

func litContent(w string) string {
	b, _ := hex.DecodeString(w[1:])
	return string(b)
}

// wordText: the program text of one word
func wordText(w string) string {
	if isLitWord(w) {
		if w[0] == '\'' {
			return option.QuoteString(litContent(w))
		}
		return option.QuoteIdentifier(litContent(w))
	}
	return w
}

func wordsText(ws []string) string {
	out := make([]string, len(ws))
	for i, w := range ws {
		out[i] = wordText(w)
	}
	return strings.Join(out, " ")
}

// renderLiterals: a text whose only quote characters begin literal words -> the program text
func renderLiterals(s string) string {
	var b strings.Builder
	for i := 0; i < len(s); i++ {
		if s[i] != '\'' && s[i] != '`' {
			b.WriteByte(s[i])
			continue
		}
		j := i + 1
		for j < len(s) && (s[j] >= '0' && s[j] <= '9' || s[j] >= 'a' && s[j] <= 'f') {
			j++
		}
		b.WriteString(wordText(s[i:j]))
		i = j - 1
	}
	return b.String()
}

func literalWords(ws []string) []string {
	var out []string
	for _, w := range ws {
		if isLitWord(w) {
			out = append(out, w)
		}
	}
	return out
}

// tokenWord: a token of the real scanner as a word of the op line ("" = none)
func tokenWord(t parser.Token) string {
	switch {
	case t.Token == parser.STRING:
		return strWord(t.Literal)
	case t.Token == parser.IDENTIFIER && t.Quoted:
		return qidWord(t.Literal)
	}
	return ""
}

func genOpAtom(g *hc.Gen) *opNode {
	if opIdentMax == 0 {
		// constants only
		if g.Intn(2) == 0 {
			return &opNode{kind: 'a', word: strWord(genLitContent(g))}
		}
		return &opNode{kind: 'a', word: fmt.Sprint(g.Intn(10))}
	}
	switch g.Intn(8) {
	case 0, 1:
		return &opNode{kind: 'a', word: fmt.Sprint(g.Intn(10))}
	case 2:
		return &opNode{kind: 'a', word: strWord(genLitContent(g))}
	case 3:
		if opQuotedColumnsOnly || g.Intn(2) == 0 {
			return &opNode{kind: 'a', word: qidWord(quotedColumns[g.Intn(len(quotedColumns))])}
		}
		return &opNode{kind: 'a', word: qidWord(genLitContent(g))}
	}
	return &opNode{kind: 'a', word: fmt.Sprintf("x%d", g.Intn(opIdentMax))}
}

func genOpTree(g *hc.Gen, d int) *opNode {
	if d <= 0 || g.Intn(5) == 0 {
		return genOpAtom(g)
	}
	switch g.Intn(16) {
	case 10:
		return &opNode{kind: 'n', word: "LIKE", l: genOpTree(g, d-1), r: genOpTree(g, d-1)}
	case 11:
		return &opNode{kind: 'w', neg: g.Intn(2) == 0, l: genOpTree(g, d-1), m: genOpTree(g, d-1), r: genOpTree(g, d-1)}
	case 12:
		n := &opNode{kind: 'l', neg: g.Intn(2) == 0, l: genOpTree(g, d-1)}
		for k := 1 + g.Intn(3); k > 0; k-- {
			n.args = append(n.args, genOpTree(g, d-2))
		}
		return n
	case 13:
		n := &opNode{kind: 'f', word: opFuncNames[g.Intn(len(opFuncNames))]}
		for k := g.Intn(4); k > 0; k-- {
			n.args = append(n.args, genOpTree(g, d-2))
		}
		return n
	case 14:
		if g.Intn(4) == 0 {
			return &opNode{kind: 't', word: fmt.Sprintf("x%d", g.Intn(10))}
		}
		cs := &opNode{kind: 'c', word: fmt.Sprintf("x%d", g.Intn(10)), neg: g.Intn(2) == 0}
		if g.Intn(2) == 0 {
			cs.r = &opNode{} // IN RANGE
		}
		return cs
	case 15:
		return &opNode{kind: 'b', word: g.Pick("AND", "OR", "=", "LIKE"), l: genOpTree(g, d-1), r: genOpTree(g, d-1)}
	case 0, 1:
		return &opNode{kind: 'p', l: genOpTree(g, d-1)}
	case 2, 3:
		return &opNode{kind: 'u', word: opPre[g.Intn(len(opPre))], l: genOpTree(g, d-1)}
	case 4:
		return &opNode{kind: 'i', word: opLit[g.Intn(len(opLit))], neg: g.Intn(2) == 0, l: genOpTree(g, d-1)}
	}
	return &opNode{kind: 'b', word: opBin[g.Intn(len(opBin))], l: genOpTree(g, d-1), r: genOpTree(g, d-1)}
}

// words: the tree written down as it is (no parentheses added): the parser may well read a different tree
func (n *opNode) words() []string {
	switch n.kind {
	case 'a':
		return []string{n.word}
	case 'p':
		return append(append([]string{"("}, n.l.words()...), ")")
	case 'u':
		return append([]string{n.word}, n.l.words()...)
	case 'i':
		w := append(n.l.words(), "IS")
		if n.neg {
			w = append(w, "NOT")
		}
		return append(w, n.word)
	case 'n':
		return append(append(n.l.words(), "NOT", n.word), n.r.words()...)
	case 'w':
		w := n.l.words()
		if n.neg {
			w = append(w, "NOT")
		}
		w = append(append(w, "BETWEEN"), n.m.words()...)
		return append(append(w, "AND"), n.r.words()...)
	case 'l', 'f':
		var w []string
		if n.kind == 'l' {
			w = n.l.words()
			if n.neg {
				w = append(w, "NOT")
			}
			w = append(w, "IN")
		} else {
			w = []string{n.word}
		}
		w = append(w, "(")
		for i, a := range n.args {
			if i > 0 {
				w = append(w, ",")
			}
			w = append(w, a.words()...)
		}
		return append(w, ")")
	case 'c':
		w := []string{"CURSOR", n.word, "IS"}
		if n.neg {
			w = append(w, "NOT")
		}
		if n.r != nil {
			return append(w, "IN", "RANGE")
		}
		return append(w, "OPEN")
	case 't':
		return []string{"CURSOR", n.word, "COUNT"}
	}
	return append(append(n.l.words(), n.word), n.r.words()...)
}

func isOperandEnd(w string) bool {
	return w == ")" || w[0] == 'x' || w[0] >= '0' && w[0] <= '9' || w == "NULL" || w == "TRUE" || w == "FALSE" || w == "UNKNOWN"
}

// every word list over the vocabulary is inside the modelled fragment since wave 17 (NOT LIKE / [NOT] IN / [NOT] BETWEEN,
// calls, cursor status)
func opxInFragment(ws []string) bool {
	return true
}

var _ = isOperandEnd

func shapeOf(e parser.QueryExpression) (string, bool) {
	two := func(op string, l, r parser.QueryExpression) (string, bool) {
		a, ok1 := shapeOf(l)
		b, ok2 := shapeOf(r)
		return op + "[" + a + "," + b + "]", ok1 && ok2
	}
	switch x := e.(type) {
	case parser.FieldReference:
		if id, ok := x.Column.(parser.Identifier); ok && x.View.Literal == "" {
			if id.Quoted {
				return qidWord(id.Literal), true
			}
			return id.Literal, true
		}
	case parser.PrimitiveType:
		if _, ok := x.Value.(*value.Integer); ok {
			return x.Literal, true
		}
		if _, ok := x.Value.(*value.String); ok {
			return strWord(x.Literal), true
		}
	case parser.Parentheses:
		s, ok := shapeOf(x.Expr)
		return "P[" + s + "]", ok
	case parser.UnaryArithmetic:
		s, ok := shapeOf(x.Operand)
		return "u" + x.Operator.Literal + "[" + s + "]", ok
	case parser.UnaryLogic:
		s, ok := shapeOf(x.Operand)
		return strings.ToUpper(x.Operator.Literal) + "[" + s + "]", ok
	case parser.Arithmetic:
		return two(x.Operator.Literal, x.LHS, x.RHS)
	case parser.Comparison:
		return two(x.Operator.Literal, x.LHS, x.RHS)
	case parser.Logic:
		return two(strings.ToUpper(x.Operator.Literal), x.LHS, x.RHS)
	case parser.Like:
		if x.IsNegated() {
			return two("NOTLIKE", x.LHS, x.Pattern)
		}
		return two("LIKE", x.LHS, x.Pattern)
	case parser.Between:
		a, ok1 := shapeOf(x.LHS)
		b, ok2 := shapeOf(x.Low)
		c, ok3 := shapeOf(x.High)
		op := "BTW"
		if x.IsNegated() {
			op = "NOTBTW"
		}
		return op + "[" + a + "," + b + "," + c + "]", ok1 && ok2 && ok3
	case parser.In:
		rv, isRow := x.Values.(parser.RowValue)
		if !isRow {
			return "", false
		}
		vl, isList := rv.Value.(parser.ValueList)
		if !isList {
			return "", false
		}
		a, ok := shapeOf(x.LHS)
		l, ok2 := shapeList(vl.Values)
		op := "IN"
		if x.IsNegated() {
			op = "NOTIN"
		}
		return op + "[" + a + "," + l + "]", ok && ok2
	case parser.Function:
		if !x.From.IsEmpty() || !x.For.IsEmpty() || len(x.Name) == 0 || (x.Name[0] != 'x' && x.Name[0] != 'X') {
			return "", false
		}
		l, ok := shapeList(x.Args)
		return "CALL[" + strings.ToLower(x.Name) + "," + l + "]", ok
	case parser.CursorStatus:
		if x.Cursor.Quoted {
			return "", false
		}
		s := "CS[" + x.Cursor.Literal
		if !x.Negation.IsEmpty() {
			s += ",NOT"
		}
		switch x.Type.Token {
		case parser.OPEN:
			return s + ",OPEN]", true
		case parser.RANGE:
			return s + ",RANGE]", true
		}
		return "", false
	case parser.CursorAttrebute:
		if x.Cursor.Quoted || x.Attrebute.Token != parser.COUNT {
			return "", false
		}
		return "CA[" + x.Cursor.Literal + "]", true
	case parser.Concat:
		// the semantic action flattens `a || b || c`; the grammar's tree is left-nested
		if len(x.Items) < 2 {
			return "", false
		}
		s, ok := shapeOf(x.Items[0])
		for _, it := range x.Items[1:] {
			t, ok2 := shapeOf(it)
			s, ok = "||["+s+","+t+"]", ok && ok2
		}
		return s, ok
	case parser.Is:
		s, ok := shapeOf(x.LHS)
		rhs := ""
		if pt, isPt := x.RHS.(parser.PrimitiveType); isPt {
			switch v := pt.Value.(type) {
			case *value.Null:
				rhs = "NULL"
			case *value.Ternary:
				rhs = map[ternary.Value]string{ternary.TRUE: "TRUE", ternary.FALSE: "FALSE", ternary.UNKNOWN: "UNKNOWN"}[v.Ternary()]
			}
		}
		if rhs == "" {
			return "", false
		}
		if x.IsNegated() {
			return "ISNOT[" + s + "," + rhs + "]", ok
		}
		return "IS[" + s + "," + rhs + "]", ok
	}
	return "", false
}

func shapeList(es []parser.QueryExpression) (string, bool) {
	ok := true
	parts := make([]string, len(es))
	for i, e := range es {
		s, k := shapeOf(e)
		parts[i], ok = s, ok && k
	}
	return "(" + strings.Join(parts, ";") + ")", ok
}

// opxImpl: parse `SELECT <words>` with the real parser; shape of the field and the tokens of its String()
func opxImpl(ws []string) string {
	r := tryParse("SELECT "+wordsText(ws), false, false)
	if r.panicked != nil || r.err != nil || len(r.stmts) != 1 {
		return "ERR"
	}
	sq, ok := r.stmts[0].(parser.SelectQuery)
	if !ok {
		return "ERR"
	}
	se, ok := sq.SelectEntity.(parser.SelectEntity)
	if !ok || se.FromClause != nil {
		return "ERR"
	}
	sc, ok := se.SelectClause.(parser.SelectClause)
	if !ok || len(sc.Fields) != 1 {
		return "ERR"
	}
	f, ok := sc.Fields[0].(parser.Field)
	if !ok || f.Alias != nil {
		return "ERR"
	}
	shape, ok := shapeOf(f.Object)
	if !ok {
		return "OUTSIDE"
	}
	printed, pn := safeString(f.Object)
	if pn != nil {
		return "PANIC"
	}
	var toks []string
	for _, t := range scanImpl(printed, false, false).tokens {
		if t.Token == tokEOF {
			break
		}
		if w := tokenWord(t); w != "" {
			toks = append(toks, w)
			continue
		}
		w := strings.ToUpper(t.Literal)
		if len(w) > 0 && w[0] == 'X' {
			w = strings.ToLower(w)
		}
		toks = append(toks, w)
	}
	return shape + " " + strings.Join(toks, ",")
}

var opxWitnesses = []string{
	"x1", "( x1 )", "x1 + x2 * x3", "x1 * x2 + x3", "x1 - x2 - x3", "x1 - ( x2 - x3 )", "x1 || x2 || x3", "x1 || ( x2 || x3 )", "x1 || x2 + x3",
	"NOT x1 = x2", "NOT x1 AND x2", "NOT NOT x1", "! x1 = x2", "! ! x1", "- x1 * x2", "- - x1", "- + x1", "x1 - - x2", "x1 + NOT x2 = x3", "x1 * NOT x2 + x3",
	"x1 OR x2 AND x3", "x1 AND x2 OR x3", "x1 = x2 AND x3 = x4", "x1 = x2 = x3", "x1 < x2 LIKE x3", "( x1 = x2 ) = x3", "x1 = ( x2 = x3 )",
	"x1 IS NULL", "x1 IS NOT NULL", "x1 IS TRUE", "x1 IS NOT UNKNOWN", "x1 = x2 IS NULL", "x1 IS NULL = x2", "x1 IS NULL IS NOT NULL", "x1 + x2 IS NULL",
	"x1 OR x2 IS NULL", "NOT x1 IS NULL", "- x1 IS NULL", "x1 LIKE x2 || x3", "x1 LIKE x2 LIKE x3", "x1 <> x2 + 1", "x1 % 2 == 0",
	"x1 BETWEEN x2 AND x3", "x1 NOT BETWEEN x2 AND x3", "x1 BETWEEN x2 AND x3 AND x4", "x1 BETWEEN x2 AND x3 OR x4", "x1 BETWEEN x2 OR x3 AND x4",
	"x1 BETWEEN x2 AND x3 + x4", "x1 BETWEEN x2 AND x3 = x4", "x1 BETWEEN x2 + 1 AND x3", "x1 BETWEEN x2 = x3 AND x4", "x1 BETWEEN NOT x2 AND x3",
	"x1 BETWEEN x2 AND x3 BETWEEN x4 AND x5", "x1 BETWEEN x2 BETWEEN x3 AND x4 AND x5", "x1 = x2 BETWEEN x3 AND x4", "x1 + x2 BETWEEN x3 AND x4",
	"x0 AND x1 BETWEEN x2 AND x3", "NOT x1 BETWEEN x2 AND x3", "x1 BETWEEN x2 AND NOT x3", "x1 BETWEEN x2 AND x3 IS NULL", "x1 IS NULL BETWEEN x2 AND x3",
	"x1 BETWEEN ( x2 AND x3 ) AND x4", "x1 BETWEEN x2 AND x3 AND x4 BETWEEN x5 AND x6", "x1 BETWEEN x2 AND x3 NOT LIKE x4", "x1 BETWEEN x2", "x1 BETWEEN x2 AND",
	"x1 = x2 NOT LIKE x3", "x1 = x2 LIKE x3", "x1 AND x2 NOT IN ( x3 )", "NOT x1 NOT LIKE x2", "- x1 NOT LIKE x2", "x1 NOT LIKE x2 NOT LIKE x3", "x1 NOT LIKE x2 LIKE x3",
	"x1 LIKE x2 NOT LIKE x3", "x1 NOT LIKE x2 = x3", "x1 || x2 NOT LIKE x3 || x4", "x1 NOT x2", "x1 NOT = x2", "x1 NOT", "x1 NOT NOT LIKE x2",
	"x1 IN ( x2 ) + x3", "x1 = x2 IN ( x3 )", "x1 IN ( x2 ) IN ( x3 )", "x1 IN ( x2 , x3 ) IS NULL", "x1 NOT IN ( x2 ) = x3", "x1 IN ( )", "x1 IN x2", "x1 IN ( x2 ,  )",
	"x1 IN ( x2 , 3 , x4 + 1 )", "x1 ( x2 )", "x1 ( )", "x1 ( x2 , 3 ) + 1", "1 ( x2 )", "x1 ( x2 ( x3 ) , ( x4 ) )", "x1 ( x2", "x1 ( , )", "- x1 ( 2 ) * 3",
	"CURSOR x1 IS OPEN", "CURSOR x1 IS NOT OPEN", "CURSOR x1 IS IN RANGE", "CURSOR x1 IS NOT IN RANGE", "CURSOR x1 COUNT", "CURSOR x1 IS NOT OPEN AND x2",
	"CURSOR x1 IS IN RANGE = x2", "CURSOR x1 COUNT + 1", "CURSOR 1 IS OPEN", "CURSOR x1 IS", "CURSOR x1 IS NOT", "CURSOR x1 IS RANGE", "NOT CURSOR x1 IS OPEN",
	"( x1", "x1 )", "x1 +", "+ ", "x1 x2", "x1 IS x2", "x1 IS NOT", "( )", "x1 ! x2", "NOT", "x1 AND", "* x1", "x1 = = x2",
}

// quotedCallName: a back-quoted identifier directly in front of "(" is a function called by a QUOTED name; Function.String()
// drops the quoting (known finding F30, reported by its own law print_parse_fixpoint:function_name_unquoted): outside the
// comparison of printed words.
func quotedCallName(ws []string) bool {
	for i := 0; i+1 < len(ws); i++ {
		if strings.HasPrefix(ws[i], "`") && ws[i+1] == "(" {
			return true
		}
	}
	return false
}

func opxCase(o *hc.Out, ws []string) {
	if quotedCallName(ws) {
		o.Count("opx.outside_fragment:quoted_function_name")
		return
	}
	if len(ws) == 0 || !opxInFragment(ws) {
		o.Count("opx.outside_fragment")
		return
	}
	impl := opxImpl(ws)
	if impl == "OUTSIDE" {
		o.Count("opx.outside_fragment")
		return
	}
	o.Case("c18.opx "+strings.Join(ws, " "), impl)
	if parts := strings.SplitN(impl, " ", 2); len(parts) == 2 {
		printedLiteralLaw(o, "SELECT "+wordsText(ws), ws, strings.Split(parts[1], ","))
	}
	if impl == "ERR" {
		o.Count("opx.err")
		o.NonTrivial("opx:err:" + strings.Join(ws, " "))
	} else {
		o.Count("opx.ok")
		o.NonTrivial("opx:" + strings.SplitN(impl, " ", 2)[0])
	}
}

// printedLiteralLaw: every string literal and quoted identifier of the program text is in the printed text byte for byte,
// in the same order (the printers neither reorder operands nor touch the content of a literal)
func printedLiteralLaw(o *hc.Out, text string, in, printed []string) {
	a, b := literalWords(in), literalWords(printed)
	if len(a) > 0 {
		o.Count("literal.words_checked")
	}
	if strings.Join(a, " ") != strings.Join(b, " ") {
		o.Law("printed_literal_differs", map[string]string{"text": text, "literals": strings.Join(a, " "), "printed_literals": strings.Join(b, " ")})
	}
}

func genOpxWords(g *hc.Gen) []string {
	ws := genOpTree(g, 1+g.Intn(5)).words()
	if g.Intn(6) == 0 && len(ws) > 0 {
		// damage: delete / duplicate / swap / insert a word
		i := g.Intn(len(ws))
		switch g.Intn(4) {
		case 0:
			ws = append(ws[:i:i], ws[i+1:]...)
		case 1:
			ws = append(ws[:i+1:i+1], ws[i:]...)
		case 2:
			j := g.Intn(len(ws))
			ws[i], ws[j] = ws[j], ws[i]
		case 3:
			ins := g.Pick("(", ")", "IS", "NULL", "x7", "+", "=", "AND", "!", "-", "NOT", "BETWEEN", "IN", "LIKE", ",", "CURSOR", "OPEN", "RANGE")
			ws = append(ws[:i:i], append([]string{ins}, ws[i:]...)...)
		}
	}
	return ws
}
