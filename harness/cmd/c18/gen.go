package main

import (
	"fmt"
	"strings"

	"github.com/mithrandie/csvq/lib/parser"

	"verifharness/hc"
)

// ---------- texts for the scanner diff ----------

var scanWitnesses = []string{
	"", " ", "\n", "\r\n", "\r", "a", "select", "SELECT 1", "sElEct", "ſelect", "Key", "falſe", "TRUE", "unknown",
	"1", "12.5", "1.", "1e5", "1E+5", "1e", "1e+", "1.e1", "9223372036854775807", "9223372036854775808", "1e308", "1e309", "179769313486231580793728971405303415079934132710037826936173778980444968292764750946649017977587207096330286416692887910946555547851940402630657488671505820681908902000708383676273854845817711531764475730270069855571366959622842914819860834936475292719074168444365510704342711559699508093042880177904174497791", "179769313486231580793728971405303415079934132710037826936173778980444968292764750946649017977587207096330286416692887910946555547851940402630657488671505820681908902000708383676273854845817711531764475730270069855571366959622842914819860834936475292719074168444365510704342711559699508093042880177904174497792", "0.1e-400", "00012", "1a", "1.2.3", "1..2",
	"'abc'", "'a''b'", "'a\\'b'", "'a\\\\'", "'abc", "'a\r\nb'", "'a\rb'", "\"abc\"", "\"a\"\"b\"", "`abc`", "`a``b`", "`a\\`b`", "`abc",
	"--", "-- c\nx", "--c\r\nx", "/* c */x", "/* c", "/**/", "/*/", "/ *", "- -", "---", "1--1", "1-1", "-", "/",
	"=", "==", "<>", "!=", ">=", "<=", "||", ":=", "!!", "=>", "|||", "!", ":", "::", "<", ">", "|",
	"@a", "@", "@ a", "@@flag", "@@", "@%env", "@%", "@%`a b`", "@%`a", "@#info", "@#", "@1", "@_", "@@@",
	"$", "$echo 'a;b';x", "$a \"b", "$a ${x;}y};z", "$a ${x\\}y;", "$;", "$echo 'abc", "$echo \"abc", "$echo `abc", "$a 'b\\", "$a ${", "$a ${'", "$a ${b\\", "$a 'b\\'c' \"d\\\"e\" `f\\`g` ${h\\}i} j;k", "$a\r\n'b\r\nc';", "x $ y",
	"?", ":a", ":a :b :a", "? :a ?", ":1", ": a", ":",
	"a:b", "a::b", "a::b(", "a:: (", "a::  \n (1)", "a::", "a:: b", "http://x.y/z?q=1 w", "https://a|b", "a:b{c", "csv::(", "math::pi", "select:1", "count::x", "sum:1", "true:1", "_a:b", "1a:b", "é:x", "٣:x",
	"(", ")", ",", ".", ";", "*", "+", "%", "#", "{", "}", "[", "]", "\\", "~", "^", "&", "\x00", "\x7f", "€", " x", "　x y", "\u0085", "́", "Ⅰ", "­",
	"a.b", "a.1", "t.*", "f(x)", "min(", "MAX", "listagg", "json_agg", "rank", "first_value", "lag", "LEAD", "ntile", "count", "substring", "json_object",
	"select 'a' -- c\n, `b` /* d */ from t where x >= 1.5e3 and y <> @v",
}

var scanDict = []string{
	" ", " ", " ", "\t", "\n", "\r\n", "\r", " ", "　", "\u0085",
	"a", "b", "_", "x1", "tbl", "col", "é", "漢", "ſ", "K", "ı", "٣", "３",
	"select", "SELECT", "from", "where", "and", "or", "not", "is", "null", "true", "FALSE", "unknown", "falſe", "ſelect", "as", "by", "order", "group", "ignore", "nulls", "over",
	"count", "min", "sum", "listagg", "json_agg", "rank", "ntile", "first_value", "nth_value", "lag", "lead", "csv", "json_table", "substring", "json_object", "if",
	"0", "1", "7", "12", "007", "9223372036854775807", "9223372036854775808", "1.5", "1.", ".5", "1e3", "1E-3", "1e", "1e+", "1e308", "1e309", "2e308", "17976931348623157e292", "17976931348623158e292", "17976931348623159e292", "0.00000001e317", "1e-5000",
	".", ".", "e", "E", "+", "-", "-", "--", "/*", "*/", "/", "*", "%",
	"=", "==", "<", ">", "<=", ">=", "<>", "!=", "!", "!!", "|", "||", ":", "::", ":=", "=>",
	"'", "'", "\"", "\"", "`", "`", "\\", "\\'", "\\\\", "''", "\"\"", "``", "'a'", "\"b\"", "`c`", "'it''s'", "'a\\nb'",
	"@", "@@", "@%", "@#", "@a", "@@f", "@%e", "@#r", "@%`e v`", "$", "$cmd arg", "${", "}", "{", ";", ";",
	"?", "?", ":n", ":m", ":n",
	"(", ")", ",", "(", ")", ",", "#", "[", "]", "^", "~", "&", "\x00", "€", "×", "😀", "́", "Ⅰ", "­", "�",
	"http://a.b/c", "file:x", "a::b", "a::(", "a:: (", "x::",
}

func genScanText(g *hc.Gen) string {
	n := g.Intn(10) + 1
	if g.Intn(8) == 0 {
		n += g.Intn(30)
	}
	var b strings.Builder
	for i := 0; i < n; i++ {
		switch g.Intn(12) {
		case 0:
			b.WriteString(genRunes(g, 4))
		case 1:
			b.WriteRune(rune(g.Intn(0x80)))
		default:
			b.WriteString(scanDict[g.Intn(len(scanDict))])
		}
		if g.Intn(3) == 0 {
			b.WriteByte(' ')
		}
	}
	return b.String()
}

// ---------- UnaryArithmetic.String() / UnaryLogic.String() vs the Lean printer ----------

type uTree struct {
	op   byte // 'N' minus, 'P' plus, 'B' bang, 'R' parentheses, 'A' atom
	atom string
	sub  *uTree
}

func (t *uTree) real() parser.QueryExpression {
	switch t.op {
	case 'N':
		return parser.UnaryArithmetic{Operand: t.sub.real(), Operator: parser.Token{Token: '-', Literal: "-"}}
	case 'P':
		return parser.UnaryArithmetic{Operand: t.sub.real(), Operator: parser.Token{Token: '+', Literal: "+"}}
	case 'B':
		return parser.UnaryLogic{Operand: t.sub.real(), Operator: parser.Token{Token: '!', Literal: "!"}}
	case 'R':
		return parser.Parentheses{Expr: t.sub.real()}
	}
	if t.atom[0] >= '0' && t.atom[0] <= '9' {
		return parser.NewIntegerValueFromString(t.atom)
	}
	if t.atom[0] == ':' {
		return parser.Placeholder{Literal: t.atom, Ordinal: 1, Name: t.atom[1:]}
	}
	return parser.FieldReference{Column: parser.Identifier{Literal: t.atom}}
}

func (t *uTree) enc() string {
	if t.op == 'A' {
		return "A" + hx(t.atom)
	}
	return string(t.op) + " " + t.sub.enc()
}

func (t *uTree) shape() string {
	if t.op == 'A' {
		return "A"
	}
	return string(t.op) + t.sub.shape()
}

func commentOpener(s string) bool { return strings.Contains(s, "--") || strings.Contains(s, "/*") }

func unaryCase(o *hc.Out, t *uTree) {
	p := t.real().String()
	c := "0"
	if commentOpener(p) {
		c = "1"
	}
	o.Case("c18.unary "+t.enc(), hx(p)+" "+c)
	o.NonTrivial("unary:" + t.shape())
	o.Count("unary.opener:" + c)
}

func unaryWitnesses(o *hc.Out) {
	one := &uTree{op: 'A', atom: "1"}
	for _, t := range []*uTree{one, {op: 'N', sub: one}, {op: 'N', sub: &uTree{op: 'N', sub: one}}, {op: 'N', sub: &uTree{op: 'R', sub: &uTree{op: 'N', sub: one}}},
		{op: 'P', sub: &uTree{op: 'N', sub: one}}, {op: 'B', sub: &uTree{op: 'B', sub: &uTree{op: 'A', atom: "a"}}}, {op: 'B', sub: &uTree{op: 'A', atom: ":a"}}, {op: 'N', sub: &uTree{op: 'B', sub: &uTree{op: 'A', atom: ":a"}}}} {
		unaryCase(o, t)
	}
}

func genUnary(g *hc.Gen) *uTree {
	t := &uTree{op: 'A', atom: g.Pick("1", "0", "42", "a", "col_1", "x", ":p", ":val")}
	for d := g.Intn(6); d > 0; d-- {
		t = &uTree{op: "NNNPBR"[g.Intn(6)], sub: t}
	}
	return t
}

// ---------- external-command statements ----------

var extPieces = []string{"echo", "ls", "-l", "arg", "a b", " ", " ", "  ", "\t", "\n", "|", ">", "&&", "é", "\\", "\\\\", "\\'", "\\\"", "\\`", "\\}", "\\{",
	"'x'", "'it\\'s'", "'a;b'", "\"y\"", "\"a\\\"b\"", "\"c;d\"", "`z`", "`a\\`b`", "`e;f`", "'", "\"", "`", "'unterminated", "\"unterminated", "`unterminated", "'esc\\", "\"x\\",
	"${@v}", "${@%HOME}", "${1 + 2}", "${'}'}", "${ \\} }", "${ \\{ }", "${;}", "${", "${@v", "${'", "${\\", "$", "$$", "}", "{", "@v", "--", "/*", "*/"}

// genExternal: `$cmd args…` with quotes of all three kinds, ${…} expressions, escapes, terminated by `;` or by the end
// of the input (where quotes and expressions may be left open).
func genExternal(g *hc.Gen) string {
	var b strings.Builder
	if g.Intn(3) == 0 {
		b.WriteString(g.Pick("select 1; ", "print 'a';\n", " ", "\n"))
	}
	b.WriteString("$")
	for n := g.Intn(8); n > 0; n-- {
		b.WriteString(extPieces[g.Intn(len(extPieces))])
		if g.Intn(2) == 0 {
			b.WriteByte(' ')
		}
	}
	switch g.Intn(4) {
	case 0:
		b.WriteString(";")
	case 1:
		b.WriteString("; select 2")
	case 2:
		b.WriteString(g.Pick("'", "\"", "`", "${", "\\", "'abc", "\"abc", "`abc", "${@a", "'a\\"))
	}
	return b.String()
}

// ---------- generator of (mostly valid) queries ----------

type qgen struct {
	g     *hc.Gen
	prep  bool
	ansi  bool
	tbl   bool // only the columns a, b, c / a, d of the tables t, u (NULLs and duplicates) and deterministic functions: evaluated on them
	konst bool // only constants, operators and whitelisted deterministic functions: the query can be evaluated without tables
}

func (q *qgen) pick(xs ...string) string { return xs[q.g.Intn(len(xs))] }

func (q *qgen) kw(s string) string {
	switch q.g.Intn(4) {
	case 0:
		return strings.ToLower(s)
	case 1:
		return strings.ToUpper(s)
	}
	return s
}

func (q *qgen) sp() string { return q.pick(" ", " ", " ", "  ", "\n", "\t", " /* c */ ", " -- c\n") }

func (q *qgen) osp() string { return q.pick("", "", "", " ") }

func (q *qgen) strLit() string {
	body := q.pick("", "a", "abc", "it's", "a\"b", "a`b", "back\\slash", "nl\nx", "tab\tx", "cr\rx", "crlf\r\nx", "é漢", "%", "_", "a%", "2012-02-03", "1", "-1", "1.5", "true", " x ", "--", "/*", "\x07", "😀")
	switch q.g.Intn(6) {
	case 0:
		// hand-written forms the printer never produces
		if !q.ansi {
			return "\"" + strings.ReplaceAll(strings.ReplaceAll(body, "\\", "\\\\"), "\"", q.pick("\"\"", "\\\"")) + "\""
		}
		fallthrough
	case 1:
		return "'" + strings.ReplaceAll(strings.ReplaceAll(body, "\\", "\\\\"), "'", q.pick("''", "\\'")) + "'"
	case 2:
		return "'" + strings.ReplaceAll(strings.ReplaceAll(strings.ReplaceAll(body, "\\", "\\\\"), "'", "\\'"), "\n", "\\n") + "'"
	}
	return "'" + strings.ReplaceAll(strings.ReplaceAll(body, "\\", "\\\\"), "'", "''") + "'"
}

func (q *qgen) numLit() string {
	return q.pick("0", "1", "2", "3", "7", "10", "42", "100", "1.5", "0.25", "2.", "1e2", "1E-2", "9223372036854775807", "9223372036854775808", "007")
}

func (q *qgen) ident() string {
	if q.tbl {
		return q.pick("a", "a", "b", "c")
	}
	switch q.g.Intn(8) {
	case 0:
		return "`" + q.pick("a b", "c`d", "e\\f", "select", "x\ny", "é", "q\"r", "") + "`"
	case 1:
		if q.ansi {
			return "\"" + q.pick("a b", "c\"\"d", "from", "g`h") + "\""
		}
	}
	return q.pick("a", "b", "c", "col1", "id", "name", "t1", "x_y", "é")
}

func (q *qgen) tableName() string {
	return q.pick("t", "u", "`t.csv`", "`dir/t.csv`", "tbl_1")
}

var safeFuncs = []string{"coalesce", "if", "ifnull", "nullif", "ceil", "floor", "round", "abs", "sqrt", "pow", "trim", "ltrim", "rtrim", "upper", "lower",
	"len", "byte_len", "lpad", "rpad", "substr", "instr", "replace", "base64_encode", "hex_encode", "md5", "string", "integer", "float", "boolean", "ternary", "typeof", "width"}

func (q *qgen) atom() string {
	if q.tbl {
		switch q.g.Intn(9) {
		case 0:
			return q.numLit()
		case 1:
			return q.pick("'x'", "'y'", "''", "'10'", "',' ")
		case 2:
			return q.kw(q.pick("true", "false", "unknown", "null"))
		}
		return q.pick("a", "b", "c", "c", "c", "t.a", "t.c", "d")
	}
	n := 10
	if q.konst {
		n = 5
	}
	switch q.g.Intn(n) {
	case 0, 1:
		return q.numLit()
	case 2:
		return q.strLit()
	case 3:
		return q.kw(q.pick("true", "false", "unknown", "null"))
	case 4:
		return q.numLit()
	case 5:
		if q.prep && q.g.Intn(2) == 0 {
			return q.pick("?", ":p1", ":p2", ":val")
		}
		return q.pick("@v", "@var_1", "@%HOME", "@%`A B`", "@#uncommitted", "@#VERSION", "@@delimiter", "@@ANSI_QUOTES", "@é")
	case 6:
		return q.ident() + "." + q.pick(q.ident(), "1", "2", q.ident())
	}
	return q.ident()
}

func (q *qgen) exprList(d, min, max int) string {
	n := min + q.g.Intn(max-min+1)
	parts := make([]string, n)
	for i := range parts {
		parts[i] = q.expr(d)
	}
	return strings.Join(parts, ","+q.osp())
}

func (q *qgen) orderBy(d int) string {
	n := 1 + q.g.Intn(2)
	parts := make([]string, n)
	for i := range parts {
		parts[i] = q.expr(d) + q.pick("", "", " asc", " DESC") + q.pick("", "", " nulls first", " NULLS LAST")
	}
	return q.kw("order") + q.sp() + q.kw("by") + " " + strings.Join(parts, ", ")
}

func (q *qgen) over(d int) string {
	var parts []string
	if q.g.Intn(2) == 0 {
		parts = append(parts, q.kw("partition by")+" "+q.exprList(d, 1, 2))
	}
	if q.g.Intn(3) != 0 {
		parts = append(parts, q.orderBy(d))
		if q.g.Intn(3) == 0 {
			fr := func() string {
				return q.pick("unbounded preceding", "1 preceding", "current row", "2 following", "UNBOUNDED FOLLOWING", "0 preceding")
			}
			if q.g.Intn(2) == 0 {
				parts = append(parts, "rows "+fr())
			} else {
				parts = append(parts, "rows between "+fr()+" and "+fr())
			}
		}
	}
	return q.kw("over") + q.osp() + "(" + strings.Join(parts, " ") + ")"
}

func (q *qgen) expr(d int) string {
	if d <= 0 {
		return q.atom()
	}
	n := 34
	if q.konst {
		n = 24
	}
	if q.tbl {
		n = 30
	}
	d--
	switch q.g.Intn(n) {
	case 0, 1, 2:
		return q.atom()
	case 3:
		return "(" + q.osp() + q.expr(d) + q.osp() + ")"
	case 4:
		// unary minus / plus with every spacing, nested directly as well
		return q.pick("-", "-", "+") + q.pick("", "", " ", "  ", "\n") + q.expr(d)
	case 5:
		return "!" + q.pick("", "", " ") + q.expr(d)
	case 6:
		return q.kw("not") + " " + q.expr(d)
	case 7, 8:
		if q.g.Intn(15) == 0 {
			// an unrecognised operator in front of a real one (the scanner returns the token code Uncategorized)
			return q.expr(d) + " " + q.pick("!!", "=!", "=>", "|||", "<<", "<=>") + " " + q.pick("+", "-", "*", "/", "%") + " " + q.expr(d)
		}
		return q.expr(d) + q.osp() + q.pick("+", "-", "*", "/", "%") + q.osp() + q.expr(d)
	case 9, 10:
		return q.expr(d) + q.osp() + q.pick("=", "==", "<", ">", "<=", ">=", "<>", "!=") + q.osp() + q.expr(d)
	case 11:
		return q.expr(d) + " " + q.kw(q.pick("and", "or")) + " " + q.expr(d)
	case 12:
		return q.expr(d) + q.osp() + "||" + q.osp() + q.expr(d)
	case 13:
		return q.expr(d) + " " + q.kw("is") + q.pick(" ", " not ") + q.kw(q.pick("null", "true", "false", "unknown"))
	case 14:
		return q.expr(d) + q.pick(" ", " not ") + q.kw("between") + " " + q.expr(d) + " and " + q.expr(d)
	case 15:
		return q.expr(d) + q.pick(" ", " not ") + q.kw("in") + " (" + q.exprList(d, 1, 3) + ")"
	case 16:
		return q.expr(d) + q.pick(" ", " NOT ") + q.kw("like") + " " + q.strLit()
	case 17:
		s := q.kw("case")
		if q.g.Intn(2) == 0 {
			s += " " + q.expr(d)
		}
		for i := q.g.Intn(2) + 1; i > 0; i-- {
			s += " " + q.kw("when") + " " + q.expr(d) + " " + q.kw("then") + " " + q.expr(d)
		}
		if q.g.Intn(2) == 0 {
			s += " else " + q.expr(d)
		}
		return s + " " + q.kw("end")
	case 18, 19:
		if !q.konst && !q.tbl && q.g.Intn(12) == 0 {
			// a user-defined function whose name needs quoting
			return q.pick("`my func`", "`f-1`", "`select`", "`f`") + "(" + q.exprList(d, 0, 2) + ")"
		}
		return q.kw(safeFuncs[q.g.Intn(len(safeFuncs))]) + q.osp() + "(" + q.exprList(d, 0, 3) + ")"
	case 20:
		return "(" + q.exprList(d, 2, 3) + ")" + q.pick(" = ", " <> ", " < ", " in ") + "(" + q.pick(q.exprList(d, 2, 3), "("+q.exprList(d, 2, 2)+"), ("+q.exprList(d, 2, 2)+")") + ")"
	case 21:
		return q.kw("substring") + "(" + q.expr(d) + " from " + q.expr(d) + q.pick("", " for "+q.expr(d)) + ")"
	case 22:
		return "(" + q.selectQuery(d) + ")"
	case 23:
		return q.expr(d) + " " + q.pick("=", "<", ">=", "<>") + " " + q.kw(q.pick("any", "all")) + " (" + q.pick(q.selectQuery(d), q.exprList(d, 1, 2)) + ")"
	case 24:
		return q.kw("exists") + " (" + q.selectQuery(d) + ")"
	case 25:
		return q.kw(q.pick("count", "min", "max", "sum", "avg", "median", "stdev", "varp")) + "(" + q.pick("", "distinct ", "DISTINCT ") + q.pick("*", q.expr(d), q.expr(d)) + ")"
	case 26:
		s := q.kw(q.pick("listagg", "json_agg")) + "(" + q.pick("", "distinct ") + q.exprList(d, 1, 2) + ")"
		if q.g.Intn(2) == 0 {
			s += " within group (" + q.orderBy(d) + ")"
		}
		return s
	case 27:
		return q.kw(q.pick("row_number", "rank", "dense_rank", "cume_dist", "percent_rank")) + "() " + q.over(d)
	case 28:
		return q.kw(q.pick("first_value", "last_value", "nth_value", "lag", "lead", "ntile")) + "(" + q.exprList(d, 1, 2) + ")" + q.pick("", "", " ignore nulls", " IGNORE NULLS") + " " + q.over(d)
	case 29:
		return q.kw(q.pick("count", "sum", "min", "listagg", "json_agg", "avg")) + "(" + q.pick("", "distinct ") + q.exprList(d, 1, 2) + ") " + q.over(d)
	case 30:
		return "@" + q.pick("v", "x1") + q.pick(" := ", ":=") + q.expr(d)
	case 31:
		return q.kw("cursor") + " " + q.pick("cur", "`c 1`") + " " + q.pick("is open", "is not open", "is in range", "is not in range", "count")
	case 32:
		return q.kw(q.pick("json_value", "json_object", "json_row", "now", "call", "userfunc", "rand", "datetime_format", "count")) + "(" + q.exprList(d, 0, 2) + ")"
	}
	return q.pick("math::pi", "DATETIME::UTC", "int::max", "csvq::version", "x::y")
}

func (q *qgen) table(d int) string {
	if q.tbl {
		return q.pick("t", "t", "t", "u", "t x", "u as y", "(select a, c from t) s", "(select distinct a from u) s")
	}
	var s string
	switch q.g.Intn(12) {
	case 0:
		s = "(" + q.selectQuery(d) + ")" + q.pick(" ", " as ") + q.pick("s", "sub")
		return s
	case 1:
		s = q.kw(q.pick("csv", "fixed", "json", "jsonl", "ltsv")) + "(" + q.pick("',', ", "'q', ", "") + q.pick("`t.csv`", "'t.csv'", "t") + q.pick("", ", 'utf8'", ", 'sjis', true") + ")"
	case 2:
		s = q.kw("json_table") + "(" + q.strLit() + ", " + q.pick("`t.json`", "'{}'") + ")"
	case 3:
		s = q.pick("stdin", "STDIN", "dual")
	case 4:
		s = q.pick("https://example.com/a.csv", "file:./t.csv", "file:///tmp/x.json", "http://h/p?q=1&r=2")
	case 5:
		s = q.pick("csv", "json", "data") + "::" + q.osp() + "(" + q.pick("`t.csv`", "'x', `t`", "") + ")"
	case 6:
		s = q.kw("csv_inline") + "(" + q.strLit() + ")"
	default:
		s = q.tableName()
	}
	return s + q.pick("", "", " x", " as y", " AS `a b`")
}

func (q *qgen) from(d int) string {
	t := q.table(d)
	for i := q.g.Intn(3); i > 0; i-- {
		switch q.g.Intn(7) {
		case 0:
			t += ", " + q.table(d)
		case 1:
			t += " cross join " + q.pick("", "lateral ") + q.table(d)
		case 2:
			t += " natural " + q.pick("", "inner ", "left ", "right outer ") + "join " + q.table(d)
		case 3:
			t += " " + q.pick("left", "right", "full") + q.pick(" ", " outer ") + "join " + q.pick("", "lateral ") + q.table(d) + " using (" + q.ident() + ")"
		default:
			t += q.pick(" join ", " inner join ", " JOIN ") + q.table(d) + " on " + q.expr(d)
		}
	}
	return q.kw("from") + q.sp() + t
}

func (q *qgen) selectEntity(d int) string {
	n := 1 + q.g.Intn(3)
	fields := make([]string, n)
	for i := range fields {
		switch {
		case !q.konst && q.g.Intn(12) == 0:
			fields[i] = q.pick("*", "t.*", "`a b`.*")
			if q.tbl {
				fields[i] = "*"
			}
		default:
			fields[i] = q.expr(d)
			if q.g.Intn(4) == 0 {
				fields[i] += q.pick(" as ", " AS ") + q.pick("c1", "`l b`", "lbl", "'str'")
			}
		}
	}
	s := q.kw("select") + q.sp() + q.pick("", "", "", "distinct ") + strings.Join(fields, ","+q.osp())
	if q.konst {
		return s
	}
	if !q.tbl && q.g.Intn(12) == 0 {
		s += " into @a" + q.pick("", ", @b")
	}
	if q.tbl || q.g.Intn(4) != 0 {
		s += q.sp() + q.from(d)
	}
	if q.g.Intn(3) == 0 {
		s += q.sp() + q.kw("where") + " " + q.expr(d)
	}
	if q.g.Intn(4) == 0 {
		s += " " + q.kw("group by") + " " + q.exprList(d, 1, 2)
		if q.g.Intn(2) == 0 {
			s += " " + q.kw("having") + " " + q.expr(d)
		}
	}
	return s
}

func (q *qgen) selectQuery(d int) string {
	if d > 0 {
		d--
	}
	s := q.selectEntity(d)
	if q.g.Intn(8) == 0 {
		s += " " + q.kw(q.pick("union", "intersect", "except")) + q.pick(" ", " all ") + q.pick(q.selectEntity(d), "("+q.selectQuery(d)+")")
	}
	if q.konst {
		return s
	}
	if q.g.Intn(5) == 0 {
		s += " " + q.orderBy(d)
	}
	switch q.g.Intn(12) {
	case 0:
		s += " limit " + q.expr(0) + q.pick("", " percent", " rows", " row") + q.pick("", " with ties", " only") + q.pick("", " offset "+q.expr(0), " offset 1 rows")
	case 1:
		s += q.pick("", " offset "+q.numLit()+q.pick("", " rows", " row")) + " fetch " + q.pick("first", "next") + " " + q.expr(0) + " " + q.pick("rows", "row", "percent") + q.pick(" only", " with ties")
	case 2:
		s += " offset " + q.expr(0)
	}
	if !q.tbl && q.g.Intn(25) == 0 {
		s += " for update"
	}
	if q.g.Intn(20) == 0 {
		s = q.kw("with") + " " + q.pick("", "recursive ") + "ct" + q.pick("", "(n)", "(n, m)") + " as (" + q.selectQuery(d) + ")" + q.pick("", ", c2 as (select 1)") + " " + s
	}
	return s
}

func genQuery(g *hc.Gen, prep, ansi, konst bool) string {
	q := &qgen{g: g, prep: prep, ansi: ansi, konst: konst}
	d := 1 + g.Intn(4)
	s := q.selectQuery(d)
	if g.Intn(10) == 0 {
		s += ";"
	}
	return s
}

func genTableQuery(g *hc.Gen, ansi bool) string {
	q := &qgen{g: g, ansi: ansi, tbl: true}
	return q.selectQuery(1 + g.Intn(3))
}

// ---------- the tables the queries are evaluated on: NULLs and duplicates in every column ----------

var tableFiles = map[string]string{
	"t.csv": "a,b,c\n1,x,10\n2,y,\n3,x,10\n4,,30\n5,y,\n6,z,20\n2,y,\n,x,20\n7,,\n",
	"u.csv": "a,d\n1,p\n2,q\n2,r\n9,s\n,t\n3,\n",
	// op c18.lbl: the columns x0..x3 of the model's vocabulary and columns whose names need back quotes (opx.go quotedColumns)
	"xt.csv": "x0,x1,x2,x3,\"y  z\",\"y\u3000z\",\"y\u00a0z\",\" y\",\"y\tz\",\"y z\"\n" +
		"1,a,10,a  b,p,q,r,s,t,u\n2,a b,,a b,P,,r,s,t,v\n3,,30,a\u3000b,,q,r,,t,w\n,x y,2,A,p,q,,s,,u\n-5,a  b,10,1,p,q,r,s,t,\n",
}

// clauseMatrix: every combination of the optional parts of the grammar's productions (each production's options
// exhaustively, which covers all pairs), as queries on t / u. `eval` = the query reads only t / u and is evaluated.
// Where the options of a clause only matter together with another item of the select list (csvq identifies analytic,
// aggregate and list function calls by their printed text) both variants stand side by side.
func clauseMatrix() (out []struct {
	text string
	eval bool
}) {
	add := func(eval bool, s string) {
		out = append(out, struct {
			text string
			eval bool
		}{s, eval})
	}
	dirs := []string{"", " asc", " desc"}
	nulls := []string{"", " nulls first", " nulls last"}
	for _, d := range dirs {
		for _, n := range nulls {
			add(true, "select a, c from t order by c"+d+n+", a")
			add(true, "select a, c from t order by b"+d+n+", c"+n+d[:0]+", a desc")
			add(true, "select a, rank() over (order by c"+d+n+") from t")
			add(true, "select a, first_value(a) over (partition by b order by c"+d+n+", a) from t")
			add(true, "select listagg(c, ',') within group (order by c"+d+n+") from t")
			add(true, "select b, json_agg(c) within group (order by c"+d+n+") from t group by b")
			add(true, "select a from t order by c"+d+n+" limit 3")
			for _, d2 := range dirs {
				for _, n2 := range nulls {
					if d == d2 && n == n2 {
						continue
					}
					// two calls that differ only in the order item
					add(true, "select a, rank() over (order by c"+d+n+"), rank() over (order by c"+d2+n2+") from t")
					if d < d2 || n < n2 {
						add(true, "select listagg(a, ',') within group (order by c"+d+n+", a), listagg(a, ',') within group (order by c"+d2+n2+", a) from t")
					}
				}
			}
		}
	}
	// LIMIT / FETCH / OFFSET
	for _, unit := range []string{"", " percent", " rows", " row"} {
		for _, restr := range []string{"", " with ties", " only"} {
			for _, off := range []string{"", " offset 1", " offset 2 rows", " offset 1 row"} {
				n := "3"
				if unit == " percent" {
					n = "40"
				}
				add(true, "select a, c from t order by c desc nulls last limit "+n+unit+restr+off)
			}
		}
	}
	for _, off := range []string{"", "offset 1 ", "offset 2 rows ", "offset 1 row "} {
		for _, pos := range []string{"first", "next"} {
			for _, cnt := range []string{"2 rows", "1 row", "40 percent"} {
				for _, restr := range []string{"only", "with ties"} {
					add(true, "select a, c from t order by c nulls first "+off+"fetch "+pos+" "+cnt+" "+restr)
				}
			}
		}
	}
	for _, off := range []string{"offset 2", "offset 2 rows", "offset 1 row"} {
		add(true, "select a from t order by a "+off)
	}
	// DISTINCT
	for _, dq := range []string{"", "distinct "} {
		add(true, "select "+dq+"b from t order by b")
		add(true, "select "+dq+"b, c from t order by b, c")
		add(true, "select count("+dq+"b), sum("+dq+"c), min("+dq+"c), avg("+dq+"c) from t")
		add(true, "select listagg("+dq+"b, ',') within group (order by b) from t")
		add(true, "select listagg("+dq+"b, ',') from (select b from t order by b) s")
		add(true, "select json_agg("+dq+"c) within group (order by c) from t")
		add(true, "select a, count("+dq+"b) over (partition by c) from t")
		add(true, "select a, listagg("+dq+"b, ',') over (partition by c) from t")
	}
	add(true, "select count(b), count(distinct b), sum(c), sum(distinct c) from t")
	add(true, "select a, count(b) over (), count(distinct b) over () from t")
	add(true, "select listagg(b, ',') within group (order by b), listagg(distinct b, ',') within group (order by b) from t")
	// IGNORE NULLS (F20: printed inside the parentheses) and the functions that take it
	for _, fn := range []string{"first_value(c)", "last_value(c)", "nth_value(c, 2)", "lag(c)", "lead(c)", "lag(c, 2, 0)"} {
		for _, ign := range []string{"", " ignore nulls"} {
			add(true, "select a, "+fn+ign+" over (order by a) from t")
		}
	}
	// frames
	lows := []string{"unbounded preceding", "1 preceding", "current row", "1 following"}
	highs := []string{"1 preceding", "current row", "1 following", "unbounded following"}
	for _, lo := range lows[:3] {
		add(true, "select a, sum(c) over (order by a rows "+lo+") from t")
		add(true, "select a, sum(c) over (order by a rows "+lo+"), sum(c) over (order by a) from t")
	}
	for _, lo := range lows {
		for _, hi := range highs {
			add(true, "select a, sum(c) over (order by a rows between "+lo+" and "+hi+") from t")
			add(true, "select a, last_value(c) over (partition by b order by a rows between "+lo+" and "+hi+"), last_value(c) over (partition by b order by a) from t")
		}
	}
	for _, part := range []string{"", "partition by b "} {
		for _, ord := range []string{"", "order by a "} {
			add(true, "select a, count(*) over ("+part+ord+"), sum(c) over ("+part+ord+") from t")
			add(true, "select a, row_number() over ("+part+ord+"), ntile(2) over ("+part+ord+") from t")
		}
	}
	// joins
	for _, kind := range []string{"", "inner ", "left ", "right ", "full ", "left outer ", "right outer ", "full outer "} {
		for _, lat := range []string{"", "lateral "} {
			tab := "u"
			if lat != "" {
				tab = "(select a, d from u) s"
			}
			add(true, "select t.a, c, d from t "+kind+"join "+lat+tab+" on t.a = "+map[bool]string{true: "s", false: "u"}[lat != ""]+".a order by t.a, d")
			add(true, "select a, c, d from t "+kind+"join "+lat+tab+" using (a) order by a, d")
		}
		if !strings.HasPrefix(kind, "full") {
			add(true, "select a, c, d from t natural "+kind+"join u order by a, d")
		}
	}
	for _, lat := range []string{"", "lateral "} {
		add(true, "select t.a, s.a from t cross join "+lat+"(select a from u) s order by t.a, s.a")
		add(true, "select t.a, s.a from t, "+lat+"(select a from u) s order by t.a, s.a")
	}
	for _, as := range []string{" ", " as "} {
		add(true, "select x.a from t"+as+"x order by x.a")
		add(true, "select a"+as+"k, c"+as+"`l b` from t order by a")
	}
	// set operators
	for _, op := range []string{"union", "intersect", "except"} {
		for _, all := range []string{"", " all"} {
			add(true, "select a from t "+op+all+" select a from u")
			add(true, "select a from t "+op+all+" (select a from u "+op+" select a from t where a > 2)")
		}
	}
	// WITH
	for _, rec := range []string{"", "recursive "} {
		for _, f := range []string{"", " (n)"} {
			add(true, "with "+rec+"ct"+f+" as (select a from t) select * from ct order by 1")
		}
	}
	add(true, "with recursive ct (n) as (select 1 union all select n + 1 from ct where n < 4) select n from ct")
	add(true, "with c1 as (select a from t), c2 (x, y) as (select a, d from u) select * from c1, c2 order by 1, 2, 3")
	// WHERE / GROUP BY / HAVING
	for _, w := range []string{"", " where c is not null"} {
		for _, g := range []string{"", " group by b", " group by b having count(*) > 1"} {
			add(true, "select "+map[bool]string{true: "count(*)", false: "b, count(*)"}[g == ""]+" from t"+w+g+" order by 1")
		}
	}
	// negations, CASE forms, SUBSTRING forms, IS / BETWEEN / IN / LIKE
	for _, not := range []string{"", " not"} {
		add(true, "select a, c is"+not+" null, b"+not+" like 'x', c"+not+" between 10 and 20, a"+not+" in (1, 2, 3), b is"+not+" null from t order by a")
		add(true, "select a, c"+not+" in (select a * 10 from u) from t order by a")
	}
	for _, v := range []string{"", " c"} {
		for _, el := range []string{"", " else 'e'"} {
			w := "when c > 10 then 'big'"
			if v != "" {
				w = "when 10 then 'ten' when 20 then 'twenty'"
			}
			add(true, "select a, case"+v+" "+w+el+" end from t order by a")
		}
	}
	add(true, "select substring(b from 1), substring(b from 1 for 1), substring(b, 1), substring(b, 1, 1) from t")
	for _, q := range []string{"any", "all"} {
		add(true, "select a, a = "+q+" (select a from u), a > "+q+" (1, 2) from t order by a")
	}
	add(true, "select a, exists (select 1 from u where u.a = t.a) from t order by a")
	// printed only (state changing or needing a session): FOR UPDATE, INTO, cursors
	add(false, "select a from t for update")
	add(false, "select a from t order by a limit 1 for update")
	add(false, "select a into @x from t limit 1")
	add(false, "select a, c into @x, @y from t where a = 1")
	for _, st := range []string{"is open", "is not open", "is in range", "is not in range", "count"} {
		add(false, "select cursor cur "+st)
	}
	return out
}

var _ = fmt.Sprintf
