package main

// SELECT clause skeleton: the REAL parser and String() against the Lean model's recursive-descent `parseSelect` and
// `printSelect` (Csvq/Model/Clause.lean).  Op line `c18.sel <word> …` (identifiers renamed x0, x1, … in order of first
// appearance); answer: the printed tokens of the parsed query, or `ERR`.

import (
	"fmt"
	"reflect"
	"strings"

	"github.com/mithrandie/csvq/lib/parser"

	"verifharness/hc"
)

var selKeywords = map[string]bool{"SELECT": true, "DISTINCT": true, "FROM": true, "WHERE": true, "GROUP": true, "BY": true, "HAVING": true,
	"ORDER": true, "ASC": true, "DESC": true, "NULLS": true, "FIRST": true, "LAST": true, "LIMIT": true, "OFFSET": true, "PERCENT": true,
	"ROW": true, "ROWS": true, "ONLY": true, "WITH": true, "TIES": true, "AS": true, "JOIN": true, "INNER": true, "OUTER": true, "LEFT": true,
	"RIGHT": true, "FULL": true, "CROSS": true, "NATURAL": true, "ON": true, "USING": true, "OR": true, "AND": true, "NOT": true, "IS": true,
	"LIKE": true, "NULL": true, "BETWEEN": true, "IN": true}

// query level (op c18.qry): set operators, parenthesised queries as their operands, WITH, FOR UPDATE
var qryMode bool

// sub-queries as values / tables are admitted (op c18.nq; implies qryMode); back-quoted identifiers are not (their atom
// codes are the sub-query atoms of Model/SubQuery.lean)
var nqMode bool
var qryKeywords = map[string]bool{"UNION": true, "EXCEPT": true, "INTERSECT": true, "ALL": true, "RECURSIVE": true, "FOR": true, "UPDATE": true}

// operandStart: a "(" at position i of raw (followed by SELECT or by another such "(") stands where a set operand or the
// query of an inline table may start - not where an expression or a table may
func operandStart(raw []string, i int) bool {
	for i > 0 && raw[i-1] == "(" {
		i--
	}
	if i == 0 {
		return true
	}
	switch raw[i-1] {
	case "UNION", "EXCEPT", "INTERSECT", "ALL", "AS":
		return true
	}
	return false
}

var selChars = map[rune]bool{'(': true, ')': true, ',': true, '.': true, '*': true, '+': true, '-': true, '/': true, '%': true, '=': true, '!': true}

func isIdentWord(w string) bool {
	return w != "" && (w[0] >= 'a' && w[0] <= 'z' || w[0] == '_') && !selKeywords[strings.ToUpper(w)]
}

func isNumWord(w string) bool { return w != "" && w[0] >= '0' && w[0] <= '9' }

// selWords: the token words of a text as the model sees them; ok = false when the text leaves the modelled vocabulary.
func selWords(text string, names map[string]string) (ws []string, ok bool) {
	res := scanImpl(sanitize(text), false, false)
	if res.err != nil || res.panicked != nil {
		return nil, false
	}
	var raw []string
	for _, t := range res.tokens {
		switch {
		case t.Token == tokEOF:
		case tokenWord(t) != "":
			// a string literal / back-quoted identifier: the word carries its content byte for byte
			if nqMode && tokenWord(t)[0] == '`' {
				return nil, false
			}
			raw = append(raw, tokenWord(t))
		case t.Token == parser.IDENTIFIER && !t.Quoted && isIdentWord(strings.ToLower(t.Literal)) && t.Literal == strings.ToLower(t.Literal):
			raw = append(raw, t.Literal)
		case t.Token == parser.INTEGER && len(t.Literal) < 6:
			raw = append(raw, t.Literal)
		case t.Token == parser.TERNARY:
			raw = append(raw, strings.ToUpper(t.Literal))
		case t.Token == parser.COMPARISON_OP || t.Token == parser.STRING_OP:
			raw = append(raw, t.Literal)
		case t.Token >= parser.SELECT && t.Token <= parser.JSON_OBJECT:
			if !selKeywords[strings.ToUpper(t.Literal)] && !(qryMode && qryKeywords[strings.ToUpper(t.Literal)]) && !(nqMode && strings.ToUpper(t.Literal) == "EXISTS") {
				return nil, false
			}
			raw = append(raw, strings.ToUpper(t.Literal))
		case t.Token > 0 && t.Token < 128 && selChars[rune(t.Token)]:
			raw = append(raw, string(rune(t.Token)))
		case t.Token == ';':
			raw = append(raw, ";")
		default:
			return nil, false
		}
	}
	for len(raw) > 0 && raw[len(raw)-1] == ";" {
		raw = raw[:len(raw)-1]
	}
	// fuse qualified names, reject what the model does not cover
	for i := 0; i < len(raw); i++ {
		w := raw[i]
		switch {
		case w == ";":
			return nil, false
		case isLitWord(w) && (i+1 < len(raw) && (raw[i+1] == "." || raw[i+1] == "(" && w[0] == '`') || i > 0 && raw[i-1] == "."):
			return nil, false // a quoted name as qualifier / function name, a literal behind a dot
		case isIdentWord(w) && i+2 < len(raw) && raw[i+1] == "." && isIdentWord(raw[i+2]):
			ws = append(ws, w+"."+raw[i+2])
			i += 2
		case isIdentWord(w) && i+1 < len(raw) && raw[i+1] == "(" && !(qryMode && i > 0 && (raw[i-1] == "WITH" || raw[i-1] == "RECURSIVE" || raw[i-1] == ",")) && !(nqMode && i+2 < len(raw) && raw[i+2] == "SELECT"):
			return nil, false // function call
		case w == "." && !(i+1 < len(raw) && raw[i+1] == "*" && i > 0 && isIdentWord(raw[i-1])):
			return nil, false // t.1, stray dots
		case w == "(" && i+1 < len(raw) && raw[i+1] == "SELECT" && !(qryMode && operandStart(raw, i)) && !nqMode:
			return nil, false // sub-select
		case w == "WITH" && !(i+1 < len(raw) && raw[i+1] == "TIES") && !qryMode:
			return nil, false // common table expression
		case (w == "FIRST" || w == "LAST") && !(i > 0 && raw[i-1] == "NULLS"):
			return nil, false // FETCH FIRST
		case (w == "LIMIT" || w == "OFFSET") && !(i+1 < len(raw) && isNumWord(raw[i+1])):
			return nil, false
		case (w == "LIMIT" || w == "OFFSET") && i+2 < len(raw) && !(selKeywords[raw[i+2]] && raw[i+2] != "OR" && raw[i+2] != "AND" && raw[i+2] != "IS" && raw[i+2] != "LIKE" && raw[i+2] != "NOT" && raw[i+2] != "BETWEEN" && raw[i+2] != "IN" || raw[i+2] == ")" || qryMode && qryKeywords[raw[i+2]]):
			return nil, false // the value of LIMIT / OFFSET is an expression: the model has plain numbers only
		case w == "NULL" || w == "TRUE" || w == "FALSE" || w == "UNKNOWN":
			if !(i > 0 && (raw[i-1] == "IS" || raw[i-1] == "NOT" && i > 1 && raw[i-2] == "IS")) {
				return nil, false // a constant as an operand
			}
			ws = append(ws, w)
		default:
			ws = append(ws, w)
		}
	}
	if !opxInFragment(ws) {
		return nil, false
	}
	for i, w := range ws {
		if qryMode && qryKeywords[w] || nqMode && w == "EXISTS" {
			continue
		}
		if isIdentWord(strings.SplitN(w, ".", 2)[0]) {
			if _, seen := names[w]; !seen {
				names[w] = fmt.Sprintf("x%d", len(names))
			}
			ws[i] = names[w]
		}
	}
	return ws, true
}

// selImpl: the words of the printed form of the text's single SELECT query, or ERR
func selImpl(text string, names map[string]string) string {
	r := tryParse(text, false, false)
	if r.panicked != nil || r.err != nil || len(r.stmts) != 1 {
		return "ERR"
	}
	sq, ok := r.stmts[0].(parser.SelectQuery)
	if !ok {
		return "ERR"
	}
	if rowValueOutsideIn(reflect.ValueOf(sq)) {
		return "OUTSIDE" // a row comparison (a, b) = (c, d): row values are outside the token model
	}
	printed, pn := safeString(sq)
	if pn != nil {
		return "PANIC"
	}
	ws, ok := selWords(printed, names)
	if !ok {
		return "OUTSIDE"
	}
	if qryMode {
		// the shape of the tree too: the printer adds no parentheses, so the tokens alone do not show the precedence
		return qryShape(sq) + " | " + strings.Join(ws, " ")
	}
	return strings.Join(ws, " ")
}

func qryShape(sq parser.SelectQuery) string {
	s := ""
	if wc, ok := sq.WithClause.(parser.WithClause); ok {
		parts := make([]string, len(wc.InlineTables))
		for i, it := range wc.InlineTables {
			if t, ok := it.(parser.InlineTable); ok {
				parts[i] = qryShape(t.Query)
			} else {
				parts[i] = "?"
			}
		}
		s = "W[" + strings.Join(parts, ",") + "]"
	}
	return s + entShape(sq.SelectEntity)
}

func entShape(e parser.QueryExpression) string {
	switch x := e.(type) {
	case parser.SelectEntity:
		return "s"
	case parser.Subquery:
		return "P[" + qryShape(x.Query) + "]"
	case parser.SelectSet:
		op := map[int]string{parser.UNION: "U", parser.EXCEPT: "X", parser.INTERSECT: "I"}[x.Operator.Token]
		if !x.All.IsEmpty() {
			op += "a"
		}
		return op + "(" + entShape(x.LHS) + "," + entShape(x.RHS) + ")"
	}
	return "?"
}

func selCase(o *hc.Out, text, origin string) {
	names := map[string]string{}
	ws, ok := selWords(text, names)
	if !ok || len(ws) == 0 {
		o.Count("sel.outside_fragment:" + origin)
		return
	}
	impl := selImpl(text, names)
	if impl == "OUTSIDE" {
		o.Count("sel.outside_fragment:" + origin)
		return
	}
	if quotedCallName(ws) {
		o.Count("sel.outside_fragment:quoted_function_name")
		return
	}
	o.Case("c18.sel "+strings.Join(ws, " "), impl)
	if impl != "ERR" && impl != "PANIC" {
		printedLiteralLaw(o, text, ws, strings.Fields(impl))
	}
	if impl == "ERR" {
		o.Count("sel.err:" + origin)
		o.NonTrivial("sel:err:" + strings.Join(ws, " "))
	} else {
		o.Count("sel.ok:" + origin)
		sig := make([]string, 0, len(ws))
		for _, w := range ws {
			if selKeywords[w] || w == "," {
				sig = append(sig, w)
			}
		}
		o.NonTrivial("sel:" + strings.Join(sig, " "))
	}
}

// qryCase: op c18.qry - the same protocol as c18.sel, one level up: the real parser + SelectQuery.String() against the
// model's parseWhole / printQuery (Csvq/Model/Query.lean)
func qryCase(o *hc.Out, text string) {
	qryMode = true
	defer func() { qryMode = false }()
	names := map[string]string{}
	ws, ok := selWords(text, names)
	if !ok || len(ws) == 0 {
		o.Count("qry.outside_fragment")
		return
	}
	impl := selImpl(text, names)
	if impl == "OUTSIDE" {
		o.Count("qry.outside_fragment")
		return
	}
	if quotedCallName(ws) {
		o.Count("qry.outside_fragment:quoted_function_name")
		return
	}
	o.Case("c18.qry "+strings.Join(ws, " "), impl)
	if parts := strings.SplitN(impl, " | ", 2); len(parts) == 2 {
		printedLiteralLaw(o, text, ws, strings.Fields(parts[1]))
	}
	if impl == "ERR" {
		o.Count("qry.err")
		o.NonTrivial("qry:err:" + strings.Join(ws, " "))
		return
	}
	o.Count("qry.ok")
	sig := make([]string, 0, len(ws))
	for _, w := range ws {
		if selKeywords[w] || qryKeywords[w] || w == "," || w == "(" || w == ")" {
			sig = append(sig, w)
		}
	}
	o.NonTrivial("qry:" + strings.Join(sig, " "))
}

var qryWitnesses = []string{
	"select 1 union select 2", "select 1 union all select 2", "select 1 except select 2 intersect select 3", "select 1 intersect select 2 union select 3",
	"select 1 union select 2 union select 3", "select 1 union (select 2 union select 3)", "(select 1 union select 2) intersect all select 3",
	"select 1 union select 2 order by 1", "select 1 order by 1 union select 2", "(select 1 order by 1) union select 2", "(select 1) union (select 2) order by 1 limit 2 offset 1",
	"select 1 limit 1 union select 2", "(select 1)", "((select 1)) union select 2", "select 1 union", "select 1 union all", "select 1 all select 2", "union select 1",
	"select 1 for update", "select a from t for update", "select 1 union select 2 for update", "(select 1 for update) union select 2", "select 1 for", "select 1 update",
	"with w as (select 1) select a from w", "with recursive w (n) as (select 1 union all select n + 1 from w where n < 3) select n from w",
	"with w as (select 1), v (a, b) as (select 1, 2) select 1 union select 2", "with w as (with v as (select 1) select a from v) select a from w",
	"with w as select 1 select 2", "with w (1) as (select 1) select 2", "with w as (select 1),  select 2", "with select 1", "with w () as (select 1) select 2",
	"select a from t where a between 1 and 2 union select b from u where b in (1, 2) order by a limit 3",
}

func genQryText(g *hc.Gen, d int) string {
	unit := func() string {
		if d > 0 && g.Intn(4) == 0 {
			return "(" + genQryText(g, d-1) + ")"
		}
		t := genSelTextPlain(g)
		if g.Intn(8) != 0 {
			// mostly without ORDER BY / LIMIT / OFFSET: only the last operand may carry them
			for _, kw := range []string{" order by ", " limit ", " offset "} {
				if i := strings.Index(t, kw); i >= 0 {
					t = t[:i]
				}
			}
		}
		return t
	}
	s := unit()
	for k := g.Intn(4); k > 0; k-- {
		s += " " + g.Pick("union", "union", "except", "intersect") + g.Pick("", "", " all") + " " + unit()
	}
	switch g.Intn(6) {
	case 0:
		s += " order by 1" + g.Pick("", " desc") + g.Pick("", " limit 3", " limit 2 offset 1")
	case 1:
		s += " limit " + fmt.Sprint(1+g.Intn(9))
	}
	if g.Intn(8) == 0 {
		s += " for update"
	}
	if d > 0 && g.Intn(4) == 0 {
		w := "with "
		for k := 1 + g.Intn(2); k > 0; k-- {
			w += g.Pick("", "", "recursive ") + g.Pick("w", "v", "cte") + g.Pick("", "", " (a)", " (a, b)") + " as (" + genQryText(g, d-1) + ")"
			if k > 1 {
				w += ", "
			}
		}
		s = w + " " + s
	}
	return s
}

// a SELECT without damage
func genSelTextPlain(g *hc.Gen) string {
	for {
		s := genSelText(g)
		if _, inside := selWords(s, map[string]string{}); !inside {
			continue
		}
		if r := tryParse(s, false, false); r.err == nil && r.panicked == nil {
			return s
		}
	}
}

func genQryCaseText(g *hc.Gen) string {
	s := genQryText(g, 2)
	if g.Intn(5) == 0 {
		ws := strings.Fields(strings.NewReplacer("(", " ( ", ")", " ) ", ",", " , ").Replace(s))
		i := g.Intn(len(ws))
		switch g.Intn(4) {
		case 0:
			ws = append(ws[:i:i], ws[i+1:]...)
		case 1:
			ws = append(ws[:i+1:i+1], ws[i:]...)
		case 2:
			j := g.Intn(len(ws))
			ws[i], ws[j] = ws[j], ws[i]
		case 3:
			ins := g.Pick("union", "all", "(", ")", "with", "as", "for", "update", "recursive", "intersect", "order by 1", "limit 1")
			ws = append(ws[:i:i], append([]string{ins}, ws[i:]...)...)
		}
		s = strings.Join(ws, " ")
	}
	return s
}

// ---------- generator of queries inside the modelled fragment ----------

func genSelText(g *hc.Gen) string { return renderLiterals(genSelRaw(g)) }

// the text with literal words ('<hex>, `<hex>) still in place of the literals
func genSelRaw(g *hc.Gen) string {
	ex := func(d int) string { return strings.Join(genOpTree(g, d).words(), " ") }
	pid := func() string { return g.Pick("a", "b", "c", "d", "k1") }
	tab := func() string { return g.Pick("t", "u", "v", "t1") + g.Pick("", "", " x", " as y", " AS z") }
	n := 1 + g.Intn(3)
	items := make([]string, n)
	for i := range items {
		switch g.Intn(8) {
		case 0:
			items[i] = "*"
		case 1:
			items[i] = g.Pick("t", "u") + ".*"
		default:
			items[i] = ex(g.Intn(3))
			if g.Intn(3) == 0 {
				items[i] += " as " + g.Pick("k", "lbl")
			}
		}
	}
	s := "select " + g.Pick("", "", "distinct ") + strings.Join(items, ", ")
	if g.Intn(5) != 0 {
		m := 1 + g.Intn(2)
		refs := make([]string, m)
		for i := range refs {
			r := tab()
			for k := g.Intn(3); k > 0; k-- {
				switch g.Intn(6) {
				case 0:
					r += " cross join " + tab()
				case 1:
					r += " natural " + g.Pick("", "inner ", "left ", "right outer ", "full ") + "join " + tab()
				default:
					r += " " + g.Pick("", "inner ", "left ", "left outer ", "right ", "full outer ") + "join " + tab()
					if g.Intn(3) == 0 {
						r += " using (" + pid() + g.Pick("", ", "+pid()) + ")"
					} else {
						r += " on " + ex(2)
					}
				}
			}
			refs[i] = r
		}
		s += " from " + strings.Join(refs, ", ")
	}
	if g.Intn(2) == 0 {
		s += " where " + ex(3)
	}
	if g.Intn(3) == 0 {
		s += " group by " + ex(1) + g.Pick("", ", "+ex(1))
		if g.Intn(2) == 0 {
			s += " having " + ex(2)
		}
	}
	if g.Intn(2) == 0 {
		k := 1 + g.Intn(2)
		os := make([]string, k)
		for i := range os {
			os[i] = ex(1) + g.Pick("", " asc", " desc") + g.Pick("", " nulls first", " nulls last")
		}
		s += " order by " + strings.Join(os, ", ")
	}
	switch g.Intn(4) {
	case 0:
		s += " limit " + fmt.Sprint(g.Intn(50)) + g.Pick("", " percent", " row", " rows") + g.Pick("", " only", " with ties") + g.Pick("", " offset 2", " offset 1 row", " offset 3 rows")
	case 1:
		s += " offset " + fmt.Sprint(g.Intn(9)) + g.Pick("", " row", " rows")
	}
	if g.Intn(6) == 0 {
		// damage: drop / duplicate / swap a word
		ws := strings.Fields(s)
		i := g.Intn(len(ws))
		switch g.Intn(3) {
		case 0:
			ws = append(ws[:i:i], ws[i+1:]...)
		case 1:
			ws = append(ws[:i+1:i+1], ws[i:]...)
		case 2:
			j := g.Intn(len(ws))
			ws[i], ws[j] = ws[j], ws[i]
		}
		s = strings.Join(ws, " ")
	}
	return s
}
