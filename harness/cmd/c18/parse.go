package main

import (
	_ "embed"
	"fmt"
	"os"
	"path/filepath"
	"regexp"
	"sort"
	"strconv"
	"strings"
	"unicode"
	"unicode/utf8"

	"github.com/mithrandie/csvq/lib/option"
	"github.com/mithrandie/csvq/lib/parser"
	"github.com/mithrandie/csvq/lib/query"

	"verifharness/hc"
)

// ---------- seed corpus ----------

var builtinCorpus = []string{
	"select 1", "select a, b from t where a = 1 order by b limit 10", "select count(*) from t group by a having count(*) > 1",
	"select - -1", "select first_value(a) ignore nulls over (order by b) from t", "select ! !true",
	"insert into t (a, b) values (1, 'x'), (2, 'y')", "update t set a = 1 where b = 2", "delete from t where a is null",
	"var @a := 1; while @a < 3 do @a := @a + 1; end while;", "declare cur cursor for select 1; open cur; fetch cur into @x; close cur;",
	"create table t (a, b)", "alter table t add c default 1 first", "prepare stmt from 'select :a'; execute stmt using 1 as a;",
	"if @a then print 1; elseif @b then print 2; else print 3; end if;", "declare f function (@x) as begin return @x + 1; end;",
	"$echo 'abc", "$echo \"abc", "$echo `abc", "$echo 'a;b' \"c;d\" `e;f` ${@v} ${'}'} \\} x; select 1", "$cmd ${@a", "$cmd ${'", "$cmd 'a\\", "$", "$;", "$ ${", "$a 'b' \"c", "select 1; $ls -l 'x y';",
	"set @@delimiter to ','", "show tables", "source `x.sql`", "commit", "rollback", "echo 'a'", "$ls -l;", "select @%HOME, @#version, @@cpu",
}

var reInput = regexp.MustCompile(`(?m)^\s*Input:\s*("(?:[^"\\]|\\.)*")\s*(?:\+\s*$|,\s*$)`)
var reInputAny = regexp.MustCompile(`"(?:[^"\\]|\\.)*"`)

func loadCorpus() ([]string, map[string]int) {
	src := map[string]int{}
	seen := map[string]bool{}
	var out []string
	add := func(s, from string) {
		s = strings.TrimSpace(s)
		if s == "" || len(s) > 2000 || seen[s] {
			return
		}
		seen[s] = true
		out = append(out, s)
		src[from]++
	}
	for _, s := range builtinCorpus {
		add(s, "corpus.builtin")
	}
	repo := os.Getenv("VERIF_REPO")
	if repo == "" {
		repo = "/repo"
	}
	if b, err := os.ReadFile(filepath.Join(repo, "lib/parser/parser_test.go")); err == nil {
		lines := strings.Split(string(b), "\n")
		for i := 0; i < len(lines); i++ {
			l := strings.TrimSpace(lines[i])
			if !strings.HasPrefix(l, "Input:") {
				continue
			}
			// string literals on this line and on the continuation lines of a `"…" +` concatenation
			text := ""
			for {
				for _, m := range reInputAny.FindAllString(l, -1) {
					if u, err := strconv.Unquote(m); err == nil {
						text += u
					}
				}
				if strings.HasSuffix(l, "+") && i+1 < len(lines) {
					i++
					l = strings.TrimSpace(lines[i])
					continue
				}
				break
			}
			add(text, "corpus.parser_test")
		}
	}
	if files, err := filepath.Glob(filepath.Join(repo, "docs/_posts/*.md")); err == nil {
		sort.Strings(files)
		for _, f := range files {
			b, err := os.ReadFile(f)
			if err != nil {
				continue
			}
			parts := strings.Split(string(b), "```")
			for k := 1; k < len(parts); k += 2 {
				blk := parts[k]
				nl := strings.IndexByte(blk, '\n')
				if nl < 0 || strings.TrimSpace(blk[:nl]) != "sql" {
					continue
				}
				blk = blk[nl+1:]
				add(blk, "corpus.docs_block")
				for _, st := range strings.Split(blk, ";") {
					add(st, "corpus.docs_stmt")
				}
			}
		}
	}
	return out, src
}

// ---------- rough tokenizer (for mutation and shrinking only; concatenation of the pieces is the text) ----------

func roughTokens(s string) []string {
	rs := []rune(s)
	var out []string
	i := 0
	isWord := func(r rune) bool { return r == '_' || unicode.IsLetter(r) || unicode.IsDigit(r) }
	for i < len(rs) {
		j := i
		r := rs[i]
		switch {
		case unicode.IsSpace(r):
			for j < len(rs) && unicode.IsSpace(rs[j]) {
				j++
			}
		case r == '\'' || r == '"' || r == '`':
			j++
			for j < len(rs) {
				if rs[j] == '\\' && j+1 < len(rs) {
					j += 2
					continue
				}
				if rs[j] == r {
					if j+1 < len(rs) && rs[j+1] == r {
						j += 2
						continue
					}
					j++
					break
				}
				j++
			}
		case r == '-' && i+1 < len(rs) && rs[i+1] == '-':
			for j < len(rs) && rs[j] != '\n' && rs[j] != '\r' {
				j++
			}
		case r == '/' && i+1 < len(rs) && rs[i+1] == '*':
			j += 2
			for j < len(rs) && !(rs[j-1] == '*' && rs[j] == '/' && j >= i+3) {
				j++
			}
			if j < len(rs) {
				j++
			}
		case isWord(r):
			for j < len(rs) && (isWord(rs[j]) || (rs[j] == '.' && j+1 < len(rs) && unicode.IsDigit(rs[j+1]) && unicode.IsDigit(r))) {
				j++
			}
		case strings.ContainsRune("=<>!|:", r):
			for j < len(rs) && strings.ContainsRune("=<>!|:", rs[j]) {
				j++
			}
		case r == '@':
			for j < len(rs) && strings.ContainsRune("@%#", rs[j]) {
				j++
			}
		default:
			j++
		}
		if j == i {
			j++
		}
		out = append(out, string(rs[i:j]))
		i = j
	}
	return out
}

var mutDict = []string{"'", "\"", "`", "\\", "--", "/*", "*/", "-", "- -", "!", "!!", "(", ")", ",", ";", ".", "*", "=", "<>", ":=", "::", ":", "?", ":p", "@", "@@", "@%", "@#", "$", "{", "}",
	"select", "from", "where", "group by", "order by", "having", "limit", "offset", "fetch", "union", "join", "on", "using", "as", "and", "or", "not", "is", "null", "in", "between", "like", "case", "when", "then", "else", "end",
	"over", "partition by", "ignore nulls", "within group", "distinct", "all", "any", "exists", "with", "recursive", "for update", "into", "values", "rows", "percent", "with ties", "only",
	"begin", "if", "while", "do", "declare", "cursor", "function", "return", "var", "set", "to", "insert", "update", "delete", "replace", "create", "table", "alter", "drop", "prepare", "execute",
	"1", "0", "1.5", "1e", "99999999999999999999", "'a'", "\"b\"", "`c`", "true", "count", "first_value", "lag", "listagg", "csv", "json_table", "substring", "a", "t",
	"\x00", "\xff", "\xc0\x80", "\xed\xa0\x80", "\xf4\x90\x80\x80", "\ufeff", "", "", "", " ", "\u0085", "€", "😀", "\r", "\r\n", "\n", "\t", "\x1b", "\x7f"}

func mutate(g *hc.Gen, s string, corpus []string) string {
	toks := roughTokens(s)
	for k := 1 + g.Intn(3); k > 0; k-- {
		if len(toks) == 0 {
			toks = []string{mutDict[g.Intn(len(mutDict))]}
			continue
		}
		i := g.Intn(len(toks))
		switch g.Intn(9) {
		case 0: // delete
			toks = append(toks[:i:i], toks[i+1:]...)
		case 1: // duplicate
			toks = append(toks[:i+1:i+1], toks[i:]...)
		case 2: // swap
			j := g.Intn(len(toks))
			toks[i], toks[j] = toks[j], toks[i]
		case 3, 4: // inject
			ins := mutDict[g.Intn(len(mutDict))]
			if g.Intn(2) == 0 {
				ins = " " + ins + " "
			}
			toks = append(toks[:i:i], append([]string{ins}, toks[i:]...)...)
		case 5: // replace
			toks[i] = mutDict[g.Intn(len(mutDict))]
		case 6: // truncate
			toks = toks[:i]
		case 7: // splice with another corpus entry
			o := roughTokens(corpus[g.Intn(len(corpus))])
			if len(o) > 0 {
				j := g.Intn(len(o))
				toks = append(toks[:i:i], o[j:]...)
			}
		case 8: // damage inside a token: drop or double one byte
			b := []byte(toks[i])
			if len(b) > 0 {
				p := g.Intn(len(b))
				if g.Intn(2) == 0 {
					b = append(b[:p:p], b[p+1:]...)
				} else {
					b = append(b[:p+1:p+1], b[p:]...)
				}
				toks[i] = string(b)
			}
		}
	}
	return strings.Join(toks, "")
}

// ---------- parse under recover ----------

type parseResult struct {
	stmts    []parser.Statement
	err      error
	panicked interface{}
}

func tryParse(text string, prep, ansi bool) (res parseResult) {
	working(text)
	defer func() {
		if r := recover(); r != nil {
			res.panicked = r
		}
	}()
	st, _, err := parser.Parse(text, "", prep, ansi)
	res.stmts, res.err = st, err
	return
}

func safeString(q parser.QueryExpression) (s string, panicked interface{}) {
	defer func() {
		if r := recover(); r != nil {
			panicked = r
		}
	}()
	return q.String(), nil
}

// ---------- print/parse fixpoint ----------

// printOnce: text -> (printed form of its single query expression, ok)
func printOnce(text string, prep, ansi bool) (string, bool) {
	r := tryParse(text, prep, ansi)
	if r.panicked != nil || r.err != nil || len(r.stmts) != 1 {
		return "", false
	}
	q, ok := r.stmts[0].(parser.QueryExpression)
	if !ok {
		return "", false
	}
	p, pn := safeString(q)
	if pn != nil {
		return "", false
	}
	return p, true
}

// rewriteTopLevel applies f at every position of p that is outside the string / identifier literals the printer writes.
// f returns the replacement and the number of runes consumed (0 = no rewrite here).
func rewriteTopLevel(p string, f func(rs []rune, i int) (string, int)) string {
	rs := []rune(p)
	var b strings.Builder
	for i := 0; i < len(rs); {
		r := rs[i]
		if r == '\'' || r == '`' || r == '"' {
			j := i + 1
			for j < len(rs) {
				if rs[j] == '\\' && j+1 < len(rs) {
					j += 2
					continue
				}
				if rs[j] == r {
					if j+1 < len(rs) && rs[j+1] == r {
						j += 2
						continue
					}
					break
				}
				j++
			}
			if j < len(rs) {
				j++
			}
			b.WriteString(string(rs[i:j]))
			i = j
			continue
		}
		if rep, n := f(rs, i); n > 0 {
			b.WriteString(rep)
			i += n
			continue
		}
		b.WriteRune(r)
		i++
	}
	return b.String()
}

func hasPrefixAt(rs []rune, i int, s string) bool {
	t := []rune(s)
	if i+len(t) > len(rs) {
		return false
	}
	for k := range t {
		if rs[i+k] != t[k] {
			return false
		}
	}
	return true
}

type repair struct {
	law string
	fix func(p string, orig []parser.Token) string
}

// Each known printer defect comes with the textual repair that undoes exactly that defect in the printed text.
// A failure is attributed to a set of defects only if the text repaired for exactly those defects parses and prints
// back the unrepaired text, i.e. the defects alone explain the failure (the smallest such set is reported);
// everything else is `print_parse_fixpoint:other`.
var repairs = []repair{
	{"print_parse_fixpoint:unary_minus_comment", func(p string, _ []parser.Token) string {
		// UnaryArithmetic.String() writes operator and operand without a separator: "-" + "-1" opens a line comment
		return rewriteTopLevel(p, func(rs []rune, i int) (string, int) {
			if rs[i] == '-' && i+1 < len(rs) && rs[i+1] == '-' {
				return "- ", 1
			}
			return "", 0
		})
	}},
	{"print_parse_fixpoint:ignore_nulls_position", func(p string, _ []parser.Token) string {
		// AnalyticFunction.String() writes IGNORE NULLS inside the argument parentheses
		return rewriteTopLevel(p, func(rs []rune, i int) (string, int) {
			if hasPrefixAt(rs, i, " IGNORE NULLS)") {
				return ") IGNORE NULLS", len(" IGNORE NULLS)")
			}
			if hasPrefixAt(rs, i, "(IGNORE NULLS)") {
				return "() IGNORE NULLS", len("(IGNORE NULLS)")
			}
			return "", 0
		})
	}},
	{"print_parse_fixpoint:unary_not_fusion", func(p string, _ []parser.Token) string {
		// UnaryLogic.String() wrote "!" and an operand beginning with "!" without a separator: "!!x" scans as one
		// operator token (repaired in 98baed3)
		return rewriteTopLevel(p, func(rs []rune, i int) (string, int) {
			if rs[i] == '!' && i+1 < len(rs) && rs[i+1] == '!' {
				return "! ", 1
			}
			return "", 0
		})
	}},
	{"print_parse_fixpoint:unary_not_placeholder_fusion", func(p string, _ []parser.Token) string {
		// UnaryLogic.String() writes "!" and a named placeholder ":name" (prepared-statement mode) without a
		// separator: "!:name" scans as the unrecognised operator "!:" followed by an identifier
		return rewriteTopLevel(p, func(rs []rune, i int) (string, int) {
			if rs[i] == '!' && i+1 < len(rs) && rs[i+1] == ':' {
				return "! ", 1
			}
			return "", 0
		})
	}},
	{"print_parse_fixpoint:placeholder_ordinal", func(p string, _ []parser.Token) string {
		// Placeholder.String() writes a positional placeholder as ?{ordinal}
		return rewriteTopLevel(p, func(rs []rune, i int) (string, int) {
			if rs[i] == '?' && i+1 < len(rs) && rs[i+1] == '{' {
				j := i + 2
				for j < len(rs) && rs[j] >= '0' && rs[j] <= '9' {
					j++
				}
				if j > i+2 && j < len(rs) && rs[j] == '}' {
					return "?", j + 1 - i
				}
			}
			return "", 0
		})
	}},
	{"print_parse_fixpoint:function_name_unquoted", func(p string, orig []parser.Token) string {
		// Function.String() writes strings.ToUpper(Name) even when the name was a quoted identifier
		for k := 0; k+1 < len(orig); k++ {
			if orig[k].Token != parser.IDENTIFIER || !orig[k].Quoted || orig[k+1].Token != '(' {
				continue
			}
			up := strings.ToUpper(orig[k].Literal) + "("
			if strings.ContainsAny(up, "`'\"") {
				// the name itself contains a quote rune: the printed text is not even tokenised as intended
				p = strings.Replace(p, up, option.QuoteIdentifier(orig[k].Literal)+"(", -1)
				continue
			}
			p = rewriteTopLevel(p, func(rs []rune, i int) (string, int) {
				if hasPrefixAt(rs, i, up) && (i == 0 || !isWordRune(rs[i-1])) {
					return option.QuoteIdentifier(orig[k].Literal) + "(", len([]rune(up))
				}
				return "", 0
			})
		}
		return p
	}},
}

func init() {
	repairs = append(repairs, repair{"print_parse_fixpoint:url_token_fusion", func(p string, orig []parser.Token) string {
		// Url.String() is the raw text; a closing parenthesis or comma written directly after it is read as part of the URL
		for k := range orig {
			if orig[k].Token != parser.URL {
				continue
			}
			lit := orig[k].Literal
			n := len([]rune(lit))
			p = rewriteTopLevel(p, func(rs []rune, i int) (string, int) {
				if hasPrefixAt(rs, i, lit) && (i == 0 || !isWordRune(rs[i-1])) && i+n < len(rs) && !unicode.IsSpace(rs[i+n]) {
					return lit + " ", n
				}
				return "", 0
			})
		}
		return p
	}})
}

func isWordRune(r rune) bool { return r == '_' || unicode.IsLetter(r) || unicode.IsDigit(r) }

// fixpointLaws returns the laws violated by (text, mode), with the printed form. nil = the fixpoint holds or the text
// is not a single query expression.
func fixpointLaws(text string, prep, ansi bool) (laws []string, printed string, detail string) {
	p, ok := printOnce(text, prep, ansi)
	if !ok {
		return nil, "", ""
	}
	p2, ok2 := printOnce(p, prep, ansi)
	if ok2 && p2 == p {
		return nil, p, ""
	}
	if ok2 {
		detail = "re-parsed tree prints " + strconv.Quote(p2)
	} else {
		r := tryParse(p, prep, ansi)
		switch {
		case r.panicked != nil:
			detail = fmt.Sprint("panic: ", r.panicked)
		case r.err != nil:
			detail = "printed text does not parse: " + r.err.Error()
		default:
			detail = fmt.Sprintf("printed text parses to %d statements", len(r.stmts))
		}
	}
	// An unrecognised operator in the original text (token code Uncategorized, which goyacc's driver skips after
	// letting it decide one step as "end of input") yields trees that violate operator precedence; their printed text
	// means something else. Attributed to that defect when the text without the operator is unparseable or behaves.
	if blank := blankUnrecognisedOperators(text, prep, ansi); blank != text {
		pb, okb := printOnce(blank, prep, ansi)
		if !okb {
			return []string{"print_parse_fixpoint:unrecognised_operator_skipped"}, p, detail
		}
		if p3, ok3 := printOnce(pb, prep, ansi); ok3 && p3 == pb {
			return []string{"print_parse_fixpoint:unrecognised_operator_skipped"}, p, detail
		}
	}
	orig := scanImpl(sanitize(text), prep, ansi).tokens
	// which repairs change the text?
	var cand []repair
	for _, rp := range repairs {
		if rp.fix(p, orig) != p {
			cand = append(cand, rp)
		}
	}
	// smallest subset of the applicable repairs that makes the printed text a fixpoint
	best := -1
	for mask := 1; mask < 1<<len(cand); mask++ {
		if best >= 0 && popcount(mask) >= popcount(best) {
			continue
		}
		t := p
		for i, rp := range cand {
			if mask&(1<<i) != 0 {
				t = rp.fix(t, orig)
			}
		}
		if q, ok := printOnce(t, prep, ansi); ok && q == p {
			best = mask
		}
	}
	if best < 0 {
		return []string{"print_parse_fixpoint:other"}, p, detail
	}
	for i, rp := range cand {
		if best&(1<<i) != 0 {
			laws = append(laws, rp.law)
		}
	}
	return laws, p, detail
}

func popcount(x int) int {
	n := 0
	for ; x != 0; x &= x - 1 {
		n++
	}
	return n
}

// ---------- shrinking ----------

func shrink(text string, pred func(string) bool, budget int) string {
	toks := roughTokens(text)
	try := func(cand []string) bool {
		if budget <= 0 {
			return false
		}
		budget--
		return pred(strings.Join(cand, ""))
	}
	for chunk := len(toks) / 2; chunk >= 1; {
		changed := false
		for i := 0; i+chunk <= len(toks); {
			cand := append(append([]string{}, toks[:i]...), toks[i+chunk:]...)
			if try(cand) {
				toks = cand
				changed = true
			} else {
				i++
			}
		}
		if !changed || chunk > len(toks) {
			chunk /= 2
		}
		if budget <= 0 {
			break
		}
	}
	// matching parentheses
	for changed := true; changed && budget > 0; {
		changed = false
		for i := 0; i < len(toks) && !changed; i++ {
			if toks[i] != "(" {
				continue
			}
			depth := 0
			for j := i; j < len(toks); j++ {
				if toks[j] == "(" {
					depth++
				} else if toks[j] == ")" {
					depth--
					if depth == 0 {
						cand := append(append(append([]string{}, toks[:i]...), toks[i+1:j]...), toks[j+1:]...)
						if try(cand) {
							toks = cand
							changed = true
						}
						break
					}
				}
			}
		}
	}
	// collapse whitespace
	for i := range toks {
		if strings.TrimSpace(toks[i]) == "" && toks[i] != " " {
			cand := append([]string{}, toks...)
			cand[i] = " "
			if try(cand) {
				toks = cand
			}
		}
	}
	return strings.Join(toks, "")
}

// ---------- the stream ----------

type failure struct {
	text, mode, printed, detail string
	prep, ansi                  bool
	witness                     bool // one of the fixed reproducers (reported first, unshrunk)
}

type parseStream struct {
	o        *hc.Out
	g        *hc.Gen
	corpus   []string
	fails    map[string][]failure
	proc     *hc.Proc
	tables   string
	maxRunes int
}

func newParseStream(o *hc.Out, g *hc.Gen) *parseStream {
	c, src := loadCorpus()
	for k, v := range src {
		o.Stats[k] = v
	}
	// the tables the evaluated queries read (NULLs and duplicates in every column)
	dir := os.Getenv("VERIF_SCRATCH")
	if dir == "" {
		dir = os.TempDir()
	}
	dir, err := os.MkdirTemp(dir, "c18-tables-")
	if err != nil {
		panic(err)
	}
	for name, body := range tableFiles {
		if err := os.WriteFile(filepath.Join(dir, name), []byte(body), 0o644); err != nil {
			panic(err)
		}
	}
	proc := hc.NewProc(dir)
	_ = proc.P.Tx.SetFlag(option.CPUFlag, int64(1))
	return &parseStream{o: o, g: g, corpus: c, fails: map[string][]failure{}, proc: proc, tables: dir}
}

func (ps *parseStream) close() {
	ps.proc.Close()
	_ = os.RemoveAll(ps.tables)
}

func (ps *parseStream) fail(law string, f failure) {
	ps.o.Count("law_seen:" + law)
	if len(ps.fails[law]) < 400 {
		ps.fails[law] = append(ps.fails[law], f)
	}
}

func stmtType(s parser.Statement) string {
	t := fmt.Sprintf("%T", s)
	return strings.TrimPrefix(t, "parser.")
}

// one: totality + fixpoint (+ evaluation when evalOK) of one text in one mode.
func (ps *parseStream) one(raw string, prep, ansi bool, origin string, evalOK bool) {
	o := ps.o
	mode := modeName(prep, ansi)
	o.Count("mode:" + mode)
	o.Count("origin:" + origin)
	if !utf8.ValidString(raw) {
		o.Count("text.invalid_utf8")
	}
	f := failure{text: raw, mode: mode, prep: prep, ansi: ansi, witness: origin == "witness"}
	r := tryParse(raw, prep, ansi)
	sres := scanOp(o, raw, prep, ansi)
	if r.panicked == nil {
		lalrOp(o, raw, prep, ansi) // the driver loop + tables against the Lean model of them
	}
	switch {
	case r.panicked != nil:
		o.Count("parse:panic")
		f.detail = fmt.Sprint(r.panicked)
		ps.fail("parse_total:panic", f)
		return
	case r.err != nil:
		o.Count("parse:error")
		se, ok := r.err.(*parser.SyntaxError)
		if !ok || se.Message == "" {
			f.detail = fmt.Sprintf("%T %v", r.err, r.err)
			ps.fail("parse_total:error_without_position", f)
		} else if !validPositions(sanitize(raw))[[2]int{se.Line, se.Char}] {
			f.detail = fmt.Sprintf("%s at line %d char %d", se.Message, se.Line, se.Char)
			ps.fail("parse_total:error_position_outside_input", f)
		}
		kind := "syntax"
		if sres.err != nil && r.err.Error() == sres.err.Error() {
			kind = "lexical:" + errKind(sres.err)
		}
		o.Count("parse.error_kind:" + kind)
		o.NonTrivial("parse:" + mode + ":err:" + kind + ":" + sigOf(sres.kinds))
		return
	}
	o.Count("parse:ok")
	if sres.nul {
		// goyacc reads token code 0 (a NUL character in the text) as end of input: the rest of the text is ignored.
		// Not a violation of C18 as stated (a statement list is returned); recorded.
		o.Count("parse.nul_character_ends_input")
	}
	if sres.err != nil && !sres.nul && !sres.uncat {
		// the whole text was consumed by a successful parse, so a scanner error in it must have been reported
		f.detail = "scanner error " + sres.err.Error() + " but Parse returned no error"
		ps.fail("parse_total:missing_error", f)
	}
	if sres.uncat {
		// (*Lexer).Lex hands an Uncategorized token over as a character the grammar does not know (F33 repaired):
		// a text with one cannot be accepted unless a NUL character ended the input before it.
		o.Count("parse.accepted_text_with_unrecognised_operator")
	}
	types := make([]string, 0, len(r.stmts))
	for _, s := range r.stmts {
		if s == nil {
			f.detail = "nil statement in the list"
			ps.fail("parse_total:missing_error", f)
		}
		types = append(types, stmtType(s))
	}
	for _, t := range types {
		o.Count("stmt:" + t)
	}
	o.NonTrivial("parse:" + mode + ":ok:" + strings.Join(types, ",") + ":" + sigOf(sres.kinds))
	for _, st := range r.stmts {
		countClauses(o, st)
	}
	topQE := false
	if len(r.stmts) == 1 {
		_, topQE = r.stmts[0].(parser.QueryExpression)
	}
	if !topQE {
		// statements without String(): their printable sub-trees (queries, value expressions) must survive print -> parse
		ps.treeLaws(f, false)
		return
	}
	q := r.stmts[0].(parser.QueryExpression)
	o.Count("fixpoint.checked")
	if _, pn := safeString(q); pn != nil {
		f.detail = fmt.Sprint("String() panics: ", pn)
		ps.fail("print_parse_fixpoint:print_panic", f)
		return
	}
	laws, printed, detail := fixpointLaws(raw, prep, ansi)
	f.printed, f.detail = printed, detail
	for _, l := range laws {
		ps.fail(l, f)
	}
	if len(laws) > 0 {
		o.Count("fixpoint.fail")
		return
	}
	o.Count("fixpoint.ok")
	ps.treeLaws(f, false)
	if a, b := tokenSeq(raw, prep, ansi), tokenSeq(printed, prep, ansi); a != b {
		// counted only: a NUL character (read as end of input), a private-use rune whose code is a token number,
		// or an empty quoted view name change the token sequence without breaking the fixpoint
		o.Count("fixpoint.token_sequence_differs")
	}
	if evalOK {
		ps.evalAgree(f, printed)
	}
}

// tokenSeq: the token sequence of a text as the parser sees it (kind and upper-cased literal), without statement
// terminators and unrecognised operators.
func tokenSeq(text string, prep, ansi bool) string {
	res := scanImpl(sanitize(text), prep, ansi)
	var b strings.Builder
	for _, t := range res.tokens {
		if t.Token == tokEOF || t.Token == ';' || t.Token == tokUncat {
			continue
		}
		b.WriteString(kindName(t.Token) + ":" + strings.ToUpper(t.Literal) + " ")
	}
	return b.String()
}

// treeLaws: the tree laws of f.text; true when one failed.
func (ps *parseStream) treeLaws(f failure, skipTop bool) bool {
	hits := treeLawsOf(f.text, f.prep, f.ansi, skipTop)
	ps.o.Count("tree.checked")
	for _, h := range hits {
		g := f
		g.printed, g.detail = h.printed, h.detail
		ps.fail(h.law, g)
	}
	return len(hits) > 0
}

func sigOf(kinds []string) string {
	s := strings.Join(kinds, ",")
	if len(s) > 120 {
		s = s[:120]
	}
	return s
}

// blankUnrecognisedOperators replaces every unrecognised operator of the text (a run of operator runes the real
// scanner returns with the negative token code Uncategorized) by spaces. goyacc's driver takes a negative code for
// "no lookahead yet": the token decides one parsing step as if it were the end of the input and is then dropped.
func blankUnrecognisedOperators(text string, prep, ansi bool) string {
	src := sanitize(text)
	res := scanImpl(src, prep, ansi)
	if !res.uncat {
		return text
	}
	rs := []rune(src)
	// rune index at which the scanner's position becomes (line, char)
	at := map[[2]int]int{}
	line, char := 1, 0
	for i := 0; i < len(rs); i++ {
		j := i
		if rs[i] == '\r' || rs[i] == '\n' {
			if rs[i] == '\r' && i+1 < len(rs) && rs[i+1] == '\n' {
				i++
			}
			line++
			char = 0
		} else {
			char++
		}
		if _, ok := at[[2]int{line, char}]; !ok {
			at[[2]int{line, char}] = j
		}
	}
	changed := false
	for _, t := range res.tokens {
		if t.Token != tokUncat || strings.Trim(t.Literal, "=<>!|:") != "" {
			continue
		}
		i, ok := at[[2]int{t.Line, t.Char}]
		n := utf8.RuneCountInString(t.Literal)
		if !ok || i+n > len(rs) || string(rs[i:i+n]) != t.Literal {
			continue
		}
		for k := i; k < i+n; k++ {
			rs[k] = ' '
		}
		changed = true
	}
	if !changed {
		return text
	}
	return string(rs)
}

// evalLaw: a constant query and its printed form must evaluate to the same header and cells, or fail with the same
// error code. Returns "" when they agree (or the text is not a fixpoint case), else the law name.
func (ps *parseStream) evalLaw(text string, ansi bool) (law, printed, detail string) {
	ls, p, _ := fixpointLaws(text, false, ansi)
	if len(ls) > 0 || p == "" {
		return "", "", ""
	}
	a := ps.eval(text, ansi)
	b := ps.eval(p, ansi)
	if a == b {
		return "", p, a
	}
	if ps.eval(text, ansi) != a || ps.eval(p, ansi) != b {
		// the evaluation itself is not repeatable (not a property of the printer)
		ps.o.Count("eval.not_repeatable")
		return "", p, a
	}
	detail = "original: " + a + "  printed: " + b
	if blank := blankUnrecognisedOperators(text, false, ansi); blank != text {
		// the original text contains an unrecognised operator; without it the text evaluates like the printed form
		// (or does not parse at all)
		if eb := ps.eval(blank, ansi); eb == b || eb == "E:parse" {
			return "print_parse_eval_agree:unrecognised_operator_skipped", p, detail
		}
	}
	return "print_parse_eval_agree:other", p, detail
}

func (ps *parseStream) evalAgree(f failure, printed string) {
	law, p, detail := ps.evalLaw(f.text, f.ansi)
	ps.o.Count("eval.compared")
	if law == "" {
		if strings.HasPrefix(detail, "E") {
			ps.o.Count("eval.error")
		} else {
			ps.o.Count("eval.value")
		}
		return
	}
	f.printed, f.detail = p, detail
	ps.fail(law, f)
}

func (ps *parseStream) eval(sql string, ansi bool) (res string) {
	defer func() {
		if r := recover(); r != nil {
			res = fmt.Sprint("PANIC ", r)
		}
	}()
	ps.proc.P.Tx.Flags.AnsiQuotes = ansi
	stmts, _, err := parser.Parse(sql, "", false, ansi)
	if err != nil || len(stmts) != 1 {
		return "E:parse"
	}
	sq, ok := stmts[0].(parser.SelectQuery)
	if !ok {
		return "E:notselect"
	}
	view, err := query.Select(ps.proc.Ctx, ps.proc.P.ReferenceScope, sq)
	if err != nil {
		return fmt.Sprintf("E%d", hc.ErrCode(err))
	}
	var b strings.Builder
	for _, h := range view.Header {
		b.WriteString(hx(h.Column) + ",")
	}
	for _, rec := range view.RecordSet {
		b.WriteString("|")
		for _, c := range rec {
			b.WriteString(hc.EncVal(c[0]) + ",")
		}
	}
	return b.String()
}

//go:embed corpus.txt
var corpusText string

// witnesses: the corpus of the property (corpus.txt) — one minimal witness per known finding, one per repaired defect
// (these must pass) and texts around them. Always run first, independent of the seed.
func (ps *parseStream) witnesses() (plan []job) {
	for ln, line := range strings.Split(corpusText, "\n") {
		if strings.TrimSpace(line) == "" || strings.HasPrefix(line, "#") {
			continue
		}
		f := strings.SplitN(line, "\t", 4)
		if len(f) != 4 {
			panic(fmt.Sprintf("corpus.txt line %d: want 4 tab-separated fields", ln+1))
		}
		text, err := strconv.Unquote(strings.TrimSpace(f[3]))
		if err != nil {
			panic(fmt.Sprintf("corpus.txt line %d: %v", ln+1, err))
		}
		eval := f[1] == "1"
		ps.o.Count("corpus.expect:" + f[2])
		for m := 0; m < 4; m++ {
			prep, ansi := m&1 != 0, m&2 != 0
			if f[0] == "p0" && prep || f[0] == "p1" && !prep {
				continue
			}
			plan = append(plan, ps.job(text, prep, ansi, "witness", eval && !prep))
		}
	}
	// every combination of the optional clauses, on the tables t / u (both quote modes; prepared mode printed only)
	for _, c := range clauseMatrix() {
		text := c.text
		plan = append(plan, job{vets: []vetItem{{text, false, false}}, run: func() { selCase(ps.o, text, "clause_matrix") }})
		plan = append(plan, ps.job(c.text, false, false, "clause_matrix", c.eval))
		plan = append(plan, ps.job(c.text, true, true, "clause_matrix", false))
	}
	return plan
}

func (ps *parseStream) job(text string, prep, ansi bool, origin string, evalOK bool) job {
	return job{vets: []vetItem{{text, prep, ansi}}, run: func() { ps.one(text, prep, ansi, origin, evalOK) }}
}

func (ps *parseStream) plan(n int) (plan []job) {
	g := ps.g
	for i := 0; i < n; i++ {
		prep, ansi := g.Intn(2) == 0, g.Intn(2) == 0
		switch k := g.Intn(40); {
		case k < 4: // corpus text as is
			s := ps.corpus[g.Intn(len(ps.corpus))]
			plan = append(plan, ps.job(s, prep, ansi, "corpus", false))
		case k < 18: // token-level mutation of a corpus text
			s := mutate(g, ps.corpus[g.Intn(len(ps.corpus))], ps.corpus)
			plan = append(plan, ps.job(s, prep, ansi, "corpus_mutated", false))
		case k < 28: // generated query
			plan = append(plan, ps.job(genQuery(g, prep, ansi, false), prep, ansi, "generated", false))
		case k < 31: // generated constant query: evaluated as well
			plan = append(plan, ps.job(genQuery(g, false, ansi, true), false, ansi, "generated_const", true))
		case k < 34: // generated query on the tables t / u: evaluated as well
			plan = append(plan, ps.job(genTableQuery(g, ansi), false, ansi, "generated_table", true))
		case k < 37: // mutation of a generated query
			plan = append(plan, ps.job(mutate(g, genQuery(g, prep, ansi, false), ps.corpus), prep, ansi, "generated_mutated", false))
		case k < 39: // raw scanner-dictionary text
			plan = append(plan, ps.job(genScanText(g), prep, ansi, "scan_text", false))
		default: // external-command statement
			plan = append(plan, ps.job(genExternal(g), prep, ansi, "external_command", false))
		}
	}
	// token-level damage with the whole vocabulary of the grammar (after the others: their random streams stay as they were)
	for i := 0; i < n/5; i++ {
		prep, ansi := g.Intn(2) == 0, g.Intn(2) == 0
		plan = append(plan, ps.job(genTokenSoup(g, ps.corpus, prep, ansi), prep, ansi, "token_soup", false))
	}
	return plan
}

// report: per law, the fixed reproducer (if it failed) and the shortest failing inputs (shrunk), each distinct text
// once with the modes it was seen in; emitted round-robin over the laws so that every law shows up early.
func (ps *parseStream) report() {
	laws := make([]string, 0, len(ps.fails))
	for l := range ps.fails {
		laws = append(laws, l)
	}
	sort.Strings(laws)
	per := map[string][]map[string]interface{}{}
	for _, law := range laws {
		fs := ps.fails[law]
		sort.SliceStable(fs, func(i, j int) bool {
			if fs[i].witness != fs[j].witness {
				return fs[i].witness
			}
			return len(fs[i].text) < len(fs[j].text)
		})
		modes := map[string]map[string]bool{}
		for _, f := range fs {
			if modes[f.text] == nil {
				modes[f.text] = map[string]bool{}
			}
			modes[f.text][f.mode] = true
		}
		seen := map[string]bool{}
		shrunk := 0
		for _, f := range fs {
			if len(per[law]) >= 4 {
				break
			}
			if seen[f.text] {
				continue
			}
			seen[f.text] = true
			text := f.text
			if !f.witness && shrunk < 2 {
				law, f := law, f
				text = shrink(f.text, func(s string) bool { return ps.hasLaw(s, f, law) }, 300)
				shrunk++
			}
			if text != f.text && seen[text] {
				continue
			}
			seen[text] = true
			g := f
			g.text = text
			if strings.HasPrefix(law, "print_parse_fixpoint:") && law != "print_parse_fixpoint:print_panic" {
				_, g.printed, g.detail = fixpointLaws(text, f.prep, f.ansi)
			}
			if law == "print_parse_tree_differs" || law == "distinct_trees_same_text" {
				for _, h := range treeLawsOf(text, f.prep, f.ansi, false) {
					if h.law == law {
						g.printed, g.detail = h.printed, h.detail
						break
					}
				}
			}
			if strings.HasPrefix(law, "print_parse_eval_agree:") {
				_, g.printed, g.detail = ps.evalLaw(text, f.ansi)
			}
			ms := []string{}
			for m := range modes[f.text] {
				ms = append(ms, m)
			}
			sort.Strings(ms)
			c := map[string]interface{}{"input": g.text, "mode": g.mode, "seen_in_modes": strings.Join(ms, ","), "detail": g.detail,
				"occurrences_of_law": ps.o.Stats["law_seen:"+law]}
			if text != f.text {
				c["shrunk_from"] = f.text
			}
			if !utf8.ValidString(g.text) {
				c["input_hex"] = hx(g.text)
			}
			if g.printed != "" {
				c["printed"] = g.printed
			}
			per[law] = append(per[law], c)
		}
	}
	for rank := 0; rank < 4; rank++ {
		for _, law := range laws {
			if rank < len(per[law]) {
				ps.o.Law(law, per[law][rank])
			}
		}
	}
}

// hasLaw: does text (in f's mode) still violate `law`?
func (ps *parseStream) hasLaw(text string, f failure, law string) bool {
	switch {
	case strings.HasPrefix(law, "print_parse_fixpoint:") && law != "print_parse_fixpoint:print_panic":
		ls, _, _ := fixpointLaws(text, f.prep, f.ansi)
		for _, l := range ls {
			if l == law {
				return true
			}
		}
		return false
	case law == "print_parse_tree_differs" || law == "distinct_trees_same_text":
		for _, h := range treeLawsOf(text, f.prep, f.ansi, false) {
			if h.law == law {
				return true
			}
		}
		return false
	case law == "parse_total:panic":
		return tryParse(text, f.prep, f.ansi).panicked != nil
	case strings.HasPrefix(law, "print_parse_eval_agree:"):
		l, _, _ := ps.evalLaw(text, f.ansi)
		return l == law
	case law == "parse_total:error_position_outside_input":
		r := tryParse(text, f.prep, f.ansi)
		if r.err == nil {
			return false
		}
		se, ok := r.err.(*parser.SyntaxError)
		return ok && !validPositions(sanitize(text))[[2]int{se.Line, se.Char}]
	}
	return false
}
