// Stream c18 — property C18: the parser is total; printed queries re-parse to the same query.
//
// (a) lexical layer, diffed against the Lean model (ops.txt / impl.txt):
//
//	option.EscapeString / UnescapeString / EscapeIdentifier / UnescapeIdentifier / QuoteString /
//	QuoteIdentifier and parser.Scanner on generated rune strings and on every program text of (b), (c);
//
// (b) totality: parser.Parse under recover on corpus texts, token-level mutations of them and generated
//
//	queries, in all four (prepared x ansi-quotes) modes;
//
// (c) print/parse fixpoint and evaluation agreement for every text that parses to one query expression.
// Laws are checked directly on the implementation's outputs and reported through o.Law.
package main

import (
	"encoding/hex"
	"fmt"
	"os"
	"sort"
	"strings"
	"unicode"
	"unicode/utf8"

	"github.com/mithrandie/csvq/lib/option"
	"github.com/mithrandie/csvq/lib/parser"

	"verifharness/hc"
)

func main() {
	if len(os.Args) >= 4 && os.Args[1] == "-vet-child" {
		vetChild(os.Args[2:])
		return
	}
	hc.Main(run)
}

func hx(s string) string {
	if s == "" {
		return "-"
	}
	return hex.EncodeToString([]byte(s))
}

// sanitize: the rune sequence Go's `[]rune(s)` sees (invalid bytes become U+FFFD). The model works on code points.
func sanitize(s string) string { return string([]rune(s)) }

// ---------- the pool of non-ASCII runes the generators draw from ----------
// The Lean driver computes unicode.IsLetter / IsDigit / IsSpace from the tables of this very toolchain
// (lean/Csvq/Model/Unicode.lean, Scanner.unicodeClasses), so every rune is inside the model; the pool only makes
// letters, digits and spaces of several scripts — and near misses: letter numbers, other numbers, marks, connector
// punctuation, format characters — frequent.

type poolRune struct {
	r                    rune
	letter, digit, space bool
}

var poolRunes = []rune{0xe9, 0xc9, 0xdf, 0x1c6, 0x17f, 0x212a, 0x131, 0x3042, 0x6f22, 0x3a9, 0x436, 0x663, 0xff13, 0x85, 0xa0, 0x3000, 0x2028, 0x1680,
	0x20ac, 0xd7, 0x1f600, 0xfffd, 0xad, 0x301, 0x2160,
	// letters of further scripts: Greek, Cyrillic, Armenian, Hebrew, Arabic, Devanagari, Thai, Georgian (both cases), Cherokee, Hangul,
	// Deseret and Adlam (four bytes), fullwidth Latin, a modifier letter, the feminine ordinal
	0x3b1, 0x3c2, 0x42f, 0x561, 0x5d0, 0x639, 0x915, 0xe01, 0x10d0, 0x1c90, 0x13a0, 0xab70, 0xd55c, 0x10400, 0x10428, 0x1e900, 0x1e922, 0xff21, 0x2b0, 0xaa, 0x1c5, 0x130,
	// decimal digits of further scripts: Devanagari, Bengali, Thai, Tibetan, fullwidth, mathematical bold (four bytes)
	0x96b, 0x9e9, 0xe55, 0xf23, 0xff10, 0x1d7d1, 0x1e950,
	// numbers that are no decimal digits, marks, connector punctuation, format characters, more spaces and near-spaces
	0xb2, 0xbd, 0x2167, 0x3007, 0x93e, 0x203f, 0xfe33, 0x200b, 0x200d, 0xfeff, 0x2003, 0x205f, 0x202f, 0x180e, 0x2029}

var pool = func() []poolRune {
	ps := make([]poolRune, len(poolRunes))
	for i, r := range poolRunes {
		ps[i] = poolRune{r, unicode.IsLetter(r), unicode.IsDigit(r), unicode.IsSpace(r)}
	}
	return ps
}()

func checkPool() {}

// modelled: every text is inside the model now (the classes of all runes are computed from the toolchain's tables).
func modelled(s string) bool { return true }

// ---------- rune string generator for the escape functions ----------

var escAlphabet = []string{"'", "'", "\"", "\"", "`", "`", "\\", "\\", "\\", "a", "b", "f", "n", "r", "t", "v", "x", "0",
	"\a", "\b", "\f", "\n", "\r", "\t", "\v", "\r\n", "\x00", "\x1b", " ", "A", "z", "_", "-", "/", "*", ":", "%", "?", "{", "}"}

func genRunes(g *hc.Gen, maxLen int) string {
	n := g.Intn(maxLen + 1)
	var b strings.Builder
	for i := 0; i < n; i++ {
		switch g.Intn(10) {
		case 0:
			b.WriteRune(pool[g.Intn(len(pool))].r)
		case 1:
			b.WriteRune(rune(g.Intn(0x80)))
		default:
			b.WriteString(escAlphabet[g.Intn(len(escAlphabet))])
		}
	}
	return b.String()
}

func runeClasses(s string) string {
	set := map[string]bool{}
	for _, r := range s {
		switch {
		case r == '\'':
			set["sq"] = true
		case r == '"':
			set["dq"] = true
		case r == '`':
			set["bq"] = true
		case r == '\\':
			set["bs"] = true
		case r == '\r' || r == '\n':
			set["nl"] = true
		case r < 0x20:
			set["ctl"] = true
		case r >= 0x80:
			set["u"] = true
		case strings.ContainsRune("abfnrtv", r):
			set["el"] = true
		default:
			set["p"] = true
		}
	}
	ks := make([]string, 0, len(set))
	for k := range set {
		ks = append(ks, k)
	}
	sort.Strings(ks)
	return strings.Join(ks, "")
}

func lenBucket(n int) string {
	switch {
	case n == 0:
		return "0"
	case n <= 2:
		return "1-2"
	case n <= 8:
		return "3-8"
	case n <= 32:
		return "9-32"
	}
	return "33+"
}

// escapeOps: one generated string through every escape function, plus the laws on the implementation itself.
func escapeOps(o *hc.Out, raw, rest string, ansi1, ansi2 bool) {
	s := sanitize(raw)
	o.Count("esc.len:" + lenBucket(utf8.RuneCountInString(s)))
	o.NonTrivial("esc:" + runeClasses(s) + ":" + lenBucket(utf8.RuneCountInString(s)))
	if raw != s {
		// invalid UTF-8 where meaningful: the functions must treat it as the rune sequence []rune(raw)
		o.Count("esc.invalid_utf8")
		if option.EscapeString(raw) != option.EscapeString(s) || option.UnescapeString(raw, '\'') != option.UnescapeString(s, '\'') ||
			option.EscapeIdentifier(raw) != option.EscapeIdentifier(s) || option.UnescapeIdentifier(raw, '`') != option.UnescapeIdentifier(s, '`') {
			o.Law("escape_invalid_utf8_as_replacement", map[string]string{"hex": hex.EncodeToString([]byte(raw))})
		}
	}
	es := option.EscapeString(s)
	ei := option.EscapeIdentifier(s)
	o.Case("c18.esc "+hx(s), hx(es))
	o.Case("c18.escid "+hx(s), hx(ei))
	o.Case("c18.qs "+hx(s), hx(option.QuoteString(s)))
	o.Case("c18.qid "+hx(s), hx(option.QuoteIdentifier(s)))
	for _, q := range []rune{'\'', '"'} {
		o.Case(fmt.Sprintf("c18.unesc %x %s", q, hx(s)), hx(option.UnescapeString(s, q)))
		o.Case(fmt.Sprintf("c18.unesc %x %s", q, hx(es)), hx(option.UnescapeString(es, q)))
	}
	for _, q := range []rune{'`', '"'} {
		o.Case(fmt.Sprintf("c18.unescid %x %s", q, hx(s)), hx(option.UnescapeIdentifier(s, q)))
		o.Case(fmt.Sprintf("c18.unescid %x %s", q, hx(ei)), hx(option.UnescapeIdentifier(ei, q)))
	}
	// laws (Csvq.C18.string_roundtrip / ident_roundtrip; the quote is the one QuoteString / QuoteIdentifier use)
	if option.UnescapeString(es, '\'') != s {
		o.Law("string_roundtrip", map[string]string{"hex": hx(s), "escaped": es})
	}
	if option.UnescapeIdentifier(ei, '`') != s {
		o.Law("ident_roundtrip", map[string]string{"hex": hx(s), "escaped": ei})
	}
	// the double-quote reading of a text escaped for single quotes is NOT an inverse when s contains '"'
	// (Csvq.C18.string_roundtrip_dq_counterexample); QuoteString never emits that form, so this is only counted.
	if option.UnescapeString(es, '"') != s {
		o.Count("esc.dq_reading_differs")
	}
	// scan_quoted_string / scan_quoted_ident on the real scanner, both quote modes, with a continuation
	for _, ansi := range []bool{false, true} {
		if tok, err := firstToken(option.QuoteString(s)+rest, false, ansi); err != nil || tok.Token != parser.STRING || tok.Literal != s {
			o.Law("scan_quoted_string", map[string]interface{}{"hex": hx(s), "rest": rest, "ansi": ansi, "got": tok.Literal})
		}
		if tok, err := firstToken(option.QuoteIdentifier(s)+rest, false, ansi); err != nil || tok.Token != parser.IDENTIFIER || !tok.Quoted || tok.Literal != s {
			o.Law("scan_quoted_ident", map[string]interface{}{"hex": hx(s), "rest": rest, "ansi": ansi, "got": tok.Literal})
		}
	}
	scanOp(o, option.QuoteString(s)+rest, false, ansi1)
	scanOp(o, option.QuoteIdentifier(s)+rest, false, ansi2)
}

func firstToken(src string, prep, ansi bool) (parser.Token, error) {
	sc := new(parser.Scanner).Init(src, "", prep, ansi)
	return sc.Scan()
}

// ---------- the real scanner, canonical token list ----------

const (
	tokEOF   = -1
	tokUncat = -2
)

func kindName(tok int) string {
	switch {
	case tok == tokEOF:
		return "$"
	case tok == tokUncat:
		return "UNCAT"
	case tok >= parser.IDENTIFIER && tok <= parser.SUBSTITUTION_OP:
		return parser.TokenLiteral(tok)
	}
	return "CH"
}

func kindClass(tok int) string {
	if tok >= parser.SELECT && tok <= parser.JSON_OBJECT {
		return "KEYWORD"
	}
	return kindName(tok)
}

func errKind(err error) string {
	m := err.Error()
	switch {
	case m == "literal not terminated":
		return "LNT"
	case m == "invalid variable symbol":
		return "IVS"
	case m == "invalid constant syntax":
		return "CONST"
	case strings.HasPrefix(m, "cound not convert"):
		return "NUM"
	}
	return "OTHER"
}

type scanResult struct {
	canon    string
	kinds    []string
	uncat    bool // an unrecognised operator token (code -2) occurs
	nul      bool // a NUL character token (code 0) occurs
	err      error
	tokens   []parser.Token
	panicked interface{} // the scanner panicked (law scan_total:panic)
}

// scanImpl runs the real scanner to EOF or to the first scanner error.
func scanImpl(src string, prep, ansi bool) (res scanResult) {
	defer func() {
		if r := recover(); r != nil {
			res.panicked = r
			res.canon = fmt.Sprint("PANIC ", r)
		}
	}()
	sc := new(parser.Scanner).Init(src, "", prep, ansi)
	var parts []string
	limit := utf8.RuneCountInString(src) + 2
	for i := 0; ; i++ {
		if i > limit {
			parts = append(parts, "NOPROGRESS")
			break
		}
		tok, err := sc.Scan()
		res.tokens = append(res.tokens, tok)
		res.kinds = append(res.kinds, kindClass(tok.Token))
		if tok.Token == tokUncat {
			res.uncat = true
		}
		if tok.Token == 0 {
			res.nul = true
		}
		var b strings.Builder
		if err != nil {
			b.WriteString("!" + errKind(err) + ":")
		}
		b.WriteString(kindName(tok.Token))
		if tok.Token != tokEOF {
			b.WriteString(":" + hx(tok.Literal))
		}
		fmt.Fprintf(&b, ":%d.%d", tok.Line, tok.Char)
		if tok.Quoted {
			b.WriteString(":q")
		}
		if tok.HolderOrdinal != 0 {
			fmt.Fprintf(&b, ":h%d", tok.HolderOrdinal)
		}
		parts = append(parts, b.String())
		if err != nil {
			res.err = err
			break
		}
		if tok.Token == tokEOF {
			break
		}
	}
	res.canon = strings.Join(parts, " ")
	res.canon += fmt.Sprintf(" n%d", sc.HolderNumber())
	return res
}

func numberTooLong(s string) bool {
	// the model evaluates 10^exponent exactly; keep exponents of number tokens small
	run := 0
	for _, r := range s {
		if r >= '0' && r <= '9' {
			run++
			if run > 400 {
				return true
			}
		} else {
			run = 0
		}
	}
	return false
}

// validPositions: the (line, char) pairs the scanner's counters can take on src.
func validPositions(src string) map[[2]int]bool {
	rs := []rune(src)
	m := map[[2]int]bool{{1, 0}: true}
	line, char := 1, 0
	for i := 0; i < len(rs); i++ {
		if rs[i] == '\r' || rs[i] == '\n' {
			if rs[i] == '\r' && i+1 < len(rs) && rs[i+1] == '\n' {
				i++
			}
			line++
			char = 0
		} else {
			char++
		}
		m[[2]int{line, char}] = true
	}
	return m
}

// scanOp: scanner diff op (when the text is inside the modelled alphabet) and the position law.
func scanOp(o *hc.Out, raw string, prep, ansi bool) scanResult {
	src := sanitize(raw)
	res := scanImpl(src, prep, ansi)
	mode := modeName(prep, ansi)
	if res.panicked != nil {
		if o.Stats["law_fail:scan_total:panic"] < 6 {
			o.Law("scan_total:panic", map[string]interface{}{"input": src, "input_hex": hx(src), "mode": mode, "detail": fmt.Sprint(res.panicked)})
		}
		return res
	}
	for _, k := range res.kinds {
		o.Count("tok:" + k)
	}
	if res.err != nil {
		o.Count("scan.err:" + errKind(res.err))
	}
	vp := validPositions(src)
	for _, t := range res.tokens {
		if !vp[[2]int{t.Line, t.Char}] || (t.Token != tokEOF && t.Char < 1) {
			o.Law("scan_pos_in_input", map[string]interface{}{"hex": hx(src), "mode": mode, "line": t.Line, "char": t.Char})
			break
		}
	}
	if strings.Contains(res.canon, "NOPROGRESS") {
		o.Law("scan_total", map[string]interface{}{"hex": hx(src), "mode": mode})
	}
	if modelled(src) && !numberTooLong(src) {
		o.Case("c18.scan "+mode+" "+hx(src), res.canon)
		sig := strings.Join(res.kinds, ",")
		if len(sig) > 160 {
			sig = sig[:160]
		}
		o.NonTrivial("scan:" + mode + ":" + sig)
	} else {
		o.Count("scan.unmodelled_alphabet")
	}
	return res
}

func modeName(prep, ansi bool) string {
	b := []byte("p0a0")
	if prep {
		b[1] = '1'
	}
	if ansi {
		b[3] = '1'
	}
	return string(b)
}

// ---------- run ----------

var escRests = []string{"", " ", ",", ")", " x", "\n", ";", " 'z'", "+1", " -- c"}

func escJob(o *hc.Out, g *hc.Gen, raw string) job {
	rest, a1, a2 := escRests[g.Intn(len(escRests))], g.Intn(2) == 0, g.Intn(2) == 0
	s := sanitize(raw)
	qs, qi := option.QuoteString(s)+rest, option.QuoteIdentifier(s)+rest
	return job{vets: []vetItem{{qs, false, false}, {qs, false, true}, {qi, false, false}, {qi, false, true}},
		run: func() { escapeOps(o, raw, rest, a1, a2) }}
}

func scanJob(o *hc.Out, text string, prep, ansi bool) job {
	return job{vets: []vetItem{{text, prep, ansi}}, run: func() { scanOp(o, text, prep, ansi) }}
}

// run: plan every case (all randomness is spent here), vet every text in child processes, then execute.
func run(seed int64, n int, out string, args []string) {
	checkPool()
	g := hc.NewGen(seed)
	o := hc.NewOut(out)
	defer o.Close()
	parentWatchdog(o)

	var plan []job
	// fixed witnesses first (corpus of the property)
	for _, s := range []string{"", "'", "''", "\"", "\"\"", "\\", "\\'", "a'b", "a\"b", "a`b", "\r\n", "a\\nb", "\\\\'", "é'ſ", "\xff'"} {
		plan = append(plan, escJob(o, g, s))
	}
	for _, s := range scanWitnesses {
		for m := 0; m < 4; m++ {
			plan = append(plan, scanJob(o, s, m&1 != 0, m&2 != 0))
		}
	}
	plan = append(plan, job{run: func() { unaryWitnesses(o) }})
	for _, w := range opxWitnesses {
		ws := strings.Fields(w)
		plan = append(plan, job{vets: []vetItem{{"SELECT " + w, false, false}}, run: func() { opxCase(o, ws) }})
	}
	for _, w := range qryWitnesses {
		qt := w
		plan = append(plan, job{vets: []vetItem{{qt, false, false}}, run: func() { qryCase(o, qt) }})
	}
	for _, w := range nqWitnesses {
		qt := w
		plan = append(plan, job{vets: []vetItem{{qt, false, false}}, run: func() { nqCase(o, qt) }})
	}
	ps := newParseStream(o, g)
	defer ps.close()
	plan = append(plan, ps.witnesses()...)

	nEsc, nScan, nUnary := n/8, n/4, n/8
	for i := 0; i < nEsc; i++ {
		plan = append(plan, escJob(o, g, genEscInput(g)))
	}
	for i := 0; i < nScan; i++ {
		text := genScanText(g)
		plan = append(plan, scanJob(o, text, g.Intn(2) == 0, g.Intn(2) == 0))
	}
	for i := 0; i < nUnary; i++ {
		t := genUnary(g)
		plan = append(plan, job{run: func() { unaryCase(o, t) }})
	}
	for i := 0; i < n/6; i++ {
		ws := genOpxWords(g)
		plan = append(plan, job{vets: []vetItem{{"SELECT " + wordsText(ws), false, false}}, run: func() { opxCase(o, ws) }})
	}
	for _, w := range lblWitnesses {
		ws := strings.Fields(w)
		plan = append(plan, job{vets: []vetItem{{"SELECT " + wordsText(ws), false, false}}, run: func() { ps.lblCase(ws) }})
	}
	for i := 0; i < n/10; i++ {
		ws := genLblWords(g)
		plan = append(plan, job{vets: []vetItem{{"SELECT " + wordsText(ws), false, false}}, run: func() { ps.lblCase(ws) }})
		if i%3 == 0 {
			// one expression without column references: the text an error message embeds
			saved := opIdentMax
			opIdentMax = 0
			ms, k := genOpTree(g, 1+g.Intn(3)).words(), i/3
			opIdentMax = saved
			plan = append(plan, job{vets: []vetItem{{"SELECT " + wordsText(ms), false, false}}, run: func() { ps.msgCase(ms, k) }})
		}
	}
	for i := 0; i < n/6; i++ {
		text := genSelText(g)
		plan = append(plan, job{vets: []vetItem{{text, false, false}}, run: func() { selCase(o, text, "generated") }})
		if i%2 == 0 {
			qt := genQryCaseText(g)
			plan = append(plan, job{vets: []vetItem{{qt, false, false}}, run: func() { qryCase(o, qt) }})
		}
		if i%2 == 1 {
			nt := genNqCaseText(g)
			plan = append(plan, job{vets: []vetItem{{nt, false, false}}, run: func() { nqCase(o, nt) }})
		}
	}
	plan = append(plan, ps.plan(n-nEsc-nScan-nUnary)...)

	v := newVetter(o, out)
	var items []vetItem
	for _, j := range plan {
		items = append(items, j.vets...)
	}
	v.vet(items)
	if v.broken {
		// child processes cannot be run here: nothing was vetted, so nothing is handed to the scanner / parser
		o.Law("harness_cannot_run_child_processes", map[string]string{"detail": "the totality part of stream c18 needs to re-exec its own binary"})
		return
	}
	for _, j := range plan {
		if !v.ok(j) {
			o.Count("skipped.not_vetted_or_nonterminating")
			continue
		}
		working("")
		j.run()
	}
	ps.report()
	lalrReport(o)
}

func genEscInput(g *hc.Gen) string {
	s := genRunes(g, 12)
	if g.Intn(12) == 0 {
		// invalid UTF-8
		b := []byte(s)
		b = append(b, []byte{0xff, 0xc0, 0x80, 0xed, 0xa0, 0x80}[g.Intn(6)])
		s = string(b) + genRunes(g, 3)
	}
	return s
}
