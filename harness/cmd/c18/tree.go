package main

// Structural comparison of syntax trees (positions ignored), the walk that finds the printable sub-trees of
// statements that have no String() themselves, and the measured clause combinations.

import (
	"fmt"
	"reflect"
	"strings"

	"github.com/mithrandie/csvq/lib/parser"
	"github.com/mithrandie/csvq/lib/value"

	"verifharness/hc"
)

var (
	typBaseExpr = reflect.TypeOf((*parser.BaseExpr)(nil))
	typToken    = reflect.TypeOf(parser.Token{})
	typPrimary  = reflect.TypeOf((*value.Primary)(nil)).Elem()
	typQE       = reflect.TypeOf((*parser.QueryExpression)(nil)).Elem()
)

// names the printers upper-case: compared without regard to case
var foldedNameFields = map[string]map[string]bool{
	"Function": {"Name": true}, "AggregateFunction": {"Name": true}, "ListFunction": {"Name": true}, "AnalyticFunction": {"Name": true},
	"TableFunction": {"Name": true}, "Constant": {"Space": true, "Name": true}, "RuntimeInformation": {"Name": true}, "Flag": {"Name": true},
}

// treeDiff returns "" when the two trees are equal up to source positions, the case of keyword / operator token
// literals and of the names the printers upper-case; else the path of the first difference.
func treeDiff(a, b interface{}) string {
	return diffValue(reflect.ValueOf(a), reflect.ValueOf(b), "")
}

func isNilable(v reflect.Value) bool {
	switch v.Kind() {
	case reflect.Ptr, reflect.Interface, reflect.Slice, reflect.Map:
		return true
	}
	return false
}

func diffValue(a, b reflect.Value, path string) string {
	if !a.IsValid() || !b.IsValid() {
		if a.IsValid() != b.IsValid() {
			return path + ": present on one side only"
		}
		return ""
	}
	if a.Type() != b.Type() {
		return fmt.Sprintf("%s: %s vs %s", path, a.Type(), b.Type())
	}
	t := a.Type()
	if t == typBaseExpr {
		return ""
	}
	if t.Implements(typPrimary) && t.Kind() == reflect.Ptr {
		an, bn := a.IsNil(), b.IsNil()
		if an || bn {
			if an != bn {
				return path + ": nil vs value"
			}
			return ""
		}
		x, y := hc.EncVal(a.Interface().(value.Primary)), hc.EncVal(b.Interface().(value.Primary))
		if x != y {
			return fmt.Sprintf("%s: value %s vs %s", path, x, y)
		}
		return ""
	}
	switch a.Kind() {
	case reflect.Interface:
		if a.IsNil() || b.IsNil() {
			if a.IsNil() != b.IsNil() {
				return path + ": nil vs " + fmt.Sprint(nonNil(a, b).Elem().Type())
			}
			return ""
		}
		return diffValue(a.Elem(), b.Elem(), path)
	case reflect.Ptr:
		if a.IsNil() || b.IsNil() {
			if a.IsNil() != b.IsNil() {
				return path + ": nil vs non-nil"
			}
			return ""
		}
		return diffValue(a.Elem(), b.Elem(), path)
	case reflect.Slice:
		if a.Len() != b.Len() {
			return fmt.Sprintf("%s: %d vs %d elements", path, a.Len(), b.Len())
		}
		for i := 0; i < a.Len(); i++ {
			if d := diffValue(a.Index(i), b.Index(i), fmt.Sprintf("%s[%d]", path, i)); d != "" {
				return d
			}
		}
		return ""
	case reflect.Struct:
		if t == typToken {
			x, y := a.Interface().(parser.Token), b.Interface().(parser.Token)
			if x.Token != y.Token || !strings.EqualFold(x.Literal, y.Literal) || x.Quoted != y.Quoted {
				show := func(t parser.Token) string {
					if t.IsEmpty() {
						return "(absent)"
					}
					return strings.ToUpper(t.Literal)
				}
				return fmt.Sprintf("%s: %s vs %s", path, show(x), show(y))
			}
			return ""
		}
		name := t.Name()
		for i := 0; i < t.NumField(); i++ {
			f := t.Field(i)
			if f.PkgPath != "" || f.Type == typBaseExpr {
				continue
			}
			fa, fb := a.Field(i), b.Field(i)
			p := path + "/" + name + "." + f.Name
			if foldedNameFields[name][f.Name] && f.Type.Kind() == reflect.String {
				if strings.ToUpper(fa.String()) != strings.ToUpper(fb.String()) {
					return fmt.Sprintf("%s: %q vs %q", p, fa.String(), fb.String())
				}
				continue
			}
			if name == "Placeholder" && f.Name == "Ordinal" {
				continue // the position of the placeholder in the text, not part of what it denotes
			}
			if name == "Identifier" && f.Name == "Quoted" && a.FieldByName("Literal").String() == "" && b.FieldByName("Literal").String() == "" {
				continue // an empty quoted view name is not printed; nothing can refer to it
			}
			if d := diffValue(fa, fb, p); d != "" {
				return d
			}
		}
		return ""
	case reflect.String:
		if a.String() != b.String() {
			return fmt.Sprintf("%s: %q vs %q", path, a.String(), b.String())
		}
	case reflect.Bool:
		if a.Bool() != b.Bool() {
			return fmt.Sprintf("%s: %v vs %v", path, a.Bool(), b.Bool())
		}
	case reflect.Int, reflect.Int64, reflect.Int32:
		if a.Int() != b.Int() {
			return fmt.Sprintf("%s: %d vs %d", path, a.Int(), b.Int())
		}
	}
	return ""
}

func nonNil(a, b reflect.Value) reflect.Value {
	if a.IsNil() {
		return b
	}
	return a
}

// value-like node types: their printed text parses as the single field of `SELECT <text>`
var valueNodes = map[string]bool{"PrimitiveType": true, "FieldReference": true, "ColumnNumber": true, "Arithmetic": true, "UnaryArithmetic": true,
	"Concat": true, "Function": true, "AggregateFunction": true, "ListFunction": true, "AnalyticFunction": true, "CaseExpr": true, "Variable": true,
	"VariableSubstitution": true, "EnvironmentVariable": true, "RuntimeInformation": true, "Flag": true, "Constant": true, "CursorStatus": true,
	"CursorAttrebute": true, "Comparison": true, "Is": true, "Between": true, "In": true, "Like": true, "All": true, "Any": true, "Exists": true,
	"Logic": true, "UnaryLogic": true, "Parentheses": true, "Subquery": true}

// printableRoots: the maximal sub-trees of a statement that can be printed and parsed on their own
// (select queries as they are, value expressions as the field of a SELECT).
func printableRoots(stmt interface{}) []parser.QueryExpression {
	var out []parser.QueryExpression
	var walk func(v reflect.Value)
	walk = func(v reflect.Value) {
		if !v.IsValid() {
			return
		}
		switch v.Kind() {
		case reflect.Interface, reflect.Ptr:
			if !v.IsNil() {
				walk(v.Elem())
			}
		case reflect.Slice:
			for i := 0; i < v.Len(); i++ {
				walk(v.Index(i))
			}
		case reflect.Struct:
			t := v.Type()
			if t.PkgPath() == "github.com/mithrandie/csvq/lib/parser" && t.Implements(typQE) && (t.Name() == "SelectQuery" || valueNodes[t.Name()]) && v.CanInterface() {
				out = append(out, v.Interface().(parser.QueryExpression))
				return
			}
			if t.PkgPath() != "github.com/mithrandie/csvq/lib/parser" {
				return
			}
			for i := 0; i < t.NumField(); i++ {
				if t.Field(i).PkgPath == "" && t.Field(i).Type != typBaseExpr {
					walk(v.Field(i))
				}
			}
		}
	}
	walk(reflect.ValueOf(stmt))
	return out
}

// reparse: the tree the printed text of `q` parses to, in the shape of `q` (nil when the text does not parse that way).
func reparse(q parser.QueryExpression, prep, ansi bool) (tree interface{}, printed string, ok bool) {
	p, pn := safeString(q)
	if pn != nil {
		return nil, "", false
	}
	if _, isQuery := q.(parser.SelectQuery); isQuery {
		r := tryParse(p, prep, ansi)
		if r.panicked != nil || r.err != nil || len(r.stmts) != 1 {
			return nil, p, false
		}
		return r.stmts[0], p, true
	}
	r := tryParse("SELECT "+p, prep, ansi)
	if r.panicked != nil || r.err != nil || len(r.stmts) != 1 {
		return nil, p, false
	}
	sq, isQuery := r.stmts[0].(parser.SelectQuery)
	if !isQuery {
		return nil, p, false
	}
	se, ok1 := sq.SelectEntity.(parser.SelectEntity)
	if !ok1 || se.FromClause != nil || se.WhereClause != nil || se.GroupByClause != nil || se.HavingClause != nil || se.IntoClause != nil ||
		sq.OrderByClause != nil || sq.LimitClause != nil || sq.WithClause != nil {
		return nil, p, false
	}
	sc, ok2 := se.SelectClause.(parser.SelectClause)
	if !ok2 || len(sc.Fields) != 1 || !sc.Distinct.IsEmpty() {
		return nil, p, false
	}
	f, ok3 := sc.Fields[0].(parser.Field)
	if !ok3 || f.Alias != nil {
		return nil, p, false
	}
	return f.Object, p, true
}

// ---------- measured clause combinations ----------

func tokName(t parser.Token) string {
	if t.IsEmpty() {
		return "-"
	}
	return strings.ToUpper(t.Literal)
}

func has(x interface{}) string {
	if x == nil {
		return "-"
	}
	return "+"
}

// countClauses records, for every node of the tree that has optional parts, which combination occurred.
func countClauses(o *hc.Out, stmt interface{}) {
	var walk func(v reflect.Value)
	walk = func(v reflect.Value) {
		if !v.IsValid() {
			return
		}
		switch v.Kind() {
		case reflect.Interface, reflect.Ptr:
			if !v.IsNil() {
				walk(v.Elem())
			}
		case reflect.Slice:
			for i := 0; i < v.Len(); i++ {
				walk(v.Index(i))
			}
		case reflect.Struct:
			t := v.Type()
			if t.PkgPath() != "github.com/mithrandie/csvq/lib/parser" || t == typToken {
				return
			}
			if v.CanInterface() {
				if c := clauseCombo(v.Interface()); c != "" {
					o.Count("clause:" + c)
				}
			}
			for i := 0; i < t.NumField(); i++ {
				if t.Field(i).PkgPath == "" && t.Field(i).Type != typBaseExpr {
					walk(v.Field(i))
				}
			}
		}
	}
	walk(reflect.ValueOf(stmt))
}

func clauseCombo(n interface{}) string {
	switch e := n.(type) {
	case parser.OrderItem:
		return "OrderItem:" + tokName(e.Direction) + "/NULLS " + tokName(e.NullsPosition)
	case parser.LimitClause:
		return "Limit:" + tokName(e.Type) + "/" + tokName(e.Position) + "/" + tokName(e.Unit) + "/" + tokName(e.Restriction) + "/offset" + has(e.OffsetClause)
	case parser.OffsetClause:
		return "Offset:unit " + tokName(e.Unit)
	case parser.SelectClause:
		return "SelectClause:" + tokName(e.Distinct)
	case parser.SelectQuery:
		fu := "-"
		if e.IsForUpdate() {
			fu = "+"
		}
		return "SelectQuery:with" + has(e.WithClause) + "/order" + has(e.OrderByClause) + "/limit" + has(e.LimitClause) + "/forupdate" + fu
	case parser.SelectEntity:
		return "SelectEntity:into" + has(e.IntoClause) + "/from" + has(e.FromClause) + "/where" + has(e.WhereClause) + "/group" + has(e.GroupByClause) + "/having" + has(e.HavingClause)
	case parser.SelectSet:
		return "SelectSet:" + tokName(e.Operator) + "/" + tokName(e.All)
	case parser.InlineTable:
		f := "-"
		if e.Fields != nil {
			f = "+"
		}
		return "InlineTable:" + tokName(e.Recursive) + "/fields" + f
	case parser.AggregateFunction:
		return "AggregateFunction:" + tokName(e.Distinct)
	case parser.ListFunction:
		return "ListFunction:" + tokName(e.Distinct) + "/within" + has(e.OrderBy)
	case parser.AnalyticFunction:
		return "AnalyticFunction:" + tokName(e.Distinct) + "/ignore " + tokName(e.IgnoreType) + "/partition" + has(e.AnalyticClause.PartitionClause) +
			"/order" + has(e.AnalyticClause.OrderByClause) + "/frame" + has(e.AnalyticClause.WindowingClause)
	case parser.WindowingClause:
		lo, _ := e.FrameLow.(parser.WindowFramePosition)
		s := "Frame:" + framePos(lo)
		if e.FrameHigh != nil {
			hi, _ := e.FrameHigh.(parser.WindowFramePosition)
			s += " AND " + framePos(hi)
		}
		return s
	case parser.Join:
		c := "-"
		if jc, ok := e.Condition.(parser.JoinCondition); ok {
			if jc.On != nil {
				c = "ON"
			} else {
				c = "USING"
			}
		}
		lat := "-"
		if t, ok := e.JoinTable.(parser.Table); ok && !t.Lateral.IsEmpty() {
			lat = "LATERAL"
		}
		return "Join:" + tokName(e.Natural) + "/" + tokName(e.Direction) + "/" + tokName(e.JoinType) + "/" + c + "/" + lat
	case parser.Table:
		return "Table:" + tokName(e.Lateral) + "/as " + tokName(e.As) + "/alias" + has(e.Alias)
	case parser.Field:
		return "Field:as " + tokName(e.As) + "/alias" + has(e.Alias)
	case parser.Is:
		return "Is:" + tokName(e.Negation)
	case parser.Between:
		return "Between:" + tokName(e.Negation)
	case parser.In:
		return "In:" + tokName(e.Negation)
	case parser.Like:
		return "Like:" + tokName(e.Negation)
	case parser.CaseExpr:
		return "Case:value" + has(e.Value) + "/else" + has(e.Else)
	case parser.Function:
		if !e.From.IsEmpty() {
			return "Substring:FROM/" + tokName(e.For)
		}
	case parser.CursorStatus:
		return "CursorStatus:" + tokName(e.Negation) + "/" + tokName(e.Type)
	}
	return ""
}

func framePos(p parser.WindowFramePosition) string {
	switch {
	case p.Direction.Token == parser.CURRENT:
		return "CURRENT ROW"
	case !p.Unbounded.IsEmpty():
		return "UNBOUNDED " + tokName(p.Direction)
	}
	return "n " + tokName(p.Direction)
}

// ---------- laws on trees ----------

type lawHit struct{ law, printed, detail string }

func selectClauses(stmt interface{}) []parser.SelectClause {
	var out []parser.SelectClause
	var walk func(v reflect.Value)
	walk = func(v reflect.Value) {
		if !v.IsValid() {
			return
		}
		switch v.Kind() {
		case reflect.Interface, reflect.Ptr:
			if !v.IsNil() {
				walk(v.Elem())
			}
		case reflect.Slice:
			for i := 0; i < v.Len(); i++ {
				walk(v.Index(i))
			}
		case reflect.Struct:
			t := v.Type()
			if t.PkgPath() != "github.com/mithrandie/csvq/lib/parser" || t == typToken {
				return
			}
			if sc, ok := v.Interface().(parser.SelectClause); ok && v.CanInterface() {
				out = append(out, sc)
			}
			for i := 0; i < t.NumField(); i++ {
				if t.Field(i).PkgPath == "" && t.Field(i).Type != typBaseExpr {
					walk(v.Field(i))
				}
			}
		}
	}
	walk(reflect.ValueOf(stmt))
	return out
}

// treeConsistent: every printable root of every statement of the text re-parses to the same tree.
func treeConsistent(text string, prep, ansi bool) (parsed bool, ok bool) {
	r := tryParse(text, prep, ansi)
	if r.panicked != nil || r.err != nil {
		return false, false
	}
	for _, st := range r.stmts {
		for _, root := range printableRoots(st) {
			t2, _, okp := reparse(root, prep, ansi)
			if !okp || treeDiff(root, t2) != "" {
				return true, false
			}
		}
	}
	return true, true
}

// treeLawsOf: the tree laws violated by a text.
//
//	print_parse_tree_differs   parse(print(parse x)) is not parse x (positions ignored) although the printed text parses —
//	                           the printer dropped or altered something (attributed to a known printer defect when the
//	                           textual repair of exactly that defect restores the tree)
//	distinct_trees_same_text   two items of one select list print the same text but are different trees (csvq identifies
//	                           analytic / aggregate / list function calls by their printed text)
func treeLawsOf(text string, prep, ansi bool, skipTopLevel bool) (hits []lawHit) {
	r := tryParse(text, prep, ansi)
	if r.panicked != nil || r.err != nil {
		return nil
	}
	sres := scanImpl(sanitize(text), prep, ansi)
	quotedCall := false
	for k := 0; k+1 < len(sres.tokens); k++ {
		if sres.tokens[k].Token == parser.IDENTIFIER && sres.tokens[k].Quoted && sres.tokens[k+1].Token == '(' {
			quotedCall = true
		}
	}
	uncatExplains := func() bool {
		blank := blankUnrecognisedOperators(text, prep, ansi)
		if blank == text {
			return false
		}
		parsed, ok := treeConsistent(blank, prep, ansi)
		return !parsed || ok
	}
	seen := map[string]bool{}
	add := func(h lawHit) {
		if !seen[h.law+h.printed] {
			seen[h.law+h.printed] = true
			hits = append(hits, h)
		}
	}
	single := len(r.stmts) == 1
	for _, st := range r.stmts {
		for _, root := range printableRoots(st) {
			if _, top := st.(parser.QueryExpression); top && single && skipTopLevel {
				continue
			}
			t2, p, ok := reparse(root, prep, ansi)
			if !ok {
				continue
			}
			d := treeDiff(root, t2)
			if d == "" {
				continue
			}
			detail := "the printed text parses to a different tree: " + d
			if sres.uncat && uncatExplains() {
				add(lawHit{"print_parse_fixpoint:unrecognised_operator_skipped", p, detail})
				continue
			}
			// a known printer defect whose repair restores the tree?
			var cand []repair
			for _, rp := range repairs {
				if rp.fix(p, sres.tokens) != p {
					cand = append(cand, rp)
				}
			}
			best := -1
			for mask := 1; mask < 1<<len(cand); mask++ {
				if best >= 0 && popcount(mask) >= popcount(best) {
					continue
				}
				t := p
				for i, rp := range cand {
					if mask&(1<<i) != 0 {
						t = rp.fix(t, sres.tokens)
					}
				}
				if t3, ok3 := reparseText(t, root, prep, ansi); ok3 && treeDiff(root, t3) == "" {
					best = mask
				}
			}
			if best >= 0 {
				for i, rp := range cand {
					if best&(1<<i) != 0 {
						add(lawHit{rp.law, p, detail})
					}
				}
				continue
			}
			add(lawHit{"print_parse_tree_differs", p, detail})
		}
		if sres.uncat {
			continue
		}
		for _, sc := range selectClauses(st) {
			type item struct {
				obj  parser.QueryExpression
				text string
			}
			var items []item
			for _, f := range sc.Fields {
				if fld, ok := f.(parser.Field); ok && fld.Object != nil {
					if s, pn := safeString(fld.Object); pn == nil {
						items = append(items, item{fld.Object, s})
					}
				}
			}
			for i := 0; i < len(items); i++ {
				for j := i + 1; j < len(items); j++ {
					if items[i].text != items[j].text {
						continue
					}
					if d := treeDiff(items[i].obj, items[j].obj); d != "" {
						law := "distinct_trees_same_text"
						if quotedCall {
							law = "print_parse_fixpoint:function_name_unquoted"
						}
						add(lawHit{law, items[i].text, "select-list items " + fmt.Sprint(i+1) + " and " + fmt.Sprint(j+1) + " print the same text but differ: " + d})
					}
				}
			}
		}
	}
	return hits
}

// reparseText: parse `text` in the shape of `like` (a select query as it is, a value as the field of a SELECT)
func reparseText(text string, like parser.QueryExpression, prep, ansi bool) (interface{}, bool) {
	if _, isQuery := like.(parser.SelectQuery); isQuery {
		r := tryParse(text, prep, ansi)
		if r.panicked != nil || r.err != nil || len(r.stmts) != 1 {
			return nil, false
		}
		return r.stmts[0], true
	}
	r := tryParse("SELECT "+text, prep, ansi)
	if r.panicked != nil || r.err != nil || len(r.stmts) != 1 {
		return nil, false
	}
	sq, ok := r.stmts[0].(parser.SelectQuery)
	if !ok {
		return nil, false
	}
	se, ok := sq.SelectEntity.(parser.SelectEntity)
	if !ok {
		return nil, false
	}
	sc, ok := se.SelectClause.(parser.SelectClause)
	if !ok || len(sc.Fields) != 1 {
		return nil, false
	}
	f, ok := sc.Fields[0].(parser.Field)
	if !ok {
		return nil, false
	}
	return f.Object, true
}
