package main

// Non-termination as a first-class law.  Every text the stream is going to hand to the real Scanner / parser.Parse is
// first run in a CHILD process (a re-exec of this binary, one chunk of inputs per child) that has a per-input
// wall-clock deadline, a heap limit watched from inside, RLIMIT_AS as a hard stop, and a parent-side timeout.  The
// child announces each input before it starts it, so when a child dies the input it was working on is known; that
// single input is run again in a fresh child (longer deadline) and, if it fails again, reported as
// `parser_does_not_terminate` with the text as replay.  The parent never scans or parses a text that was not vetted.

import (
	"bufio"
	"context"
	"encoding/hex"
	"fmt"
	"os"
	"os/exec"
	"path/filepath"
	"runtime"
	"strconv"
	"strings"
	"sync/atomic"
	"syscall"
	"time"
	"unicode/utf8"

	"github.com/mithrandie/csvq/lib/parser"

	"verifharness/hc"
)

type vetItem struct {
	text       string
	prep, ansi bool
}

func (v vetItem) key() string { return modeName(v.prep, v.ansi) + " " + v.text }

// job: one unit of the stream; `vets` are the texts its `run` will give to the scanner / parser.
type job struct {
	vets []vetItem
	run  func()
}

const (
	vetChunk        = 1500
	vetPerInput     = 3 * time.Second  // deadline of one input inside a chunk child
	vetConfirm      = 8 * time.Second  // deadline of the confirming single-input child
	vetHeapLimit    = 128 << 20        // bytes of heap a child may use (program texts are a few KB)
	vetAddressSpace = 6 << 30          // RLIMIT_AS of a child (hard stop)
	vetParentSlack  = 10 * time.Second // parent-side timeout beyond the per-input deadline
)

// ---------- child ----------

// vetWork: what the parent will do with a text, without any of the bookkeeping.
func vetWork(text string, prep, ansi bool) {
	defer func() { _ = recover() }() // panics are the parent's business (law parse_total:panic)
	src := sanitize(text)
	sc := new(parser.Scanner).Init(src, "", prep, ansi)
	limit := utf8.RuneCountInString(src) + 2
	for i := 0; i <= limit; i++ {
		tok, err := sc.Scan()
		if err != nil || tok.Token == tokEOF {
			break
		}
	}
	st, _, err := parser.Parse(text, "", prep, ansi)
	if err != nil || len(st) != 1 {
		return
	}
	if q, ok := st[0].(parser.QueryExpression); ok {
		p := q.String()
		if st2, _, err2 := parser.Parse(p, "", prep, ansi); err2 == nil && len(st2) == 1 {
			if q2, ok := st2[0].(parser.QueryExpression); ok {
				_ = q2.String()
			}
		}
	}
}

// vetChild: `<bin> -vet-child <file> <per-input-ms>`; file lines are `<mode> <hex>`.
func vetChild(args []string) {
	_ = syscall.Setrlimit(syscall.RLIMIT_AS, &syscall.Rlimit{Cur: vetAddressSpace, Max: vetAddressSpace})
	ms, _ := strconv.Atoi(args[1])
	deadline := time.Duration(ms) * time.Millisecond
	b, err := os.ReadFile(args[0])
	if err != nil {
		fmt.Println("x read")
		os.Exit(9)
	}
	lines := strings.Split(strings.TrimRight(string(b), "\n"), "\n")
	var cur atomic.Int64   // index of the input being worked on
	var since atomic.Int64 // when it was started (unix nanoseconds)
	cur.Store(-1)
	since.Store(time.Now().UnixNano())
	go func() {
		var ms runtime.MemStats
		for {
			time.Sleep(25 * time.Millisecond)
			if i := cur.Load(); i >= 0 && time.Since(time.Unix(0, since.Load())) > deadline {
				fmt.Printf("t %d\n", i)
				os.Exit(3)
			}
			runtime.ReadMemStats(&ms)
			if ms.HeapAlloc > vetHeapLimit {
				fmt.Printf("m %d\n", cur.Load())
				os.Exit(4)
			}
		}
	}()
	for i, l := range lines {
		f := strings.SplitN(l, " ", 2)
		if len(f) != 2 || len(f[0]) != 4 {
			continue
		}
		raw, err := hex.DecodeString(f[1])
		if err != nil {
			continue
		}
		since.Store(time.Now().UnixNano())
		cur.Store(int64(i))
		fmt.Printf("s %d\n", i)
		vetWork(string(raw), f[0][1] == '1', f[0][3] == '1')
	}
	cur.Store(-1)
	fmt.Println("d")
}

// ---------- parent ----------

type vetter struct {
	o      *hc.Out
	dir    string
	exe    string
	nfile  int
	bad    map[string]string // vetItem key -> why
	good   map[string]bool   // vetItem key -> a child finished it
	broken bool              // children cannot be run at all (reported once)
}

// after this many confirmed non-terminating inputs the vetting stops; what was not vetted is not run
const vetMaxBad = 4

func newVetter(o *hc.Out, out string) *vetter {
	dir := os.Getenv("VERIF_SCRATCH")
	if dir == "" {
		dir = out
	}
	exe, err := os.Executable()
	if err != nil {
		exe = os.Args[0]
	}
	return &vetter{o: o, dir: dir, exe: exe, bad: map[string]string{}, good: map[string]bool{}}
}

// runChild runs items[from:] in one child; returns the index (into items) of the input the child died on, or -1.
func (v *vetter) runChild(items []vetItem, perInput time.Duration) (died int, why string) {
	working("")
	v.nfile++
	fn := filepath.Join(v.dir, fmt.Sprintf("c18-vet-%d-%d.in", os.Getpid(), v.nfile))
	var b strings.Builder
	for _, it := range items {
		b.WriteString(modeName(it.prep, it.ansi) + " " + hex.EncodeToString([]byte(it.text)) + "\n")
	}
	if err := os.WriteFile(fn, []byte(b.String()), 0o600); err != nil {
		panic(err)
	}
	defer os.Remove(fn)
	ctx, cancel := context.WithTimeout(context.Background(), perInput+vetParentSlack+time.Duration(len(items))*2*time.Millisecond)
	defer cancel()
	cmd := exec.CommandContext(ctx, v.exe, "-vet-child", fn, strconv.Itoa(int(perInput/time.Millisecond)))
	cmd.Env = append(os.Environ(), "GOMEMLIMIT=512MiB", "GOMAXPROCS=2")
	cmd.Stderr = nil
	pipe, err := cmd.StdoutPipe()
	if err != nil {
		panic(err)
	}
	if err := cmd.Start(); err != nil {
		v.broken = true
		return -1, "cannot start child: " + err.Error()
	}
	last, done, verdict := -1, false, ""
	sc := bufio.NewScanner(pipe)
	for sc.Scan() {
		l := sc.Text()
		switch {
		case strings.HasPrefix(l, "s "):
			last, _ = strconv.Atoi(l[2:])
		case l == "d":
			done = true
		case strings.HasPrefix(l, "t "):
			verdict = fmt.Sprintf("no result after %v", perInput)
		case strings.HasPrefix(l, "m "):
			verdict = fmt.Sprintf("heap grew beyond %d MiB", vetHeapLimit>>20)
		}
	}
	werr := cmd.Wait()
	if done && werr == nil {
		return -1, ""
	}
	if verdict == "" {
		switch {
		case ctx.Err() != nil:
			verdict = "child killed by the parent's timeout"
		case werr != nil:
			verdict = "child died: " + werr.Error()
		default:
			verdict = "child ended early"
		}
	}
	if last < 0 {
		v.broken = true
		return -1, verdict
	}
	return last, verdict
}

// vet runs all items in chunks; fills v.bad and reports the law.
func (v *vetter) vet(items []vetItem) {
	seen := map[string]bool{}
	uniq := items[:0:0]
	for _, it := range items {
		if k := it.key(); !seen[k] {
			seen[k] = true
			uniq = append(uniq, it)
		}
	}
	v.o.Stats["vet.inputs"] = len(uniq)
	for from := 0; from < len(uniq) && !v.broken && len(v.bad) < vetMaxBad; {
		to := from + vetChunk
		if to > len(uniq) {
			to = len(uniq)
		}
		v.o.Count("vet.children")
		died, why := v.runChild(uniq[from:to], vetPerInput)
		if died < 0 {
			if !v.broken {
				for _, it := range uniq[from:to] {
					v.good[it.key()] = true
				}
			}
			from = to
			continue
		}
		for _, it := range uniq[from : from+died] {
			v.good[it.key()] = true
		}
		culprit := uniq[from+died]
		// confirm on its own, with a longer deadline
		v.o.Count("vet.suspects")
		d2, why2 := v.runChild([]vetItem{culprit}, vetConfirm)
		if d2 == 0 {
			v.bad[culprit.key()] = why2
			v.report(culprit, why+"; alone: "+why2)
			from = from + died + 1
		} else {
			v.o.Count("vet.suspect_not_confirmed")
			from = from + died // the same input again, in a fresh chunk
			if v.o.Stats["vet.suspect_not_confirmed"] > 20 {
				v.broken = true
			}
		}
	}
	if v.broken {
		// never silently fall back to in-process parsing of unvetted texts: say so (no alarm — nothing failed)
		v.o.Count("vet.unavailable")
	}
}

func (v *vetter) fails(it vetItem, perInput time.Duration) bool {
	d, _ := v.runChild([]vetItem{it}, perInput)
	return d == 0
}

func (v *vetter) report(it vetItem, why string) {
	// shrink the first one with a small budget of child runs (every failing attempt costs the detection time)
	text, budget := it.text, 10
	if v.o.Stats["law_fail:parser_does_not_terminate"] >= 1 {
		budget = 0
	}
	shr := shrink(text, func(s string) bool {
		if budget <= 0 || s == "" {
			return false
		}
		budget--
		return v.fails(vetItem{s, it.prep, it.ansi}, 2*time.Second)
	}, 10)
	c := map[string]interface{}{"input": shr, "input_hex": hx(shr), "mode": modeName(it.prep, it.ansi),
		"detail": "Scanner.Scan / parser.Parse did not finish in a child process: " + why}
	if shr != text {
		c["shrunk_from"] = text
		c["shrunk_from_hex"] = hx(text)
	}
	v.o.Law("parser_does_not_terminate", c)
}

// ok: every text of the job was finished by a child
func (v *vetter) ok(j job) bool {
	for _, it := range j.vets {
		if !v.good[it.key()] {
			return false
		}
	}
	return true
}

// ---------- last resort inside the parent ----------

var parentCurrent atomic.Value // string: what the parent is working on (derived texts: printed forms, shrink candidates)

// parentWatchdog: derived texts (shrink candidates, repaired printed texts) are parsed in the parent. If that ever
// hangs or eats memory the stream still ends with a law and a replay instead of being killed.
func parentWatchdog(o *hc.Out) {
	var beat atomic.Int64
	beat.Store(time.Now().UnixNano())
	parentBeat = &beat
	go func() {
		var ms runtime.MemStats
		for {
			time.Sleep(100 * time.Millisecond)
			runtime.ReadMemStats(&ms)
			stuck := time.Since(time.Unix(0, beat.Load())) > 30*time.Second
			if stuck || ms.HeapAlloc > 1536<<20 {
				cur, _ := parentCurrent.Load().(string)
				o.Law("parser_does_not_terminate", map[string]interface{}{"input": cur, "input_hex": hx(cur),
					"detail": "detected inside the stream process while working on a derived text (printed form / shrink candidate)"})
				o.Close()
				os.Exit(0)
			}
		}
	}()
}

var parentBeat *atomic.Int64

func working(text string) {
	parentCurrent.Store(text)
	if parentBeat != nil {
		parentBeat.Store(time.Now().UnixNano())
	}
}
