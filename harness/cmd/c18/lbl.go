package main

// Column labels: the second producer of text derived from the syntax tree.  Op line `c18.lbl <words of a select list>`
// (items separated by `,`, optional `AS x<k>`); answer: Field.Name() of every item, hex, or ERR - against the Lean
// model's `Label.fieldName` + `Label.text` (Csvq/Model/Label.lean).  Laws, checked on the real code alone:
//   header_label_differs_from_field_name  the header of the evaluated query carries exactly these labels
//   label_reparse_differs                 the label of an item without alias (not a bare quoted one-token value) parses
//                                         to the item's tree and is labelled identically again
//   label_evaluates_differently           SELECT <label> FROM xt returns the item's column under the same label

import (
	"fmt"
	"regexp"
	"strings"

	"github.com/mithrandie/csvq/lib/parser"

	"verifharness/hc"
)

var lblWitnesses = []string{
	"x1 + 1", "x1 || '7a", "( x1 + 1 ) * 2", "( x1 + 1 )", "- x1", "x1 IS NULL", "( x1 )", "( ( x2 ) )", "( 1 )", "( '61 )", "( '782079 )", "( ( '7831 ) )",
	"( `7831 )", "( `79202079 )", "'7831 , x1", "`7831 , x1", "x1 AS x2 , 1 AS x3 , '61 AS x0", "x0 = '61202062", "x0 = '612062", "x0 = '61e3808062 , x0 = '61c2a062 , x0 = '61c28562",
	"x4 ( '2020 , x1 )", "x5 ( `79202079 , '09 )", "x1 BETWEEN '2061 AND '6120", "x1 NOT IN ( '6120202062 , '0a )", "x1 LIKE '25202025", "- - x1", "NOT ! ! x1", "! - x1",
	"x1 , ( x1 )", "1 , ( 1 ) , ( ( 1 ) )", "x6 ( )", "CURSOR x1 IS NOT IN RANGE", "( x1 ) AS x1",
}

func splitItems(ws []string) (items [][]string) {
	depth, start := 0, 0
	for i, w := range ws {
		switch w {
		case "(":
			depth++
		case ")":
			depth--
		case ",":
			if depth == 0 {
				items = append(items, ws[start:i])
				start = i + 1
			}
		}
	}
	return append(items, ws[start:])
}

func fieldsOf(text string) ([]parser.Field, bool) {
	r := tryParse(text, false, false)
	if r.panicked != nil || r.err != nil || len(r.stmts) != 1 {
		return nil, false
	}
	sq, ok := r.stmts[0].(parser.SelectQuery)
	if !ok {
		return nil, false
	}
	se, ok := sq.SelectEntity.(parser.SelectEntity)
	if !ok {
		return nil, false
	}
	sc, ok := se.SelectClause.(parser.SelectClause)
	if !ok {
		return nil, false
	}
	out := make([]parser.Field, len(sc.Fields))
	for i, f := range sc.Fields {
		fd, ok := f.(parser.Field)
		if !ok {
			return nil, false
		}
		if _, star := fd.Object.(parser.AllColumns); star {
			return nil, false
		}
		out[i] = fd
	}
	return out, true
}

func safeName(f parser.Field) (s string, panicked interface{}) {
	defer func() {
		if r := recover(); r != nil {
			panicked = r
		}
	}()
	return f.Name(), nil
}

// splitEval: the answer of parseStream.eval -> header cells, rows of cells
func splitEval(a string) (header []string, rows [][]string) {
	parts := strings.Split(a, "|")
	header = strings.Split(strings.TrimSuffix(parts[0], ","), ",")
	for _, p := range parts[1:] {
		rows = append(rows, strings.Split(strings.TrimSuffix(p, ","), ","))
	}
	return
}

func column(rows [][]string, i int) string {
	out := make([]string, len(rows))
	for k, r := range rows {
		if i < len(r) {
			out[k] = r[i]
		}
	}
	return strings.Join(out, ",")
}

func evalFailed(a string) bool { return strings.HasPrefix(a, "E") || strings.HasPrefix(a, "PANIC") }

var lblFunctionsDeclared bool

func (ps *parseStream) lblCase(ws []string) {
	o := ps.o
	if !lblFunctionsDeclared {
		lblFunctionsDeclared = true
		for _, d := range []string{
			"DECLARE x4 FUNCTION (@a) AS BEGIN RETURN @a; END;",
			"DECLARE x5 FUNCTION (@a, @b) AS BEGIN RETURN @a || @b; END;",
			"DECLARE x6 FUNCTION () AS BEGIN RETURN 6; END;",
		} {
			if _, err := ps.proc.Exec(d); err != nil {
				o.Law("harness_statement_failed", map[string]string{"sql": d, "error": err.Error()})
			}
		}
	}
	text := wordsText(ws)
	fields, ok := fieldsOf("SELECT " + text)
	names := make([]string, len(fields))
	impl := "ERR"
	if ok {
		hexes := make([]string, len(fields))
		for i, f := range fields {
			n, pn := safeName(f)
			if pn != nil {
				o.Law("parser_panics", map[string]string{"text": "SELECT " + text, "where": "Field.Name()", "panic": fmt.Sprint(pn)})
				return
			}
			names[i], hexes[i] = n, hx(n)
		}
		impl = strings.Join(hexes, " ")
	}
	o.Case("c18.lbl "+strings.Join(ws, " "), impl)
	if !ok {
		o.Count("lbl.err")
		o.NonTrivial("lbl:err:" + strings.Join(ws, " "))
		return
	}
	o.Count("lbl.ok")
	items := splitItems(ws)
	if len(items) != len(fields) {
		o.Count("lbl.items_not_aligned")
		return
	}
	exempt := make([]bool, len(items))
	sig := make([]string, len(items))
	for i, it := range items {
		aliased := len(it) >= 3 && it[len(it)-2] == "AS"
		bareQuoted := len(it) == 1 && isLitWord(it[0])
		exempt[i] = aliased || bareQuoted
		sig[i] = fmt.Sprintf("%T/%v/%v", fields[i].Object, aliased, bareQuoted)
		if p, isP := fields[i].Object.(parser.Parentheses); isP {
			sig[i] += fmt.Sprintf("/%T", p.Expr)
		}
		switch {
		case aliased:
			o.Count("lbl.item.aliased")
		case bareQuoted:
			o.Count("lbl.item.bare_quoted(exempt)")
		default:
			o.Count("lbl.item.checked")
		}
	}
	o.NonTrivial("lbl:" + strings.Join(sig, ","))

	// the label parses back to the item
	for i, f := range fields {
		if exempt[i] {
			continue
		}
		rep := map[string]string{"text": "SELECT " + text, "item": wordsText(items[i]), "label": names[i]}
		obj, ok := reparseText(names[i], f.Object, false, false)
		if !ok {
			rep["detail"] = "the label does not parse as one select item"
			o.Law("label_reparse_differs", rep)
			continue
		}
		qe, isQE := obj.(parser.QueryExpression)
		if d := treeDiff(f.Object, obj); d != "" || !isQE {
			rep["detail"] = "the label parses to another tree: " + d
			o.Law("label_reparse_differs", rep)
			continue
		}
		if again, pn := safeName(parser.Field{Object: qe}); pn != nil || again != names[i] {
			rep["detail"] = "the parsed label is labelled " + again
			o.Law("label_reparse_differs", rep)
		}
	}

	// the header of the evaluated query; SELECT <label> evaluates like the item
	sql := "SELECT " + text + " FROM xt"
	a := ps.eval(sql, false)
	if evalFailed(a) {
		o.Count("lbl.eval_error")
		return
	}
	o.Count("lbl.evaluated")
	header, rows := splitEval(a)
	for i := range fields {
		if i >= len(header) || header[i] != hx(names[i]) {
			o.Law("header_label_differs_from_field_name", map[string]string{"sql": sql, "item": wordsText(items[i]), "field_name": names[i], "header": strings.Join(header, ",")})
			return
		}
	}
	for i := range fields {
		if exempt[i] {
			continue
		}
		// the item on its own (an item may read the label of a sibling: that is not a property of its own label)
		sql1, col, hdr := sql, column(rows, i), header[i]
		if len(fields) > 1 {
			sql1 = "SELECT " + wordsText(items[i]) + " FROM xt"
			a1 := ps.eval(sql1, false)
			if evalFailed(a1) {
				o.Count("lbl.item_alone_fails")
				continue
			}
			h1, r1 := splitEval(a1)
			if len(h1) != 1 {
				continue
			}
			col, hdr = column(r1, 0), h1[0]
		}
		sql2 := "SELECT " + names[i] + " FROM xt"
		b := ps.eval(sql2, false)
		rep := map[string]string{"sql": sql1, "item": wordsText(items[i]), "label": names[i], "sql_of_label": sql2}
		if evalFailed(b) {
			rep["detail"] = "the label is not accepted: " + b
			o.Law("label_evaluates_differently", rep)
			continue
		}
		h2, rows2 := splitEval(b)
		if len(h2) != 1 || h2[0] != hdr || column(rows2, 0) != col {
			rep["detail"] = "item: " + hdr + " " + col + "  label: " + strings.Join(h2, ",") + " " + column(rows2, 0)
			o.Law("label_evaluates_differently", rep)
			continue
		}
		o.Count("lbl.label_evaluated")
	}
}

// ---------- the third producer: error messages that embed an expression (fmt %s of a parser node = its String()) ----------

var msgTemplates = []struct {
	clause string
	re     *regexp.Regexp
}{
	{" LIMIT %s", regexp.MustCompile(`(?s)limit number of records (.*) is not an integer value$`)},
	{" LIMIT %s PERCENT", regexp.MustCompile(`(?s)limit percentage (.*) is not a float value$`)},
	{" OFFSET %s", regexp.MustCompile(`(?s)offset number (.*) is not an integer value$`)},
}

// msgCase: `SELECT 1 LIMIT <expr>` / `… PERCENT` / `OFFSET <expr>` with an expression that is not a number: the message
// names the expression; the text it embeds must parse back to the expression's tree (law message_expression_differs)
func (ps *parseStream) msgCase(ws []string, k int) {
	o := ps.o
	text := wordsText(ws)
	fields, ok := fieldsOf("SELECT " + text)
	if !ok || len(fields) != 1 || fields[0].Alias != nil {
		return
	}
	t := msgTemplates[k%len(msgTemplates)]
	sql := "SELECT 1" + fmt.Sprintf(t.clause, text)
	working(sql)
	_, err := ps.proc.Query(sql)
	if err == nil {
		o.Count("msg.no_error")
		return
	}
	m := t.re.FindStringSubmatch(err.Error())
	if m == nil {
		o.Count("msg.other_error")
		return
	}
	o.Count("msg.checked")
	o.NonTrivial(fmt.Sprintf("msg:%d:%T", k%len(msgTemplates), fields[0].Object))
	rep := map[string]string{"sql": sql, "message": err.Error(), "embedded": m[1]}
	obj, ok := reparseText(m[1], fields[0].Object, false, false)
	if !ok {
		rep["detail"] = "the embedded text does not parse as one expression"
		o.Law("message_expression_differs", rep)
		return
	}
	if d := treeDiff(fields[0].Object, obj); d != "" {
		rep["detail"] = "the embedded text parses to another tree: " + d
		o.Law("message_expression_differs", rep)
	}
}

func genLblWords(g *hc.Gen) []string {
	saved := opFuncNames
	opFuncNames, opIdentMax, opQuotedColumnsOnly = []string{"x4", "x5", "x6"}, 4, g.Intn(8) != 0
	defer func() { opFuncNames, opIdentMax, opQuotedColumnsOnly = saved, 10, false }()
	var ws []string
	for k := 1 + g.Intn(4); k > 0; k-- {
		var it []string
		switch g.Intn(6) {
		case 0:
			// an atom enclosed in parentheses as a whole
			it = genOpAtom(g).words()
			for p := 1 + g.Intn(2); p > 0; p-- {
				it = append(append([]string{"("}, it...), ")")
			}
		case 1:
			it = genOpAtom(g).words()
		default:
			it = genOpTree(g, 1+g.Intn(3)).words()
		}
		if g.Intn(4) == 0 {
			it = append(it, "AS", fmt.Sprintf("x%d", g.Intn(10)))
		}
		if len(ws) > 0 {
			ws = append(ws, ",")
		}
		ws = append(ws, it...)
	}
	return ws
}
