// Op c18.lalr — the goyacc driver (lib/parser/parser.go: Parse / yylex1 / the tables) against the Lean model of it
// (Csvq/Model/Lalr.lean, theorems Csvq/Props/C18Lalr.lean).
//
// For one text and mode:
//   - the REAL scanner is run to the end of the text (past scanner errors, as (*Lexer).Lex does): the op line carries
//     the token codes Scan returned, in order (the end of input is implicit);
//   - the REAL parser.Parse runs on the same text under recover with goyacc's own debug output switched on
//     (parser.SetDebugLevel(2, false); os.Stdout is pointed at a scratch file for the duration of the call): that gives,
//     from the driver itself, every reduction (production, state) and the "<state> saw <token>" line of a syntax error;
//   - the implementation's answer is `accept` or `syntax-error <index of the offending token>` followed by the number
//     of reductions and a hash of the (production, state) sequence. The index is the position in the scanned token
//     list of the token whose (line, char) the *SyntaxError carries ("unexpected termination": the end of input).
//
// The model runs its driver over the same token codes (it applies (*Lexer).Lex's rewriting of the Uncategorized code
// itself) and must print the same line: same verdict, same offending token, same reductions in the same states.
package main

import (
	"fmt"
	"hash/fnv"
	"os"
	"path/filepath"
	"regexp"
	"strconv"
	"strings"
	"unicode/utf8"

	"github.com/mithrandie/csvq/lib/option"
	"github.com/mithrandie/csvq/lib/parser"

	"verifharness/hc"
)

// scanAll: every token the lexer would hand to the parser if the parser asked to the end (scanner errors do not stop it).
func scanAll(src string, prep, ansi bool) (toks []parser.Token, ok bool) {
	defer func() {
		if r := recover(); r != nil {
			ok = false
		}
	}()
	sc := new(parser.Scanner).Init(src, "", prep, ansi)
	limit := utf8.RuneCountInString(src) + 2
	for i := 0; i <= limit; i++ {
		tok, _ := sc.Scan()
		toks = append(toks, tok)
		if tok.Token == tokEOF {
			return toks, true
		}
	}
	return toks, false
}

type lalrTrace struct {
	err      error
	panicked interface{}
	reduces  [][2]int // production, state
	saw      string   // "<state> saw <token>" of the first syntax error, "" when there was none
	pops     int
	discards int
	bad      string // a line of the debug output this reader does not understand
}

var traceFile *os.File

// traceParse: parser.Parse with goyacc's debug level 2, its output captured.
func traceParse(text string, prep, ansi bool) (tr lalrTrace) {
	if traceFile == nil {
		dir := os.Getenv("VERIF_SCRATCH")
		if dir == "" {
			dir = os.TempDir()
		}
		f, err := os.CreateTemp(dir, "c18-yydebug-")
		if err != nil {
			panic(err)
		}
		_ = os.Remove(f.Name()) // the open descriptor is all that is needed
		traceFile = f
	}
	if err := traceFile.Truncate(0); err != nil {
		panic(err)
	}
	if _, err := traceFile.Seek(0, 0); err != nil {
		panic(err)
	}
	working(text)
	func() {
		saved := os.Stdout
		os.Stdout = traceFile
		parser.SetDebugLevel(2, false)
		defer func() {
			parser.SetDebugLevel(0, false)
			os.Stdout = saved
			if r := recover(); r != nil {
				tr.panicked = r
			}
		}()
		_, _, tr.err = parser.Parse(text, "", prep, ansi)
	}()
	size, _ := traceFile.Seek(0, 1)
	buf := make([]byte, size)
	if _, err := traceFile.ReadAt(buf, 0); err != nil && size > 0 {
		panic(err)
	}
	lines := strings.Split(string(buf), "\n")
	for i := 0; i < len(lines); i++ {
		l := lines[i]
		switch {
		case l == "":
		case strings.HasPrefix(l, "reduce ") && strings.HasSuffix(l, " in:") && i+1 < len(lines) && strings.HasPrefix(lines[i+1], "\tstate-"):
			p, e1 := strconv.Atoi(l[len("reduce ") : len(l)-len(" in:")])
			s, e2 := strconv.Atoi(lines[i+1][len("\tstate-"):])
			if e1 != nil || e2 != nil {
				tr.bad = l
			}
			tr.reduces = append(tr.reduces, [2]int{p, s})
			i++
		case strings.HasPrefix(l, "error recovery pops state "):
			tr.pops++
		case strings.HasPrefix(l, "error recovery discards "):
			tr.discards++
		case strings.HasPrefix(l, "state-") && strings.Contains(l, " saw "):
			if tr.saw == "" {
				tr.saw = l
			}
		default:
			// a token name with a line break in it cannot occur (names are identifiers or quoted characters)
			tr.bad = l
		}
	}
	return tr
}

func traceHash(rs [][2]int) uint64 {
	var h uint64
	for _, r := range rs {
		h = (h*1000003 + uint64(r[0])*2048 + uint64(r[1]) + 1) % 4294967296
	}
	return h
}

var lalrProductions = map[int]bool{}
var lalrErrStates = map[string]bool{}

// lalrOp: one text in one mode through the real scanner + parser and, as an op line, through the model.
func lalrOp(o *hc.Out, raw string, prep, ansi bool) {
	mode := modeName(prep, ansi)
	toks, ok := scanAll(raw, prep, ansi)
	if !ok {
		o.Count("lalr.skipped_scanner_did_not_finish")
		return
	}
	tr := traceParse(raw, prep, ansi)
	rep := map[string]interface{}{"input": raw, "input_hex": hx(raw), "mode": mode}
	if tr.panicked != nil {
		// reported by the totality part (parse_total:panic); nothing to compare
		o.Count("lalr.skipped_parser_panicked")
		return
	}
	if tr.bad != "" {
		rep["line"] = tr.bad
		o.Law("lalr_debug_output_not_understood", rep)
		return
	}
	codes := make([]string, 0, len(toks))
	for _, t := range toks[:len(toks)-1] {
		codes = append(codes, strconv.Itoa(t.Token))
	}
	verdict := "accept"
	se, isSyntax := tr.err.(*parser.SyntaxError)
	grammarError := isSyntax && strings.HasPrefix(se.Message, "syntax error: unexpected ")
	if grammarError != (tr.saw != "") {
		rep["error"] = fmt.Sprint(tr.err)
		rep["saw"] = tr.saw
		o.Law("lalr_error_message_and_driver_disagree", rep)
		return
	}
	if grammarError {
		idx := -1
		if se.Message == "syntax error: unexpected termination" {
			idx = len(toks) - 1
		} else {
			for i, t := range toks[:len(toks)-1] {
				if t.Line == se.Line && t.Char == se.Char {
					if idx >= 0 {
						idx = -2
						break
					}
					idx = i
				}
			}
		}
		if idx < 0 {
			// the property's "line and column lie inside the input", sharpened: they are those of a token of the text
			rep["error"] = fmt.Sprintf("%s at line %d char %d", se.Message, se.Line, se.Char)
			o.Law("lalr_error_position_is_no_token", rep)
			return
		}
		verdict = "syntax-error " + strconv.Itoa(idx)
		o.Count("lalr:syntax-error")
		lalrErrStates[tr.saw] = true
	} else {
		o.Count("lalr:accept")
		if tr.err != nil {
			o.Count("lalr.accepted_with_scanner_error")
		}
	}
	if tr.pops > 0 && !grammarError {
		o.Law("lalr_recovery_without_error", rep)
	}
	for _, r := range tr.reduces {
		lalrProductions[r[0]] = true
	}
	impl := fmt.Sprintf("%s n=%d h=%d", verdict, len(tr.reduces), traceHash(tr.reduces))
	o.Case("c18.lalr "+strings.Join(codes, " "), impl)
	h := fnv.New64a()
	_, _ = h.Write([]byte(strings.Join(codes, " ")))
	o.NonTrivial(fmt.Sprintf("lalr:%x:%s", h.Sum64(), verdict))
	switch n := len(codes); {
	case n <= 4:
		o.Count("lalr.len:0-4")
	case n <= 16:
		o.Count("lalr.len:5-16")
	case n <= 64:
		o.Count("lalr.len:17-64")
	default:
		o.Count("lalr.len:65+")
	}
}

var reR2 = regexp.MustCompile(`(?s)var yyR2 = \[\.\.\.\]int\{(.*?)\}`)

// lalrReport: coverage of the grammar by the reductions the real driver performed in this run.
func lalrReport(o *hc.Out) {
	o.Stats["lalr.productions_reduced"] = len(lalrProductions)
	o.Stats["lalr.error_states_seen"] = len(lalrErrStates)
	total := -1
	repo := os.Getenv("VERIF_REPO")
	if repo == "" {
		repo = "/repo"
	}
	if b, err := os.ReadFile(filepath.Join(repo, "lib", "parser", "parser.go")); err == nil {
		if m := reR2.FindSubmatch(b); m != nil {
			total = len(strings.Split(strings.TrimRight(strings.TrimSpace(string(m[1])), ","), ",")) - 1 // production 0 does not exist
		}
	}
	o.Stats["lalr.productions_total"] = total
	if total > 0 {
		var missing []string
		for p := 1; p <= total; p++ {
			if !lalrProductions[p] {
				missing = append(missing, strconv.Itoa(p))
			}
		}
		if len(missing) > 0 && len(missing) <= 40 {
			o.Stats["lalr.productions_not_reduced:"+strings.Join(missing, ",")] = len(missing)
		}
	}
}

// ---------- token soup: token-level damage with the whole vocabulary of the grammar ----------

var soupVocabulary = func() []string {
	v := []string{"x", "t", "`q i`", "1", "2.5", "'s'", "true", "null", "@v", "@@f", "@%e", "@#r", "?", ":p", "math::pi", "file::(", "http://a/b",
		"count", "listagg", "json_agg", "rank", "ntile", "nth_value", "first_value", "lag", "$echo a;",
		"(", ")", "(", ")", ",", ",", ";", ";", ".", "*", "=", "+", "-", "/", "%", "!", ":", "{", "}", "[", "]", "||", ":=", "<=", "<>", "==", "!!", "#", "~", "\x00", "é€"}
	for tok := parser.SELECT; tok <= parser.JSON_OBJECT; tok++ {
		if lit, err := parser.KeywordLiteral(tok); err == nil {
			v = append(v, lit)
		}
	}
	return v
}()

// tokText: a text that scans (about) to the token again
func tokText(t parser.Token) string {
	switch {
	case t.Token >= parser.SELECT && t.Token <= parser.JSON_OBJECT:
		lit, _ := parser.KeywordLiteral(t.Token)
		return lit
	case t.Token == parser.IDENTIFIER && t.Quoted:
		return option.QuoteIdentifier(t.Literal)
	case t.Token == parser.STRING:
		return option.QuoteString(t.Literal)
	case t.Token == parser.VARIABLE:
		return "@" + t.Literal
	case t.Token == parser.FLAG:
		return "@@" + t.Literal
	case t.Token == parser.ENVIRONMENT_VARIABLE:
		if t.Quoted {
			return "@%" + option.QuoteIdentifier(t.Literal)
		}
		return "@%" + t.Literal
	case t.Token == parser.RUNTIME_INFORMATION:
		return "@#" + t.Literal
	case t.Token == parser.EXTERNAL_COMMAND:
		return "$" + t.Literal + ";"
	case t.Token == parser.TABLE_FUNCTION:
		return t.Literal + "::"
	case t.Token == parser.PLACEHOLDER:
		if t.Literal == "?" || t.Literal == "" {
			return "?"
		}
		return t.Literal
	}
	return t.Literal
}

// genTokenSoup: a corpus text, token by token, with tokens deleted / repeated / swapped / replaced / inserted from the
// vocabulary of the grammar, a window shuffled, or cut short.
func genTokenSoup(g *hc.Gen, corpus []string, prep, ansi bool) string {
	src := corpus[g.Intn(len(corpus))]
	toks, ok := scanAll(sanitize(src), prep, ansi)
	var words []string
	if ok {
		for _, t := range toks[:len(toks)-1] {
			words = append(words, tokText(t))
		}
	}
	if len(words) > 60 {
		a := g.Intn(len(words) - 40)
		words = words[a : a+20+g.Intn(40)]
	}
	if len(words) == 0 || g.Intn(12) == 0 {
		// pure soup
		words = words[:0]
		for i, n := 0, 1+g.Intn(10); i < n; i++ {
			words = append(words, soupVocabulary[g.Intn(len(soupVocabulary))])
		}
	}
	for k, n := 0, g.Intn(4); k < n && len(words) > 0; k++ {
		i := g.Intn(len(words))
		switch g.Intn(7) {
		case 0: // delete
			words = append(words[:i:i], words[i+1:]...)
		case 1: // repeat
			words = append(words[:i+1:i+1], words[i:]...)
		case 2: // swap with the next
			if i+1 < len(words) {
				words[i], words[i+1] = words[i+1], words[i]
			}
		case 3: // replace
			words[i] = soupVocabulary[g.Intn(len(soupVocabulary))]
		case 4: // insert
			w := soupVocabulary[g.Intn(len(soupVocabulary))]
			words = append(words[:i:i], append([]string{w}, words[i:]...)...)
		case 5: // shuffle a window
			j := i + 2 + g.Intn(4)
			if j > len(words) {
				j = len(words)
			}
			win := words[i:j]
			for a := len(win) - 1; a > 0; a-- {
				b := g.Intn(a + 1)
				win[a], win[b] = win[b], win[a]
			}
		default: // cut short
			words = words[:i]
		}
	}
	return strings.Join(words, " ")
}
