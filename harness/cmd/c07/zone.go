package main

import (
	"fmt"
	"strings"
	"time"

	"github.com/mithrandie/csvq/lib/option"
	"github.com/mithrandie/csvq/lib/value"

	"verifharness/hc"
)

// zoneSort: datetime sort keys are instants.  A key column mixing zone-less spellings (read in the session's time
// zone) with spellings that carry an offset, 20 minutes apart — less than any zone offset — must come out in the
// order of the instants under every session zone; equal instants in different spellings are ties for WITH TIES.
func zoneSort(o *hc.Out, g *hc.Gen) {
	for _, zone := range []string{"UTC", "Asia/Tokyo", "America/Los_Angeles", "Asia/Kolkata"} {
		loc, err := time.LoadLocation(zone)
		if err != nil {
			o.Count("zone_unavailable:" + zone)
			continue
		}
		pr := hc.NewProc("")
		if err := pr.P.Tx.SetFlag(option.TimezoneFlag, zone); err != nil {
			pr.Close()
			continue
		}
		base := time.Date(2012, 2, 3, 9, 18, 15, 0, loc)
		layouts := []string{"2006-01-02 15:04:05", "2006-01-02T15:04:05", "2006/01/02 15:04:05", time.RFC3339, "2006-01-02 15:04:05 -07:00", "2006-01-02T15:04:05.000", "2006-1-2 15:04:05"}
		n := 9
		inst := make([]int, n) // the instant (in steps of 20 minutes) of row i; rows 7 and 8 repeat instants 2 and 5
		rows := make([][]value.Primary, n)
		perm := g.Perm(n)
		for i, k := range perm {
			step := k
			if k == 7 {
				step = 2
			} else if k == 8 {
				step = 5
			}
			inst[i] = step
			t := base.Add(time.Duration(step) * 20 * time.Minute)
			if strings.Contains(layouts[(i+k)%len(layouts)], "Z07") || strings.Contains(layouts[(i+k)%len(layouts)], "-07") {
				t = t.In(time.FixedZone("x", (k%5-2)*3600)) // the same instant seen from another offset
			}
			rows[i] = []value.Primary{value.NewString(t.Format(layouts[(i+k)%len(layouts)]))}
		}
		if err := pr.DeclareTable("z", []string{"d"}, rows); err != nil {
			o.Law("declare_table_error", err.Error())
			pr.Close()
			continue
		}
		check := func(sql string, ok func(ids []int) bool) {
			v, err := pr.Query(sql)
			if err != nil {
				o.Law("zone_sort", map[string]interface{}{"zone": zone, "sql": sql, "error": err.Error()})
				return
			}
			ids := idsOf(v)
			if !ok(ids) {
				var cells []string
				for i := range rows {
					cells = append(cells, fmt.Sprintf("%d:%s(step %d)", i, hc.StrOf(rows[i][0]), inst[i]))
				}
				o.Law("zone_sort", map[string]interface{}{"zone": zone, "sql": sql, "ids": joinInts(ids), "rows": cells})
			}
			o.Eval()
		}
		sorted := func(asc bool) func([]int) bool {
			return func(ids []int) bool {
				if len(ids) != n {
					return false
				}
				for k := 1; k < len(ids); k++ {
					a, b := inst[ids[k-1]], inst[ids[k]]
					if (asc && a > b) || (!asc && a < b) {
						return false
					}
				}
				return true
			}
		}
		check("SELECT id FROM z ORDER BY d", sorted(true))
		check("SELECT id FROM z ORDER BY d DESC", sorted(false))
		check("SELECT id FROM z ORDER BY d LIMIT 3 WITH TIES", func(ids []int) bool { // instants 0,1,2,2
			if len(ids) != 4 {
				return false
			}
			return inst[ids[0]] == 0 && inst[ids[1]] == 1 && inst[ids[2]] == 2 && inst[ids[3]] == 2
		})
		check("SELECT id FROM z ORDER BY d OFFSET 7", func(ids []int) bool { return len(ids) == 2 && inst[ids[0]] == 5 && inst[ids[1]] == 6 })
		o.NonTrivial("zonesort:" + zone)
		pr.DisposeTable("z")
		pr.Close()
	}
}
