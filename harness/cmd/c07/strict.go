package main

import (
	"fmt"
	"math"
	"time"

	"github.com/mithrandie/csvq/lib/option"
	"github.com/mithrandie/csvq/lib/query"
	"github.com/mithrandie/csvq/lib/value"
	"github.com/mithrandie/ternary"

	"verifharness/hc"
)

// Value pools of the --strict-equal dimension and of the far-apart keys, and the pairwise op.
//
// Under --strict-equal NewSortValue adds SerializeIdenticalKey of the value to the typed fields; SortValue.Less
// answers UNKNOWN for identical keys, compares two TEXTS by their upper-cased trimmed texts and then by the bytes of
// their keys, and everything else by type; EquivalentTo is bytes.Equal of the keys (model: Model/SortStrict.lean).

func setStrict(pr *hc.Proc, b bool) { _ = pr.P.Tx.SetFlag(option.StrictEqualFlag, b) }

// texts only: letter-case twins, padded twins (identical after trimming), and numbers / booleans / datetimes / special
// words written as texts — under the flag two texts are compared as texts whatever they look like
var strictTexts = []string{"x", "X", "x ", " X", " x", "a", "A", "ab", "AB", "Ab", "aB", "b", "B ", "", " ",
	"01", "1", " 1", "1.0", "1e0", "+1", "10", "9", "2", "-1", "-01", "0", "-0", "0.0",
	"true", "TRUE", "True", "t", "T", "false", "f", "yes", "no", "on", "off", "y", "n", "Y",
	"nan", "NaN", "inf", "Inf", "INF", "infinity", "null", "NULL", "none", "0x10", "0X10", "1e3", "1E3",
	"2012-02-03", "2012-02-03 04:05:06", "2012-02-03T04:05:06Z", "2012-02-03t04:05:06z", "Feb 3, 2012", "FEB 3, 2012", "feb 3, 2012",
	"x:y", "X:Y", "x:Y", "x\\y", "X\\Y", "x;y", "é", "É", "straße", "STRASSE", "ǆ", "ǅ", "Ǆ"}

// integers and floats as values (no texts): 1 / 1.0 tie in the sort and are not identical
func strictNum(g *hc.Gen) value.Primary {
	switch g.Intn(6) {
	case 0, 1:
		return value.NewInteger(int64(g.Intn(5) - 2))
	case 2, 3:
		return value.NewFloat(float64(g.Intn(5) - 2))
	case 4:
		return value.NewFloat(float64(g.Intn(9)-4) / 2)
	}
	return value.NewInteger([]int64{1 << 53, -(1 << 53), 1000000, 7}[g.Intn(4)])
}

// texts next to numbers and booleans
func strictMixed(g *hc.Gen) value.Primary {
	switch g.Intn(8) {
	case 0:
		return value.NewInteger(int64(g.Intn(2)))
	case 1:
		return value.NewFloat(float64(g.Intn(2)))
	case 2:
		return value.NewBoolean(g.Intn(2) == 0)
	case 3:
		return value.NewTernary([]ternary.Value{ternary.TRUE, ternary.FALSE}[g.Intn(2)])
	}
	return value.NewString(g.Pick("01", "1", "1.0", " 1", "0", "true", "TRUE", "false", "t", "x", "X"))
}

// datetimes centuries apart, inside the range of UnixNano (1678 – 2262): as values and as texts
func farDate(g *hc.Gen) value.Primary {
	y := []int{1700, 1700, 1750, 1800, 1969, 1970, 2012, 2200, 2200, 2250, 2261}[g.Intn(11)]
	t := time.Date(y, 3, 1+g.Intn(2), 0, 0, g.Intn(2), 0, time.UTC)
	switch g.Intn(3) {
	case 0:
		return value.NewDatetime(t)
	case 1:
		return value.NewString(t.Format("2006-01-02 15:04:05"))
	}
	return value.NewString(t.Format(time.RFC3339))
}

func ternTok(t ternary.Value) string {
	switch t {
	case ternary.TRUE:
		return "T"
	case ternary.FALSE:
		return "F"
	}
	return "U"
}

func b01(b bool) string {
	if b {
		return "1"
	}
	return "0"
}

// lessPairs: SortValue.Less and SortValue.EquivalentTo themselves, on one pair of values, both ways round, in both
// modes — against the model's less / equiv (default) and SSortVal.less / equiv (--strict-equal); the laws are checked
// on the implementation's own answers.
func lessPairs(g *hc.Gen, o *hc.Out, pr *hc.Proc, n int) {
	far := []int64{6000000000000000000, -6000000000000000000, math.MaxInt64, math.MinInt64 + 1, 4611686018427387904, -4611686018427387905, 0, 1, -1}
	draw := func(pool int) value.Primary {
		switch pool {
		case 0:
			return value.NewString(g.Pick(strictTexts...))
		case 1:
			return strictNum(g)
		case 2:
			return value.NewInteger(far[g.Intn(len(far))] + int64(g.Intn(2)))
		case 3:
			return farDate(g)
		case 4:
			return strictMixed(g)
		case 5:
			return colVal(g, kNum)
		}
		return colVal(g, []int{kDate, kText, kBigInt, kDateFmt}[g.Intn(4)])
	}
	for k := 0; k < n; k++ {
		pool := g.Intn(7)
		a, b := draw(pool), draw(pool)
		if g.Intn(12) == 0 {
			b = draw(g.Intn(7))
		}
		strict := k%2 == 0
		setStrict(pr, strict)
		x, y := query.NewSortValue(a, pr.P.Tx.Flags), query.NewSortValue(b, pr.P.Tx.Flags)
		xy, yx := x.Less(y), y.Less(x)
		exy, eyx := x.EquivalentTo(y), y.EquivalentTo(x)
		setStrict(pr, false)
		op := "c07.less"
		if strict {
			op = "c07.strict_less"
		}
		line := fmt.Sprintf("%s %s %s", op, cellTok(a), cellTok(b))
		o.Case(line, ternTok(xy)+ternTok(yx)+" "+b01(exy)+b01(eyx))
		o.NonTrivial(fmt.Sprintf("less:%v:%d:%s%s", strict, pool, ternTok(xy), ternTok(yx)))
		o.Count(op[4:] + ":" + ternTok(xy) + ternTok(yx))
		// laws, on the implementation's own answers: the comparison is antisymmetric in every mode and pool …
		if (xy == ternary.TRUE) != (yx == ternary.FALSE) || (xy == ternary.UNKNOWN) != (yx == ternary.UNKNOWN) {
			name := "less_antisymmetric"
			if strict {
				name = "strict_order_antisymmetric"
			}
			o.Law(name, line)
		}
		if exy != eyx {
			o.Law("equivalent_symmetric", line)
		}
		// … and under --strict-equal two texts tie exactly when they are identical
		_, ta := a.(*value.String)
		_, tb := b.(*value.String)
		if strict && ta && tb && (xy == ternary.UNKNOWN) != exy {
			o.Law("strict_order_text_ties", line)
		}
	}
}
