package main

import (
	"fmt"
	"github.com/mithrandie/csvq/lib/option"
	"math"
	"strconv"
	"strings"
	"time"

	"github.com/mithrandie/csvq/lib/query"
	"github.com/mithrandie/csvq/lib/value"

	"verifharness/hc"
)

func main() { hc.Main(run) }

// cell token: profile~txt (txt = upper(trim(ToString v)) for numbers, as NewSortValue stores it)
func cellTok(p value.Primary) string {
	txt := "-"
	if i := value.ToIntegerStrictly(p); !value.IsNull(i) {
		txt = "x" + hc.Hex(strings.ToUpper(hc.TrimSpaceRef(value.ToString(p).(*value.String).Raw())))
	} else if f := value.ToFloat(p); !value.IsNull(f) {
		txt = "x" + hc.Hex(strings.ToUpper(hc.TrimSpaceRef(value.ToString(p).(*value.String).Raw())))
	}
	return hc.EncFullProfile(p) + "~" + txt
}

const (
	kNum = iota
	kDate
	kText
	kMixedBig // integers beyond 2^53 mixed with floats: outside the proved domain (F18)
	kBigInt   // integers only, many of them beyond 2^53 and adjacent (their float64 images coincide)
	kDateFmt  // datetimes written in the session's own @@DATETIME_FORMAT (alphabetical order ≠ chronological order)
	kDateFar  // datetimes (values and texts) centuries apart: their UnixNano keys differ by more than 2^63
	// --strict-equal columns (strict.go): under the flag two texts compare as texts, everything else by its type
	kSText  // texts only: letter-case twins, padded twins, numbers / booleans / datetimes / special words written as texts
	kSNum   // integers and floats as values: 1 next to 1.0 ties in the sort but is not identical
	kSMixed // '01' / '1' / 1 / 1.0 / TRUE / 'true': texts next to numbers — outside the proved domain, small tables only
	kSDate  // datetimes as VALUES only, centuries apart (a datetime written as a text is a text under the flag: kSText)
)

const customDatetimeFormat = "%b %e, %Y"

func colVal(g *hc.Gen, kind int) value.Primary {
	if g.Intn(7) == 0 {
		return value.NewNull()
	}
	switch kind {
	case kNum:
		switch g.Intn(8) {
		case 0, 1, 2:
			return value.NewInteger(int64(g.Intn(7) - 3))
		case 3:
			return value.NewFloat(float64(g.Intn(13)-6) / 2)
		case 4:
			return value.NewString(g.Pick("1", "2.5", " 3 ", "-1", "1e0", "NaN", "Inf", "-Inf", "-0.0", "0"))
		case 5:
			return value.NewInteger([]int64{1 << 53, -(1 << 53), 1<<53 - 1, 1000000}[g.Intn(4)])
		case 6:
			return value.NewFloat([]float64{1e300, -1e300, 5e-324, 0.1, 0.30000000000000004}[g.Intn(5)])
		}
		return value.NewInteger(int64(g.Intn(3)))
	case kBigInt:
		// … and more than 2^63 apart (both signs): a comparison by the sign of a−b wraps there
		base := []int64{1 << 53, 1 << 60, math.MaxInt64 - 8, -(1 << 53) - 8, math.MinInt64 + 1, 6000000000000000000, -6000000000000000000, 4611686018427387904, -4611686018427387905}[g.Intn(9)]
		return value.NewInteger(base + int64(g.Intn(8)))
	case kMixedBig:
		switch g.Intn(3) {
		case 0:
			return value.NewInteger((1 << 53) + int64(g.Intn(4)))
		case 1:
			return value.NewFloat(9007199254740992)
		}
		return value.NewInteger(int64(g.Intn(3)))
	case kDateFar:
		return farDate(g)
	case kSText:
		return value.NewString(g.Pick(strictTexts...))
	case kSNum:
		return strictNum(g)
	case kSMixed:
		return strictMixed(g)
	case kSDate:
		for {
			if d, ok := farDate(g).(*value.Datetime); ok {
				return d
			}
		}
	case kDateFmt:
		return value.NewString(g.Pick("Feb 3, 2013", "Jan 15, 2012", "Dec 1, 2013", "Apr 9, 2011", "Mar 20, 2012", "Feb 3, 2013", "Aug 30, 2010"))
	case kDate:
		t := time.Date(2012, 2, 3+g.Intn(3), 9, g.Intn(2), 0, g.Intn(2), time.UTC)
		switch g.Intn(3) {
		case 0:
			return value.NewDatetime(t)
		case 1:
			return value.NewString(t.Format("2006-01-02 15:04:05.999999999"))
		}
		return value.NewString(t.Format(time.RFC3339Nano))
	}
	// … and words that some conversion might take for a boolean / a number / a datetime but that are plain texts
	return value.NewString(g.Pick("a", "A", "b", " b", "ab", "abc", "B", "", "é", "zz", "x:y", "apple", "Apple ",
		"yes", "no", "on", "off", "y", "n", "Yes", "NO", "null", "none", "nil", "0x10", "1_000", "1,5", "tru", "nope", "infinit", "na"))
}

func idsOf(v *query.View) []int {
	out := make([]int, v.RecordLen())
	for i := range out {
		n, _ := strconv.Atoi(hc.StrOf(hc.ViewCell(v, i, 0)))
		out[i] = n
	}
	return out
}

func joinInts(xs []int) string {
	if len(xs) == 0 {
		return "-"
	}
	s := make([]string, len(xs))
	for i, x := range xs {
		s[i] = strconv.Itoa(x)
	}
	return strings.Join(s, ",")
}

func run(seed int64, n int, dir string, _ []string) {
	g := hc.NewGen(seed)
	o := hc.NewOut(dir)
	defer o.Close()
	zoneSort(o, g)
	pr := hc.NewProc("")
	defer pr.Close()
	// a custom datetime format is in force for the whole run (the built-in notations keep working next to it)
	hc.DatetimeFormats = []string{customDatetimeFormat}
	if err := pr.P.Tx.SetFlag(option.DatetimeFormatFlag, customDatetimeFormat); err != nil {
		o.Law("set_datetime_format_error", err.Error())
	}

	sortValueOf(g, o, pr, 6*n)
	lessPairs(g, o, pr, 3*n)

	tables := n / 12
	if tables < 5 {
		tables = 5
	}
	for t := 0; t < tables; t++ {
		ncols := g.Intn(3) + 1
		// every third table runs under --strict-equal, over columns of the strict pools (strict.go)
		strict := t > 0 && (t == 1 || g.Intn(3) == 0)
		setStrict(pr, strict)
		kinds := make([]int, ncols)
		mixed := false
		mixedS := false
		for j := range kinds {
			kinds[j] = g.Intn(3)
			if g.Intn(6) == 0 {
				kinds[j] = kBigInt
			}
			if g.Intn(25) == 0 {
				kinds[j] = kMixedBig
				mixed = true
			}
			if g.Intn(12) == 0 {
				kinds[j] = kDateFmt
			}
			if g.Intn(10) == 0 {
				kinds[j] = kDateFar
			}
			if strict {
				kinds[j] = []int{kSText, kSText, kSText, kSNum, kSNum, kBigInt, kSDate, kSMixed}[g.Intn(8)]
				mixed = false
				if kinds[j] == kSMixed {
					mixedS = true
				}
			}
		}
		nrows := []int{0, 1, 2, 3, 6, 12, 40, 170, 350}[g.Intn(9)]
		if mixedS && nrows > 12 {
			nrows = 3 + g.Intn(10)
		}
		rows := make([][]value.Primary, nrows)
		for i := range rows {
			rows[i] = make([]value.Primary, ncols)
			for j := range rows[i] {
				for {
					rows[i][j] = colVal(g, kinds[j])
					if _, ok := hc.SqlLit(rows[i][j]); ok {
						break
					}
				}
			}
		}
		if t == 0 {
			// corpus: the minimal witness of known finding F18 always runs first
			ncols, mixed, nrows = 1, true, 3
			rows = [][]value.Primary{{value.NewInteger(9007199254740993)}, {value.NewFloat(9007199254740992)}, {value.NewInteger(9007199254740992)}}
		}
		if t == 1 {
			// corpus: the witness of finding F116 (fixed) — letter-case twins in the first key, a second key DESC
			ncols, mixed, mixedS, nrows = 2, false, false, 7
			rows = nil
			for i, k := range []string{"x", "X", "x", "X", "a", " X", "x "} {
				rows = append(rows, []value.Primary{value.NewString(k), value.NewInteger(int64(i % 3))})
			}
		}
		cols := make([]string, ncols)
		for j := range cols {
			cols[j] = fmt.Sprintf("c%d", j+1)
		}
		if err := pr.DeclareTable("t", cols, rows); err != nil {
			o.Law("declare_table_error", err.Error())
			continue
		}
		pr.SetCPU([]int{1, 2, 4, 8}[g.Intn(4)])
		// ORDER BY items
		nitems := g.Intn(ncols) + 1
		if strict && g.Intn(2) == 0 {
			nitems = ncols // a following key after the letter-case twins
		}
		perm := g.Perm(ncols)
		colIdx := append([]int{}, perm[:nitems]...)
		if t == 1 {
			nitems, colIdx = 2, []int{0, 1}
		}
		// a column may be listed more than once (also next to a later key with another direction / NULLS position)
		if t > 1 && g.Intn(3) == 0 {
			at := 1 + g.Intn(len(colIdx))
			rep := colIdx[g.Intn(at)]
			colIdx = append(colIdx[:at], append([]int{rep}, colIdx[at:]...)...)
			if g.Intn(3) == 0 {
				colIdx = append(colIdx, colIdx[g.Intn(len(colIdx))])
			}
			nitems = len(colIdx)
		}
		itemToks, itemSQL, itemSuffix := make([]string, nitems), make([]string, nitems), make([]string, nitems)
		for k := 0; k < nitems; k++ {
			d, np := g.Pick("a", "d", "A"), g.Pick("-", "f", "l")
			sql := ""
			switch d {
			case "a":
				sql += " ASC"
			case "d":
				sql += " DESC"
			default:
				d = "a"
			}
			switch np {
			case "f":
				sql += " NULLS FIRST"
			case "l":
				sql += " NULLS LAST"
			}
			itemToks[k], itemSuffix[k] = d+np, sql
		}
		if t == 1 {
			itemToks, itemSuffix = []string{"a-", "d-"}, []string{"", " DESC"}
		}
		sortCells := func(id int) string {
			s := make([]string, 0, nitems+1)
			s = append(s, strconv.Itoa(id))
			for k := 0; k < nitems; k++ {
				s = append(s, cellTok(rows[id][colIdx[k]]))
			}
			return strings.Join(s, " ")
		}
		// the shape of the query in front of ORDER BY: the sort must be right whatever ran before it
		// (DISTINCT, analytic functions with their own ORDER BY / PARTITION BY, GROUP BY, derived table, WHERE)
		pcols := make([]string, ncols)
		for j, k := range g.Perm(ncols) {
			pcols[j] = cols[k]
		}
		plist := strings.Join(pcols, ", ")
		ca, cb := cols[g.Intn(ncols)], cols[g.Intn(ncols)]
		shape := []int{0, 0, 1, 2, 2, 2, 2, 3, 3, 4, 5, 6, 7, 7, 8, 9, 9, 10, 10, 11, 11, 11, 12, 12, 12}[g.Intn(25)]
		if t <= 1 {
			shape = 0
		}
		if t == 2 {
			shape = 9 // the first computed-key shape always runs
		}
		if (shape == 11 || shape == 12) && ncols < 2 {
			shape = 10
		}
		// the columns rotated by one: every column of the select list stands at another position than in the table
		rot := make([]string, ncols)
		for j := range rot {
			rot[j] = cols[(j+1)%ncols]
		}
		cc := cols[g.Intn(ncols)]
		// a computed ORDER BY key: COALESCE(c, c) has the column's value but is an expression — ORDER BY evaluates it into
		// a NEW cell appended to every record (a plain column / alias is found in the header instead)
		computedKeys := false
		keep := func(id int) bool { return true }
		var prefix string
		switch shape {
		case 1:
			prefix = "SELECT DISTINCT id, " + plist + " FROM t"
		case 2:
			prefix = "SELECT DISTINCT id, " + plist + ", RANK() OVER (ORDER BY " + ca + ") AS rk FROM t"
		case 3:
			prefix = "SELECT id, " + plist + ", ROW_NUMBER() OVER (PARTITION BY " + ca + " ORDER BY " + cb + " DESC) AS rn FROM t"
		case 4:
			prefix = "SELECT id FROM (SELECT * FROM t) AS s"
		case 5:
			prefix = "SELECT id, " + plist + " FROM t GROUP BY id, " + plist
		case 6:
			prefix = "SELECT id FROM t WHERE id % 2 = 0"
			keep = func(id int) bool { return id%2 == 0 }
		case 7:
			// the inner query has its own ORDER BY / OFFSET (and LIMIT): none of its sort state may reach the outer one
			k := g.Intn(nrows/2 + 2)
			prefix = fmt.Sprintf("SELECT id FROM (SELECT * FROM t ORDER BY id OFFSET %d) AS s", k)
			keep = func(id int) bool { return id >= k }
		case 8:
			k, l := g.Intn(nrows/3+1), 1+g.Intn(nrows+1)
			prefix = fmt.Sprintf("SELECT id FROM (SELECT * FROM t ORDER BY id DESC LIMIT %d OFFSET %d) AS s", l, k)
			keep = func(id int) bool { return id <= nrows-1-k && id > nrows-1-k-l }
		case 9:
			// a computed select-list column (expression) × computed ORDER BY keys: two column-adding steps in one query
			prefix = "SELECT id, " + plist + ", id * 2 + 1 AS e1, COALESCE(" + ca + ", " + cb + ") AS e2 FROM t"
			computedKeys = true
		case 10:
			// a computed select-list column (analytic function) × computed ORDER BY keys
			prefix = "SELECT id, ROW_NUMBER() OVER (ORDER BY " + ca + g.Pick("", " DESC") + ") AS rn, " + plist + " FROM t"
			computedKeys = true
		case 11:
			// SELECT DISTINCT that removes nothing (id is in the list), a select list that REORDERS the table's columns, an
			// analytic function whose PARTITION BY / ORDER BY columns have filled the per-cell sort-value cache before, then
			// ORDER BY on the reordered columns: no key may come from the column that used to stand at that position
			prefix = "SELECT DISTINCT id, " + strings.Join(rot, ", ") + ", COUNT(*) OVER (PARTITION BY " + ca + " ORDER BY " + cb + ") AS n FROM t"
		case 12:
			// two analytic functions sharing a PARTITION BY, the second one sorting the rows differently: the keys cached
			// for the first must move with the rows
			prefix = "SELECT id, " + plist + ", SUM(id) OVER (PARTITION BY " + ca + " ORDER BY " + cb + " DESC) AS s1, COUNT(*) OVER (PARTITION BY " + ca + " ORDER BY " + cc + ", id) AS n2 FROM t"
			computedKeys = g.Intn(3) == 0
		default:
			prefix = "SELECT id FROM t"
			computedKeys = t > 2 && g.Intn(4) == 0
		}
		if (shape == 3 || shape == 4 || shape == 6) && g.Intn(3) == 0 {
			computedKeys = true
		}
		for k := 0; k < nitems; k++ {
			c := cols[colIdx[k]]
			if computedKeys && (k == 0 || g.Intn(3) > 0) {
				c = "COALESCE(" + c + ", " + c + ")"
				o.Count("computed_key")
			}
			itemSQL[k] = c + itemSuffix[k]
		}
		orderBy := " ORDER BY " + strings.Join(itemSQL, ", ")
		o.Count(fmt.Sprintf("shape:%d", shape))
		v, err := pr.Query(prefix + orderBy)
		if err != nil {
			o.Law("orderby_sql_error", map[string]interface{}{"sql": prefix + orderBy, "error": err.Error()})
			pr.DisposeTable("t")
			continue
		}
		order := idsOf(v)
		// permutation check, directly on the implementation's output
		seen := make(map[int]int)
		for _, id := range order {
			seen[id]++
		}
		okPerm := true
		nkept := 0
		for i := 0; i < nrows; i++ {
			w := 0
			if keep(i) {
				w = 1
				nkept++
			}
			if seen[i] != w {
				okPerm = false
			}
		}
		if !okPerm || len(order) != nkept {
			o.Law("order_by_permutation", map[string]interface{}{"sql": prefix + orderBy, "rows": nrows, "out": joinInts(order)})
			// the rows that came out are not the rows that went in: there is no order to check
			pr.DisposeTable("t")
			continue
		}
		rowToks := make([]string, len(order))
		for i, id := range order {
			rowToks[i] = sortCells(id)
		}
		head := "c07.sorted"
		cutHead := "c07.cut"
		if mixed {
			head = "c07.sorted_mixed" // outside the proved domain: reported under its own signature
		}
		if strict {
			head, cutHead = "c07.strict_sorted", "c07.strict_cut"
			if mixedS {
				head = "c07.strict_sorted_mixed"
			}
			o.Count("strict_tables")
		}
		o.Case(fmt.Sprintf("%s %s %d %s", head, strings.Join(itemToks, ","), nitems, strings.Join(rowToks, " ")), "sorted")
		o.NonTrivial(fmt.Sprintf("sorted:%v:%d:%d:%v:%d:%v", itemToks, nrows/50, ncols, mixed, shape, strict))
		o.Count(fmt.Sprintf("rows~%d", nrows/100*100))

		if mixed {
			pr.DisposeTable("t")
			continue
		}
		// OFFSET / LIMIT / PERCENT / WITH TIES applied to that order
		for c := 0; c < 14; c++ {
			wt := g.Intn(3) % 2 // WITH TIES in one case of three
			if c >= 8 {
				wt = 1
			}
			kind := g.Pick("n", "n", "p", "none")
			off := []int{-2, 0, 0, 1, 2, nkept - 1, nkept, nkept + 3, 5, g.Intn(nkept + 1), g.Intn(nkept + 1)}[g.Intn(11)]
			hasOff := g.Intn(2) == 0
			if !hasOff {
				off = 0
			}
			var limTok, limSQL string
			switch kind {
			case "n":
				l := []int{-1, 0, 1, 2, 3, nkept - 1, nkept, nkept + 1, 1000000, g.Intn(nkept + 1), g.Intn(nkept + 1), g.Intn(nkept + 1)}[g.Intn(12)]
				limTok, limSQL = strconv.Itoa(l), fmt.Sprintf(" LIMIT %s", litInt(l))
			case "p":
				p := []float64{-5, 0, 0.5, 10, 25, 33.3, 50, 66.7, 99.9, 100, 100.5, 150, 1e10, math.NaN(), math.Inf(1), math.Inf(-1)}[g.Intn(16)]
				limTok = hc.EncF(p)
				switch {
				case math.IsNaN(p):
					limSQL = " LIMIT 'NaN' PERCENT"
				case math.IsInf(p, 1):
					limSQL = " LIMIT 'Inf' PERCENT"
				case math.IsInf(p, -1):
					limSQL = " LIMIT '-Inf' PERCENT"
				case p < 0:
					limSQL = fmt.Sprintf(" LIMIT (%s) PERCENT", strconv.FormatFloat(p, 'f', -1, 64))
				default:
					limSQL = fmt.Sprintf(" LIMIT %s PERCENT", strconv.FormatFloat(p, 'f', -1, 64))
				}
			default:
				if !hasOff {
					continue
				}
				limTok = "-"
			}
			// every spelling of the clause: LIMIT v [ROW|ROWS|PERCENT] [ONLY | WITH TIES] [OFFSET k [ROW|ROWS]]  and
			// [OFFSET k [ROW|ROWS]] FETCH {FIRST|NEXT} v {ROW|ROWS|PERCENT} [ONLY | WITH TIES]
			restr := ""
			if kind != "none" {
				if wt == 1 {
					restr = " WITH TIES"
				} else if g.Intn(2) == 0 {
					restr = " ONLY"
				}
			}
			offSQL := ""
			if hasOff {
				offSQL = fmt.Sprintf(" OFFSET %s%s", litInt(off), g.Pick("", "", " ROW", " ROWS"))
			}
			sql := prefix + orderBy
			form := "limit"
			if kind != "none" && g.Intn(3) == 0 {
				form = "fetch"
				val := strings.TrimSuffix(strings.TrimPrefix(limSQL, " LIMIT "), " PERCENT")
				unit := g.Pick(" ROW", " ROWS")
				if kind == "p" {
					unit = " PERCENT"
				}
				sql += offSQL + " FETCH " + g.Pick("FIRST", "NEXT") + " " + val + unit + restr
			} else {
				if kind == "n" {
					limSQL += g.Pick("", "", " ROW", " ROWS")
				}
				sql += limSQL + restr + offSQL
			}
			o.Count("cutform:" + form + restr)
			if kind == "none" {
				wt = 0
			}
			got := "E"
			r, err := func() (v *query.View, err error) {
				defer func() {
					if p := recover(); p != nil {
						err = fmt.Errorf("PANIC: %v", p)
					}
				}()
				return pr.Query(sql)
			}()
			if err == nil {
				got = joinInts(idsOf(r))
			} else if strings.HasPrefix(err.Error(), "PANIC") || strings.Contains(err.Error(), "Fatal") || hc.ErrCode(err) < 0 {
				o.Law("limit_internal_error", map[string]interface{}{"sql": sql, "rows": nrows, "error": err.Error()})
				got = "PANIC"
			}
			o.Case(fmt.Sprintf("%s %s %d %d %s %s %d %s", cutHead, strings.Join(itemToks, ","), nitems, wt, kind, limTok, off, strings.Join(rowToks, " ")), got)
			o.NonTrivial(fmt.Sprintf("cut:%s:%d:%s:%d:%d:%v", kind, wt, limTok, off, nrows/20, strict))
			o.Count("cut:" + kind)
		}
		// without an ORDER BY clause of its own a query has no ties: WITH TIES keeps exactly n rows, the first n
		// of what the same query returns without the clause — also when an analytic function in the select list
		// has sorted the rows by its own OVER (ORDER BY …)
		for c := 0; c < 4; c++ {
			aprefix := []string{
				"SELECT id, RANK() OVER (ORDER BY " + ca + ") AS rk FROM t",
				"SELECT id, ROW_NUMBER() OVER (PARTITION BY " + ca + " ORDER BY " + cb + " DESC) AS rn FROM t",
				"SELECT id, SUM(id) OVER (ORDER BY " + cb + ") AS s, " + ca + " FROM t",
				"SELECT id FROM (SELECT id, " + ca + " FROM t ORDER BY " + ca + ") AS s",
				"SELECT id, " + ca + " FROM t",
			}[g.Intn(5)]
			full, err := pr.Query(aprefix)
			if err != nil {
				continue
			}
			all := idsOf(full)
			n := []int{0, 1, 2, 3, len(all) / 2, len(all)}[g.Intn(6)]
			k := []int{0, 0, 1, 2, len(all) / 3}[g.Intn(5)]
			clause := fmt.Sprintf(" LIMIT %d WITH TIES", n)
			if g.Intn(3) == 0 {
				clause = fmt.Sprintf(" FETCH FIRST %d ROWS WITH TIES", n)
				if k > 0 {
					clause = fmt.Sprintf(" OFFSET %d", k) + clause
				}
			} else if k > 0 {
				clause += fmt.Sprintf(" OFFSET %d", k)
			}
			r, err := pr.Query(aprefix + clause)
			if err != nil {
				o.Law("with_ties_without_order_by", map[string]interface{}{"sql": aprefix + clause, "error": err.Error()})
				continue
			}
			want := all
			if k < len(want) {
				want = want[k:]
			} else {
				want = nil
			}
			if n < len(want) {
				want = want[:n]
			}
			if joinInts(idsOf(r)) != joinInts(want) {
				o.Law("with_ties_without_order_by", map[string]interface{}{"sql": aprefix + clause, "rows": nrows, "got": joinInts(idsOf(r)), "want": joinInts(want)})
			}
			o.Count("ties_no_order_by")
		}
		pr.DisposeTable("t")
	}
	setStrict(pr, false)

	// LIMIT p PERCENT over a dense grid of (row count, percentage): the number of rows kept must be
	// ceil(float64(N) * p / 100) in the code's own float arithmetic (model: limitPercent)
	sizes := []int{25, 50, 75, 100, 1 + g.Intn(130), 1 + g.Intn(130), 131 + g.Intn(400)}
	if n < 200 {
		sizes = sizes[:5]
	}
	for _, N := range sizes {
		rows := make([][]value.Primary, N)
		for i := range rows {
			rows[i] = []value.Primary{value.NewInteger(int64(i))}
		}
		if err := pr.DeclareTable("t", []string{"c1"}, rows); err != nil {
			o.Law("declare_table_error", err.Error())
			continue
		}
		var ps []float64
		for p := 0; p <= 101; p++ {
			ps = append(ps, float64(p))
		}
		for k := 0; k < 60; k++ {
			ps = append(ps, float64(g.Intn(1000))/10, float64(g.Intn(10000))/100)
		}
		for _, p := range ps {
			off := 0
			if g.Intn(4) == 0 {
				off = g.Intn(N + 2)
			}
			sql := fmt.Sprintf("SELECT id FROM t ORDER BY c1 LIMIT %s PERCENT OFFSET %d", strconv.FormatFloat(p, 'f', -1, 64), off)
			got := "E"
			if r, err := pr.Query(sql); err == nil {
				got = strconv.Itoa(r.RecordLen())
			}
			o.Case(fmt.Sprintf("c07.pct %d %d %s", N, off, hc.EncF(p)), got)
			o.Count("cut:pct")
		}
		o.NonTrivial(fmt.Sprintf("pct:%d", N))
		pr.DisposeTable("t")
	}
}

func litInt(i int) string {
	if i < 0 {
		return fmt.Sprintf("(-%d)", -i)
	}
	return strconv.Itoa(i)
}

func svText(sv *query.SortValue) string {
	switch sv.Type {
	case query.NullType:
		return "N"
	case query.IntegerType:
		return fmt.Sprintf("I %d %s x%s", sv.Integer, hc.EncF(sv.Float), hc.Hex(sv.String))
	case query.FloatType:
		return fmt.Sprintf("F %s x%s", hc.EncF(sv.Float), hc.Hex(sv.String))
	case query.DatetimeType:
		return fmt.Sprintf("D %d", sv.Datetime)
	case query.BooleanType:
		return fmt.Sprintf("B %d", sv.Integer)
	case query.StringType:
		return "S x" + hc.Hex(sv.String)
	}
	return fmt.Sprintf("?%d", sv.Type)
}

// sortValueOf: NewSortValue itself — the type it decides on and every field it stores (the integer, its float image,
// the text a number keeps for the comparison with a string, the datetime's nanoseconds, the boolean) — against the
// model's toSortVal, for values of every class and kind.
func sortValueOf(g *hc.Gen, o *hc.Out, pr *hc.Proc, n int) {
	flags := pr.P.Tx.Flags
	for k := 0; k < n; k++ {
		var v value.Primary
		switch g.Intn(12) {
		case 0:
			v = value.NewInteger(g.Int64())
		case 1:
			v = value.NewFloat(g.Float64())
		case 2:
			v = value.NewBoolean(g.Intn(2) == 0)
		case 3:
			v = value.NewTernaryFromString(g.Pick("TRUE", "FALSE", "UNKNOWN"))
		case 4:
			v = value.NewDatetime(time.Unix(int64(g.Intn(4000000000))-1000000000, int64(g.Intn(3))*500000000).UTC())
		case 5:
			v = value.NewString(g.Pick("1", " 2 ", "+3", "-0", "0x10", "1e3", "1_000", "2.50", " nan", "Inf", "-inf", "true", "F", " t ", "abc", " Abc ", "", " ", "2012-02-03", "2012-02-03 04:05:06", "2012-02-03T04:05:06Z", "Feb 3, 2012", "straße", "ǆ",
				// every word some conversion might take for a boolean / a number / a datetime: the model's own conversions
				// (Model/Text, ParseFloat, ParseTime) decide the rung, not the implementation's answer
				"yes", "no", "on", "off", "y", "n", "Y", "N", "Yes", "NO", "On", "OFF", "t", "f", "T", "true", "false", "True", "FALSE", "tRUE", "1", "0",
				"nan", "NaN", "NAN", "inf", "+inf", "-Inf", "infinity", "+Infinity", "-INFINITY", "infinit", "null", "NULL", "none", "nil", "unknown", "UNKNOWN",
				"0x10", "0X1P4", "0x1p-2", "1e3", "1E3", "1e", "e3", ".5", "5.", ".", "+", "-", "1_0", "0b11", "0o7", "007", "+07", "1,000", "१२",
				"2012", "20120203", "2012-02", "12:30", "12:30:00", "2012-2-3", "2012/02/03", "1700-03-01", "2200-03-01", "2262-04-12", "1677-09-21", "now", "today"))
		default:
			v = colVal(g, []int{kNum, kDate, kText, kMixedBig, kBigInt, kDateFmt, kDateFar, kSText, kSNum, kSMixed}[g.Intn(10)])
		}
		got := svText(query.NewSortValue(v, flags))
		if k%3 == 0 {
			// the same value under --strict-equal: the typed fields stay, SerializedKey is added
			setStrict(pr, true)
			sv := query.NewSortValue(v, pr.P.Tx.Flags)
			setStrict(pr, false)
			kb := "nil"
			if sv.SerializedKey != nil {
				kb = "k" + hc.Hex(string(sv.SerializedKey.Bytes()))
			}
			o.Case("c07.strict_sv "+cellTok(v), svText(sv)+" "+kb)
			o.Count("strict_sv")
		}
		o.Case("c07.sv "+cellTok(v), got)
		o.NonTrivial("sv:" + got[:1] + hc.EncVal(v)[:1])
		o.Count("sv:" + got[:1])
	}
}
