package main

import (
	"fmt"
	"math"
	"strconv"
	"strings"
	"time"

	"github.com/mithrandie/csvq/lib/query"
	"github.com/mithrandie/csvq/lib/value"

	"verifharness/hc"
)

func main() { hc.Main(run) }

// cell token: profile~txt (txt = upper(trim(ToString v)) for numbers, as NewSortValue stores it)
func cellTok(p value.Primary) string {
	txt := "-"
	if i := value.ToIntegerStrictly(p); !value.IsNull(i) {
		txt = "x" + hc.Hex(strings.ToUpper(hc.TrimSpaceRef(value.ToString(p).(*value.String).Raw())))
	} else if f := value.ToFloat(p); !value.IsNull(f) {
		txt = "x" + hc.Hex(strings.ToUpper(hc.TrimSpaceRef(value.ToString(p).(*value.String).Raw())))
	}
	return hc.EncFullProfile(p) + "~" + txt
}

const (
	kNum = iota
	kDate
	kText
	kMixedBig // integers beyond 2^53 mixed with floats: outside the proved domain (F18)
	kBigInt   // integers only, many of them beyond 2^53 and adjacent (their float64 images coincide)
)

func colVal(g *hc.Gen, kind int) value.Primary {
	if g.Intn(7) == 0 {
		return value.NewNull()
	}
	switch kind {
	case kNum:
		switch g.Intn(8) {
		case 0, 1, 2:
			return value.NewInteger(int64(g.Intn(7) - 3))
		case 3:
			return value.NewFloat(float64(g.Intn(13)-6) / 2)
		case 4:
			return value.NewString(g.Pick("1", "2.5", " 3 ", "-1", "1e0", "NaN", "Inf", "-Inf", "-0.0", "0"))
		case 5:
			return value.NewInteger([]int64{1 << 53, -(1 << 53), 1<<53 - 1, 1000000}[g.Intn(4)])
		case 6:
			return value.NewFloat([]float64{1e300, -1e300, 5e-324, 0.1, 0.30000000000000004}[g.Intn(5)])
		}
		return value.NewInteger(int64(g.Intn(3)))
	case kBigInt:
		base := []int64{1 << 53, 1 << 60, math.MaxInt64 - 8, -(1 << 53) - 8, math.MinInt64 + 1}[g.Intn(5)]
		return value.NewInteger(base + int64(g.Intn(8)))
	case kMixedBig:
		switch g.Intn(3) {
		case 0:
			return value.NewInteger((1 << 53) + int64(g.Intn(4)))
		case 1:
			return value.NewFloat(9007199254740992)
		}
		return value.NewInteger(int64(g.Intn(3)))
	case kDate:
		t := time.Date(2012, 2, 3+g.Intn(3), 9, g.Intn(2), 0, g.Intn(2), time.UTC)
		switch g.Intn(3) {
		case 0:
			return value.NewDatetime(t)
		case 1:
			return value.NewString(t.Format("2006-01-02 15:04:05.999999999"))
		}
		return value.NewString(t.Format(time.RFC3339Nano))
	}
	return value.NewString(g.Pick("a", "A", "b", " b", "ab", "abc", "B", "", "é", "zz", "x:y", "apple", "Apple "))
}

func idsOf(v *query.View) []int {
	out := make([]int, v.RecordLen())
	for i := range out {
		n, _ := strconv.Atoi(hc.StrOf(hc.ViewCell(v, i, 0)))
		out[i] = n
	}
	return out
}

func joinInts(xs []int) string {
	if len(xs) == 0 {
		return "-"
	}
	s := make([]string, len(xs))
	for i, x := range xs {
		s[i] = strconv.Itoa(x)
	}
	return strings.Join(s, ",")
}

func run(seed int64, n int, dir string, _ []string) {
	g := hc.NewGen(seed)
	o := hc.NewOut(dir)
	defer o.Close()
	pr := hc.NewProc("")
	defer pr.Close()

	tables := n / 12
	if tables < 5 {
		tables = 5
	}
	for t := 0; t < tables; t++ {
		ncols := g.Intn(3) + 1
		kinds := make([]int, ncols)
		mixed := false
		for j := range kinds {
			kinds[j] = g.Intn(3)
			if g.Intn(6) == 0 {
				kinds[j] = kBigInt
			}
			if g.Intn(25) == 0 {
				kinds[j] = kMixedBig
				mixed = true
			}
		}
		nrows := []int{0, 1, 2, 3, 6, 12, 40, 170, 350}[g.Intn(9)]
		rows := make([][]value.Primary, nrows)
		for i := range rows {
			rows[i] = make([]value.Primary, ncols)
			for j := range rows[i] {
				for {
					rows[i][j] = colVal(g, kinds[j])
					if _, ok := hc.SqlLit(rows[i][j]); ok {
						break
					}
				}
			}
		}
		if t == 0 {
			// corpus: the minimal witness of known finding F18 always runs first
			ncols, mixed, nrows = 1, true, 3
			rows = [][]value.Primary{{value.NewInteger(9007199254740993)}, {value.NewFloat(9007199254740992)}, {value.NewInteger(9007199254740992)}}
		}
		cols := make([]string, ncols)
		for j := range cols {
			cols[j] = fmt.Sprintf("c%d", j+1)
		}
		if err := pr.DeclareTable("t", cols, rows); err != nil {
			o.Law("declare_table_error", err.Error())
			continue
		}
		pr.SetCPU([]int{1, 2, 4, 8}[g.Intn(4)])
		// ORDER BY items
		nitems := g.Intn(ncols) + 1
		itemToks, itemSQL := make([]string, nitems), make([]string, nitems)
		perm := g.Perm(ncols)
		for k := 0; k < nitems; k++ {
			d, np := g.Pick("a", "d", "A"), g.Pick("-", "f", "l")
			sql := cols[perm[k]]
			switch d {
			case "a":
				sql += " ASC"
			case "d":
				sql += " DESC"
			default:
				d = "a"
			}
			switch np {
			case "f":
				sql += " NULLS FIRST"
			case "l":
				sql += " NULLS LAST"
			}
			itemToks[k], itemSQL[k] = d+np, sql
		}
		orderBy := " ORDER BY " + strings.Join(itemSQL, ", ")
		sortCells := func(id int) string {
			s := make([]string, 0, nitems+1)
			s = append(s, strconv.Itoa(id))
			for k := 0; k < nitems; k++ {
				s = append(s, cellTok(rows[id][perm[k]]))
			}
			return strings.Join(s, " ")
		}
		v, err := pr.Query("SELECT id FROM t" + orderBy)
		if err != nil {
			o.Law("orderby_sql_error", err.Error())
			pr.DisposeTable("t")
			continue
		}
		order := idsOf(v)
		// permutation check, directly on the implementation's output
		seen := make(map[int]int)
		for _, id := range order {
			seen[id]++
		}
		okPerm := len(order) == nrows
		for i := 0; i < nrows; i++ {
			if seen[i] != 1 {
				okPerm = false
			}
		}
		if !okPerm {
			o.Law("order_by_permutation", map[string]interface{}{"rows": nrows, "out": joinInts(order)})
		}
		rowToks := make([]string, len(order))
		for i, id := range order {
			rowToks[i] = sortCells(id)
		}
		head := "c07.sorted"
		if mixed {
			head = "c07.sorted_mixed" // outside the proved domain: reported under its own signature
		}
		o.Case(fmt.Sprintf("%s %s %d %s", head, strings.Join(itemToks, ","), nitems, strings.Join(rowToks, " ")), "sorted")
		o.NonTrivial(fmt.Sprintf("sorted:%v:%d:%d:%v", itemToks, nrows/50, ncols, mixed))
		o.Count(fmt.Sprintf("rows~%d", nrows/100*100))

		if mixed {
			pr.DisposeTable("t")
			continue
		}
		// OFFSET / LIMIT / PERCENT / WITH TIES applied to that order
		for c := 0; c < 8; c++ {
			wt := g.Intn(2)
			kind := g.Pick("n", "n", "p", "none")
			off := []int{-2, 0, 0, 1, 2, nrows - 1, nrows, nrows + 3, 5}[g.Intn(9)]
			hasOff := g.Intn(2) == 0
			if !hasOff {
				off = 0
			}
			var limTok, limSQL string
			switch kind {
			case "n":
				l := []int{-1, 0, 1, 2, 3, nrows - 1, nrows, nrows + 1, 1000000}[g.Intn(9)]
				limTok, limSQL = strconv.Itoa(l), fmt.Sprintf(" LIMIT %s", litInt(l))
			case "p":
				p := []float64{-5, 0, 0.5, 10, 25, 33.3, 50, 66.7, 99.9, 100, 100.5, 150, 1e10, math.NaN(), math.Inf(1), math.Inf(-1)}[g.Intn(16)]
				limTok = hc.EncF(p)
				switch {
				case math.IsNaN(p):
					limSQL = " LIMIT 'NaN' PERCENT"
				case math.IsInf(p, 1):
					limSQL = " LIMIT 'Inf' PERCENT"
				case math.IsInf(p, -1):
					limSQL = " LIMIT '-Inf' PERCENT"
				case p < 0:
					limSQL = fmt.Sprintf(" LIMIT (%s) PERCENT", strconv.FormatFloat(p, 'f', -1, 64))
				default:
					limSQL = fmt.Sprintf(" LIMIT %s PERCENT", strconv.FormatFloat(p, 'f', -1, 64))
				}
			default:
				if !hasOff {
					continue
				}
				limTok = "-"
			}
			if kind != "none" && wt == 1 {
				limSQL += " WITH TIES"
			}
			sql := "SELECT id FROM t" + orderBy + limSQL
			if hasOff {
				sql += fmt.Sprintf(" OFFSET %s", litInt(off))
			}
			if kind == "none" {
				wt = 0
			}
			got := "E"
			r, err := func() (v *query.View, err error) {
				defer func() {
					if p := recover(); p != nil {
						err = fmt.Errorf("PANIC: %v", p)
					}
				}()
				return pr.Query(sql)
			}()
			if err == nil {
				got = joinInts(idsOf(r))
			} else if strings.HasPrefix(err.Error(), "PANIC") || strings.Contains(err.Error(), "Fatal") || hc.ErrCode(err) < 0 {
				o.Law("limit_internal_error", map[string]interface{}{"sql": sql, "rows": nrows, "error": err.Error()})
				got = "PANIC"
			}
			o.Case(fmt.Sprintf("c07.cut %s %d %d %s %s %d %s", strings.Join(itemToks, ","), nitems, wt, kind, limTok, off, strings.Join(rowToks, " ")), got)
			o.NonTrivial(fmt.Sprintf("cut:%s:%d:%s:%d:%d", kind, wt, limTok, off, nrows/20))
			o.Count("cut:" + kind)
		}
		pr.DisposeTable("t")
	}
}

func litInt(i int) string {
	if i < 0 {
		return fmt.Sprintf("(-%d)", -i)
	}
	return strconv.Itoa(i)
}
