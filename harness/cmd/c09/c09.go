package main

// Virtual processes (goroutines with their own file.Container, sharing a real scratch directory) run the
// REAL lib/file handler code; every VerifPoint is a yield point; a seeded scheduler decides who moves.
// flock(2) conflicts between different open file descriptions behave as between processes.

import (
	"bytes"
	"context"
	"fmt"
	"io"
	"os"
	"os/exec"
	"path/filepath"
	"runtime"
	"strconv"
	"strings"
	"sync"
	"time"

	"github.com/mithrandie/csvq/lib/file"

	"verifharness/hc"
)

func main() { hc.Main(run) }

func gid() int64 {
	var buf [64]byte
	n := runtime.Stack(buf[:], false)
	f := bytes.Fields(buf[:n])
	id, _ := strconv.ParseInt(string(f[1]), 10, 64)
	return id
}

type event struct {
	pid  int
	name string // hook name, or "done"
}

type vproc struct {
	role    byte // 'W' or 'R'
	grant   chan struct{}
	holding string // "", "W", "R"
	outcome string
}

type sched struct {
	mtx    sync.Mutex
	byGid  map[int64]int
	procs  []*vproc
	events chan event
}

func (s *sched) hook(name string) {
	s.mtx.Lock()
	pid, ok := s.byGid[gid()]
	s.mtx.Unlock()
	if !ok {
		return
	}
	s.events <- event{pid, name}
	<-s.procs[pid].grant
}

func (s *sched) setHolding(pid int, h string) {
	s.mtx.Lock()
	s.procs[pid].holding = h
	s.mtx.Unlock()
}

func fsState(dir, base string) string {
	ents, _ := os.ReadDir(dir)
	lock, rl, tmp := 0, 0, 0
	for _, e := range ents {
		n := e.Name()
		if !strings.HasPrefix(n, "."+base) {
			continue
		}
		switch {
		case strings.HasSuffix(n, ".rlock"):
			rl++
		case strings.HasSuffix(n, ".lock"):
			lock++
		case strings.HasSuffix(n, ".temp"):
			tmp++
		}
	}
	return fmt.Sprintf("L%dR%d", lock, rl)
}

// realProcesses starts N real csvq processes that each run K read-modify-write transactions on one
// table; every committed increment must survive, and nothing may be left behind.
func realProcesses(o *hc.Out, g *hc.Gen, bin, scratch string, rounds int) {
	for r := 0; r < rounds; r++ {
		d := filepath.Join(scratch, fmt.Sprintf("c09p-%d", r))
		_ = os.RemoveAll(d)
		_ = os.MkdirAll(d, 0o755)
		_ = os.WriteFile(filepath.Join(d, "cnt.csv"), []byte("n\n0\n"), 0o644)
		nproc, k := 3+g.Intn(6), 2+g.Intn(4)
		var wg sync.WaitGroup
		var mtx sync.Mutex
		ok, timeouts, other := 0, 0, []string{}
		for p := 0; p < nproc; p++ {
			wg.Add(1)
			go func(p int) {
				defer wg.Done()
				for i := 0; i < k; i++ {
					stmt := "UPDATE cnt SET n = n + 1; COMMIT;"
					if (p+i)%3 == 0 {
						stmt = "SELECT n FROM cnt; UPDATE cnt SET n = n + 1; COMMIT;" // read first, then update (reload under the lock)
					}
					cmd := exec.Command(bin, "--repository", d, "--quiet", "--wait-timeout", "20", stmt)
					cmd.Dir = d
					cmd.Env = append(os.Environ(), "HOME="+d)
					out, err := cmd.CombinedOutput()
					mtx.Lock()
					switch {
					case err == nil:
						ok++
					case strings.Contains(string(out), "lock") && strings.Contains(string(out), "timeout"):
						timeouts++
					default:
						other = append(other, string(out))
					}
					mtx.Unlock()
				}
			}(p)
		}
		wg.Wait()
		b, _ := os.ReadFile(filepath.Join(d, "cnt.csv"))
		lines := strings.Fields(string(b))
		final := -1
		if len(lines) == 2 {
			final, _ = strconv.Atoi(lines[1])
		}
		rep := map[string]interface{}{"processes": nproc, "transactions_each": k, "committed": ok, "lock_timeouts": timeouts, "final_count": final, "file": string(b)}
		if final != ok {
			o.Law("lost_update_real_processes", rep)
		}
		if len(other) > 0 {
			rep["errors"] = other
			o.Law("unexpected_error_real_processes", rep)
		}
		if st := fsState(d, "cnt.csv"); st != "L0R0" {
			rep["state"] = st
			o.Law("control_files_left", rep)
		}
		o.Eval()
		o.NonTrivial(fmt.Sprintf("real:%d:%d:%d:%d", nproc, k, ok, timeouts))
		o.Count("real_process_rounds")
		_ = os.RemoveAll(d)
	}
}

// pausedRMW: a real csvq process is held (VERIF_PAUSE_AT, build tag verif) at the first step of taking the
// exclusive lock of its statement — whatever it has read before that point it read without the lock — a second
// process then commits a change to the same table, and the first one is let go.  Every single-statement
// read-modify-write form must see the second process's commit: the end state is that of running the two one
// after the other.
func pausedRMW(o *hc.Out, bin, scratch string) {
	type form struct{ name, table, init, p1, p2, want string }
	forms := []form{
		{"update_increment", "cnt.csv", "n\n0\n", "UPDATE cnt SET n = n + 1", "UPDATE cnt SET n = n + 10", "n\n11\n"},
		{"update_from_subquery", "cnt.csv", "n\n0\n", "UPDATE cnt SET n = (SELECT MAX(n) FROM cnt) + 1", "UPDATE cnt SET n = n + 10", "n\n11\n"},
		{"select_then_update", "cnt.csv", "n\n0\n", "SELECT n FROM cnt; UPDATE cnt SET n = n + 1", "UPDATE cnt SET n = n + 10", "n\n11\n"},
		{"insert_select_max", "ids.csv", "id\n0\n", "INSERT INTO ids SELECT MAX(id) + 1 FROM ids", "INSERT INTO ids SELECT MAX(id) + 1 FROM ids", "id\n0\n1\n2\n"},
		{"insert_values_subquery", "ids.csv", "id\n0\n", "INSERT INTO ids VALUES ((SELECT MAX(id) + 1 FROM ids))", "INSERT INTO ids VALUES (1)", "id\n0\n1\n2\n"},
		{"insert_select_count", "ids.csv", "id\n0\n", "INSERT INTO ids SELECT COUNT(*) FROM ids", "INSERT INTO ids VALUES (1)", "id\n0\n1\n2\n"},
		{"delete_below_max", "ids.csv", "id\n0\n1\n", "DELETE FROM ids WHERE id < (SELECT MAX(id) FROM ids)", "INSERT INTO ids VALUES (5)", "id\n5\n"},
		{"replace_from_self", "kv.csv", "k,v\n1,0\n", "REPLACE INTO kv (k, v) USING (k) SELECT k, v + 1 FROM kv", "UPDATE kv SET v = v + 10", "k,v\n1,11\n"},
		{"update_join_self", "kv.csv", "k,v\n1,0\n", "UPDATE kv SET kv.v = s.v + 1 FROM kv JOIN (SELECT k, v FROM kv) s ON kv.k = s.k", "UPDATE kv SET v = v + 10", "k,v\n1,11\n"},
		{"create_as_select_then_insert", "ids.csv", "id\n0\n", "INSERT INTO ids SELECT id + 100 FROM ids", "INSERT INTO ids VALUES (1)", "id\n0\n1\n100\n101\n"},
	}
	for i, f := range forms {
		d := filepath.Join(scratch, fmt.Sprintf("c09q-%d", i))
		_ = os.RemoveAll(d)
		_ = os.MkdirAll(d, 0o755)
		path := filepath.Join(d, f.table)
		_ = os.WriteFile(path, []byte(f.init), 0o644)
		gate := filepath.Join(d, "gate")
		run := func(stmt string, env ...string) (string, error) {
			cmd := exec.Command(bin, "--repository", d, "--quiet", "--wait-timeout", "10", stmt+"; COMMIT;")
			cmd.Dir = d
			cmd.Env = append(append(os.Environ(), "HOME="+d), env...)
			out, err := cmd.CombinedOutput()
			return string(out), err
		}
		type res struct {
			out string
			err error
		}
		done := make(chan res, 1)
		go func() {
			out, err := run(f.p1, "VERIF_PAUSE_AT=lock.check#1:"+gate)
			done <- res{out, err}
		}()
		reached := false
		for k := 0; k < 2000; k++ {
			if _, err := os.Stat(gate + ".reached"); err == nil {
				reached = true
				break
			}
			time.Sleep(5 * time.Millisecond)
		}
		out2, err2 := run(f.p2)
		_ = os.WriteFile(gate, nil, 0o644)
		r1 := <-done
		_ = os.Remove(gate)
		_ = os.Remove(gate + ".reached")
		b, _ := os.ReadFile(path)
		rep := map[string]interface{}{"form": f.name, "first": f.p1, "second": f.p2, "file": string(b), "want": f.want, "first_paused_before_its_lock": reached,
			"first_output": r1.out, "second_output": out2}
		switch {
		case r1.err != nil || err2 != nil:
			o.Law("paused_rmw_error", rep)
		case string(b) != f.want:
			o.Law("lost_update_single_statement", rep)
		}
		if st := fsState(d, f.table); st != "L0R0" {
			rep["state"] = st
			o.Law("control_files_left", rep)
		}
		o.Eval()
		o.NonTrivial("pausedrmw:" + f.name)
		o.Count(fmt.Sprintf("paused_rmw_reached:%v", reached))
		_ = os.RemoveAll(d)
	}
}

// controlFileVisibility: a writer decides whether it may take a table by LockExists / RLockExists.  For every
// table name — including names with characters that mean something to a glob pattern, hidden names, names that are
// prefixes of each other — a lock or read-lock file of THAT table is seen, whatever its random suffix is and whatever
// else lies in the directory, and control files of other tables are not taken for it.
func controlFileVisibility(o *hc.Out, g *hc.Gen, scratch string) {
	names := []string{"t.csv", ".t.csv", "a[1].csv", "a*.csv", "q?.csv", "x[.csv", "sp ace.csv", "t.csv2", "T.CSV", "né.csv", "d]e[.tsv", "back\\slash.csv"}
	for i, dirName := range []string{"plain", "br[a]cket", "st*r"} {
		d := filepath.Join(scratch, fmt.Sprintf("c09v-%d-%s", i, dirName))
		_ = os.RemoveAll(d)
		if err := os.MkdirAll(d, 0o755); err != nil {
			continue
		}
		for _, n := range names {
			_ = os.WriteFile(filepath.Join(d, n), []byte("v\n1\n"), 0o644)
		}
		for _, n := range names {
			path := filepath.Join(d, n)
			rep := func(law string, extra map[string]interface{}) {
				m := map[string]interface{}{"dir": dirName, "table": n}
				for k, v := range extra {
					m[k] = v
				}
				o.Law(law, m)
			}
			if file.RLockExists(path) || file.LockExists(path) {
				rep("control_file_seen_without_one", nil)
			}
			// other tables' control files must not count
			var others []string
			for _, m := range names {
				if m != n {
					f := filepath.Join(d, "."+m+"."+file.RandomString(12)+".rlock")
					_ = os.WriteFile(f, nil, 0o644)
					others = append(others, f)
				}
			}
			if file.RLockExists(path) {
				rep("foreign_rlock_taken_for_own", nil)
			}
			for _, f := range others {
				_ = os.Remove(f)
			}
			// own read locks: suffixes sorting before and after "lock", alone and next to the table's own .lock file
			for _, suffix := range []string{"0AAAAAAAAAAA", "zzzzzzzzzzzz", "kzzzzzzzzzzz", "m00000000000", file.RandomString(12), file.RandomString(12)} {
				for _, withLock := range []bool{false, true} {
					rl := filepath.Join(d, "."+n+"."+suffix+".rlock")
					_ = os.WriteFile(rl, nil, 0o644)
					lk := filepath.Join(d, "."+n+".lock")
					if withLock {
						_ = os.WriteFile(lk, nil, 0o644)
					}
					if !file.RLockExists(path) {
						rep("rlock_not_seen", map[string]interface{}{"rlock": filepath.Base(rl), "own_lock_present": withLock})
					}
					if withLock && !file.LockExists(path) {
						rep("lock_not_seen", nil)
					}
					_ = os.Remove(rl)
					_ = os.Remove(lk)
					o.Eval()
				}
			}
		}
		o.NonTrivial("visibility:" + dirName)
		_ = os.RemoveAll(d)
	}
}

// pausedCreate: two processes CREATE the same table.  The loser is held (VERIF_PAUSE_AT) at a chosen step — after
// its existence check, before or after it has the lock — while the winner creates, fills and commits the table.
// Whatever the loser then reports, the winner's committed table is untouched and nothing is left behind.
func pausedCreate(o *hc.Out, bin, scratch string) {
	for i, point := range []string{"lock.check#1", "lock.create#1", "lock.recheck#1", "create.open#1"} {
		d := filepath.Join(scratch, fmt.Sprintf("c09c-%d", i))
		_ = os.RemoveAll(d)
		_ = os.MkdirAll(d, 0o755)
		gate := filepath.Join(d, "gate")
		run := func(stmt string, env ...string) (string, error) {
			cmd := exec.Command(bin, "--repository", d, "--quiet", "--wait-timeout", "3", stmt)
			cmd.Dir = d
			cmd.Env = append(append(os.Environ(), "HOME="+d), env...)
			out, err := cmd.CombinedOutput()
			return string(out), err
		}
		type res struct {
			out string
			err error
		}
		done := make(chan res, 1)
		go func() {
			out, err := run("CREATE TABLE `x.csv` (a, b); INSERT INTO `x.csv` VALUES (9, 9); COMMIT;", "VERIF_PAUSE_AT="+point+":"+gate)
			done <- res{out, err}
		}()
		reached := false
		for k := 0; k < 2000; k++ {
			if _, err := os.Stat(gate + ".reached"); err == nil {
				reached = true
				break
			}
			time.Sleep(5 * time.Millisecond)
		}
		out2, err2 := run("CREATE TABLE `x.csv` (a, b); INSERT INTO `x.csv` VALUES (1, 2), (3, 4); COMMIT;")
		_ = os.WriteFile(gate, nil, 0o644)
		r1 := <-done
		_ = os.Remove(gate)
		_ = os.Remove(gate + ".reached")
		b, rerr := os.ReadFile(filepath.Join(d, "x.csv"))
		rep := map[string]interface{}{"loser_held_at": point, "held": reached, "winner_output": out2, "winner_ok": err2 == nil, "loser_output": r1.out, "loser_ok": r1.err == nil, "file": string(b)}
		switch {
		case err2 == nil && r1.err != nil:
			// the winner committed, the loser failed: the table is the winner's
			if rerr != nil || string(b) != "a,b\n1,2\n3,4\n" {
				o.Law("create_loser_removed_winners_table", rep)
			}
		case err2 != nil && r1.err == nil:
			// the held process already had the table (held after taking the lock): the table is its own
			if rerr != nil || string(b) != "a,b\n9,9\n" {
				o.Law("create_winner_lost_its_table", rep)
			}
		case err2 == nil && r1.err == nil:
			o.Law("both_creates_succeeded", rep)
		}
		if st := fsState(d, "x.csv"); st != "L0R0" {
			rep["state"] = st
			o.Law("control_files_left", rep)
		}
		// the same race in the model: the regenerated NewHandlerForCreate (Model/Retry.lean runCreate), H = the held process
		if reached {
			cls := "before" // H has not created its .lock yet
			if point == "lock.recheck#1" || point == "create.open#1" {
				cls = "after"
			}
			word := func(e error) string {
				if e == nil {
					return "ok"
				}
				return "err"
			}
			table := "none"
			switch {
			case rerr == nil && string(b) == "a,b\n9,9\n":
				table = "H"
			case rerr == nil && string(b) == "a,b\n1,2\n3,4\n":
				table = "S"
			}
			o.Case("c09.createrace "+cls, fmt.Sprintf("H:%s S:%s table:%s", word(r1.err), word(err2), table))
		}
		o.Eval()
		o.NonTrivial(fmt.Sprintf("pausedcreate:%s:%v:%v", point, err2 == nil, r1.err == nil))
		_ = os.RemoveAll(d)
	}
}

// lockTimeouts: while one handler holds the table for update (or for read), a second one that cannot get
// access within its wait timeout must fail with the lock-timeout error and change nothing.
func lockTimeouts(o *hc.Out, scratch string, rounds int) {
	for r := 0; r < rounds; r++ {
		d := filepath.Join(scratch, fmt.Sprintf("c09t-%d", r))
		_ = os.RemoveAll(d)
		_ = os.MkdirAll(d, 0o755)
		base := []string{"tbl.csv", ".tbl.csv", "tbl.csv", "My Table.CSV"}[r%4] // hidden and unusual names too
		path := filepath.Join(d, base)
		_ = os.WriteFile(path, []byte("0"), 0o644)
		ctx := context.Background()
		holder := file.NewContainer()
		holdForUpdate := r%2 == 0
		var hh *file.Handler
		var err error
		if holdForUpdate {
			hh, err = holder.CreateHandlerForUpdate(ctx, path, time.Second, time.Millisecond)
		} else {
			hh, err = holder.CreateHandlerForRead(ctx, path, time.Second, time.Millisecond)
		}
		if err != nil {
			o.Law("handler_error", map[string]interface{}{"scenario": "lock_timeout holder", "error": err.Error()})
			continue
		}
		before := fsState(d, base)
		other := file.NewContainer()
		_, e1 := other.CreateHandlerForUpdate(ctx, path, 40*time.Millisecond, time.Millisecond)
		var e2 error
		if holdForUpdate {
			_, e2 = other.CreateHandlerForRead(ctx, path, 40*time.Millisecond, time.Millisecond)
		}
		after := fsState(d, base)
		rep := map[string]interface{}{"holder_for_update": holdForUpdate, "before": before, "after": after, "update_error": fmt.Sprint(e1), "read_error": fmt.Sprint(e2)}
		if _, ok := e1.(*file.TimeoutError); !ok {
			o.Law("lock_timeout_expected", rep)
		}
		if holdForUpdate {
			if _, ok := e2.(*file.TimeoutError); !ok {
				o.Law("lock_timeout_expected", rep)
			}
		}
		if before != after {
			o.Law("timeout_changed_control_files", rep)
		}
		b, _ := os.ReadFile(path)
		if string(b) != "0" {
			o.Law("timeout_changed_data", rep)
		}
		if holdForUpdate {
			_ = holder.Commit(hh)
		} else {
			_ = holder.Close(hh)
		}
		if st := fsState(d, base); st != "L0R0" {
			rep["state"] = st
			o.Law("control_files_left", rep)
		}
		o.Eval()
		o.NonTrivial(fmt.Sprintf("timeout:%v:%s", holdForUpdate, after))
		o.Count("lock_timeout_rounds")
		_ = os.RemoveAll(d)
	}
}

// accessForms: while another process holds a table for update (its lock file exists) EVERY way of reaching the
// table's data — plain name, table functions, inline functions, sub-queries, cursors, every data-changing
// statement — ends in the lock-timeout error and shows no data; while another process only READS it (an rlock
// exists) readers go through and every writer times out.
func accessForms(o *hc.Out, bin, scratch string) {
	type form struct {
		name, sql string
		writes    bool
	}
	forms := []form{
		{"select", "SELECT * FROM t", false},
		{"select_quoted_path", "SELECT * FROM `t.csv`", false},
		{"select_for_update", "SELECT * FROM t FOR UPDATE", true},
		{"subquery", "SELECT * FROM (SELECT * FROM t) s", false},
		{"scalar_subquery", "SELECT (SELECT COUNT(*) FROM t) FROM DUAL", false},
		{"exists", "SELECT 1 FROM DUAL WHERE EXISTS (SELECT 1 FROM t)", false},
		{"join", "SELECT * FROM u JOIN t ON u.id = t.id", false},
		{"csv_function", "SELECT * FROM CSV(',', `t.csv`)", false},
		{"csv_inline", "SELECT * FROM CSV_INLINE(',', `t.csv`)", false},
		{"cursor", "VAR @a, @b; DECLARE c CURSOR FOR SELECT * FROM t; OPEN c; FETCH c INTO @a, @b; PRINT @a;", false},
		{"select_into", "VAR @a, @b; SELECT id, v INTO @a, @b FROM t LIMIT 1; PRINT @a;", false},
		{"update", "UPDATE t SET v = 9", true},
		{"insert", "INSERT INTO t VALUES (9, 9)", true},
		{"delete", "DELETE FROM t WHERE id = 1", true},
		{"replace", "REPLACE INTO t (id, v) USING (id) VALUES (1, 9)", true},
		{"alter_add", "ALTER TABLE t ADD x", true},
		{"alter_set", "ALTER TABLE t SET LINE_BREAK TO CRLF", true},
		{"update_join", "UPDATE t SET t.v = u.v FROM t JOIN u ON t.id = u.id", true},
		{"insert_select", "INSERT INTO u SELECT id, v FROM t", false},
		{"json_select", "SELECT * FROM j", false},
		{"json_function", "SELECT * FROM JSON('', `j.json`)", false},
		{"json_inline", "SELECT * FROM JSON_INLINE('', `j.json`)", false},
		{"json_table", "SELECT * FROM JSON_TABLE('', `j.json`)", false},
	}
	for _, held := range []string{"lock", "rlock"} {
		for _, f := range forms {
			d := filepath.Join(scratch, "c09-forms")
			_ = os.RemoveAll(d)
			_ = os.MkdirAll(d, 0o755)
			_ = os.WriteFile(filepath.Join(d, "t.csv"), []byte("id,v\n1,SECRETDATA\n2,b\n"), 0o644)
			_ = os.WriteFile(filepath.Join(d, "u.csv"), []byte("id,v\n1,x\n"), 0o644)
			_ = os.WriteFile(filepath.Join(d, "j.json"), []byte(`[{"id":1,"v":"SECRETDATA"}]`), 0o644)
			for _, b := range []string{"t.csv", "j.json"} {
				ctl := "." + b + ".lock"
				if held == "rlock" {
					ctl = "." + b + ".abcdefghijkl.rlock"
				}
				_ = os.WriteFile(filepath.Join(d, ctl), nil, 0o644)
			}
			before := fsListing(d)
			cmd := exec.Command(bin, "--repository", d, "--quiet", "--wait-timeout", "0.15", f.sql)
			cmd.Dir = d
			cmd.Env = append(os.Environ(), "HOME="+d)
			var out bytes.Buffer
			cmd.Stdout, cmd.Stderr = &out, &out
			err := cmd.Run()
			rc := 0
			if ee, ok := err.(*exec.ExitError); ok {
				rc = ee.ExitCode()
			}
			rep := map[string]interface{}{"held_by_other": held, "form": f.name, "sql": f.sql, "exit_code": rc, "output": out.String()}
			mustTimeOut := held == "lock" || f.writes
			timedOut := strings.Contains(out.String(), "lock wait timeout")
			switch {
			case mustTimeOut && (!timedOut || rc == 0):
				o.Law("access_while_locked_did_not_time_out", rep)
			case mustTimeOut && strings.Contains(out.String(), "SECRETDATA"):
				o.Law("access_while_locked_showed_data", rep)
			case !mustTimeOut && (timedOut || rc != 0):
				o.Law("reader_blocked_by_reader", rep)
			}
			if after := fsListing(d); mustTimeOut && after != before {
				rep["before"], rep["after"] = before, after
				o.Law("timed_out_access_changed_directory", rep)
			}
			o.Eval()
			o.Count("access_form:" + held + ":" + f.name)
		}
	}
	o.NonTrivial("access_forms")
	_ = os.RemoveAll(filepath.Join(scratch, "c09-forms"))
}

func fsListing(dir string) string {
	ents, _ := os.ReadDir(dir)
	var s []string
	for _, e := range ents {
		b, _ := os.ReadFile(filepath.Join(dir, e.Name()))
		s = append(s, e.Name()+"="+hc.Hex(string(b)))
	}
	return strings.Join(s, " ")
}

func run(seed int64, n int, dir string, _ []string) {
	g := hc.NewGen(seed)
	o := hc.NewOut(dir)
	defer o.Close()
	scratch := os.Getenv("VERIF_SCRATCH")
	if scratch == "" {
		scratch = os.TempDir()
	}
	if bin := os.Getenv("VERIF_CSVQ"); bin != "" {
		realProcesses(o, g, bin, scratch, 2+n/400)
		pausedRMW(o, bin, scratch)
		pausedCreate(o, bin, scratch)
		accessForms(o, bin, scratch)
		heldAtStep(o, bin, scratch) // giveup.go: the waiting time / a signal ends inside the successful attempt
		pausedRelease(o, bin, scratch) // giveup.go: another process arrives between two release steps
		pausedCommit(o, bin, scratch)  // giveup.go: a table that is only locked is asked for while its holder is inside COMMIT
	}
	lockTimeouts(o, scratch, 2+n/100)
	giveUpInProcess(o, scratch)
	cancelAt(o, scratch)
	controlFileVisibility(o, g, scratch)
	for it := 0; it < n; it++ {
		nproc := 2 + g.Intn(2)
		if g.Intn(6) == 0 {
			nproc = 4
		}
		d := filepath.Join(scratch, fmt.Sprintf("c09-%d", it))
		_ = os.MkdirAll(d, 0o755)
		base := "tbl.csv"
		if it%5 == 4 {
			base = ".tbl.csv" // a hidden table file: its control files get a second dot, the rlock glob must agree
		}
		path := filepath.Join(d, base)
		_ = os.WriteFile(path, []byte("0"), 0o644)

		s := &sched{byGid: map[int64]int{}, events: make(chan event, 64)}
		roles := make([]string, nproc)
		for p := 0; p < nproc; p++ {
			role := byte('W')
			if g.Intn(3) == 0 {
				role = 'R'
			}
			if it%3 == 2 && p == (it/3)%nproc && g.Intn(4) > 0 {
				role = 'W' // the parked process of the sweep is mostly a writer (12 points; a reader has fewer)
			}
			roles[p] = string(role)
			s.procs = append(s.procs, &vproc{role: role, grant: make(chan struct{})})
		}
		file.VerifHook = s.hook
		var wg sync.WaitGroup
		for p := 0; p < nproc; p++ {
			wg.Add(1)
			go func(pid int) {
				defer wg.Done()
				s.mtx.Lock()
				s.byGid[gid()] = pid
				s.mtx.Unlock()
				defer func() { s.events <- event{pid, "done"} }()
				vp := s.procs[pid]
				ctx := context.Background()
				c := file.NewContainer()
				wait := 150 * time.Millisecond
				if it%3 != 0 {
					// scheduled modes park processes for a long (wall-clock) time: a short timeout would end the
					// waiting process before the interesting interleaving is reached
					wait = 5 * time.Second
				}
				if vp.role == 'W' {
					h, err := c.CreateHandlerForUpdate(ctx, path, wait, time.Millisecond)
					if err != nil {
						vp.outcome = "timeout"
						return
					}
					s.setHolding(pid, "W")
					file.VerifPoint("hold")
					// read through the handle opened when the lock was taken, as csvq's loader does
					b, _ := io.ReadAll(h.File())
					cnt, _ := strconv.Atoi(strings.TrimSpace(string(b)))
					fp, _ := h.FileForUpdate()
					_, _ = fp.WriteString(strconv.Itoa(cnt + 1))
					file.VerifPoint("hold2")
					s.setHolding(pid, "")
					if err := c.Commit(h); err != nil {
						vp.outcome = "commit-error:" + err.Error()
						return
					}
					vp.outcome = "committed"
				} else {
					h, err := c.CreateHandlerForRead(ctx, path, wait, time.Millisecond)
					if err != nil {
						vp.outcome = "timeout"
						return
					}
					s.setHolding(pid, "R")
					file.VerifPoint("hold")
					s.setHolding(pid, "")
					if err := c.Close(h); err != nil {
						vp.outcome = "close-error:" + err.Error()
						return
					}
					vp.outcome = "read"
				}
			}(p)
		}

		waiting := map[int]string{}
		finished := map[int]bool{}
		var trace, states []string
		collect := func(until time.Duration, forPid int) {
			deadline := time.After(until)
			for {
				// stop as soon as every live process is waiting at a point (or the awaited one arrived)
				if forPid >= 0 {
					if _, ok := waiting[forPid]; ok || finished[forPid] {
						return
					}
				} else if len(waiting)+len(finished) == nproc {
					return
				}
				select {
				case e := <-s.events:
					if e.name == "done" {
						finished[e.pid] = true
						delete(waiting, e.pid)
					} else {
						waiting[e.pid] = e.name
					}
				case <-deadline:
					return
				}
			}
		}
		collect(300*time.Millisecond, -1)
		steps := 0
		// scheduling: uniformly random in half of the runs; in the other half priority based with a few
		// priority-change points (PCT), which lets one process run a long way while another is parked at a
		// single point — the shape of an ordering defect (A released, B runs to the end, A publishes)
		pct := it%3 == 1
		// third mode, a systematic sweep: process `parkPid` runs exactly `parkAfter` steps and is parked there
		// while all the others run (to their end, or for at most 250 steps); then it continues
		park := it%3 == 2
		parkPid, parkAfter, parkBudget := (it/3)%nproc, g.Intn(14), 250
		stepsOf := make([]int, nproc)
		prio := g.Perm(nproc)
		changeAt := map[int]bool{}
		if pct {
			for k := g.Intn(3); k > 0; k-- {
				changeAt[g.Intn(40)] = true
			}
		}
		lowest := -1
		for len(finished) < nproc && steps < 400 {
			if len(waiting) == 0 {
				collect(300*time.Millisecond, -1)
				if len(waiting) == 0 {
					break
				}
			}
			pids := make([]int, 0, len(waiting))
			for p := 0; p < nproc; p++ {
				if _, ok := waiting[p]; ok {
					pids = append(pids, p)
				}
			}
			p := pids[g.Intn(len(pids))]
			if park {
				_, parkWaiting := waiting[parkPid]
				switch {
				case stepsOf[parkPid] < parkAfter && parkWaiting:
					p = parkPid
				case stepsOf[parkPid] >= parkAfter && parkBudget > 0:
					others := pids[:0:0]
					for _, q := range pids {
						if q != parkPid {
							others = append(others, q)
						}
					}
					if len(others) > 0 {
						p = others[g.Intn(len(others))]
						parkBudget--
					} else if len(finished)+1 < nproc {
						// the others are running towards their next point: wait for them instead of releasing
						collect(50*time.Millisecond, -1)
						parkBudget--
						continue
					} else {
						park = false
					}
				}
			}
			if pct {
				for _, q := range pids {
					if prio[q] > prio[p] {
						p = q
					}
				}
				if changeAt[steps] {
					prio[p] = lowest
					lowest--
				}
			}
			stepsOf[p]++
			name := waiting[p]
			delete(waiting, p)
			s.procs[p].grant <- struct{}{}
			collect(400*time.Millisecond, p)
			steps++
			trace = append(trace, fmt.Sprintf("%d:%s", p, name))
			states = append(states, fsState(d, base))
			// mutual exclusion, observed on the real code
			s.mtx.Lock()
			w, r := 0, 0
			for _, vp := range s.procs {
				if vp.holding == "W" {
					w++
				}
				if vp.holding == "R" {
					r++
				}
			}
			s.mtx.Unlock()
			if w > 1 || (w >= 1 && r >= 1) {
				o.Law("mutual_exclusion", map[string]interface{}{"roles": roles, "schedule": trace, "writers": w, "readers": r})
			}
		}
		// let everything drain
		for len(finished) < nproc {
			for p := range waiting {
				delete(waiting, p)
				s.procs[p].grant <- struct{}{}
			}
			collect(500*time.Millisecond, -1)
			if len(waiting) == 0 && len(finished) < nproc {
				collect(2*time.Second, -1)
				if len(waiting) == 0 {
					break
				}
			}
		}
		wg.Wait()
		file.VerifHook = nil
		committed := 0
		outs := make([]string, nproc)
		for p, vp := range s.procs {
			outs[p] = vp.outcome
			if vp.outcome == "committed" {
				committed++
			}
			if strings.Contains(vp.outcome, "error") {
				o.Law("handler_error", map[string]interface{}{"roles": roles, "schedule": trace, "outcome": vp.outcome})
			}
		}
		b, _ := os.ReadFile(path)
		final, _ := strconv.Atoi(strings.TrimSpace(string(b)))
		if final != committed {
			o.Law("lost_update", map[string]interface{}{"roles": roles, "schedule": trace, "committed": committed, "final_count": final})
		}
		if st := fsState(d, base); st != "L0R0" {
			o.Law("control_files_left", map[string]interface{}{"roles": roles, "schedule": trace, "state": st})
		}
		o.Case(fmt.Sprintf("c09.trace %s %s", strings.Join(roles, ""), strings.Join(trace, " ")), strings.Join(states, ","))
		o.NonTrivial(fmt.Sprintf("%s:%d:%s", strings.Join(roles, ""), len(trace), strings.Join(outs, ",")))
		o.Count("outcomes:" + strings.Join(outs, ","))
		_ = os.RemoveAll(d)
	}
}
