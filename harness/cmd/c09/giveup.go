package main

// "A process that cannot get access within --wait-timeout fails with a lock-timeout error and changes nothing":
// the waiting time (or a cancellation by SIGINT / SIGTERM) can end at ANY moment, also inside the attempt that
// creates the control file and is about to succeed.
//
//   heldAtStep      real csvq processes held (VERIF_PAUSE_AT) at each step of a lock acquisition — lock.check,
//                   lock.create, lock.recheck, temp.create, rlock.stat, rlock.createlock, rlock.create, the removal of
//                   a reader's transient lock — for longer than their --wait-timeout, with NO other process in the
//                   way; and the same steps with SIGINT / SIGTERM delivered there (VERIF_SIGNAL_AT)
//   giveUpInProcess lib/file directly: a context whose deadline passes between two consecutive looks at it, for every
//                   position; a real timeout context with the call held at each step; a cancellation at each step
//   cancelAt        op lines `c09.cancelat <file type> <instant>` compared with the model: the regenerated retry
//                   loop run with the context ending at that instant on a free table
//
// law timeout_or_cancel_left_control_file: whatever the call / the process reports, if it reports an error the
// directory holds no control file afterwards, the table is unchanged and a second process can update it at once;
// if it reports success the control file is the caller's (and the change is committed).

import (
	"bytes"
	"context"
	"fmt"
	"os"
	"os/exec"
	"path/filepath"
	"sort"
	"strings"
	"sync"
	"time"

	"github.com/mithrandie/csvq/lib/file"

	"verifharness/hc"
)

// controlFiles lists every lock / rlock / temp file of a directory
func controlFiles(dir string) []string {
	ents, _ := os.ReadDir(dir)
	var l []string
	for _, e := range ents {
		n := e.Name()
		if strings.HasSuffix(n, file.LockFileSuffix) || strings.HasSuffix(n, file.RLockFileSuffix) || strings.HasSuffix(n, file.TempFileSuffix) {
			l = append(l, n)
		}
	}
	sort.Strings(l)
	return l
}

// kinds: ".lock+.temp" / "nothing" — the kinds of control files present, as the model prints them
func controlKinds(dir string) string {
	var k []string
	for _, suffix := range []string{file.LockFileSuffix, file.RLockFileSuffix, file.TempFileSuffix} {
		for _, n := range controlFiles(dir) {
			if strings.HasSuffix(n, suffix) {
				k = append(k, suffix)
				break
			}
		}
	}
	if len(k) == 0 {
		return "nothing"
	}
	return strings.Join(k, "+")
}

func heldAtStep(o *hc.Out, bin, scratch string) {
	type form struct {
		name, sql string
		points    []string
		write     bool
	}
	forms := []form{
		{"update", "UPDATE t SET v = v + 1; COMMIT;", []string{"lock.check", "lock.create", "lock.recheck", "update.open", "temp.create"}, true},
		{"insert", "INSERT INTO t VALUES (7, 7); COMMIT;", []string{"lock.create", "temp.create"}, true},
		{"select", "SELECT v FROM t;", []string{"rlock.stat", "rlock.createlock", "rlock.create", "cf.remove.lock", "read.open"}, false},
	}
	type scenario struct {
		f     form
		point string
		how   string // pause | SIGINT | SIGTERM
	}
	var list []scenario
	for _, f := range forms {
		for _, p := range f.points {
			for _, how := range []string{"pause", "SIGINT", "SIGTERM"} {
				list = append(list, scenario{f, p, how})
			}
		}
	}
	const initial = "id,v\n1,10\n"
	type result struct {
		law string
		rep map[string]interface{}
		sig string
	}
	results := make([]result, len(list))
	sem := make(chan struct{}, 6)
	var wg sync.WaitGroup
	for i, sc := range list {
		wg.Add(1)
		go func(i int, sc scenario) {
			defer wg.Done()
			sem <- struct{}{}
			defer func() { <-sem }()
			d := filepath.Join(scratch, fmt.Sprintf("c09g-%d", i))
			_ = os.RemoveAll(d)
			_ = os.MkdirAll(d, 0o755)
			defer func() { _ = os.RemoveAll(d) }()
			path := filepath.Join(d, "t.csv")
			_ = os.WriteFile(path, []byte(initial), 0o644)
			gd := filepath.Join(scratch, fmt.Sprintf("c09g-%d-gate", i)) // outside the repository directory
			_ = os.MkdirAll(gd, 0o755)
			defer func() { _ = os.RemoveAll(gd) }()
			gate := filepath.Join(gd, "gate")

			run := func(wait, stmt string, env ...string) (string, int) {
				cmd := exec.Command(bin, "--repository", d, "--quiet", "--wait-timeout", wait, stmt)
				cmd.Dir = d
				cmd.Env = append(append(os.Environ(), "HOME="+gd), env...)
				var out bytes.Buffer
				cmd.Stdout, cmd.Stderr = &out, &out
				err := cmd.Run()
				rc := 0
				if ee, ok := err.(*exec.ExitError); ok {
					rc = ee.ExitCode()
				} else if err != nil {
					rc = -1
				}
				return out.String(), rc
			}

			var out string
			var rc int
			reached := false
			if sc.how == "pause" {
				done := make(chan struct{})
				go func() {
					out, rc = run("0.2", sc.f.sql, "VERIF_PAUSE_AT="+sc.point+"#1:"+gate)
					close(done)
				}()
				for k := 0; k < 2000 && !reached; k++ {
					if _, err := os.Stat(gate + ".reached"); err == nil {
						reached = true
						break
					}
					select {
					case <-done:
						k = 2000
					case <-time.After(5 * time.Millisecond):
					}
				}
				if reached {
					time.Sleep(450 * time.Millisecond) // well beyond the process's waiting time
				}
				_ = os.WriteFile(gate, nil, 0o644)
				<-done
			} else {
				out, rc = run("3", sc.f.sql, "VERIF_SIGNAL_AT="+sc.point+"#1:"+sc.how)
				reached = true
			}

			left := controlFiles(d)
			b, _ := os.ReadFile(path)
			rep := map[string]interface{}{"statement": sc.f.sql, "step": sc.point, "how": sc.how, "step_reached": reached, "exit_code": rc, "output": out,
				"control_files_left": left, "table": string(b), "other_processes": "none"}
			law := ""
			if 0 < len(left) {
				law = "timeout_or_cancel_left_control_file"
			}
			if rc != 0 && string(b) != initial {
				law = "failed_statement_changed_table"
			}
			if rc == 0 && sc.f.write && string(b) == initial {
				law = "reported_success_without_commit"
			}
			if rc == 0 && !sc.f.write && !strings.Contains(out, "10") {
				law = "reported_success_without_data"
			}
			// what every other process experiences afterwards: the table can be taken at once
			t0 := time.Now()
			out2, rc2 := run("1", "UPDATE t SET v = v + 100; COMMIT;")
			rep["second_process_output"], rep["second_process_exit_code"], rep["second_process_ms"] = out2, rc2, time.Since(t0).Milliseconds()
			if rc2 != 0 && law == "" {
				law = "table_stays_locked_after_give_up"
			}
			if rc2 != 0 && law == "timeout_or_cancel_left_control_file" {
				rep["consequence"] = "a later writer cannot get the table any more"
			}
			results[i] = result{law, rep, fmt.Sprintf("heldatstep:%s:%s:%s:%v:%v", sc.f.name, sc.point, sc.how, rc == 0, reached)}
		}(i, sc)
	}
	wg.Wait()
	for _, r := range results {
		if r.law != "" {
			o.Law(r.law, r.rep)
		}
		o.Eval()
		o.NonTrivial(r.sig)
		o.Count("held_at_step")
	}
}

// lookContext: a context whose deadline passes between the limit-th and the (limit+1)-th look at it
type lookContext struct {
	context.Context
	mtx   sync.Mutex
	seen  int
	limit int
	done  chan struct{}
	over  bool
	err   error
}

func newLookContext(limit int, err error) *lookContext {
	return &lookContext{Context: context.Background(), limit: limit, done: make(chan struct{}), err: err}
}

func (c *lookContext) observe() bool {
	c.mtx.Lock()
	defer c.mtx.Unlock()
	c.seen++
	if c.limit < c.seen && !c.over {
		c.over = true
		close(c.done)
	}
	return c.over
}

func (c *lookContext) Deadline() (time.Time, bool) { return time.Now().Add(time.Hour), true }

func (c *lookContext) Err() error {
	if c.observe() {
		return c.err
	}
	return nil
}

func (c *lookContext) Done() <-chan struct{} {
	c.observe()
	return c.done
}

var typeNames = map[file.ControlFileType]string{file.Lock: "lock", file.RLock: "rlock", file.Temporary: "temp"}

// the steps of one attempt per file type, in order: cancelling at step k is the model's instant k+1 (instant 0
// is the look at the context in front of the loop)
var attemptSteps = map[file.ControlFileType][]string{
	file.Lock:      {"lock.check", "lock.create", "lock.recheck"},
	file.RLock:     {"rlock.stat", "rlock.createlock", "rlock.create", "cf.remove.lock"},
	file.Temporary: {"temp.create"},
}

func giveUpInProcess(o *hc.Out, scratch string) {
	d := filepath.Join(scratch, "c09-giveup")
	fresh := func() string {
		_ = os.RemoveAll(d)
		_ = os.MkdirAll(d, 0o755)
		p := filepath.Join(d, "t.csv")
		_ = os.WriteFile(p, []byte("0"), 0o644)
		return p
	}
	defer func() { _ = os.RemoveAll(d); file.VerifHook = nil }()

	laterWriter := func(rep map[string]interface{}, path string) {
		other := file.NewContainer()
		h, err := other.CreateHandlerForUpdate(context.Background(), path, 100*time.Millisecond, 2*time.Millisecond)
		if err != nil {
			rep["later_writer"] = err.Error()
			o.Law("table_stays_locked_after_give_up", rep)
			return
		}
		_ = other.Close(h)
	}

	// 1. the bare retry loop: the deadline passes between two consecutive looks, for every position
	for _, ft := range []file.ControlFileType{file.Lock, file.RLock, file.Temporary} {
		for _, cerr := range []error{context.DeadlineExceeded, context.Canceled} {
			for limit := 0; limit <= 5; limit++ {
				path := fresh()
				file.VerifHook = nil
				f, err := file.CreateControlFileContext(newLookContext(limit, cerr), path, ft, time.Millisecond)
				rep := map[string]interface{}{"call": "CreateControlFileContext", "file_type": typeNames[ft], "context_ends_after_looks": limit, "context_error": cerr.Error(), "error": fmt.Sprint(err)}
				if err == nil {
					if f == nil {
						o.Law("neither_control_file_nor_error", rep)
					} else if e := f.Close(); e != nil {
						rep["close"] = e.Error()
						o.Law("handler_error", rep)
					}
				} else if f != nil {
					o.Law("control_file_returned_with_error", rep)
				}
				if left := controlFiles(d); 0 < len(left) {
					rep["control_files_left"] = left
					o.Law("timeout_or_cancel_left_control_file", rep)
				}
				o.Eval()
				o.NonTrivial(fmt.Sprintf("looks:%s:%d:%v", typeNames[ft], limit, err == nil))
			}
		}
	}

	// 2. through the handlers csvq uses, followed by what a later process experiences
	type opener func(c *file.Container, ctx context.Context, path string) (*file.Handler, error)
	openers := []struct {
		name string
		open opener
	}{
		{"CreateHandlerForUpdate", func(c *file.Container, ctx context.Context, path string) (*file.Handler, error) {
			return c.CreateHandlerForUpdate(ctx, path, time.Hour, time.Millisecond)
		}},
		{"CreateHandlerForRead", func(c *file.Container, ctx context.Context, path string) (*file.Handler, error) {
			return c.CreateHandlerForRead(ctx, path, time.Hour, time.Millisecond)
		}},
	}
	for _, op := range openers {
		for limit := 0; limit <= 9; limit++ {
			path := fresh()
			c := file.NewContainer()
			h, err := op.open(c, newLookContext(limit, context.DeadlineExceeded), path)
			rep := map[string]interface{}{"call": op.name, "context_ends_after_looks": limit, "error": fmt.Sprint(err)}
			if err == nil {
				if e := c.Close(h); e != nil {
					rep["close"] = e.Error()
					o.Law("handler_error", rep)
				}
			}
			if left := controlFiles(d); 0 < len(left) {
				rep["control_files_left"] = left
				o.Law("timeout_or_cancel_left_control_file", rep)
			}
			laterWriter(rep, path)
			o.Eval()
			o.NonTrivial(fmt.Sprintf("looks:%s:%d:%v", op.name, limit, err == nil))
		}
	}

	// 2b. retry delay 0 (only reachable through the library API): the timer of the select is ready at once, Go's select
	// picks between it and ctx.Done() at random, so the loop still ends (the model: retry_returns under fairness,
	// delay_zero_unfair_select_spins without) — with the timeout error and nothing left
	for _, op := range openers {
		path := fresh()
		holder := file.NewContainer()
		hh, herr := holder.CreateHandlerForUpdate(context.Background(), path, time.Second, time.Millisecond)
		if herr != nil {
			o.Law("handler_error", map[string]interface{}{"scenario": "retry delay 0 holder", "error": herr.Error()})
			continue
		}
		before := controlKinds(d)
		type res struct{ err error }
		ch := make(chan res, 1)
		go func() {
			c := file.NewContainer()
			var err error
			if op.name == "CreateHandlerForUpdate" {
				_, err = c.CreateHandlerForUpdate(context.Background(), path, 20*time.Millisecond, 0)
			} else {
				_, err = c.CreateHandlerForRead(context.Background(), path, 20*time.Millisecond, 0)
			}
			ch <- res{err}
		}()
		rep := map[string]interface{}{"call": op.name, "retry_delay": 0, "wait_timeout_ms": 20}
		select {
		case r := <-ch:
			rep["error"] = fmt.Sprint(r.err)
			if _, ok := r.err.(*file.TimeoutError); !ok {
				o.Law("lock_timeout_expected", rep)
			}
			if after := controlKinds(d); after != before {
				rep["before"], rep["after"] = before, after
				o.Law("timeout_changed_control_files", rep)
			}
		case <-time.After(3 * time.Second):
			o.Law("retry_delay_zero_did_not_return", rep)
		}
		_ = holder.Close(hh)
		o.Eval()
		o.NonTrivial("delay0:" + op.name)
	}

	// 3. real contexts: the call is held at a step beyond its waiting time / cancelled at that step
	steps := map[string][]string{
		"CreateHandlerForUpdate": {"lock.check", "lock.create", "lock.recheck", "update.open", "temp.create"},
		"CreateHandlerForRead":   {"rlock.stat", "rlock.createlock", "rlock.create", "cf.remove.lock", "read.open"},
	}
	for _, op := range openers {
		for _, step := range steps[op.name] {
			for _, how := range []string{"held", "cancel"} {
				path := fresh()
				ctx, cancel := context.WithCancel(context.Background())
				if how == "held" {
					cancel()
					ctx, cancel = context.WithTimeout(context.Background(), 15*time.Millisecond)
				}
				fired := false
				file.VerifHook = func(name string) {
					if name == step && !fired {
						fired = true
						if how == "held" {
							time.Sleep(40 * time.Millisecond)
						} else {
							cancel()
						}
					}
				}
				c := file.NewContainer()
				h, err := op.open(c, ctx, path)
				file.VerifHook = nil
				cancel()
				rep := map[string]interface{}{"call": op.name, "step": step, "how": how, "step_reached": fired, "error": fmt.Sprint(err)}
				if err == nil {
					if e := c.Close(h); e != nil {
						rep["close"] = e.Error()
						o.Law("handler_error", rep)
					}
				}
				if left := controlFiles(d); 0 < len(left) {
					rep["control_files_left"] = left
					o.Law("timeout_or_cancel_left_control_file", rep)
				}
				laterWriter(rep, path)
				o.Eval()
				o.NonTrivial(fmt.Sprintf("step:%s:%s:%s:%v", op.name, step, how, err == nil))
			}
		}
	}
}

// cancelAt: the retry loop on a free table with the context cancelled at instant T (0 = before the call, k = at the
// k-th step of the first attempt); on a table held by another handler with a waiting time that runs out.  Compared
// with the model (the REGENERATED loop run in the corresponding environment).
func cancelAt(o *hc.Out, scratch string) {
	d := filepath.Join(scratch, "c09-cancelat")
	defer func() { _ = os.RemoveAll(d); file.VerifHook = nil }()
	for _, ft := range []file.ControlFileType{file.Lock, file.RLock, file.Temporary} {
		steps := attemptSteps[ft]
		for T := 0; T <= len(steps)+1; T++ {
			_ = os.RemoveAll(d)
			_ = os.MkdirAll(d, 0o755)
			path := filepath.Join(d, "t.csv")
			_ = os.WriteFile(path, []byte("0"), 0o644)
			ctx, cancel := context.WithCancel(context.Background())
			if T == 0 {
				cancel()
			}
			fired := false
			file.VerifHook = func(name string) {
				if 1 <= T && T <= len(steps) && name == steps[T-1] && !fired {
					fired = true
					cancel()
				}
			}
			f, err := file.CreateControlFileContext(ctx, path, ft, time.Millisecond)
			file.VerifHook = nil
			cancel()
			ans := "ok:"
			if err != nil {
				ans = "err:"
			}
			ans += controlKinds(d)
			TT := T
			if len(steps) < T {
				TT = 1000 // never during the call
			}
			o.Case(fmt.Sprintf("c09.cancelat %s free %d", typeNames[ft], TT), ans)
			if f != nil {
				_ = f.Close()
			}
			o.NonTrivial(fmt.Sprintf("cancelat:%s:%d:%s", typeNames[ft], T, ans))
		}
		// the table is held by somebody else for the whole waiting time
		_ = os.RemoveAll(d)
		_ = os.MkdirAll(d, 0o755)
		path := filepath.Join(d, "t.csv")
		_ = os.WriteFile(path, []byte("0"), 0o644)
		if ft != file.Temporary {
			holder := file.NewContainer()
			hh, herr := holder.CreateHandlerForUpdate(context.Background(), path, time.Second, time.Millisecond)
			if herr != nil {
				o.Law("handler_error", map[string]interface{}{"scenario": "cancelat holder", "error": herr.Error()})
				continue
			}
			before := controlKinds(d)
			ctx, cancel := context.WithTimeout(context.Background(), 20*time.Millisecond)
			f, err := file.CreateControlFileContext(ctx, path, ft, time.Millisecond)
			cancel()
			ans := "ok:"
			if err != nil {
				ans = "err:"
			}
			if after := controlKinds(d); after == before {
				ans += "nothing" // nothing beside the holder's files
			} else {
				ans += "changed:" + after
			}
			if _, ok := err.(*file.TimeoutError); err != nil && !ok {
				ans += ":not-a-timeout-error"
			}
			o.Case(fmt.Sprintf("c09.cancelat %s busy 30", typeNames[ft]), ans)
			if f != nil {
				_ = f.Close()
			}
			_ = holder.Close(hh)
		}
	}
}

// pausedRelease: the RELEASE side on real processes.  Process A ends a transaction (ROLLBACK of a CREATE TABLE, of an
// UPDATE, COMMIT of both, an error after CREATE TABLE); it is first run once with VERIF_TRACE to learn every named
// point it passes while giving the table back (whatever the points are called in the tree under test), then held
// (VERIF_PAUSE_AT) at each of them in turn while process B changes the same table with a short waiting time.
// Law release_lost_others_commit: if B reports success its change is in the table when both have ended (A must not
// remove or replace the table's file once it has let B in); A's own outcome is what it reported; nothing is left.
func pausedRelease(o *hc.Out, bin, scratch string) {
	type scen struct {
		name, init, a, b   string
		aMark, bMark       string // text that must be in the table when A's / B's change is committed
		aCommits, bCreates bool
	}
	scens := []scen{
		{"create_rollback", "", "CREATE TABLE `t.csv` (c1); ROLLBACK;", "ALTER TABLE `t.csv` ADD c2;", "", "c2", false, false},
		{"create_error", "", "CREATE TABLE `t.csv` (c1); SELECT nosuchcolumn FROM `t.csv`;", "INSERT INTO `t.csv` VALUES ('B');", "", "B", false, false},
		{"create_commit", "", "CREATE TABLE `t.csv` (c1); INSERT INTO `t.csv` VALUES ('A'); COMMIT;", "INSERT INTO `t.csv` VALUES ('B');", "A", "B", true, false},
		{"update_rollback", "id,v,w\n1,x,y\n", "UPDATE `t.csv` SET v = 'A'; ROLLBACK;", "UPDATE `t.csv` SET w = 'B';", "", "B", false, false},
		{"update_commit", "id,v,w\n1,x,y\n", "UPDATE `t.csv` SET v = 'A'; COMMIT;", "UPDATE `t.csv` SET w = 'B';", "A", "B", true, false},
	}
	acquisition := map[string]bool{"lock.check": true, "lock.create": true, "lock.recheck": true, "rlock.stat": true, "rlock.createlock": true,
		"rlock.create": true, "temp.create": true, "update.open": true, "read.open": true, "create.open": true}
	type job struct {
		sc    scen
		point string
	}
	var jobs []job
	for i, sc := range scens {
		d := filepath.Join(scratch, fmt.Sprintf("c09r-trace-%d", i))
		_ = os.RemoveAll(d)
		_ = os.MkdirAll(filepath.Join(d, "repo"), 0o755)
		if sc.init != "" {
			_ = os.WriteFile(filepath.Join(d, "repo", "t.csv"), []byte(sc.init), 0o644)
		}
		cmd := exec.Command(bin, "--repository", filepath.Join(d, "repo"), "--quiet", "--wait-timeout", "1", sc.a)
		cmd.Dir = filepath.Join(d, "repo")
		cmd.Env = append(os.Environ(), "HOME="+d, "VERIF_TRACE="+filepath.Join(d, "trace"))
		_ = cmd.Run()
		tr, _ := os.ReadFile(filepath.Join(d, "trace"))
		seen := map[string]int{}
		started := false
		for _, p := range strings.Fields(string(tr)) {
			seen[p]++
			if !acquisition[p] && !(p == "cf.remove.lock" && !started) {
				started = true
				jobs = append(jobs, job{sc, fmt.Sprintf("%s#%d", p, seen[p])})
			}
		}
		_ = os.RemoveAll(d)
	}
	type result struct {
		laws []string
		rep  map[string]interface{}
		sig  string
	}
	results := make([]result, len(jobs))
	sem := make(chan struct{}, 6)
	var wg sync.WaitGroup
	for i, jb := range jobs {
		wg.Add(1)
		go func(i int, jb job) {
			defer wg.Done()
			sem <- struct{}{}
			defer func() { <-sem }()
			base := filepath.Join(scratch, fmt.Sprintf("c09r-%d", i))
			d := filepath.Join(base, "repo")
			_ = os.RemoveAll(base)
			_ = os.MkdirAll(d, 0o755)
			defer func() { _ = os.RemoveAll(base) }()
			path := filepath.Join(d, "t.csv")
			if jb.sc.init != "" {
				_ = os.WriteFile(path, []byte(jb.sc.init), 0o644)
			}
			gate := filepath.Join(base, "gate")
			run := func(wait, stmt string, env ...string) (string, int) {
				cmd := exec.Command(bin, "--repository", d, "--quiet", "--wait-timeout", wait, stmt)
				cmd.Dir = d
				cmd.Env = append(append(os.Environ(), "HOME="+base), env...)
				var out bytes.Buffer
				cmd.Stdout, cmd.Stderr = &out, &out
				err := cmd.Run()
				rc := 0
				if ee, ok := err.(*exec.ExitError); ok {
					rc = ee.ExitCode()
				} else if err != nil {
					rc = -1
				}
				return out.String(), rc
			}
			var outA string
			var rcA int
			done := make(chan struct{})
			go func() {
				outA, rcA = run("2", jb.sc.a, "VERIF_PAUSE_AT="+jb.point+":"+gate)
				close(done)
			}()
			reached := false
			for k := 0; k < 2000 && !reached; k++ {
				if _, err := os.Stat(gate + ".reached"); err == nil {
					reached = true
					break
				}
				select {
				case <-done:
					k = 2000
				case <-time.After(5 * time.Millisecond):
				}
			}
			during := fsListing(d)
			outB, rcB := run("0.25", jb.sc.b)
			afterB := fsListing(d)
			_ = os.WriteFile(gate, nil, 0o644)
			<-done
			b, rerr := os.ReadFile(path)
			final := string(b)
			rep := map[string]interface{}{"scenario": jb.sc.name, "A": jb.sc.a, "B": jb.sc.b, "A_held_at": jb.point, "held": reached,
				"directory_while_A_is_held": during, "directory_after_B": afterB, "A_exit_code": rcA, "A_output": outA, "B_exit_code": rcB, "B_output": outB,
				"table_at_the_end": final, "table_exists_at_the_end": rerr == nil}
			var laws []string
			if rcB == 0 && (rerr != nil || !strings.Contains(final, jb.sc.bMark)) {
				laws = append(laws, "release_lost_others_commit")
			}
			if jb.sc.aCommits && rcA == 0 && (rerr != nil || !strings.Contains(final, jb.sc.aMark)) {
				laws = append(laws, "release_lost_own_commit")
			}
			if !jb.sc.aCommits && jb.sc.init != "" && strings.Contains(final, "A") {
				laws = append(laws, "rolled_back_change_visible")
			}
			if left := controlFiles(d); 0 < len(left) {
				rep["control_files_left"] = left
				laws = append(laws, "control_files_left")
			}
			results[i] = result{laws, rep, fmt.Sprintf("pausedrelease:%s:%s:%v:%v:%v", jb.sc.name, jb.point, reached, rcA == 0, rcB == 0)}
		}(i, jb)
	}
	wg.Wait()
	for _, r := range results {
		for _, l := range r.laws {
			o.Law(l, r.rep)
		}
		o.Eval()
		o.NonTrivial(r.sig)
		o.Count("paused_release")
	}
}

// pausedCommit: "…holds a table for update from its first data-changing or FOR UPDATE statement until its transaction
// ends".  P1 takes table a for update WITHOUT changing it (SELECT … FOR UPDATE, DML that matches no record) and changes
// other tables; it is traced once (VERIF_TRACE) and then held (VERIF_PAUSE_AT) at every point it passes during COMMIT
// (tx.commit.* of Transaction.Commit, commit.* of Handler.commit) in turn, while P2 tries to change a with a waiting
// time of 0.5 s.  Law table_released_before_transaction_end: while P1 is inside COMMIT, P2 must fail with the lock
// timeout and a.csv stays as it was; P1 then commits its own changes.
func pausedCommit(o *hc.Out, bin, scratch string) {
	type scen struct{ name, p1 string }
	scens := []scen{
		{"for_update_then_update", "SELECT v FROM a FOR UPDATE; UPDATE b SET v = 'B1';"},
		{"for_update_then_update_commit", "SELECT v FROM a FOR UPDATE; UPDATE b SET v = 'B1'; COMMIT;"},
		{"dml_without_match", "UPDATE a SET v = 'X' WHERE id = 999; DELETE FROM a WHERE id = 998; UPDATE b SET v = 'B1'; COMMIT;"},
		{"three_tables", "SELECT v FROM a FOR UPDATE; UPDATE b SET v = 'B1'; INSERT INTO c VALUES (2, 'C1'); COMMIT;"},
		{"created_and_updated", "SELECT v FROM a FOR UPDATE; CREATE TABLE `n.csv` (x); INSERT INTO `n.csv` VALUES (1); UPDATE b SET v = 'B1'; COMMIT;"},
	}
	const initial = "id,v\n1,10\n"
	setup := func(d string) {
		_ = os.RemoveAll(d)
		_ = os.MkdirAll(filepath.Join(d, "repo"), 0o755)
		for _, t := range []string{"a.csv", "b.csv", "c.csv"} {
			_ = os.WriteFile(filepath.Join(d, "repo", t), []byte(initial), 0o644)
		}
	}
	type job struct {
		sc    scen
		point string
	}
	var jobs []job
	for i, sc := range scens {
		d := filepath.Join(scratch, fmt.Sprintf("c09x-trace-%d", i))
		setup(d)
		cmd := exec.Command(bin, "--repository", filepath.Join(d, "repo"), "--quiet", "--wait-timeout", "1", sc.p1)
		cmd.Dir = filepath.Join(d, "repo")
		cmd.Env = append(os.Environ(), "HOME="+d, "VERIF_TRACE="+filepath.Join(d, "trace"))
		_ = cmd.Run()
		tr, _ := os.ReadFile(filepath.Join(d, "trace"))
		seen := map[string]int{}
		for _, p := range strings.Fields(string(tr)) {
			seen[p]++
			if p == "tx.commit.encoded" && 1 < seen[p] {
				break // the automatic commit at the end of a script that has already committed: the transaction is over
			}
			if strings.HasPrefix(p, "tx.commit.") || strings.HasPrefix(p, "commit.") {
				jobs = append(jobs, job{sc, fmt.Sprintf("%s#%d", p, seen[p])})
			}
		}
		_ = os.RemoveAll(d)
	}
	type result struct {
		laws []string
		rep  map[string]interface{}
		sig  string
	}
	results := make([]result, len(jobs))
	sem := make(chan struct{}, 6)
	var wg sync.WaitGroup
	for i, jb := range jobs {
		wg.Add(1)
		go func(i int, jb job) {
			defer wg.Done()
			sem <- struct{}{}
			defer func() { <-sem }()
			base := filepath.Join(scratch, fmt.Sprintf("c09x-%d", i))
			setup(base)
			d := filepath.Join(base, "repo")
			defer func() { _ = os.RemoveAll(base) }()
			gate := filepath.Join(base, "gate")
			run := func(wait, stmt string, env ...string) (string, int) {
				cmd := exec.Command(bin, "--repository", d, "--quiet", "--wait-timeout", wait, stmt)
				cmd.Dir = d
				cmd.Env = append(append(os.Environ(), "HOME="+base), env...)
				var out bytes.Buffer
				cmd.Stdout, cmd.Stderr = &out, &out
				err := cmd.Run()
				rc := 0
				if ee, ok := err.(*exec.ExitError); ok {
					rc = ee.ExitCode()
				} else if err != nil {
					rc = -1
				}
				return out.String(), rc
			}
			var out1 string
			var rc1 int
			done := make(chan struct{})
			go func() {
				out1, rc1 = run("2", jb.sc.p1, "VERIF_PAUSE_AT="+jb.point+":"+gate)
				close(done)
			}()
			reached := false
			for k := 0; k < 2000 && !reached; k++ {
				if _, err := os.Stat(gate + ".reached"); err == nil {
					reached = true
					break
				}
				select {
				case <-done:
					k = 2000
				case <-time.After(5 * time.Millisecond):
				}
			}
			during := strings.Join(controlFiles(d), " ")
			out2, rc2 := run("0.5", "UPDATE a SET v = 99; COMMIT;")
			aDuring, _ := os.ReadFile(filepath.Join(d, "a.csv"))
			_ = os.WriteFile(gate, nil, 0o644)
			<-done
			bEnd, _ := os.ReadFile(filepath.Join(d, "b.csv"))
			rep := map[string]interface{}{"scenario": jb.sc.name, "P1": jb.sc.p1, "P1_held_at": jb.point, "held": reached, "control_files_while_P1_is_held": during,
				"P2": "UPDATE a SET v = 99; COMMIT;", "P2_wait_timeout": 0.5, "P2_exit_code": rc2, "P2_output": out2, "a_csv_while_P1_is_inside_COMMIT": string(aDuring),
				"P1_exit_code": rc1, "P1_output": out1, "b_csv_at_the_end": string(bEnd)}
			var laws []string
			if reached && (rc2 == 0 || !strings.Contains(out2, "lock wait timeout") || string(aDuring) != initial) {
				laws = append(laws, "table_released_before_transaction_end")
			}
			if rc1 != 0 || !strings.Contains(string(bEnd), "B1") {
				laws = append(laws, "paused_commit_failed")
			}
			if left := controlFiles(d); 0 < len(left) {
				rep["control_files_left"] = left
				laws = append(laws, "control_files_left")
			}
			results[i] = result{laws, rep, fmt.Sprintf("pausedcommit:%s:%s:%v:%d", jb.sc.name, jb.point, reached, rc2)}
		}(i, jb)
	}
	wg.Wait()
	for _, r := range results {
		for _, l := range r.laws {
			o.Law(l, r.rep)
		}
		o.Eval()
		o.NonTrivial(r.sig)
		o.Count("paused_commit")
	}
}
