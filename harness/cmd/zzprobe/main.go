package main

import (
	"fmt"
	"os"
	"path/filepath"

	"verifharness/dml"
	"verifharness/hc"
)

func main() {
	dir, _ := os.MkdirTemp("", "probe")
	defer os.RemoveAll(dir)
	os.WriteFile(filepath.Join(dir, "f1.csv"), []byte("id,a\n0,1\n1,2\n2,3\n"), 0o644)
	pr := hc.NewProc(dir)
	defer pr.Close()
	run := func(sql string) {
		out, err := pr.Exec(sql)
		fmt.Printf("--- %s\n%s err=%v num=%d\n", sql, out, err, dml.ErrNum(err))
	}
	run("DECLARE m VIEW (id, p); INSERT INTO m VALUES (0,5),(1,6); COMMIT;")
	run("IF TRUE THEN INSERT INTO m VALUES (2,7); END IF;")
	run("VAR @w1 := 0; WHILE @w1 < 1 DO UPDATE m SET p = p + 1 WHERE id < 1; @w1 := @w1 + 1; END WHILE;")
	run("DECLARE fn1 FUNCTION () AS BEGIN DELETE FROM m WHERE id = 1; RETURN 1; END; SELECT fn1();")
	run("PREPARE s1 FROM 'REPLACE INTO m (id, p) USING (id) VALUES (0, ''9''), (8, 1)'; EXECUTE s1; DISPOSE PREPARE s1;")
	run("IF TRUE THEN IF TRUE THEN ALTER TABLE m ADD (x DEFAULT 1/(id - 2)); END IF; END IF;")
	run("DECLARE fn2 FUNCTION () AS BEGIN UPDATE m SET p = 1/(id - 2); RETURN 1; END; SELECT fn2();")
	run("PREPARE s2 FROM 'UPDATE m SET p = 1/(id - 2)'; EXECUTE s2;")
	run("VAR @w2 := 0; WHILE @w2 < 1 DO UPDATE f1 SET a = 1/(id - 2); @w2 := @w2 + 1; END WHILE;")
	run("INSERT INTO m (id, p) VALUES (11, (SELECT a FROM f1 WHERE id = 1));")
	run("INSERT INTO m (id, p) VALUES (12, (SELECT a FROM f1 WHERE id >= 1));")
	run("INSERT INTO m (id, p) VALUES (13, (SELECT a FROM f1 WHERE id = 77));")
	run("REPLACE INTO m (id, p) USING (id) SELECT id, a FROM f1 WHERE id < 2;")
	s, _, _ := dml.SnapOf(pr, "m")
	fmt.Println(s.Dump("m"), dml.Marks(pr))
}
