package main

import (
	"fmt"
	"os"
	"strings"

	"verifharness/hc"
)

func main() {
	dir, _ := os.MkdirTemp("", "probe")
	defer os.RemoveAll(dir)
	for cpu := 1; cpu <= 4; cpu++ {
		pr := hc.NewProc(dir)
		pr.SetCPU(cpu)
		pr.Exec("DECLARE m VIEW (id, p); INSERT INTO m VALUES (0,5); COMMIT;")
		out, err := pr.Exec("DECLARE fn1 FUNCTION () AS BEGIN INSERT INTO m VALUES (1, 1), (2, 2); RETURN 1; END; SELECT fn1();")
		fmt.Println("cpu", cpu, "inserted lines:", strings.Count(out, "inserted"), err)
		pr.Close()
	}
}
