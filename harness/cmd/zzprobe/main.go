package main

import (
	"fmt"
	"io"
	"os"
	"path/filepath"
	"strings"

	"verifharness/dml"
	"verifharness/hc"
)

func main() {
	dir, _ := os.MkdirTemp("", "probe")
	defer os.RemoveAll(dir)
	os.WriteFile(filepath.Join(dir, "f1.csv"), []byte("id,a\n0,1\n1,2\n2,3\n"), 0o644)
	pr := hc.NewProc(dir)
	defer pr.Close()
	fmt.Println(pr.P.Tx.Session.SetStdin(io.NopCloser(strings.NewReader("id,p,note\n0,5,x\n1,6,y\n2,7,z\n"))))
	run := func(sql string) {
		out, err := pr.Exec(sql)
		fmt.Printf("--- %s\n%s err=%v num=%d marks=%s\n", sql, strings.TrimSpace(out), err, dml.ErrNum(err), dml.Marks(pr))
		pr.Exec("COMMIT;")
	}
	run("UPDATE stdin, f1 SET stdin.p = f1.a, f1.a = stdin.p FROM stdin JOIN f1 ON stdin.id = f1.id WHERE TRUE;")
	run("DELETE stdin FROM stdin, f1 WHERE stdin.id = f1.id AND f1.id = 0;")
	run("REPLACE INTO stdin (id, p) USING (id) VALUES (1, 100), (9, 9);")
	run("ALTER TABLE stdin ADD (x DEFAULT p * 2) AFTER id;")
	run("ALTER TABLE stdin RENAME x TO y;")
	run("ALTER TABLE stdin DROP note;")
	run("IF TRUE THEN INSERT INTO stdin (id) SELECT id + 50 FROM stdin; END IF;")
	run("UPDATE stdin SET p = 1 / (id - 1);")
	run("INSERT INTO f1 (id, a) SELECT id, p FROM stdin WHERE id > 5;")
	run("CREATE TABLE `n1.csv` (id, x) AS SELECT id, p FROM stdin;")
	s, _, err := dml.SnapOf(pr, "stdin")
	fmt.Println(s.Dump("stdin"), err)
	s, _, err = dml.SnapOf(pr, "f1")
	fmt.Println(s.Dump("f1"), err)
}
