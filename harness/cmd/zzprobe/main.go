package main

import (
	"fmt"
	"os"
	"path/filepath"
	"strings"

	"verifharness/dml"
	"verifharness/hc"
)

func main() {
	dir, _ := os.MkdirTemp("", "probe")
	defer os.RemoveAll(dir)
	os.WriteFile(filepath.Join(dir, "f1.csv"), []byte("id,a\n0,1\n"), 0o644)
	os.WriteFile(filepath.Join(dir, "f2.csv"), []byte("id,e\n0,1\n1,2\n"), 0o644)
	pr := hc.NewProc(dir)
	defer pr.Close()
	ls := func() string {
		es, _ := os.ReadDir(dir)
		var b []string
		for _, e := range es {
			b = append(b, e.Name())
		}
		return strings.Join(b, " ")
	}
	run := func(sql string) {
		out, err := pr.Exec(sql)
		o := strings.TrimSpace(out)
		if len(o) > 100 {
			o = o[:100]
		}
		fmt.Printf("--- %s\n   %s | err=%v num=%d marks=%s files=%s\n", sql, strings.ReplaceAll(o, "\n", " / "), err, dml.ErrNum(err), dml.Marks(pr), ls())
	}
	run("DECLARE m VIEW (id, p); INSERT INTO m VALUES (0,5),(1,6); COMMIT;")
	run("VAR @vkeep := 7; DECLARE vkeepfn FUNCTION (@n) AS BEGIN RETURN @n + 1; END; DECLARE vcur CURSOR FOR SELECT id FROM m; OPEN vcur;")
	run("SELECT @vkeep, vkeepfn(2), CURSOR vcur IS OPEN, CURSOR vcur COUNT FROM DUAL;")
	run("DECLARE fa FUNCTION (@n) AS BEGIN CREATE TABLE `tq1.csv` (a, b, a); RETURN @n; END; DECLARE fb FUNCTION (@n) AS BEGIN INSERT INTO f2 VALUES (9, 9); RETURN @n; END; DECLARE fc FUNCTION (@n) AS BEGIN CREATE TABLE `tq2.csv` (a, b) AS SELECT 1, 2 FROM nosuch; RETURN @n; END; DECLARE fd FUNCTION (@n) AS BEGIN DECLARE zz VIEW (x); INSERT INTO zz VALUES (1); RETURN @n / 0; END; DECLARE fe FUNCTION (@n) AS BEGIN CREATE TABLE `tq3.csv` (a, b); RETURN @n; END;")
	run("INSERT INTO f1 VALUES (fa(3), 1);")
	run("UPDATE f1 SET a = fb(3) WHERE TRUE;")
	run("DELETE FROM m WHERE fc(id) = 0;")
	run("ALTER TABLE m ADD (x DEFAULT fd(id));")
	run("REPLACE INTO m (id, p) USING (id) VALUES (fb(0), 1);")
	run("INSERT INTO m VALUES (fe(3), 1);")
	for _, c := range []string{
		"SELECT id + 10, e FROM nosuch_zz", "SELECT id + 10, e FROM f2 WHERE 1 / (id - id) = 1", "SELECT id + 10, e FROM f2 GROUP BY id, e, 1 / (id - id)",
		"SELECT id + 10, e FROM f2 GROUP BY id, e HAVING 1 / (id - id) = 1", "SELECT id + 10, 1 / (id - id) FROM f2", "SELECT id + 10, e FROM f2 ORDER BY 1 / (id - id)",
		"SELECT id + 10, e FROM f2 LIMIT 'x'", "SELECT id + 10, e FROM f2 LIMIT 1 OFFSET 'two'", "SELECT id + 10, e FROM f2 OFFSET @nosuchvar", "SELECT id + 10, e FROM f2 UNION SELECT 1, 2 FROM nosuch_zz",
		"WITH w AS (SELECT 1 AS x FROM nosuch_zz) SELECT id + 10, e FROM f2 WHERE id IN (SELECT x FROM w)",
	} {
		if strings.HasPrefix(c, "WITH") {
			i := strings.Index(c, ") SELECT")
			run(c[:i+1] + " INSERT INTO m (id, p) " + c[i+2:] + ";")
		} else {
			run("INSERT INTO m (id, p) " + c + ";")
		}
	}
	run("SELECT @vkeep, vkeepfn(2), CURSOR vcur IS OPEN, CURSOR vcur COUNT FROM DUAL;")
	s, _, err := dml.SnapOf(pr, "m")
	fmt.Println(s.Dump("m"), err)
}
