package main

import (
	"fmt"
	"os"
	"path/filepath"
	"strings"
	"time"

	"verifharness/dml"
	"verifharness/hc"
)

func main() {
	dir, _ := os.MkdirTemp("", "probe")
	defer os.RemoveAll(dir)
	os.WriteFile(filepath.Join(dir, "t1.csv"), []byte("id,a\n0,1\n1,2\n2,3\n"), 0o644)
	for _, wt := range []time.Duration{10 * time.Second, 500 * time.Millisecond} {
		pr := hc.NewProc(dir)
		pr.P.Tx.WaitTimeout = wt
		pr.SetCPU(3)
		dml.SnapOf(pr, "t1")
		out, err := pr.Exec("DECLARE fn1 FUNCTION () AS BEGIN INSERT INTO t1 (id, a) VALUES (7, 1), (8, 2); RETURN 1; END; SELECT fn1();")
		fmt.Println(wt, "inserted lines:", strings.Count(out, "inserted"), err)
		out, err = pr.Exec("DECLARE fn2 FUNCTION () AS BEGIN INSERT INTO t1 (id, a) VALUES (7, 1), (8, 2); RETURN 1; END; SELECT fn2();")
		fmt.Println(wt, "inserted lines:", strings.Count(out, "inserted"), err)
		pr.Close()
	}
}
