package main

// Datetimes written as text: the model's own time.Time.Format(time.RFC3339Nano) (lean/Csvq/Model/FormatTime.lean)
// against what csvq prints for a datetime — Datetime.Format(RFC3339Nano), the encoders' cell text
// (ConvertFieldContents), STRING(datetime), Datetime.String() inside quotes — and, in the other direction,
// value.StrToTime of that text (op c06.tback: the model's StrToTime of the model's text), so that model and
// implementation agree also where the text does NOT read back (years outside 0..9999, zone offsets with seconds).
// Laws on the implementation itself: inside the range the theorems state, the text reads back as the same instant
// under every session zone.

import (
	"fmt"
	"strings"
	"time"

	"github.com/mithrandie/csvq/lib/option"
	"github.com/mithrandie/csvq/lib/parser"
	"github.com/mithrandie/csvq/lib/query"
	"github.com/mithrandie/csvq/lib/value"

	"verifharness/hc"
)

func timeFormats(g *hc.Gen, o *hc.Out, n int) {
	var sessions []*time.Location
	sessions = append(sessions, time.UTC, time.FixedZone("", 9*3600))
	var la *time.Location
	for _, zone := range []string{"America/Los_Angeles", "Asia/Kolkata", "Asia/Kathmandu", "Australia/Lord_Howe"} {
		if loc, err := time.LoadLocation(zone); err == nil {
			sessions = append(sessions, loc)
			if zone == "America/Los_Angeles" {
				la = loc
			}
		} else {
			o.Count("zone_unavailable:" + zone)
		}
	}
	seen := map[string]bool{}
	emit := func(cls string, t time.Time) {
		_, off := t.Zone()
		key := fmt.Sprintf("%d %d %d", t.Unix(), t.Nanosecond(), off)
		if seen[key] {
			return
		}
		seen[key] = true
		s := t.Format(time.RFC3339Nano)
		dt := value.NewDatetime(t)
		o.Case("c06.tfmt "+key, hc.Hex(s))
		o.Count("tfmt:" + cls)
		// every place csvq prints a datetime uses this text
		if dt.Format(time.RFC3339Nano) != s || dt.String() != option.QuoteString(s) {
			o.Law("datetime_string_is_rfc3339nano", []string{key, s, dt.String()})
		}
		if cell, _, _ := query.ConvertFieldContents(dt, false, false); cell != s {
			o.Law("datetime_cell_is_rfc3339nano", []string{key, s, cell})
		}
		if r, err := query.String(parser.Function{Name: "string"}, []value.Primary{dt}, nil); err != nil || r.(*value.String).Raw() != s {
			o.Law("string_of_datetime_is_rfc3339nano", []string{key, s})
		}
		// the text read again (session zone UTC, as the model's StrToTime)
		back := "-"
		if t2, ok := value.StrToTime(s, nil, time.UTC); ok {
			back = hc.EncTime(t2)
		}
		o.Case("c06.tback "+key, back)
		inRange := t.Year() >= 0 && t.Year() <= 9999 && off%60 == 0 && off > -90000 && off < 90000
		if inRange {
			for _, loc := range sessions {
				t2, ok := value.StrToTime(s, nil, loc)
				if !ok || !t2.Equal(t) {
					o.Law("datetime_text_reads_back", []string{key, s, loc.String()})
				}
				// and the zone the reading carries prints the same text again
				if ok && t2.Format(time.RFC3339Nano) != s {
					o.Law("datetime_text_stable", []string{key, s, t2.Format(time.RFC3339Nano)})
				}
			}
			o.Eval()
		} else {
			o.Count("tfmt_outside_range:" + cls)
		}
		o.NonTrivial(fmt.Sprintf("tfmt:%s:%d:%v:%v:%s", cls, len(s), off == 0, off < 0, back[:1]))
	}
	zones := []*time.Location{time.UTC, time.FixedZone("", 9*3600), time.FixedZone("", -8*3600), time.FixedZone("", 5*3600+1800),
		time.FixedZone("", 5*3600+2700), time.FixedZone("", -(3*3600 + 1800)), time.FixedZone("", 14*3600), time.FixedZone("", -12*3600),
		time.FixedZone("", 60), time.FixedZone("", -60), time.FixedZone("", 23*3600+59*60)}
	// offsets that are not whole minutes (local mean times), and very large ones: the text drops / cannot hold them
	odd := []*time.Location{time.FixedZone("", -(7*3600 + 52*60 + 58)), time.FixedZone("", 30), time.FixedZone("", -30), time.FixedZone("", 59),
		time.FixedZone("", 3600+1), time.FixedZone("", 25*3600), time.FixedZone("", -100*3600), time.FixedZone("", 24*3600)}
	if la != nil {
		zones = append(zones, la)
	}
	all := func(cls string, t time.Time) {
		for _, z := range zones {
			emit(cls, t.In(z))
		}
	}
	for _, t := range []time.Time{time.Unix(0, 0), time.Unix(0, 1), time.Unix(0, -1), time.Unix(-1, 0), time.Unix(1, 0),
		time.Date(2000, 2, 29, 0, 0, 0, 0, time.UTC), time.Date(2000, 2, 29, 23, 59, 59, 999999999, time.UTC), time.Date(2000, 3, 1, 0, 0, 0, 0, time.UTC),
		time.Date(1900, 2, 28, 23, 59, 59, 0, time.UTC), time.Date(1900, 3, 1, 0, 0, 0, 0, time.UTC), time.Date(2100, 2, 28, 12, 0, 0, 0, time.UTC), time.Date(2100, 3, 1, 0, 0, 0, 0, time.UTC),
		time.Date(2400, 2, 29, 0, 0, 0, 0, time.UTC), time.Date(1600, 2, 29, 0, 0, 0, 0, time.UTC), time.Date(4, 2, 29, 0, 0, 0, 0, time.UTC), time.Date(0, 2, 29, 0, 0, 0, 0, time.UTC),
		time.Date(1, 1, 1, 0, 0, 0, 0, time.UTC), time.Date(0, 1, 1, 0, 0, 0, 0, time.UTC), time.Date(0, 12, 31, 23, 59, 59, 0, time.UTC), time.Date(-1, 12, 31, 23, 59, 59, 999999999, time.UTC),
		time.Date(9999, 12, 31, 23, 59, 59, 999999999, time.UTC), time.Date(10000, 1, 1, 0, 0, 0, 0, time.UTC), time.Date(12345, 6, 7, 8, 9, 10, 0, time.UTC), time.Date(-400, 3, 1, 0, 0, 0, 0, time.UTC),
		time.Date(1969, 12, 31, 23, 59, 59, 999999999, time.UTC), time.Date(1970, 1, 1, 0, 0, 0, 100000000, time.UTC), time.Date(2012, 2, 3, 9, 18, 15, 120000000, time.UTC),
		time.Date(2012, 2, 3, 9, 18, 15, 123456000, time.UTC), time.Date(2012, 2, 3, 9, 18, 15, 10, time.UTC), time.Date(2016, 12, 31, 23, 59, 59, 0, time.UTC), time.Date(2038, 1, 19, 3, 14, 8, 0, time.UTC),
		time.Date(1677, 9, 21, 0, 12, 43, 145224192, time.UTC), time.Date(2262, 4, 11, 23, 47, 16, 854775807, time.UTC), time.Date(1582, 10, 10, 0, 0, 0, 0, time.UTC), time.Date(1752, 9, 5, 0, 0, 0, 0, time.UTC)} {
		all("named", t)
		for _, z := range odd {
			emit("oddzone", t.In(z))
		}
	}
	// every year boundary and 28 Feb / 1 Mar of the centuries
	for y := -5; y <= 10005; y++ {
		if y > 5 && y < 9995 && y%100 > 1 && y%100 < 99 && y%97 != 0 {
			continue
		}
		for _, t := range []time.Time{time.Date(y, 1, 1, 0, 0, 0, 0, time.UTC), time.Date(y, 12, 31, 23, 59, 59, 999999999, time.UTC),
			time.Date(y, 2, 28, 23, 59, 59, 0, time.UTC), time.Date(y, 3, 1, 0, 0, 0, 0, time.UTC)} {
			emit("yearedge", t)
			emit("yearedge", t.In(zones[1+g.Intn(len(zones)-1)]))
		}
	}
	// the last / first day of every month of a leap and a common year
	for _, y := range []int{2023, 2024} {
		for m := 1; m <= 12; m++ {
			all("monthedge", time.Date(y, time.Month(m), 1, 0, 0, 0, 0, time.UTC))
			all("monthedge", time.Date(y, time.Month(m), 1, 0, 0, 0, 0, time.UTC).Add(-time.Nanosecond))
		}
	}
	if la != nil {
		// daylight saving transitions of the local zone: the hour that does not exist, the hour that exists twice,
		// and the local mean time before 1883 (offset -7:52:58)
		for _, t := range []time.Time{time.Date(2021, 3, 14, 9, 59, 59, 0, time.UTC), time.Date(2021, 3, 14, 10, 0, 0, 0, time.UTC), time.Date(2021, 11, 7, 8, 30, 0, 0, time.UTC),
			time.Date(2021, 11, 7, 9, 30, 0, 0, time.UTC), time.Date(2021, 11, 7, 9, 0, 0, 0, time.UTC), time.Date(1880, 1, 1, 0, 0, 0, 0, time.UTC), time.Date(1883, 11, 18, 20, 0, 0, 0, time.UTC)} {
			emit("dst", t.In(la))
			emit("dst", t.Add(-time.Second).In(la))
		}
		for y := 1960; y <= 2030; y += 3 {
			for _, m := range []time.Month{3, 4, 10, 11} {
				for d := 1; d <= 14; d += 6 {
					emit("dst", time.Date(y, m, d, 10, 0, 0, 0, time.UTC).In(la))
				}
			}
		}
	}
	for k := 0; k < n; k++ {
		var t time.Time
		switch k % 6 {
		case 0:
			t = g.Time() // the datetimes the rest of the stream draws
		case 1:
			t = time.Unix(g.Int63n(8e9)-4e9, g.Int63n(1e9))
		case 2:
			// the whole printable range, years 0..9999, and a little beyond
			t = time.Unix(g.Int63n(320000000000)-62200000000, int64(g.Intn(3))*g.Int63n(1e9)/int64(1+g.Intn(1000)))
		case 3:
			// fractions with trailing zeros
			t = time.Unix(g.Int63n(4e9), int64(g.Intn(1000))*int64([]int{1, 10, 1000, 1000000, 100000000}[g.Intn(5)]))
		case 4:
			t = time.Date(g.Intn(10020)-10, time.Month(1+g.Intn(12)), 1+g.Intn(31), g.Intn(24), g.Intn(60), g.Intn(60), 0, time.UTC)
		default:
			t = time.Unix(g.Int63()>>uint(20+g.Intn(40)), 0)
			if g.Intn(2) == 0 {
				t = time.Unix(-t.Unix(), 0)
			}
		}
		if g.Intn(40) == 0 {
			emit("random-oddzone", t.In(odd[g.Intn(len(odd))]))
		} else {
			emit("random", t.In(zones[g.Intn(len(zones))]))
		}
	}
}

// datetimeFormats: value.ConvertDatetimeFormat (csvq's % verbs → a Go layout) against the model's convertFormat, on
// ASCII format texts: every verb, unknown verbs, %%, a trailing %, and literal text — including literal text that
// happens to spell one of Go's reference items.  Such text is NOT protected by the conversion: DATETIME_FORMAT prints
// the datetime's field in its place (counted here as `datetime_format_literal_rewritten`, reported as a finding).
func datetimeFormats(g *hc.Gen, o *hc.Out, n int) {
	pieces := []string{"%a", "%b", "%c", "%d", "%E", "%e", "%F", "%f", "%H", "%h", "%i", "%l", "%M", "%m", "%N", "%n", "%p", "%r", "%s", "%T", "%W", "%Y", "%y", "%Z", "%z",
		"%%", "%q", "%1", "% ", "%", "-", "/", ":", " ", "T", ".", ",", "at ", "o'clock", "2006", "15", "Jan", "PM", "Monday", "MST", "01", "1", "2", "3", "05", "_2", "Z07:00", "x", "%%Y"}
	ref := time.Date(2012, 2, 3, 9, 18, 15, 123456789, time.UTC)
	emit := func(f string) {
		o.Case("c06.dfmt x"+hc.Hex(f), hc.Hex(value.ConvertDatetimeFormat(f)))
		o.Count("dfmt")
		if !strings.Contains(f, "%") {
			o.NonTrivial("dfmt:literal:" + f)
			if ref.Format(value.ConvertDatetimeFormat(f)) != f {
				o.Count("datetime_format_literal_rewritten")
			}
		}
	}
	for _, p := range pieces {
		emit(p)
	}
	for k := 0; k < n/4; k++ {
		var sb strings.Builder
		for j := 1 + g.Intn(6); j > 0; j-- {
			sb.WriteString(pieces[g.Intn(len(pieces))])
		}
		emit(sb.String())
		o.NonTrivial(fmt.Sprintf("dfmt:%d:%v", len(sb.String())/6, strings.HasSuffix(sb.String(), "%")))
	}
}
