package main

// Texts read as numbers: the model's own option.TrimSpace / strconv.ParseInt / strconv.ParseFloat / ParseBool
// (lean/Csvq/Model/ParseFloat.lean) against value.ToIntegerStrictly, ToFloat, ToInteger, ToBoolean and
// String.Ternary on the same bytes — decimal and hexadecimal spellings, exponents, underscores, the special
// values, rounding boundaries, overflow and underflow, ASCII and Unicode spaces around them, and mutations.

import (
	"fmt"
	"strings"

	"github.com/mithrandie/csvq/lib/value"

	"verifharness/hc"
)

var floatBoundaryTexts = []string{
	"1.7976931348623157e308", "1.7976931348623158e308", "1.797693134862315807e308", "1.797693134862315808e308", "1.8e308", "2e308",
	"179769313486231580793728971405303415079934132710037826936173778980444968292764750946649017977587207096330286416692887910946555547851940402630657488671505820681908902000708383676273854845817711531764475730270069855571366959622842914819860834936475292719074168444365510704342711559699508093042880177904174497791.9999999999",
	"179769313486231580793728971405303415079934132710037826936173778980444968292764750946649017977587207096330286416692887910946555547851940402630657488671505820681908902000708383676273854845817711531764475730270069855571366959622842914819860834936475292719074168444365510704342711559699508093042880177904174497792",
	"4.9e-324", "5e-324", "2.4703282292062327e-324", "2.4703282292062328e-324", "2.47032822920623272e-324", "2.4703282292062327208051355972538847e-324", "2.4703282292062327208051355972539e-324",
	"2.2250738585072011e-308", "2.2250738585072012e-308", "2.2250738585072014e-308", "2.2250738585072009e-308",
	"9007199254740993", "9007199254740992.5", "9007199254740993.0000000000000000000000000000000000000000001", "9007199254740992.9999999999999999999",
	"9007199254740994.5", "9007199254740995", "18014398509481985", "18014398509481986", "9223372036854775807", "9223372036854775808", "-9223372036854775808", "-9223372036854775809",
	"9223372036854775807.5", "18446744073709551615", "18446744073709551616", "1e19", "1e18", "123456789012345678901234567890",
	"0.1", "0.2", "0.3", "1e23", "8.5e22", "1e22", "1e-5", "0.000001", "1e-10000", "1e10000", "1e99999", "1e100000", "1e-100000", "0e100000", "0e-100000", "-0e5", "-0", "-0.0", "+0",
	"0.00000000000000000000000000000000000000000000000001e50", "100000000000000000000000000000000000000000000000000e-50",
	"0x1p-1074", "0x1p-1075", "0x1.8p-1075", "0x1.0000000000001p-1075", "0x1p-1076", "0x1p1023", "0x1p1024", "0x1.fffffffffffffp1023", "0x1.fffffffffffff8p1023", "0x1.fffffffffffff7ffffp1023",
	"0x1.fffffffffffff7p1023", "0x.8p1", "0x1.p0", "0x1p", "0x", "0xp1", "0x1", "0x1.8", "0X1P4", "0x1p+4", "0x1p-4", "0xAbC.dEfp0", "0x10p0", "0x0p0", "-0x0p0", "0x0.0p99999", "0x1p99999", "0x1p-99999",
	"0x123456789abcdef01p0", "0x123456789abcdef08p0", "0x123456789abcdef0800000000000000000001p0", "0x1.00000000000008p0", "0x1.000000000000080000000001p0", "0x1.00000000000018p0",
	"1_000", "1__0", "_1", "1_", "1_.5", "1._5", "1e_5", "1e5_", "1e5_0", "0x_1p0", "0_x1p0", "1e+_5", "1_0.0_1e1_0", "0x1_0p1_0", "0x1p_1", "1_e5", "0_1", "0b1", "0o7", "0b1_0", "+_1",
	".", ".e1", ".5", "5.", "5.e1", "+.5e-1", "1e", "1e+", "1e-", "1.2.3", "1e1.5", "1e5e5", "e5", "+", "-", "+-1", "--1", "1-", "1+1", "1 2", "1,5", "1d5", "1f", "1E5", "1.5E+5", "1.5e+05",
	"inf", "Inf", "INF", "iNf", "+inf", "-inf", "infinity", "Infinity", "INFINITY", "-Infinity", "+InFiNiTy", "infinit", "infin", "infi", "in", "i", "infx", "infinityx", "inf ", " inf", "-in", "+i",
	"nan", "NaN", "NAN", "nAn", "+nan", "-nan", "nanx", "na", "n", "nan0", "nan ", "１２", "٣", "1٣", "½", "1\x00", "\x001", "",
}

var spacePool = []string{" ", "\t", "\n", "\r", "\v", "\f", "\u0085", "\u00a0", "\u1680", "\u2000", "\u2005", "\u200a", "\u2028", "\u2029", "\u202f", "\u205f", "\u3000",
	"\u200b", "\ufeff", "\u180e", "\xc2", "\x85", "\xa0", "\xe2\x80", "\x80", "\u0105", "\u2026", "\xe2\x80\x8b", "\xe1\x9a"}

func digitsText(g *hc.Gen, n int, hexd bool) string {
	var sb strings.Builder
	for k := 0; k < n; k++ {
		if hexd {
			sb.WriteByte("0123456789abcdefABCDEF"[g.Intn(22)])
		} else {
			sb.WriteByte(byte('0' + g.Intn(10)))
		}
		if g.Intn(150) == 0 {
			sb.WriteByte('_')
		}
	}
	return sb.String()
}

func floatText(g *hc.Gen) string {
	var sb strings.Builder
	sb.WriteString(g.Pick("", "", "", "+", "-", "-"))
	switch g.Intn(10) {
	case 0, 1, 2, 3:
		// decimal
		ni := []int{0, 1, 1, 1, 2, 3, 5, 9, 15, 16, 17, 19, 20, 25, 40}[g.Intn(15)]
		if g.Intn(5) == 0 {
			sb.WriteString(strings.Repeat("0", g.Intn(4)))
		}
		sb.WriteString(digitsText(g, ni, false))
		if g.Intn(2) == 0 {
			sb.WriteByte('.')
			if g.Intn(4) == 0 {
				sb.WriteString(strings.Repeat("0", g.Intn(25)))
			}
			sb.WriteString(digitsText(g, []int{0, 1, 2, 3, 8, 17, 30}[g.Intn(7)], false))
		}
		if g.Intn(2) == 0 {
			sb.WriteString(g.Pick("e", "E"))
			sb.WriteString(g.Pick("", "", "+", "-", "-"))
			sb.WriteString(g.Pick("0", "1", "2", "5", "10", "15", "16", "22", "23", "100", "300", "307", "308", "309", "310", "323", "324", "325", "400", "0005", "99999"))
		}
	case 4:
		// a double printed with 17 digits, and its neighbours in the last digits
		f := g.Float64()
		s := fmt.Sprintf("%.17g", f)
		if strings.HasPrefix(s, "-") || strings.HasPrefix(s, "+") {
			s = s[1:]
		}
		sb.WriteString(s)
	case 5:
		// halfway cases around 2^53..2^54 and below 1
		base := int64(1)<<53 + int64(g.Intn(64))
		sb.WriteString(fmt.Sprint(base))
		if g.Intn(2) == 0 {
			sb.WriteString(g.Pick(".5", ".4999999999999999999999", ".5000000000000000000001", ".50", ".49", ".51"))
		}
		if g.Intn(3) == 0 {
			sb.WriteString(g.Pick("e0", "e1", "e-1", "e3", "e-3"))
		}
	case 6, 7:
		// hexadecimal
		sb.WriteString(g.Pick("0x", "0X"))
		sb.WriteString(digitsText(g, []int{0, 1, 1, 2, 8, 13, 14, 16, 17, 20}[g.Intn(10)], true))
		if g.Intn(2) == 0 {
			sb.WriteByte('.')
			sb.WriteString(digitsText(g, []int{0, 1, 13, 14, 15, 20}[g.Intn(6)], true))
		}
		if g.Intn(8) != 0 {
			sb.WriteString(g.Pick("p", "P"))
			sb.WriteString(g.Pick("", "", "+", "-", "-"))
			sb.WriteString(g.Pick("0", "1", "4", "52", "53", "63", "64", "1000", "1022", "1023", "1024", "1074", "1075", "1076", "1100", "1126", "1127", "1130", "99999"))
		}
	default:
		return sb.String() + floatBoundaryTexts[g.Intn(len(floatBoundaryTexts))]
	}
	return sb.String()
}

func mutateText(g *hc.Gen, s string) string {
	b := []byte(s)
	switch g.Intn(4) {
	case 0:
		if len(b) > 0 {
			i := g.Intn(len(b))
			b = append(b[:i], b[i+1:]...)
		}
	case 1:
		i := g.Intn(len(b) + 1)
		ins := g.Pick("_", ".", "e", "p", "x", "0", "-", "+", " ", "a", "f", "E", "9", " ", "\x80")
		b = append(b[:i], append([]byte(ins), b[i:]...)...)
	case 2:
		if len(b) > 0 {
			b[g.Intn(len(b))] = g.Pick("_", ".", "e", "p", "x", "0", "-", "+", "a", "f", "9", "1")[0]
		}
	default:
		if len(b) > 1 {
			i, j := g.Intn(len(b)), g.Intn(len(b))
			b[i], b[j] = b[j], b[i]
		}
	}
	return string(b)
}

func floatTexts(g *hc.Gen, o *hc.Out, n int) {
	emit := func(str string) {
		sv := value.NewString(str)
		iv, fv, gv := "-", "-", "N"
		if in := value.ToIntegerStrictly(sv); !value.IsNull(in) {
			iv = fmt.Sprint(in.(*value.Integer).Raw())
		}
		f := value.ToFloat(sv)
		if !value.IsNull(f) {
			fv = hc.EncF(f.(*value.Float).Raw())
		}
		gv = hc.EncVal(value.ToInteger(sv))
		bv := hc.EncVal(value.ToBoolean(sv))
		o.Case("c06.sflt x"+hc.Hex(str), iv+" "+fv+" "+hc.EncT(sv.Ternary())+" "+gv+" "+bv)
		cls := "err"
		if fv != "-" {
			switch fv {
			case "nan", "+inf", "-inf", "-0", "0":
				cls = fv
			default:
				cls = "num"
			}
		}
		o.Count("sflt:" + cls)
		o.NonTrivial("sflt:" + cls + ":" + iv[:1] + gv[:1] + fmt.Sprint(len(str) > 20))
	}
	for _, t := range floatBoundaryTexts {
		emit(t)
		emit("-" + t)
		emit(" " + t + "\n")
	}
	for k := 0; k < n; k++ {
		s := floatText(g)
		if g.Intn(8) == 0 {
			s = mutateText(g, s)
		}
		if g.Intn(3) == 0 {
			pick := func() string {
				if g.Intn(6) == 0 {
					return spacePool[g.Intn(len(spacePool))]
				}
				return spacePool[g.Intn(8)] // ASCII spaces, NEL, NBSP: what option.TrimSpace's guard lets through
			}
			for j := g.Intn(3); j > 0; j-- {
				s = pick() + s
			}
			for j := g.Intn(3); j > 0; j-- {
				s = s + pick()
			}
		}
		emit(s)
	}
}
