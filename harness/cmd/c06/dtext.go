package main

// Texts read as datetimes: the model's own value.StrToTime (lean/Csvq/Model/ParseTime.lean — the dispatch on the
// text's shape and Go's time.Parse for every layout it tries) against value.ToDatetime on the same bytes, session
// zone UTC, no custom formats.

import (
	"fmt"
	"strings"

	"github.com/mithrandie/csvq/lib/value"

	"verifharness/hc"
)

var dateBoundaryTexts = []string{
	"2012-02-03", "2012-2-3", "2012-02-3", "2012-2-03", "2012-12-31", "2012-1-1", "0000-01-01", "9999-12-31", "2012-02-29", "2011-02-29", "1900-02-29", "2000-02-29", "2100-02-29",
	"2012-04-31", "2012-13-01", "2012-00-10", "2012-01-00", "2012-01-32", "2012-1-32", "2012-01-1", "2012-1-01", "20120203", "2012-0203", "2012-02-03 ", "2012-02-03x",
	"2012/02/03", "2012/2/3", "2012/02/3", "2012/12/31", "2012/02/30", "2012/2/3 4:05:06", "2012/02/03 04:05:06", "2012/02/03 04:05:06 +09:00", "2012/02/03 04:05:06 -0800", "2012/02/03 04:05:06 PST",
	"2012/02/03T04:05:06", "2012/02/03T04:05:06Z",
	"2012-02-03 04:05:06", "2012-02-03 4:05:06", "2012-02-03 04:5:06", "2012-02-03 04:05:6", "2012-02-03 24:00:00", "2012-02-03 23:59:59", "2012-02-03 23:60:00", "2012-02-03 23:59:60",
	"2012-02-03 04:05", "2012-02-03 04", "2012-02-03 04:05:06.", "2012-02-03 04:05:06.1", "2012-02-03 04:05:06.123456789", "2012-02-03 04:05:06.1234567891", "2012-02-03 04:05:06.999999999999",
	"2012-02-03 04:05:06,5", "2012-02-03 04:05:06.5 ", "2012-02-03 04:05:06.x", "2012-02-03  04:05:06", "2012-02-03   04:05:06", "2012-02-03 04:05:06  +09:00",
	"2012-02-03 04:05:06 Z", "2012-02-03 04:05:06 +09:00", "2012-02-03 04:05:06 -09:30", "2012-02-03 04:05:06 +24:00", "2012-02-03 04:05:06 +25:00", "2012-02-03 04:05:06 +09:60", "2012-02-03 04:05:06 +09:61",
	"2012-02-03 04:05:06 +0900", "2012-02-03 04:05:06 -0800", "2012-02-03 04:05:06 +09", "2012-02-03 04:05:06 09:00", "2012-02-03 04:05:06 *09:00", "2012-02-03 04:05:06 +9:00", "2012-02-03 04:05:06 +09:0",
	"2012-02-03 04:05:06 UTC", "2012-02-03 04:05:06 GMT", "2012-02-03 04:05:06 GMT+9", "2012-02-03 04:05:06 GMT-3", "2012-02-03 04:05:06 GMT+24", "2012-02-03 04:05:06 GMT+", "2012-02-03 04:05:06 JST", "2012-02-03 04:05:06 PST",
	"2012-02-03 04:05:06 ChST", "2012-02-03 04:05:06 MeST", "2012-02-03 04:05:06 WITA", "2012-02-03 04:05:06 AEST", "2012-02-03 04:05:06 ABCD", "2012-02-03 04:05:06 ABCDT", "2012-02-03 04:05:06 ABCDE", "2012-02-03 04:05:06 ABCDEF",
	"2012-02-03 04:05:06 AB", "2012-02-03 04:05:06 jst", "2012-02-03 04:05:06 +03", "2012-02-03 04:05:06 -11", "2012-02-03 04:05:06 +24", "2012-02-03 04:05:06 UTC+1", "2012-02-03 04:05:06 UTCx", "2012-02-03 04:05:06 JSTx",
	"2012-2-3 4:05:06", "2012-2-3 04:05:06.5", "2012-2-3 4:05:06 +09:00", "2012-2-3 4:05:06 -0800", "2012-2-3 4:05:06 JST", "2012-2-13 4:05:06", "2012-12-3 4:05:06", "2012-2-3T4:05:06", "2012-2-3T04:05:06Z",
	"2012-02-03T04:05:06", "2012-02-03T04:05:06.5", "2012-02-03T4:05:06", "2012-02-03T04:05:06Z", "2012-02-03T04:05:06.123Z", "2012-02-03T04:05:06+09:00", "2012-02-03T04:05:06-09:00", "2012-02-03T04:05:06.5-09:00",
	"2012-02-03T04:05:06z", "2012-02-03T04:05:06 Z", "2012-02-03T04:05:06+0900", "2012-02-03T04:05:06+09", "2012-02-03T04:05:06ZZ", "2012-02-03T04:05:06-ab:cd", "2012-02-03T04:05:06.-09:00", "2012-02-03t04:05:06Z",
	"2012-02-03T24:00:00Z", "2012-02-03T04:05:60Z", "2012-02-30T04:05:06Z", "2012-02-03T04:05:06,5Z", "2012-02-03T04:05Z", "2012-02-03TZ", "2012-02-03T",
	"03 Feb 12 04:05 UTC", "03 Feb 12 04:05 JST", "03 Feb 12 04:05 +0900", "03 Feb 12 04:05 -0800", "03 feb 12 04:05 UTC", "03 FEB 12 04:05 UTC", "03 Fev 12 04:05 UTC", "3 Feb 12 04:05 UTC", "03 Feb 2012 04:05 UTC",
	"03 Feb 69 04:05 UTC", "03 Feb 68 04:05 UTC", "03 Feb 00 04:05 UTC", "03 Feb -5 04:05 UTC", "03 Feb +5 04:05 UTC", "03 Feb 1x 04:05 UTC", "31 Feb 12 04:05 UTC", "29 Feb 12 04:05 UTC", "29 Feb 11 04:05 UTC",
	"03 Feb 12 4:05 UTC", "03 Feb 12 04:5 UTC", "03 Feb 12 04:05:06 UTC", "03 Feb 12 04:05", "03 Feb 12 04:05 ", "03  Feb  12  04:05  UTC", "03 Feb 12 24:05 UTC", "03 Feb 12 04:05 +09:00", "03 Feb 12 04:05 GMT+3",
	"03 Jan 12 04:05 UTC", "03 Mar 12 04:05 UTC", "03 Apr 12 04:05 UTC", "03 May 12 04:05 UTC", "03 Jun 12 04:05 UTC", "03 Jul 12 04:05 UTC", "03 Aug 12 04:05 UTC", "03 Sep 12 04:05 UTC", "03 Oct 12 04:05 UTC", "03 Nov 12 04:05 UTC", "03 Dec 12 04:05 UTC",
	"03 J\x41n 12 04:05 UTC", "03 J`n 12 04:05 UTC", "03 Jan\x0012 04:05 UTC", "1234567", "12345678", "1234-678", "12345-78", "2012-", "2012-02-", "2012--02-03", "2012-02--3", "+012-02-03", "2012-+2-03", "２０１２-02-03",
}

func dateText(g *hc.Gen) string {
	var sb strings.Builder
	// mostly valid components; each may leave its range now and then
	rng := func(lo, hi, wild int) int {
		if g.Intn(12) == 0 {
			return g.Intn(wild)
		}
		return lo + g.Intn(hi-lo+1)
	}
	sep := g.Pick("-", "-", "-", "-", "/", "/", "/", ".")
	y := g.Pick("2012", "1970", "1969", "2000", "1999", "0001", "9999", "2024", "1600", "2100", "0000", "2023", "1985", "2038", "10000", "201")
	mo := rng(1, 12, 14)
	d := rng(1, 28, 33)
	if g.Intn(6) == 0 {
		d = 28 + g.Intn(4)
	}
	if g.Intn(3) == 0 {
		fmt.Fprintf(&sb, "%s%s%d%s%d", y, sep, mo, sep, d)
	} else {
		fmt.Fprintf(&sb, "%s%s%02d%s%02d", y, sep, mo, sep, d)
	}
	if g.Intn(4) == 0 {
		return sb.String()
	}
	sb.WriteString(g.Pick(" ", " ", " ", " ", "T", "T", "T", "  ", "t", ""))
	h, mi, s := rng(0, 23, 26), rng(0, 59, 62), rng(0, 59, 62)
	switch g.Intn(5) {
	case 0:
		fmt.Fprintf(&sb, "%d:%02d:%02d", h, mi, s)
	case 1:
		fmt.Fprintf(&sb, "%02d:%d:%02d", h, mi, s)
	default:
		fmt.Fprintf(&sb, "%02d:%02d:%02d", h, mi, s)
	}
	if g.Intn(3) == 0 {
		sb.WriteString(g.Pick(".", ".", ","))
		sb.WriteString(digitsText(g, []int{0, 1, 3, 6, 9, 10, 12}[g.Intn(7)], false))
	}
	switch g.Intn(8) {
	case 0:
		sb.WriteString("Z")
	case 1:
		fmt.Fprintf(&sb, "%s%02d:%02d", g.Pick("+", "-"), rng(0, 14, 26), []int{0, 0, 30, 45, 59, 60, 61}[g.Intn(7)])
	case 2:
		fmt.Fprintf(&sb, " %s%02d:%02d", g.Pick("+", "-"), rng(0, 14, 26), []int{0, 0, 30, 45, 59, 60, 61}[g.Intn(7)])
	case 3:
		fmt.Fprintf(&sb, " %s%02d%02d", g.Pick("+", "-"), rng(0, 14, 26), []int{0, 0, 30, 45, 59, 60, 61}[g.Intn(7)])
	case 4:
		sb.WriteString(" " + g.Pick("UTC", "GMT", "JST", "PST", "CEST", "GMT+9", "GMT-11", "ChST", "WITA", "Z", "+09", "-03", "utc", "AB", "ABCDEF", "NZDT"))
	}
	return sb.String()
}

func rfc822Text(g *hc.Gen) string {
	mon := g.Pick("Jan", "Feb", "Mar", "Apr", "May", "Jun", "Jul", "Aug", "Sep", "Oct", "Nov", "Dec", "jan", "DEC", "Foo", "Sept")
	z := g.Pick("UTC", "JST", "MST", "GMT", "GMT+1", "+0900", "-0330", "+09:00", "Z", "CEST", "")
	return fmt.Sprintf("%02d %s %02d %02d:%02d %s", 1+g.Intn(29), mon, g.Intn(100), g.Intn(24), g.Intn(60), z)
}

func dateTexts(g *hc.Gen, o *hc.Out, n int) {
	emit := func(str string) {
		sv := value.NewString(str)
		got := "-"
		if d := value.ToDatetime(sv, nil, hc.UTC); !value.IsNull(d) {
			got = hc.EncTime(d.(*value.Datetime).Raw())
		}
		o.Case("c06.sdt x"+hc.Hex(str), got)
		cls := "err"
		if got != "-" {
			cls = "ok"
		}
		shape := "other"
		t := hc.TrimSpaceRef(str)
		switch {
		case len(t) >= 8 && t[4] == '-' && strings.ContainsAny(t, "T"):
			shape = "iso"
		case len(t) >= 8 && t[4] == '-':
			shape = "dash"
		case len(t) >= 8 && t[4] == '/':
			shape = "slash"
		case len(t) >= 8 && t[2] == ' ':
			shape = "rfc822"
		}
		o.Count("sdt:" + shape + ":" + cls)
		o.NonTrivial(fmt.Sprintf("sdt:%s:%s:%d", shape, cls, len(t)))
	}
	for _, t := range dateBoundaryTexts {
		emit(t)
		emit(" " + t + "\t")
	}
	for k := 0; k < n; k++ {
		var s string
		if g.Intn(5) == 0 {
			s = rfc822Text(g)
		} else {
			s = dateText(g)
		}
		if g.Intn(8) == 0 {
			s = mutateText(g, s)
		}
		if g.Intn(6) == 0 {
			s = spacePool[g.Intn(8)] + s + spacePool[g.Intn(8)]
		}
		emit(s)
	}
}
