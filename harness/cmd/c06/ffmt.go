package main

// Floats written as text: the model's own strconv.FormatFloat(x, fmt, -1, 64) for fmt = 'f', 'g', 'e'
// (lean/Csvq/Model/FormatFloat.lean) against value.Float64ToStr(f, false), value.Float64ToStr(f, true) and
// strconv.FormatFloat(f, 'e', -1, 64) (ENOTATION) on the same binary64 value — special values, subnormals,
// every power of two and of ten with their neighbours, integers around 2^53, decimal fractions, values with
// 15 / 16 / 17 significant digits, the thresholds of %g, random bit patterns.

import (
	"fmt"
	"math"
	"strconv"
	"strings"

	"github.com/mithrandie/csvq/lib/parser"
	"github.com/mithrandie/csvq/lib/query"
	"github.com/mithrandie/csvq/lib/value"

	"verifharness/hc"
)

func floatFormats(g *hc.Gen, o *hc.Out, n int) {
	seen := map[uint64]bool{}
	emit := func(cls string, f float64) {
		bits := math.Float64bits(f)
		if math.IsNaN(f) {
			bits = 0x7ff8000000000001
		}
		if seen[bits] {
			return
		}
		seen[bits] = true
		sf, sg, se := value.Float64ToStr(f, false), value.Float64ToStr(f, true), strconv.FormatFloat(f, 'e', -1, 64)
		o.Case("c06.ffmt "+hc.EncF(f), hc.Hex(sf)+" "+hc.Hex(sg)+" "+hc.Hex(se))
		o.Count("ffmt:" + cls)
		// every place csvq prints a float goes through the same function
		fl := value.NewFloat(f)
		if fl.String() != sf || value.ToString(fl).(*value.String).Raw() != sf {
			o.Law("float_string_is_Float64ToStr", []string{hc.EncF(f), sf, fl.String()})
		}
		if r, err := query.String(parser.Function{Name: "string"}, []value.Primary{fl}, nil); err != nil || r.(*value.String).Raw() != sf {
			o.Law("string_of_float_is_Float64ToStr", []string{hc.EncF(f), sf})
		}
		if r, err := query.Enotation(parser.Function{Name: "enotation"}, []value.Primary{fl}, nil); err != nil || r.(*value.String).Raw() != se {
			o.Law("enotation_is_FormatFloat_e", []string{hc.EncF(f), se})
		}
		// laws on the implementation's own texts (the statements of Props/C06Fmt.lean, on this value)
		for _, s := range []string{sf, sg, se} {
			back, err := strconv.ParseFloat(s, 64)
			if err != nil || (math.Float64bits(back) != math.Float64bits(f) && !(math.IsNaN(back) && math.IsNaN(f))) {
				o.Law("ffmt_roundtrip", []string{hc.EncF(f), s})
			}
			if strings.ContainsAny(s, ":\\") {
				o.Law("ffmt_clean", []string{hc.EncF(f), s})
			}
		}
		if f == math.Trunc(f) && math.Abs(f) < 1<<53 && !(f == 0 && math.Signbit(f)) {
			if sf != strconv.FormatInt(int64(f), 10) {
				o.Law("ffmt_int_agrees", []string{hc.EncF(f), sf})
			}
		}
		nd := 0
		if i := strings.IndexByte(se, 'e'); i > 0 {
			nd = len(strings.NewReplacer("-", "", ".", "").Replace(se[:i]))
		}
		o.NonTrivial(fmt.Sprintf("ffmt:%s:%d:%v:%v", cls, nd, strings.Contains(sg, "e"), strings.Contains(sf, ".")))
	}
	both := func(cls string, f float64) {
		emit(cls, f)
		if cls == "special" || cls == "extreme" || cls == "named" || g.Intn(4) == 0 {
			emit(cls, -f)
		}
	}
	around := func(cls string, f float64) {
		both(cls, f)
		both(cls, math.Nextafter(f, math.Inf(1)))
		both(cls, math.Nextafter(f, math.Inf(-1)))
	}

	for _, f := range []float64{0, math.NaN(), math.Inf(1)} {
		both("special", f)
	}
	for _, f := range []float64{math.SmallestNonzeroFloat64, 2 * math.SmallestNonzeroFloat64, 3 * math.SmallestNonzeroFloat64,
		math.Float64frombits(0x000fffffffffffff), math.Float64frombits(0x0010000000000000), math.Float64frombits(0x0010000000000001),
		math.Float64frombits(0x001fffffffffffff), math.Float64frombits(0x0020000000000000),
		math.MaxFloat64, math.Float64frombits(0x7feffffffffffffe), math.Float64frombits(0x7fe0000000000000)} {
		both("extreme", f)
	}
	// every power of two with its two neighbours (the lower half-gap is narrower there)
	for k := -1074; k <= 1023; k++ {
		around("pow2", math.Ldexp(1, k))
	}
	// every power of ten the type reaches, with its neighbours
	for k := -324; k <= 308; k++ {
		f, err := strconv.ParseFloat(fmt.Sprintf("1e%d", k), 64)
		if err == nil {
			around("pow10", f)
			around("pow10", 5*f)
			both("pow10", 9.5*f)
		}
	}
	for _, f := range []float64{1 << 53, 1<<53 - 1, 1<<53 + 2, 1<<53 + 4, 1 << 54, 1<<54 + 4, 1<<54 + 8, 1<<54 + 12, 1 << 63, 1 << 64,
		9007199254740993, 18014398509481990, 123456789012345680000, 1e21, 1e22, 1e23, 8.5e22, 9.5e22, 5e-324, 1.7976931348623157e308,
		0.1, 0.2, 0.3, 0.1 + 0.2, 1.0 / 3, 2.0 / 3, 1.0 / 7, 1.1, 2.675, 1.005, 0.7, 4.35, 100.0 / 3, math.Pi, math.E, math.Sqrt2, 123456.789,
		// the thresholds of %g (exponent < -4 or >= 6) and of the scientific notation elsewhere
		1e-4, 1e-5, 0.00012, 0.000099999, 99999, 100000, 999999, 999999.9, 1e6, 1000001, 1234567, 1e-7, 1e20, 1e21, 12345678901234567890, 2.5e-5,
		4.9406564584124654e-324, 2.2250738585072014e-308, 2.225073858507201e-308, 1.7976931348623155e308, 8.98846567431158e307,
		// shortest digits that lie on the closed boundary of an even mantissa
		9007199254740992, 9007199254740994, 18014398509481984, 5e22, 1.5e23, 2e23, 4.5e15, 4503599627370496.5, 4503599627370497.5} {
		around("named", f)
	}
	for i := 1; i <= 40; i++ {
		for j := 1; j <= 12; j++ {
			both("ratio", float64(i)/float64(j))
		}
	}
	for k := 0; k < n; k++ {
		switch k % 8 {
		case 0, 1, 2:
			both("bits", math.Float64frombits(g.Uint64()&^(1<<63)))
		case 3:
			// integers: small, with trailing zeros, around 2^53 and beyond
			var v int64
			switch g.Intn(4) {
			case 0:
				v = int64(g.Intn(100000))
			case 1:
				v = g.Int63n(1 << 53)
			case 2:
				v = int64(g.Intn(1000)) * int64(math.Pow10(g.Intn(16)))
			default:
				v = g.Int63()
			}
			both("integer", float64(v))
		case 4:
			// 15, 16, 17 (and fewer) significant digits at a random exponent
			nd := []int{1, 2, 3, 5, 8, 14, 15, 15, 16, 16, 17, 17}[g.Intn(12)]
			var sb strings.Builder
			sb.WriteByte(byte('1' + g.Intn(9)))
			for i := 1; i < nd; i++ {
				sb.WriteByte(byte('0' + g.Intn(10)))
			}
			e := g.Intn(640) - 330
			if g.Intn(2) == 0 {
				e = g.Intn(40) - 25
			}
			if f, err := strconv.ParseFloat(sb.String()+"e"+strconv.Itoa(e), 64); err == nil {
				both("digits", f)
			}
		case 5:
			// decimal fractions with few digits
			both("decimal", float64(g.Intn(2000001)-1000000)/math.Pow10(g.Intn(9)))
		case 6:
			// the floats the rest of the stream draws
			emit("pool", g.Float64())
		default:
			// subnormals and the lowest binades
			both("subnormal", math.Float64frombits(g.Uint64()>>uint(11+g.Intn(53))))
		}
	}
}
