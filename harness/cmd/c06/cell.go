package main

// A value written into a cell and read again: the text query.ConvertFieldContents gives every encoder (plain,
// scientific notation, text table), and what the real comparison ladder and the real key serialisation make of
// the ORIGINAL value against a String holding that text — op c06.cell, answered by the model from
// Model/CellText.lean (cellText, profileOfText) with the model's own conversions in all four directions.
// End to end on the implementation: a table of the pool's values is written to a CSV file by the real encoder
// (INSERT … COMMIT), read by the real loader in a fresh session, and every row must be equal to its original.

import (
	"bytes"
	"fmt"
	"math"
	"os"
	"path/filepath"
	"strings"
	"time"

	"github.com/mithrandie/csvq/lib/option"
	"github.com/mithrandie/csvq/lib/query"
	"github.com/mithrandie/csvq/lib/value"
	"github.com/mithrandie/ternary"

	"verifharness/hc"
)

func cellTexts(g *hc.Gen, o *hc.Out, pr *hc.Proc, n int) {
	flags := pr.P.Tx.Flags
	key := func(p value.Primary) string {
		buf := &bytes.Buffer{}
		query.SerializeKey(buf, p, flags)
		return hc.Hex(buf.String())
	}
	var written []value.Primary
	emit := func(cls string, v value.Primary) {
		off := 0
		if d, ok := v.(*value.Datetime); ok {
			_, off = d.Raw().Zone()
		}
		tf, _, _ := query.ConvertFieldContents(v, false, false)
		tg, _, _ := query.ConvertFieldContents(v, false, true)
		tt, _, _ := query.ConvertFieldContents(v, true, false)
		s := value.NewString(tf)
		r := value.CompareCombinedly(v, s, nil, hc.UTC)
		o.Case(fmt.Sprintf("c06.cell %s %d", hc.EncVal(v), off), strings.Join([]string{"x" + hc.Hex(tf), "x" + hc.Hex(tg), "x" + hc.Hex(tt), cmpNames[r],
			hc.EncT(value.Equal(v, s, nil, hc.UTC)), hc.EncT(value.Less(v, s, nil, hc.UTC)), "x" + key(v), "x" + key(s)}, " "))
		o.Count("cell:" + cls)
		o.NonTrivial(fmt.Sprintf("cell:%s:%s:%v:%v", cls, cmpNames[r], key(v) == key(s), len(tf) > 12))
		// the law of Props/C06Cell.lean on the implementation itself, inside its range
		inRange := true
		switch x := v.(type) {
		case *value.Null:
			inRange = false
		case *value.Ternary:
			inRange = x.Ternary() != ternary.UNKNOWN
		case *value.Float:
			inRange = !math.IsNaN(x.Raw())
		case *value.Datetime:
			inRange = x.Raw().Year() >= 0 && x.Raw().Year() <= 9999 && off%60 == 0
		}
		if inRange && value.Equal(v, s, nil, hc.UTC) != ternary.TRUE {
			o.Law("cell_text_reads_back_equal", []string{hc.EncVal(v), tf})
		}
		if _, isF := v.(*value.Float); inRange && !isF && key(v) != key(s) {
			o.Law("cell_text_same_key", []string{hc.EncVal(v), tf, key(v), key(s)})
		}
		if inRange {
			written = append(written, v)
		}
	}
	for _, i := range []int64{0, 1, -1, 7, -42, 1 << 53, 1<<53 + 1, math.MaxInt64, math.MinInt64, 1000000, 123456789012345678} {
		emit("int", value.NewInteger(i))
	}
	for _, f := range []float64{0, math.Copysign(0, -1), 1, -1, 1.5, 0.1, 1e21, 1e22, 1e-7, 123456789012345680000, 5e-324, math.MaxFloat64, math.Inf(1), math.Inf(-1), math.NaN(),
		1 << 53, 1<<53 + 2, 9223372036854775808, 9223372036854774784, -9223372036854775808, 1234567890123456768, 1e15, 1e6, 999999.5, 100, 2.5e-5} {
		emit("float", value.NewFloat(f))
	}
	for _, b := range []bool{true, false} {
		emit("bool", value.NewBoolean(b))
	}
	for _, t := range []ternary.Value{ternary.TRUE, ternary.FALSE, ternary.UNKNOWN} {
		emit("ternary", value.NewTernary(t))
	}
	emit("null", value.NewNull())
	for _, t := range []time.Time{time.Unix(0, 0).UTC(), time.Date(2012, 2, 3, 9, 18, 15, 123456789, time.FixedZone("", 9*3600)), time.Date(2000, 2, 29, 23, 59, 59, 0, time.FixedZone("", -12600)),
		time.Date(9999, 12, 31, 23, 59, 59, 999999999, time.UTC), time.Date(0, 1, 1, 0, 0, 0, 0, time.UTC), time.Date(10000, 1, 1, 0, 0, 0, 0, time.UTC),
		time.Date(1880, 1, 1, 0, 0, 0, 0, time.FixedZone("", -(7*3600 + 52*60 + 58))), time.Date(1969, 12, 31, 23, 59, 59, 500000000, time.FixedZone("", 5*3600+2700))} {
		emit("datetime", value.NewDatetime(t))
	}
	for k := 0; k < n; k++ {
		switch k % 4 {
		case 0:
			emit("int", value.NewInteger(g.Int64()))
		case 1:
			emit("float", value.NewFloat(g.Float64()))
		case 2:
			emit("datetime", value.NewDatetime(g.Time()))
		default:
			v := g.Val()
			if _, isStr := v.(*value.String); !isStr {
				emit("pool", v)
			}
		}
	}

	// ---- end to end: real encoder → file → real loader → `=` ----
	scratch := os.Getenv("VERIF_SCRATCH")
	if scratch == "" {
		return
	}
	dir, err := os.MkdirTemp(scratch, "cellrt")
	if err != nil {
		return
	}
	defer os.RemoveAll(dir)
	var lits []string
	for _, v := range written {
		if lit, ok := sqlLit(v); ok {
			lits = append(lits, lit)
		}
		if len(lits) >= 400 {
			break
		}
	}
	w := hc.NewProc(dir)
	var sb strings.Builder
	sb.WriteString("CREATE TABLE `cellrt.csv` (id, c); INSERT INTO `cellrt.csv` VALUES ")
	for i, lit := range lits {
		if i > 0 {
			sb.WriteString(", ")
		}
		fmt.Fprintf(&sb, "(%d, %s)", i, lit)
	}
	sb.WriteString("; COMMIT;")
	_, err = w.Exec(sb.String())
	w.Close()
	if err != nil {
		o.Law("cell_roundtrip_write_error", err.Error())
		return
	}
	if _, err := os.Stat(filepath.Join(dir, "cellrt.csv")); err != nil {
		o.Law("cell_roundtrip_write_error", err.Error())
		return
	}
	rd := hc.NewProc(dir)
	defer rd.Close()
	_ = rd.P.Tx.SetFlag(option.TimezoneFlag, "UTC")
	for i, lit := range lits {
		v, err := rd.Query(fmt.Sprintf("SELECT COUNT(*) FROM `cellrt.csv` WHERE id = %d AND c = %s", i, lit))
		if err != nil {
			o.Law("cell_roundtrip_read_error", err.Error())
			break
		}
		if c, ok := hc.ViewCell(v, 0, 0).(*value.Integer); !ok || c.Raw() != 1 {
			o.Law("cell_written_and_read_is_equal", []string{lit})
		}
		o.Eval()
	}
	o.Count(fmt.Sprintf("cell_roundtrip_rows:%d", len(lits)/100*100))
}
