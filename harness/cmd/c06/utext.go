package main

// Unicode classes and case mapping: the model's own unicode.IsLetter / IsDigit / IsSpace / ToUpper / ToLower /
// ToTitle / SimpleFold (lean/Csvq/Model/Unicode.lean, computed from the tables extract/unitables dumps from this very
// toolchain) against package unicode, rune by rune (op c06.uclass); and strings.ToUpper ∘ option.TrimSpace — the text
// of the comparison ladder's string rung and of the GROUP BY key —, strings.ToLower and strings.EqualFold —
// Header.FieldIndex — on byte strings including invalid UTF-8 (op c06.upper).

import (
	"fmt"
	"strings"
	"unicode"
	"unicode/utf8"

	"github.com/mithrandie/csvq/lib/option"

	"verifharness/hc"
)

var specialRunes = []rune{'ſ', 'K', 'Å', 'Ω', 'ǅ', 'ǆ', 'Ǆ', 'ß', 'ẞ', 'ı', 'İ', 'i', 'I', 'k', 'K', 's', 'S', 'µ', 'μ', 'Μ', 'ς', 'σ', 'Σ', 'å', 'Å',
	'ϐ', 'β', 'ϑ', 'θ', 'ϴ', 'ι', 'ͅ', 'ι', 'в', 'ᲀ', 'Ꙋ', 'ꙋ', 'ᲈ', 'ǈ', 'ǋ', 'ǲ', 'ᾈ', 'ᾀ', 'ῼ', 'ῳ', 'Ⴀ', 'ⴀ', 'ა', 'Ა', 'Ꭰ', 'ꭰ', 'ᏸ', 'Ᏸ', '𐐀', '𐐨', '𞤀', '𞤢',
	'é', 'É', 'ÿ', 'Ÿ', 'ǰ', 'ŉ', 'ﬁ', 'ẛ', 'ṡ', 'Ṡ', '０', '１', 'Ａ', 'ａ', '٣', '〇', 'Ⅷ', 'ⅷ', 'Ⓐ', 'ⓐ', 0x345, 0x1E9E, 0x2126, 0x212A, 0x212B, 0xFFFD, 0xFEFF, 0x85, 0xA0, 0x1680, 0x2000, 0x200A,
	0x200B, 0x2028, 0x2029, 0x202F, 0x205F, 0x3000, 0x180E, 0xD7FF, 0xE000, 0xFFFF, 0x10000, 0x10FFFF}

func unicodeTexts(g *hc.Gen, o *hc.Out, n int) {
	// the table facts Props/C06Text.lean assumes (evaluated by the model on its tables: op c06.utables), here on
	// package unicode itself and for EVERY rune: fold orbits are cycles of at most 4 runes that EqualFold accepts
	// pairwise, ToUpper is idempotent, the upper case of a rune folds with it (but for ı), the members of an orbit
	// share their upper case (but for the listed orbits)
	{
		exc := map[rune]bool{}
		for _, r := range []rune{75, 107, 8490, 223, 7838, 197, 229, 8491, 937, 969, 8486, 920, 952, 977, 1012} {
			exc[r] = true
		}
		ok, dom := true, 0
		for r := rune(0); r <= unicode.MaxRune; r++ {
			u := unicode.ToUpper(r)
			if unicode.SimpleFold(r) == r && u == r && unicode.ToLower(r) == r {
				continue
			}
			dom++
			orb := []rune{r}
			for x := unicode.SimpleFold(r); x != r && len(orb) < 6; x = unicode.SimpleFold(x) {
				orb = append(orb, x)
			}
			inOrb := false
			for _, x := range orb {
				inOrb = inOrb || x == u
				for _, y := range orb {
					if !strings.EqualFold(string(x), string(y)) {
						ok = false
					}
				}
				if !exc[r] && unicode.ToUpper(x) != u {
					ok = false
				}
			}
			if len(orb) > 4 || unicode.ToUpper(u) != u || (!inOrb && r != 305) {
				ok = false
			}
		}
		if !ok {
			o.Law("unicode_table_facts", dom)
		}
		o.Case("c06.utables", "1 "+unicode.Version)
	}
	seen := map[rune]bool{}
	b2i := func(b bool) int {
		if b {
			return 1
		}
		return 0
	}
	emitRune := func(cls string, r rune) {
		if r < 0 || r > 0x110005 || seen[r] {
			return
		}
		seen[r] = true
		o.Case(fmt.Sprintf("c06.uclass %d", r), fmt.Sprintf("%d %d %d %d %d %d %d", b2i(unicode.IsLetter(r)), b2i(unicode.IsDigit(r)), b2i(unicode.IsSpace(r)),
			unicode.ToUpper(r), unicode.ToLower(r), unicode.ToTitle(r), unicode.SimpleFold(r)))
		o.Count("uclass:" + cls)
		o.NonTrivial(fmt.Sprintf("uclass:%s:%v%v%v:%v:%v:%d", cls, unicode.IsLetter(r), unicode.IsDigit(r), unicode.IsSpace(r), unicode.ToUpper(r) != r, unicode.SimpleFold(r) != r, utf8.RuneLen(r)))
		// laws on the implementation: the statements of Props/C06Text.lean on this rune
		if u := unicode.ToUpper(r); unicode.ToUpper(u) != u {
			o.Law("toUpper_idempotent", r)
		}
		if unicode.IsLetter(r) && unicode.IsDigit(r) {
			o.Law("isLetter_isDigit_disjoint", r)
		}
		x, steps := unicode.SimpleFold(r), 1
		for x != r && steps < 8 {
			x, steps = unicode.SimpleFold(x), steps+1
		}
		if x != r {
			o.Law("simpleFold_orbit_is_a_cycle", r)
		}
	}
	around := func(cls string, r rune) {
		emitRune(cls, r-1)
		emitRune(cls, r)
		emitRune(cls, r+1)
	}
	for _, t := range []*unicode.RangeTable{unicode.Letter, unicode.Nd, unicode.White_Space} {
		for _, x := range t.R16 {
			around("table-edge", rune(x.Lo))
			around("table-edge", rune(x.Hi))
			emitRune("table-edge", rune(x.Lo)+rune(x.Stride))
		}
		for _, x := range t.R32 {
			around("table-edge", rune(x.Lo))
			around("table-edge", rune(x.Hi))
			emitRune("table-edge", rune(x.Lo)+rune(x.Stride))
		}
	}
	for _, c := range unicode.CaseRanges {
		around("case-edge", rune(c.Lo))
		around("case-edge", rune(c.Hi))
		for _, d := range c.Delta {
			if d <= unicode.MaxRune {
				around("case-edge", rune(c.Lo)+d)
				around("case-edge", rune(c.Hi)+d)
			}
		}
	}
	for _, blk := range [][2]rune{{0, 0x24F}, {0x370, 0x3FF}, {0x1F00, 0x1FFF}, {0x400, 0x52F}, {0x10A0, 0x10FF}, {0x1C80, 0x1CBF}, {0x2D00, 0x2D2F}, {0x13A0, 0x13FF},
		{0xAB70, 0xABBF}, {0x10400, 0x1044F}, {0x1E900, 0x1E95F}, {0x2100, 0x218F}, {0x24B0, 0x24F0}, {0xFF00, 0xFF60}, {0xD7F0, 0xE010}, {0x10FFF0, 0x110004}} {
		for r := blk[0]; r <= blk[1]; r++ {
			emitRune("block", r)
		}
	}
	for _, r := range specialRunes {
		around("special", r)
	}
	for k := 0; k < n; k++ {
		switch k % 3 {
		case 0:
			emitRune("random", rune(g.Intn(0x110000)))
		case 1:
			emitRune("random", rune(g.Intn(0x3000)))
		default:
			emitRune("random", rune(g.Intn(0x20000)))
		}
	}

	// ---- byte strings ----
	invalid := []string{"\xff", "\xc0\x80", "\xed\xa0\x80", "\xe2\x82", "\xf0\x9f\x98", "\x80", "\xf4\x90\x80\x80", "\xc3", "\xe1\x9a", "\xef\xbf\xbd", "\xf8\x88\x80\x80\x80"}
	spaces := []string{" ", "\t", "\n", "\u00a0", "\u0085", "\u2003", "\u3000", "\u200b", "\ufeff"}
	piece := func() string {
		switch g.Intn(10) {
		case 0, 1, 2:
			return string(rune("abcXYZkKsS019_ :"[g.Intn(16)]))
		case 3, 4, 5:
			return string(specialRunes[g.Intn(len(specialRunes))])
		case 6:
			return invalid[g.Intn(len(invalid))]
		case 7:
			return spaces[g.Intn(len(spaces))]
		case 8:
			return string(rune(g.Intn(0x3000)))
		}
		return string(rune(g.Intn(0x110000)))
	}
	text := func() string {
		var sb strings.Builder
		for j := g.Intn(6); j > 0; j-- {
			sb.WriteString(piece())
		}
		return sb.String()
	}
	// a text equal to s under some case mapping of some of its runes (so that EqualFold is often true)
	variant := func(s string) string {
		var sb strings.Builder
		for _, r := range s {
			switch g.Intn(5) {
			case 0:
				r = unicode.ToUpper(r)
			case 1:
				r = unicode.ToLower(r)
			case 2:
				r = unicode.SimpleFold(r)
			case 3:
				r = unicode.SimpleFold(unicode.SimpleFold(r))
			}
			sb.WriteRune(r)
		}
		return sb.String()
	}
	emitPair := func(a, b string) {
		ua, ub := strings.ToUpper(option.TrimSpace(a)), strings.ToUpper(option.TrimSpace(b))
		ef := strings.EqualFold(a, b)
		o.Case("c06.upper x"+hc.Hex(a)+" x"+hc.Hex(b), fmt.Sprintf("x%s x%s x%s %d", hc.Hex(ua), hc.Hex(ub), hc.Hex(strings.ToLower(a)), b2i(ef)))
		o.Count("upper")
		o.NonTrivial(fmt.Sprintf("upper:%v:%v:%v:%v", ef, ua == ub, utf8.ValidString(a), len(a) > 4))
		if strings.EqualFold(b, a) != ef {
			o.Law("equalFold_symm", []string{hc.Hex(a), hc.Hex(b)})
		}
		if !strings.EqualFold(a, a) {
			o.Law("equalFold_refl", hc.Hex(a))
		}
		if strings.ToUpper(ua) != ua {
			o.Law("strToUpper_idempotent", hc.Hex(a))
		}
		if ef != (ua == ub) && option.TrimSpace(a) == a && option.TrimSpace(b) == b {
			o.Count("equalFold_vs_upper_differ")
		}
	}
	for _, r := range specialRunes {
		for _, q := range []rune{unicode.ToUpper(r), unicode.ToLower(r), unicode.SimpleFold(r), unicode.ToTitle(r)} {
			emitPair(string(r), string(q))
		}
	}
	for _, s := range invalid {
		emitPair(s, "�")
		emitPair("a"+s+"b", "A"+invalid[g.Intn(len(invalid))]+"B")
	}
	for k := 0; k < 200; k++ {
		s := g.Str() // the strings the rest of the stream draws
		emitPair(s, strings.ToLower(s))
	}
	for k := 0; k < n/2; k++ {
		a := text()
		switch g.Intn(3) {
		case 0:
			emitPair(a, variant(a))
		case 1:
			emitPair(a, text())
		default:
			emitPair(variant(a), variant(a)+piece())
		}
	}
}
