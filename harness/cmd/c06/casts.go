package main

// The six casts — INTEGER, FLOAT, BOOLEAN, TERNARY, DATETIME (one argument), STRING — of lib/query/function.go on
// every class of value and on the boundary values, against the model's castInteger / castFloat / castBoolean /
// castTernary (Model/Cast.lean), castDatetime with value.Float64ToTime and castStringFull (Model/CastFull.lean):
// op c06.castx.  The same functions translated from the source (extract/convfacts) are proved equal to these model
// functions in Props/C06Conv.lean; this stream ties both to the running code.

import (
	"fmt"
	"math"
	"strings"
	"time"

	"github.com/mithrandie/csvq/lib/option"
	"github.com/mithrandie/csvq/lib/parser"
	"github.com/mithrandie/csvq/lib/query"
	"github.com/mithrandie/csvq/lib/value"
	"github.com/mithrandie/ternary"

	"verifharness/hc"
)

func castAll(g *hc.Gen, o *hc.Out, pr *hc.Proc, n int) {
	flags := pr.P.Tx.Flags
	type castFn func(parser.Function, []value.Primary, *option.Flags) (value.Primary, error)
	fns := []struct {
		name string
		f    castFn
	}{{"integer", query.Integer}, {"float", query.Float}, {"boolean", query.Boolean}, {"ternary", query.Ternary}, {"datetime", query.Datetime}, {"string", query.String}}
	emit := func(cls string, v value.Primary) {
		off := 0
		if d, ok := v.(*value.Datetime); ok {
			_, off = d.Raw().Zone()
		}
		res := make([]string, len(fns))
		for i, c := range fns {
			r, err := c.f(parser.Function{Name: c.name}, []value.Primary{v}, flags)
			if err != nil {
				res[i] = "E"
				o.Law("cast_error", []string{c.name, hc.EncVal(v), err.Error()})
				continue
			}
			res[i] = hc.EncVal(r)
		}
		// DATETIME(-x) is the mirror image of DATETIME(x) (F114: the fraction of a negative number counts backwards)
		if fv, ok := v.(*value.Float); ok && !math.IsNaN(fv.Raw()) && math.Abs(fv.Raw()) < 9e18 {
			a, e1 := query.Datetime(parser.Function{Name: "datetime"}, []value.Primary{value.NewFloat(fv.Raw())}, flags)
			b, e2 := query.Datetime(parser.Function{Name: "datetime"}, []value.Primary{value.NewFloat(-fv.Raw())}, flags)
			if e1 == nil && e2 == nil {
				da, ok1 := a.(*value.Datetime)
				db, ok2 := b.(*value.Datetime)
				if ok1 && ok2 && (da.Raw().Unix() != -db.Raw().Unix()-map[bool]int64{true: 1, false: 0}[db.Raw().Nanosecond() > 0] ||
					(da.Raw().Nanosecond()+db.Raw().Nanosecond())%1000000000 != 0) {
					o.Law("datetime_of_negative_float_is_mirror", []string{hc.EncVal(v), hc.EncTime(da.Raw()), hc.EncTime(db.Raw())})
				}
			}
		}
		o.Case(fmt.Sprintf("c06.castx %d %s", off, hc.EncProfile(v)), strings.Join(res, " "))
		o.Count("castx:" + cls)
		sig := cls
		for _, r := range res {
			sig += r[:1]
		}
		o.NonTrivial("castx:" + sig)
		// through program text as well, where the value can be spelled
		if lit, ok := sqlLit(v); ok {
			exprs := make([]string, len(fns))
			for i, c := range fns {
				exprs[i] = strings.ToUpper(c.name) + "(" + lit + ")"
			}
			if r2, err := evalRow(pr, exprs...); err == nil {
				for i := range fns {
					// a datetime literal is spelled in UTC: its STRING differs by the zone only
					if _, isDt := v.(*value.Datetime); isDt && fns[i].name == "string" {
						continue
					}
					if hc.EncVal(r2[i]) != res[i] {
						o.Law("castx_sql_vs_direct", []string{fns[i].name, hc.EncVal(v), res[i], hc.EncVal(r2[i])})
					}
				}
			}
		}
	}
	for _, f := range []float64{0, math.Copysign(0, -1), 1, 2, -1, 0.5, -0.5, 1.5, -1.5, -2.25, 1.999999999999, 1e-10, 1.2345678901, 123456789.123456789, -123456789.987654321,
		1e21, -1e21, 1e300, -1e300, 9223372036854775807, 9223372036854775808, 9223372036854774784, -9223372036854775808, -9223372036854777856, 18446744073709551616,
		math.NaN(), math.Inf(1), math.Inf(-1), 253402300800, -62167219201.5, 1e9, 1e-9, 4.9e-324, math.MaxFloat64, 1700000000.000000001, 0.1, 0.999999999, 0.9999999999} {
		emit("float", value.NewFloat(f))
	}
	for _, i := range []int64{0, 1, 2, -1, 10, math.MaxInt64, math.MinInt64, 253402300800, -62167219201, 1 << 53, 9223372036, -9223372037, 1700000000} {
		emit("int", value.NewInteger(i))
	}
	for _, s := range []string{"1", "0", "2", "t", "T", "true", "TRUE", "True", "tRUE", "yes", "on", "f", "F", "false", "FALSE", "False", " 1 ", " true\n", "1.0", "-1.5", "1e3", "1.5e3",
		"NaN", "nan", "Inf", "-Inf", "+Inf", "infinity", "1e400", "-1e400", "9223372036854775807", "9223372036854775808", "-9223372036854775809", "0x10", "0x1p4", "1_000", "", " ", "abc",
		"2012-02-03", "2012-02-03 09:18:15", "2012-02-03T09:18:15.123456789+09:00", "2012/2/3", "03 Feb 12 09:18 UTC", "2012-02-30", "20120203", "1328260695", "1328260695.5", "-0.5", "-0",
		"1.9999999999", "0.0000000001", "12345678901234567890", "1e21", "TRUE ", "UNKNOWN", "NULL", "null"} {
		emit("text", value.NewString(s))
	}
	for _, b := range []bool{true, false} {
		emit("bool", value.NewBoolean(b))
	}
	for _, t := range []ternary.Value{ternary.TRUE, ternary.FALSE, ternary.UNKNOWN} {
		emit("ternary", value.NewTernary(t))
	}
	emit("null", value.NewNull())
	for _, t := range []time.Time{time.Unix(0, 0).UTC(), time.Unix(0, 1).UTC(), time.Unix(-1, 999999999).UTC(), time.Date(2012, 2, 3, 9, 18, 15, 123456789, time.FixedZone("", 9*3600)),
		time.Date(1969, 12, 31, 23, 59, 58, 500000000, time.FixedZone("", -12600)), time.Date(9999, 12, 31, 23, 59, 59, 999999999, time.UTC), time.Date(0, 1, 1, 0, 0, 0, 0, time.UTC),
		time.Date(10000, 1, 1, 0, 0, 0, 0, time.UTC), time.Date(2262, 4, 11, 23, 47, 16, 854775807, time.UTC), time.Date(1880, 1, 1, 0, 0, 0, 0, time.FixedZone("", -(7*3600 + 52*60 + 58)))} {
		emit("datetime", value.NewDatetime(t))
	}
	for k := 0; k < n; k++ {
		switch k % 5 {
		case 0:
			emit("float", value.NewFloat(g.Float64()))
		case 1:
			// floats with a fraction, of both signs, in the range where DATETIME makes sense
			emit("float", value.NewFloat(float64(g.Intn(4000001)-2000000)/float64([]int{1, 2, 4, 8, 10, 1000, 3}[g.Intn(7)])))
		case 2:
			emit("datetime", value.NewDatetime(g.Time()))
		default:
			emit("pool", g.Val())
		}
	}
}
