package main

import (
	"fmt"
	"math"
	"strconv"
	"strings"
	"unicode/utf8"

	"github.com/mithrandie/csvq/lib/option"
	"github.com/mithrandie/csvq/lib/parser"
	"github.com/mithrandie/csvq/lib/query"
	"github.com/mithrandie/csvq/lib/value"
	"github.com/mithrandie/ternary"

	"verifharness/hc"
)

// sqlLit spells p as csvq program text when that is possible without going through another
// conversion whose result could differ from p.
func sqlLit(p value.Primary) (string, bool) {
	switch v := p.(type) {
	case *value.Null:
		return "NULL", true
	case *value.Integer:
		if v.Raw() == math.MinInt64 {
			return "", false
		}
		if v.Raw() < 0 {
			return fmt.Sprintf("(-%d)", -v.Raw()), true
		}
		return fmt.Sprintf("%d", v.Raw()), true
	case *value.Float:
		f := v.Raw()
		if math.IsNaN(f) || math.IsInf(f, 0) || f == 0 && math.Signbit(f) {
			return "", false
		}
		s := strconv.FormatFloat(math.Abs(f), 'f', -1, 64)
		if !strings.Contains(s, ".") {
			s += ".0"
		}
		if f < 0 {
			return "(-" + s + ")", true
		}
		return s, true
	case *value.String:
		s := v.Raw()
		if !utf8.ValidString(s) || strings.ContainsRune(s, 0) {
			return "", false
		}
		return option.QuoteString(s), true
	case *value.Boolean:
		if v.Raw() {
			return "BOOLEAN(TRUE)", true
		}
		return "BOOLEAN(FALSE)", true
	case *value.Ternary:
		switch v.Ternary() {
		case ternary.TRUE:
			return "TRUE", true
		case ternary.FALSE:
			return "FALSE", true
		}
		return "UNKNOWN", true
	case *value.Datetime:
		t := v.Raw()
		if t.Year() < 1 || t.Year() > 9999 {
			return "", false
		}
		return "DATETIME('" + t.UTC().Format("2006-01-02T15:04:05.999999999Z07:00") + "')", true
	}
	return "", false
}

func sqlLits(ps ...value.Primary) ([]string, bool) {
	out := make([]string, len(ps))
	for i, p := range ps {
		s, ok := sqlLit(p)
		if !ok {
			return nil, false
		}
		out[i] = s
	}
	return out, true
}

// evalRow runs `SELECT e1, e2, …` and returns the first record, or the error.
func evalRow(pr *hc.Proc, exprs ...string) ([]value.Primary, error) {
	v, err := pr.Query("SELECT " + strings.Join(exprs, ", "))
	if err != nil {
		return nil, err
	}
	out := make([]value.Primary, len(exprs))
	for i := range exprs {
		out[i] = v.RecordSet[0][i][0]
	}
	return out, nil
}

func ternOf(p value.Primary) string {
	if t, ok := p.(*value.Ternary); ok {
		return hc.EncT(t.Ternary())
	}
	return "?" + hc.EncVal(p)
}

func ternsOf(ps []value.Primary) string {
	s := make([]string, len(ps))
	for i, p := range ps {
		s[i] = ternOf(p)
	}
	return strings.Join(s, " ")
}

var cmpNames = map[value.ComparisonResult]string{value.IsEqual: "eq", value.IsBoolEqual: "beq", value.IsNotEqual: "ne",
	value.IsLess: "lt", value.IsGreater: "gt", value.IsIncommensurable: "inc"}

var sqlOps = []string{"=", "<>", "<", "<=", ">", ">=", "=="}

func tnot(t ternary.Value) ternary.Value { return ternary.Not(t) }

func main() { hc.Main(runC06) }

func runC06(seed int64, n int, dir string, _ []string) {
	g := hc.NewGen(seed)
	o := hc.NewOut(dir)
	defer o.Close()
	pr := hc.NewProc("")
	defer pr.Close()
	zoneLaws(o)
	floatTexts(g, o, 2*n)
	floatFormats(g, o, n)
	timeFormats(g, o, n)
	datetimeFormats(g, o, n)
	cellTexts(g, o, pr, n)
	unicodeTexts(g, o, n)
	castAll(g, o, pr, n/2)
	unaryOps(g, o, pr, n/2)
	dateTexts(g, o, 2*n)
	zoneTexts(g, o, pr, n)

	// exhaustive Kleene tables against min/max/negation, on the real ternary package
	tv := []ternary.Value{ternary.FALSE, ternary.UNKNOWN, ternary.TRUE}
	rank := map[ternary.Value]int{ternary.FALSE: 0, ternary.UNKNOWN: 1, ternary.TRUE: 2}
	for _, a := range tv {
		if rank[ternary.Not(a)] != 2-rank[a] {
			o.Law("kleene_not", hc.EncT(a))
		}
		for _, b := range tv {
			mn, mx := rank[a], rank[a]
			if rank[b] < mn {
				mn = rank[b]
			}
			if rank[b] > mx {
				mx = rank[b]
			}
			if rank[ternary.And(a, b)] != mn {
				o.Law("kleene_and", hc.EncT(a)+" "+hc.EncT(b))
			}
			if rank[ternary.Or(a, b)] != mx {
				o.Law("kleene_or", hc.EncT(a)+" "+hc.EncT(b))
			}
			pa, pb := value.NewTernary(a), value.NewTernary(b)
			la, _ := sqlLit(pa)
			lb, _ := sqlLit(pb)
			r, err := evalRow(pr, la+" AND "+lb, la+" OR "+lb, "NOT "+la)
			if err != nil {
				o.Law("logic_sql_error", err.Error())
				continue
			}
			o.Case("c06.logic "+hc.EncProfile(pa)+" "+hc.EncProfile(pb), ternsOf(r))
		}
	}

	for i := 0; i < n; i++ {
		a, b := g.Val(), g.Val()
		if g.Intn(6) == 0 {
			b = a // same operand: reflexive cases
		}
		ea, eb := hc.EncProfile(a), hc.EncProfile(b)

		// ---- the ladder and the six operators, direct calls ----
		r := value.CompareCombinedly(a, b, nil, hc.UTC)
		eq, ne := value.Equal(a, b, nil, hc.UTC), value.NotEqual(a, b, nil, hc.UTC)
		lt, le := value.Less(a, b, nil, hc.UTC), value.LessOrEqual(a, b, nil, hc.UTC)
		gt, ge := value.Greater(a, b, nil, hc.UTC), value.GreaterOrEqual(a, b, nil, hc.UTC)
		id := value.Identical(a, b)
		// evalComparison: NULL on the left short-circuits to UNKNOWN
		o.Case("c06.cmp "+ea+" "+eb, strings.Join([]string{cmpNames[r], hc.EncT(eq), hc.EncT(ne), hc.EncT(lt), hc.EncT(le), hc.EncT(gt), hc.EncT(ge), hc.EncT(id)}, " "))
		o.Count("cmp:" + cmpNames[r])
		o.NonTrivial("cmp:" + hc.ClassName(a) + "/" + hc.ClassName(b) + "/" + cmpNames[r])

		// laws on the implementation's own answers
		rb := value.CompareCombinedly(b, a, nil, hc.UTC)
		if value.Less(a, b, nil, hc.UTC) != value.Greater(b, a, nil, hc.UTC) {
			o.Law("lt_iff_gt", []string{hc.EncVal(a), hc.EncVal(b)})
		}
		if le != value.GreaterOrEqual(b, a, nil, hc.UTC) {
			o.Law("le_iff_ge", []string{hc.EncVal(a), hc.EncVal(b)})
		}
		if eq != value.Equal(b, a, nil, hc.UTC) {
			o.Law("eq_symm", []string{hc.EncVal(a), hc.EncVal(b)})
		}
		if ne != tnot(eq) {
			o.Law("ne_not_eq", []string{hc.EncVal(a), hc.EncVal(b)})
		}
		if r == value.IsEqual || r == value.IsLess || r == value.IsGreater {
			if le != ternary.Or(lt, eq) {
				o.Law("le_expand", []string{hc.EncVal(a), hc.EncVal(b)})
			}
			if ge != ternary.Or(gt, eq) {
				o.Law("ge_expand", []string{hc.EncVal(a), hc.EncVal(b)})
			}
			n := 0
			for _, t := range []ternary.Value{lt, eq, gt} {
				if t == ternary.TRUE {
					n++
				}
			}
			if n != 1 {
				o.Law("trichotomy", []string{hc.EncVal(a), hc.EncVal(b)})
			}
		}
		flip := map[value.ComparisonResult]value.ComparisonResult{value.IsLess: value.IsGreater, value.IsGreater: value.IsLess}
		exp := r
		if f, ok := flip[r]; ok {
			exp = f
		}
		if rb != exp {
			o.Law("cmp_symm", []string{hc.EncVal(a), hc.EncVal(b)})
		}
		if (value.IsNull(a) || value.IsNull(b)) && eq != ternary.UNKNOWN {
			o.Law("null_unknown", []string{hc.EncVal(a), hc.EncVal(b)})
		}

		// ---- the same through program text ----
		if ls, ok := sqlLits(a, b); ok {
			exprs := make([]string, len(sqlOps))
			for k, op := range sqlOps {
				exprs[k] = ls[0] + " " + op + " " + ls[1]
			}
			res, err := evalRow(pr, exprs...)
			if err != nil {
				o.Law("cmp_sql_error", []string{hc.EncVal(a), hc.EncVal(b), err.Error()})
			} else {
				o.Case("c06.cmpsql "+ea+" "+eb, ternsOf(res))
				o.Count("cmpsql")
			}
		}

		c := g.Val()
		ec := hc.EncProfile(c)
		switch i % 6 {
		case 0: // BETWEEN
			neg := g.Intn(2)
			if ls, ok := sqlLits(a, b, c); ok {
				kw := " BETWEEN "
				if neg == 1 {
					kw = " NOT BETWEEN "
				}
				res, err := evalRow(pr, ls[0]+kw+ls[1]+" AND "+ls[2], "("+ls[0]+" >= "+ls[1]+") AND ("+ls[0]+" <= "+ls[2]+")")
				if err != nil {
					o.Law("between_sql_error", err.Error())
					break
				}
				o.Case(fmt.Sprintf("c06.between %d %s %s %s", neg, ea, eb, ec), ternOf(res[0]))
				o.NonTrivial("between:" + ternOf(res[0]) + hc.ClassName(a) + hc.ClassName(b) + hc.ClassName(c))
				want := res[1].(*value.Ternary).Ternary()
				if neg == 1 {
					want = tnot(want)
				}
				if !value.IsNull(a) && res[0].(*value.Ternary).Ternary() != want {
					o.Law("between_expand", []string{hc.EncVal(a), hc.EncVal(b), hc.EncVal(c)})
				}
			}
		case 1, 2: // IN / ANY / ALL over a list
			k := g.Intn(5)
			// every third list comes from a sub-query over a temporary table, which can also be EMPTY
			viaSub := g.Intn(3) == 0
			if viaSub {
				k = g.Intn(4) - 1
			}
			list := make([]value.Primary, k+1)
			for j := range list {
				list[j] = g.Val()
				if g.Intn(4) == 0 {
					list[j] = a
				}
			}
			all := append([]value.Primary{a}, list...)
			ls, ok := sqlLits(all...)
			if !ok {
				break
			}
			enc := make([]string, len(list))
			for j, p := range list {
				enc[j] = hc.EncProfile(p)
			}
			lst := "(" + strings.Join(ls[1:], ", ") + ")"
			if viaSub {
				rows := make([][]value.Primary, len(list))
				for j := range list {
					rows[j] = []value.Primary{list[j]}
				}
				if err := pr.DeclareTable("lv", []string{"v"}, rows); err != nil {
					o.Law("in_sql_error", err.Error())
					break
				}
				lst = "(SELECT v FROM lv ORDER BY id)"
				o.Count(fmt.Sprintf("list_via_subquery:%d", len(list)))
			}
			op := sqlOps[g.Intn(6)]
			res, err := evalRow(pr, ls[0]+" IN "+lst, ls[0]+" NOT IN "+lst, ls[0]+" "+op+" ANY "+lst, ls[0]+" "+op+" ALL "+lst,
				ls[0]+" = ANY "+lst, ls[0]+" <> ALL "+lst)
			if viaSub {
				pr.DisposeTable("lv")
			}
			if err != nil {
				o.Law("in_sql_error", err.Error())
				break
			}
			o.Case("c06.in 0 "+ea+" "+strings.Join(enc, " "), ternOf(res[0]))
			o.Case("c06.in 1 "+ea+" "+strings.Join(enc, " "), ternOf(res[1]))
			o.Case("c06.any "+op+" "+ea+" "+strings.Join(enc, " "), ternOf(res[2]))
			o.Case("c06.all "+op+" "+ea+" "+strings.Join(enc, " "), ternOf(res[3]))
			o.NonTrivial(fmt.Sprintf("list:%d:%s%s%s", k, ternOf(res[0]), ternOf(res[2]), ternOf(res[3])))
			if ternOf(res[0]) != ternOf(res[4]) {
				o.Law("in_eq_any", hc.EncVal(a))
			}
			if ternOf(res[1]) != ternOf(res[5]) {
				o.Law("notin_eq_all", hc.EncVal(a))
			}
			// ANY / ALL equal the fold of the single comparisons
			anyT, allT := ternary.FALSE, ternary.TRUE
			for _, p := range list {
				var t ternary.Value
				if value.IsNull(a) {
					t = ternary.UNKNOWN
				} else {
					t = value.Compare(a, p, op, nil, hc.UTC)
				}
				anyT, allT = ternary.Or(anyT, t), ternary.And(allT, t)
			}
			if hc.EncT(anyT) != ternOf(res[2]) {
				o.Law("any_spec", []string{op, hc.EncVal(a)})
			}
			if hc.EncT(allT) != ternOf(res[3]) {
				o.Law("all_spec", []string{op, hc.EncVal(a)})
			}
		case 3: // IS, logic on arbitrary values
			if ls, ok := sqlLits(a, b); ok {
				rhs := g.Pick("NULL", "TRUE", "FALSE", "UNKNOWN")
				var pb value.Primary
				switch rhs {
				case "NULL":
					pb = value.NewNull()
				case "TRUE":
					pb = value.NewTernary(ternary.TRUE)
				case "FALSE":
					pb = value.NewTernary(ternary.FALSE)
				default:
					pb = value.NewTernary(ternary.UNKNOWN)
				}
				res, err := evalRow(pr, ls[0]+" IS "+rhs, ls[0]+" IS NOT "+rhs, ls[0]+" AND "+ls[1], ls[0]+" OR "+ls[1], "NOT "+ls[0])
				if err != nil {
					o.Law("is_sql_error", err.Error())
					break
				}
				o.Case("c06.is 0 "+ea+" "+hc.EncProfile(pb), ternOf(res[0]))
				o.Case("c06.is 1 "+ea+" "+hc.EncProfile(pb), ternOf(res[1]))
				o.Case("c06.logic "+ea+" "+eb, ternsOf(res[2:5]))
				o.NonTrivial("is:" + hc.ClassName(a) + rhs + ternOf(res[0]))
			}
		case 4: // CASE
			k := g.Intn(4) + 1
			conds := make([]value.Primary, k)
			for j := range conds {
				conds[j] = g.Val()
				if g.Intn(3) == 0 {
					conds[j] = a
				}
			}
			all := append([]value.Primary{a}, conds...)
			ls, ok := sqlLits(all...)
			if !ok {
				break
			}
			enc := make([]string, k)
			for j, p := range conds {
				enc[j] = hc.EncProfile(p)
			}
			withVal := g.Intn(2)
			sql := "CASE "
			if withVal == 1 {
				sql += ls[0] + " "
			}
			for j := 0; j < k; j++ {
				sql += fmt.Sprintf("WHEN %s THEN %d ", ls[j+1], j)
			}
			hasElse := g.Intn(2) == 0
			if hasElse {
				sql += "ELSE -1 "
			}
			sql += "END"
			res, err := evalRow(pr, sql)
			if err != nil {
				o.Law("case_sql_error", err.Error())
				break
			}
			got := "-"
			if iv, ok := res[0].(*value.Integer); ok && iv.Raw() >= 0 {
				got = fmt.Sprintf("%d", iv.Raw())
			} else if ok != hasElse {
				o.Law("case_else", sql)
			}
			if withVal == 1 {
				o.Case("c06.case 1 "+ea+" "+strings.Join(enc, " "), got)
			} else {
				o.Case("c06.case 0 "+strings.Join(enc, " "), got)
			}
			o.NonTrivial(fmt.Sprintf("case:%d:%d:%s", withVal, k, got))
		case 5: // row values
			k := g.Intn(3) + 1
			xs, ys := make([]value.Primary, k), make([]value.Primary, k)
			encs := make([]string, 0, 2*k)
			for j := 0; j < k; j++ {
				xs[j], ys[j] = g.Val(), g.Val()
				if g.Intn(2) == 0 {
					ys[j] = xs[j]
				}
			}
			for _, p := range xs {
				encs = append(encs, hc.EncProfile(p))
			}
			for _, p := range ys {
				encs = append(encs, hc.EncProfile(p))
			}
			op := sqlOps[g.Intn(7)]
			t, err := value.CompareRowValues(xs, ys, op, nil, hc.UTC)
			got := hc.EncT(t)
			if err != nil {
				got = "E"
			}
			o.Case("c06.rowcmp "+op+" "+strings.Join(encs, " "), got)
			// the same row-value comparison through program text (k >= 2: `(a, b) op (c, d)`)
			if k >= 2 {
				if lx, ok1 := sqlLits(xs...); ok1 {
					if ly, ok2 := sqlLits(ys...); ok2 {
						// csvq accepts a row-value comparison as a search condition (WHERE), and IN with row values
						v2, err2 := pr.Query("SELECT 1 FROM (SELECT 1) AS one WHERE (" + strings.Join(lx, ", ") + ") " + op + " (" + strings.Join(ly, ", ") + ")")
						if err2 != nil {
							o.Law("rowcmp_sql_error", err2.Error())
						} else {
							if (v2.RecordLen() == 1) != (got == "T") {
								o.Law("rowcmp_sql_vs_direct", []string{op, got, fmt.Sprint(v2.RecordLen())})
							}
							o.Count("rowcmp_sql")
						}
					}
				}
			}
			o.NonTrivial(fmt.Sprintf("rowcmp:%s:%d:%s", op, k, got))
		}

		// ---- arithmetic ----
		op := []string{"+", "-", "*", "/", "%"}[g.Intn(5)]
		x, y := g.Val(), g.Val()
		switch g.Intn(3) {
		case 0:
			x, y = value.NewInteger(g.Int64()), value.NewInteger(g.Int64())
		case 1:
			x, y = value.NewFloat(g.Float64()), value.NewFloat(g.Float64())
		}
		res, err := query.Calculate(x, y, int(op[0]))
		got := "E"
		if err == nil {
			got = hc.EncVal(res)
		}
		o.Case("c06.arith "+op+" "+hc.EncProfile(x)+" "+hc.EncProfile(y), got)
		o.NonTrivial("arith:" + op + hc.ClassName(x) + hc.ClassName(y) + got[:1])
		ix, iy := value.ToIntegerStrictly(x), value.ToIntegerStrictly(y)
		fx, fy := value.ToFloat(x), value.ToFloat(y)
		bothInt := !value.IsNull(ix) && !value.IsNull(iy)
		bothFlt := !value.IsNull(fx) && !value.IsNull(fy)
		if err == nil {
			_, isI := res.(*value.Integer)
			_, isF := res.(*value.Float)
			if value.IsNull(res) != (!bothInt && !bothFlt) {
				o.Law("calc_null_iff", []string{op, hc.EncVal(x), hc.EncVal(y)})
			}
			if isI != bothInt {
				o.Law("calc_int_iff", []string{op, hc.EncVal(x), hc.EncVal(y)})
			}
			if isF != (!bothInt && bothFlt) {
				o.Law("calc_float_otherwise", []string{op, hc.EncVal(x), hc.EncVal(y)})
			}
		} else if !(bothInt && (op == "/" || op == "%") && iy.(*value.Integer).Raw() == 0) {
			o.Law("divzero_iff", []string{op, hc.EncVal(x), hc.EncVal(y)})
		}
		if ls, ok := sqlLits(x, y); ok {
			r2, err2 := evalRow(pr, ls[0]+" "+op+" "+ls[1])
			g2 := "E"
			if err2 == nil {
				g2 = hc.EncVal(r2[0])
			}
			if g2 != got {
				o.Law("arith_sql_vs_direct", []string{op, hc.EncVal(x), hc.EncVal(y), got, g2})
			}
		}
		// float and integer arithmetic agree on integral operands (results exactly representable)
		if op != "/" {
			p, q := int64(g.Intn(4001)-2000), int64(g.Intn(4001)-2000)
			if g.Intn(4) == 0 {
				p, q = g.Int63n(1<<26)-(1<<25), g.Int63n(1<<26)-(1<<25)
			}
			if !(op == "%" && q == 0) {
				ri, _ := query.Calculate(value.NewInteger(p), value.NewInteger(q), int(op[0]))
				rf, _ := query.Calculate(value.NewFloat(float64(p)), value.NewFloat(float64(q)), int(op[0]))
				iv, fv := ri.(*value.Integer).Raw(), rf.(*value.Float).Raw()
				if float64(iv) != fv {
					o.Law("float_int_agree", []string{op, fmt.Sprint(p), fmt.Sprint(q), fmt.Sprint(iv), fmt.Sprint(fv)})
				}
				if op == "%" {
					for _, m := range []float64{float64(iv), fv} {
						if !(math.Abs(m) < math.Abs(float64(q))) || (m != 0 && (m < 0) != (p < 0)) {
							o.Law("mod_sign_magnitude", []string{fmt.Sprint(p), fmt.Sprint(q), fmt.Sprint(m)})
						}
					}
				}
				o.Count("float_int_agree")
			}
		}

		// ---- casting functions, by direct call and through program text ----
		{
			cv := g.Val()
			if g.Intn(3) == 0 {
				cv = value.NewFloat([]float64{1.5, -1.5, 2.9999, -0.5, 1e18, 9.3e18, -9.3e18, 1e300, math.NaN(), math.Inf(1), 9223372036854775807, -9223372036854775808}[g.Intn(12)])
			}
			fnName := g.Pick("integer", "float", "boolean", "ternary", "string")
			if _, isDt := cv.(*value.Datetime); isDt && fnName == "string" {
				fnName = "float" // STRING(datetime) is a time.Format layout, outside the model
			}
			var fn func(parser.Function, []value.Primary, *option.Flags) (value.Primary, error)
			switch fnName {
			case "string":
				fn = query.String
			case "integer":
				fn = query.Integer
			case "float":
				fn = query.Float
			case "boolean":
				fn = query.Boolean
			default:
				fn = query.Ternary
			}
			res, err := fn(parser.Function{Name: fnName}, []value.Primary{cv}, pr.P.Tx.Flags)
			if err != nil {
				o.Law("cast_error", err.Error())
			} else {
				o.Case("c06.cast "+fnName+" "+hc.EncProfile(cv), hc.EncVal(res))
				o.NonTrivial("cast:" + fnName + hc.ClassName(cv) + hc.EncVal(res)[:1])
				if lit, ok := sqlLit(cv); ok {
					r2, err2 := evalRow(pr, strings.ToUpper(fnName)+"("+lit+")")
					if err2 != nil || hc.EncVal(r2[0]) != hc.EncVal(res) {
						o.Law("cast_sql_vs_direct", []string{fnName, hc.EncVal(cv), hc.EncVal(res)})
					}
				}
			}
		}

		// ---- classification of ASCII strings: the model's own ParseInt / ParseBool against the real conversions ----
		{
			var sb strings.Builder
			for k := g.Intn(4); k > 0; k-- {
				sb.WriteString(g.Pick(" ", "\t", "\n", "\r", "\v", "\f"))
			}
			sb.WriteString(g.Pick("", "", "+", "-", "--", "+-"))
			switch g.Intn(6) {
			case 0:
				sb.WriteString(fmt.Sprint(g.Int64()))
			case 1:
				sb.WriteString(g.Pick("9223372036854775807", "9223372036854775808", "9223372036854775809", "18446744073709551616", "00000000000000000000000012", "0", "00", "007"))
			case 2:
				sb.WriteString(g.Pick("1", "0", "t", "f", "T", "F", "true", "false", "TRUE", "FALSE", "True", "False", "tRUE", "yes", "on", "1 1"))
			case 3:
				sb.WriteString(g.Pick("1_000", "0x10", "1e3", "1.0", "12a", "a12", "1 2", "٣", ""))
			default:
				sb.WriteString(strconv.Itoa(g.Intn(100000)))
			}
			for k := g.Intn(3); k > 0; k-- {
				sb.WriteString(g.Pick(" ", "\t", "\n", "\r"))
			}
			str := sb.String()
			ascii := true
			for i := 0; i < len(str); i++ {
				if str[i] >= 0x80 {
					ascii = false
				}
			}
			if ascii {
				sv := value.NewString(str)
				iv := "-"
				if in := value.ToIntegerStrictly(sv); !value.IsNull(in) {
					iv = fmt.Sprint(in.(*value.Integer).Raw())
				}
				o.Case("c06.sint x"+hc.Hex(str), iv+" "+hc.EncT(sv.Ternary()))
				o.NonTrivial("sint:" + iv[:1] + hc.EncT(sv.Ternary()))
			}
			n64 := g.Int64()
			o.Case(fmt.Sprintf("c06.itext %d", n64), hc.Hex(value.Int64ToStr(n64)))
		}

		// ---- profile of non-strings derived by the model ----
		if _, isStr := a.(*value.String); !isStr {
			o.Case("c06.prof "+hc.EncVal(a), hc.EncFullProfile(a))
		}
	}
}
