package main

// Unary arithmetic (`+x`, `-x`: evalUnaryArithmetic) and unary logic (`NOT x`, `!x`: evalUnaryLogic) over EVERY class
// of value, by direct evaluation of the expression node over the value (query.Evaluate on parser.UnaryArithmetic /
// UnaryLogic with the value as a PrimitiveType operand) and through SELECT text — op c06.unary, answered by the model's
// evalUnary / evalNot.  Laws on the implementation: +x is 0 + x, -x is 0 - x (both convert their operand the same way;
// a float zero may differ in sign only), -(-x) is +x, unary arithmetic yields NULL exactly for what is no number.

import (
	"math"
	"strings"
	"time"

	"github.com/mithrandie/csvq/lib/parser"
	"github.com/mithrandie/csvq/lib/query"
	"github.com/mithrandie/csvq/lib/value"
	"github.com/mithrandie/ternary"

	"verifharness/hc"
)

func unaryOps(g *hc.Gen, o *hc.Out, pr *hc.Proc, n int) {
	eval := func(e parser.QueryExpression) string {
		r, err := query.Evaluate(pr.Ctx, pr.P.ReferenceScope, e)
		if err != nil {
			return "E"
		}
		return hc.EncVal(r)
	}
	same := func(a, b string) bool {
		// results of float arithmetic may differ in the sign of zero only
		return a == b || (strings.TrimPrefix(a, "F-") == "0" && b == "F0") || (a == "F0" && strings.TrimPrefix(b, "F-") == "0")
	}
	emit := func(cls string, v value.Primary) {
		operand := parser.PrimitiveType{Value: v}
		plus := eval(parser.UnaryArithmetic{Operand: operand, Operator: parser.Token{Token: '+', Literal: "+"}})
		minus := eval(parser.UnaryArithmetic{Operand: operand, Operator: parser.Token{Token: '-', Literal: "-"}})
		not := eval(parser.UnaryLogic{Operand: operand, Operator: parser.Token{Token: parser.NOT, Literal: "NOT"}})
		bang := eval(parser.UnaryLogic{Operand: operand, Operator: parser.Token{Token: '!', Literal: "!"}})
		o.Case("c06.unary "+hc.EncProfile(v), plus+" "+minus+" "+not+" "+bang)
		o.Count("unary:" + cls)
		o.NonTrivial("unary:" + cls + ":" + plus[:1] + minus[:1] + not)
		// laws on the implementation
		zero := value.NewInteger(0)
		enc := func(p value.Primary, err error) string {
			if err != nil {
				return "E"
			}
			return hc.EncVal(p)
		}
		if zp := enc(query.Calculate(zero, v, '+')); !same(plus, zp) {
			o.Law("unary_plus_is_zero_plus", []string{hc.EncVal(v), plus, zp})
		}
		if zm := enc(query.Calculate(zero, v, '-')); !same(minus, zm) {
			o.Law("unary_minus_is_zero_minus", []string{hc.EncVal(v), minus, zm})
		}
		isNum := !value.IsNull(value.ToFloat(v))
		if (plus == "N") == isNum || (minus == "N") == isNum {
			o.Law("unary_null_iff", []string{hc.EncVal(v), plus, minus})
		}
		if not != bang {
			o.Law("not_is_bang", []string{hc.EncVal(v), not, bang})
		}
		// through program text
		if lit, ok := sqlLit(v); ok {
			r, err := evalRow(pr, "+"+lit, "-"+lit, "NOT "+lit, "!"+lit, "-(-"+lit+")", "0 + "+lit)
			if err != nil {
				o.Law("unary_sql_error", []string{lit, err.Error()})
				return
			}
			got := []string{hc.EncVal(r[0]), hc.EncVal(r[1]), hc.EncVal(r[2]), hc.EncVal(r[3])}
			want := []string{plus, minus, not, bang}
			for i := range got {
				if got[i] != want[i] {
					o.Law("unary_sql_vs_direct", []string{lit, []string{"+", "-", "NOT", "!"}[i], want[i], got[i]})
				}
			}
			if !same(hc.EncVal(r[4]), plus) {
				o.Law("double_minus_is_plus", []string{lit, hc.EncVal(r[4]), plus})
			}
			if !same(hc.EncVal(r[5]), plus) {
				o.Law("unary_plus_is_zero_plus", []string{lit, plus, hc.EncVal(r[5])})
			}
		}
	}
	for _, s := range []string{"abc", "", " ", " 007 ", "007", "1.50", "2e2", " 2e2\n", "0x10", "1_000", "-5", "+5", "--5", "1", "0", "true", "TRUE", "t", "false", "NaN", "Inf", "-Inf", "-0", "-0.0",
		"9223372036854775807", "-9223372036854775808", "9223372036854775808", "1e400", "2012-02-03", "2012-02-03 09:18:15", "1.0", "１２", " 1", "1 ", "1 "} {
		emit("text", value.NewString(s))
	}
	for _, i := range []int64{0, 1, -1, 2, math.MaxInt64, math.MinInt64, math.MinInt64 + 1, 1 << 53} {
		emit("int", value.NewInteger(i))
	}
	for _, f := range []float64{0, math.Copysign(0, -1), 1, -1, 1.5, -2.25, math.NaN(), math.Inf(1), math.Inf(-1), math.MaxFloat64, 5e-324, 9223372036854775808, 1e300} {
		emit("float", value.NewFloat(f))
	}
	for _, b := range []bool{true, false} {
		emit("bool", value.NewBoolean(b))
	}
	for _, t := range []ternary.Value{ternary.TRUE, ternary.FALSE, ternary.UNKNOWN} {
		emit("ternary", value.NewTernary(t))
	}
	emit("null", value.NewNull())
	emit("datetime", value.NewDatetime(time.Unix(0, 0).UTC()))
	emit("datetime", value.NewDatetime(time.Date(2012, 2, 3, 9, 18, 15, 5, time.FixedZone("", 3600))))
	for k := 0; k < n; k++ {
		emit("pool", g.Val())
	}
}
