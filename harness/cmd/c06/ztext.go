package main

// The datetime rung for TEXTS under a session: time zone (UTC, +09:00, -05:00, +05:30 — each as a fixed zone by
// direct library call and as the tz-database zone through SET @@TIMEZONE) and user datetime formats
// (@@DATETIME_FORMAT: non-ASCII literals, %%, every verb of the manual, several formats tried in order, random
// patterns).  The op lines carry the RAW values only — zone offset and abbreviation, the formats, the texts as
// bytes: the Lean model (Model/ParseTimeFull.lean, Model/ZoneProfile.lean) derives the whole profile of a text,
// the datetime reading included, and decides the rung.
//   c06.sdtz      value.StrToTime(text, formats, location)
//   c06.dfmtu     value.ConvertDatetimeFormat of an arbitrary byte string
//   c06.zcmp      CompareCombinedly + the six operators (direct call; the same through SELECT text is checked here)
//   c06.zbetween  c06.zin  c06.zcase   through SELECT text in a session with that zone and those formats
// Laws on the implementation alone: datetime_text_reading_differs (a text rendered from a known wall clock reads as
// that wall clock in the session zone), date_only_eq_midnight, zone_shift_invariant (a comparison between two
// zone-less texts does not depend on the session zone), lt_iff_gt / eq_symm / ne_not_eq / le_expand under every
// session, sql_eq_direct.

import (
	"fmt"
	"strings"
	"time"

	"github.com/mithrandie/csvq/lib/option"
	"github.com/mithrandie/csvq/lib/value"
	"github.com/mithrandie/ternary"

	"verifharness/hc"
)

type zsession struct {
	label string
	iana  string
	off   int
	abbr  string
}

var zsessions = []zsession{
	{"UTC", "UTC", 0, "UTC"},
	{"+09:00", "Asia/Tokyo", 32400, "JST"},
	{"-05:00", "Etc/GMT+5", -18000, "-05"},
	{"+05:30", "Asia/Kolkata", 19800, "IST"},
}

func (z zsession) fixed() *time.Location {
	if z.off == 0 {
		return time.UTC
	}
	return time.FixedZone(z.abbr, z.off)
}

// the verbs of the manual (docs/_posts/2006-01-02-value.md, "Format Specifiers"), restated independently of
// value.ConvertDatetimeFormat: what each verb prints, as a Go layout for that single item
var manualVerbs = map[rune]string{
	'a': "Mon", 'b': "Jan", 'c': "1", 'd': "02", 'E': "_2", 'e': "2", 'F': ".999999", 'f': ".000000", 'H': "15", 'h': "03",
	'i': "04", 'l': "3", 'M': "January", 'm': "01", 'N': ".999999999", 'n': ".000000000", 'p': "PM", 'r': "03:04:05 PM",
	's': "05", 'T': "15:04:05", 'W': "Monday", 'Y': "2006", 'y': "06", 'Z': "Z07:00", 'z': "MST",
}

// renderPattern writes t in the user's pattern: verbs by the table above, every other rune as it is.
func renderPattern(pattern string, t time.Time) string {
	var sb strings.Builder
	esc := false
	for _, r := range pattern {
		if !esc {
			if r == '%' {
				esc = true
			} else {
				sb.WriteRune(r)
			}
			continue
		}
		if l, ok := manualVerbs[r]; ok {
			sb.WriteString(t.Format(l))
		} else {
			sb.WriteRune(r)
		}
		esc = false
	}
	return sb.String()
}

type zfmt struct {
	fmts []string
	prec time.Duration // what the FIRST pattern keeps of an instant (0 = no law: the pattern is lossy / ambiguous)
	y2   bool          // two-digit year
}

var zfmtPool = []zfmt{
	{nil, 0, false},
	{[]string{"%Y年%c月%e日"}, 24 * time.Hour, false},
	{[]string{"%Y年%m月%d日 %H時%i分%s秒", "%Y年%c月%e日"}, time.Second, false},
	{[]string{"%d. %m. %Y г.", "%d. %m. %Y г. %H:%i"}, 24 * time.Hour, false},
	{[]string{"%d. %m. %Y г. %H:%i", "%d. %m. %Y г."}, time.Minute, false},
	{[]string{"%e %b %Y"}, 24 * time.Hour, false},
	{[]string{"%Y%%%m%%%d"}, 24 * time.Hour, false},
	{[]string{"%W, %M %e, %Y %l:%i:%s %p"}, time.Second, false},
	{[]string{"%a %b %E %T %Y"}, time.Second, false},
	{[]string{"%Y-%m-%d %H:%i:%s%N %Z"}, time.Nanosecond, false},
	{[]string{"%d/%m/%y %h:%i:%s%f %p"}, time.Microsecond, true},
	{[]string{"%Y.%m.%d %r %z"}, time.Second, false},
	{[]string{"%Y%m%d%H%i%s"}, time.Second, false},
	{[]string{"%Y-%m-%dT%H:%i:%s%F"}, time.Microsecond, false},
	{[]string{"%Y-%m-%d %H:%i:%s%n"}, time.Nanosecond, false},
	{[]string{"€%Y·%m·%d→%H∶%i"}, time.Minute, false},
	{[]string{"%Y年%c月%e日", "%c/%e/%Y", "%e.%c.%Y"}, 24 * time.Hour, false},
	{[]string{"%c/%e/%Y", "%e/%c/%Y"}, 0, false},
	{[]string{"%H時%i分"}, 0, false},
	{[]string{"%Y年 at 15h"}, 0, false},
}

var zLiterals = []string{"-", "/", " ", ":", ".", ",", "年", "月", "日", "時", "分", "秒", " г.", " ", "→", "é", "T", "at ", "1", "2", "5", "Jan", "PM", "Z", "MST", "_", "\xff", "%%", "%q", "  ", "Ω"}

func randomPattern(g *hc.Gen) string {
	verbs := "abcdEeFfHhilMmNnprsTWYyZz"
	var sb strings.Builder
	k := 1 + g.Intn(8)
	for i := 0; i < k; i++ {
		if g.Intn(5) < 3 {
			sb.WriteByte('%')
			sb.WriteByte(verbs[g.Intn(len(verbs))])
		}
		if g.Intn(3) > 0 {
			sb.WriteString(zLiterals[g.Intn(len(zLiterals))])
		}
	}
	if g.Intn(12) == 0 {
		sb.WriteByte('%')
	}
	return sb.String()
}

func hexList(xs []string) string {
	p := []string{fmt.Sprint(len(xs))}
	for _, x := range xs {
		p = append(p, "x"+hc.Hex(x))
	}
	return strings.Join(p, " ")
}

// sessTok: the session prefix of a z-op: offset, abbreviation, formats
func sessTok(off int, abbr string, fmts []string) string {
	return fmt.Sprintf("%d x%s %s", off, hc.Hex(abbr), hexList(fmts))
}

func randomWall(g *hc.Gen, loc *time.Location) time.Time {
	y := []int{2020, 2012, 1999, 2000, 1970, 1969, 2038, 1985, 2024, 1900, 2068, 1971}[g.Intn(12)]
	mo := 1 + g.Intn(12)
	d := 1 + g.Intn(28)
	if g.Intn(4) == 0 {
		mo, d = []int{1, 12, 2, 3, 9, 10}[g.Intn(6)], []int{1, 31, 28, 1, 1, 1}[g.Intn(6)]
		if mo == 2 && d == 31 || mo == 9 && d == 31 {
			d = 1
		}
	}
	ns := 0
	switch g.Intn(4) {
	case 0:
		ns = g.Intn(1000000000)
	case 1:
		ns = g.Intn(1000) * 1000000
	}
	return time.Date(y, time.Month(mo), d, g.Intn(24), g.Intn(60), g.Intn(60), ns, loc)
}

type zform struct {
	layout   string
	zoneless bool
	prec     time.Duration
}

var zBuiltin = []zform{
	{"2006-01-02", true, 24 * time.Hour}, {"2006-1-2", true, 24 * time.Hour}, {"2006/01/02", true, 24 * time.Hour}, {"2006/1/2", true, 24 * time.Hour},
	{"2006-01-02 15:04:05", true, time.Second}, {"2006-01-02T15:04:05", true, time.Second}, {"2006/01/02 15:04:05", true, time.Second},
	{"2006-1-2 15:04:05", true, time.Second}, {"2006/1/2 15:04:05", true, time.Second}, {"2006-01-02 3:04:05", true, 0},
	{"2006-01-02 15:04:05.000000000", true, time.Nanosecond}, {"2006-01-02T15:04:05.999999999", true, time.Nanosecond}, {"2006/1/2 15:04:05.000", true, time.Millisecond},
	{"2006-01-02T15:04:05.999999999Z07:00", false, time.Nanosecond}, {"2006-01-02 15:04:05 Z07:00", false, time.Second}, {"2006-01-02 15:04:05.000 -0700", false, time.Millisecond},
	{"2006/01/02 15:04:05 -07:00", false, time.Second}, {"2006-1-2 15:04:05 -0700", false, time.Second}, {"2006/1/2 15:04:05 Z07:00", false, time.Second},
	{"02 Jan 06 15:04 -0700", false, time.Minute},
}

func zoneTexts(g *hc.Gen, o *hc.Out, pr *hc.Proc, n int) {
	type loaded struct {
		z   zsession
		loc *time.Location
	}
	var zs []loaded
	for _, z := range zsessions {
		loc, err := time.LoadLocation(z.iana)
		if err != nil {
			o.Count("zone_unavailable:" + z.iana)
			loc = nil
		}
		zs = append(zs, loaded{z, loc})
	}

	// ---- ConvertDatetimeFormat on arbitrary byte strings ----
	for _, zf := range zfmtPool {
		for _, f := range zf.fmts {
			o.Case("c06.dfmtu x"+hc.Hex(f), hc.Hex(value.ConvertDatetimeFormat(f)))
		}
	}
	for k := 0; k < n/8+40; k++ {
		f := randomPattern(g)
		o.Case("c06.dfmtu x"+hc.Hex(f), hc.Hex(value.ConvertDatetimeFormat(f)))
		o.NonTrivial(fmt.Sprintf("dfmtu:%d:%v", len(f), strings.ContainsAny(f, "\xff年月Ω")))
	}

	// one reading: the line for the model, and the implementation's answer
	read := func(z zsession, loc *time.Location, isFixed bool, fmts []string, text string) (time.Time, bool) {
		t, ok := value.StrToTime(text, fmts, loc)
		off, abbr := z.off, z.abbr
		if !isFixed {
			// a tz-database zone: offset and abbreviation valid at the result (for a text that does not read: unused)
			ref := t
			if !ok {
				ref = time.Date(2020, 1, 1, 0, 0, 0, 0, loc)
			}
			abbr, off = ref.In(loc).Zone()
		}
		got := "-"
		if ok {
			got = hc.EncTime(t)
		}
		if !isFixed && ok && (t.Year() < 1971 || t.Year() > 2037) {
			// a tz-database zone far in the past or future: the zone's offset and abbreviation at the result (local mean
			// time, historical rules) are not what a zone abbreviation written in the text refers to — the model gets ONE
			// (offset, abbreviation) pair per reading; such readings are compared under the fixed zones only
			o.Count("sdtz:outside:tzdb_zone_outside_1971_2037")
			return t, ok
		}
		o.Case("c06.sdtz "+sessTok(off, abbr, fmts)+" x"+hc.Hex(text), got)
		return t, ok
	}
	want := func(z zsession, fmts []string, text string, t time.Time, ok bool, exp time.Time, how string) {
		if _, woff := exp.Zone(); woff%60 != 0 {
			return // a local mean time with seconds: the spellings with an offset cannot carry it
		}
		if !ok || !t.Equal(exp) {
			got := "-"
			if ok {
				got = t.UTC().Format(time.RFC3339Nano)
			}
			o.Law("datetime_text_reading_differs", map[string]interface{}{"zone": z.label, "formats": fmts, "text": text, "got": got,
				"want": exp.UTC().Format(time.RFC3339Nano), "how": how})
		}
		o.Eval()
	}

	for zi, l := range zs {
		z := l.z
		locs := []*time.Location{z.fixed()}
		if l.loc != nil {
			locs = append(locs, l.loc)
		}
		// the boundary texts and random datetime-looking texts of dtext.go, now under every zone
		for li, loc := range locs {
			for i, t := range dateBoundaryTexts {
				if zi == 0 && li == 0 || (i+zi+li)%2 == 0 {
					read(z, loc, li == 0, nil, t)
				}
			}
			for k := 0; k < n/16; k++ {
				s := dateText(g)
				if g.Intn(5) == 0 {
					s = rfc822Text(g)
				}
				if g.Intn(8) == 0 {
					s = spacePool[g.Intn(8)] + s + spacePool[g.Intn(8)]
				}
				_, ok := read(z, loc, li == 0, nil, s)
				o.NonTrivial(fmt.Sprintf("sdtz:rand:%s:%v:%d", z.label, ok, len(s)/4))
			}
		}
		// texts rendered from a known wall clock in the session zone, every built-in form
		for k := 0; k < n/40+6; k++ {
			for li, loc := range locs {
				wall := randomWall(g, loc)
				for fi, f := range zBuiltin {
					w := wall
					if f.prec > 0 {
						w = truncWall(wall, f.prec, loc)
					}
					var text string
					if f.zoneless {
						text = w.Format(f.layout)
					} else {
						// the same instant written in some other zone, with its offset
						oz := time.FixedZone("", []int{0, 32400, -18000, 19800, -34200, 3600}[g.Intn(6)])
						text = w.In(oz).Format(f.layout)
					}
					t, ok := read(z, loc, li == 0, nil, text)
					if f.prec > 0 && !(strings.Contains(f.layout, " 06 ") && (w.Add(-26*time.Hour).Year() < 1969 || w.Add(26*time.Hour).Year() > 2068)) { // two-digit years: the year written in ANY zone must lie in 1969..2068
						want(z, nil, text, t, ok, w, f.layout)
					}
					o.NonTrivial(fmt.Sprintf("sdtz:%s:%d:%d:%v", z.label, li, fi, ok))
				}
			}
		}
		// user formats
		for pi, zf := range zfmtPool {
			if zf.fmts == nil {
				continue
			}
			for k := 0; k < n/400+3; k++ {
				for li, loc := range locs {
					wall := randomWall(g, loc)
					if zf.y2 && (wall.Add(-26*time.Hour).Year() < 1969 || wall.Add(26*time.Hour).Year() > 2068) {
						wall = wall.AddDate(2000-wall.Year(), 0, 0)
					}
					for fi, f := range zf.fmts {
						w := wall
						if zf.prec > 0 {
							w = truncWall(wall, zf.prec, loc)
						}
						text := renderPattern(f, w)
						t, ok := read(z, loc, li == 0, zf.fmts, text)
						if zf.prec > 0 && fi == 0 {
							want(z, zf.fmts, text, t, ok, w, f)
						}
						o.NonTrivial(fmt.Sprintf("sdtz:user:%s:%d:%d:%v", z.label, pi, fi, ok))
						if g.Intn(3) == 0 {
							read(z, loc, li == 0, zf.fmts, mutateText(g, text))
						}
					}
					// a built-in form under user formats: the loop falls through to the dispatch
					read(z, loc, li == 0, zf.fmts, wall.Format(zBuiltin[g.Intn(len(zBuiltin))].layout))
				}
			}
		}
		// random patterns (the model alone decides)
		for k := 0; k < n/40+10; k++ {
			// (fixed zone only: a pattern without a year reads as year 0, where a tz-database zone is on local mean
			// time and its abbreviations of later years are matched by name alone)
			loc := locs[0]
			fm := []string{randomPattern(g)}
			if g.Intn(3) == 0 {
				fm = append(fm, randomPattern(g))
			}
			wall := randomWall(g, loc)
			text := renderPattern(fm[g.Intn(len(fm))], wall)
			if g.Intn(6) == 0 {
				text = mutateText(g, text)
			}
			_, ok := read(z, loc, loc == locs[0], fm, text)
			o.Count(fmt.Sprintf("sdtz:randpat:%v", ok))
			o.NonTrivial(fmt.Sprintf("sdtz:randpat:%s:%v:%d", z.label, ok, len(fm[0])/3))
		}
	}

	// ---- operator positions ----
	for _, l := range zs {
		z := l.z
		for pi, zf := range zfmtPool {
			if pi > 0 && pi%4 != int(g.Intn(4)) && zf.prec != 24*time.Hour {
				continue
			}
			loc := z.fixed()
			var zp *hc.Proc
			if l.loc != nil {
				zp = hc.NewProc("")
				if err := zp.P.Tx.SetFlag(option.TimezoneFlag, z.iana); err != nil {
					zp.Close()
					zp = nil
				}
			}
			if zp != nil {
				for _, f := range zf.fmts {
					_ = zp.P.Tx.SetFlag(option.DatetimeFormatFlag, f)
				}
			}
			tok := sessTok(z.off, z.abbr, zf.fmts)
			// the pool: a few instants around a midnight of the session zone, each in several spellings
			day := time.Date([]int{2020, 2012, 1999}[g.Intn(3)], time.Month([]int{9, 10, 1, 12}[g.Intn(4)]), []int{1, 9, 10, 31}[g.Intn(4)], 0, 0, 0, 0, loc)
			instants := []time.Time{day, day.Add(3 * time.Hour), day.Add(-time.Second), day.AddDate(0, 0, 1), day.AddDate(0, 1, 0), day.Add(time.Duration(z.off) * time.Second), day.Add(-time.Duration(z.off) * time.Second)}
			var pool []value.Primary
			add := func(s string) { pool = append(pool, value.NewString(s)) }
			for _, t := range instants {
				add(t.Format("2006-01-02 15:04:05"))
				add(t.Format("2006-01-02T15:04:05"))
				add(t.Format("2006/1/2 15:04:05"))
				add(t.UTC().Format(time.RFC3339Nano))
				add(t.In(time.FixedZone("", 12600)).Format("2006-01-02 15:04:05 -07:00"))
				pool = append(pool, value.NewDatetime(t), value.NewDatetime(t.UTC()))
				if t.Hour() == 0 && t.Minute() == 0 && t.Second() == 0 {
					add(t.Format("2006-01-02"))
					add(t.Format("2006-1-2"))
					add(t.Format("2006/01/02"))
					add(" " + t.Format("2006/1/2") + " ")
				}
				for _, f := range zf.fmts {
					add(renderPattern(f, t))
				}
			}
			add("abc")
			add("20200901")
			add("2020")
			pool = append(pool, value.NewNull(), value.NewInteger(day.Unix()), value.NewFloat(1.5), value.NewTernary(ternary.TRUE))
			pick := func() value.Primary { return pool[g.Intn(len(pool))] }

			for k := 0; k < n/100+12; k++ {
				a, b := pick(), pick()
				r := value.CompareCombinedly(a, b, zf.fmts, loc)
				res := []ternary.Value{value.Equal(a, b, zf.fmts, loc), value.NotEqual(a, b, zf.fmts, loc), value.Less(a, b, zf.fmts, loc),
					value.LessOrEqual(a, b, zf.fmts, loc), value.Greater(a, b, zf.fmts, loc), value.GreaterOrEqual(a, b, zf.fmts, loc)}
				enc := make([]string, len(res))
				for i, t := range res {
					enc[i] = hc.EncT(t)
				}
				o.Case("c06.zcmp "+tok+" "+hc.EncVal(a)+" "+hc.EncVal(b), cmpNames[r]+" "+strings.Join(enc, " "))
				o.NonTrivial(fmt.Sprintf("zcmp:%s:%d:%s/%s/%s", z.label, pi, hc.ClassName(a), hc.ClassName(b), cmpNames[r]))
				pairCase := []string{hc.EncVal(a), hc.EncVal(b), z.label, fmt.Sprint(zf.fmts)}
				if res[2] != value.Greater(b, a, zf.fmts, loc) {
					o.Law("lt_iff_gt", pairCase)
				}
				if res[0] != value.Equal(b, a, zf.fmts, loc) {
					o.Law("eq_symm", pairCase)
				}
				if res[1] != ternary.Not(res[0]) {
					o.Law("ne_not_eq", pairCase)
				}
				if r == value.IsEqual || r == value.IsLess || r == value.IsGreater {
					if res[3] != ternary.Or(res[2], res[0]) || res[5] != ternary.Or(res[4], res[0]) {
						o.Law("le_expand", pairCase)
					}
				}
				// the same through SELECT text in a session with the tz-database zone
				if zp != nil {
					if lits, ok := sqlLits(a, b); ok {
						var exprs []string
						for _, op := range []string{"=", "<>", "<", "<=", ">", ">="} {
							exprs = append(exprs, lits[0]+" "+op+" "+lits[1])
						}
						if _, isNull := a.(*value.Null); !isNull {
							if row, err := evalRow(zp, exprs...); err != nil {
								o.Law("zone_sql_error", err.Error())
							} else if ternsOf(row) != strings.Join(enc, " ") {
								o.Law("sql_eq_direct", map[string]interface{}{"zone": z.iana, "formats": zf.fmts, "a": lits[0], "b": lits[1], "sql": ternsOf(row), "direct": strings.Join(enc, " ")})
							}
							o.Eval()
						}
					}
				}
			}
			if zp != nil {
				for k := 0; k < n/200+6; k++ {
					v, lo, hi := pick(), pick(), pick()
					if lits, ok := sqlLits(v, lo, hi); ok {
						row, err := evalRow(zp, lits[0]+" BETWEEN "+lits[1]+" AND "+lits[2], lits[0]+" NOT BETWEEN "+lits[1]+" AND "+lits[2])
						if err != nil {
							o.Law("zone_sql_error", err.Error())
							continue
						}
						o.Case("c06.zbetween "+tok+" "+hc.EncVal(v)+" "+hc.EncVal(lo)+" "+hc.EncVal(hi), ternsOf(row))
						o.NonTrivial(fmt.Sprintf("zbetween:%s:%d:%s", z.label, pi, ternsOf(row)))
					}
					items := []value.Primary{pick(), pick(), pick()}[:1+g.Intn(3)]
					if lits, ok := sqlLits(append([]value.Primary{v}, items...)...); ok {
						list := strings.Join(lits[1:], ", ")
						row, err := evalRow(zp, lits[0]+" IN ("+list+")", lits[0]+" NOT IN ("+list+")")
						if err != nil {
							o.Law("zone_sql_error", err.Error())
							continue
						}
						enc := []string{hc.EncVal(v)}
						for _, it := range items {
							enc = append(enc, hc.EncVal(it))
						}
						o.Case("c06.zin "+tok+" "+strings.Join(enc, " "), ternsOf(row))
						o.NonTrivial(fmt.Sprintf("zin:%s:%d:%s", z.label, pi, ternsOf(row)))
						// CASE v WHEN … : the index of the first equal item
						var sb strings.Builder
						sb.WriteString("CASE " + lits[0])
						for i, it := range lits[1:] {
							fmt.Fprintf(&sb, " WHEN %s THEN %d", it, i)
						}
						sb.WriteString(" END")
						crow, err := evalRow(zp, sb.String())
						if err != nil {
							o.Law("zone_sql_error", err.Error())
							continue
						}
						got := "-"
						if iv, ok := crow[0].(*value.Integer); ok {
							got = fmt.Sprint(iv.Raw())
						}
						o.Case("c06.zcase "+tok+" "+strings.Join(enc, " "), got)
						o.NonTrivial(fmt.Sprintf("zcase:%s:%d:%s", z.label, pi, got))
					}
				}
				// a date written alone is the midnight that begins it, in every zone and every spelling
				for _, d := range []string{day.Format("2006-01-02"), day.Format("2006/01/02"), day.Format("2006-1-2"), day.Format("2006/1/2")} {
					for _, m := range []string{day.Format("2006-01-02 15:04:05"), day.Format("2006-01-02T15:04:05"), day.Format(time.RFC3339), day.UTC().Format("2006-01-02 15:04:05 Z07:00")} {
						row, err := evalRow(zp, "'"+d+"' = '"+m+"'", "'"+d+"' < '"+day.Add(time.Hour).Format("2006-01-02 15:04:05")+"'",
							"'"+day.Add(3*time.Hour).Format("2006-01-02 15:04:05")+"' BETWEEN '"+d+"' AND '"+day.AddDate(0, 0, 1).Format("2006-01-02")+"'",
							"'"+d+"' = "+"DATETIME('"+day.UTC().Format(time.RFC3339)+"')")
						if err != nil || ternsOf(row) != "T T T T" {
							o.Law("date_only_eq_midnight", map[string]interface{}{"zone": z.iana, "date": d, "midnight": m, "got": fmt.Sprint(err) + ternsOf(row)})
						}
						o.Eval()
					}
				}
				zp.Close()
			}
		}
	}
	// two zone-less texts: the answer does not depend on the session zone
	zl := []string{"2020-09-01", "2020-9-1", "2020/09/01", "2020-09-01 00:00:00", "2020-09-01T00:00:00", "2020/9/1 0:00:00", "2020-10-01", "2020-09-01 03:00:00",
		"2020-08-31 23:59:59", "2020-09-02", "2020-09-01 00:00:00.000000001", "2020/10/1", "2020-09-01 09:00:00", "2020-08-31 19:00:00"}
	for _, a := range zl {
		for _, b := range zl {
			by := map[string]string{}
			differ := false
			for _, z := range zsessions {
				by[z.label] = cmpNames[value.CompareCombinedly(value.NewString(a), value.NewString(b), nil, z.fixed())]
				if by[z.label] != by["UTC"] {
					differ = true
				}
			}
			if differ {
				o.Law("zone_shift_invariant", map[string]interface{}{"a": a, "b": b, "by_zone": by})
			}
			o.Eval()
		}
	}
}

// truncWall: the wall clock of `t` in `loc` cut to the precision a spelling keeps
func truncWall(t time.Time, prec time.Duration, loc *time.Location) time.Time {
	t = t.In(loc)
	switch {
	case prec >= 24*time.Hour:
		return time.Date(t.Year(), t.Month(), t.Day(), 0, 0, 0, 0, loc)
	case prec >= time.Minute:
		return time.Date(t.Year(), t.Month(), t.Day(), t.Hour(), t.Minute(), 0, 0, loc)
	default:
		ns := t.Nanosecond() - t.Nanosecond()%int(prec)
		return time.Date(t.Year(), t.Month(), t.Day(), t.Hour(), t.Minute(), t.Second(), ns, loc)
	}
}

// zonelessText: one of the spellings the pool writes without a zone
func zonelessText(s string) bool {
	s = strings.TrimSpace(s)
	if len(s) < 8 || s[0] < '0' || s[0] > '9' || !(s[4] == '-' || s[4] == '/') {
		return false
	}
	return !strings.ContainsAny(s[8:], "Z+") && strings.Count(s, "-") <= 2
}
