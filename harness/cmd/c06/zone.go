package main

import (
	"fmt"
	"time"

	"github.com/mithrandie/csvq/lib/option"

	"verifharness/hc"
)

// zoneLaws: a datetime text WITHOUT a zone means that wall-clock time in the session's time zone — in every
// spelling csvq reads.  Under each session zone, all zone-less spellings of one wall-clock time are equal to each
// other and to the spelling that carries the zone's offset explicitly, they are ordered against other instants by
// instant, and the comparison operators agree.  (The conversion text → datetime is a parameter of the Lean model;
// this is its independent check.)
func zoneLaws(o *hc.Out) {
	for _, zone := range []string{"UTC", "Asia/Tokyo", "America/Los_Angeles", "Asia/Kolkata"} {
		loc, err := time.LoadLocation(zone)
		if err != nil {
			o.Count("zone_unavailable:" + zone)
			continue
		}
		pr := hc.NewProc("")
		if err := pr.P.Tx.SetFlag(option.TimezoneFlag, zone); err != nil {
			o.Count("zone_unavailable:" + zone)
			pr.Close()
			continue
		}
		for _, wall := range []time.Time{time.Date(2012, 2, 3, 9, 18, 15, 0, loc), time.Date(2020, 7, 31, 23, 59, 59, 0, loc), time.Date(1999, 12, 31, 0, 0, 0, 0, loc)} {
			w := wall.Format
			zoneless := []string{w("2006-01-02 15:04:05"), w("2006/01/02 15:04:05"), w("2006-01-02T15:04:05"), w("2006-01-02 15:04:05") + ".000", w("2006-01-02T15:04:05") + ".0", w("2006-1-2 15:04:05"), w("2006/1/2 15:04:05")}
			explicit := []string{wall.Format(time.RFC3339), wall.UTC().Format("2006-01-02T15:04:05Z"), wall.Format("2006-01-02 15:04:05 -07:00"), wall.Format("2006-01-02 15:04:05 -0700")}
			later := wall.Add(time.Hour)
			laterForms := []string{later.Format("2006-01-02 15:04:05"), later.Format("2006-01-02T15:04:05"), later.Format(time.RFC3339), later.Format("2006/01/02 15:04:05")}
			ask := func(expr string) string {
				v, err := pr.Query("SELECT " + expr)
				if err != nil {
					return "E:" + err.Error()
				}
				return hc.EncVal(hc.ViewCell(v, 0, 0))
			}
			want := func(expr, w string) {
				if got := ask(expr); got != w {
					o.Law("zoneless_datetime_reading", map[string]interface{}{"zone": zone, "expr": expr, "got": got, "want": w})
				}
				o.Eval()
			}
			all := append(append([]string{}, zoneless...), explicit...)
			for i, a := range all {
				for j, b := range all {
					if i == j {
						continue
					}
					want(fmt.Sprintf("'%s' = '%s'", a, b), "TT")
					want(fmt.Sprintf("'%s' < '%s'", a, b), "TF")
					want(fmt.Sprintf("'%s' >= '%s'", a, b), "TT")
				}
				want(fmt.Sprintf("UNIX_TIME('%s')", a), fmt.Sprintf("I%d", wall.Unix()))
				for _, l := range laterForms {
					want(fmt.Sprintf("'%s' < '%s'", a, l), "TT")
					want(fmt.Sprintf("'%s' BETWEEN '%s' AND '%s'", l, a, l), "TT")
					want(fmt.Sprintf("'%s' > '%s'", a, l), "TF")
				}
			}
			o.NonTrivial("zone:" + zone + ":" + wall.Format("2006"))
		}
		pr.Close()
	}
}
