package main

import (
	"fmt"
	"os"
	"strings"

	"verifharness/hc"
)

const udaProlog = "DECLARE pick AGGREGATE (c, @w) AS BEGIN VAR @best := NULL; VAR @v; WHILE @v IN c DO IF @best IS NULL OR @v * @w > @best THEN @best := @v * @w; END IF; END WHILE; RETURN @best; END;\n"
const udfProlog = "DECLARE twice FUNCTION (@x) AS BEGIN RETURN @x * 2; END;\n"

func main() {
	dir := os.Args[1]
	queries := []string{
			"SELECT id, a + 1 AS a1, c FROM big WHERE a > 3 AND c <> 'x'",
			"SELECT b, COUNT(*), SUM(a), MIN(a), MAX(a), AVG(a), LISTAGG(id, ',') FROM big GROUP BY b",
			"SELECT b, c, COUNT(*) FROM big GROUP BY b, c HAVING COUNT(*) > 1",
			"SELECT DISTINCT b, c FROM big",
			"SELECT id FROM big ORDER BY b, a DESC, id",
			"SELECT x.id, y.id FROM big x JOIN small y ON x.b = y.b",
			"SELECT x.id, y.id FROM big x LEFT JOIN small y ON x.b = y.b AND y.d = 'p'",
			"SELECT x.id, y.id FROM small y RIGHT JOIN big x ON x.b = y.b",
			"SELECT x.id, y.id FROM big x FULL JOIN small y ON x.b = y.b",
			"SELECT x.id, y.id FROM big x CROSS JOIN small y WHERE y.id < 2",
			"SELECT id, ROW_NUMBER() OVER (PARTITION BY b ORDER BY a, id) AS rn, SUM(a) OVER (PARTITION BY b) AS s, RANK() OVER (ORDER BY b) AS rk FROM big",
			"SELECT b FROM big UNION SELECT b FROM small",
			"SELECT b FROM big EXCEPT SELECT b FROM small",
			"SELECT b FROM big INTERSECT ALL SELECT b FROM small",
			"SELECT id FROM big WHERE b IN (SELECT b FROM small WHERE d = 'p')",
			"SELECT id, (SELECT COUNT(*) FROM small s WHERE s.b = big.b) AS n FROM big WHERE id < 40",
			"SELECT b, MEDIAN(a), COUNT(DISTINCT c) FROM big GROUP BY b ORDER BY b LIMIT 5 WITH TIES",
			"SELECT id, SUM(a) OVER (ORDER BY id) AS s, LAG(a) OVER (ORDER BY id) AS l, RANK() OVER (ORDER BY a DESC) AS rk, LISTAGG(c, ',') OVER (PARTITION BY b) AS la FROM big",
			"SELECT id, FIRST_VALUE(a) OVER (PARTITION BY b ORDER BY id ROWS BETWEEN 1 PRECEDING AND 1 FOLLOWING) AS f, NTILE(3) OVER (PARTITION BY c ORDER BY id) AS nt, CUME_DIST() OVER (PARTITION BY b ORDER BY a) AS cd FROM big",
			udaProlog + "SELECT id, pick(id, a) OVER (PARTITION BY b) AS p, pick(a, id) OVER (PARTITION BY c ORDER BY id) AS q FROM big",
			udaProlog + "SELECT b, pick(id, 1), pick(a, 2) FROM big GROUP BY b",
			udfProlog + "SELECT id, twice(a) AS t FROM big WHERE twice(b) > 2",
		}

	for qi, q := range queries {
		var ref [][]string
		refCPU := 0
		for _, cpu := range []int{1, 2, 3, 4, 8, 16} {
			for rep := 0; rep < 2; rep++ {
				pr := hc.NewProc(dir)
				pr.SetCPU(cpu)
				qq := q
				if k := strings.LastIndex(q, ";\n"); k >= 0 {
					pr.Exec(q[:k+1])
					qq = q[k+2:]
				}
				v, err := pr.Query(qq)
				if err != nil {
					pr.Close()
					continue
				}
				rows := make([][]string, v.RecordLen())
				for i := range rows {
					rows[i] = make([]string, v.FieldLen())
					for j := range rows[i] {
						rows[i][j] = hc.EncVal(hc.ViewCell(v, i, j))
					}
				}
				pr.Close()
				if ref == nil {
					ref, refCPU = rows, cpu
					continue
				}
				n := 0
				for i := range rows {
					if i < len(ref) && fmt.Sprint(rows[i]) != fmt.Sprint(ref[i]) {
						if n < 2 {
							fmt.Println("q", qi, "cpu", refCPU, "vs", cpu, "rep", rep, "row", i, ref[i], "vs", rows[i])
						}
						n++
					}
				}
				if n > 0 || len(rows) != len(ref) {
					fmt.Println("q", qi, "cpu", cpu, "rep", rep, "differing rows:", n, len(rows), len(ref))
				}
			}
		}
	}
}
