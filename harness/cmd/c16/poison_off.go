//go:build !verif

package main

func setPoison(on bool) bool { return false }
