// Cursors declared FOR a prepared statement with placeholders (kind qStmtH over psh0 … psh3), opened with and without
// USING at top level and NESTED inside EXECUTE … USING (1–3 levels), inside a user-defined function and inside a
// SOURCE file.  The values an OPEN binds are ONLY those of its own USING list — an empty frame without USING —, whatever
// the surrounding EXECUTEs bind: the harness computes what every statement of the program must answer from the OPEN's
// own list alone (laws open_sees_only_its_own_values / open_without_values_refused / failed_open_leaves_cursor_closed),
// the Lean model (CursorStmt.runP) gets the whole program as one `c16.prog` line.
//
// The SQL of a program is quote-free (the tags of the trace table are variables), so that the statements of an
// EXECUTE level can be the text of a PREPARE … FROM '…' at any depth.
package main

import (
	"context"
	"encoding/hex"
	"fmt"
	"os"
	"os/exec"
	"path/filepath"
	"strings"
	"time"

	"verifharness/hc"
)

type hshape struct {
	text, cond string
}

var hShapes = []hshape{
	{"SELECT id, v FROM t WHERE id > ?", "gt ?1"},
	{"SELECT id, v FROM t WHERE id > :lo", "gt :lo"},
	{"SELECT id, v FROM t WHERE id > ? AND id < ?", "and gt ?1 lt ?2"},
	{"SELECT id, v FROM t WHERE id > :lo AND id < :hi", "and gt :lo lt :hi"},
}

// progSetup: the prepared statements of the qStmtH cursors and the tag variables of the quote-free trace
func progSetupSQL() string {
	var b strings.Builder
	b.WriteString("VAR @tok := 'ok', @tsc := 'sc', @tst := 'st', @tf2 := 'f2', @til := '~';")
	for i, s := range hShapes {
		fmt.Fprintf(&b, " PREPARE psh%d FROM '%s';", i, s.text)
	}
	return b.String()
}

// rv: one item of a USING list — a literal, or (hold != "") a placeholder of the SURROUNDING prepared statement
// ("?" with the ordinal the parser gives it in that statement's text, or ":name"), optionally + plus
type rv struct {
	val  int
	name string
	hold string
	ord  int
	plus int
}

func (u rv) exprSQL() string {
	if u.hold == "" {
		return fmt.Sprint(u.val)
	}
	if u.plus != 0 {
		return fmt.Sprintf("%s + %d", u.hold, u.plus)
	}
	return u.hold
}

func (u rv) exprTok() string {
	if u.hold == "" {
		return fmt.Sprint(u.val)
	}
	t := u.hold
	if u.hold == "?" {
		t = fmt.Sprintf("?%d", u.ord)
	}
	if u.plus != 0 {
		t += fmt.Sprintf("+%d", u.plus)
	}
	return t
}

// evalIn: the harness' own reading of a USING item written in a statement that runs under the frames `outer`
// (innermost last): a placeholder is one of THAT statement — the innermost of `outer` gives its expression, which was
// written one level further out
func evalIn(u rv, outer [][]rv) (int, bool) {
	if u.hold == "" {
		return u.val, true
	}
	if len(outer) == 0 {
		return 0, false
	}
	fr, rest := outer[len(outer)-1], outer[:len(outer)-1]
	var v int
	var ok bool
	if u.hold == "?" {
		v, ok = ownPos(fr, rest, u.ord)
	} else {
		v, ok = ownNamed(fr, rest, u.hold[1:])
	}
	return v + u.plus, ok
}

func usingSQL(us []rv) string {
	if len(us) == 0 {
		return ""
	}
	p := make([]string, len(us))
	for i, u := range us {
		p[i] = u.exprSQL()
		if u.name != "" {
			p[i] += " AS " + u.name
		}
	}
	return " USING " + strings.Join(p, ", ")
}

func usingTokens(us []rv) string {
	p := make([]string, len(us))
	for i, u := range us {
		p[i] = u.exprTok()
		if u.name != "" {
			p[i] += "@" + u.name
		}
	}
	if len(p) == 0 {
		return ""
	}
	return " " + strings.Join(p, " ")
}

// the harness' own reading of a placeholder: ONLY the list of the OPEN itself
func ownPos(us []rv, outer [][]rv, k int) (int, bool) {
	if k < 1 || len(us) < k {
		return 0, false
	}
	return evalIn(us[k-1], outer)
}

func ownNamed(us []rv, outer [][]rv, n string) (int, bool) {
	for i := len(us) - 1; i >= 0; i-- {
		if us[i].name == n {
			return evalIn(us[i], outer)
		}
	}
	return 0, false
}

// evalShape: the rows the statement selects with the OPEN's own values; false: a placeholder that is read has no value
// (the WHERE clause is evaluated row by row; the right operand of AND only for rows that pass the left one)
func evalShape(shape int, us []rv, outer [][]rv, t []row) ([]string, bool) {
	out := []string{}
	for _, r := range t {
		var lo, hi int
		var ok bool
		switch shape {
		case 0, 2:
			lo, ok = ownPos(us, outer, 1)
		default:
			lo, ok = ownNamed(us, outer, "lo")
		}
		if !ok {
			return nil, false
		}
		if !(r.id > int64(lo)) {
			continue
		}
		if shape >= 2 {
			if shape == 2 {
				hi, ok = ownPos(us, outer, 2)
			} else {
				hi, ok = ownNamed(us, outer, "hi")
			}
			if !ok {
				return nil, false
			}
			if !(r.id < int64(hi)) {
				continue
			}
		}
		out = append(out, r.idTok+","+r.vTok)
	}
	return out, true
}

type pitem struct {
	kind byte // 'O' open, 'A' other statement, 'X' execute, 'F' function call, 'S' source
	name string
	us   []rv
	act  *lstmt
	body []*pitem
}

func (h *hist) genUsing(shape int, forOpen bool) []rv {
	g := h.g
	val := func() int { return g.Intn(int(h.nextID)+3) - 1 }
	var us []rv
	switch shape {
	case 0:
		us = []rv{{val: val(), name: ""}}
	case 1:
		us = []rv{{val: val(), name: "lo"}}
	case 2:
		lo := val()
		us = []rv{{val: lo, name: ""}, {val: lo + 1 + g.Intn(int(h.nextID)+2), name: ""}}
	default:
		lo := val()
		us = []rv{{val: lo, name: "lo"}, {val: lo + 1 + g.Intn(int(h.nextID)+2), name: "hi"}}
		if g.Intn(3) == 0 {
			us[0], us[1] = us[1], us[0]
		}
	}
	switch g.Intn(12) {
	case 0: // one value short
		us = us[:len(us)-1]
	case 1: // the other spelling: names where the statement counts, positions where it names
		for i := range us {
			if us[i].name == "" {
				us[i].name = []string{"lo", "hi"}[i%2]
			} else {
				us[i].name = ""
			}
		}
	case 2: // a name twice: the later entry is the one that counts
		if us[0].name != "" {
			us = append([]rv{{val: val(), name: us[0].name}}, us...)
		}
	case 3: // a value more than the statement reads
		us = append(us, rv{val: val(), name: ""})
	}
	_ = forOpen
	return us
}

// genProg: items of one level
// prep: the statements of this level are the text of a prepared statement (the body of an EXECUTE level): a USING
// item may then be a placeholder of that text — `?`, `:name`, `? + k` —, read from the list of the EXECUTE that runs it
func (h *hist) genProg(focus string, shape, depth int, top, prep bool, around []rv) []*pitem {
	g := h.g
	spell := func() string {
		var alts []string
		for _, n := range namePool {
			if key(n) == key(focus) {
				alts = append(alts, n)
			}
		}
		return alts[g.Intn(len(alts))]
	}
	act := func() *pitem {
		st := &lstmt{name: spell()}
		switch w := g.Intn(10); {
		case w < 5:
			st.kind, st.pos = "fetch", []string{"next", "next", "first", "last", "prior"}[g.Intn(5)]
		case w < 7:
			st.kind = "count"
		case w < 8:
			st.kind = "isopen"
		case w < 9:
			st.kind = "inrange"
		default:
			st.kind = "close"
		}
		return &pitem{kind: 'A', act: st}
	}
	// some items become placeholders of the surrounding text
	holds := func(us []rv) []rv {
		if !prep || placeholderFatal || g.Intn(5) < 2 {
			return us
		}
		for i := range us {
			if g.Intn(5) < 2 {
				continue
			}
			us[i].hold = "?"
			if g.Intn(5) < 2 {
				names := []string{"lo", "hi"}
				for _, a := range around {
					if a.name != "" {
						names = append(names, a.name, a.name)
					}
				}
				us[i].hold = ":" + names[g.Intn(len(names))]
			}
			us[i].plus = []int{0, 0, 1, 2}[g.Intn(4)]
		}
		return us
	}
	open := func() *pitem {
		it := &pitem{kind: 'O', name: spell()}
		if g.Intn(5) < 3 {
			it.us = holds(h.genUsing(shape, true))
		}
		return it
	}
	var out []*pitem
	n := 1 + g.Intn(2)
	if top {
		n = 1 + g.Intn(3)
		// mostly on a closed cursor: the OPENs further down are what the program is about
		if c, ok := h.curs[key(focus)]; ok && c.open && g.Intn(5) > 0 {
			out = append(out, &pitem{kind: 'A', act: &lstmt{kind: "close", name: spell()}})
		}
	}
	for i := 0; i < n; i++ {
		w := g.Intn(100)
		switch {
		case depth > 0 && w < 45:
			it := &pitem{kind: 'X'}
			if g.Intn(6) > 0 {
				// the surrounding values would select OTHER rows than the OPEN's own (or rows at all)
				it.us = holds(h.genUsing([]int{shape, shape, g.Intn(4)}[g.Intn(3)], false))
			}
			it.body = h.genProg(focus, shape, depth-1, false, true, it.us)
			out = append(out, it)
		case depth > 0 && w < 55:
			out = append(out, &pitem{kind: 'F', body: h.genProg(focus, shape, depth-1, false, false, nil)})
		case depth > 0 && w < 63:
			out = append(out, &pitem{kind: 'S', body: h.genProg(focus, shape, depth-1, false, false, nil)})
		case w < 85:
			out = append(out, open())
		default:
			out = append(out, act())
		}
	}
	if top {
		// the rows the cursor holds now are looked at
		out = append(out, act(), &pitem{kind: 'A', act: &lstmt{kind: "count", name: spell()}})
	}
	return out
}

// assignOrdinals: a `?` that is the k-th PLACEHOLDER (of either spelling) of the text of one prepared statement is ?{k} (lib/parser numbers them while it scans);
// the USING lists of the OPEN and EXECUTE statements of a level stand in that level's text, in order
func assignOrdinals(l []*pitem, counter *int) {
	for _, it := range l {
		if it.kind == 'O' || it.kind == 'X' {
			for i := range it.us {
				if it.us[i].hold != "" && counter != nil {
					*counter++ // (a named placeholder takes a number too: lib/parser/scanner.go)
					if it.us[i].hold == "?" {
						it.us[i].ord = *counter
					}
				}
			}
		}
		switch it.kind {
		case 'X':
			n := 0
			assignOrdinals(it.body, &n)
		case 'F', 'S':
			assignOrdinals(it.body, nil)
		}
	}
}

func hasHolds(l []*pitem) bool {
	for _, it := range l {
		for _, u := range it.us {
			if u.hold != "" {
				return true
			}
		}
		if hasHolds(it.body) {
			return true
		}
	}
	return false
}

func stripHolds(l []*pitem) {
	for _, it := range l {
		for i := range it.us {
			it.us[i].hold, it.us[i].ord, it.us[i].plus = "", 0, 0
		}
		stripHolds(it.body)
	}
}

// ---------- the same programs as real csvq processes ----------

// A Go runtime fatal (stack overflow: finding F118, a placeholder in a USING list read itself without end) cannot be
// recovered in-process, so programs with placeholders in USING lists also run on the binary built from the tree
// (env VERIF_CSVQ) under a timeout: law runtime_fatal:placeholder_in_using with the script as replay.  Once seen, the
// stream stops generating such items (they would end the harness itself).
var csvqBin = os.Getenv("VERIF_CSVQ")
var placeholderFatal = false
var procRuns = 0

const procRunCap = 40

func runCsvq(dir, script string) (string, int, bool) {
	path := filepath.Join(dir, "proc.sql")
	if err := os.WriteFile(path, []byte(script+"\n"), 0o644); err != nil {
		panic(err)
	}
	defer os.Remove(path)
	cctx, cancel := context.WithTimeout(context.Background(), 40*time.Second)
	defer cancel()
	cmd := exec.CommandContext(cctx, csvqBin, "-r", dir, "-s", path)
	cmd.Dir = dir
	out, err := cmd.CombinedOutput()
	code := 0
	if err != nil {
		code = -1
		if ee, ok := err.(*exec.ExitError); ok {
			code = ee.ExitCode()
		}
	}
	return string(out), code, cctx.Err() != nil
}

func fatalOutput(out string, code int) bool {
	return strings.Contains(out, "fatal error") || strings.Contains(out, "panic:") || strings.Contains(out, "[Fatal Error]") ||
		strings.Contains(out, "goroutine ") || code == 2
}

func reportFatal(o *hc.Out, what, script, out string, code int, timedOut bool) {
	if len(out) > 700 {
		out = out[:700] + " …"
	}
	o.Law("runtime_fatal:placeholder_in_using", map[string]interface{}{"what": what, "script": script, "exit_status": code, "timed_out": timedOut, "output": out,
		"rule": "a placeholder in the USING list of an EXECUTE / OPEN that stands in a prepared statement is a placeholder of THAT statement; reading it must end (F118)"})
}

// probePlaceholders: the two reproducers of F118, as processes, before anything of the kind runs in-process
func probePlaceholders(o *hc.Out, dir string) {
	if csvqBin == "" {
		o.Count("process_level_runs_skipped_no_binary")
		return
	}
	scripts := []struct{ what, sql string }{
		{"F118 EXECUTE … USING ? inside a prepared statement", "PREPARE pin FROM 'SELECT ? + 100'; PREPARE pout FROM 'EXECUTE pin USING ?;'; EXECUTE pout USING 5;"},
		{"F118 OPEN … USING ?, 4 inside a prepared statement", "DECLARE t VIEW (id, v); INSERT INTO t VALUES (1, 'a'), (2, 'b'), (3, 'c'), (4, 'd'); PREPARE pick FROM 'SELECT id, v FROM t WHERE id > ? AND id < ?'; DECLARE cur CURSOR FOR pick; PREPARE e1 FROM 'OPEN cur USING ?, 4;'; EXECUTE e1 USING 1; PRINT CURSOR cur COUNT;"},
	}
	want := []string{"105", "2"}
	for i, sc := range scripts {
		out, code, to := runCsvq(dir, sc.sql)
		o.Count("process_level_runs")
		if fatalOutput(out, code) || to {
			reportFatal(o, sc.what, sc.sql, out, code, to)
			placeholderFatal = true
			continue
		}
		if !strings.Contains(out, want[i]) {
			o.Law("using_placeholder_reads_surrounding_frame", map[string]interface{}{"what": sc.what, "script": sc.sql, "expected_in_output": want[i], "output": out, "exit_status": code})
		}
	}
}

func tokText(tok string) string {
	if tok == "N" {
		return "NULL"
	}
	b, err := hex.DecodeString(strings.TrimPrefix(tok, "S"))
	if err != nil {
		return "NULL"
	}
	return "'" + string(b) + "'"
}

// procScript: the program as a script of its own, over a temporary table with the rows of the shadow table
func (h *hist) procScript(focus string, shape int, prelude []string, sql string) string {
	var b strings.Builder
	b.WriteString("DECLARE t VIEW (id, v);")
	if len(h.t) > 0 {
		vals := make([]string, len(h.t))
		for i, r := range h.t {
			vals[i] = fmt.Sprintf("(%d, %s)", r.id, tokText(r.vTok))
		}
		b.WriteString(" INSERT INTO t VALUES " + strings.Join(vals, ", ") + ";")
	}
	b.WriteString(" VAR @c, @d, @s, @w; DECLARE lp VIEW (t, a, b); " + progSetupSQL())
	fmt.Fprintf(&b, " DECLARE %s CURSOR FOR psh%d; ", focus, shape)
	b.WriteString(strings.Join(prelude, " ") + " " + sql)
	return b.String()
}

func hasOpen(l []*pitem) bool {
	for _, it := range l {
		if it.kind == 'O' || hasOpen(it.body) {
			return true
		}
	}
	return false
}

func progTokens(l []*pitem) string {
	var p []string
	for _, it := range l {
		switch it.kind {
		case 'O':
			p = append(p, "O "+it.name+usingTokens(it.us)+" ;")
		case 'A':
			p = append(p, "A "+it.act.opTokens()+" ;")
		case 'X':
			p = append(p, "X"+usingTokens(it.us)+" { "+progTokens(it.body)+" }")
		case 'F':
			p = append(p, "F { "+progTokens(it.body)+" }")
		case 'S':
			p = append(p, "S { "+progTokens(it.body)+" }")
		}
	}
	return strings.Join(p, " ")
}

// quote-free SQL of a statement that is not an OPEN
func actSQL(st *lstmt) string {
	switch st.kind {
	case "close":
		return fmt.Sprintf("CLOSE %s; INSERT INTO lp VALUES (@tok, NULL, NULL);", st.name)
	case "count":
		return fmt.Sprintf("@s := CURSOR %s COUNT; INSERT INTO lp VALUES (@tsc, @s, NULL);", st.name)
	case "isopen":
		return fmt.Sprintf("@s := CURSOR %s IS OPEN; INSERT INTO lp VALUES (@tst, @s, NULL);", st.name)
	case "inrange":
		return fmt.Sprintf("@s := CURSOR %s IS IN RANGE; INSERT INTO lp VALUES (@tst, @s, NULL);", st.name)
	}
	return fmt.Sprintf("@c := @til; @d := @til; FETCH %s %s INTO @c, @d; INSERT INTO lp VALUES (@tf2, @c, @d);", strings.ToUpper(st.pos), st.name)
}

// progSQL renders one level; the levels below become prepared statements / functions / files of the prelude
func (h *hist) progSQL(l []*pitem, prelude, cleanup *[]string, files *[]string) string {
	var p []string
	for _, it := range l {
		switch it.kind {
		case 'O':
			p = append(p, fmt.Sprintf("OPEN %s%s; INSERT INTO lp VALUES (@tok, NULL, NULL);", it.name, usingSQL(it.us)))
		case 'A':
			p = append(p, actSQL(it.act))
		case 'X':
			body := h.progSQL(it.body, prelude, cleanup, files)
			h.fnCount++
			nm := fmt.Sprintf("pg%d", h.fnCount)
			*prelude = append(*prelude, fmt.Sprintf("PREPARE %s FROM '%s';", nm, body))
			*cleanup = append(*cleanup, fmt.Sprintf("DISPOSE PREPARE %s;", nm))
			p = append(p, fmt.Sprintf("EXECUTE %s%s;", nm, usingSQL(it.us)))
		case 'F':
			body := h.progSQL(it.body, prelude, cleanup, files)
			h.fnCount++
			nm := fmt.Sprintf("pf%d", h.fnCount)
			*prelude = append(*prelude, fmt.Sprintf("DECLARE %s FUNCTION () AS BEGIN %s RETURN 0; END;", nm, body))
			*cleanup = append(*cleanup, fmt.Sprintf("DISPOSE FUNCTION %s;", nm))
			p = append(p, fmt.Sprintf("@w := %s();", nm))
		case 'S':
			body := h.progSQL(it.body, prelude, cleanup, files)
			h.fnCount++
			path := filepath.Join(h.dir, fmt.Sprintf("pg%d.sql", h.fnCount))
			if err := os.WriteFile(path, []byte(body+"\n"), 0o644); err != nil {
				panic(err)
			}
			*files = append(*files, path)
			p = append(p, fmt.Sprintf("SOURCE `%s`;", path))
		}
	}
	return strings.Join(p, " ")
}

// the harness' own run of a program on its shadow cursors; true: an error ended it
type progSim struct {
	h      *hist
	shape  int
	curs   map[string]*cursor
	trace  []string
	inner  int // OPENs without USING executed under a surrounding non-empty USING list …
	leak   int // … of which the surrounding values would have satisfied the statement
	refuse int
	holds  int // placeholders in the USING list of an executed OPEN …
	holds2 int // … under a surrounding list that holds placeholders itself (two levels of indirection)
}

func (s *progSim) run(l []*pitem, outer [][]rv) bool {
	for _, it := range l {
		switch it.kind {
		case 'X':
			if s.run(it.body, append(outer, it.us)) {
				return true
			}
			continue
		case 'F', 'S':
			if s.run(it.body, outer) {
				return true
			}
			continue
		case 'A':
			sm := &sim{h: s.h, blocks: []map[string]*cursor{s.curs}}
			r := sm.stmt(it.act)
			s.trace = append(s.trace, r)
			if strings.HasPrefix(r, "E") {
				return true
			}
			continue
		}
		c := s.curs[key(it.name)]
		r := "ok"
		switch {
		case c == nil:
			r = "E11002"
		case c.open:
			r = "E11004"
		default:
			rows, ok := evalShape(s.shape, it.us, outer, s.h.t)
			surrounded := len(outer) > 0 && len(outer[len(outer)-1]) > 0
			if surrounded && len(it.us) == 0 {
				s.inner++
				if _, ok2 := evalShape(s.shape, outer[len(outer)-1], outer[:len(outer)-1], s.h.t); ok2 && !ok {
					s.leak++
				}
			}
			for _, u := range it.us {
				if u.hold != "" {
					s.holds++
					if len(outer) > 0 {
						for _, o := range outer[len(outer)-1] {
							if o.hold != "" {
								s.holds2++
								break
							}
						}
					}
				}
			}
			if !ok {
				r = "E13803"
				s.refuse++
			} else {
				c.open, c.snap, c.ptr, c.fetched, c.dmlSince, c.pendingOvf = true, rows, -1, false, false, nil
			}
		}
		s.trace = append(s.trace, r)
		if r != "ok" {
			return true
		}
	}
	return false
}

func depthOf(l []*pitem) int {
	d := 0
	for _, it := range l {
		if it.kind == 'X' {
			if x := 1 + depthOf(it.body); x > d {
				d = x
			}
		} else if x := depthOf(it.body); x > d {
			d = x
		}
	}
	return d
}

// stepProg: one program.  fixed == nil: generated around a qStmtH cursor of the history (declared first if there is none)
func (h *hist) stepProg(fixed []*pitem, fixedName string) bool {
	if !h.valid {
		return false
	}
	g := h.g
	// the cursor the program is about
	var ks []string
	for _, k := range sortedCursorKeys(h.curs) {
		if h.curs[k].qkind == qStmtH {
			ks = append(ks, k)
		}
	}
	focus := fixedName
	if focus == "" {
		if len(ks) == 0 {
			return false
		}
		focus = ks[g.Intn(len(ks))]
	}
	fc, ok := h.curs[key(focus)]
	if !ok || fc.qkind != qStmtH {
		return false
	}
	shape := fc.qarg % len(hShapes)
	prog := fixed
	if prog == nil {
		for try := 0; ; try++ {
			prog = h.genProg(focus, shape, 1+g.Intn(3), true, false, nil)
			if hasOpen(prog) || try > 6 {
				break
			}
		}
	}
	if placeholderFatal && hasHolds(prog) {
		stripHolds(prog)
		h.o.Count("prog_placeholders_stripped_after_runtime_fatal")
	}
	var s *progSim
	var prelude, cleanup, files []string
	var sql string
	for pass := 0; ; pass++ {
		assignOrdinals(prog, nil)
		s = &progSim{h: h, shape: shape, curs: map[string]*cursor{}}
		for k, c := range h.curs {
			s.curs[k] = cloneCursor(c)
		}
		s.run(prog, nil)
		prelude, cleanup, files = nil, nil, nil
		sql = h.progSQL(prog, &prelude, &cleanup, &files)
		// with placeholders in USING lists: first on the real binary (a runtime fatal would end this process)
		if pass == 0 && hasHolds(prog) && csvqBin != "" && (procRuns < procRunCap || fixed != nil) {
			procRuns++
			script := h.procScript(focus, shape, prelude, sql)
			out, code, to := runCsvq(h.dir, script)
			h.o.Count("process_level_runs")
			if fatalOutput(out, code) || to {
				reportFatal(h.o, "program "+progTokens(prog), script, out, code, to)
				placeholderFatal = true
				for _, f := range files {
					_ = os.Remove(f)
				}
				stripHolds(prog)
				continue
			}
		}
		break
	}
	sql = strings.TrimSpace(strings.Join(prelude, " ") + " " + sql)
	err := h.exec(sql)
	var got []string
	if !h.hung {
		got = h.readTrace()
	}
	if err != nil {
		got = append(got, errTok(err))
	}
	if !h.hung {
		for _, c := range cleanup {
			_, _ = h.p.Exec(c)
		}
	}
	for _, f := range files {
		_ = os.Remove(f)
	}
	rows := make([]string, len(h.t))
	for i, r := range h.t {
		rows[i] = fmt.Sprintf("%d=%s,%s", r.id, r.idTok, r.vTok)
	}
	h.o.Case("c16.prog "+hShapes[shape].cond+" ;; "+strings.Join(rows, " ")+" ;; "+progTokens(prog), strings.Join(got, " | "))
	h.o.Count("op:prog")
	h.o.Count(fmt.Sprintf("prog_execute_depth:%d", depthOf(prog)))
	h.o.Stats["prog_open_without_using_inside_execute_using"] += s.inner
	h.o.Stats["prog_open_would_be_satisfied_by_outer_values"] += s.leak
	h.o.Stats["prog_open_refused"] += s.refuse
	h.o.Stats["prog_open_using_placeholder_items"] += s.holds
	h.o.Stats["prog_open_using_placeholder_under_placeholder_list"] += s.holds2
	end := "ok"
	if len(s.trace) > 0 && strings.HasPrefix(s.trace[len(s.trace)-1], "E") {
		end = s.trace[len(s.trace)-1]
	}
	h.o.NonTrivial(fmt.Sprintf("prog|%v|shape%d|depth%d|inner:%v|leak:%v|holds:%v/%v|%s|len%s", h.file, shape, depthOf(prog), s.inner > 0, s.leak > 0, s.holds > 0, s.holds2 > 0, end, lenBucket(len(h.t))))

	if d := firstDiff(got, s.trace); d >= 0 {
		ln := "open_sees_only_its_own_values"
		exp, was := "(nothing)", "(nothing)"
		if d < len(s.trace) {
			exp = s.trace[d]
		}
		if d < len(got) {
			was = got[d]
		}
		switch {
		case exp == "E13803":
			ln = "open_without_values_refused"
		case strings.HasPrefix(exp, "E") && !strings.HasPrefix(was, "E"):
			ln = "failed_open_leaves_cursor_closed"
		}
		h.law(ln, map[string]interface{}{"cursor": focus, "cursor_statement": hShapes[shape].text, "program": progTokens(prog), "sql": sql,
			"expected_trace": strings.Join(s.trace, " | "), "got_trace": strings.Join(got, " | "), "first_difference_at": d,
			"rule": "a statement run by OPEN reads ONLY the USING list of that OPEN (none: no value at all), whatever EXECUTE … USING surrounds it"})
		h.aborted = true
		return true
	}
	// the shadow cursors of the history follow the program
	for k, c := range s.curs {
		h.curs[k] = c
	}
	// a refused OPEN left the cursor closed: said by the implementation itself
	if end == "E13803" && !h.hung {
		_, e2 := h.p.Exec(fmt.Sprintf("@s := CURSOR %s IS OPEN;", focus))
		if v := h.getVar("s"); e2 != nil || ternTok(v) != "F" {
			h.law("failed_open_leaves_cursor_closed", map[string]interface{}{"cursor": focus, "program": progTokens(prog), "sql": sql, "is_open_after_refused_open": v})
			h.aborted = true
		}
	}
	return true
}

func sortedCursorKeys(m map[string]*cursor) []string {
	ks := make([]string, 0, len(m))
	for k := range m {
		ks = append(ks, k)
	}
	// (sort.Strings without importing sort twice)
	for i := 1; i < len(ks); i++ {
		for j := i; j > 0 && ks[j] < ks[j-1]; j-- {
			ks[j], ks[j-1] = ks[j-1], ks[j]
		}
	}
	return ks
}

// scriptedProgs: the situations of seed C16-m25 and their controls, on every statement shape
func scriptedProgs(o *hc.Out, dirIn string, mk func(tag string) *hist) (int, string) {
	total := 0
	dir := dirIn
	u := func(v ...int) []rv {
		out := make([]rv, len(v))
		for i, x := range v {
			out[i] = rv{val: x, name: ""}
		}
		return out
	}
	nm := func(lo, hi int) []rv { return []rv{{val: lo, name: "lo"}, {val: hi, name: "hi"}} }
	O := func(us []rv) *pitem { return &pitem{kind: 'O', name: "cur", us: us} }
	A := func(kind, pos string) *pitem { return &pitem{kind: 'A', act: &lstmt{kind: kind, name: "cur", pos: pos}} }
	X := func(us []rv, body ...*pitem) *pitem { return &pitem{kind: 'X', us: us, body: body} }
	F := func(body ...*pitem) *pitem { return &pitem{kind: 'F', body: body} }
	S := func(body ...*pitem) *pitem { return &pitem{kind: 'S', body: body} }
	type sc struct {
		file  bool
		n     int
		shape int
		progs [][]*pitem
	}
	scripts := []sc{
		// OPEN without USING inside EXECUTE … USING 2: refused, closed; then with its own value; then the control at top level
		{false, 4, 0, [][]*pitem{
			{X(u(2), O(nil)), A("isopen", "")},
			{A("isopen", ""), X(u(2), O(u(1))), A("fetch", "next"), A("count", ""), A("close", "")},
			{O(nil)},
			{X(u(1), A("isopen", ""), O(nil), A("count", ""))},
			{X(u(3), X(u(1), O(nil)))},
			{X(u(3), X(nil, O(u(0)), A("count", ""))), A("fetch", "last"), A("close", "")},
			{X(u(2), F(O(nil)))},
			{X(u(2), S(O(nil)))},
			{X(u(2), S(F(O(u(2)), A("count", "")))), A("fetch", "first")},
		}},
		{true, 5, 2, [][]*pitem{
			{X(u(0, 9), O(nil))},
			{X(u(0, 9), O(u(1))), A("isopen", "")},
			{X(u(0, 9), O(u(1, 4)), A("count", "")), A("fetch", "next"), A("close", "")},
			{X(u(7), O(u(9))), A("count", ""), A("close", "")},
			{X(u(0), X(u(0, 9), F(O(nil))))},
		}},
		{false, 3, 1, [][]*pitem{
			{X([]rv{{val: 1, name: "lo"}}, O(nil))},
			{X([]rv{{val: 1, name: "lo"}}, O([]rv{{val: 2, name: "lo"}})), A("count", ""), A("close", "")},
			{X([]rv{{val: 1, name: "lo"}}, O(u(0))), A("isopen", "")},
			{O([]rv{{val: 5, name: "lo"}, {val: 0, name: "lo"}}), A("count", ""), A("close", "")},
		}},
		{true, 4, 3, [][]*pitem{
			{X(nm(0, 9), O(nil)), A("isopen", "")},
			{X(nm(0, 9), O(nm(1, 4))), A("count", ""), A("fetch", "next"), A("close", "")},
			{X(nm(0, 9), S(O([]rv{{val: 1, name: "lo"}}))), A("isopen", "")},
		}},
		// placeholders IN the USING lists (finding F118): `OPEN cur USING ?, 4` inside EXECUTE … USING 1 opens on 1 < id < 4;
		// `EXECUTE … USING ?` hands the value on through two levels; `? + 1`; a `?` beyond the surrounding list and a
		// `?` under an EXECUTE without USING are "not specified"
		{false, 4, 2, [][]*pitem{
			{X(u(1), O([]rv{{hold: "?"}, {val: 4}}), A("count", "")), A("fetch", "next"), A("close", "")},
			{X(u(1, 3), O([]rv{{hold: "?"}, {hold: "?", plus: 1}}), A("count", "")), A("close", "")},
			{X(u(1), O([]rv{{hold: "?"}, {hold: "?"}})), A("isopen", "")},
		}},
		{true, 5, 0, [][]*pitem{
			{X(u(3), X([]rv{{hold: "?"}}, O([]rv{{hold: "?", plus: 1}}), A("count", ""))), A("fetch", "first"), A("close", "")},
			{X(nil, O([]rv{{hold: "?"}})), A("isopen", "")},
			{X(u(2), X(nil, O([]rv{{hold: "?"}}))), A("isopen", "")},
			{X(u(2), X(u(0), O([]rv{{hold: "?"}}), A("count", ""))), A("close", "")},
		}},
		{false, 3, 1, [][]*pitem{
			{X([]rv{{val: 1, name: "lo"}}, O([]rv{{hold: ":lo", name: "lo"}}), A("count", "")), A("close", "")},
			{X([]rv{{val: 1, name: "lo"}}, O([]rv{{hold: ":hi", name: "lo"}})), A("isopen", "")},
			{X([]rv{{val: 0, name: "x"}, {val: 2, name: "lo"}}, X([]rv{{hold: ":lo", plus: 2, name: "y"}}, O([]rv{{hold: ":y", name: "lo"}}), A("count", ""))), A("close", "")},
		}},
		// an empty table: nothing reads the placeholder, OPEN without USING succeeds everywhere
		{false, 0, 0, [][]*pitem{{O(nil), A("count", ""), A("close", "")}, {X(u(2), O(nil)), A("count", "")}}},
	}
	for k, x := range scripts {
		if hungHistories >= 3 {
			break
		}
		h := mk(fmt.Sprintf("scripted prepared-statement cursor history=%d", k))
		h.dir = dir
		h.setup(x.file, x.n)
		sh := x.shape
		h.forceQArg = &sh
		h.stepDeclare("cur", qStmtH)
		h.forceQArg = nil
		total += 2
		for _, p := range x.progs {
			if h.aborted {
				break
			}
			h.stepProg(p, "cur")
			h.checkSnapshots("prog")
			total++
		}
		dir = endHistory(h, os.Getenv("VERIF_SCRATCH"), dir)
		o.Count("histories_scripted_prog")
	}
	return total, dir
}

// stepProgAny: a program around a qStmtH cursor of the history; when there is none yet, one is declared first
func (h *hist) stepProgAny() bool {
	for _, c := range h.curs {
		if c.qkind == qStmtH {
			return h.stepProg(nil, "")
		}
	}
	for _, n := range []string{"cur", "c2", "kur"} {
		if _, taken := h.curs[key(n)]; !taken {
			sh := h.g.Intn(len(hShapes))
			fq := h.forceQArg
			h.forceQArg = &sh
			h.stepDeclare(n, qStmtH)
			h.forceQArg = fq
			if h.aborted {
				return true
			}
			return h.stepProg(nil, "")
		}
	}
	return false
}
