// c16 — cursors.  Drives the REAL csvq processor in-process with random histories of
// DECLARE / OPEN / FETCH (any position, any offset) / WHILE IN / CLOSE / DISPOSE / status expressions,
// interleaved with INSERT / UPDATE / DELETE (and COMMIT / ROLLBACK) on the underlying table, which is a
// temporary table or a CSV file in a scratch directory.
//
// For every step it writes one op line for the Lean model (the OPEN line carries the rows the
// harness itself computed for the cursor's query from its own shadow copy of the table) and the
// implementation's answer, and it checks the laws of C16 directly on the implementation's answers,
// with its own arbitrary-precision pointer arithmetic (independent of the model).
package main

import (
	"runtime/debug"
	"time"
	"encoding/hex"
	"fmt"
	"math"
	"math/big"
	"os"
	"path/filepath"
	"sort"
	"strings"

	"github.com/mithrandie/csvq/lib/parser"
	"github.com/mithrandie/csvq/lib/query"

	"verifharness/hc"
)

// ---------- shadow table ----------

type row struct {
	id         int64
	idTok, vTok string // protocol tokens of the two cells as the implementation must hand them out
}

const (
	qAll = iota
	qDesc
	qEven
	qLimit
	qSwap
	qOneCol
	qStmt0 // DECLARE … CURSOR FOR ps0 (prepared statement without placeholder)
	qStmt1 // DECLARE … CURSOR FOR ps1 (placeholder: OPEN … USING k; qarg is the value of the last accepted OPEN)
	qCount // the query has an observable side effect: every evaluation adds 1 to @cnt (directly / through a function)
	qSrc   // over the temporary view sv, which the history disposes and declares again
	qRe    // the query calls the user-defined function rf (once: LIMIT clause / once per row: WHERE clause), whose body the
	//        history replaces before an OPEN by statements on this and on other cursors (reentrant.go)
	qInto // FOR a prepared SELECT … INTO: with more than one row in t the evaluation fails AFTER the view was built
	//        (Select returns the view AND the error): the OPEN fails, the cursor must stay closed
	qStmtH // FOR a prepared statement with placeholders (psh0 … psh3, shape = qarg % 4): opened through programs that nest
	//        the OPEN, with and without USING, in EXECUTE … USING / functions / SOURCE (stmtprog.go)
	nQueries
)

const ps0Text = "SELECT id, v FROM t ORDER BY id"
const ps1Text = "SELECT id, v FROM t WHERE id > ?"
const psiText = "SELECT id, v INTO @i1, @i2 FROM t"

var svRows = []string{"I1," + strTok("s"), "I2," + strTok("t"), "I3," + strTok("u")}

type cursor struct {
	qkind, qarg int
	open        bool
	snap        []string // OPEN-time result, one token per row (computed by the harness)
	ptr         int64    // pointer according to the manual's semantics (harness' own arithmetic)
	fetched     bool
	dmlSince    bool
	pseudo      bool                   // the cursor parameter of a user-defined aggregate
	pendingOvf  map[string]interface{} // a RELATIVE fetch whose index+number left int64 was just executed
}

func (c *cursor) cols() int {
	if c.qkind == qOneCol {
		return 1
	}
	return 2
}

func queryText(k, arg int) string {
	switch k {
	case qAll:
		return "SELECT id, v FROM t"
	case qDesc:
		return "SELECT id, v FROM t ORDER BY id DESC"
	case qEven:
		return "SELECT id, v FROM t WHERE id % 2 = 0"
	case qLimit:
		return fmt.Sprintf("SELECT id, v FROM t LIMIT %d", arg)
	case qSwap:
		return "SELECT v, id FROM t ORDER BY id"
	case qStmt0:
		return "ps0"
	case qStmt1:
		return "ps1"
	case qInto:
		return "psi"
	case qStmtH:
		return fmt.Sprintf("psh%d", arg%len(hShapes))
	case qCount:
		if arg%2 == 0 {
			return "SELECT id, v FROM t LIMIT (@cnt := @cnt + 1) * 0 + 1000"
		}
		return "SELECT id, v FROM t LIMIT bump() * 0 + 1000"
	case qSrc:
		return "SELECT id, v FROM sv"
	case qRe:
		if arg%2 == 0 {
			return "SELECT id, v FROM t LIMIT rf() * 0 + 1000"
		}
		return "SELECT id, v FROM t WHERE rf() = 0"
	}
	return "SELECT id FROM t"
}

// evalQuery: the harness' own evaluation of the cursor's query on the shadow table.
func evalQuery(k, arg int, t []row) []string {
	out := []string{}
	switch k {
	case qAll:
		for _, r := range t {
			out = append(out, r.idTok+","+r.vTok)
		}
	case qDesc:
		s := append([]row(nil), t...)
		sort.SliceStable(s, func(i, j int) bool { return s[i].id > s[j].id })
		for _, r := range s {
			out = append(out, r.idTok+","+r.vTok)
		}
	case qEven:
		for _, r := range t {
			if r.id%2 == 0 {
				out = append(out, r.idTok+","+r.vTok)
			}
		}
	case qLimit:
		for i, r := range t {
			if i >= arg {
				break
			}
			out = append(out, r.idTok+","+r.vTok)
		}
	case qSwap:
		s := append([]row(nil), t...)
		sort.SliceStable(s, func(i, j int) bool { return s[i].id < s[j].id })
		for _, r := range s {
			out = append(out, r.vTok+","+r.idTok)
		}
	case qOneCol:
		for _, r := range t {
			out = append(out, r.idTok)
		}
	case qStmt0:
		s := append([]row(nil), t...)
		sort.SliceStable(s, func(i, j int) bool { return s[i].id < s[j].id })
		for _, r := range s {
			out = append(out, r.idTok+","+r.vTok)
		}
	case qStmt1:
		for _, r := range t {
			if r.id > int64(arg) {
				out = append(out, r.idTok+","+r.vTok)
			}
		}
	case qCount, qRe, qInto:
		for _, r := range t {
			out = append(out, r.idTok+","+r.vTok)
		}
	case qSrc:
		out = append(out, svRows...)
	}
	return out
}

func strTok(s string) string { return "S" + hex.EncodeToString([]byte(s)) }

// ---------- one history ----------

type hist struct {
	g       *hc.Gen
	o       *hc.Out
	p       *hc.Proc
	dir     string
	file    bool // table is a CSV file (cells load as strings); otherwise a temporary table
	t       []row
	nextID  int64
	valid   bool // the shadow table still describes the implementation's table
	curs    map[string]*cursor
	sql     []string
	aborted bool
	seedTag string
	// scripted histories
	forceName string
	forceNum  *int64
	fnCount   int
	noTxn     bool
	psGone    bool // DISPOSE PREPARE ps1 happened: evaluating a cursor FOR ps1 fails
	cntBefore string
	hung      bool // a statement of this history never returned: the session is abandoned
	svGone    bool // DISPOSE VIEW sv happened: evaluating a cursor over sv fails
	forceNeg  bool // scripted histories: the status expression in its negated spelling (IS NOT OPEN / IS NOT IN RANGE)
	forceQArg *int // scripted histories: the argument of the declared cursor's query (qRe: 0 = rf() in LIMIT, 1 = in WHERE)
}

// sourceGone: evaluating the cursor's query now fails, with this error number
func (h *hist) sourceGone(c *cursor) (bool, string) {
	switch {
	case c.qkind == qStmt1 && h.psGone:
		return true, "E13802" // statement ps1 does not exist
	case c.qkind == qSrc && h.svGone:
		return true, "E90181" // file sv does not exist
	case c.qkind == qInto && len(h.t) > 1:
		return true, "E14002" // select into query returns too many records
	}
	return false, ""
}

func (h *hist) cnt() string { return h.getVar("cnt") }

var namePool = []string{"cur", "CUR", "Cur", "c2", "C2", "kur"}

// errHang: the statement did not return within the watchdog's patience
type hangError struct{}

func (hangError) Error() string { return "statement never returned" }

const watchdog = 4 * time.Second

// guarded runs f in its own goroutine; false: it did not return in time (the goroutine is abandoned)
func guarded(f func()) bool {
	done := make(chan struct{})
	go func() {
		defer close(done)
		f()
	}()
	select {
	case <-done:
		return true
	case <-time.After(watchdog):
		return false
	}
}

// exec: every statement of a history runs under the watchdog.  A statement that never returns (a cursor
// left locked, …) is an observation of its own — law cursor_operation_never_returns with the history as
// replay —, the history is abandoned and the stream goes on with a fresh session.
func (h *hist) exec(sql string) error {
	if h.hung {
		return hangError{}
	}
	h.sql = append(h.sql, sql)
	var err error
	if !guarded(func() { _, err = h.p.Exec(sql) }) {
		h.law("cursor_operation_never_returns", map[string]interface{}{"statement": sql, "waited_seconds": watchdog.Seconds()})
		h.hung, h.aborted = true, true
		hungHistories++
		return hangError{}
	}
	return err
}

var hungHistories = 0

func (h *hist) program() string {
	s := h.sql
	if len(s) > 80 {
		s = append(append([]string{}, s[:6]...), append([]string{"/* … */"}, s[len(s)-70:]...)...)
	}
	return strings.Join(s, " ")
}

var lawSeen = map[string]int{}

func (h *hist) law(name string, c map[string]interface{}) {
	if h.hung && name != "cursor_operation_never_returns" {
		return // consequences of the statement that never returned
	}
	lawSeen[name]++
	if lawSeen[name] > 40 { // enough witnesses of one law in the replay file; keep counting
		h.o.Count("law_fail_not_listed:" + name)
		return
	}
	c["history"] = h.seedTag
	c["table"] = map[bool]string{true: "t.csv (file)", false: "t (temporary)"}[h.file]
	c["program"] = h.program()
	h.o.Law(name, c)
}

// errTok: csvq's error NUMBER (error_code.go: 11002 undeclared cursor, …).  hc.ErrCode reports
// Error.Code(), which is the process return code (1 for every application error).
func errTok(err error) string {
	if _, ok := err.(hangError); ok {
		return "HANG"
	}
	if e, ok := err.(query.Error); ok {
		return fmt.Sprintf("E%d", e.Number())
	}
	return fmt.Sprintf("E?%d", hc.ErrCode(err))
}

func (h *hist) getVar(name string) string {
	v, err := h.p.P.ReferenceScope.GetVariable(parser.Variable{Name: name})
	if err != nil {
		return "?"
	}
	return hc.EncVal(v)
}

func (h *hist) realPointer(name string) (int, bool) {
	c, ok := h.p.P.ReferenceScope.Blocks[0].Cursors.Load(name)
	if !ok {
		return 0, false
	}
	i, _ := c.Pointer()
	return i, true
}

func randStr(g *hc.Gen) string {
	n := 1 + g.Intn(3)
	b := make([]byte, n)
	for i := range b {
		b[i] = "abcxyzABC019"[g.Intn(12)]
	}
	return string(b)
}

// setup: fixedN < 0 draws the table kind and size at random
func (h *hist) setup(fixedFile bool, fixedN int) {
	g := h.g
	h.curs = map[string]*cursor{}
	h.valid = true
	h.file = g.Intn(2) == 0
	var n int
	switch g.Intn(8) {
	case 0:
		n = 0
	case 1:
		n = 1
	case 2:
		n = 2
	case 3, 4:
		n = 3 + g.Intn(6)
	case 5, 6:
		n = g.Intn(21)
	default:
		n = g.Intn(51)
	}
	if fixedN >= 0 {
		h.file, n = fixedFile, fixedN
	}
	perm := g.Perm(n + g.Intn(5) + 1) // distinct ids, in random order, with gaps
	ids := make([]int, 0, n)
	for _, x := range perm[:n] {
		ids = append(ids, x+1)
	}
	h.nextID = int64(len(perm) + 1)
	h.p = hc.NewProc(h.dir)
	if h.file {
		var b strings.Builder
		b.WriteString("id,v\n")
		for _, id := range ids {
			v := randStr(g)
			fmt.Fprintf(&b, "%d,%s\n", id, v)
			h.t = append(h.t, row{int64(id), strTok(fmt.Sprint(id)), strTok(v)})
		}
		if err := os.WriteFile(filepath.Join(h.dir, "t.csv"), []byte(b.String()), 0o644); err != nil {
			panic(err)
		}
		h.sql = append(h.sql, fmt.Sprintf("/* t.csv: %q */", b.String()))
	} else {
		h.need(h.execS("DECLARE t VIEW (id, v);"))
		if n > 0 {
			vals := []string{}
			for _, id := range ids {
				if g.Intn(6) == 0 {
					vals = append(vals, fmt.Sprintf("(%d, NULL)", id))
					h.t = append(h.t, row{int64(id), fmt.Sprintf("I%d", id), "N"})
				} else {
					v := randStr(g)
					vals = append(vals, fmt.Sprintf("(%d, '%s')", id, v))
					h.t = append(h.t, row{int64(id), fmt.Sprintf("I%d", id), strTok(v)})
				}
			}
			h.need(h.execS("INSERT INTO t VALUES " + strings.Join(vals, ", ") + ";"))
		}
	}
	h.need(h.execS("VAR @a, @b, @c, @d, @e, @s, @n, @k, @w, @w1; " + w1Decl + " DECLARE lg VIEW (a, b); DECLARE lp VIEW (t, a, b);"))
	h.need(h.execS(fmt.Sprintf("VAR @i1, @i2; PREPARE psi FROM '%s';", psiText)))
	h.need(h.execS(fmt.Sprintf("VAR @cnt := 0; PREPARE ps0 FROM '%s'; PREPARE ps1 FROM '%s'; DECLARE sv VIEW (id, v); INSERT INTO sv VALUES (1, 's'), (2, 't'), (3, 'u'); DECLARE bump FUNCTION () AS BEGIN @cnt := @cnt + 1; RETURN @cnt; END; %s", ps0Text, ps1Text, rfTrivial)))
	h.need(h.execS(progSetupSQL()))
	h.writeOther()
	h.o.Case("c16.reset", "ok")
}

// must: failures of the operating system (scratch files) only; a csvq statement of the harness' own bookkeeping that
// fails is an OBSERVATION (law harness_statement_failed, see need)
func must(err error) {
	if err != nil {
		panic(err)
	}
}

// execS: exec that also hands the statement back, for need
func (h *hist) execS(sql string) (string, error) { return sql, h.exec(sql) }

// need: a bookkeeping statement of the harness (setup, the trace tables, the allocation-heavy statement) must
// succeed on every csvq; when it does not — e.g. because a value object of a literal was handed to the pool while it
// was alive and came back overwritten — that is reported with the statement and the history, and the history ends.
func (h *hist) need(sql string, err error) bool {
	if err == nil {
		return true
	}
	if _, hang := err.(hangError); hang {
		return false
	}
	h.law("harness_statement_failed", map[string]interface{}{"statement": sql, "error": err.Error(),
		"meaning": "a statement of the harness' own bookkeeping, valid on every csvq, was refused"})
	h.aborted = true
	return false
}

const otherRows = 200

// writeOther: u.csv, the unrelated table whose load allocates a few hundred strings (checkSnapshots)
func (h *hist) writeOther() {
	path := filepath.Join(h.dir, "u.csv")
	if _, err := os.Stat(path); err == nil {
		return
	}
	var b strings.Builder
	b.WriteString("k,v\n")
	for i := 1; i <= otherRows; i++ {
		fmt.Fprintf(&b, "k%d,other%d\n", i, i)
	}
	must(os.WriteFile(path, []byte(b.String()), 0o644))
}

// checkSnapshots: after a statement that changed a table (or anything else that hands values back to the pool and
// allocates new ones), EVERY row of EVERY open cursor is fetched again by its absolute position and compared with the
// row recorded at OPEN; then the pointer is put back.  First an unrelated file is loaded and strings are built, so
// that objects a DML statement wrongly gave back to the pool are handed out again before the rows are read (with the
// poisoning Discard hook — every second random history — the first read of a discarded cell shows it at once).
// The fetches are ordinary lines of the stream (the model answers them too).
func (h *hist) checkSnapshots(after string) {
	if h.aborted || h.hung {
		return
	}
	any := false
	for _, c := range h.curs {
		if c.open && c.pendingOvf == nil && !c.pseudo {
			any = true
		}
	}
	if !any {
		return
	}
	alloc := "SELECT COUNT(*) INTO @e FROM u WHERE UPPER(v) || LOWER(k) LIKE 'OTHER%'; @e := REPLACE('snapshot', 'a', 'b') || LPAD(@e, 9, 'x');"
	sql, err := h.execS(alloc)
	if !h.need(sql, err) {
		return
	}
	h.o.Count("snapshot_checks")
	for _, k := range sortedCursorKeys(h.curs) {
		c := h.curs[k]
		if !c.open || c.pendingOvf != nil || c.pseudo {
			continue
		}
		if !c.fetched && h.g.Intn(2) == 0 {
			continue // (half of the not yet fetched cursors keep their UNKNOWN "in range" status across the DML)
		}
		old := c.ptr
		for i := 0; i <= len(c.snap); i++ {
			pos := int64(i)
			if i == len(c.snap) {
				pos = old // the pointer goes back where it was
			}
			vars := "@a, @b"
			if c.cols() == 1 {
				vars = "@a"
			}
			err := h.exec(fmt.Sprintf("@a := '~'; @b := '~'; FETCH ABSOLUTE %d %s INTO %s;", pos, k, vars))
			impl := ""
			if err != nil {
				impl = errTok(err)
			} else {
				a, b := h.getVar("a"), h.getVar("b")
				switch {
				case a == "S7e" && (c.cols() == 1 || b == "S7e"):
					impl = "none"
				case c.cols() == 1:
					impl = "row " + a
				default:
					impl = "row " + a + "," + b
				}
			}
			h.o.Case(fmt.Sprintf("c16.fetch %s abs %d", k, pos), impl)
			want := "none"
			if pos >= 0 && pos < int64(len(c.snap)) {
				want = "row " + c.snap[pos]
			}
			c.fetched = true
			switch {
			case pos < 0:
				c.ptr = -1
			case pos > int64(len(c.snap)):
				c.ptr = int64(len(c.snap))
			default:
				c.ptr = pos
			}
			h.o.Count("snapshot_rows_refetched")
			if impl != want {
				h.law("snapshot_row_changed_after_dml", map[string]interface{}{"cursor": k, "cursor_query": queryText(c.qkind, c.qarg), "rows_at_open": len(c.snap),
					"position": pos, "row_at_open": want, "row_now": impl, "after": after,
					"rule": "until CLOSE every position of the cursor returns the row of the OPEN-time result, whatever was done to the tables since"})
				h.aborted = true
				return
			}
		}
	}
}

func key(name string) string { return strings.ToUpper(name) }

// pickName: mostly a declared cursor (preferOpen: mostly an open one), sometimes any name of the pool
func (h *hist) pickName(preferOpen bool) string {
	if h.forceName != "" {
		return h.forceName
	}
	if len(h.curs) > 0 && h.g.Intn(100) < 90 {
		ks := make([]string, 0, len(h.curs))
		for k, c := range h.curs {
			if !preferOpen || c.open {
				ks = append(ks, k)
			}
		}
		if len(ks) == 0 || (preferOpen && h.g.Intn(100) < 12) {
			ks = ks[:0]
			for k := range h.curs {
				ks = append(ks, k)
			}
		}
		sort.Strings(ks)
		k := ks[h.g.Intn(len(ks))]
		// any spelling of that key
		var alts []string
		for _, n := range namePool {
			if key(n) == k {
				alts = append(alts, n)
			}
		}
		return alts[h.g.Intn(len(alts))]
	}
	return namePool[h.g.Intn(len(namePool))]
}

func lenBucket(n int) string {
	switch {
	case n == 0:
		return "0"
	case n == 1:
		return "1"
	case n <= 3:
		return "2-3"
	case n <= 10:
		return "4-10"
	}
	return "11+"
}

func ptrClass(p int64, n int) string {
	switch {
	case p < 0:
		return "before"
	case p >= int64(n):
		return "after"
	case p == 0:
		return "first"
	case p == int64(n)-1:
		return "last"
	}
	return "mid"
}

func offClass(v int64, n int) string {
	a := v
	if a < 0 {
		a = -a
	}
	switch {
	case v == math.MinInt64:
		return "min"
	case v == math.MaxInt64:
		return "max"
	case a >= 1<<61:
		return sign(v) + "huge"
	case v == 0:
		return "0"
	case a == 1:
		return sign(v) + "1"
	case a == int64(n):
		return sign(v) + "len"
	case a < int64(n):
		return sign(v) + "in"
	}
	return sign(v) + "out"
}

func sign(v int64) string {
	if v < 0 {
		return "-"
	}
	return "+"
}

func (h *hist) offset(n int) int64 {
	g := h.g
	switch g.Intn(12) {
	case 0:
		return 0
	case 1:
		return int64(g.Intn(3) - 1)
	case 2:
		return int64(n) * int64(1-2*g.Intn(2))
	case 3:
		return (int64(n) + int64(g.Intn(3)-1)) * int64(1-2*g.Intn(2))
	case 4, 5, 6:
		return int64(g.Intn(2*n+7) - n - 3)
	case 7:
		return []int64{math.MaxInt64, math.MinInt64, math.MaxInt64 - 1, math.MinInt64 + 1, -math.MaxInt64}[g.Intn(5)]
	case 8:
		return []int64{1 << 62, -(1 << 62), 1<<62 + 1, 1<<63 - 1 - int64(n), math.MinInt64 + int64(n), 1 << 32, -(1 << 32)}[g.Intn(7)]
	case 9:
		return math.MaxInt64 - int64(g.Intn(n+3))
	case 10:
		return g.Int64()
	}
	return int64(g.Intn(n + 1))
}

// spellInt: an expression FetchCursor evaluates to v (Evaluate, then value.ToInteger: integers, numeric strings,
// floats and float strings truncated toward zero)
func spellInt(g *hc.Gen, v int64) string {
	if v == math.MinInt64 || g.Intn(6) == 0 {
		return fmt.Sprintf("'%d'", v) // value.ToInteger parses numeric strings exactly
	}
	if v > -1000 && v < 1000 {
		sgn, a := "", v
		if v < 0 {
			sgn, a = "-", -v
		}
		switch g.Intn(8) {
		case 0:
			return fmt.Sprintf("(%d + 1) - 1", v)
		case 1:
			return fmt.Sprintf("%s%d.7", sgn, a) // float, truncated toward zero
		case 2:
			return fmt.Sprintf("'%s%d.9'", sgn, a) // float spelled as a string
		case 3:
			return fmt.Sprintf("%d * 1", v)
		case 4:
			return fmt.Sprintf("' %d '", v) // padded numeric string
		}
	}
	if v < 0 {
		return fmt.Sprintf("-%d", -v)
	}
	return fmt.Sprintf("%d", v)
}

var bigMin = big.NewInt(math.MinInt64)
var bigMax = big.NewInt(math.MaxInt64)

// ---------- steps ----------

func (h *hist) stepDeclare(forcedName string, forcedQ int) {
	name := namePool[h.g.Intn(len(namePool))]
	if len(h.curs) > 0 && h.g.Intn(8) == 0 {
		name = h.pickName(false)
	}
	qk := h.g.Intn(nQueries)
	qa := h.g.Intn(len(h.t) + 3)
	if forcedName != "" {
		name, qk = forcedName, forcedQ
	}
	if h.forceQArg != nil {
		qa = *h.forceQArg
	}
	err := h.exec(fmt.Sprintf("DECLARE %s CURSOR FOR %s;", name, queryText(qk, qa)))
	impl := "ok"
	if err != nil {
		impl = errTok(err)
	}
	h.o.Case("c16.declare "+name, impl)
	_, exists := h.curs[key(name)]
	want := "ok"
	if exists {
		want = "E11001"
	} else {
		h.curs[key(name)] = &cursor{qkind: qk, qarg: qa}
	}
	if impl != want {
		h.law("redeclared_error", map[string]interface{}{"name": name, "expected": want, "got": impl})
		h.aborted = true
	}
	h.o.Count("op:declare")
	h.o.NonTrivial("declare|" + impl)
}

func (h *hist) stepDispose() {
	name := h.pickName(false)
	err := h.exec(fmt.Sprintf("DISPOSE CURSOR %s;", name))
	impl := "ok"
	if err != nil {
		impl = errTok(err)
	}
	h.o.Case("c16.dispose "+name, impl)
	c, exists := h.curs[key(name)]
	want := "E11002"
	st := "undeclared"
	if exists {
		want = "ok"
		st = map[bool]string{true: "open", false: "closed"}[c.open]
		delete(h.curs, key(name))
	}
	if impl != want {
		h.law("undeclared_error", map[string]interface{}{"op": "dispose", "name": name, "expected": want, "got": impl})
		h.aborted = true
	}
	h.o.Count("op:dispose")
	h.o.NonTrivial("dispose|" + st + "|" + impl)
}

func (h *hist) stepOpen() {
	if !h.valid {
		// after COMMIT / ROLLBACK the harness no longer knows the table: it cannot say what an OPEN
		// must materialise, so no OPEN is issued (whoever the caller is)
		h.stepStatus(-1)
		return
	}
	name := h.pickName(false)
	c, exists := h.curs[key(name)]
	if exists && c.qkind == qStmtH {
		// cursors FOR a statement with placeholders: the OPEN is a program of its own (stmtprog.go), with and without USING
		it := &pitem{kind: 'O', name: name}
		if h.g.Intn(4) > 0 {
			it.us = h.genUsing(c.qarg%len(hShapes), true)
		}
		h.stepProg([]*pitem{it}, name)
		h.o.Count("op:open")
		return
	}
	// USING: the value of ps1's placeholder; ignored by cursors that have none
	using, usingSQL := 0, ""
	switch {
	case exists && c.qkind == qStmt1:
		using = h.g.Intn(int(h.nextID)+3) - 1
		usingSQL = fmt.Sprintf(" USING %d", using)
	case h.g.Intn(4) == 0:
		usingSQL = " USING 7"
	}
	var rows []string
	gone, goneErr := false, ""
	if exists {
		arg := c.qarg
		if c.qkind == qStmt1 {
			arg = using
		}
		rows = evalQuery(c.qkind, arg, h.t)
		gone, goneErr = h.sourceGone(c)
	}
	cntBefore := h.cnt()
	err := h.exec(fmt.Sprintf("OPEN %s%s;", name, usingSQL))
	cntAfter := h.cnt()
	impl := "ok"
	if err != nil {
		impl = errTok(err)
	}
	if gone {
		// the query cannot be evaluated: the guards of OPEN still come first (model: stepOpenFailing)
		h.o.Case(fmt.Sprintf("c16.openfail %s %s", name, goneErr), impl)
	} else {
		h.o.Case(fmt.Sprintf("c16.open %s %d", name, len(rows))+joinPrefixed(rows), impl)
	}
	want, lawName, st := "ok", "open_close_cycle", "closed"
	evals := 0
	switch {
	case !exists:
		want, lawName, st = "E11002", "undeclared_error", "undeclared"
	case c.open:
		want, lawName, st = "E11004", "reopen_error", "open"
	case gone:
		want, lawName, st = goneErr, "open_source_gone", "closed-gone"
	default:
		c.open, c.snap, c.ptr, c.fetched, c.dmlSince, c.pendingOvf = true, rows, -1, false, false, nil
		if c.qkind == qStmt1 {
			c.qarg = using
		}
		if c.qkind == qCount {
			evals = 1
		}
	}
	if impl != want {
		h.law(lawName, map[string]interface{}{"op": "open", "name": name, "expected": want, "got": impl})
		h.aborted = true
	}
	// OPEN evaluates the cursor's query exactly once; a refused OPEN evaluates nothing
	if wantCnt := addTok(cntBefore, evals); cntAfter != wantCnt {
		h.law("open_evaluates_once", map[string]interface{}{"op": "open", "name": name, "answer": impl, "cnt_before": cntBefore, "cnt_after": cntAfter,
			"expected_cnt_after": wantCnt, "cursor_state": st})
		h.aborted = true
	}
	if usingSQL != "" {
		h.o.Count("open_using")
	}
	h.o.Count("op:open")
	h.o.Count("open_len:" + lenBucket(len(rows)))
	if exists {
		h.o.NonTrivial(fmt.Sprintf("open|%v|q%d|%s|len%s|%s", h.file, c.qkind, st, lenBucket(len(rows)), impl))
	}
}

// addTok: "I<n>" + k
func addTok(tok string, k int) string {
	var n int
	if _, err := fmt.Sscanf(tok, "I%d", &n); err != nil {
		return "?" + tok
	}
	return fmt.Sprintf("I%d", n+k)
}

// stepSource: dispose / restore the source of the cursors FOR ps1 or over sv (open cursors keep their snapshot)
func (h *hist) stepSource(which int) {
	if !h.valid {
		h.stepStatus(-1)
		return
	}
	var sql, kind string
	if which < 0 {
		which = h.g.Intn(2)
	}
	switch {
	case which == 0 && !h.psGone:
		sql, kind, h.psGone = "DISPOSE PREPARE ps1;", "drop_ps", true
	case which == 0:
		sql, kind, h.psGone = fmt.Sprintf("PREPARE ps1 FROM '%s';", ps1Text), "back_ps", false
	case !h.svGone:
		sql, kind, h.svGone = "DISPOSE VIEW sv;", "drop_sv", true
	default:
		sql, kind, h.svGone = "DECLARE sv VIEW (id, v); INSERT INTO sv VALUES (1, 's'), (2, 't'), (3, 'u');", "back_sv", false
	}
	err := h.exec(sql)
	impl := "ok"
	if err != nil {
		impl = errTok(err)
		h.law("source_statement", map[string]interface{}{"sql": sql, "got": impl})
		h.aborted = true
	}
	h.o.Case("c16.dml", impl)
	h.o.Count("op:source")
	h.o.NonTrivial("source|" + kind)
}

func joinPrefixed(rows []string) string {
	if len(rows) == 0 {
		return ""
	}
	return " " + strings.Join(rows, " ")
}

func (h *hist) stepClose() {
	// also redundant CLOSEs: of a cursor that is closed already or was never opened
	name := h.pickName(h.g.Intn(5) < 3)
	err := h.exec(fmt.Sprintf("CLOSE %s;", name))
	impl := "ok"
	if err != nil {
		impl = errTok(err)
	}
	h.o.Case("c16.close "+name, impl)
	c, exists := h.curs[key(name)]
	want, st := "ok", "undeclared"
	if !exists {
		want = "E11002"
	} else {
		st = map[bool]string{true: "open", false: "closed"}[c.open]
		c.open, c.snap, c.pendingOvf = false, nil, nil
	}
	if impl != want {
		h.law("undeclared_error", map[string]interface{}{"op": "close", "name": name, "expected": want, "got": impl})
		h.aborted = true
	}
	h.o.Count("op:close")
	h.o.NonTrivial("close|" + st + "|" + impl)
}

// fetch: pos in next|prior|first|last|abs|rel ; forced: a probe after an overflowing RELATIVE
func (h *hist) stepFetch(forcedName, forcedPos string) {
	g := h.g
	name := forcedName
	if name == "" {
		name = h.pickName(true)
	}
	c, exists := h.curs[key(name)]
	n := 0
	if exists && c.open {
		n = len(c.snap)
	}
	pos := forcedPos
	if pos == "" {
		pos = []string{"next", "next", "next", "prior", "prior", "first", "last", "abs", "abs", "rel", "rel", "rel"}[g.Intn(12)]
	}
	var num int64
	opPos, sqlPos := pos, strings.ToUpper(pos)
	switch pos {
	case "next":
		if g.Intn(2) == 0 {
			sqlPos = "" // FETCH cur INTO …: NEXT is the default
		}
	case "abs":
		num = h.offset(n)
		if h.forceNum != nil {
			num = *h.forceNum
		}
		opPos, sqlPos = fmt.Sprintf("abs %d", num), "ABSOLUTE "+spellInt(g, num)
	case "rel":
		num = h.offset(n)
		if exists && c.open && n > 0 && g.Intn(3) == 0 {
			// aim at the int64 boundary from the current pointer
			num = []int64{math.MaxInt64 - c.ptr, math.MaxInt64 - c.ptr + 1, math.MaxInt64}[g.Intn(3)]
			if c.ptr < 0 {
				num = []int64{math.MinInt64, math.MinInt64 + 1, math.MaxInt64}[g.Intn(3)]
			} else if c.ptr == 0 {
				num = math.MaxInt64
			}
		}
		if h.forceNum != nil {
			num = *h.forceNum
		}
		opPos, sqlPos = fmt.Sprintf("rel %d", num), "RELATIVE "+spellInt(g, num)
	}
	cols := 2
	if exists {
		cols = c.cols()
	}
	vars := "@a, @b"
	if cols == 1 {
		vars = "@a"
	}
	// the number also through a variable: FETCH must leave its operand alone (seed C16-m8: the evaluated Integer — the
	// variable's own value object, a literal of the syntax tree — was given back to the value pool; an integer
	// allocated afterwards, here 1 + 1, then overwrites it; with poisoned discards it shows at once)
	viaVar := (pos == "abs" || pos == "rel") && num != math.MinInt64 && g.Intn(4) == 0
	pre := ""
	if viaVar {
		pre = fmt.Sprintf("@k := %d; ", num)
		sqlPos = map[string]string{"abs": "ABSOLUTE", "rel": "RELATIVE"}[pos] + " @k"
	}
	before, hadPtr := h.realPointer(name)
	err := h.exec(fmt.Sprintf("@a := '~'; @b := '~'; %sFETCH %s %s INTO %s; @s := 1 + 1;", pre, sqlPos, name, vars))
	if viaVar && !h.hung {
		h.o.Count("fetch_offset_in_variable")
		if k, want := h.getVar("k"), fmt.Sprintf("I%d", num); k != want {
			h.law("fetch_changes_its_offset_operand", map[string]interface{}{"name": name, "fetch": opPos, "variable_before": want, "variable_after": k})
			h.aborted = true
		}
	}
	impl := ""
	if err != nil {
		impl = errTok(err)
	} else {
		a, b := h.getVar("a"), h.getVar("b")
		switch {
		case a == "S7e" && (cols == 1 || b == "S7e"):
			impl = "none"
		case cols == 1:
			impl = "row " + a
		default:
			impl = "row " + a + "," + b
		}
	}
	h.o.Case("c16.fetch "+name+" "+opPos, impl)
	h.o.Count("op:fetch")
	h.o.Count("fetch:" + pos)

	// ---- law: the manual's FETCH, with unbounded integers ----
	switch {
	case !exists:
		if impl != "E11002" {
			h.law("undeclared_error", map[string]interface{}{"op": "fetch", "name": name, "got": impl})
			h.aborted = true
		}
		h.o.NonTrivial("fetch|undeclared|" + pos)
		return
	case !c.open:
		if impl != "E11003" {
			h.law("closed_errors", map[string]interface{}{"op": "fetch", "name": name, "got": impl})
			h.aborted = true
		}
		h.o.NonTrivial("fetch|closed|" + pos)
		return
	}
	tgt := new(big.Int)
	switch pos {
	case "next":
		tgt.SetInt64(c.ptr + 1)
	case "prior":
		tgt.SetInt64(c.ptr - 1)
	case "first":
		tgt.SetInt64(0)
	case "last":
		tgt.SetInt64(int64(n) - 1)
	case "abs":
		tgt.SetInt64(num)
	case "rel":
		tgt.Add(big.NewInt(c.ptr), big.NewInt(num))
	}
	overflow := pos == "rel" && (tgt.Cmp(bigMin) < 0 || tgt.Cmp(bigMax) > 0)
	want := "none"
	var newPtr int64
	switch {
	case tgt.Sign() < 0:
		newPtr = -1
	case tgt.Cmp(big.NewInt(int64(n))) >= 0:
		newPtr = int64(n)
	default:
		newPtr = tgt.Int64()
		want = "row " + c.snap[newPtr]
	}
	pc := ptrClass(c.ptr, n)
	oldPtr := c.ptr
	c.ptr, c.fetched = newPtr, true
	outcome := "none"
	if strings.HasPrefix(impl, "row") {
		outcome = "row"
	}
	oc := "-"
	if pos == "abs" || pos == "rel" {
		oc = offClass(num, n)
	}
	h.o.NonTrivial(fmt.Sprintf("fetch|%v|q%d|len%s|ptr:%s|%s|off:%s|ovf:%v|%s|dml:%v", h.file, c.qkind, lenBucket(n), pc, pos, oc, overflow, outcome, c.dmlSince))
	if overflow {
		h.o.Count("fetch_relative_overflowing")
	}
	if want == "none" {
		h.o.Count("fetch_out_of_range")
	} else {
		h.o.Count("fetch_row")
	}
	after, _ := h.realPointer(name)
	detail := map[string]interface{}{"cursor_query": queryText(c.qkind, c.qarg), "rows_at_open": len(c.snap), "pointer_before": oldPtr,
		"fetch": opPos, "mathematical_target": tgt.String(), "expected": want, "got": impl,
		"expected_pointer_after": newPtr, "implementation_pointer_before": before, "implementation_pointer_after": after}
	_ = hadPtr
	if c.pendingOvf != nil {
		// this fetch is the probe after an overflowing RELATIVE: black-box evidence
		if impl != want {
			c.pendingOvf["followup"] = detail
			h.law("fetch_spec_relative_overflow", c.pendingOvf)
		} else {
			h.o.Count("overflow_probe_ok")
		}
		c.pendingOvf = nil
		c.ptr = int64(after) // resynchronise with the implementation
		return
	}
	if impl != want {
		ln := "fetch_spec"
		if c.dmlSince && strings.HasPrefix(impl, "row") {
			ln = "snapshot"
		}
		h.law(ln, detail)
		h.aborted = true
		return
	}
	if overflow {
		// index+number left int64 (finding F9: the addition used to wrap around).  Whatever the pointer
		// is now, the next step is a black-box probe: FETCH NEXT / PRIOR from where the manual says
		// the pointer rests (law fetch_spec_relative_overflow).
		c.pendingOvf = detail
		return
	}
	if int64(after) != newPtr {
		h.law("fetch_spec", detail)
		h.aborted = true
	}
}

func (h *hist) stepFetchBad() {
	name := h.pickName(true)
	bad := h.g.Pick("NULL", "'abc'", "''")
	err := h.exec(fmt.Sprintf("FETCH %s %s %s INTO @a, @b;", h.g.Pick("ABSOLUTE", "RELATIVE"), bad, name))
	impl := "ok"
	if err != nil {
		impl = errTok(err)
	}
	h.o.Case("c16.fetchbad "+name, impl)
	if impl != "E11008" {
		h.law("invalid_fetch_position", map[string]interface{}{"name": name, "number": bad, "got": impl})
		h.aborted = true
	}
	h.o.Count("op:fetchbad")
	h.o.NonTrivial("fetchbad|" + bad)
}

func ternTok(s string) string {
	switch s {
	case "TT":
		return "T"
	case "TF":
		return "F"
	case "TU":
		return "U"
	}
	return "?" + s
}

func (h *hist) stepStatus(forcedKind int) {
	name := h.pickName(h.g.Intn(3) > 0)
	c, exists := h.curs[key(name)]
	kind := h.g.Intn(3)
	if forcedKind >= 0 {
		kind = forcedKind
	}
	var op, sql string
	switch kind {
	case 0:
		op, sql = "count", fmt.Sprintf("@s := CURSOR %s COUNT;", name)
	case 1:
		op, sql = "isopen", fmt.Sprintf("@s := CURSOR %s IS OPEN;", name)
	default:
		op, sql = "inrange", fmt.Sprintf("@s := CURSOR %s IS IN RANGE;", name)
	}
	neg := false
	if kind != 0 && (h.g.Intn(4) == 0 || h.forceNeg) {
		neg = true
		sql = strings.Replace(sql, " IS ", " IS NOT ", 1)
	}
	err := h.exec("@s := '~'; " + sql)
	impl := ""
	if err != nil {
		impl = errTok(err)
	} else {
		v := h.getVar("s")
		if kind == 0 {
			impl = v
		} else {
			impl = ternTok(v)
		}
	}
	// the negated spelling goes to the model as it is (`cursorStatus true`); the law below states it
	// with the harness' own three-valued NOT
	if neg {
		h.o.Case("c16."+op+" "+name+" not", impl)
	} else {
		h.o.Case("c16."+op+" "+name, impl)
	}
	want := ""
	st := "undeclared"
	switch {
	case !exists:
		want = "E11002"
	case kind == 1:
		want = map[bool]string{true: "T", false: "F"}[c.open]
	case !c.open:
		want = "E11003"
	case kind == 0:
		want = fmt.Sprintf("I%d", len(c.snap))
	case !c.fetched:
		want = "U"
	default:
		want = map[bool]string{true: "T", false: "F"}[c.ptr >= 0 && c.ptr < int64(len(c.snap))]
	}
	if exists {
		st = map[bool]string{true: "open", false: "closed"}[c.open]
	}
	if neg { // IS NOT …: TRUE <-> FALSE, UNKNOWN stays UNKNOWN, errors stay errors
		if w, ok := map[string]string{"T": "F", "F": "T", "U": "U"}[want]; ok {
			want = w
		}
	}
	if impl != want && !(exists && c.pendingOvf != nil) {
		ln := "status_agree"
		if !exists {
			ln = "undeclared_error"
		} else if !c.open {
			ln = "closed_errors"
		}
		h.law(ln, map[string]interface{}{"op": op, "name": name, "expected": want, "got": impl})
		h.aborted = true
	}
	h.o.Count("op:" + op)
	h.o.NonTrivial(fmt.Sprintf("status|%s|%s|%s|neg:%v", op, st, impl0(impl), neg))
}

func impl0(s string) string {
	if strings.HasPrefix(s, "I") {
		return "I"
	}
	return s
}

func (h *hist) readLog(cols int) []string {
	v, err := h.p.Query("SELECT a, b FROM lg")
	out := []string{}
	if !h.need("SELECT a, b FROM lg", err) {
		return out
	}
	for _, r := range v.RecordSet {
		a, b := hc.EncVal(r[0][0]), hc.EncVal(r[1][0])
		if cols == 1 {
			out = append(out, a)
		} else {
			out = append(out, a+","+b)
		}
	}
	_, err = h.p.Exec("DELETE FROM lg;")
	h.need("DELETE FROM lg;", err)
	return out
}

func (h *hist) stepWhile(forcedBrk int) {
	g := h.g
	name := h.pickName(true)
	c, exists := h.curs[key(name)]
	cols := 2
	if exists {
		cols = c.cols()
	}
	brk := 0
	if g.Intn(3) == 0 {
		brk = 1 + g.Intn(6)
	}
	if forcedBrk >= 0 {
		brk = forcedBrk
	}
	withVar := g.Intn(2) == 0
	va, vb := "@a", "@b"
	if withVar {
		va, vb = "@x", "@y"
	}
	vars := va + ", " + vb
	ins := fmt.Sprintf("INSERT INTO lg VALUES (%s, %s);", va, vb)
	if cols == 1 {
		vars = va
		ins = fmt.Sprintf("INSERT INTO lg VALUES (%s, NULL);", va)
	}
	// optionally change the underlying table inside the loop (snapshot clause)
	bodyDML, dmlKind := "", 0
	if h.valid && exists && c.open && c.qkind != qSrc && g.Intn(3) == 0 { // (rows of sv are not rows of t)
		idVar := va
		if c.qkind == qSwap {
			idVar = vb
		}
		dmlKind = 1 + g.Intn(2)
		if dmlKind == 1 {
			bodyDML = fmt.Sprintf(" DELETE FROM t WHERE id = %s;", idVar)
		} else {
			bodyDML = fmt.Sprintf(" UPDATE t SET v = 'w' WHERE id = %s;", idVar)
		}
	}
	brkSQL := ""
	if brk > 0 {
		brkSQL = fmt.Sprintf(" IF @n >= %d THEN BREAK; END IF;", brk)
	}
	decl := ""
	if withVar {
		decl = "VAR "
	}
	sql := fmt.Sprintf("@n := 0; WHILE %s%s IN %s DO @n := @n + 1; %s%s%s END WHILE;", decl, vars, name, ins, bodyDML, brkSQL)
	err := h.exec(sql)
	seen := h.readLog(cols)
	impl := ""
	if err != nil {
		impl = errTok(err)
	} else {
		impl = fmt.Sprintf("rows %d", len(seen)) + joinPrefixed(seen)
	}
	bt := "-"
	if brk > 0 {
		bt = fmt.Sprint(brk)
	}
	h.o.Case("c16.while "+name+" "+bt, impl)
	h.o.Count("op:while")
	switch {
	case !exists:
		if impl != "E11002" {
			h.law("undeclared_error", map[string]interface{}{"op": "while", "name": name, "got": impl})
			h.aborted = true
		}
		h.o.NonTrivial("while|undeclared")
		return
	case !c.open:
		if impl != "E11003" {
			h.law("closed_errors", map[string]interface{}{"op": "while", "name": name, "got": impl})
			h.aborted = true
		}
		h.o.NonTrivial("while|closed")
		return
	}
	n := int64(len(c.snap))
	from := c.ptr + 1
	if from > n {
		from = n
	}
	exp := c.snap[from:]
	newPtr := n
	if brk > 0 && int64(brk) <= int64(len(exp)) {
		exp = exp[:brk]
		newPtr = c.ptr + int64(brk)
	}
	want := fmt.Sprintf("rows %d", len(exp)) + joinPrefixed(exp)
	h.o.NonTrivial(fmt.Sprintf("while|%v|q%d|len%s|ptr:%s|brk:%v|var:%v|dml:%d|n%s", h.file, c.qkind, lenBucket(int(n)), ptrClass(c.ptr, int(n)), brk > 0, withVar, dmlKind, lenBucket(len(exp))))
	pending := c.pendingOvf != nil
	c.pendingOvf = nil
	// the body's DML on the shadow, for every row the loop must have visited
	if dmlKind != 0 {
		for _, tok := range exp {
			cells := strings.Split(tok, ",")
			idTok := cells[0]
			if c.qkind == qSwap {
				idTok = cells[1]
			}
			for i := range h.t {
				if h.t[i].idTok == idTok {
					if dmlKind == 1 {
						h.t = append(h.t[:i:i], h.t[i+1:]...)
					} else {
						h.t[i].vTok = strTok("w")
					}
					break
				}
			}
		}
		if len(exp) > 0 {
			for _, o := range h.curs {
				if o.open {
					o.dmlSince = true
				}
			}
		}
	}
	after, _ := h.realPointer(name)
	if impl != want && !pending {
		ln := "while_in_visits_all_once"
		if c.dmlSince {
			ln = "snapshot"
		}
		h.law(ln, map[string]interface{}{"name": name, "cursor_query": queryText(c.qkind, c.qarg), "pointer_before": c.ptr, "break_at": brk,
			"expected": want, "got": impl})
		h.aborted = true
	}
	c.ptr, c.fetched = newPtr, true
	if pending {
		c.ptr = int64(after)
	} else if int64(after) != newPtr && !h.aborted {
		h.law("while_in_visits_all_once", map[string]interface{}{"name": name, "expected_pointer_after": newPtr, "implementation_pointer_after": after})
		h.aborted = true
	}
	if dmlKind != 0 && len(exp) > 0 && !pending {
		h.checkSnapshots(sql)
	}
}

func (h *hist) markDML() {
	for _, o := range h.curs {
		if o.open {
			o.dmlSince = true
		}
	}
}

func (h *hist) stepDML() {
	g := h.g
	var sql, kind string
	if !h.valid {
		// the shadow no longer describes the table: only statements whose effect does not matter
		sql, kind = "DELETE FROM t WHERE id = -5;", "noop"
	} else {
		switch k := g.Intn(20); {
		case k < 7:
			id := h.nextID
			h.nextID++
			if g.Intn(5) == 0 {
				sql = fmt.Sprintf("INSERT INTO t VALUES (%d, NULL);", id)
				h.t = append(h.t, row{id, fmt.Sprintf("I%d", id), "N"})
			} else {
				v := randStr(g)
				sql = fmt.Sprintf("INSERT INTO t VALUES (%d, '%s');", id, v)
				h.t = append(h.t, row{id, fmt.Sprintf("I%d", id), strTok(v)})
			}
			kind = "insert"
		case k < 12:
			id := int64(g.Intn(int(h.nextID) + 1))
			v := randStr(g)
			sql = fmt.Sprintf("UPDATE t SET v = '%s' WHERE id = %d;", v, id)
			for i := range h.t {
				if h.t[i].id == id {
					h.t[i].vTok = strTok(v)
				}
			}
			kind = "update"
		case k < 17:
			id := int64(g.Intn(int(h.nextID) + 1))
			if len(h.t) > 0 && g.Intn(2) == 0 {
				id = h.t[g.Intn(len(h.t))].id
			}
			sql = fmt.Sprintf("DELETE FROM t WHERE id = %d;", id)
			for i := range h.t {
				if h.t[i].id == id {
					h.t = append(h.t[:i:i], h.t[i+1:]...)
					break
				}
			}
			kind = "delete"
		case k < 18:
			sql, kind = "UPDATE t SET v = 'q';", "update_all"
			for i := range h.t {
				h.t[i].vTok = strTok("q")
			}
		case k < 19:
			sql, kind = "DELETE FROM t;", "delete_all"
			h.t = nil
		default:
			if h.noTxn {
				// scripted histories go on to re-OPEN: keep the shadow valid
				sql, kind = "UPDATE t SET v = 'q';", "update_all"
				for i := range h.t {
					h.t[i].vTok = strTok("q")
				}
				break
			}
			// transactions end: cursors are documented not to be affected.  The shadow is not
			// trusted afterwards (no further OPEN in this history).
			sql, kind = g.Pick("COMMIT;", "ROLLBACK;"), "txn"
			h.valid = false
		}
	}
	err := h.exec(sql)
	impl := "ok"
	if err != nil {
		impl = errTok(err)
		// a DML statement of the harness failed: the shadow cannot be trusted
		h.valid = false
	}
	h.o.Case("c16.dml", impl)
	h.markDML()
	h.o.Count("op:dml")
	h.o.Count("dml:" + kind)
	nOpen := 0
	for _, o := range h.curs {
		if o.open {
			nOpen++
		}
	}
	h.o.NonTrivial(fmt.Sprintf("dml|%v|%s|open:%d", h.file, kind, nOpen))
	h.checkSnapshots(sql)
}

// white-box: the implementation's pointer of every open cursor lies in [-1, len]
func (h *hist) checkInv() {
	for k, c := range h.curs {
		if !c.open {
			continue
		}
		p, ok := h.realPointer(k)
		if !ok || p < -1 || p > len(c.snap) {
			h.law("index_inv", map[string]interface{}{"name": k, "implementation_pointer": p, "rows_at_open": len(c.snap)})
			h.aborted = true
		}
	}
}

// probe: right after an overflowing RELATIVE fetch, FETCH NEXT / PRIOR from where the manual says the pointer rests
func (h *hist) probe() bool {
	ks := make([]string, 0, len(h.curs))
	for k := range h.curs {
		ks = append(ks, k)
	}
	sort.Strings(ks)
	for _, k := range ks {
		c := h.curs[k]
		if c.open && c.pendingOvf != nil {
			pos := "next"
			if c.ptr < 0 {
				pos = "prior"
			}
			fn, fm := h.forceName, h.forceNum
			h.forceName, h.forceNum = "", nil
			h.stepFetch(k, pos)
			h.forceName, h.forceNum = fn, fm
			return true
		}
	}
	return false
}

func (h *hist) run(steps int) int {
	g := h.g
	done := 0
	if h.aborted {
		return 0 // the setup itself was refused (reported)
	}
	// most histories start with a declared, opened cursor
	if g.Intn(10) < 8 {
		h.stepDeclare("", 0)
		done++
		if g.Intn(10) < 9 {
			h.stepOpen()
			done++
		}
	}
	for done < steps && !h.aborted {
		if !h.probe() {
			structured := func(f func() bool) {
				if !h.valid || !f() {
					h.stepStatus(-1)
				}
			}
			switch w := g.Intn(100); {
			case w < 6:
				h.stepDeclare("", 0)
			case w < 14:
				if h.valid {
					h.stepOpen()
				} else {
					h.stepStatus(-1)
				}
			case w < 20:
				structured(h.stepProgAny)
			case w < 52:
				h.stepFetch("", "")
			case w < 56:
				structured(func() bool { return h.stepOpenRe("", nil) })
			case w < 57:
				h.stepFetchBad()
			case w < 67:
				h.stepStatus(-1)
			case w < 71:
				h.stepWhile(-1)
			case w < 80:
				structured(func() bool { return h.stepLoop(nil, "", nil, false) })
			case w < 82:
				structured(func() bool { return h.stepBlock("", nil) })
			case w < 83:
				structured(func() bool { return h.stepBlock2("", "", nil, nil, nil) })
			case w < 86:
				h.stepClose()
			case w < 88:
				h.stepDispose()
			case w < 90:
				h.stepSource(-1)
			case w < 92:
				h.stepFetchInto()
			case w < 93:
				h.stepWhileInto()
			case w < 95:
				structured(h.stepAgg)
			default:
				h.stepDML()
			}
		}
		done++
		h.checkInv()
	}
	return done
}

// scripted histories (run first, whatever the seed): the situations the property names explicitly
func scripted(g *hc.Gen, o *hc.Out, dir string, seed int64) (int, string) {
	total := 0
	mx, mn := int64(math.MaxInt64), int64(math.MinInt64)
	type st struct {
		op  string
		num int64
	}
	scripts := []struct {
		file bool
		n    int
		q    int
		ops  []st
	}{
		// pointer on the 2nd row, RELATIVE maxint: index+number leaves int64
		{false, 3, qAll, []st{{"open", 0}, {"next", 0}, {"next", 0}, {"rel", mx}, {"inrange", 0}, {"next", 0}, {"prior", 0}}},
		// before the first row, RELATIVE minint
		{true, 2, qAll, []st{{"open", 0}, {"rel", mn}, {"inrange", 0}, {"prior", 0}, {"next", 0}}},
		// empty result: every position
		{false, 0, qAll, []st{{"open", 0}, {"inrange", 0}, {"next", 0}, {"prior", 0}, {"first", 0}, {"last", 0}, {"abs", 0}, {"rel", 0}, {"rel", mx}, {"rel", mn},
			{"abs", mx}, {"abs", mn}, {"while", 0}, {"count", 0}, {"inrange", 0}}},
		// snapshot: the table changes between OPEN and the loop
		{true, 5, qAll, []st{{"open", 0}, {"dml", 0}, {"dml", 0}, {"dml", 0}, {"dml", 0}, {"while", 0}, {"while", 0}, {"close", 0}, {"next", 0}, {"count", 0}, {"inrange", 0}, {"isopen", 0}, {"open", 0}, {"while", 0}}},
		{false, 6, qDesc, []st{{"open", 0}, {"dml", 0}, {"next", 0}, {"dml", 0}, {"last", 0}, {"dml", 0}, {"first", 0}, {"dml", 0}, {"while", 2}, {"while", 0}}},
		// clamping: ABSOLUTE far out, then PRIOR / NEXT from the clamped position
		{false, 4, qAll, []st{{"open", 0}, {"abs", mx}, {"prior", 0}, {"abs", mn}, {"next", 0}, {"rel", mx - 1}, {"rel", mn}, {"rel", -4}, {"rel", 3}, {"rel", 1}, {"rel", 1}, {"prior", 0}}},
		// life-cycle statements inside the WHILE IN body
		{false, 3, qAll, []st{{"open", 0}, {"loop_dispose", 0}, {"isopen", 0}, {"declare", 0}, {"open", 0}, {"loop_dispose", 1}, {"isopen", 0}}},
		{true, 3, qAll, []st{{"open", 0}, {"loop_shadow", 0}, {"inrange", 0}, {"next", 0}}},
		{false, 5, qAll, []st{{"open", 0}, {"loop_close", 0}, {"isopen", 0}}},
		// the number of INTO / WHILE variables; an aggregate's pseudo cursor
		{false, 4, qAll, []st{{"open", 0}, {"fetchinto", 0}, {"next", 0}, {"fetchinto", 0}, {"whileinto", 0}, {"next", 0}, {"whileinto", 0}, {"agg", 0}, {"next", 0}, {"agg", 0}}},
		{true, 3, qOneCol, []st{{"fetchinto", 0}, {"open", 0}, {"whileinto", 0}, {"fetchinto", 0}, {"agg", 0}, {"while", 0}}},
		// redundant CLOSE: of a never-opened cursor, of a closed one, repeatedly — and the cursor still works afterwards
		{false, 3, qAll, []st{{"close", 0}, {"open", 0}, {"next", 0}, {"close", 0}, {"close", 0}, {"close", 0}, {"open", 0}, {"next", 0}, {"count", 0}, {"close", 0}, {"next", 0}, {"while", 0}, {"open", 0}, {"while", 0}}},
		{true, 2, qStmt1, []st{{"close", 0}, {"close", 0}, {"open", 0}, {"while", 0}, {"close", 0}, {"dispose", 0}, {"close", 0}}},
		// cursors FOR a prepared statement: OPEN of an open one (new USING value) is refused and rewinds nothing
		{false, 5, qStmt1, []st{{"open", 0}, {"next", 0}, {"open", 0}, {"next", 0}, {"count", 0}, {"close", 0}, {"open", 0}, {"while", 0}, {"open", 0}}},
		{true, 4, qStmt0, []st{{"open", 0}, {"next", 0}, {"open", 0}, {"next", 0}, {"while", 0}}},
		// the query has a side effect: evaluated once per accepted OPEN, never by a refused one
		{false, 3, qCount, []st{{"open", 0}, {"open", 0}, {"next", 0}, {"open", 0}, {"close", 0}, {"open", 0}, {"open", 0}}},
		// the source is disposed while the cursor is open: OPEN is still "already open"; closed: the evaluation error
		{false, 3, qStmt1, []st{{"open", 0}, {"src_ps", 0}, {"open", 0}, {"next", 0}, {"close", 0}, {"open", 0}, {"src_ps", 0}, {"open", 0}, {"next", 0}}},
		{true, 3, qSrc, []st{{"open", 0}, {"src_sv", 0}, {"open", 0}, {"next", 0}, {"close", 0}, {"open", 0}, {"src_sv", 0}, {"open", 0}, {"while", 0}}},
		// the evaluation fails after the view was built (SELECT … INTO with more than one row): the failed OPEN leaves
		// the cursor closed (seed C16-m6); with one row / no row it opens
		{false, 3, qInto, []st{{"open", 0}, {"isopen", 0}, {"next", 0}, {"count", 0}, {"inrange", 0}, {"open", 0}, {"close", 0}, {"open", 0}, {"while", 0}}},
		{true, 1, qInto, []st{{"open", 0}, {"isopen", 0}, {"next", 0}, {"next", 0}, {"close", 0}, {"open", 0}, {"count", 0}}},
		{false, 0, qInto, []st{{"open", 0}, {"next", 0}, {"count", 0}}},
		// the negated status expressions in every state: never opened, open and not fetched (UNKNOWN stays UNKNOWN), on a
		// row, behind the last row, closed
		{false, 2, qAll, []st{{"not_isopen", 0}, {"not_inrange", 0}, {"open", 0}, {"not_isopen", 0}, {"not_inrange", 0}, {"inrange", 0}, {"next", 0}, {"not_inrange", 0},
			{"last", 0}, {"next", 0}, {"not_inrange", 0}, {"inrange", 0}, {"close", 0}, {"not_isopen", 0}, {"not_inrange", 0}}},
		// errors
		{true, 2, qOneCol, []st{{"next", 0}, {"count", 0}, {"inrange", 0}, {"isopen", 0}, {"while", 0}, {"open", 0}, {"open", 0}, {"declare", 0}, {"close", 0}, {"close", 0},
			{"next", 0}, {"dispose", 0}, {"next", 0}, {"open", 0}, {"close", 0}, {"dispose", 0}, {"isopen", 0}, {"fetchbad", 0}}},
	}
	for k, sc := range scripts {
		if hungHistories >= 3 {
			break
		}
		h := &hist{g: g, o: o, dir: dir, seedTag: fmt.Sprintf("scripted history=%d", k), noTxn: true}
		h.setup(sc.file, sc.n)
		if !h.aborted {
			h.stepDeclare("cur", sc.q)
		}
		h.forceName = "cur"
		total += 2
		for _, x := range sc.ops {
			if h.aborted {
				break
			}
			num := x.num
			h.forceNum = &num
			switch x.op {
			case "open":
				h.stepOpen()
			case "close":
				h.stepClose()
			case "dispose":
				h.stepDispose()
			case "declare":
				h.stepDeclare("cur", sc.q)
			case "dml":
				h.stepDML()
			case "while":
				h.stepWhile(int(x.num))
			case "count":
				h.stepStatus(0)
			case "isopen":
				h.stepStatus(1)
			case "inrange":
				h.stepStatus(2)
			case "not_isopen":
				h.forceNeg = true
				h.stepStatus(1)
				h.forceNeg = false
			case "not_inrange": // NOT UNKNOWN is UNKNOWN (seed C16-m10)
				h.forceNeg = true
				h.stepStatus(2)
				h.forceNeg = false
			case "fetchbad":
				h.stepFetchBad()
			case "fetchinto":
				h.stepFetchInto()
			case "whileinto":
				h.stepWhileInto()
			case "agg":
				h.forceName = ""
				h.stepAgg()
				h.forceName = "cur"
			case "src_ps":
				h.stepSource(0)
			case "src_sv":
				h.stepSource(1)
			case "loop_dispose": // seeded change C16-m4, scenario 1: the body disposes the iterated cursor
				call := x.num == 1
				h.forceName = ""
				h.stepLoop([]*litem{{sub: true, guard: 1, call: call, stmts: []*lstmt{{kind: "dispose", name: "cur"}}}}, "cur", nil, false)
				h.forceName = "cur"
			case "loop_shadow": // scenario 2: the disposed cursor shadowed the outer one; the loop goes on over the outer
				h.forceName = ""
				h.stepLoop([]*litem{{sub: true, guard: 2, stmts: []*lstmt{{kind: "dispose", name: "cur"}}}}, "cur",
					[]*lstmt{{kind: "declare", name: "cur", qkind: qDesc}, {kind: "open", name: "cur"}}, true)
				h.forceName = "cur"
			case "loop_close": // CLOSE in the body: the next iteration is the "closed" error; re-OPEN restarts
				h.forceName = ""
				h.stepLoop([]*litem{{sub: true, guard: 2, stmts: []*lstmt{{kind: "close", name: "cur"}, {kind: "open", name: "cur"}}},
					{sub: true, guard: 4, stmts: []*lstmt{{kind: "close", name: "cur"}}}}, "cur", nil, false)
				h.forceName = "cur"
			default:
				h.stepFetch("", x.op)
			}
			total++
			if h.probe() {
				total++
			}
			h.checkInv()
		}
		dir = endHistory(h, os.Getenv("VERIF_SCRATCH"), dir)
		o.Count("histories_scripted")
	}
	return total, dir
}

// endHistory releases the session (under the watchdog too).  After a hang the scratch directory may hold
// locks of the abandoned session: the next history gets a fresh one.
func endHistory(h *hist, base, dir string) string {
	ok := guarded(h.p.Close)
	_ = os.Remove(filepath.Join(dir, "t.csv"))
	if h.hung || !ok {
		if base == "" {
			base = os.TempDir()
		}
		d, err := os.MkdirTemp(base, "c16-")
		must(err)
		extraDirs = append(extraDirs, d)
		return d
	}
	return dir
}

var extraDirs []string

func main() {
	hc.Main(func(seed int64, n int, out string, args []string) {
		o := hc.NewOut(out)
		defer o.Close()
		// a panic of the harness is reported like any other observation (the files written so far stay consistent)
		defer func() {
			if r := recover(); r != nil {
				o.Law("harness_statement_failed", map[string]interface{}{"panic": fmt.Sprint(r), "stack": string(debug.Stack())})
			}
		}()
		g := hc.NewGen(seed)
		base := os.Getenv("VERIF_SCRATCH")
		if base == "" {
			base = os.TempDir()
		}
		dir, err := os.MkdirTemp(base, "c16-")
		must(err)
		defer os.RemoveAll(dir)
		defer func() {
			for _, d := range extraDirs {
				os.RemoveAll(d)
			}
		}()
		total, k := 0, 0
		// OPEN / CLOSE of a cursor from inside its own OPEN (known finding F100): two sessions beside the stream
		probes := startSelfProbes()
		defer collectSelfProbes(o, probes)
		total, dir = scripted(g, o, dir, seed)
		if hungHistories < 3 {
			var m int
			m, dir = scriptedReentrant(g, o, dir)
			total += m
		}
		if hungHistories < 3 {
			var m int
			m, dir = scriptedBlocks(g, o, dir)
			total += m
		}
		probePlaceholders(o, dir)
		if hungHistories < 3 {
			var m int
			m, dir = scriptedProgs(o, dir, func(tag string) *hist { return &hist{g: g, o: o, seedTag: tag, noTxn: true} })
			total += m
		}
		total += concurrentFetchers(g, o, dir)
		for total < n {
			h := &hist{g: g, o: o, dir: dir, seedTag: fmt.Sprintf("seed=%d history=%d", seed, k)}
			if k%2 == 1 && setPoison(true) {
				h.seedTag += " (discarded values poisoned)"
				o.Count("histories_poisoned")
			}
			h.setup(false, -1)
			steps := 10 + g.Intn(60)
			if steps > n-total {
				steps = n - total
			}
			total += h.run(steps) + 1
			setPoison(false)
			dir = endHistory(h, base, dir)
			if hungHistories >= 3 {
				o.Count("stream_cut_short_after_hangs")
				break
			}
			k++
			o.Count("histories")
			o.Count("table:" + map[bool]string{true: "file", false: "temporary"}[h.file])
		}
	})
}
