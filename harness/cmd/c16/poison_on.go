//go:build verif

package main

import "github.com/mithrandie/csvq/lib/value"

// setPoison switches the hook of lib/value (build tag verif): a discarded String / Integer / Float / Datetime object
// is overwritten with a poison value instead of going back to its pool, so a value that csvq discards while it is
// still alive — the number of FETCH ABSOLUTE / RELATIVE in the syntax tree, a variable, a cell of a cursor's view —
// shows at once in what the next statement reads (seed C16-m8).  Every second random history runs that way.
func setPoison(on bool) bool { value.VerifSetPoison(on); return true }
