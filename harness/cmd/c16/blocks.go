// The DECLARE position as a dimension of the c16 stream: every construct of the language that opens a block.
//
// processor.go runs the branches of IF / ELSEIF / ELSE and of CASE … WHEN / ELSE through executeChild, the bodies
// of WHILE and WHILE … IN in a child processor whose block is cleared per iteration and closed at the end, and a
// function body in scope.CreateChild(): a cursor declared there ends with the block — after it the name is
// undeclared again, or denotes the OUTER cursor of that name with its own position, and it can be declared anew.
// (Seed C16-m17: the ELSE branch of CASE ran in the enclosing block.)
//
// Every child block of the generated programs (the blocks of WHILE … IN bodies, the top-level blocks, the block a
// loop is nested in) is rendered through wrapBlock, which draws the construct — and sometimes a second construct
// around it: an intermediate block that declares nothing is invisible (C16.empty_block_is_transparent).  stepBlock2
// is the real two-deep nesting (statements in the outer block before and after the inner one; model `runNested`),
// and after a top-level block the names it declared are used again at top level (followUps).
package main

import (
	"fmt"
	"os"
	"strings"

	"verifharness/hc"
)

var blockForms = []string{"if", "elseif", "else", "case_when", "case_value", "case_else", "case_value_else", "while", "while_in", "call"}

// the cursor the WHILE … IN form walks: one row, declared at top level by setup (the name is outside namePool)
const w1Decl = "DECLARE w1 CURSOR FOR SELECT 1;"

// wrapForm: `body` in a block of its own, opened by the given construct; guard k > 0: only when @n = k
func (h *hist) wrapForm(form, body string, guard int, prelude, cleanup *[]string) string {
	cond, neg := "TRUE", "FALSE"
	if guard > 0 {
		cond, neg = fmt.Sprintf("@n = %d", guard), fmt.Sprintf("@n <> %d", guard)
	}
	guarded := func(s string) string { // (the IF around it is one more, empty, block)
		if guard > 0 {
			return fmt.Sprintf("IF %s THEN %s END IF;", cond, s)
		}
		return s
	}
	switch form {
	case "elseif":
		return fmt.Sprintf("IF FALSE THEN @s := 0; ELSEIF %s THEN %s END IF;", cond, body)
	case "else":
		return fmt.Sprintf("IF %s THEN @s := 0; ELSE %s END IF;", neg, body)
	case "case_when":
		return fmt.Sprintf("CASE WHEN %s THEN %s END CASE;", cond, body)
	case "case_value":
		if guard > 0 {
			return fmt.Sprintf("CASE @n WHEN %d THEN %s END CASE;", guard, body)
		}
		return fmt.Sprintf("CASE 1 WHEN 1 THEN %s END CASE;", body)
	case "case_else":
		return fmt.Sprintf("CASE WHEN %s THEN @s := 0; ELSE %s END CASE;", neg, body)
	case "case_value_else":
		return guarded(fmt.Sprintf("CASE 2 WHEN 1 THEN @s := 0; ELSE %s END CASE;", body))
	case "while":
		// (the counter is set again at the end: a WHILE form nested in the body uses the same one)
		return fmt.Sprintf("@w := 0; WHILE @w < 1 AND %s DO %s @w := 1; END WHILE;", cond, body)
	case "while_in":
		return guarded(fmt.Sprintf("CLOSE w1; OPEN w1; WHILE @w1 IN w1 DO %s END WHILE;", body))
	case "call":
		h.fnCount++
		fn := fmt.Sprintf("lf%d", h.fnCount)
		*prelude = append(*prelude, fmt.Sprintf("DECLARE %s FUNCTION () AS BEGIN %s RETURN NULL; END;", fn, body))
		*cleanup = append(*cleanup, fmt.Sprintf("DISPOSE FUNCTION %s;", fn))
		return guarded(fmt.Sprintf("@s := %s();", fn))
	}
	return fmt.Sprintf("IF %s THEN %s END IF;", cond, body)
}

// wrapBlock: a drawn construct (form == "": any), one time in five inside a second, unguarded one
func (h *hist) wrapBlock(form, body string, guard int, prelude, cleanup *[]string) string {
	g := h.g
	if form == "" {
		form = blockForms[g.Intn(len(blockForms))]
	}
	h.o.Count("block_form:" + form)
	sql := h.wrapForm(form, body, guard, prelude, cleanup)
	if g.Intn(5) == 0 {
		outer := blockForms[g.Intn(len(blockForms))]
		h.o.Count("block_form_outer:" + outer)
		sql = h.wrapForm(outer, sql, 0, prelude, cleanup)
	}
	return sql
}

// declaredIn: the names a list of statements declares
func declaredIn(l []*lstmt) []string {
	var out []string
	seen := map[string]bool{}
	for _, st := range l {
		if st.kind == "declare" && !seen[key(st.name)] {
			seen[key(st.name)] = true
			out = append(out, st.name)
		}
	}
	return out
}

// followUps: after a block, the names it declared are used at top level — undeclared again, or the outer cursor of
// that name with its own position — and declared anew
func (h *hist) followUps(names []string, all bool) int {
	done := 0
	if len(names) == 0 || h.aborted {
		return 0
	}
	g := h.g
	fn := h.forceName
	defer func() { h.forceName = fn }()
	name := names[g.Intn(len(names))]
	h.forceName = name
	steps := []func(){
		func() { h.stepFetch(name, "next") },
		func() { h.stepStatus(-1) },
		func() { h.stepStatus(1) },
		func() { h.stepDeclare(name, []int{qAll, qDesc, qEven, qSwap}[g.Intn(4)]) },
		func() {
			if h.valid {
				h.stepOpen()
			} else {
				h.stepStatus(0)
			}
		},
		func() { h.stepFetch(name, "next") },
	}
	for i, f := range steps {
		if h.aborted {
			break
		}
		if !all && i < 4 && g.Intn(2) == 0 {
			continue
		}
		f()
		done++
		h.checkInv()
		h.o.Count("block_follow_up")
	}
	return done
}

// stepBlock2: outer block { pre…; inner block { inner… }; post… } — both constructs drawn (or given)
func (h *hist) stepBlock2(outerForm, innerForm string, fixedPre, fixedInner, fixedPost []*lstmt) bool {
	if !h.valid {
		return false
	}
	g := h.g
	var s *sim
	var pre, inner, post []*lstmt
	for try := 0; ; try++ {
		if try == 25 {
			return false
		}
		pre, inner, post = fixedPre, fixedInner, fixedPost
		if fixedInner == nil {
			focus := h.pickName(false)
			pre, inner, post = nil, nil, nil
			if g.Intn(3) > 0 {
				pre = append(pre, &lstmt{kind: "declare", name: focus, qkind: g.Intn(nQueries), qarg: g.Intn(len(h.t) + 3)})
			}
			for j, m := 0, g.Intn(3); j < m; j++ {
				pre = append(pre, h.genStmt(focus))
			}
			if g.Intn(3) > 0 {
				inner = append(inner, &lstmt{kind: "declare", name: focus, qkind: g.Intn(nQueries), qarg: g.Intn(len(h.t) + 3)})
			}
			for j, m := 0, 1+g.Intn(3); j < m; j++ {
				inner = append(inner, h.genStmt(focus))
			}
			for j, m := 0, 1+g.Intn(3); j < m; j++ {
				post = append(post, h.genStmt(focus))
			}
		}
		s = h.newSim()
		s.push()
		if !s.stmts(pre) {
			s.push()
			e := s.stmts(inner)
			s.pop()
			if !e {
				s.stmts(post)
			}
		}
		s.pop()
		if !s.bad {
			break
		}
		if fixedInner != nil {
			return false
		}
	}
	var prelude, cleanup []string
	innerSQL := h.wrapBlock(innerForm, stmtsSQL(g, inner), 0, &prelude, &cleanup)
	sql := h.wrapBlock(outerForm, strings.TrimSpace(stmtsSQL(g, pre)+" "+innerSQL+" "+stmtsSQL(g, post)), 0, &prelude, &cleanup)
	sql = strings.TrimSpace(strings.Join(prelude, " ") + " " + sql)
	h.cntBefore = h.cnt()
	err := h.exec(sql)
	var got []string
	if !h.hung {
		got = h.readTrace()
	}
	if err != nil {
		got = append(got, errTok(err))
	}
	if !h.hung {
		for _, c := range cleanup {
			_, _ = h.p.Exec(c)
		}
	}
	h.o.Case(strings.Join(strings.Fields(fmt.Sprintf("c16.block2 %s ;; %s ;; %s", stmtsTokens(pre, ","), stmtsTokens(inner, ","), stmtsTokens(post, ","))), " "),
		strings.Join(got, " | "))
	h.finishProgram("block2", s, got, "", []*litem{{stmts: pre}, {sub: true, stmts: inner}, {stmts: post}})
	h.followUps(append(declaredIn(pre), declaredIn(inner)...), false)
	return true
}

// scriptedBlocks: a cursor declared (and opened, and fetched from) in every block-opening construct — with and
// without an open outer cursor of the same name —, then the name used after the block and declared anew
func scriptedBlocks(g *hc.Gen, o *hc.Out, dir string) (int, string) {
	total, k := 0, 0
	body := func() []*lstmt {
		return []*lstmt{{kind: "declare", name: "cur", qkind: qDesc}, {kind: "open", name: "cur"}, {kind: "fetch", name: "cur", pos: "next"},
			{kind: "fetch", name: "Cur", pos: "next"}, {kind: "isopen", name: "CUR"}}
	}
	for fi, form := range blockForms {
		for _, outer := range []bool{false, true} {
			if hungHistories >= 3 {
				return total, dir
			}
			h := &hist{g: g, o: o, dir: dir, seedTag: fmt.Sprintf("scripted block history=%d (%s, outer cursor: %v)", k, form, outer), noTxn: true}
			k++
			h.setup(fi%2 == 0, 4)
			h.forceName = "cur"
			if outer {
				h.stepDeclare("cur", qAll)
				h.stepOpen()
				h.stepFetch("", "next")
				total += 3
			}
			h.forceName = ""
			if !h.aborted {
				h.stepBlock(form, body())
				total++
			}
			total += h.followUps([]string{"cur"}, true)
			// the same construct once more: the name is free again inside it (or shadows the new outer cursor)
			if !h.aborted {
				h.stepBlock(form, body())
				total++
			}
			dir = endHistory(h, os.Getenv("VERIF_SCRATCH"), dir)
			o.Count("histories_scripted_blocks")
		}
	}
	// two deep: every construct inside every other one would be 100 programs; each construct once as the outer and
	// once as the inner one, the cursor declared in both blocks
	for fi, form := range blockForms {
		if hungHistories >= 3 {
			return total, dir
		}
		other := blockForms[(fi+3)%len(blockForms)]
		h := &hist{g: g, o: o, dir: dir, seedTag: fmt.Sprintf("scripted block history=%d (%s in %s)", k, other, form), noTxn: true}
		k++
		h.setup(fi%2 == 1, 5)
		pre := []*lstmt{{kind: "declare", name: "cur", qkind: qAll}, {kind: "open", name: "cur"}, {kind: "fetch", name: "cur", pos: "next"}}
		inner := []*lstmt{{kind: "declare", name: "cur", qkind: qDesc}, {kind: "open", name: "cur"}, {kind: "fetch", name: "cur", pos: "next"}, {kind: "declare", name: "c2", qkind: qEven}}
		post := []*lstmt{{kind: "fetch", name: "cur", pos: "next"}, {kind: "count", name: "cur"}, {kind: "declare", name: "c2", qkind: qAll}, {kind: "isopen", name: "c2"}}
		h.stepBlock2(form, other, pre, inner, post)
		total++
		h.forceName = "cur"
		total += h.followUps([]string{"cur"}, true)
		dir = endHistory(h, os.Getenv("VERIF_SCRATCH"), dir)
		o.Count("histories_scripted_blocks")
	}
	return total, dir
}
