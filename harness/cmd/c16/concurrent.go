// Concurrent fetchers of the c16 stream.
//
// A user-defined function that FETCHes from a cursor of an outer scope is evaluated by several goroutines at once
// as soon as the calling query has 160 rows or more and --cpu > 1; all of them fetch from the same *Cursor.
// Whatever the schedule, every FETCH NEXT must hand out the row at the position IT moved the pointer to: the
// fetchers together receive every row of the cursor exactly once (Props/C16.lean:
// schedule_hands_out_each_row_once — any interleaving of atomic fetch steps; gen_fetch_is_one_critical_section —
// the regenerated Fetch moves the pointer and reads the row under one Lock).
//
// Three forms, all tallied the same way (law concurrent_fetch_each_row_once; the model gets `c16.conc L W` /
// `c16.concq L M` and answers with the tally of a round-robin schedule):
//   - W goroutines call Cursor.Fetch(NEXT) directly on a pseudo cursor (NewPseudoCursor) until each sees "no row";
//   - the same on a cursor DECLAREd and OPENed through SQL over a CSV file (the object taken from the scope);
//   - end to end: SELECT nxt(n) FROM big with @@CPU = 2, 4, 8, nxt doing one FETCH NEXT per call, on a cursor
//     over all rows of big and on one over half of them (the surplus calls must all see "no row").
package main

import (
	"fmt"
	"os"
	"path/filepath"
	"strconv"
	"strings"
	"sync"
	"time"

	"github.com/mithrandie/csvq/lib/parser"
	"github.com/mithrandie/csvq/lib/query"
	"github.com/mithrandie/csvq/lib/value"

	"verifharness/hc"
)

const concPatience = 40 * time.Second

type tally struct {
	seen     []int32
	none     int
	foreign  int // values that are no row of the cursor
	problems []string
	mtx      sync.Mutex
}

func (t *tally) note(s string) {
	t.mtx.Lock()
	if len(t.problems) < 6 {
		t.problems = append(t.problems, s)
	}
	t.mtx.Unlock()
}

// line: the canonical answer — rows handed out, rows handed out more than once, rows never handed out, fetches
// that found no row, pointer afterwards
func (t *tally) line(end int) (string, int, int) {
	handed, twice, never := 0, 0, 0
	for i, c := range t.seen {
		handed += int(c)
		switch {
		case c == 0:
			never++
			if never <= 2 {
				t.note(fmt.Sprintf("row %d was never handed out", i))
			}
		case c > 1:
			twice++
			if twice <= 2 {
				t.note(fmt.Sprintf("row %d was handed out %d times", i, c))
			}
		}
	}
	return fmt.Sprintf("handed %d twice %d never %d foreign %d none %d end %d", handed, twice, never, t.foreign, t.none, end), twice, never
}

func rowIndex(p value.Primary, base int64) (int64, bool) {
	switch v := p.(type) {
	case *value.Integer:
		return v.Raw() - base, true
	case *value.String:
		n, err := strconv.ParseInt(strings.TrimSpace(v.Raw()), 10, 64)
		return n - base, err == nil
	}
	return 0, false
}

// fetchAll: W goroutines fetch the cursor to its end, each until it sees "no row"
func fetchAll(cur *query.Cursor, rows, workers int, base int64) (*tally, bool) {
	t := &tally{seen: make([]int32, rows)}
	name := parser.Identifier{Literal: "cc"}
	var wg sync.WaitGroup
	var cnt sync.Mutex
	start := make(chan struct{})
	for w := 0; w < workers; w++ {
		wg.Add(1)
		go func() {
			defer wg.Done()
			defer func() {
				if r := recover(); r != nil {
					t.note(fmt.Sprintf("panic in Cursor.Fetch: %v", r))
				}
			}()
			local := make([]int64, 0, rows/workers+16)
			<-start
			for n := 0; n < 2*rows+16; n++ { // (a fetcher that never sees the end is a defect too)
				row, err := cur.Fetch(name, parser.NEXT, 0)
				if err != nil {
					t.note("unexpected error: " + err.Error())
					break
				}
				if row == nil {
					cnt.Lock()
					t.none++
					cnt.Unlock()
					break
				}
				i, ok := rowIndex(row[0], base)
				if !ok || i < 0 || i >= int64(rows) {
					cnt.Lock()
					t.foreign++
					cnt.Unlock()
					continue
				}
				local = append(local, i)
			}
			cnt.Lock()
			for _, i := range local {
				t.seen[i]++
			}
			cnt.Unlock()
		}()
	}
	ok := guardedFor(concPatience, func() { close(start); wg.Wait() })
	return t, ok
}

func guardedFor(d time.Duration, f func()) bool {
	done := make(chan struct{})
	go func() {
		defer close(done)
		f()
	}()
	select {
	case <-done:
		return true
	case <-time.After(d):
		return false
	}
}

func concReport(o *hc.Out, op, impl, want string, t *tally, detail map[string]interface{}) {
	o.Case(op, impl)
	o.Count("op:concurrent")
	if impl != want {
		detail["expected"] = want
		detail["got"] = impl
		detail["examples"] = t.problems
		o.Law("concurrent_fetch_each_row_once", detail)
	}
}

// concurrentFetchers: returns the number of op lines written
func concurrentFetchers(g *hc.Gen, o *hc.Out, dir string) int {
	lines := 0
	scale := 1
	if os.Getenv("VERIF_TIER") == "thorough" {
		scale = 6 // more rounds per line
	}
	// ---- W goroutines on a pseudo cursor ----
	// (the model walks a list: its cost is quadratic in the rows, so a line is several ROUNDS on a cursor of a few
	// thousand rows — the first round that differs from the expectation is the one reported, else the last)
	for _, workers := range []int{2, 4, 8} {
		rows := 3000 + g.Intn(2000)
		want := fmt.Sprintf("handed %d twice 0 never 0 foreign 0 none %d end %d", rows, workers, rows)
		impl, round := "", 0
		var t *tally
		for round = 1; round <= 8*scale; round++ {
			values := make([]value.Primary, rows)
			for i := range values {
				values[i] = value.NewInteger(int64(i))
			}
			cur := query.NewPseudoCursor("cc", values)
			var ok bool
			t, ok = fetchAll(cur, rows, workers, 0)
			impl = "HANG"
			if ok {
				end, _ := cur.Pointer()
				impl, _, _ = t.line(end)
			}
			o.Eval()
			if impl != want {
				break
			}
		}
		concReport(o, fmt.Sprintf("c16.conc %d %d", rows, workers), impl, want, t, map[string]interface{}{
			"form":   fmt.Sprintf("%d goroutines call (*Cursor).Fetch(name, parser.NEXT, 0) on one cursor until each gets no row", workers),
			"cursor": fmt.Sprintf("query.NewPseudoCursor over the integers 0..%d", rows-1), "rows": rows, "fetchers": workers, "round": round})
		o.NonTrivial(fmt.Sprintf("conc|pseudo|w%d", workers))
		lines++
	}
	// ---- a cursor declared and opened through SQL, over a CSV file ----
	rows := 5000 + 2*g.Intn(600)
	var b strings.Builder
	b.WriteString("n\n")
	for i := 1; i <= rows; i++ {
		fmt.Fprintf(&b, "%d\n", i)
	}
	big := filepath.Join(dir, "big.csv")
	must(os.WriteFile(big, []byte(b.String()), 0o644))
	defer os.Remove(big)
	p := hc.NewProc(dir)
	defer func() { guardedFor(watchdog, p.Close) }()
	prelude := "DECLARE nxt FUNCTION (@dummy) AS BEGIN VAR @x; FETCH cc INTO @x; RETURN @x; END; " +
		"DECLARE nxh FUNCTION (@dummy) AS BEGIN VAR @x; FETCH ch INTO @x; RETURN @x; END; " +
		"DECLARE cc CURSOR FOR SELECT n FROM big; DECLARE ch CURSOR FOR SELECT n FROM big WHERE n % 2 = 0;"
	_, err := p.Exec(prelude)
	must(err)
	program := fmt.Sprintf("/* big.csv: n = 1..%d */ %s", rows, prelude)
	{
		want := fmt.Sprintf("handed %d twice 0 never 0 foreign 0 none 8 end %d", rows, rows)
		impl, round := "", 0
		var t *tally
		for round = 1; round <= 4*scale; round++ {
			_, err := p.Exec("OPEN cc;")
			must(err)
			cur, found := p.P.ReferenceScope.Blocks[0].Cursors.Load("cc")
			if !found {
				panic("cursor cc not found in the scope")
			}
			var ok bool
			t, ok = fetchAll(cur, rows, 8, 1)
			impl = "HANG"
			if ok {
				end, _ := cur.Pointer()
				impl, _, _ = t.line(end)
			}
			o.Eval()
			if !ok {
				break
			}
			_, err = p.Exec("CLOSE cc;")
			must(err)
			if impl != want {
				break
			}
		}
		concReport(o, fmt.Sprintf("c16.conc %d 8", rows), impl, want, t, map[string]interface{}{
			"form":   "8 goroutines call (*Cursor).Fetch(name, parser.NEXT, 0) on the cursor object of the scope until each gets no row",
			"cursor": "DECLARE cc CURSOR FOR SELECT n FROM big; OPEN cc;", "rows": rows, "fetchers": 8, "program": program, "round": round})
		o.NonTrivial("conc|sql|w8")
		lines++
		if impl == "HANG" {
			return lines
		}
	}
	// ---- end to end: one FETCH NEXT per row of a query that csvq evaluates with several goroutines ----
	for _, v := range []struct {
		cpu      int
		cur, fn  string
		curRows  int
		position func(i int64) int64 // row value -> index in the cursor
	}{
		{2, "cc", "nxt", rows, func(n int64) int64 { return n - 1 }},
		{4, "ch", "nxh", rows / 2, func(n int64) int64 {
			if n%2 != 0 {
				return -1
			}
			return n/2 - 1
		}},
		{8, "cc", "nxt", rows, func(n int64) int64 { return n - 1 }},
	} {
		sql := fmt.Sprintf("SET @@CPU TO %d; OPEN %s;", v.cpu, v.cur)
		sel := fmt.Sprintf("SELECT %s(n) AS v FROM big", v.fn)
		wantEnd := v.curRows
		if rows == v.curRows {
			wantEnd = v.curRows - 1 // exactly as many FETCHes as rows: the pointer rests ON the last row
		}
		want := fmt.Sprintf("handed %d twice 0 never 0 foreign 0 none %d end %d", v.curRows, rows-v.curRows, wantEnd)
		impl, round := "", 0
		var t *tally
		for round = 1; round <= 3*scale; round++ {
			t = &tally{seen: make([]int32, v.curRows)}
			var view *query.View
			var qerr error
			ok := guardedFor(concPatience, func() {
				if _, qerr = p.Exec(sql); qerr == nil {
					view, qerr = p.Query(sel)
				}
			})
			o.Eval()
			impl = "HANG"
			if !ok {
				break
			}
			if qerr != nil {
				impl = errTok(qerr)
				t.note(qerr.Error())
				break
			}
			for _, r := range view.RecordSet {
				if _, isNull := r[0][0].(*value.Null); isNull {
					t.none++
					continue
				}
				n, good := rowIndex(r[0][0], 0)
				i := int64(-1)
				if good {
					i = v.position(n)
				}
				if i < 0 || i >= int64(v.curRows) {
					t.foreign++
					continue
				}
				t.seen[i]++
			}
			end := -2
			if c, found := p.P.ReferenceScope.Blocks[0].Cursors.Load(v.cur); found {
				end, _ = c.Pointer()
			}
			impl, _, _ = t.line(end)
			_, err := p.Exec(fmt.Sprintf("CLOSE %s;", v.cur))
			must(err)
			if impl != want {
				break
			}
		}
		concReport(o, fmt.Sprintf("c16.concq %d %d", v.curRows, rows), impl, want, t, map[string]interface{}{
			"form":   fmt.Sprintf("%s — the function does one FETCH NEXT from cursor %s per call; %d rows, @@CPU = %d", sel, v.cur, rows, v.cpu),
			"cursor": v.cur, "rows": v.curRows, "calls": rows, "cpu": v.cpu, "program": program + " " + sql + " " + sel + ";", "round": round})
		o.NonTrivial(fmt.Sprintf("conc|query|cpu%d|%s", v.cpu, v.cur))
		lines++
		if impl == "HANG" || strings.HasPrefix(impl, "E") {
			return lines
		}
	}
	return lines
}
