// Structured programs of the c16 stream: the cursor's life-cycle statements (CLOSE, DISPOSE, a shadowing
// DECLARE, re-OPEN, DISPOSE of the shadowing cursor) and FETCH / status statements INSIDE a
// `WHILE … IN cur` body — directly, in a nested block (IF), or in a function called from the body — and
// the same statements in a nested block at top level.
//
// The harness simulates the program itself (blocks innermost-first, the loop fetching BY NAME on every
// iteration, exactly as the manual and C16 say) to know what every following iteration must do (error /
// end / go on over the outer cursor), renders it as SQL, runs it on the real processor and compares the
// trace it logged (`lp` table) with its own expectation (laws) — the Lean model gets the same program as
// one `c16.loop` / `c16.block` line.
package main

import (
	"fmt"
	"math/big"
	"strings"

	"verifharness/hc"
)

type lstmt struct {
	kind        string // declare dispose open close fetch isopen inrange count
	name        string
	pos         string
	num         int64
	qkind, qarg int
	using       int  // OPEN: rendered as `USING <using>` when hasUsing
	hasUsing    bool
	// filled by the simulation
	rows    []string // OPEN: the result of the query of the cursor the name resolved to
	rowsSet bool
	cols    int // FETCH: columns of the cursor that returned a row (0: never returned one)
	bad     bool
}

type litem struct {
	sub   bool
	guard int  // 0: always; k > 0: IF @n = k
	call  bool // render the block as a function call
	stmts []*lstmt
}

func cloneCursor(c *cursor) *cursor {
	d := *c
	d.snap = append([]string(nil), c.snap...)
	d.pendingOvf = nil
	return &d
}

// ---------- the harness' own semantics ----------

type sim struct {
	h      *hist
	blocks []map[string]*cursor // innermost first; the last one is the top-level block
	trace  []string
	evals  int             // accepted OPENs of cursors whose query adds 1 to @cnt
	after  []string        // what the header fetch did after the body touched the iterated cursor
	focus  string          // key of the cursor the loop iterates
	events map[string]bool // life-cycle statements on that key executed by the body since the last header fetch
	bad    bool // a statement resolved to cursors of different shape at different times: cannot be rendered
	// the cursor whose OPEN is evaluating its query right now (reentrant.go): the statements being simulated are
	// the body of the function that query calls
	opening *cursor
}

func (s *sim) resolve(k string) *cursor {
	for _, b := range s.blocks {
		if c, ok := b[k]; ok {
			return c
		}
	}
	return nil
}

// specFetch: the manual's FETCH with unbounded integers
func specFetch(c *cursor, pos string, num int64) string {
	n := int64(len(c.snap))
	tgt := new(big.Int)
	switch pos {
	case "next":
		tgt.SetInt64(c.ptr + 1)
	case "prior":
		tgt.SetInt64(c.ptr - 1)
	case "first":
		tgt.SetInt64(0)
	case "last":
		tgt.SetInt64(n - 1)
	case "abs":
		tgt.SetInt64(num)
	case "rel":
		tgt.Add(big.NewInt(c.ptr), big.NewInt(num))
	}
	c.fetched = true
	switch {
	case tgt.Sign() < 0:
		c.ptr = -1
		return "none"
	case tgt.Cmp(big.NewInt(n)) >= 0:
		c.ptr = n
		return "none"
	}
	c.ptr = tgt.Int64()
	return "row " + c.snap[c.ptr]
}

// stmt: result token; errors start with "E"
func (s *sim) stmt(st *lstmt) string {
	k := key(st.name)
	if st.kind == "declare" {
		if _, ok := s.blocks[0][k]; ok {
			return "E11001"
		}
		s.blocks[0][k] = &cursor{qkind: st.qkind, qarg: st.qarg}
		return "ok"
	}
	if st.kind == "dispose" {
		for _, b := range s.blocks {
			if c, ok := b[k]; ok {
				if c.pseudo {
					return "E11006"
				}
				delete(b, k)
				return "ok"
			}
		}
		return "E11002"
	}
	c := s.resolve(k)
	if c == nil {
		return "E11002"
	}
	if c.pseudo && (st.kind == "open" || st.kind == "close") {
		return "E11006"
	}
	if s.opening != nil && (st.kind == "open" || st.kind == "close") && (c == s.opening || (st.kind == "open" && c.qkind == qRe)) {
		// OPEN / CLOSE of the cursor that is being opened wait for the mutex its OPEN holds (known finding F100: the
		// dedicated scenarios of reentrant.go watch it); OPEN of another cursor over rf() would call rf recursively
		s.bad = true
		return "E?"
	}
	switch st.kind {
	case "open":
		if c.open {
			return "E11004"
		}
		if gone, _ := s.h.sourceGone(c); gone {
			s.bad = true // the evaluation error of a disposed source is a top-level matter (c16.openfail)
			return "E?"
		}
		arg := c.qarg
		if c.qkind == qStmtH {
			s.bad = true // opened through the programs of stmtprog.go only
			return "E?"
		}
		if c.qkind == qStmt1 {
			if !st.hasUsing {
				s.bad = true // "replace value is not specified": not a cursor matter
				return "E?"
			}
			arg = st.using
		}
		rows := evalQuery(c.qkind, arg, s.h.t)
		if c.qkind == qStmt1 {
			c.qarg = arg
		}
		if c.qkind == qCount {
			s.evals++
		}
		if st.rowsSet && strings.Join(rows, " ") != strings.Join(st.rows, " ") {
			s.bad = true
		}
		st.rows, st.rowsSet = rows, true
		c.open, c.snap, c.ptr, c.fetched, c.dmlSince = true, rows, -1, false, false
		return "ok"
	case "close":
		c.open, c.snap = false, nil
		return "ok"
	case "isopen":
		return map[bool]string{true: "T", false: "F"}[c.open]
	}
	if !c.open {
		return "E11003"
	}
	switch st.kind {
	case "count":
		return fmt.Sprintf("I%d", len(c.snap))
	case "inrange":
		if !c.fetched {
			return "U"
		}
		return map[bool]string{true: "T", false: "F"}[c.ptr >= 0 && c.ptr < int64(len(c.snap))]
	}
	r := specFetch(c, st.pos, st.num)
	if strings.HasPrefix(r, "row") {
		if st.cols != 0 && st.cols != c.cols() {
			s.bad = true
		}
		st.cols = c.cols()
	}
	return r
}

// run statements up to the first error; true: an error ended the program
func (s *sim) stmts(l []*lstmt) bool {
	for _, st := range l {
		r := s.stmt(st)
		if s.events != nil && key(st.name) == s.focus && !strings.HasPrefix(r, "E") && st.kind != "count" && st.kind != "isopen" && st.kind != "inrange" {
			s.events[st.kind] = true
		}
		s.trace = append(s.trace, r)
		if strings.HasPrefix(r, "E") {
			return true
		}
	}
	return false
}

func (s *sim) push() { s.blocks = append([]map[string]*cursor{{}}, s.blocks...) }
func (s *sim) pop()  { s.blocks = s.blocks[1:] }

func (s *sim) item(n int, it *litem) bool {
	if !it.sub {
		return s.stmts(it.stmts)
	}
	if it.guard != 0 && it.guard != n {
		return false
	}
	s.push()
	e := s.stmts(it.stmts)
	s.pop()
	return e
}

const loopCap = 40

// loop: returns false when the program does not end within loopCap iterations
func (s *sim) loop(header *lstmt, body []*litem) bool {
	s.focus, s.events = key(header.name), map[string]bool{}
	defer func() { s.events = nil }()
	for n := 1; n <= loopCap; n++ {
		s.push()
		r := s.stmt(header)
		s.trace = append(s.trace, r)
		cls := r
		if strings.HasPrefix(r, "row") {
			cls = "row"
		}
		for _, ev := range []string{"dispose", "close", "open", "declare", "fetch"} {
			if s.events[ev] {
				s.after = append(s.after, "next_iteration_after_"+ev+":"+cls)
			}
		}
		s.events = map[string]bool{}
		if !strings.HasPrefix(r, "row") {
			s.pop()
			return true
		}
		for _, it := range body {
			if s.item(n, it) {
				s.pop()
				return true
			}
		}
		s.pop()
	}
	return false
}

// ---------- generation ----------

func (h *hist) genStmt(focus string) *lstmt {
	g := h.g
	st := &lstmt{}
	st.name = focus
	if g.Intn(4) == 0 {
		st.name = namePool[g.Intn(len(namePool))]
	} else {
		var alts []string
		for _, n := range namePool {
			if key(n) == key(focus) {
				alts = append(alts, n)
			}
		}
		if len(alts) > 0 {
			st.name = alts[g.Intn(len(alts))]
		}
	}
	switch w := g.Intn(100); {
	case w < 20:
		st.kind = "dispose"
	case w < 34:
		st.kind = "close"
	case w < 46:
		st.kind = "open"
		st.hasUsing, st.using = g.Intn(3) > 0, g.Intn(int(h.nextID)+3)-1
	case w < 60:
		st.kind = "declare"
		st.qkind, st.qarg = g.Intn(nQueries), g.Intn(len(h.t)+3)
	case w < 86:
		st.kind = "fetch"
		st.pos = []string{"next", "next", "next", "prior", "first", "last", "abs", "rel", "rel"}[g.Intn(9)]
		switch g.Intn(8) {
		case 0:
			st.num = h.offset(len(h.t))
		default:
			st.num = int64(g.Intn(5) - 2)
		}
	case w < 91:
		st.kind = "count"
	case w < 96:
		st.kind = "isopen"
	default:
		st.kind = "inrange"
	}
	return st
}

func (h *hist) genBody(focus string) []*litem {
	g := h.g
	var body []*litem
	for i, n := 0, 1+g.Intn(4); i < n; i++ {
		it := &litem{}
		switch w := g.Intn(100); {
		case w < 40:
			it.stmts = []*lstmt{h.genStmt(focus)}
		default:
			it.sub = true
			if w < 85 {
				it.guard = 1 + g.Intn(4)
			}
			it.call = g.Intn(3) == 0
			for j, m := 0, 1+g.Intn(3); j < m; j++ {
				it.stmts = append(it.stmts, h.genStmt(focus))
			}
		}
		body = append(body, it)
	}
	return body
}

func (h *hist) newSim() *sim {
	top := map[string]*cursor{}
	for k, c := range h.curs {
		top[k] = cloneCursor(c)
	}
	return &sim{h: h, blocks: []map[string]*cursor{top}}
}

// ---------- rendering ----------

func (st *lstmt) opTokens() string {
	switch st.kind {
	case "open":
		return fmt.Sprintf("open %s %d", st.name, len(st.rows)) + joinPrefixed(st.rows)
	case "fetch":
		if st.pos == "abs" || st.pos == "rel" {
			return fmt.Sprintf("fetch %s %s %d", st.name, st.pos, st.num)
		}
		return "fetch " + st.name + " " + st.pos
	}
	return st.kind + " " + st.name
}

func (st *lstmt) sql(g *hc.Gen) string {
	logOK := " INSERT INTO lp VALUES ('ok', NULL, NULL);"
	switch st.kind {
	case "declare":
		return fmt.Sprintf("DECLARE %s CURSOR FOR %s;", st.name, queryText(st.qkind, st.qarg)) + logOK
	case "dispose":
		return fmt.Sprintf("DISPOSE CURSOR %s;", st.name) + logOK
	case "open":
		if st.hasUsing {
			return fmt.Sprintf("OPEN %s USING %d;", st.name, st.using) + logOK
		}
		return fmt.Sprintf("OPEN %s;", st.name) + logOK
	case "close":
		return fmt.Sprintf("CLOSE %s;", st.name) + logOK
	case "count":
		return fmt.Sprintf("@s := CURSOR %s COUNT; INSERT INTO lp VALUES ('sc', @s, NULL);", st.name)
	case "isopen":
		return fmt.Sprintf("@s := CURSOR %s IS OPEN; INSERT INTO lp VALUES ('st', @s, NULL);", st.name)
	case "inrange":
		return fmt.Sprintf("@s := CURSOR %s IS IN RANGE; INSERT INTO lp VALUES ('st', @s, NULL);", st.name)
	}
	p := strings.ToUpper(st.pos)
	switch st.pos {
	case "abs":
		p = "ABSOLUTE " + spellInt(g, st.num)
	case "rel":
		p = "RELATIVE " + spellInt(g, st.num)
	}
	if st.cols == 1 {
		return fmt.Sprintf("@c := '~'; @d := '~'; FETCH %s %s INTO @c; INSERT INTO lp VALUES ('f1', @c, NULL);", p, st.name)
	}
	return fmt.Sprintf("@c := '~'; @d := '~'; FETCH %s %s INTO @c, @d; INSERT INTO lp VALUES ('f2', @c, @d);", p, st.name)
}

func stmtsSQL(g *hc.Gen, l []*lstmt) string {
	p := make([]string, len(l))
	for i, st := range l {
		p[i] = st.sql(g)
	}
	return strings.Join(p, " ")
}

func stmtsTokens(l []*lstmt, sep string) string {
	p := make([]string, len(l))
	for i, st := range l {
		p[i] = st.opTokens()
	}
	return strings.Join(p, " "+sep+" ")
}

// readTrace: what the program logged, as model tokens
func (h *hist) readTrace() []string {
	v, err := h.p.Query("SELECT t, a, b FROM lp")
	out := []string{}
	if !h.need("SELECT t, a, b FROM lp", err) {
		return out
	}
	for _, r := range v.RecordSet {
		tag, a, b := hc.EncVal(r[0][0]), hc.EncVal(r[1][0]), hc.EncVal(r[2][0])
		switch tag {
		case strTok("ok"):
			out = append(out, "ok")
		case strTok("end"): // the loop ended by itself: its last FETCH returned nothing
			out = append(out, "none")
		case strTok("sc"):
			out = append(out, a)
		case strTok("st"):
			out = append(out, ternTok(a))
		case strTok("r1"):
			out = append(out, "row "+a)
		case strTok("r2"):
			out = append(out, "row "+a+","+b)
		case strTok("f1"):
			if a == "S7e" {
				out = append(out, "none")
			} else {
				out = append(out, "row "+a)
			}
		case strTok("f2"):
			if a == "S7e" && b == "S7e" {
				out = append(out, "none")
			} else {
				out = append(out, "row "+a+","+b)
			}
		default:
			out = append(out, "GUARD")
		}
	}
	_, err = h.p.Exec("DELETE FROM lp;")
	h.need("DELETE FROM lp;", err)
	return out
}

func firstDiff(a, b []string) int {
	for i := 0; i < len(a) && i < len(b); i++ {
		if a[i] != b[i] {
			return i
		}
	}
	if len(a) != len(b) {
		if len(a) < len(b) {
			return len(a)
		}
		return len(b)
	}
	return -1
}

// ---------- the two steps ----------

// stepLoop: WHILE … IN name with life-cycle statements in the body.  false: no renderable program found.
// With nest: IF TRUE THEN pre…; WHILE …; post… END IF (the loop may then run over a shadowing cursor).
func (h *hist) stepLoop(fixed []*litem, fixedName string, fixedPre []*lstmt, fixedNest bool) bool {
	if !h.valid { // OPEN statements inside the program need the harness' own copy of the table
		return false
	}
	g := h.g
	var s *sim
	var header *lstmt
	var body []*litem
	var pre, post []*lstmt
	name := ""
	nest := false
	for try := 0; ; try++ {
		if try == 25 {
			return false
		}
		name = h.pickName(true)
		body = h.genBody(name)
		nest = g.Intn(3) == 0
		pre, post = nil, nil
		if nest {
			if g.Intn(5) > 0 {
				pre = append(pre, &lstmt{kind: "declare", name: name, qkind: g.Intn(nQueries), qarg: g.Intn(len(h.t) + 3)})
				if g.Intn(6) > 0 {
					pre = append(pre, &lstmt{kind: "open", name: name, hasUsing: true, using: g.Intn(int(h.nextID)+3) - 1})
				}
			}
			for j, m := 0, g.Intn(3); j < m; j++ {
				pre = append(pre, h.genStmt(name))
			}
			for j, m := 0, g.Intn(3); j < m; j++ {
				post = append(post, h.genStmt(name))
			}
		}
		if fixed != nil {
			name, body, nest, pre, post = fixedName, fixed, fixedNest, fixedPre, nil
		}
		header = &lstmt{kind: "fetch", name: name, pos: "next"}
		s = h.newSim()
		ok := true
		if nest {
			s.push()
			if !s.stmts(pre) {
				ok = s.loop(header, body)
				if ok && !strings.HasPrefix(s.trace[len(s.trace)-1], "E") {
					s.stmts(post)
				}
			}
			s.pop()
		} else {
			ok = s.loop(header, body)
		}
		if ok && !s.bad {
			// prefer programs in which an iteration follows a life-cycle statement on the iterated cursor
			if fixed != nil || len(s.after) > 0 || try >= 20 || g.Intn(5) == 0 {
				break
			}
			continue
		}
		if fixed != nil {
			return false
		}
	}
	withVar := g.Intn(2) == 0
	va, vb := "@a", "@b"
	if withVar {
		va, vb = "@x", "@y"
	}
	vars, logRow := va+", "+vb, fmt.Sprintf("INSERT INTO lp VALUES ('r2', %s, %s);", va, vb)
	if header.cols == 1 {
		vars, logRow = va, fmt.Sprintf("INSERT INTO lp VALUES ('r1', %s, NULL);", va)
	}
	var prelude, cleanup, items, toks []string
	for _, it := range body {
		if !it.sub {
			items = append(items, stmtsSQL(g, it.stmts))
			toks = append(toks, stmtsTokens(it.stmts, ";"))
			continue
		}
		gd := "*"
		if it.guard != 0 {
			gd = fmt.Sprint(it.guard)
		}
		form := ""
		if it.call {
			form = "call"
		}
		items = append(items, h.wrapBlock(form, stmtsSQL(g, it.stmts), it.guard, &prelude, &cleanup))
		toks = append(toks, "{ "+gd+" "+stmtsTokens(it.stmts, ",")+" }")
	}
	decl := ""
	if withVar {
		decl = "VAR "
	}
	loopSQL := fmt.Sprintf("@n := 0; WHILE %s%s IN %s DO @n := @n + 1; %s %s IF @n > %d THEN INSERT INTO lp VALUES ('guard', NULL, NULL); BREAK; END IF; END WHILE; INSERT INTO lp VALUES ('end', NULL, NULL);",
		decl, vars, name, logRow, strings.Join(items, " "), loopCap+5)
	if nest {
		loopSQL = h.wrapBlock("", strings.TrimSpace(stmtsSQL(g, pre)+" "+loopSQL+" "+stmtsSQL(g, post)), 0, &prelude, &cleanup)
	}
	sql := strings.Join(prelude, " ") + " " + loopSQL
	h.cntBefore = h.cnt()
	err := h.exec(strings.TrimSpace(sql))
	got := h.readTrace()
	if err != nil {
		got = append(got, errTok(err))
	}
	for _, c := range cleanup {
		_, _ = h.p.Exec(c)
	}
	if nest {
		line := strings.Join(strings.Fields(fmt.Sprintf("c16.nest %s %d %s ;; %s ;; %s", name, 4*loopCap, stmtsTokens(pre, ","), strings.Join(toks, " ; "), stmtsTokens(post, ","))), " ")
		h.o.Case(line, strings.Join(got, " | "))
		h.o.Count("loop_nested")
	} else {
		h.o.Case(fmt.Sprintf("c16.loop %s %d %s", name, 4*loopCap, strings.Join(toks, " ; ")), strings.Join(got, " | "))
	}
	h.finishProgram("loop", s, got, name, body)
	return true
}

// stepBlock: the same statements in a nested block at top level, opened by any construct of the language (or the given
// one); afterwards the names it declared are used at top level
func (h *hist) stepBlock(fixedForm string, fixed []*lstmt) bool {
	if !h.valid {
		return false
	}
	g := h.g
	var s *sim
	var l []*lstmt
	for try := 0; ; try++ {
		if try == 25 {
			return false
		}
		l = fixed
		if l == nil {
			focus := h.pickName(false)
			// half of the blocks declare a cursor of the focus name first: the DECLARE position is the point
			if g.Intn(2) == 0 {
				l = append(l, &lstmt{kind: "declare", name: focus, qkind: g.Intn(nQueries), qarg: g.Intn(len(h.t) + 3)})
			}
			for j, m := 0, 2+g.Intn(6); j < m; j++ {
				l = append(l, h.genStmt(focus))
			}
		}
		s = h.newSim()
		s.push()
		s.stmts(l)
		s.pop()
		if !s.bad {
			break
		}
		if fixed != nil {
			return false
		}
	}
	var prelude, cleanup []string
	form := fixedForm
	if form == "" && g.Intn(3) == 0 {
		form = "call"
	}
	sql := h.wrapBlock(form, stmtsSQL(g, l), 0, &prelude, &cleanup)
	sql = strings.TrimSpace(strings.Join(prelude, " ") + " " + sql)
	h.cntBefore = h.cnt()
	err := h.exec(sql)
	var got []string
	if !h.hung {
		got = h.readTrace()
	}
	if err != nil {
		got = append(got, errTok(err))
	}
	if !h.hung {
		for _, c := range cleanup {
			_, _ = h.p.Exec(c)
		}
	}
	h.o.Case("c16.block "+stmtsTokens(l, ","), strings.Join(got, " | "))
	h.finishProgram("block", s, got, "", nil)
	if fixed == nil {
		h.followUps(declaredIn(l), false)
	}
	return true
}

func (h *hist) finishProgram(kind string, s *sim, got []string, name string, body []*litem) {
	want := s.trace
	h.o.Count("op:" + kind)
	for _, a := range s.after {
		h.o.Count(a)
		h.o.NonTrivial(kind + "|" + a)
	}
	// signature: which life-cycle statements ran, how the program ended
	ran := map[string]bool{}
	for _, t := range want {
		switch {
		case strings.HasPrefix(t, "E"):
			ran[t] = true
		}
	}
	end := "none"
	if len(want) > 0 {
		end = want[len(want)-1]
		if strings.HasPrefix(end, "row") {
			end = "row"
		}
	}
	shape := []string{}
	for _, it := range body {
		p := ""
		if it.sub {
			p = map[bool]string{true: "call", false: "if"}[it.call]
			if it.guard != 0 {
				p += "@k"
			}
		}
		for _, st := range it.stmts {
			same := key(st.name) == key(name)
			shape = append(shape, fmt.Sprintf("%s:%s:%v", p, st.kind, same))
		}
	}
	h.o.NonTrivial(fmt.Sprintf("%s|end:%s|%s", kind, end, strings.Join(shape, ",")))
	h.o.Count(kind + "_end:" + end)
	if d := firstDiff(want, got); d >= 0 {
		exp := "<end of trace>"
		if d < len(want) {
			exp = want[d]
		}
		ln := "block_scoping"
		if kind == "agg" {
			ln = "pseudo_cursor"
		}
		if kind == "openre" {
			ln = "cursor_is_closed_while_its_open_runs"
		}
		if kind == "loop" {
			switch {
			case exp == "E11002":
				ln = "while_in_disposed_is_error"
			case exp == "E11003":
				ln = "while_in_closed_is_error"
			default:
				ln = "while_in_follows_current_binding"
			}
		}
		h.law(ln, map[string]interface{}{"expected_trace": strings.Join(want, " | "), "got_trace": strings.Join(got, " | "), "first_difference_at": d})
		h.aborted = true
		return
	}
	// every accepted OPEN of a side-effect query evaluated it once, refused ones not at all
	if after, want := h.cnt(), addTok(h.cntBefore, s.evals); after != want {
		h.law("open_evaluates_once", map[string]interface{}{"program": kind, "cnt_before": h.cntBefore, "cnt_after": after, "expected_cnt_after": want,
			"trace": strings.Join(got, " | ")})
		h.aborted = true
		return
	}
	// adopt the simulated top-level block
	top := s.blocks[len(s.blocks)-1]
	for k := range h.curs {
		if _, ok := top[k]; !ok {
			delete(h.curs, k)
		}
	}
	for k, c := range top {
		h.curs[k] = c
	}
}

// ---------- the number of variables ----------

func varList(n int) string { return strings.Join([]string{"@a", "@b", "@e"}[:n], ", ") }

// stepFetchInto: FETCH with a number of variables that differs from the cursor's columns.  The pointer
// moves as for any FETCH; the error (11007) is raised only when a row came back.
func (h *hist) stepFetchInto() {
	g := h.g
	name := h.pickName(true)
	c, exists := h.curs[key(name)]
	if exists && c.pendingOvf != nil {
		h.stepStatus(-1)
		return
	}
	cols := 2
	if exists {
		cols = c.cols()
	}
	nvars := 1 + g.Intn(3)
	for nvars == cols {
		nvars = 1 + g.Intn(3)
	}
	pos := []string{"next", "next", "prior", "first", "last", "abs", "rel"}[g.Intn(7)]
	num := int64(g.Intn(7) - 3)
	opPos, sqlPos := pos, strings.ToUpper(pos)
	switch pos {
	case "abs":
		opPos, sqlPos = fmt.Sprintf("abs %d", num), "ABSOLUTE "+spellInt(g, num)
	case "rel":
		opPos, sqlPos = fmt.Sprintf("rel %d", num), "RELATIVE "+spellInt(g, num)
	}
	err := h.exec(fmt.Sprintf("FETCH %s %s INTO %s;", sqlPos, name, varList(nvars)))
	impl := "none"
	if err != nil {
		impl = errTok(err)
	}
	h.o.Case(fmt.Sprintf("c16.fetchinto %s %d %s", name, nvars, opPos), impl)
	h.o.Count("op:fetchinto")
	want, st := "", "undeclared"
	switch {
	case !exists:
		want = "E11002"
	case !c.open:
		want, st = "E11003", "closed"
	default:
		st = "open"
		before := c.ptr
		r := specFetch(c, pos, num)
		want = "none"
		if strings.HasPrefix(r, "row") {
			want = "E11007"
		}
		if after, ok := h.realPointer(name); ok && int64(after) != c.ptr && impl == want {
			h.law("fetch_length_mismatch", map[string]interface{}{"name": name, "fetch": opPos, "variables": nvars, "pointer_before": before,
				"expected_pointer_after": c.ptr, "implementation_pointer_after": after})
			h.aborted = true
		}
	}
	if impl != want {
		h.law("fetch_length_mismatch", map[string]interface{}{"name": name, "fetch": opPos, "variables": nvars, "columns": cols, "expected": want, "got": impl})
		h.aborted = true
	}
	h.o.NonTrivial(fmt.Sprintf("fetchinto|%s|%s|cols%d|vars%d|%s", st, pos, cols, nvars, want))
}

// stepWhileInto: WHILE with the wrong number of variables stops at the first row it fetches
func (h *hist) stepWhileInto() {
	g := h.g
	name := h.pickName(true)
	c, exists := h.curs[key(name)]
	if exists && c.pendingOvf != nil {
		h.stepStatus(-1)
		return
	}
	cols := 2
	if exists {
		cols = c.cols()
	}
	nvars := 1 + g.Intn(3)
	for nvars == cols {
		nvars = 1 + g.Intn(3)
	}
	decl := ""
	if g.Intn(2) == 0 {
		decl = "VAR "
	}
	vars := varList(nvars)
	if decl != "" {
		vars = strings.Join([]string{"@x", "@y", "@z"}[:nvars], ", ")
	}
	first := strings.Split(vars, ", ")[0]
	err := h.exec(fmt.Sprintf("WHILE %s%s IN %s DO INSERT INTO lg VALUES (%s, NULL); END WHILE;", decl, vars, name, first))
	seen := h.readLog(1)
	impl := fmt.Sprintf("rows %d", len(seen)) + joinPrefixed(seen)
	if err != nil {
		impl = errTok(err)
	}
	h.o.Case(fmt.Sprintf("c16.whileinto %s %d", name, nvars), impl)
	h.o.Count("op:whileinto")
	want, st := "", "undeclared"
	switch {
	case !exists:
		want = "E11002"
	case !c.open:
		want, st = "E11003", "closed"
	default:
		st = "open"
		r := specFetch(c, "next", 0)
		want = "rows 0"
		if strings.HasPrefix(r, "row") {
			want = "E11007"
		}
		if after, ok := h.realPointer(name); ok && int64(after) != c.ptr && impl == want {
			h.law("fetch_length_mismatch", map[string]interface{}{"name": name, "op": "while", "variables": nvars,
				"expected_pointer_after": c.ptr, "implementation_pointer_after": after})
			h.aborted = true
		}
	}
	if impl != want {
		h.law("fetch_length_mismatch", map[string]interface{}{"name": name, "op": "while", "variables": nvars, "columns": cols, "expected": want, "got": impl})
		h.aborted = true
	}
	h.o.NonTrivial(fmt.Sprintf("whileinto|%s|cols%d|vars%d|%s", st, cols, nvars, want))
}

// ---------- pseudo cursors ----------

// stepAgg: one call of a user-defined aggregate over the ids of t; its body works on the pseudo cursor
// `pc` (and on the caller's cursors, which it sees).  OPEN / CLOSE / DISPOSE of pc must be error 11006.
func (h *hist) stepAgg() bool {
	if !h.valid || len(h.t) == 0 {
		return false
	}
	g := h.g
	values := make([]string, len(h.t))
	for i, r := range h.t {
		values[i] = r.idTok
	}
	var s *sim
	var l []*lstmt
	for try := 0; ; try++ {
		if try == 25 {
			return false
		}
		l = nil
		for j, m := 0, 2+g.Intn(6); j < m; j++ {
			st := h.genStmt("pc")
			// mostly reading statements: a refused OPEN / CLOSE / DISPOSE ends the call
			if (st.kind == "declare" || st.kind == "dispose" || st.kind == "close" || st.kind == "open") && g.Intn(4) > 0 {
				st.kind = "fetch"
				st.pos = []string{"next", "next", "prior", "first", "last", "abs", "rel"}[g.Intn(7)]
				st.num = int64(g.Intn(5) - 2)
			}
			l = append(l, st)
		}
		s = h.newSim()
		s.push()
		s.blocks[0]["PC"] = &cursor{qkind: qOneCol, open: true, snap: values, ptr: -1, pseudo: true}
		s.stmts(l)
		s.pop()
		if !s.bad {
			break
		}
	}
	h.fnCount++
	fn := fmt.Sprintf("lf%d", h.fnCount)
	h.cntBefore = h.cnt()
	err := h.exec(fmt.Sprintf("DECLARE %s AGGREGATE (pc) AS BEGIN %s RETURN NULL; END; SELECT %s(id) FROM t;", fn, stmtsSQL(g, l), fn))
	got := h.readTrace()
	if err != nil {
		got = append(got, errTok(err))
	}
	if !h.hung {
		_, _ = h.p.Exec(fmt.Sprintf("DISPOSE FUNCTION %s;", fn))
	}
	h.o.Case(fmt.Sprintf("c16.agg pc %d", len(values))+joinPrefixed(values)+" ;; "+stmtsTokens(l, ","), strings.Join(got, " | "))
	h.finishProgram("agg", s, got, "pc", []*litem{{stmts: l}})
	return true
}
