// Re-entrant histories of the c16 stream: OPEN of a cursor whose query calls a user-defined function that itself
// executes cursor statements — on the cursor that is being opened, and on other cursors.
//
// Cursor.Open holds the cursor's (non-re-entrant) mutex while it evaluates the query, and assigns the view only
// after the evaluation.  So for the function the cursor is STILL CLOSED: FETCH / IS IN RANGE / COUNT of it are
// error 11003 (which ends the evaluation: OPEN fails with it, the cursor stays closed), IS OPEN is FALSE, DISPOSE
// removes the name; statements on other cursors act as usual.  None of them may wait for the mutex: every
// statement runs under the watchdog (law cursor_operation_never_returns).
//
// The cursor kind qRe is `SELECT id, v FROM t LIMIT rf() * 0 + 1000` (rf called once) or
// `SELECT id, v FROM t WHERE rf() = 0` (once per row, in table order: the tables are far below the 160 rows at
// which csvq evaluates rows in parallel).  The function rf is replaced right before the OPEN and put back to
// `RETURN 0` after it, so that every other OPEN of such a cursor is a plain one.
//
// The harness simulates the program itself (sim.openRe: blocks innermost-first, the cursor closed during the
// body) and compares the logged trace; the Lean model gets the same program as one `c16.openre` line.
//
// OPEN / CLOSE of the cursor from inside its own OPEN take the mutex unconditionally and never return on the
// code as it is (known finding F100).  They are kept out of the generated bodies and watched by two dedicated
// sessions that run beside the stream (selfProbes): law reentrant_open_close_self_deadlock.
package main

import (
	"fmt"
	"os"
	"runtime"
	"sort"
	"strings"
	"time"

	"verifharness/hc"
)

const rfTrivial = "DECLARE rf FUNCTION () AS BEGIN RETURN 0; END;"

func rfDecl(body string) string {
	return "DISPOSE FUNCTION rf; DECLARE rf FUNCTION () AS BEGIN " + body + " RETURN 0; END;"
}

// openRe: OPEN st.name while the query's function runs `body`, `reps` times
func (s *sim) openRe(st *lstmt, body []*lstmt, reps int) {
	c := s.resolve(key(st.name))
	switch {
	case c == nil:
		s.trace = append(s.trace, "E11002")
		return
	case c.pseudo:
		s.trace = append(s.trace, "E11006")
		return
	case c.open:
		s.trace = append(s.trace, "E11004") // refused before anything is evaluated: the function is not called
		return
	}
	s.opening = c
	for r := 0; r < reps; r++ {
		s.push()
		e := s.stmts(body)
		s.pop()
		if e {
			s.opening = nil
			return // the evaluation failed: so does OPEN, the cursor stays as it is
		}
	}
	s.opening = nil
	rows := evalQuery(c.qkind, c.qarg, s.h.t)
	st.rows, st.rowsSet = rows, true
	c.open, c.snap, c.ptr, c.fetched, c.dmlSince = true, rows, -1, false, false
	s.trace = append(s.trace, "ok")
}

// genReStmt: one statement of the function's body — mostly on the cursor that is being opened
func (h *hist) genReStmt(name string) *lstmt {
	g := h.g
	if g.Intn(100) < 55 {
		st := &lstmt{name: name}
		var alts []string
		for _, n := range namePool {
			if key(n) == key(name) {
				alts = append(alts, n)
			}
		}
		if len(alts) > 0 {
			st.name = alts[g.Intn(len(alts))]
		}
		switch w := g.Intn(100); {
		case w < 40:
			st.kind = "fetch"
			st.pos = []string{"next", "next", "prior", "first", "last", "abs", "rel"}[g.Intn(7)]
			st.num = int64(g.Intn(5) - 2)
		case w < 60:
			st.kind = "isopen"
		case w < 75:
			st.kind = "inrange"
		case w < 90:
			st.kind = "count"
		default:
			st.kind = "dispose"
		}
		return st
	}
	// another cursor: a declared one if there is any
	var others []string
	for k := range h.curs {
		if k != key(name) {
			others = append(others, k)
		}
	}
	sort.Strings(others)
	focus := namePool[g.Intn(len(namePool))]
	if len(others) > 0 {
		k := others[g.Intn(len(others))]
		for _, n := range namePool {
			if key(n) == k {
				focus = n
				break
			}
		}
	}
	return h.genStmt(focus)
}

// stepOpenRe: OPEN of a cursor over rf() with a generated (or given) body.  false: nothing renderable found.
func (h *hist) stepOpenRe(fixedName string, fixedBody []*lstmt) bool {
	if !h.valid {
		return false
	}
	g := h.g
	name := fixedName
	if name == "" {
		var closed, all []string
		for k, c := range h.curs {
			if c.qkind == qRe && !c.pseudo {
				all = append(all, k)
				if !c.open {
					closed = append(closed, k)
				}
			}
		}
		sort.Strings(all)
		sort.Strings(closed)
		if len(all) == 0 || (len(closed) == 0 && g.Intn(2) == 0) {
			// no (closed) cursor over rf(): declare one, or close one
			if len(all) > 0 {
				fn := h.forceName
				h.forceName = all[g.Intn(len(all))]
				h.stepClose()
				h.forceName = fn
				return true
			}
			for _, n := range namePool {
				if _, used := h.curs[key(n)]; !used {
					h.stepDeclare(n, qRe)
					return true
				}
			}
			return false
		}
		pick := all
		if len(closed) > 0 && g.Intn(10) < 8 {
			pick = closed
		}
		k := pick[g.Intn(len(pick))]
		var alts []string
		for _, n := range namePool {
			if key(n) == k {
				alts = append(alts, n)
			}
		}
		name = alts[g.Intn(len(alts))]
		if g.Intn(25) == 0 {
			name = namePool[g.Intn(len(namePool))]
		}
	}
	var s *sim
	var body []*lstmt
	var open *lstmt
	reps := 1
	for try := 0; ; try++ {
		if try == 25 {
			return false
		}
		body = fixedBody
		if body == nil {
			for j, m := 0, 1+g.Intn(3); j < m; j++ {
				body = append(body, h.genReStmt(name))
			}
		}
		s = h.newSim()
		open = &lstmt{kind: "open", name: name}
		reps = 1
		if c := s.resolve(key(name)); c != nil {
			if c.qkind != qRe {
				return false // only cursors over rf() call the function
			}
			if c.qarg%2 == 1 {
				reps = len(h.t) // WHERE rf() = 0: once per row
			}
		}
		s.openRe(open, body, reps)
		if !s.bad {
			break
		}
		if fixedBody != nil {
			return false
		}
	}
	sql := rfDecl(stmtsSQL(g, body)) + fmt.Sprintf(" OPEN %s; INSERT INTO lp VALUES ('ok', NULL, NULL);", name)
	h.cntBefore = h.cnt()
	err := h.exec(sql)
	var got []string
	if !h.hung {
		got = h.readTrace()
	}
	if err != nil {
		got = append(got, errTok(err))
	}
	if !h.hung {
		_, _ = h.p.Exec(rfDecl(""))
	}
	rows := open.rows
	if !open.rowsSet {
		rows = evalQuery(qRe, 0, h.t) // what the model would materialise if it got that far
	}
	h.o.Case(strings.Join(strings.Fields(fmt.Sprintf("c16.openre %s %d %d%s ;; %s", name, reps, len(rows), joinPrefixed(rows), stmtsTokens(body, ","))), " "),
		strings.Join(got, " | "))
	h.o.Count(fmt.Sprintf("openre_reps:%s", lenBucket(reps)))
	for _, st := range body {
		same := "other"
		if key(st.name) == key(name) {
			same = "self"
		}
		h.o.Count("openre_body:" + st.kind + ":" + same)
	}
	h.finishProgram("openre", s, got, name, []*litem{{stmts: body}})
	return true
}

// scriptedReentrant: the re-entrant situations by name, whatever the seed
func scriptedReentrant(g *hc.Gen, o *hc.Out, dir string) (int, string) {
	total := 0
	f := func(kind string) *lstmt { return &lstmt{kind: kind, name: "cur"} }
	ft := func(name, pos string, num int64) *lstmt { return &lstmt{kind: "fetch", name: name, pos: pos, num: num} }
	bodies := [][]*lstmt{
		{ft("cur", "next", 0)}, // seed C16-m15: the closed check of Fetch behind the Lock
		{f("isopen"), f("inrange")},
		{f("count")},
		{ft("CUR", "first", 0)},
		{ft("cur", "abs", 0)},
		{ft("Cur", "rel", 1)},
		{ft("cur", "prior", 0)},
		{ft("cur", "last", 0)},
		{f("isopen"), f("dispose")},
		{f("dispose"), f("isopen")},
		// another cursor: fetched, closed and re-opened while cur is being opened; cur itself stays closed meanwhile
		{ft("c2", "next", 0), f("isopen"), {kind: "close", name: "c2"}, {kind: "open", name: "c2"}, ft("c2", "last", 0), {kind: "count", name: "c2"}},
		{{kind: "inrange", name: "c2"}, ft("c2", "next", 0), {kind: "inrange", name: "C2"}, f("isopen")},
		// a cursor of the same name declared in the function's own block shadows the one that is being opened
		{{kind: "declare", name: "cur", qkind: qDesc}, {kind: "open", name: "cur"}, ft("cur", "next", 0), f("isopen")},
		{{kind: "dispose", name: "c2"}, {kind: "isopen", name: "c2"}},
	}
	k := 0
	for _, arg := range []int{0, 1} { // rf() in the LIMIT clause (one call) / in the WHERE clause (one call per row)
		for bi, body := range bodies {
			if hungHistories >= 3 {
				return total, dir
			}
			h := &hist{g: g, o: o, dir: dir, seedTag: fmt.Sprintf("scripted re-entrant history=%d", k), noTxn: true}
			k++
			h.setup((bi+arg)%2 == 0, []int{3, 3, 2, 4, 0, 1}[bi%6])
			qa := arg
			h.forceQArg = &qa
			h.stepDeclare("cur", qRe)
			h.forceQArg = nil
			h.stepDeclare("c2", qAll)
			h.forceName = "c2"
			h.stepOpen()
			h.forceName = "cur"
			total += 4
			if !h.aborted {
				h.stepOpenRe("cur", body)
				total++
			}
			// afterwards: the cursor is what the model says, and it works
			for _, probe := range []func(){func() { h.stepStatus(1) }, func() { h.stepFetch("", "next") }, func() { h.stepStatus(0) },
				func() { h.stepOpen() }, func() { h.stepFetch("", "last") }, func() { h.forceName = "c2"; h.stepFetch("", "next") }} {
				if h.aborted {
					break
				}
				probe()
				total++
				h.checkInv()
			}
			dir = endHistory(h, os.Getenv("VERIF_SCRATCH"), dir)
			o.Count("histories_scripted_reentrant")
		}
	}
	return total, dir
}

// ---------- OPEN / CLOSE of the cursor from inside its own OPEN (known finding F100) ----------

type selfProbe struct {
	stmt    string // the statement the function executes
	program string
	opToks  string
	started time.Time
	done    chan []string // the logged trace (+ error token)
}

const selfRows = "I1,S61 I2,S62 I3,S63"

// startSelfProbes: two sessions of their own, running beside the stream (a session that deadlocks is abandoned)
func startSelfProbes() []*selfProbe {
	var out []*selfProbe
	for _, v := range []struct{ stmt, body, toks string }{
		{"CLOSE cur;", "CLOSE cur; INSERT INTO lp VALUES ('ok', NULL, NULL);", "close cur"},
		{"OPEN cur;", "IF @depth = 0 THEN @depth := 1; OPEN cur; INSERT INTO lp VALUES ('ok', NULL, NULL); END IF;", "open cur 3 " + selfRows},
	} {
		sp := &selfProbe{stmt: v.stmt, opToks: v.toks, started: time.Now(), done: make(chan []string, 1)}
		sp.program = "DECLARE t VIEW (id, v); INSERT INTO t VALUES (1, 'a'), (2, 'b'), (3, 'c'); DECLARE lp VIEW (t, a, b); VAR @depth := 0; " +
			"DECLARE rf FUNCTION () AS BEGIN " + v.body + " RETURN 0; END; DECLARE cur CURSOR FOR SELECT id, v FROM t LIMIT rf() * 0 + 1000; " +
			"OPEN cur; INSERT INTO lp VALUES ('ok', NULL, NULL);"
		out = append(out, sp)
		go func(sp *selfProbe) {
			p := hc.NewProc("")
			_, err := p.Exec(sp.program)
			var got []string
			if v, qerr := p.Query("SELECT t FROM lp"); qerr == nil {
				for range v.RecordSet {
					got = append(got, "ok")
				}
			}
			if err != nil {
				got = append(got, errTok(err))
			}
			p.Close()
			sp.done <- got
		}(sp)
	}
	return out
}

// selfDeadlocked: the goroutine of a probe waits in sync.Mutex.Lock inside a cursor method while (*Cursor).Open is
// further down ITS OWN stack — the holder of the mutex is the waiter itself: it will never return.  Read from the
// runtime's goroutine dump, so the verdict does not depend on a time-out.
func selfDeadlocked(stmt string) (bool, string) {
	buf := make([]byte, 1<<20)
	buf = buf[:runtime.Stack(buf, true)]
	for _, blk := range strings.Split(string(buf), "\n\n") {
		if !strings.Contains(blk, "main.startSelfProbes") {
			continue
		}
		head := blk
		if i := strings.Index(blk, "\n"); i >= 0 {
			head = blk[:i]
		}
		if !strings.Contains(head, "sync.Mutex.Lock") && !strings.Contains(head, "semacquire") {
			continue
		}
		inner := "query.(*Cursor).Close("
		if strings.HasPrefix(stmt, "OPEN") {
			inner = "query.(*Cursor).Open("
		}
		i := strings.Index(blk, inner)
		if i < 0 {
			continue
		}
		if j := strings.Index(blk[i+len(inner):], "query.(*Cursor).Open("); j >= 0 {
			var frames []string
			for _, l := range strings.Split(blk, "\n") {
				if strings.Contains(l, "(*Cursor).") || strings.Contains(l, "(*Mutex).") {
					frames = append(frames, strings.TrimSpace(strings.SplitN(l, "(0x", 2)[0]))
				}
			}
			return true, head + " " + strings.Join(frames, " <- ")
		}
	}
	return false, ""
}

// collectSelfProbes: a probe that returned becomes a model line; one that waits for the mutex its own OPEN holds
// (or has not returned when the watchdog's patience ends) is the known finding
func collectSelfProbes(o *hc.Out, probes []*selfProbe) {
	for _, sp := range probes {
		var got []string
		returned, evidence := false, ""
	wait:
		for {
			select {
			case got = <-sp.done:
				returned = true
				break wait
			case <-time.After(15 * time.Millisecond):
			}
			if dead, ev := selfDeadlocked(sp.stmt); dead {
				evidence = ev
				break wait
			}
			if time.Since(sp.started) > watchdog {
				evidence = "no answer within the watchdog's patience"
				break wait
			}
		}
		if returned {
			o.Case("c16.reset", "ok")
			o.Case("c16.declare cur", "ok")
			o.Case("c16.openre cur 1 3 "+selfRows+" ;; "+sp.opToks, strings.Join(got, " | "))
			o.Count("self_probe_returned")
		} else {
			o.Law("reentrant_open_close_self_deadlock", map[string]interface{}{
				"statement_inside_the_function": sp.stmt, "program": sp.program, "goroutine": evidence,
				"what": "the statement is executed by a function that the query of cursor cur calls, while OPEN cur evaluates that query: it waits for the mutex that OPEN — further down the same stack — holds; the session never returns"})
			o.Count("self_probe_deadlocked")
		}
		o.Eval()
	}
}
