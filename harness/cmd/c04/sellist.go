package main

// Select lists of every shape for the bucketing cases of stream 2: SELECT DISTINCT, the set operators and GROUP BY take
// their lists from a generator of column LISTS over the source's fields — any length (shorter than, equal to, longer than
// the number of fields), with repetitions, permutations, aliases, qualified names, `*` and `s.*` beside columns, and
// expressions beside plain columns — over the table itself and over derived tables (with and without the row id).
// The model is handed exactly the SELECTED cell tuples (read with the same list without DISTINCT; for plain columns also
// recomputed here from `SELECT *` — law `projection_of_plain_columns`) and must predict which rows survive / which rows
// share a bucket: a key that depends on anything but the selected values shows up as a difference.

import (
	"fmt"
	"strconv"
	"strings"

	"github.com/mithrandie/csvq/lib/query"
	"github.com/mithrandie/csvq/lib/value"

	"verifharness/hc"
)

// source: a FROM item and the names of its fields, in order
type source struct {
	from   string   // text after FROM
	name   string   // the name `name.*` / `name.col` refer to
	fields []string // field names in order
	where  string   // optional WHERE clause (with leading space)
}

type selItem struct {
	sql  string
	cols []int // the source fields it stands for (one for a column, all for a wildcard); nil = an expression
}

func exprOver(g *hc.Gen, f string) string {
	switch g.Intn(8) {
	case 0:
		return "7"
	case 1:
		return "'x'"
	case 2:
		return "NULL"
	case 3:
		return "(" + f + " IS NULL)"
	case 4:
		return "COALESCE(" + f + ", 0)"
	case 5:
		return "(" + f + " || '')"
	case 6:
		return "CASE WHEN " + f + " IS NULL THEN 1 ELSE 2 END"
	}
	return "UPPER(" + f + ")"
}

// genItems draws a select list. shape 0: anything; shape 1: exactly as many plain columns as the source has fields, drawn
// from `from` (so some column repeats when `from` is smaller than the field count); shape 2: a permutation of all fields;
// plainOnly: no wildcard, no alias (GROUP BY items, right-hand sides of a fixed width).
func genItems(g *hc.Gen, s source, from []int, shape int, width int, plainOnly bool) []selItem {
	col := func(j int, mayAlias bool) selItem {
		name := s.fields[j]
		if g.Intn(4) == 0 {
			name = s.name + "." + name
		}
		if mayAlias && !plainOnly && g.Intn(3) == 0 {
			name += " AS a" + strconv.Itoa(g.Intn(90)+10)
		}
		return selItem{name, []int{j}}
	}
	var items []selItem
	switch shape {
	case 1:
		for k := 0; k < len(s.fields); k++ {
			items = append(items, col(from[g.Intn(len(from))], true))
		}
		return items
	case 2:
		perm := g.Perm(len(s.fields))
		for _, j := range perm {
			items = append(items, col(j, true))
		}
		return items
	}
	n := width
	if n == 0 {
		n = 1 + g.Intn(len(s.fields)+2)
	}
	w := 0
	for w < n {
		switch k := g.Intn(10); {
		case k == 0 && !plainOnly && width == 0:
			all := make([]int, len(s.fields))
			for j := range all {
				all[j] = j
			}
			items = append(items, selItem{g.Pick("*", s.name+".*"), all})
			w += len(all)
		case k <= 2:
			e := exprOver(g, s.fields[from[g.Intn(len(from))]])
			if !plainOnly && g.Intn(3) == 0 {
				e += " AS e" + strconv.Itoa(g.Intn(90)+10)
			}
			items = append(items, selItem{e, nil})
			w++
		default:
			items = append(items, col(from[g.Intn(len(from))], true))
			w++
		}
	}
	return items
}

// uniqueNames gives every item its own alias: csvq refuses an operand of a set operator in which one field name occurs
// twice ("field … is ambiguous"), so repeated columns are selected under different names there; a wildcard stays as it is
// and is only used alone.
func uniqueNames(items []selItem) []selItem {
	out := make([]selItem, len(items))
	for i, it := range items {
		sql := it.sql
		if k := strings.LastIndex(sql, " AS "); k >= 0 {
			sql = sql[:k]
		}
		if !strings.HasSuffix(sql, "*") {
			sql += " AS x" + strconv.Itoa(i+1)
		}
		out[i] = selItem{sql, it.cols}
	}
	return out
}

func onlyWildcard(s source, g *hc.Gen) []selItem {
	all := make([]int, len(s.fields))
	for j := range all {
		all[j] = j
	}
	return []selItem{{g.Pick("*", s.name+".*"), all}}
}

func itemsSQL(items []selItem) string {
	s := make([]string, len(items))
	for i, it := range items {
		s[i] = it.sql
	}
	return strings.Join(s, ", ")
}

func viewRows(v *query.View) [][]value.Primary {
	rows := make([][]value.Primary, v.RecordLen())
	for i := range rows {
		rows[i] = make([]value.Primary, v.FieldLen())
		for j := range rows[i] {
			rows[i][j] = hc.ViewCell(v, i, j)
		}
	}
	return rows
}

func encTuple(r []value.Primary) string { return strings.Join(encList(r), " ") }

func tupleToks(rows [][]value.Primary) string {
	var sb strings.Builder
	for _, r := range rows {
		for _, p := range r {
			sb.WriteString(ktok(p))
			sb.WriteByte(' ')
		}
	}
	return strings.TrimRight(sb.String(), " ")
}

// projection runs `SELECT items FROM source` and checks the plain-column positions against `SELECT *`.
func projection(o *hc.Out, pr *hc.Proc, s source, items []selItem) ([][]value.Primary, bool) {
	pv, err := pr.Query("SELECT " + itemsSQL(items) + " FROM " + s.from + s.where)
	if err != nil {
		o.Law("select_list_sql_error", map[string]interface{}{"list": itemsSQL(items), "from": s.from, "error": err.Error()})
		return nil, false
	}
	bv, err := pr.Query("SELECT * FROM " + s.from + s.where)
	if err != nil {
		o.Law("select_list_sql_error", err.Error())
		return nil, false
	}
	proj, base := viewRows(pv), viewRows(bv)
	if len(proj) != len(base) {
		o.Law("projection_of_plain_columns", map[string]interface{}{"list": itemsSQL(items), "rows": len(proj), "rows_of_star": len(base)})
		return nil, false
	}
	for i := range proj {
		k := 0
		for _, it := range items {
			if it.cols == nil {
				k++
				continue
			}
			for _, j := range it.cols {
				if k >= len(proj[i]) || j >= len(base[i]) || hc.EncVal(proj[i][k]) != hc.EncVal(base[i][j]) {
					o.Law("projection_of_plain_columns", map[string]interface{}{"list": itemsSQL(items), "from": s.from, "row": i, "position": k})
					return nil, false
				}
				k++
			}
		}
		if k != len(proj[i]) {
			o.Law("projection_of_plain_columns", map[string]interface{}{"list": itemsSQL(items), "from": s.from, "width": len(proj[i]), "expected_width": k})
			return nil, false
		}
	}
	return proj, true
}

// idsExact maps output rows back to source positions: the k-th output row must be, value for value and type for type,
// a source tuple not used yet; the first such one in source order (DISTINCT keeps the first row of a bucket unchanged).
func idsExact(out [][]value.Primary, src [][]value.Primary) string {
	enc := make([]string, len(src))
	for i, r := range src {
		enc[i] = encTuple(r)
	}
	used := make([]bool, len(src))
	res := make([]string, len(out))
	for k, r := range out {
		e := encTuple(r)
		res[k] = "?"
		for i := range src {
			if !used[i] && enc[i] == e {
				used[i] = true
				res[k] = strconv.Itoa(i)
				break
			}
		}
	}
	return strings.Join(res, ",")
}

func shapeName(shape int) string { return []string{"any", "as_many_as_fields", "permutation"}[shape] }

// runSelLists: the generated-list cases over table t (fields id, cols…, v, w) and u (fields id, cols…).
func runSelLists(g *hc.Gen, o *hc.Out, pr *hc.Proc, st string, strict bool, cols []string, nrows int, longKey bool, cpu int) {
	tf := append(append([]string{"id"}, cols...), "v", "w")
	where := ""
	if longKey && nrows > 10 {
		where = " WHERE id < 10" // cells of several kilobytes: a few rows are enough here
	} else if nrows > 40 {
		where = " WHERE id < 40" // keeps the op lines short; the field structure of the view is the same
	}
	srcT := source{"t", "t", tf, where}
	nonID := func(s source) []int {
		var r []int
		for j, f := range s.fields {
			if f != "id" {
				r = append(r, j)
			}
		}
		return r
	}
	// a derived table over a few columns of t, without the row id (so that `*` does not make every row different)
	derived := func(withID bool) source {
		var fs []string
		if withID {
			fs = append(fs, "id")
		}
		perm := g.Perm(len(tf) - 1)
		for _, j := range perm[:1+g.Intn(3)] {
			fs = append(fs, tf[1+j]) // distinct names: a derived table cannot hold one name twice
		}
		return source{"(SELECT " + strings.Join(fs, ", ") + " FROM t" + where + ") s", "s", fs, ""}
	}

	// ---- SELECT DISTINCT <list> ----
	for rep := 0; rep < 2; rep++ {
		s := srcT
		if g.Intn(2) == 0 {
			s = derived(false)
		}
		shape := []int{0, 1, 1, 2}[g.Intn(4)]
		items := genItems(g, s, nonID(s), shape, 0, false)
		proj, ok := projection(o, pr, s, items)
		if !ok {
			continue
		}
		dq := "SELECT DISTINCT " + itemsSQL(items) + " FROM " + s.from + s.where
		dv, err := pr.Query(dq)
		if err != nil {
			o.Law("distinct_sql_error", map[string]interface{}{"list": itemsSQL(items), "from": s.from, "error": err.Error()})
			continue
		}
		w := 0
		if len(proj) > 0 {
			w = len(proj[0])
		} else {
			w = dv.FieldLen()
		}
		out := viewRows(dv)
		o.Case(fmt.Sprintf("c04.distinct q:%s %s %d %s", hc.Hex(dq), st, w, tupleToks(proj)), idsExact(out, proj))
		o.Count("sellist:distinct:" + shapeName(shape))
		o.NonTrivial(fmt.Sprintf("sellist:distinct:%s:%s:%d:%d:%v", st, shapeName(shape), w-len(s.fields), len(out), len(out) < len(proj)))
		// the same list as the operand of a set operator with itself and as a derived table under DISTINCT *
		if g.Intn(3) == 0 && w > 0 && !strings.Contains(itemsSQL(items), "*") {
			q := "SELECT " + itemsSQL(uniqueNames(items)) + " FROM " + s.from + s.where
			if uv, err := pr.Query(q + " UNION " + q); err == nil {
				o.Case(fmt.Sprintf("c04.distinct q:%s %s %d %s", hc.Hex(q+" UNION "+q), st, w, tupleToks(proj)), idsExact(viewRows(uv), proj))
				o.Count("sellist:union_with_itself")
			} else {
				o.Law("setop_sql_error", map[string]interface{}{"sql": q + " UNION " + q, "error": err.Error()})
			}
		}
	}

	// ---- GROUP BY <list> (the row ids of a bucket through LISTAGG) ----
	for rep := 0; rep < 1; rep++ {
		s := srcT
		if g.Intn(3) == 0 {
			s = derived(true)
		}
		items := genItems(g, s, nonID(s), []int{0, 0, 1}[g.Intn(3)], 0, true)
		proj, ok := projection(o, pr, s, items)
		if !ok {
			continue
		}
		idv, err1 := pr.Query("SELECT id FROM " + s.from + s.where)
		gq := "SELECT LISTAGG(id, ',') AS ids FROM " + s.from + s.where + " GROUP BY " + itemsSQL(items)
		gv, err2 := pr.Query(gq)
		if err1 != nil || err2 != nil {
			o.Law("group_sql_error", map[string]interface{}{"list": itemsSQL(items), "from": s.from, "error": fmt.Sprint(err1, err2)})
			continue
		}
		// ids → positions among the rows read
		pos := map[string]string{}
		for i := 0; i < idv.RecordLen(); i++ {
			pos[hc.StrOf(hc.ViewCell(idv, i, 0))] = strconv.Itoa(i)
		}
		got := make([]string, gv.RecordLen())
		for i := range got {
			ms := strings.Split(hc.StrOf(hc.ViewCell(gv, i, 0)), ",")
			for k := range ms {
				if p, ok := pos[ms[k]]; ok {
					ms[k] = p
				} else {
					ms[k] = "?" + ms[k]
				}
			}
			got[i] = strings.Join(ms, ",")
		}
		impl := "-"
		if len(got) > 0 {
			impl = strings.Join(got, "|")
		}
		w := len(items)
		o.Case(fmt.Sprintf("c04.group q:%s %s %d %d %s", hc.Hex(gq), st, w, cpu, tupleToks(proj)), impl)
		o.Count("sellist:group")
		o.NonTrivial(fmt.Sprintf("sellist:group:%s:%d:%d", st, w-len(s.fields), len(got)))
	}

	// ---- set operators: <list over t> against <list of the same width over u> ----
	uf := append([]string{"id"}, cols...)
	srcU := source{"u", "u", uf, ""}
	for rep := 0; rep < 1; rep++ {
		s := srcT
		if g.Intn(2) == 0 {
			s = derived(false)
		}
		shape := []int{0, 1, 2}[g.Intn(3)]
		items := uniqueNames(genItems(g, s, nonID(s), shape, 1+g.Intn(len(s.fields)+2), false))
		if g.Intn(6) == 0 {
			items = onlyWildcard(s, g)
		}
		projA, ok := projection(o, pr, s, items)
		if !ok {
			continue
		}
		w := 0
		for _, it := range items {
			if it.cols == nil {
				w++
			} else {
				w += len(it.cols)
			}
		}
		itemsB := uniqueNames(genItems(g, srcU, nonID(srcU), 0, w, true))
		projB, ok := projection(o, pr, srcU, itemsB)
		if !ok {
			continue
		}
		op := g.Pick("union", "except", "intersect")
		all := g.Pick("0", "1")
		kw := strings.ToUpper(op)
		if all == "1" {
			kw += " ALL"
		}
		q := "SELECT " + itemsSQL(items) + " FROM " + s.from + s.where + " " + kw + " SELECT " + itemsSQL(itemsB) + " FROM u"
		v, err := pr.Query(q)
		if err != nil {
			o.Law("setop_sql_error", map[string]interface{}{"sql": q, "error": err.Error()})
			continue
		}
		out := viewRows(v)
		outKeys := make([]string, len(out))
		for i, r := range out {
			outKeys[i] = normRow(r, strict)
		}
		o.Case(fmt.Sprintf("c04.setop q:%s %s %s %s %d %d %s", hc.Hex(q), op, all, st, w, len(projA), strings.TrimSpace(tupleToks(projA)+" "+tupleToks(projB))),
			idsOfKeys(outKeys, projA, projB, w, strict, op, all == "1"))
		o.Count("sellist:setop:" + op)
		o.NonTrivial(fmt.Sprintf("sellist:setop:%s:%s:%s:%d", op, all, shapeName(shape), len(out)))
	}
}
