package main

// Stream 3 of C04: the aggregate functions themselves (lib/query/aggregate_function.go) against
// lean/Csvq/Model/Aggregate.lean.  The REAL query.Count / Max / Min / Sum / Avg / StdEV / StdEVP / Var / VarP /
// Median / ListAgg are called in-process on generated cell lists, and a share of the cases goes through SQL text
// (GROUP BY over a small table, plain and DISTINCT forms) so that evalAggregateFunction / evalListFunction /
// ListValuesForAggregateFunctions / Distinguish are exercised too.  Floats are printed exactly (hc.EncF).

import (
	"fmt"
	"math"
	"math/big"
	"strconv"
	"strings"
	"time"

	"github.com/mithrandie/csvq/lib/option"
	"github.com/mithrandie/csvq/lib/query"
	"github.com/mithrandie/csvq/lib/value"
	"github.com/mithrandie/ternary"

	"verifharness/hc"
)

var aggNames = []string{"COUNT", "MAX", "MIN", "SUM", "AVG", "STDEV", "STDEVP", "VAR", "VARP", "MEDIAN", "LISTAGG"}

// medianValues: the float list Median builds (numbers, else datetimes as seconds), written here independently
func medianValues(list []value.Primary, flags *option.Flags) []float64 {
	var vs []float64
	for _, v := range list {
		if f := value.ToFloat(v); !value.IsNull(f) {
			vs = append(vs, f.(*value.Float).Raw())
		} else if d := value.ToDatetime(v, flags.DatetimeFormat, flags.GetTimeLocation()); !value.IsNull(d) {
			vs = append(vs, float64(d.(*value.Datetime).Raw().UnixNano())/1e9)
		}
	}
	return vs
}

func bothZeros(vs []float64) bool {
	neg, pos := false, false
	for _, x := range vs {
		if x == 0 {
			if math.Signbit(x) {
				neg = true
			} else {
				pos = true
			}
		}
	}
	return neg && pos
}

// encAgg prints one result canonically.  MEDIAN: sort.Float64s does not define the order of -0 and +0 (equal keys,
// pdqsort is not stable), so when zeros of both signs are among the values the sign of a zero result is printed as +.
func encAgg(fn string, res value.Primary, list []value.Primary, flags *option.Flags) string {
	if fn == "MEDIAN" {
		if f, ok := res.(*value.Float); ok && f.Raw() == 0 && bothZeros(medianValues(list, flags)) {
			return "F0"
		}
	}
	return hc.EncVal(res)
}

func callAgg(fn string, list []value.Primary, sep string, flags *option.Flags) value.Primary {
	switch fn {
	case "COUNT":
		return query.Count(list, flags)
	case "MAX":
		return query.Max(list, flags)
	case "MIN":
		return query.Min(list, flags)
	case "SUM":
		return query.Sum(list, flags)
	case "AVG":
		return query.Avg(list, flags)
	case "STDEV":
		return query.StdEV(list, flags)
	case "STDEVP":
		return query.StdEVP(list, flags)
	case "VAR":
		return query.Var(list, flags)
	case "VARP":
		return query.VarP(list, flags)
	case "MEDIAN":
		return query.Median(list, flags)
	case "LISTAGG":
		return query.ListAgg(list, sep)
	}
	panic("unknown aggregate " + fn)
}

func resKind(p value.Primary) string {
	if f, ok := p.(*value.Float); ok {
		x := f.Raw()
		switch {
		case math.IsNaN(x):
			return "nan"
		case math.IsInf(x, 0):
			return "inf"
		case x == 0:
			return "zero"
		case math.Abs(x) < 2.2250738585072014e-308:
			return "subnormal"
		case x == math.Trunc(x):
			return "integral"
		}
		return "float"
	}
	return hc.ClassName(p)
}

var tinyPool = []float64{math.SmallestNonzeroFloat64, 3 * math.SmallestNonzeroFloat64, 2.2250738585072014e-308, 1e-160, 1.5e-162, 3e-162, 1e-170, 7e-163,
	math.Ldexp(1, -537), math.Ldexp(3, -538), math.Ldexp(1.5, -530), math.Ldexp(1, -511), math.Ldexp(1, -512), 1e-154, 1.4916681462400413e-154}

var bigPool = []float64{1e16, 1e16 + 2, 9007199254740993, 1e300, -1e300, math.MaxFloat64, -math.MaxFloat64, 1.3407807929942596e154, 1e154, 1e155, 1e200}

var roundPool = []float64{0.1, 0.2, 0.3, 0.7, 1.1, 1e16, -1e16, 1, -1, 1e-7, 123456.789, 2.5, 3.3, 1e15 + 0.3}

var dtTexts = []string{"2012-02-03", "2012-02-03 09:18:15", "2012-02-03T09:18:15Z", "2012/02/03", "1970-01-01T00:00:00Z", "1969-12-31 23:59:59", "2012-02-03 09:18:15.123456789",
	"2012-02-30", "2012-02-03x", "0001-01-01 00:00:00", "9999-12-31 23:59:59.999999999", "2262-04-11 23:47:16.854775807", "2262-04-11 23:47:16.854775808", "1677-09-21 00:12:43.145224192"}

// perturb: a float near x that differs in the low bits (so that sums and squares need rounding)
func perturb(g *hc.Gen, x float64) float64 {
	b := math.Float64bits(x)
	return math.Float64frombits(b ^ uint64(g.Intn(8)))
}

// aggList draws one cell list of the given class.
func aggList(g *hc.Gen, class int, n int) []value.Primary {
	l := make([]value.Primary, 0, n)
	add := func(p value.Primary) { l = append(l, p) }
	null := func() bool {
		if g.Intn(7) == 0 {
			add(value.NewNull())
			return true
		}
		return false
	}
	switch class {
	case 0: // every value class
		for i := 0; i < n; i++ {
			add(g.Val())
		}
	case 1: // small integers and NULLs: exact sums
		for i := 0; i < n; i++ {
			if !null() {
				add(value.NewInteger(int64(g.Intn(2001) - 1000)))
			}
		}
	case 2: // large integers
		for i := 0; i < n; i++ {
			if !null() {
				add(value.NewInteger(g.Int64()))
			}
		}
	case 3: // floats of every kind
		for i := 0; i < n; i++ {
			if !null() {
				add(value.NewFloat(g.Float64()))
			}
		}
	case 4: // values that need rounding, cancellation
		for i := 0; i < n; i++ {
			x := roundPool[g.Intn(len(roundPool))]
			if g.Intn(3) == 0 {
				x = perturb(g, x)
			}
			add(value.NewFloat(x))
		}
	case 5: // tiny magnitudes: squares of the deviations are subnormal (math.Pow rounds twice there) or underflow
		base := tinyPool[g.Intn(len(tinyPool))]
		for i := 0; i < n; i++ {
			x := base
			switch g.Intn(4) {
			case 0:
				x = tinyPool[g.Intn(len(tinyPool))]
			case 1:
				x = perturb(g, base) * float64(g.Intn(7)+1)
			case 2:
				x = math.Float64frombits(uint64(g.Intn(400)+100)<<52 | g.Uint64()&(1<<52-1))
				if g.Intn(2) == 0 { // squares just below the smallest normal number
					x = math.Float64frombits(uint64(g.Intn(30)+485)<<52 | g.Uint64()&(1<<52-1))
				}
			}
			if g.Intn(2) == 0 {
				x = -x
			}
			add(value.NewFloat(x))
		}
	case 6: // huge magnitudes: overflow of sums and squares
		for i := 0; i < n; i++ {
			x := bigPool[g.Intn(len(bigPool))]
			if g.Intn(3) == 0 {
				x = perturb(g, x)
			}
			add(value.NewFloat(x))
		}
	case 7: // texts: numeric, padded, non-numeric, boolean-looking
		for i := 0; i < n; i++ {
			if !null() {
				add(value.NewString(g.Str()))
			}
		}
	case 8: // datetimes, datetime-looking texts, and numbers beside them (MEDIAN takes both)
		for i := 0; i < n; i++ {
			switch g.Intn(5) {
			case 0:
				add(value.NewDatetime(g.Time()))
			case 1, 2:
				add(value.NewString(dtTexts[g.Intn(len(dtTexts))]))
			case 3:
				add(value.NewFloat(float64(g.Intn(2000000000))))
			default:
				add(value.NewDatetime(time.Unix(int64(g.Intn(2000000000)), int64(g.Intn(2))*int64(g.Intn(1000000000))).UTC()))
			}
		}
	case 9: // ties spelled / typed differently (MAX / MIN keep the first; DISTINCT keeps the first)
		fam := families[g.Intn(len(families))]
		fam2 := families[g.Intn(len(families))]
		for i := 0; i < n; i++ {
			if g.Intn(4) == 0 {
				add(fam2[g.Intn(len(fam2))])
			} else if !null() {
				add(fam[g.Intn(len(fam))])
			}
		}
	case 10: // zeros of both signs, NaN, infinities
		for i := 0; i < n; i++ {
			add(value.NewFloat([]float64{0, math.Copysign(0, -1), math.Copysign(0, -1), math.NaN(), math.Inf(1), math.Inf(-1), 1, -1, math.SmallestNonzeroFloat64, -math.SmallestNonzeroFloat64}[g.Intn(10)]))
		}
	case 11: // texts whose numeric order and text order disagree, beside texts that are no numbers
		for i := 0; i < n; i++ {
			add(value.NewString(g.Pick("10", "5", "2x", "9", "100", "1e1", "abc", " 7", "07", "0x10", "a", "B", "-3", "true", "2012-02-03")))
		}
	case 12: // booleans, ternaries
		for i := 0; i < n; i++ {
			switch g.Intn(4) {
			case 0:
				add(value.NewBoolean(g.Intn(2) == 0))
			case 1:
				add(value.NewTernary([]ternary.Value{ternary.TRUE, ternary.FALSE, ternary.UNKNOWN}[g.Intn(3)]))
			case 2:
				add(value.NewInteger(int64(g.Intn(3))))
			default:
				add(value.NewString(g.Pick("true", "false", "1", "0", "t", "x")))
			}
		}
	}
	return l
}

var aggClassNames = []string{"mixed", "smallint", "bigint", "float", "rounding", "tiny", "huge", "text", "datetime", "ties", "zeros_nan_inf", "text_order", "bool_tern"}

func shuffled(g *hc.Gen, l []value.Primary) []value.Primary {
	p := append([]value.Primary{}, l...)
	for k := len(p) - 1; k > 0; k-- {
		x := g.Intn(k + 1)
		p[k], p[x] = p[x], p[k]
	}
	return p
}

func encList(l []value.Primary) []string {
	s := make([]string, len(l))
	for i, p := range l {
		s[i] = hc.EncVal(p)
	}
	return s
}

func ktoks(l []value.Primary) string {
	s := make([]string, len(l))
	for i, p := range l {
		s[i] = ktok(p)
	}
	return strings.Join(s, " ")
}

// canonMedian: the MEDIAN result with a zero's sign dropped
func canonZero(s string) string {
	if s == "F-0" {
		return "F0"
	}
	return s
}

// directAgg runs every aggregate on one list, records the op line, and returns the results by name.
func directAgg(o *hc.Out, g *hc.Gen, flags *option.Flags, class string, l []value.Primary) map[string]string {
	sep := g.Pick("", ",", ";", ", ", "|", "é")
	res := map[string]string{}
	parts := make([]string, len(aggNames))
	for i, fn := range aggNames {
		r := callAgg(fn, l, sep, flags)
		res[fn] = encAgg(fn, r, l, flags)
		parts[i] = fn + "=" + res[fn]
		o.Count("agg:direct:" + fn + ":" + resKind(r))
		o.NonTrivial(fmt.Sprintf("agg:%s:%s:%s:%d", fn, class, resKind(r), lenBucket(len(l))))
	}
	o.Case(fmt.Sprintf("c04.agg %s 0 x%s %s", strings.Join(aggNames, ","), hc.Hex(sep), ktoks(l)), strings.Join(parts, "|"))
	for _, p := range l {
		o.Count("agg:cell:" + hc.ClassName(p))
	}
	// impl-only laws on this list
	//   max_is_member: MAX / MIN return NULL iff every cell is NULL, else one of the non-null cells
	for _, fn := range []string{"MAX", "MIN"} {
		nonNull, member := 0, false
		for _, p := range l {
			if !value.IsNull(p) {
				nonNull++
				if hc.EncVal(p) == res[fn] {
					member = true
				}
			}
		}
		if (res[fn] == "N") != (nonNull == 0) || (nonNull > 0 && !member) {
			o.Law("max_is_member", map[string]interface{}{"fn": fn, "cells": encList(l), "result": res[fn]})
		}
	}
	//   stdev = sqrt(var)
	for _, pair := range [][2]string{{"STDEV", "VAR"}, {"STDEVP", "VARP"}} {
		sd, vr := callAgg(pair[0], l, "", flags), callAgg(pair[1], l, "", flags)
		if value.IsNull(sd) != value.IsNull(vr) {
			o.Law("stdev_is_sqrt_var", map[string]interface{}{"cells": encList(l), "stdev": hc.EncVal(sd), "var": hc.EncVal(vr)})
		} else if !value.IsNull(sd) {
			if hc.EncF(math.Sqrt(vr.(*value.Float).Raw())) != hc.EncF(sd.(*value.Float).Raw()) {
				o.Law("stdev_is_sqrt_var", map[string]interface{}{"cells": encList(l), "stdev": hc.EncVal(sd), "var": hc.EncVal(vr)})
			}
		}
	}
	return res
}

func lenBucket(n int) int {
	switch {
	case n <= 2:
		return n
	case n <= 5:
		return 5
	case n <= 12:
		return 12
	}
	return 40
}

func runAgg(g *hc.Gen, o *hc.Out, pr *hc.Proc, n int) {
	flags := pr.P.Tx.Flags
	_ = pr.P.Tx.SetFlag(option.StrictEqualFlag, false)
	// the session formats stream 2 added stay set (SetFlag(DATETIME_FORMAT, "") adds nothing and removes nothing); the cell
	// profiles are computed without custom formats (hc.DatetimeFormats), so the functions must run without them too
	flags.DatetimeFormat = nil
	if n > 8000 { // thorough tier: four streams of this size; keeps the model's share of the run within a minute each
		n = 8000
	}

	// math.Pow(x, 2) and math.Sqrt themselves on single values (the two library functions the model re-implements)
	for i := 0; i < n/6; i++ {
		var xs []value.Primary
		for k := 0; k < 8; k++ {
			var x float64
			switch g.Intn(6) {
			case 5:
				x = math.Float64frombits(uint64(g.Intn(14)+499)<<52 | g.Uint64()&(1<<52-1)) // squares in the upper subnormal range: Pow rounds twice
			case 0:
				x = tinyPool[g.Intn(len(tinyPool))] * float64(g.Intn(9)+1)
			case 1:
				x = math.Float64frombits(uint64(g.Intn(120)+450)<<52 | g.Uint64()&(1<<52-1)) // squares land around the subnormal boundary
			case 2:
				x = float64(g.Intn(1 << 26))
				x = x * x
			case 3:
				x = g.Float64()
			default:
				x = math.Float64frombits(g.Uint64())
			}
			if g.Intn(4) == 0 {
				x = -x
			}
			xs = append(xs, value.NewFloat(x))
		}
		parts := make([]string, len(xs))
		for k, p := range xs {
			x := p.(*value.Float).Raw()
			p2, sq := math.Pow(x, 2), math.Sqrt(x)
			parts[k] = hc.EncF(p2) + "/" + hc.EncF(sq)
			// laws: Sqrt is the correctly rounded root (checked with big.Float at 200 bits); Pow(x,2) = x*x outside the subnormal range
			if x > 0 && !math.IsInf(x, 0) {
				want, _ := new(big.Float).SetPrec(300).Sqrt(new(big.Float).SetPrec(300).SetFloat64(x)).Float64()
				if want != sq {
					o.Law("sqrt_correctly_rounded", map[string]interface{}{"x": hc.EncF(x), "sqrt": hc.EncF(sq), "want": hc.EncF(want)})
				}
			}
			if m := x * x; !math.IsNaN(x) && p2 != m {
				if m >= 2.2250738585072014e-308 || m == 0 {
					o.Law("pow2_is_product", map[string]interface{}{"x": hc.EncF(x), "pow": hc.EncF(p2), "product": hc.EncF(m)})
				} else {
					o.Count("agg:pow2_double_rounding_differs_from_product")
				}
			}
			o.NonTrivial("pow2:" + resKind(value.NewFloat(p2)) + ":" + resKind(value.NewFloat(sq)))
		}
		o.Case("c04.agg POW2 0 x "+ktoks(xs), "POW2="+strings.Join(parts, ","))
		o.Count("agg:direct:POW2")
	}

	// ---------- direct calls ----------
	lists := n / 4
	for i := 0; i < lists; i++ {
		class := g.Intn(len(aggClassNames))
		ln := []int{0, 1, 2, 3, 4, 5, 7, 8, 12, 13, 20, 33, 40}[g.Intn(13)]
		if g.Intn(3) == 0 {
			ln = g.Intn(41)
		}
		l := aggList(g, class, ln)
		cn := aggClassNames[class]
		o.Count("agg:list:" + cn)
		base := directAgg(o, g, flags, cn, l)

		// permutations of the same list
		if len(l) >= 2 && g.Intn(2) == 0 {
			intList, total, maxAbs := true, new(big.Int), int64(0)
			for _, p := range l {
				switch v := p.(type) {
				case *value.Null:
				case *value.Integer:
					total.Add(total, big.NewInt(v.Raw()))
					a := v.Raw()
					if a < 0 {
						a = -a
					}
					if a < 0 {
						a = math.MaxInt64 // -MinInt64
					}
					if a > maxAbs {
						maxAbs = a
					}
				default:
					intList = false
				}
			}
			for k := 0; k < 2; k++ {
				p := shuffled(g, l)
				r := directAgg(o, g, flags, cn+":perm", p)
				o.Count("agg:permutation")
				if r["COUNT"] != base["COUNT"] {
					o.Law("count_perm", map[string]interface{}{"cells": encList(l), "permuted": encList(p), "count": base["COUNT"], "count_permuted": r["COUNT"]})
				}
				if canonZero(r["MEDIAN"]) != canonZero(base["MEDIAN"]) {
					o.Law("median_perm", map[string]interface{}{"cells": encList(l), "permuted": encList(p), "median": base["MEDIAN"], "median_permuted": r["MEDIAN"]})
				}
				// the sign of a zero median may depend on the order when -0 and +0 are both present (counted, not a law)
				if a, b := hc.EncVal(callAgg("MEDIAN", l, "", flags)), hc.EncVal(callAgg("MEDIAN", p, "", flags)); a != b && canonZero(a) == canonZero(b) {
					o.Count("agg:median_zero_sign_depends_on_order")
				}
				// sum_int_exact: integer cells whose partial sums all stay below 2^53 in magnitude: SUM is the exact integer sum, in every order
				if intList && maxAbs <= (1<<53)/64 {
					want := "N"
					if base["COUNT"] != "I0" {
						f, _ := new(big.Float).SetInt(total).Float64()
						want = "F" + hc.EncF(f)
						if total.Sign() == 0 {
							want = "F0"
						}
					}
					if r["SUM"] != want || base["SUM"] != want {
						o.Law("sum_int_exact", map[string]interface{}{"cells": encList(l), "permuted": encList(p), "sum": base["SUM"], "sum_permuted": r["SUM"], "want": want})
					}
					o.Count("agg:sum_int_exact_checks")
				}
				if r["SUM"] != base["SUM"] {
					o.Count("agg:float_sum_depends_on_order")
				}
				if r["MAX"] != base["MAX"] || r["MIN"] != base["MIN"] {
					o.Count("agg:max_min_depends_on_order")
				}
			}
		}
	}

	// ---------- through SQL: GROUP BY over a small table, plain and DISTINCT ----------
	tables := n / 60
	if tables < 6 {
		tables = 6
	}
	sqlFns := []string{"COUNT", "MAX", "MIN", "SUM", "AVG", "STDEV", "STDEVP", "VAR", "VARP", "MEDIAN"}
	for t := 0; t < tables; t++ {
		strict := g.Intn(4) == 0
		_ = pr.P.Tx.SetFlag(option.StrictEqualFlag, strict)
		class := g.Intn(len(aggClassNames))
		nrows := []int{0, 1, 3, 8, 20, 45}[g.Intn(6)]
		raw := aggList(g, class, nrows)
		if g.Intn(2) == 0 && len(raw) > 3 {
			// repeat cells so that DISTINCT has something to drop
			for i := range raw {
				if g.Intn(2) == 0 {
					raw[i] = raw[g.Intn(len(raw))]
				}
			}
		}
		rows := make([][]value.Primary, 0, len(raw))
		for _, c := range raw {
			if _, ok := hc.SqlLit(c); !ok {
				c = value.NewNull()
			}
			rows = append(rows, []value.Primary{value.NewInteger(int64(g.Intn(3))), c})
		}
		if err := pr.DeclareTable("ag", []string{"k", "c"}, rows); err != nil {
			o.Law("declare_table_error", err.Error())
			continue
		}
		pr.SetCPU([]int{1, 2, 4}[g.Intn(3)])
		// the cells as the table holds them, by key, in record order
		cv, err := pr.Query("SELECT k, c FROM ag")
		if err != nil {
			o.Law("aggregate_sql_error", err.Error())
			pr.DisposeTable("ag")
			continue
		}
		cells := map[string][]value.Primary{}
		for i := 0; i < cv.RecordLen(); i++ {
			k := hc.StrOf(hc.ViewCell(cv, i, 0))
			cells[k] = append(cells[k], hc.ViewCell(cv, i, 1))
		}
		sep := g.Pick(",", ";", "")
		var sel []string
		for _, d := range []string{"", "DISTINCT "} {
			for _, fn := range sqlFns {
				sel = append(sel, fn+"("+d+"c)")
			}
			sel = append(sel, "LISTAGG("+d+"c, "+option.QuoteString(sep)+")")
		}
		fns := append(append([]string{}, sqlFns...), "LISTAGG")
		dflag := "1"
		if strict {
			dflag = "2"
		}
		emit := func(v *query.View, row int, first int, list []value.Primary, via string) {
			for di, d := range []string{"0", dflag} {
				parts := make([]string, len(fns))
				for c, fn := range fns {
					cell := hc.ViewCell(v, row, first+di*len(fns)+c)
					// what the function sees under DISTINCT is decided by the model; the zero rule of MEDIAN needs the list seen
					seen := list
					if di == 1 {
						seen = query.Distinguish(list, flags)
					}
					parts[c] = fn + "=" + encAgg(fn, cell, seen, flags)
					o.Count("agg:" + via + ":" + fn + ":d" + d + ":" + resKind(cell))
					o.NonTrivial(fmt.Sprintf("aggsql:%s:%s:%s:%s:%d", via, fn, d, resKind(cell), lenBucket(len(list))))
				}
				o.Case(fmt.Sprintf("c04.agg %s %s x%s %s", strings.Join(fns, ","), d, hc.Hex(sep), ktoks(list)), strings.Join(parts, "|"))
			}
		}
		v, err := pr.Query("SELECT k, " + strings.Join(sel, ", ") + " FROM ag GROUP BY k")
		if err != nil {
			o.Law("aggregate_sql_error", err.Error())
		} else {
			for gi := 0; gi < v.RecordLen(); gi++ {
				emit(v, gi, 1, cells[hc.StrOf(hc.ViewCell(v, gi, 0))], "sql_group")
			}
		}
		// no GROUP BY: all records are one group — also when there is no record at all
		for _, wh := range []string{"", " WHERE k = 1", " WHERE k = 99"} {
			v, err := pr.Query("SELECT " + strings.Join(sel, ", ") + " FROM ag" + wh)
			if err != nil {
				o.Law("aggregate_sql_error", err.Error())
				continue
			}
			var list []value.Primary
			for i := 0; i < cv.RecordLen(); i++ {
				k := hc.StrOf(hc.ViewCell(cv, i, 0))
				if wh == "" || (wh == " WHERE k = 1" && k == "1") {
					list = append(list, hc.ViewCell(cv, i, 1))
				}
			}
			if v.RecordLen() == 1 {
				emit(v, 0, 0, list, "sql_all")
			} else {
				o.Law("aggregate_without_group_by_rows", map[string]interface{}{"where": wh, "rows": v.RecordLen()})
			}
		}
		// the same functions as analytic functions over the partition (analytic_function.go calls the same code)
		av, err := pr.Query("SELECT k, SUM(c) OVER (PARTITION BY k), MEDIAN(c) OVER (PARTITION BY k), MAX(c) OVER (PARTITION BY k), LISTAGG(c, " + option.QuoteString(sep) + ") OVER (PARTITION BY k) FROM ag")
		if err == nil {
			done := map[string]bool{}
			for i := 0; i < av.RecordLen(); i++ {
				k := hc.StrOf(hc.ViewCell(av, i, 0))
				if done[k] {
					continue
				}
				done[k] = true
				afns := []string{"SUM", "MEDIAN", "MAX", "LISTAGG"}
				parts := make([]string, len(afns))
				for c, fn := range afns {
					parts[c] = fn + "=" + encAgg(fn, hc.ViewCell(av, i, 1+c), cells[k], flags)
					o.Count("agg:sql_over:" + fn)
				}
				o.Case(fmt.Sprintf("c04.agg %s 0 x%s %s", strings.Join(afns, ","), hc.Hex(sep), ktoks(cells[k])), strings.Join(parts, "|"))
			}
		} else {
			o.Law("aggregate_sql_error", err.Error())
		}
		pr.DisposeTable("ag")
	}
	_ = pr.P.Tx.SetFlag(option.StrictEqualFlag, false)
	pr.SetCPU(1)
	_ = strconv.Itoa
}
