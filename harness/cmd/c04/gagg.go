package main

// Stream 4 of C04: the glue between a GROUP BY query and the aggregate functions (lib/query/eval.go
// evalAggregateFunction / evalListFunction, view.go group / groupAll / NewViewFromGroupedRecord /
// ListValuesForAggregateFunctions, the placeholder record of a view without records) against
// lean/Csvq/Model/AggEval.lean, op `c04.gagg`: the model is handed, per table row, the grouping key cells, the value of the
// aggregated expression and the value of the ORDER BY expression, and must predict EVERY output row of
//   SELECT LISTAGG(id, ','), FN([DISTINCT] arg) …, LISTAGG(…) WITHIN GROUP (ORDER BY …), JSON_AGG(…), udf(…) FROM gg [GROUP BY …]
// — which rows form a bucket, in which order the buckets come, and what every call yields over the bucket.

import (
	"encoding/json"
	"fmt"
	"strconv"
	"strings"

	"github.com/mithrandie/csvq/lib/option"
	"github.com/mithrandie/csvq/lib/query"
	"github.com/mithrandie/csvq/lib/value"
	"github.com/mithrandie/ternary"

	"verifharness/hc"
)

type gcall struct {
	spec string // FN:d:o:a for the model
	sql  string
	fn   string
	dist bool
	lit  value.Primary // literal argument (nil: the column / *)
}

// gtok: ktok~dtext
func gtok(p value.Primary) string {
	dt := "-"
	if d, ok := p.(*value.Datetime); ok {
		dt = "x" + hc.Hex(d.Format("2006-01-02T15:04:05.999999999Z07:00"))
	}
	return ktok(p) + "~" + dt
}

// encJSONAgg decodes the text JSON_AGG returned and prints its elements canonically (numbers exactly)
func encJSONAgg(p value.Primary) string {
	if value.IsNull(p) {
		return "N"
	}
	s, ok := p.(*value.String)
	if !ok {
		return "?" + hc.EncVal(p)
	}
	// Go's own decoder (csvq's scanner rejects its own output for a text ending in a backslash — known finding F27)
	dec := json.NewDecoder(strings.NewReader(s.Raw()))
	dec.UseNumber()
	var arr []interface{}
	if err := dec.Decode(&arr); err != nil {
		return "?decode:" + hc.Hex(s.Raw())
	}
	el := make([]string, len(arr))
	for i, e := range arr {
		switch v := e.(type) {
		case nil:
			el[i] = "N"
		case bool:
			if v {
				el[i] = "B1"
			} else {
				el[i] = "B0"
			}
		case json.Number:
			f, err := strconv.ParseFloat(string(v), 64)
			if err != nil {
				el[i] = "?number:" + string(v)
			} else {
				el[i] = "F" + hc.EncF(f)
			}
		case string:
			el[i] = "S" + hc.Hex(v)
		default:
			el[i] = "?nested"
		}
	}
	return "J[" + strings.Join(el, ",") + "]"
}

func genCalls(g *hc.Gen, sep string, ordExpr string) []gcall {
	qsep := option.QuoteString(sep)
	var calls []gcall
	add := func(fn string, dist bool, order int, arg string, lit value.Primary) {
		d, ds := "0", ""
		if dist {
			d, ds = "1", "DISTINCT "
		}
		a, asql := "c", "c"
		switch {
		case arg == "*":
			a, asql = "s", "*"
		case lit != nil:
			l, _ := hc.SqlLit(lit)
			a, asql = "L"+hc.EncFullProfile(lit), l
		}
		within := ""
		switch order {
		case 1:
			within = " WITHIN GROUP (ORDER BY " + ordExpr + ")"
		case 2:
			within = " WITHIN GROUP (ORDER BY " + ordExpr + " DESC)"
		}
		var sql string
		switch fn {
		case "LISTAGG":
			sql = "LISTAGG(" + ds + asql + ", " + qsep + ")" + within
		case "JSONAGG":
			sql = "JSON_AGG(" + ds + asql + ")" + within
		case "CNTPOS":
			sql = "cntpos(" + ds + asql + ")"
		case "CNTGT5":
			sql = "cntgt(" + ds + asql + ", 5)"
		default:
			sql = fn + "(" + ds + asql + ")"
		}
		calls = append(calls, gcall{fmt.Sprintf("%s:%s:%d:%s", fn, d, order, a), sql, fn, dist, lit})
	}
	lits := []value.Primary{value.NewInteger(1), value.NewNull(), value.NewString("x"), value.NewTernary(ternary.UNKNOWN), value.NewTernary(ternary.TRUE), value.NewFloat(2.5), value.NewInteger(0)}
	// always: the two COUNT special cases and one call of every kind of path
	add("COUNT", false, 0, "*", nil)
	add("COUNT", true, 0, "*", nil) // COUNT(DISTINCT *): still the number of records
	add("COUNT", g.Intn(2) == 0, 0, "", lits[g.Intn(len(lits))])
	// DISTINCT over a literal removes the duplicates like over any expression (finding F109)
	add("COUNT", true, 0, "", lits[g.Intn(len(lits))])
	add("SUM", true, 0, "", []value.Primary{value.NewInteger(1), value.NewFloat(2.5), value.NewInteger(0), value.NewNull()}[g.Intn(4)])
	add("COUNT", g.Intn(2) == 0, 0, "", nil)
	for k := 0; k < 5; k++ {
		fn := sqlAggFns[g.Intn(len(sqlAggFns))]
		if g.Intn(4) == 0 {
			add(fn, g.Intn(2) == 0, 0, "", lits[g.Intn(len(lits))])
		} else {
			add(fn, g.Intn(2) == 0, 0, "", nil)
		}
	}
	add("LISTAGG", g.Intn(2) == 0, g.Intn(3), "", nil)
	add("LISTAGG", g.Intn(2) == 0, 1+g.Intn(2), "", nil)
	add("JSONAGG", g.Intn(2) == 0, g.Intn(3), "", nil)
	if g.Intn(3) == 0 {
		add(g.Pick("LISTAGG", "JSONAGG"), g.Intn(2) == 0, g.Intn(3), "", lits[g.Intn(len(lits))])
	}
	add("CNTPOS", g.Intn(2) == 0, 0, "", nil)
	add("CNTGT5", g.Intn(2) == 0, 0, "", nil)
	return calls
}

var sqlAggFns = []string{"COUNT", "MAX", "MIN", "SUM", "AVG", "STDEV", "STDEVP", "VAR", "VARP", "MEDIAN"}

func runGagg(g *hc.Gen, o *hc.Out, pr *hc.Proc, n int) {
	flags := pr.P.Tx.Flags
	flags.DatetimeFormat = nil
	if n > 8000 {
		n = 8000
	}
	_, _ = pr.Exec("DECLARE cntpos AGGREGATE (c) AS BEGIN VAR @n := 0; VAR @x; WHILE @x IN c DO IF @x > 0 THEN @n := @n + 1; END IF; END WHILE; RETURN @n; END;")
	_, _ = pr.Exec("DECLARE cntgt AGGREGATE (c, @k) AS BEGIN VAR @n := 0; VAR @x; WHILE @x IN c DO IF @x > @k THEN @n := @n + 1; END IF; END WHILE; RETURN @n; END;")
	defer func() {
		_, _ = pr.Exec("DISPOSE FUNCTION cntpos; DISPOSE FUNCTION cntgt;")
		_ = pr.P.Tx.SetFlag(option.StrictEqualFlag, false)
		pr.SetCPU(1)
	}()
	tables := n / 80
	if tables < 8 {
		tables = 8
	}
	keyPool := []value.Primary{value.NewInteger(0), value.NewInteger(1), value.NewString("1"), value.NewString("1.0"), value.NewFloat(1), value.NewString("a"), value.NewString("A "), value.NewNull(),
		value.NewString("b"), value.NewInteger(2), value.NewTernary(ternary.UNKNOWN), value.NewString("2012-02-03"), value.NewString("2012/02/03")}
	for t := 0; t < tables; t++ {
		strict := g.Intn(4) == 0
		_ = pr.P.Tx.SetFlag(option.StrictEqualFlag, strict)
		st := "0"
		if strict {
			st = "1"
		}
		cpu := []int{1, 2, 3, 4, 8}[g.Intn(5)]
		pr.SetCPU(cpu)
		class := g.Intn(len(aggClassNames))
		nrows := []int{0, 1, 2, 5, 9, 20, 40}[g.Intn(7)]
		raw := aggList(g, class, nrows)
		if g.Intn(2) == 0 && len(raw) > 3 {
			for i := range raw {
				if g.Intn(2) == 0 {
					raw[i] = raw[g.Intn(len(raw))]
				}
			}
		}
		kp := make([]value.Primary, 2+g.Intn(3))
		for i := range kp {
			kp[i] = keyPool[g.Intn(len(keyPool))]
		}
		rows := make([][]value.Primary, 0, len(raw))
		for _, c := range raw {
			if _, ok := hc.SqlLit(c); !ok {
				c = value.NewNull()
			}
			rows = append(rows, []value.Primary{kp[g.Intn(len(kp))], kp[g.Intn(len(kp))], c})
		}
		if err := pr.DeclareTable("gg", []string{"k1", "k2", "c"}, rows); err != nil {
			o.Law("declare_table_error", err.Error())
			continue
		}
		ordExpr := g.Pick("id * -1", "(id % 3) * 1000 + id", "id", "100 - id")
		sep := g.Pick(",", ";", "", "|")
		calls := genCalls(g, sep, ordExpr)
		specs, sqls := make([]string, len(calls)), make([]string, len(calls))
		for i, c := range calls {
			specs[i], sqls[i] = c.spec, c.sql
		}
		for _, shape := range []struct {
			w       int
			groupBy string
			where   string
		}{{1, "k1", ""}, {2, "k1, k2", ""}, {2, "k2, k1", ""}, {0, "", ""}, {0, "", " WHERE id < 0"}, {1, "k2", " WHERE id % 2 = 0"}, {0, "", " WHERE k1 = k2"}}[:] {
			if g.Intn(3) == 0 && shape.where != " WHERE id < 0" {
				continue
			}
			keyCols := shape.groupBy
			if keyCols == "" {
				keyCols = "k1"
			}
			// the rows as the table holds them: key cells, the argument, the ORDER BY value
			bv, err := pr.Query("SELECT id, " + keyCols + ", c, " + ordExpr + " FROM gg" + shape.where)
			if err != nil {
				o.Law("aggregate_sql_error", err.Error())
				continue
			}
			q := "SELECT LISTAGG(id, ',') AS ids, " + strings.Join(sqls, ", ") + " FROM gg" + shape.where
			if shape.groupBy != "" {
				q += " GROUP BY " + shape.groupBy
			}
			v, err := pr.Query(q)
			if err != nil {
				o.Law("aggregate_sql_error", map[string]interface{}{"sql": q, "error": err.Error()})
				continue
			}
			base := viewRows(bv)
			pos := map[string]string{}
			var sb strings.Builder
			for i, r := range base {
				pos[hc.StrOf(r[0])] = strconv.Itoa(i)
				for j := 0; j < shape.w; j++ {
					sb.WriteString(ktok(r[1+j]) + " ")
				}
				ci := len(r) - 2
				sb.WriteString(gtok(r[ci]) + " " + hc.StrOf(r[ci+1]) + " ")
			}
			// the list each call saw, for MEDIAN's sign-of-zero rule: recomputed here from the bucket's members
			colOf := func(members []string, c gcall) []value.Primary {
				var l []value.Primary
				for _, m := range members {
					i, err := strconv.Atoi(m)
					if err != nil || i >= len(base) {
						continue
					}
					if c.lit != nil {
						l = append(l, c.lit)
					} else {
						l = append(l, base[i][len(base[i])-2])
					}
				}
				if c.dist {
					l = query.Distinguish(l, flags)
				}
				return l
			}
			out := make([]string, v.RecordLen())
			for gi := range out {
				ids := hc.ViewCell(v, gi, 0)
				var ms []string
				if !value.IsNull(ids) {
					ms = strings.Split(hc.StrOf(ids), ",")
					for k := range ms {
						if p, ok := pos[ms[k]]; ok {
							ms[k] = p
						} else {
							ms[k] = "?" + ms[k]
						}
					}
				}
				parts := []string{strings.Join(ms, ",")}
				for ci, c := range calls {
					cell := hc.ViewCell(v, gi, 1+ci)
					var enc string
					switch c.fn {
					case "JSONAGG":
						enc = encJSONAgg(cell)
					case "MEDIAN":
						enc = encAgg("MEDIAN", cell, colOf(ms, c), flags)
					default:
						enc = hc.EncVal(cell)
					}
					parts = append(parts, c.fn+"="+enc)
					o.Count("gagg:" + c.fn + ":" + resKind(cell))
					o.NonTrivial(fmt.Sprintf("gagg:%s:%v:%d:%s:%d", c.spec[:strings.LastIndex(c.spec, ":")+2], strict, shape.w, resKind(cell), lenBucket(len(ms))))
				}
				out[gi] = strings.Join(parts, ";")
			}
			impl := "-"
			if len(out) > 0 {
				impl = strings.Join(out, "|")
			}
			o.Case(fmt.Sprintf("c04.gagg q:%s %s %d %d x%s %s %s", hc.Hex(q), st, shape.w, cpu, hc.Hex(sep), strings.Join(specs, ","), strings.TrimSpace(sb.String())), impl)
			o.Count(fmt.Sprintf("gagg:shape:w=%d:rows=%d", shape.w, lenBucket(len(base))))
		}
		pr.DisposeTable("gg")
	}
}
