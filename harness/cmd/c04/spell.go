package main

// spell.go — the SPELLING space of every rung of the key ladder (stream 5).
//
// One number, instant or truth value can be written in many ways, and each rung of SerializeKey's ladder accepts a
// whole family of texts: integers with 0..40 leading zeros, a sign, surrounding blanks, at the int64 boundaries and one
// beyond, longer than 20 / 24 / 32 characters; floats with long mantissas, exponents with leading zeros, hexadecimal
// notation; texts that are integers to strconv.ParseFloat but not to strconv.ParseInt (1e3, 1_000, 0x10p0); several
// spellings of one instant (with and without zone, fractional seconds); the words strconv.ParseBool accepts.
//
// Two things are done with them:
//   * op lines `c04.skey` / `c04.spell` carry RAW values only (no profile reported by value.To*): the model decides
//     every key by its own conversions (Model/KeyOf.lean over Model/Text.parseIntStrict, ParseFloat, ParseTime, Unicode)
//     and must predict the key bytes and the buckets of GROUP BY / DISTINCT / PARTITION BY / COUNT(DISTINCT) /
//     UNION / EXCEPT / INTERSECT [ALL];
//   * laws on the implementation itself: `equal_values_split_bucket` / `different_values_share_bucket` compare the
//     buckets of those results with value equality computed by a REFERENCE that is independent of lib/value: integers
//     with math/big (no length limit), floats with strconv.ParseFloat called directly, booleans by the list of
//     strconv.ParseBool's words, datetimes by construction (every spelling is printed from a known instant).

import (
	"bytes"
	"encoding/hex"
	"fmt"
	"math"
	"math/big"
	"strconv"
	"strings"
	"time"

	"github.com/mithrandie/csvq/lib/option"
	"github.com/mithrandie/csvq/lib/query"
	"github.com/mithrandie/csvq/lib/value"

	"verifharness/hc"
)

// spelled: one value of a pool with its bucket identity under both equality modes
type spelled struct {
	v      value.Primary
	loose  string // the documented normalisation (integer, float, datetime, boolean, else upper-cased trimmed text)
	strict string // --strict-equal: type and trimmed text
	rung   string
}

// refInt: what strconv.ParseInt(t, 10, 64) accepts — optional sign, decimal digits, int64 range — computed with
// math/big, without looking at the length of the text
func refInt(t string) (int64, bool) {
	s := t
	if s == "" {
		return 0, false
	}
	neg := false
	if s[0] == '+' || s[0] == '-' {
		neg = s[0] == '-'
		s = s[1:]
	}
	if s == "" {
		return 0, false
	}
	for i := 0; i < len(s); i++ {
		if s[i] < '0' || '9' < s[i] {
			return 0, false
		}
	}
	n, ok := new(big.Int).SetString(s, 10)
	if !ok {
		return 0, false
	}
	if neg {
		n.Neg(n)
	}
	if !n.IsInt64() {
		return 0, false
	}
	return n.Int64(), true
}

func refBool(t string) (bool, bool) {
	switch t {
	case "1", "t", "T", "TRUE", "true", "True":
		return true, true
	case "0", "f", "F", "FALSE", "false", "False":
		return false, true
	}
	return false, false
}

func floatLabel(f float64) string {
	if math.IsNaN(f) {
		return "Fnan"
	}
	if f == 0 {
		return "F0" // -0 and +0 are one number
	}
	return "F" + hc.EncF(f)
}

// looseLabel: the rung the value is normalised on and its value there.  `dt` is the label of the instant a text was
// printed from, or "" if the text was not printed from an instant.
func looseLabel(p value.Primary, dt string) (string, string) {
	switch v := p.(type) {
	case *value.Null:
		return "N", "null"
	case *value.Integer:
		return "I" + strconv.FormatInt(v.Raw(), 10), "integer"
	case *value.Float:
		return floatLabel(v.Raw()), "float"
	case *value.Datetime:
		return "D" + strconv.FormatInt(v.Raw().UnixNano(), 10), "datetime"
	case *value.Boolean:
		if v.Raw() {
			return "I1", "boolean"
		}
		return "I0", "boolean"
	case *value.String:
		t := hc.TrimSpaceRef(v.Raw())
		if i, ok := refInt(t); ok {
			return "I" + strconv.FormatInt(i, 10), "int-text"
		}
		if f, err := strconv.ParseFloat(t, 64); err == nil {
			return floatLabel(f), "float-text"
		}
		if dt != "" && t == strings.TrimSpace(t) { // (a text option.TrimSpace leaves blanks on is no datetime)
			return dt, "datetime-text"
		}
		if b, ok := refBool(t); ok {
			if b {
				return "I1", "bool-text"
			}
			return "I0", "bool-text"
		}
		return "S" + hc.Hex(strings.ToUpper(t)), "text"
	}
	return "N", "null"
}

func strictLabel(p value.Primary) string {
	switch v := p.(type) {
	case *value.String:
		return "S" + hc.Hex(hc.TrimSpaceRef(v.Raw()))
	case *value.Integer:
		return "I" + strconv.FormatInt(v.Raw(), 10)
	case *value.Float:
		return "F" + hc.EncF(v.Raw())
	case *value.Boolean:
		return "B" + strconv.FormatBool(v.Raw())
	case *value.Datetime:
		return "D" + strconv.FormatInt(v.Raw().UnixNano(), 10)
	}
	return "N"
}

func mk(p value.Primary, dt string) spelled {
	l, r := looseLabel(p, dt)
	return spelled{v: p, loose: l, strict: strictLabel(p), rung: r}
}

var blanksL = []string{"", "", "", "", " ", "  ", "\t", "\n", " \t ", "\r\n", "\u00a0", "\u3000", "\v\f", "\u2003 "}
var blanksR = []string{"", "", "", "", " ", "  ", "\t", "\n", " \t ", "\r\n", "\u00a0", "\u3000", " \u2003", "\u0085"}

func blanked(g *hc.Gen, s string) string {
	if g.Intn(3) == 0 {
		return blanksL[g.Intn(len(blanksL))] + s + blanksR[g.Intn(len(blanksR))]
	}
	return s
}

// intText: one spelling of the integer v: blanks, sign, leading zeros, digits, blanks
func intText(g *hc.Gen, v *big.Int) string {
	digits := new(big.Int).Abs(v).String()
	var z int
	switch g.Intn(12) {
	case 0, 1, 2:
		z = 0
	case 3:
		z = 1 + g.Intn(3)
	case 4:
		z = g.Intn(41)
	default:
		// total lengths around the places a length test would sit: 18..21 (sign + 19 digits), 24, 25, 32, 33, 40, 41, 64
		z = []int{18, 19, 20, 21, 22, 24, 25, 32, 33, 40, 41, 64}[g.Intn(12)] - len(digits)
		if z < 0 {
			z = g.Intn(41)
		}
	}
	sign := ""
	switch {
	case v.Sign() < 0:
		sign = "-"
	case g.Intn(4) == 0:
		sign = "+"
	case v.Sign() == 0 && g.Intn(4) == 0:
		sign = "-"
	}
	return blanked(g, sign+strings.Repeat("0", z)+digits)
}

func bigOf(s string) *big.Int {
	n, _ := new(big.Int).SetString(s, 10)
	return n
}

// floatText: one spelling of the float f.  The label of every text is computed from the text itself (looseLabel), so a
// spelling that does not read back as f is harmless: it is then a near-twin instead of a twin.
func floatText(g *hc.Gen, f float64) string {
	var s string
	switch g.Intn(12) {
	case 0:
		s = strconv.FormatFloat(f, 'f', -1, 64)
	case 1:
		s = strconv.FormatFloat(f, 'e', -1, 64)
	case 2:
		s = strings.ToUpper(strconv.FormatFloat(f, 'e', -1, 64))
	case 3:
		// exponent with leading zeros
		s = strconv.FormatFloat(f, 'e', -1, 64)
		if i := strings.IndexAny(s, "e"); i >= 0 {
			s = s[:i+2] + strings.Repeat("0", 1+g.Intn(30)) + s[i+2:]
		}
	case 4:
		// exponent without '+'
		s = strings.Replace(strconv.FormatFloat(f, 'e', -1, 64), "e+", "e", 1)
	case 5:
		s = strconv.FormatFloat(f, 'x', -1, 64)
		if g.Intn(2) == 0 {
			s = strings.ToUpper(s)
		}
	case 6:
		// hexadecimal with a padded exponent and a longer mantissa
		s = strconv.FormatFloat(f, 'x', -1, 64)
		if i := strings.Index(s, "p"); i >= 0 {
			m := s[:i]
			if !strings.Contains(m, ".") {
				m += "."
			}
			s = m + strings.Repeat("0", g.Intn(24)) + s[i:i+2] + strings.Repeat("0", g.Intn(6)) + s[i+2:]
		}
	case 7:
		// long mantissa: the exact decimal expansion to 25..60 places
		s = new(big.Float).SetFloat64(f).Text('f', 25+g.Intn(36))
	case 8:
		// trailing zeros behind the point
		s = strconv.FormatFloat(f, 'f', -1, 64)
		if !strings.Contains(s, ".") {
			s += "."
		}
		s += strings.Repeat("0", 1+g.Intn(40))
	case 9:
		// leading zeros
		s = strconv.FormatFloat(f, 'f', -1, 64)
		neg := strings.HasPrefix(s, "-")
		s = strings.TrimPrefix(s, "-")
		s = strings.Repeat("0", 1+g.Intn(40)) + s
		if neg {
			s = "-" + s
		}
	case 10:
		s = strconv.FormatFloat(f, 'g', -1, 64)
	default:
		// mantissa scaled by a power of ten against the exponent: 4.2e1 = 420e-1 = 0.042e3
		k := g.Intn(7) - 3
		m := new(big.Float).SetPrec(200).SetFloat64(f)
		m.Mul(m, new(big.Float).SetPrec(200).SetFloat64(math.Pow(10, float64(-k))))
		s = m.Text('f', 30) + "e" + strconv.Itoa(k)
	}
	if f >= 0 && !strings.HasPrefix(s, "+") && g.Intn(6) == 0 {
		s = "+" + s
	}
	return blanked(g, s)
}

var dtLayouts = []string{
	"2006-01-02 15:04:05.999999999", "2006-01-02T15:04:05.999999999", time.RFC3339Nano, "2006/01/02 15:04:05.999999999",
	"2006/1/2 15:04:05.999999999", "2006-1-2 15:04:05.999999999", "2006-01-02 15:04:05.000000000", "2006-01-02T15:04:05.000000000Z07:00",
	"2006-01-02 15:04:05.999999999 Z07:00", "2006-01-02 15:04:05.999999999 -0700", "2006/01/02 15:04:05.999999999 Z07:00", "2006-1-2 15:04:05.999999999 -0700",
	"2006-01-02 15:04:05.000",
}

var dtZones = []*time.Location{time.UTC, time.FixedZone("", 9*3600), time.FixedZone("", -7*3600), time.FixedZone("", 5*3600+1800), time.FixedZone("", -(3*3600 + 1800))}

// timeText: one spelling of the instant t (the session's zone is UTC, so a text without zone is printed in UTC)
func timeText(g *hc.Gen, t time.Time) string {
	t = t.UTC()
	if t.Hour() == 0 && t.Minute() == 0 && t.Second() == 0 && t.Nanosecond() == 0 && g.Intn(2) == 0 {
		return blanked(g, t.Format(g.Pick("2006-01-02", "2006/01/02", "2006-1-2", "2006/1/2")))
	}
	l := dtLayouts[g.Intn(len(dtLayouts))]
	if strings.Contains(l, "07") {
		t = t.In(dtZones[g.Intn(len(dtZones))])
	}
	if l == "2006-01-02 15:04:05.000" && t.Nanosecond()%1000000 != 0 {
		l = "2006-01-02 15:04:05.999999999"
	}
	return blanked(g, t.Format(l))
}

// cluster: a family of values around one number / instant / word — twins (same bucket) and near-twins (other bucket)
func cluster(g *hc.Gen) []spelled {
	var out []spelled
	add := func(p value.Primary) { out = append(out, mk(p, "")) }
	ints := func(v *big.Int, k int) {
		for ; k > 0; k-- {
			add(value.NewString(intText(g, v)))
		}
		if v.IsInt64() && g.Intn(2) == 0 {
			add(value.NewInteger(v.Int64()))
		}
	}
	floats := func(f float64, k int) {
		for ; k > 0; k-- {
			add(value.NewString(floatText(g, f)))
		}
		if g.Intn(2) == 0 && !math.IsNaN(f) && !math.IsInf(f, 0) && !(f == 0 && math.Signbit(f)) {
			add(value.NewFloat(f))
		}
	}
	switch g.Intn(10) {
	case 0:
		// a small integer in many spellings; the same number on the float rung is a bucket of its own
		v := big.NewInt([]int64{0, 1, 42, 7, 100, 1000, -1, -42, 10, 20120203}[g.Intn(10)])
		ints(v, 3+g.Intn(4))
		f, _ := new(big.Float).SetInt(v).Float64()
		floats(f, 1+g.Intn(3))
	case 1:
		// integers beyond 2^53 that differ below float precision, padded
		base := bigOf(g.Pick("9007199254740992", "9007199254740993", "-9007199254740993", "4611686018427387905", "1234567890123456789", "999999999999999999", "-999999999999999998",
			strconv.FormatInt(1<<53+g.Int63n(1<<62), 10)))
		ints(base, 2+g.Intn(3))
		ints(new(big.Int).Add(base, big.NewInt(1)), 2+g.Intn(2))
		if g.Intn(2) == 0 {
			ints(new(big.Int).Sub(base, big.NewInt(1)), 1+g.Intn(2))
		}
		if g.Intn(3) == 0 {
			f, _ := new(big.Float).SetInt(base).Float64()
			floats(f, 1)
		}
	case 2:
		// the int64 boundaries and one beyond (beyond: the float rung, where neighbours coincide)
		for _, s := range []string{"9223372036854775807", "9223372036854775806", "9223372036854775808", "9223372036854775809", "-9223372036854775808", "-9223372036854775807", "-9223372036854775809"} {
			if g.Intn(3) != 0 {
				ints(bigOf(s), 1+g.Intn(2))
			}
		}
	case 3:
		// far beyond int64: 20 digits and more
		for _, s := range []string{"10000000000000000000", "18446744073709551616", "18446744073709551617", "99999999999999999999", "100000000000000000001", "100000000000000000000", "-18446744073709551616"} {
			if g.Intn(2) == 0 {
				ints(bigOf(s), 1+g.Intn(2))
			}
		}
		if len(out) == 0 {
			ints(bigOf("10000000000000000000"), 2)
		}
	case 4:
		// a float in many spellings, and its neighbour
		f := []float64{0.5, 1.5, 0.1, 42, 1000, 1e21, 1e22, 1.7976931348623157e308, 5e-324, 2.2250738585072014e-308, 123456.789, 0.3, -2.5, 1e-7, 6.02214076e23, 9007199254740992}[g.Intn(16)]
		floats(f, 3+g.Intn(4))
		floats(math.Nextafter(f, math.Inf(1)), 1+g.Intn(2))
		if g.Intn(3) == 0 {
			floats(-f, 1)
		}
	case 5:
		// integers to ParseFloat that are no integers to ParseInt, beside the integer itself
		for _, s := range []string{"1e3", "1E3", "1_000", "0x10", "0x10p0", "0X1P4", "16", "1000", "+ 1", "1,000", "1 000", "1000.", "1e+03", "10e2", "0x3e8p0", "0x3_e8p0", "1000e0", "+1000", "1000.0", "0b1000", "0o17", "1__000", "_1000", "1000_",
			"٣", "１０００", "1e3 ", "Inf", "+inf", "INFINITY", "-Inf", "NaN", "nan", "1e400", "-1e400", "1e-400", "-1e-400", "0", "-0", "-0.0", "0e0"} {
			if g.Intn(4) == 0 {
				add(value.NewString(blanked(g, s)))
			}
		}
		if g.Intn(2) == 0 {
			add(value.NewInteger(1000))
		}
		if len(out) < 2 {
			add(value.NewString("1e3"))
			add(value.NewString("1000"))
		}
	case 6, 7:
		// one instant in several spellings, its neighbours, the typed value
		var t time.Time
		switch g.Intn(4) {
		case 0:
			t = time.Date(1990+g.Intn(60), time.Month(1+g.Intn(12)), 1+g.Intn(28), 0, 0, 0, 0, time.UTC)
		case 1:
			t = time.Date(1990+g.Intn(60), time.Month(1+g.Intn(12)), 1+g.Intn(28), g.Intn(24), g.Intn(60), g.Intn(60), 0, time.UTC)
		case 2:
			t = time.Date(1990+g.Intn(60), time.Month(1+g.Intn(12)), 1+g.Intn(28), g.Intn(24), g.Intn(60), g.Intn(60), []int{500000000, 120000000, 1, 999999999, 123456789, 100}[g.Intn(6)], time.UTC)
		default:
			t = time.Date(2012, 2, 3, 9, 18, 15, 0, time.UTC)
		}
		inst := func(t time.Time, k int) {
			dt := "D" + strconv.FormatInt(t.UnixNano(), 10)
			for ; k > 0; k-- {
				out = append(out, mk(value.NewString(timeText(g, t)), dt))
			}
			if g.Intn(2) == 0 {
				out = append(out, mk(value.NewDatetime(t.In(dtZones[g.Intn(len(dtZones))])), dt))
			}
		}
		inst(t, 3+g.Intn(4))
		inst(t.Add([]time.Duration{time.Nanosecond, time.Second, time.Hour, 24 * time.Hour, -time.Nanosecond}[g.Intn(5)]), 1+g.Intn(2))
	case 8:
		// the words of strconv.ParseBool, the words that are not, and the numbers 1 / 0
		for _, s := range []string{"true", "TRUE", "True", "t", "T", "1", "false", "FALSE", "False", "f", "F", "0", "tRUE", "TRue", "yes", "no", "on", "Y", "tr", "truee", "01", "+1", "1.0", "0.0", "-0", "00", "true "} {
			if g.Intn(3) == 0 {
				add(value.NewString(blanked(g, s)))
			}
		}
		if g.Intn(2) == 0 {
			add(value.NewBoolean(g.Intn(2) == 0))
		}
		if g.Intn(2) == 0 {
			add(value.NewInteger(int64(g.Intn(2))))
		}
		if len(out) < 2 {
			add(value.NewString("true"))
			add(value.NewString("T"))
		}
	default:
		// plain texts: case, blanks, and what is NOT folded
		w := g.Pick("abc", "straße", "Ünï", "x:y", "a b", "ǆ", "i", "é")
		for _, s := range []string{w, strings.ToUpper(w), strings.ToLower(w), " " + w, w + "\t", " " + strings.ToUpper(w) + " ", w + "x", w + " x", "　" + w, w + " "} {
			if g.Intn(2) == 0 {
				add(value.NewString(s))
			}
		}
		if g.Intn(3) == 0 {
			add(value.NewNull())
		}
		if len(out) < 2 {
			add(value.NewString(w))
			add(value.NewString(strings.ToUpper(w)))
		}
	}
	return out
}

func labelOf(s spelled, strict bool) string {
	if strict {
		return s.strict
	}
	return s.loose
}

// deviation of an output from the expected one, named by what it says about value equality
type verdict struct {
	extra, missing string // law to report when the output has a row too many / too few
}

var (
	lawSplit = "equal_values_split_bucket"
	lawShare = "different_values_share_bucket"
)

func runSpell(g *hc.Gen, o *hc.Out, pr *hc.Proc, n int) {
	flags := pr.P.Tx.Flags
	flags.DatetimeFormat = nil
	defer func() {
		_ = pr.P.Tx.SetFlag(option.StrictEqualFlag, false)
		pr.SetCPU(1)
	}()
	tables := n / 12
	if tables < 10 {
		tables = 10
	}
	if tables > 1500 {
		tables = 1500
	}
	for t := 0; t < tables; t++ {
		strict := g.Intn(5) == 0
		_ = pr.P.Tx.SetFlag(option.StrictEqualFlag, strict)
		st := "0"
		if strict {
			st = "1"
		}
		cpu := []int{1, 1, 2, 3, 4, 8}[g.Intn(6)]
		pr.SetCPU(cpu)

		var pool []spelled
		for c := 1 + g.Intn(3); c > 0; c-- {
			for _, s := range cluster(g) {
				if _, ok := hc.SqlLit(s.v); ok {
					pool = append(pool, s)
				}
			}
		}
		if len(pool) == 0 {
			continue
		}
		rungs := map[string]bool{}
		for _, s := range pool {
			rungs[s.rung] = true
			o.Count("spell_value:" + s.rung)
			if x, ok := s.v.(*value.String); ok {
				switch l := len(x.Raw()); {
				case l > 32:
					o.Count("spell_text_longer_than_32")
				case l > 24:
					o.Count("spell_text_longer_than_24")
				case l > 20:
					o.Count("spell_text_longer_than_20")
				}
			}
		}

		// ---- the key bytes of every pool value, directly (query.SerializeComparisonKeys) ----
		keys := make([]string, len(pool))
		toks := make([]string, len(pool))
		for i, s := range pool {
			buf := &bytes.Buffer{}
			query.SerializeComparisonKeys(buf, []value.Primary{s.v}, flags)
			keys[i] = buf.String()
			toks[i] = hc.EncVal(s.v)
		}
		o.Case("c04.skey "+st+" "+strings.Join(toks, " "), hex.EncodeToString([]byte(strings.Join(keys, ":"))))
		for i := range pool {
			for j := i + 1; j < len(pool); j++ {
				same := labelOf(pool[i], strict) == labelOf(pool[j], strict)
				if (keys[i] == keys[j]) != same {
					name := lawShare
					if same {
						name = lawSplit
					}
					o.Law(name, map[string]interface{}{"where": "SerializeComparisonKeys", "strict": strict, "value1": hc.EncVal(pool[i].v), "value2": hc.EncVal(pool[j].v),
						"text1": hc.StrOf(pool[i].v), "text2": hc.StrOf(pool[j].v), "key1": keys[i], "key2": keys[j], "equal_by_reference": same})
				}
			}
		}

		// ---- tables sp (left) and sq (right) over the pool ----
		na := []int{0, 1, 3, 8, 16, 30}[g.Intn(6)]
		nb := []int{0, 1, 3, 8, 16}[g.Intn(5)]
		if t%4 == 0 && na < 8 {
			na = 8 + g.Intn(20)
		}
		rowsA, rowsB := make([]spelled, na), make([]spelled, nb)
		for i := range rowsA {
			rowsA[i] = pool[g.Intn(len(pool))]
		}
		for i := range rowsB {
			rowsB[i] = pool[g.Intn(len(pool))]
		}
		decl := func(name string, rows []spelled) error {
			rs := make([][]value.Primary, len(rows))
			for i, s := range rows {
				rs[i] = []value.Primary{s.v}
			}
			return pr.DeclareTable(name, []string{"k"}, rs)
		}
		if err := decl("sp", rowsA); err != nil {
			o.Law("declare_table_error", err.Error())
			continue
		}
		if err := decl("sq", rowsB); err != nil {
			o.Law("declare_table_error", err.Error())
			pr.DisposeTable("sp")
			continue
		}
		vtoks := func(rows ...[]spelled) string {
			var ts []string
			for _, r := range rows {
				for _, s := range r {
					ts = append(ts, hc.EncVal(s.v))
				}
			}
			return strings.Join(ts, " ")
		}
		labA, labB := make([]string, na), make([]string, nb)
		byVal := map[string]string{} // EncVal of a cell -> its label
		for i, s := range rowsA {
			labA[i] = labelOf(s, strict)
			byVal[hc.EncVal(s.v)] = labA[i]
		}
		for i, s := range rowsB {
			labB[i] = labelOf(s, strict)
			byVal[hc.EncVal(s.v)] = labB[i]
		}
		texts := func(ids []int) []string {
			var out []string
			for _, i := range ids {
				if i < na {
					out = append(out, hc.EncVal(rowsA[i].v)+" "+strconv.Quote(hc.StrOf(rowsA[i].v)))
				}
			}
			return out
		}
		sig := func(kind string, buckets int) {
			var rs []string
			for r := range rungs {
				rs = append(rs, r)
			}
			o.NonTrivial(fmt.Sprintf("spell:%s:%s:%d:%d", kind, st, len(rs), buckets))
		}

		// GROUP BY
		if v, err := pr.Query("SELECT LISTAGG(id, ',') AS ids FROM sp GROUP BY k"); err != nil {
			o.Law("group_sql_error", err.Error())
		} else {
			got := "-"
			if v.RecordLen() > 0 {
				got = strings.Join(ids(v, 0), "|")
			}
			o.Case(fmt.Sprintf("c04.spell group %s %d %d %s", st, cpu, na, vtoks(rowsA)), got)
			sig("group", v.RecordLen())
			seen := map[string][]int{} // label -> members of the first bucket with it
			for gi := 0; gi < v.RecordLen(); gi++ {
				var members []int
				for _, x := range strings.Split(hc.StrOf(hc.ViewCell(v, gi, 0)), ",") {
					id, _ := strconv.Atoi(x)
					members = append(members, id)
				}
				for _, id := range members[1:] {
					if labA[id] != labA[members[0]] {
						o.Law(lawShare, map[string]interface{}{"where": "GROUP BY", "strict": strict, "cpu": cpu, "rows_of_one_bucket": texts([]int{members[0], id})})
						break
					}
				}
				if prev, ok := seen[labA[members[0]]]; ok {
					o.Law(lawSplit, map[string]interface{}{"where": "GROUP BY", "strict": strict, "cpu": cpu, "rows_of_two_buckets": texts([]int{prev[0], members[0]})})
				} else {
					seen[labA[members[0]]] = members
				}
			}
		}

		// PARTITION BY
		if v, err := pr.Query("SELECT id, COUNT(*) OVER (PARTITION BY k) AS n FROM sp"); err != nil {
			o.Law("group_sql_error", err.Error())
		} else {
			cnt := make([]string, na)
			for i := 0; i < v.RecordLen(); i++ {
				id, _ := strconv.Atoi(hc.StrOf(hc.ViewCell(v, i, 0)))
				if 0 <= id && id < na {
					cnt[id] = hc.StrOf(hc.ViewCell(v, i, 1))
				}
			}
			got := "-"
			if na > 0 {
				got = strings.Join(cnt, ",")
			}
			o.Case(fmt.Sprintf("c04.spell part %s %d %d %s", st, cpu, na, vtoks(rowsA)), got)
			size := map[string]int{}
			for _, l := range labA {
				size[l]++
			}
			for id, c := range cnt {
				if x, _ := strconv.Atoi(c); x != size[labA[id]] {
					name := lawSplit
					if x > size[labA[id]] {
						name = lawShare
					}
					o.Law(name, map[string]interface{}{"where": "PARTITION BY", "strict": strict, "row": texts([]int{id}), "partition_size": c, "rows_with_equal_value": size[labA[id]]})
					break
				}
			}
		}

		// COUNT(DISTINCT)
		if v, err := pr.Query("SELECT COUNT(DISTINCT k) AS d FROM sp"); err != nil {
			o.Law("group_sql_error", err.Error())
		} else {
			got := hc.StrOf(hc.ViewCell(v, 0, 0))
			o.Case(fmt.Sprintf("c04.spell cntd %s %d %d %s", st, cpu, na, vtoks(rowsA)), got)
			want := map[string]bool{}
			for i, l := range labA {
				if !value.IsNull(rowsA[i].v) {
					want[l] = true
				}
			}
			if x, _ := strconv.Atoi(got); x != len(want) {
				name := lawSplit
				if x < len(want) {
					name = lawShare
				}
				o.Law(name, map[string]interface{}{"where": "COUNT(DISTINCT)", "strict": strict, "count_distinct": got, "different_values": len(want), "rows": texts(seq(na))})
			}
		}

		// SELECT DISTINCT and the set operators: expected label sequences by the reference
		firstOcc := func(ls []string) []string {
			seen := map[string]bool{}
			var out []string
			for _, l := range ls {
				if !seen[l] {
					seen[l] = true
					out = append(out, l)
				}
			}
			return out
		}
		inB := map[string]bool{}
		for _, l := range labB {
			inB[l] = true
		}
		filter := func(keep bool) []string {
			var out []string
			for _, l := range labA {
				if inB[l] == keep {
					out = append(out, l)
				}
			}
			return out
		}
		type sop struct {
			kind, sql string
			want      []string
			v         verdict
		}
		sops := []sop{
			{"distinct", "SELECT DISTINCT k FROM sp", firstOcc(labA), verdict{lawSplit, lawShare}},
			{"union0", "SELECT k FROM sp UNION SELECT k FROM sq", firstOcc(append(append([]string{}, labA...), labB...)), verdict{lawSplit, lawShare}},
			{"union1", "SELECT k FROM sp UNION ALL SELECT k FROM sq", append(append([]string{}, labA...), labB...), verdict{lawSplit, lawShare}},
			{"except0", "SELECT k FROM sp EXCEPT SELECT k FROM sq", firstOcc(filter(false)), verdict{lawSplit, lawShare}},
			{"except1", "SELECT k FROM sp EXCEPT ALL SELECT k FROM sq", filter(false), verdict{lawSplit, lawShare}},
			{"intersect0", "SELECT k FROM sp INTERSECT SELECT k FROM sq", firstOcc(filter(true)), verdict{lawShare, lawSplit}},
			{"intersect1", "SELECT k FROM sp INTERSECT ALL SELECT k FROM sq", filter(true), verdict{lawShare, lawSplit}},
		}
		for _, s := range sops {
			v, err := pr.Query(s.sql)
			if err != nil {
				o.Law("setop_sql_error", err.Error())
				continue
			}
			cells := make([]string, v.RecordLen())
			got := make([]string, v.RecordLen())
			for i := range cells {
				cells[i] = hc.EncVal(hc.ViewCell(v, i, 0))
				got[i] = byVal[cells[i]]
			}
			impl := "-"
			if len(cells) > 0 {
				impl = strings.Join(cells, ",")
			}
			if s.kind == "distinct" {
				o.Case(fmt.Sprintf("c04.spell distinct %s %d %d %s", st, cpu, na, vtoks(rowsA)), impl)
			} else {
				o.Case(fmt.Sprintf("c04.spell %s %s %d %d %s", s.kind, st, cpu, na, vtoks(rowsA, rowsB)), impl)
			}
			sig(s.kind, len(cells))
			if strings.Join(got, "|") != strings.Join(s.want, "|") {
				name := s.v.missing
				if len(got) > len(s.want) {
					name = s.v.extra
				} else if len(got) == len(s.want) {
					// same number of rows, other rows: a duplicate label among rows that should be distinct is a split
					name = s.v.extra
				}
				o.Law(name, map[string]interface{}{"where": s.sql, "strict": strict, "output": cells, "output_values_by_reference": got, "expected_values_by_reference": s.want,
					"left": texts(seq(na)), "right_labels": labB})
			}
		}
		pr.DisposeTable("sq")
		pr.DisposeTable("sp")
	}
}

func seq(n int) []int {
	out := make([]int, n)
	for i := range out {
		out[i] = i
	}
	return out
}
