package main

import (
	"bytes"
	"encoding/hex"
	"fmt"
	"github.com/mithrandie/ternary"
	"math"
	"strconv"
	"strings"

	"github.com/mithrandie/csvq/lib/option"
	"github.com/mithrandie/csvq/lib/query"
	"github.com/mithrandie/csvq/lib/value"

	"verifharness/hc"
)

func main() { hc.Main(run) }

// ktok: profile~ftext~trim as read by lean/Csvq/Drive/C04.lean
func ktok(p value.Primary) string {
	ft, tr := "-", "-"
	if f, ok := p.(*value.Float); ok {
		ft = "x" + hc.Hex(f.String())
	} else if f := value.ToFloat(p); !value.IsNull(f) {
		ft = "x" + hc.Hex(f.(*value.Float).String())
	}
	if s, ok := p.(*value.String); ok {
		tr = "x" + hc.Hex(hc.TrimSpaceRef(s.Raw()))
	}
	return hc.EncFullProfile(p) + "~" + ft + "~" + tr
}

// normRef: the documented normalisation, written independently of lib/query/utils.go.
// Returns a canonical description that is equal for two values iff they must share a bucket.
func normRef(p value.Primary, strict bool) string {
	if strict {
		switch v := p.(type) {
		case *value.String:
			return "S" + hc.Hex(hc.TrimSpaceRef(v.Raw()))
		case *value.Integer:
			return "I" + strconv.FormatInt(v.Raw(), 10)
		case *value.Float:
			return "F" + hc.EncF(v.Raw())
		case *value.Boolean:
			return "B" + strconv.FormatBool(v.Raw())
		case *value.Ternary:
			return "T" + hc.EncT(v.Ternary())
		case *value.Datetime:
			return "D" + strconv.FormatInt(v.Raw().UnixNano(), 10)
		}
		return "N"
	}
	if value.IsNull(p) {
		return "N"
	}
	if i := value.ToIntegerStrictly(p); !value.IsNull(i) {
		return "I" + strconv.FormatInt(i.(*value.Integer).Raw(), 10)
	}
	if f := value.ToFloat(p); !value.IsNull(f) {
		x := f.(*value.Float).Raw()
		if x == 0 {
			x = 0 // -0 and +0 are the same number
		}
		if math.IsNaN(x) {
			return "Fnan"
		}
		return "F" + hc.EncF(x+0)
	}
	if d := value.ToDatetime(p, nil, hc.UTC); !value.IsNull(d) {
		return "D" + strconv.FormatInt(d.(*value.Datetime).Raw().UnixNano(), 10)
	}
	if b := value.ToBoolean(p); !value.IsNull(b) {
		if b.(*value.Boolean).Raw() {
			return "I1"
		}
		return "I0"
	}
	if s, ok := p.(*value.String); ok {
		return "S" + hc.Hex(strings.ToUpper(hc.TrimSpaceRef(s.Raw())))
	}
	return "N"
}

func normRow(r []value.Primary, strict bool) string {
	s := make([]string, len(r))
	for i, p := range r {
		s[i] = normRef(p, strict)
	}
	return strings.Join(s, "|")
}

var tricky = []string{":", "[S]", "[N]", "[I]1", "\\", "\\:", ":[S]", "x", "y", "", " ", "a", "A", "1", "1.0", "[F]1", "[S]:", "é", "É"}

// keyVal draws key values weighted towards the characters used internally to delimit keys and towards
// values that are equal across types.
// families: values that are equal under the documented normalisation but spelled / typed differently; a pool
// seeded from one family makes buckets that a representation-sensitive key would split
var families = [][]value.Primary{
	{value.NewString("1"), value.NewString("1.0"), value.NewString("1e0"), value.NewString(" 1 "), value.NewInteger(1), value.NewFloat(1), value.NewString("+1")},
	{value.NewString("1.5"), value.NewString("1.50"), value.NewString("15e-1"), value.NewFloat(1.5), value.NewString(" 1.5"), value.NewString("0.15E1")},
	{value.NewString("0"), value.NewString("-0"), value.NewString("0.0"), value.NewString("-0.0"), value.NewFloat(0), value.NewFloat(math.Copysign(0, -1)), value.NewInteger(0)},
	{value.NewString("0.5"), value.NewString(".5"), value.NewString("5e-1"), value.NewFloat(0.5), value.NewString("0.50")},
	{value.NewString("true"), value.NewString("TRUE"), value.NewString("t"), value.NewString(" True ")},
	{value.NewString("abc"), value.NewString("ABC"), value.NewString(" abc "), value.NewString("aBc")},
	{value.NewString("2012-02-03"), value.NewString("2012-02-03 00:00:00"), value.NewString("2012/02/03"), value.NewString("2012-02-03T00:00:00Z")},
	{value.NewString("100"), value.NewString("1e2"), value.NewString("100.0"), value.NewInteger(100), value.NewFloat(100)},
}

// distinctLaw names the DISTINCT-aggregate law; a group that holds a ternary UNKNOWN next to a NULL has a cause of
// its own (known finding F74: UNKNOWN shares the NULL bucket, but whether it is then counted depends on whether
// a NULL precedes it), every other disagreement keeps the general name
func distinctLaw(pr *hc.Proc, members string, strict bool) string {
	if strict {
		return "distinct_aggregate_buckets"
	}
	v, err := pr.Query("SELECT w FROM t WHERE id IN (" + members + ")")
	if err != nil {
		return "distinct_aggregate_buckets"
	}
	for i := 0; i < v.RecordLen(); i++ {
		if t, ok := hc.ViewCell(v, i, 0).(*value.Ternary); ok && t.Ternary() == ternary.UNKNOWN {
			return "distinct_aggregate_buckets:unknown_ternary_in_group"
		}
	}
	return "distinct_aggregate_buckets"
}

func keyVal(g *hc.Gen, lit bool) value.Primary {
	switch g.Intn(10) {
	case 0, 1, 2, 3:
		n := g.Intn(4)
		var sb strings.Builder
		for i := 0; i < n; i++ {
			sb.WriteString(tricky[g.Intn(len(tricky))])
		}
		return value.NewString(sb.String())
	case 4:
		return value.NewString(g.Pick("1", " 1 ", "1.0", "1e0", "true", "TRUE", "t", "0", "-0", "0.0", "-0.0", "false", "abc", "ABC", " abc ", "2012-02-03", "2012-02-03 00:00:00", "2012/02/03"))
	case 5:
		return value.NewInteger(int64(g.Intn(3)))
	case 6:
		return value.NewFloat([]float64{0, math.Copysign(0, -1), 1, 1.5, 2}[g.Intn(5)])
	case 7:
		return value.NewNull()
	}
	if lit {
		return g.LitVal()
	}
	return g.Val()
}

func serialize(flags *option.Flags, row []value.Primary) string {
	buf := &bytes.Buffer{}
	query.SerializeComparisonKeys(buf, row, flags)
	return buf.String()
}

func ids(v *query.View, col int) []string {
	out := make([]string, v.RecordLen())
	for i := range out {
		out[i] = hc.StrOf(hc.ViewCell(v, i, col))
	}
	return out
}

func run(seed int64, n int, dir string, _ []string) {
	g := hc.NewGen(seed)
	o := hc.NewOut(dir)
	defer o.Close()
	pr := hc.NewProc("")
	defer pr.Close()
	flags := pr.P.Tx.Flags

	setStrict := func(b bool) { _ = pr.P.Tx.SetFlag(option.StrictEqualFlag, b) }

	// ---------- stream 1: key bytes of single tuples and of colliding-looking pairs ----------
	for i := 0; i < n; i++ {
		strict := g.Intn(4) == 0
		setStrict(strict)
		k := g.Intn(3) + 1
		r1, r2 := make([]value.Primary, k), make([]value.Primary, k)
		for j := 0; j < k; j++ {
			r1[j] = keyVal(g, false)
			switch g.Intn(3) {
			case 0:
				r2[j] = r1[j]
			default:
				r2[j] = keyVal(g, false)
			}
		}
		if k >= 2 && g.Intn(3) == 0 {
			// move a separator-looking piece across the column boundary
			x, y, z := tricky[g.Intn(len(tricky))], tricky[g.Intn(len(tricky))], tricky[g.Intn(len(tricky))]
			mid := g.Pick(":[S]", ":", "\\:", ":[N]", "\\")
			r1[0], r1[1] = value.NewString(x+mid+y), value.NewString(z)
			r2[0], r2[1] = value.NewString(x), value.NewString(y+mid+z)
			if mid == ":[S]" || mid == ":[N]" {
				r2[1] = value.NewString(y + ":[S]" + z)
				r1[0] = value.NewString(x + ":[S]" + y)
			}
		}
		b1, b2 := serialize(flags, r1), serialize(flags, r2)
		st := "0"
		if strict {
			st = "1"
		}
		for _, pair := range []struct {
			r []value.Primary
			b string
		}{{r1, b1}, {r2, b2}} {
			toks := make([]string, len(pair.r))
			for j, p := range pair.r {
				toks[j] = ktok(p)
			}
			o.Case("c04.key "+st+" "+strings.Join(toks, " "), hex.EncodeToString([]byte(pair.b)))
		}
		same := normRow(r1, strict) == normRow(r2, strict)
		if (b1 == b2) != same {
			name := "key_not_injective"
			if same {
				name = "key_splits_equal_rows"
			}
			enc := func(r []value.Primary) []string {
				s := make([]string, len(r))
				for i, p := range r {
					s[i] = hc.EncVal(p)
				}
				return s
			}
			o.Law(name, map[string]interface{}{"strict": strict, "row1": enc(r1), "row2": enc(r2), "key1": b1, "key2": b2})
		}
		o.NonTrivial(fmt.Sprintf("key:%v:%d:%v:%v", strict, k, same, b1 == b2))
		o.Count(fmt.Sprintf("key:same=%v", same))
	}
	setStrict(false)

	// ---------- stream 2: GROUP BY / DISTINCT / set operators / aggregates through SQL ----------
	tables := n / 40
	if tables < 4 {
		tables = 4
	}
	for t := 0; t < tables; t++ {
		strict := g.Intn(5) == 0
		setStrict(strict)
		st := "0"
		if strict {
			st = "1"
		}
		ncols := g.Intn(3) + 1
		nrows := []int{0, 1, 2, 5, 12, 30, 170, 330, 500}[g.Intn(9)]
		if t%7 == 3 {
			nrows = 160 + g.Intn(400)
		}
		pool := make([]value.Primary, g.Intn(6)+2) // few distinct values => real buckets
		for i := range pool {
			pool[i] = keyVal(g, true)
			if _, ok := hc.SqlLit(pool[i]); !ok {
				pool[i] = value.NewNull()
			}
		}
		if g.Intn(2) == 0 {
			// two to four members of one family of equal-but-differently-spelled values
			fam := families[g.Intn(len(families))]
			for k := 2 + g.Intn(3); k > 0; k-- {
				v := fam[g.Intn(len(fam))]
				if _, ok := hc.SqlLit(v); ok {
					pool = append(pool, v)
				}
			}
			o.Count("pool_with_family")
		}
		longKey := false
		if g.Intn(6) == 0 {
			// one very long key text (beyond the size of any pooled key buffer) and a differently spelled twin of it:
			// keys computed before and after it must still meet in the same buckets
			long := "L" + strings.Repeat(string(rune('a'+g.Intn(26))), 4090+g.Intn(5000))
			pool = append(pool, value.NewString(long), value.NewString("  "+strings.ToUpper(long)+" "))
			if nrows > 40 {
				nrows = 40
			}
			longKey = true
			o.Count("pool_with_long_key")
		}
		rows := make([][]value.Primary, nrows)
		toks := make([]string, 0, nrows*ncols)
		for i := range rows {
			rows[i] = make([]value.Primary, ncols+2)
			rows[i][ncols+1] = pool[g.Intn(len(pool))] // second payload: values of the key classes, for DISTINCT inside aggregates
			for j := 0; j < ncols; j++ {
				rows[i][j] = pool[g.Intn(len(pool))]
				toks = append(toks, ktok(rows[i][j]))
			}
			rows[i][ncols] = value.NewInteger(int64(g.Intn(50) - 10)) // payload for aggregates
			if g.Intn(8) == 0 {
				rows[i][ncols] = value.NewNull()
			}
		}
		cols := make([]string, ncols)
		for j := range cols {
			cols[j] = fmt.Sprintf("c%d", j+1)
		}
		if err := pr.DeclareTable("t", append(append([]string{}, cols...), "v", "w"), rows); err != nil {
			o.Law("declare_table_error", err.Error())
			continue
		}
		keyList := strings.Join(cols, ", ")
		cpu := []int{1, 1, 2, 3, 4, 8}[g.Intn(6)]
		pr.SetCPU(cpu)
		o.Count(fmt.Sprintf("table:rows=%d", nrows/100*100))

		// GROUP BY: bucket membership and order (LISTAGG lists the ids of a bucket in row order)
		_, _ = pr.Exec("DECLARE cntpos AGGREGATE (c) AS BEGIN VAR @n := 0; VAR @x; WHILE @x IN c DO IF @x > 0 THEN @n := @n + 1; END IF; END WHILE; RETURN @n; END;")
		const aggs = "COUNT(*) AS n, COUNT(v) AS nv, SUM(v) AS s, MIN(v) AS mn, MAX(v) AS mx, AVG(v) AS av, MEDIAN(v) AS md, COUNT(DISTINCT v) AS cd, SUM(DISTINCT v) AS sd, LISTAGG(v, ',') AS lv, LISTAGG(DISTINCT v, ';') AS ld, JSON_AGG(v) AS ja, STDEV(v) AS sv, VAR(v) AS vr, cntpos(v) AS up, LISTAGG(v, ',') WITHIN GROUP (ORDER BY id * -1) AS lo, JSON_AGG(id) WITHIN GROUP (ORDER BY v * -1, id) AS jo"
		const naggs = 17
		// aggregates whose argument is a column ADDED by the select list itself (a constant under an alias): it has one
		// value per row of the bucket like any other column, so SUM(1) = COUNT(x) = the bucket's row count
		if av, err := pr.Query("SELECT LISTAGG(id, ',') AS ids, 1 AS one, 'x' AS tag, 2.5 AS half, COUNT(*) AS n, SUM(one) AS s1, COUNT(tag) AS c1, cntpos(one) AS u1, SUM(half) AS s2, MIN(tag) AS m1, LISTAGG(tag, '') AS l1 FROM t GROUP BY " + keyList); err != nil {
			o.Law("group_sql_error", err.Error())
		} else {
			for gi := 0; gi < av.RecordLen(); gi++ {
				n := hc.StrOf(hc.ViewCell(av, gi, 4))
				nn, _ := strconv.Atoi(n)
				want := []string{n, n, n, strconv.FormatFloat(2.5*float64(nn), 'f', -1, 64), "x", strings.Repeat("x", nn)}
				for c, w := range want {
					if got := hc.StrOf(hc.ViewCell(av, gi, 5+c)); got != w {
						o.Law("aggregate_over_added_column", map[string]interface{}{"members": hc.StrOf(hc.ViewCell(av, gi, 0)), "column": []string{"SUM(one)", "COUNT(tag)", "cntpos(one)", "SUM(half)", "MIN(tag)", "LISTAGG(tag)"}[c], "got": got, "want": w, "bucket_rows": n})
					}
				}
				o.Count("added_column_aggregate_checks")
			}
		}
		v, err := pr.Query("SELECT LISTAGG(id, ',') AS ids, " + aggs + " FROM t GROUP BY " + keyList)
		if err != nil {
			o.Law("group_sql_error", err.Error())
		} else {
			got := "-"
			if v.RecordLen() > 0 {
				got = strings.Join(ids(v, 0), "|")
			}
			o.Case(fmt.Sprintf("c04.group %s %d %d %s", st, ncols, cpu, strings.Join(toks, " ")), got)
			o.NonTrivial(fmt.Sprintf("group:%s:%d:%d:%d", st, ncols, v.RecordLen(), nrows))
			// every aggregate is computed over exactly the rows of its bucket:
			// compare with the same aggregate over the ungrouped rows `WHERE id IN (members)`
			for gi := 0; gi < v.RecordLen() && gi < 6; gi++ {
				members := hc.StrOf(hc.ViewCell(v, gi, 0))
				w, err := pr.Query("SELECT " + aggs + " FROM t WHERE id IN (" + members + ")")
				if err != nil {
					o.Law("aggregate_sql_error", err.Error())
					continue
				}
				for c := 0; c < naggs; c++ {
					a, b := hc.EncVal(hc.ViewCell(v, gi, c+1)), hc.EncVal(hc.ViewCell(w, 0, c))
					if a != b {
						o.Law("aggregate_over_bucket", map[string]interface{}{"agg": c, "members": members, "grouped": a, "over_members": b})
					}
				}
				o.Count("aggregate_checks")
				// the DISTINCT option of an aggregate uses the same buckets as SELECT DISTINCT (whose buckets the
				// model decides in c04.distinct): COUNT(DISTINCT w) over the group = rows of SELECT DISTINCT w
				dq, err1 := pr.Query("SELECT COUNT(DISTINCT w) AS cdw FROM t WHERE id IN (" + members + ")")
				dd, err2 := pr.Query("SELECT DISTINCT w FROM t WHERE w IS NOT NULL AND id IN (" + members + ")")
				if err1 == nil && err2 == nil {
					if got, want := hc.StrOf(hc.ViewCell(dq, 0, 0)), strconv.Itoa(dd.RecordLen()); got != want {
						var ws []string
						if wv, err := pr.Query("SELECT w FROM t WHERE id IN (" + members + ")"); err == nil {
							for i := 0; i < wv.RecordLen() && i < 40; i++ {
								ws = append(ws, hc.EncVal(hc.ViewCell(wv, i, 0)))
							}
						}
						o.Law(distinctLaw(pr, members, strict), map[string]interface{}{"strict": strict, "members": members, "count_distinct": got, "select_distinct_rows": want, "w_values": ws})
					}
					o.Count("distinct_aggregate_checks")
				}
			}
			// … and the same inside GROUP BY and as an analytic function over the PARTITION
			gq, err1 := pr.Query("SELECT MIN(id) AS fid, COUNT(DISTINCT w) AS cdw, LISTAGG(id, ',') AS ids FROM t GROUP BY " + keyList)
			aq, err2 := pr.Query("SELECT id, COUNT(DISTINCT w) OVER (PARTITION BY " + keyList + ") AS cdw FROM t")
			if err1 == nil && err2 == nil {
				byID := map[string]string{}
				for i := 0; i < aq.RecordLen(); i++ {
					byID[hc.StrOf(hc.ViewCell(aq, i, 0))] = hc.StrOf(hc.ViewCell(aq, i, 1))
				}
				for gi := 0; gi < gq.RecordLen(); gi++ {
					members := hc.StrOf(hc.ViewCell(gq, gi, 2))
					cd := hc.StrOf(hc.ViewCell(gq, gi, 1))
					if gi < 8 {
						dd, err := pr.Query("SELECT DISTINCT w FROM t WHERE w IS NOT NULL AND id IN (" + members + ")")
						if err == nil && strconv.Itoa(dd.RecordLen()) != cd {
							o.Law(distinctLaw(pr, members, strict), map[string]interface{}{"strict": strict, "where": "GROUP BY", "members": members, "count_distinct": cd, "select_distinct_rows": dd.RecordLen()})
						}
					}
					for _, id := range strings.Split(members, ",") {
						if byID[id] != cd {
							o.Law("distinct_aggregate_buckets", map[string]interface{}{"strict": strict, "where": "OVER (PARTITION BY)", "id": id, "analytic": byID[id], "grouped": cd})
							break
						}
					}
				}
			}
		}

		// DISTINCT on top of a grouped view: equal result rows coming from different groups are merged
		if ncols >= 2 {
			dg, err1 := pr.Query("SELECT DISTINCT " + cols[0] + " FROM t GROUP BY " + keyList)
			dp, err2 := pr.Query("SELECT DISTINCT " + cols[0] + " FROM t")
			if err1 == nil && err2 == nil {
				a, b := ids(dg, 0), ids(dp, 0)
				if strings.Join(a, "\x00") != strings.Join(b, "\x00") {
					o.Law("distinct_over_grouped_view", map[string]interface{}{"strict": strict, "grouped": a, "plain": b})
				}
			}
			dc, err1 := pr.Query("SELECT DISTINCT COUNT(*) AS n FROM t GROUP BY " + keyList)
			gc, err2 := pr.Query("SELECT COUNT(*) AS n FROM t GROUP BY " + keyList)
			if err1 == nil && err2 == nil {
				seen := map[string]bool{}
				var want []string
				for _, x := range ids(gc, 0) {
					if !seen[x] {
						seen[x] = true
						want = append(want, x)
					}
				}
				if got := ids(dc, 0); strings.Join(got, ",") != strings.Join(want, ",") {
					o.Law("distinct_over_grouped_view", map[string]interface{}{"strict": strict, "distinct_counts": got, "want": want})
				}
			}
			o.Count("distinct_over_grouped_checks")
		}

		// under a session datetime format, values that are the same instant in different spellings share a bucket in
		// GROUP BY, DISTINCT and PARTITION BY alike (the key of every bucket kind is built from the same conversion)
		if t%5 == 2 {
			layout := []string{"%c/%e/%y", "%b %e, %Y", "%Y%m%d", "%e.%c.%Y %H:%i"}[(t/5)%4]
			fam := map[string][][]string{
				"%c/%e/%y":       {{"2/3/12", "02/03/12", "2/03/12"}, {"2/4/12", "02/04/12"}, {"12/25/11"}},
				"%b %e, %Y":      {{"Feb 3, 2012", "Feb 03, 2012", "FEB 3, 2012"}, {"Feb 4, 2012"}, {"Dec 25, 2011", "Dec 25, 2011 "}},
				"%Y%m%d":         {{"20120203", " 20120203"}, {"20120204"}, {"20111225", "20111225"}},
				"%e.%c.%Y %H:%i": {{"3.2.2012 09:05", "03.02.2012 09:05"}, {"3.2.2012 9:06"}, {"25.12.2011 00:00", "25.12.2011 0:00"}},
			}[layout]
			flags.DatetimeFormat = nil // exactly this one format (SetFlag only ever ADDS a format to the session's list)
			_ = pr.P.Tx.SetFlag(option.DatetimeFormatFlag, layout)
			setStrict(false)
			type fr struct {
				fam int
				sp  string
			}
			var frs []fr
			size := map[int]int{}
			for fi, spellings := range fam {
				for _, sp := range spellings {
					for rep := 0; rep < 1+g.Intn(2); rep++ {
						frs = append(frs, fr{fi, sp})
						size[fi]++
					}
				}
			}
			for k := len(frs) - 1; k > 0; k-- {
				x := g.Intn(k + 1)
				frs[k], frs[x] = frs[x], frs[k]
			}
			rows := make([][]value.Primary, len(frs))
			want := map[int]int{}
			for k, f := range frs {
				rows[k] = []value.Primary{value.NewString(f.sp)}
				want[k] = size[f.fam]
			}
			if err := pr.DeclareTable("dtt", []string{"k"}, rows); err != nil {
				o.Law("declare_table_error", err.Error())
			}
			for _, q := range []string{
				"SELECT id, COUNT(*) OVER (PARTITION BY k) AS n FROM dtt",
				"SELECT id, (SELECT COUNT(*) FROM dtt d2 WHERE d2.k = dtt.k) AS n FROM dtt",
				"SELECT d1.id, COUNT(*) AS n FROM dtt d1 JOIN dtt d2 ON d1.k = d2.k GROUP BY d1.id",
			} {
				v, err := pr.Query(q)
				if err != nil {
					o.Law("group_sql_error", err.Error())
					continue
				}
				for i := 0; i < v.RecordLen(); i++ {
					rid, _ := strconv.Atoi(hc.StrOf(hc.ViewCell(v, i, 0)))
					if got := hc.StrOf(hc.ViewCell(v, i, 1)); got != strconv.Itoa(want[rid]) {
						o.Law("datetime_spellings_split_bucket", map[string]interface{}{"datetime_format": layout, "sql": q, "id": rid, "got": got, "want": want[rid]})
					}
				}
			}
			for _, q := range []string{"SELECT COUNT(*) FROM (SELECT k FROM dtt GROUP BY k) s", "SELECT COUNT(*) FROM (SELECT DISTINCT k FROM dtt) s", "SELECT COUNT(DISTINCT k) FROM dtt",
				"SELECT COUNT(*) FROM (SELECT k FROM dtt UNION SELECT k FROM dtt) s"} {
				if v, err := pr.Query(q); err == nil {
					if got := hc.StrOf(hc.ViewCell(v, 0, 0)); got != strconv.Itoa(len(fam)) {
						o.Law("datetime_spellings_split_bucket", map[string]interface{}{"datetime_format": layout, "sql": q, "got": got, "want": len(fam)})
					}
				}
			}
			o.Count("datetime_format_bucket_checks")
			pr.DisposeTable("dtt")
			// SetFlag(DATETIME_FORMAT, "") adds nothing and removes nothing: the list is emptied directly, so that the later
			// tables run without custom formats, as their cell profiles (hc.DatetimeFormats = nil) assume
			flags.DatetimeFormat = nil
			setStrict(strict)
		}
		// an outer aggregate WITHOUT GROUP BY over a grouped derived table whose select list is exactly its source's
		// fields: every row of the derived table is ONE row, however many records its group had — also when a
		// WHERE leaves a single row (the whole-view grouping must not treat that row as "a group already")
		if t%3 == 1 {
			_ = pr.DeclareTable("g2", []string{"a", "b"}, [][]value.Primary{
				{value.NewInteger(1), value.NewInteger(10)}, {value.NewInteger(1), value.NewInteger(10)}, {value.NewInteger(1), value.NewInteger(10)},
				{value.NewInteger(2), value.NewInteger(20)}, {value.NewInteger(2), value.NewInteger(20)}, {value.NewInteger(3), value.NewInteger(30)}})
			for _, f := range [][2]string{
				{"SELECT COUNT(*), SUM(b), LISTAGG(b, ',') FROM (SELECT a, b FROM g2 GROUP BY a, b) s WHERE a = 1", "1|10|10"},
				{"SELECT COUNT(*), SUM(b), LISTAGG(b, ',') FROM (SELECT a, b FROM g2 GROUP BY a, b) s WHERE a = 2", "1|20|20"},
				{"WITH s AS (SELECT a, b FROM g2 GROUP BY a, b) SELECT COUNT(*), SUM(b), AVG(b) FROM s WHERE a = 1", "1|10|10"},
				{"SELECT COUNT(*), SUM(b), MAX(a) FROM (SELECT DISTINCT a, b FROM g2 GROUP BY a, b) s WHERE b = 10", "1|10|1"},
				{"SELECT COUNT(b) FROM (SELECT a, b FROM g2 GROUP BY a, b) s WHERE a = 1 HAVING COUNT(*) = 1", "1"},
				{"SELECT COUNT(*), SUM(b) FROM (SELECT a, b FROM g2 GROUP BY a, b) s", "3|60"},
				{"SELECT JSON_AGG(b) FROM (SELECT a, b FROM g2 GROUP BY a, b) s WHERE a = 1", "[10]"},
			} {
				v, err := pr.Query(f[0])
				got := "E"
				if err == nil && v.RecordLen() == 1 {
					var cs []string
					for c := 0; c < v.FieldLen(); c++ {
						cs = append(cs, hc.StrOf(hc.ViewCell(v, 0, c)))
					}
					got = strings.Join(cs, "|")
				} else if err == nil {
					got = fmt.Sprintf("%d rows", v.RecordLen())
				}
				if got != f[1] {
					o.Law("aggregate_over_grouped_subquery_row", map[string]interface{}{"sql": f[0], "got": got, "want": f[1]})
				}
				o.Count("grouped_subquery_row_checks")
			}
			pr.DisposeTable("g2")
		}
		// the same aggregates over a derived table (no hidden row id in front, the aggregated column first)
		dv, err1 := pr.Query("SELECT LISTAGG(id, ',') AS ids, " + aggs + " FROM (SELECT v, id, " + keyList + ", w FROM t) s GROUP BY " + keyList)
		tv, err2 := pr.Query("SELECT LISTAGG(id, ',') AS ids, " + aggs + " FROM t GROUP BY " + keyList)
		if err1 == nil && err2 == nil {
			same := dv.RecordLen() == tv.RecordLen()
			for i := 0; same && i < dv.RecordLen(); i++ {
				for c := 0; c <= naggs; c++ {
					if hc.EncVal(hc.ViewCell(dv, i, c)) != hc.EncVal(hc.ViewCell(tv, i, c)) {
						o.Law("aggregate_over_derived_table", map[string]interface{}{"group": i, "column": c, "direct": hc.EncVal(hc.ViewCell(tv, i, c)), "derived": hc.EncVal(hc.ViewCell(dv, i, c))})
						same = false
						break
					}
				}
			}
			if dv.RecordLen() != tv.RecordLen() {
				o.Law("aggregate_over_derived_table", map[string]interface{}{"groups_direct": tv.RecordLen(), "groups_derived": dv.RecordLen()})
			}
			o.Count("derived_table_checks")
		} else if (err1 == nil) != (err2 == nil) {
			o.Law("aggregate_over_derived_table", map[string]interface{}{"direct_error": fmt.Sprint(err2), "derived_error": fmt.Sprint(err1)})
		}

		// DISTINCT
		v, err = pr.Query("SELECT DISTINCT " + keyList + ", MIN(id) OVER (PARTITION BY " + keyList + ") AS fid FROM t")
		if err == nil {
			o.Case(fmt.Sprintf("c04.distinct %s %d %s", st, ncols, strings.Join(toks, " ")), strings.Join(ids(v, ncols), ","))
		} else {
			o.Law("distinct_sql_error", err.Error())
		}

		// set operators: t (left) against a second table u
		nb := []int{0, 1, 3, 10, 40}[g.Intn(5)]
		rowsB := make([][]value.Primary, nb)
		toksB := make([]string, 0, nb*ncols)
		for i := range rowsB {
			rowsB[i] = make([]value.Primary, ncols)
			for j := 0; j < ncols; j++ {
				rowsB[i][j] = pool[g.Intn(len(pool))]
				toksB = append(toksB, ktok(rowsB[i][j]))
			}
		}
		if err := pr.DeclareTable("u", cols, rowsB); err == nil {
			// ids: left rows 0..nrows-1, right rows nrows..; output the id of each surviving row.
			// csvq compares whole records, so project the key columns only and recover ids by position:
			for _, op := range []string{"union", "except", "intersect"} {
				for _, all := range []string{"0", "1"} {
					kw := strings.ToUpper(op)
					if all == "1" {
						kw += " ALL"
					}
					q := "SELECT " + keyList + " FROM t " + kw + " SELECT " + keyList + " FROM u"
					v, err := pr.Query(q)
					if err != nil {
						o.Law("setop_sql_error", err.Error())
						continue
					}
					// canonical: the key bytes of each output row, in order
					outKeys := make([]string, v.RecordLen())
					for i := 0; i < v.RecordLen(); i++ {
						r := make([]value.Primary, ncols)
						for j := 0; j < ncols; j++ {
							r[j] = hc.ViewCell(v, i, j)
						}
						outKeys[i] = normRow(r, strict)
					}
					// the model answers with row ids; translate them to normalised rows with the reference
					o.Case(fmt.Sprintf("c04.setop %s %s %s %d %d %s", op, all, st, ncols, nrows, strings.Join(append(append([]string{}, toks...), toksB...), " ")),
						idsOfKeys(outKeys, rows, rowsB, ncols, strict, op, all == "1"))
					o.NonTrivial(fmt.Sprintf("setop:%s:%s:%d", op, all, v.RecordLen()))
				}
			}
			// the same three kinds of bucketing with select lists of every shape (sellist.go)
			if t < 200 { // thorough tier: the first 200 tables of a stream (its op lines are long)
				runSelLists(g, o, pr, st, strict, cols, nrows, longKey, cpu)
			}
			pr.DisposeTable("u")
		}
		pr.DisposeTable("t")
		_, _ = pr.Exec("DISPOSE FUNCTION cntpos;")
	}

	// ---------- stream 3: the aggregate functions themselves (agg.go) ----------
	runAgg(g, o, pr, n)

	// ---------- stream 4: GROUP BY → grouped records → the aggregate evaluation (gagg.go) ----------
	runGagg(g, o, pr, n)

	// ---------- stream 5: the spelling space of every rung, keys decided by the model alone (spell.go) ----------
	runSpell(g, o, pr, n)
}

// idsOfKeys maps the implementation's output rows back to source row ids: the k-th output row must be
// a source row with the same normalised key; ids are assigned greedily in source order (first unused
// source row with that key), which is the only assignment consistent with an order-preserving filter.
func idsOfKeys(outKeys []string, a, b [][]value.Primary, ncols int, strict bool, op string, all bool) string {
	type src struct {
		key  string
		used bool
	}
	srcs := make([]src, 0, len(a)+len(b))
	for _, r := range a {
		srcs = append(srcs, src{normRow(r[:ncols], strict), false})
	}
	for _, r := range b {
		srcs = append(srcs, src{normRow(r[:ncols], strict), false})
	}
	out := make([]string, len(outKeys))
	for i, k := range outKeys {
		out[i] = "?"
		for j := range srcs {
			if !srcs[j].used && srcs[j].key == k {
				srcs[j].used = true
				out[i] = strconv.Itoa(j)
				break
			}
		}
	}
	return strings.Join(out, ",")
}
