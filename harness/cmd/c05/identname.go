package main

import (
	"fmt"

	"verifharness/hc"
)

// tableNameSpellings: UPDATE / DELETE change exactly the matching rows whatever characters the table's name or alias is
// written with.  Names are drawn from letters whose upper-case form does not fold back (U+0131 dotless i: ToUpper = 'I',
// but strings.EqualFold("TZI", "tzı") is false), other non-ASCII letters and plain ASCII as the control.  Known finding
// F119: for a name containing ı, Update / Delete key the table by strings.ToUpper(name) and look the internal-id column up
// with strings.EqualFold — DELETE reports "no record deleted", UPDATE "value … is ambiguous".
func tableNameSpellings(o *hc.Out, root string) {
	names := []struct{ tag, name string }{
		{"ascii", "tza"}, {"upper_ascii", "TZB"}, {"dotless_i", "tzı"}, {"dotted_capital_i", "tzİx"},
		{"sharp_s", "tzß"}, {"kelvin", "tzK"}, {"greek", "τς"}, {"cyrillic", "таб"},
	}
	for _, nm := range names {
		pr := hc.NewProc(root)
		q := "`" + nm.name + "`"
		rep := map[string]interface{}{"name": nm.name, "kind": nm.tag}
		fail := func(what string, err error) {
			rep["step"], rep["error"] = what, fmt.Sprint(err)
			o.Law("dml_by_table_name:"+nm.tag, rep)
		}
		ok := true
		for _, s := range []string{"DECLARE " + q + " VIEW (c1)", "INSERT INTO " + q + " VALUES (1), (2), (3)"} {
			if _, err := pr.Exec(s); err != nil {
				fail(s, err)
				ok = false
				break
			}
		}
		if ok {
			if _, err := pr.Exec("UPDATE " + q + " SET c1 = 9 WHERE c1 = 1"); err != nil {
				fail("UPDATE", err)
			} else if _, err := pr.Exec("DELETE FROM " + q + " WHERE c1 = 2"); err != nil {
				fail("DELETE", err)
			} else if v, err := pr.Query("SELECT c1 FROM " + q + " ORDER BY c1"); err != nil {
				fail("SELECT", err)
			} else {
				got := ""
				for _, r := range v.RecordSet {
					got += fmt.Sprint(r[0][0]) + ";"
				}
				if v.RecordLen() != 2 {
					rep["rows_after"] = v.RecordLen()
					rep["cells"] = got
					o.Law("dml_by_table_name:"+nm.tag, rep)
				}
			}
		}
		o.Eval()
		o.NonTrivial("table_name_spelling:" + nm.tag)
		pr.Close()
	}
}
