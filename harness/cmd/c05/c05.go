// Stream c05: sequences of data-changing statements run by the REAL csvq processor in-process; after
// every statement the canonical `SELECT *` of the target tables and the reported affected-row counts are
// recorded for comparison with the Lean model, and the frame / count laws are checked directly on the
// implementation's own before/after tables.
package main

import (
	"fmt"
	"os"
	"path/filepath"

	"verifharness/dml"
	"verifharness/hc"
)

func main() { hc.Main(run) }

func scratchRoot(tag string, seed int64) string {
	base := os.Getenv("VERIF_SCRATCH")
	if base == "" {
		base = os.TempDir()
	}
	d, err := os.MkdirTemp(base, fmt.Sprintf("%s-%d-", tag, seed))
	if err != nil {
		panic(err)
	}
	return d
}

func run(seed int64, n int, dir string, _ []string) {
	g := hc.NewGen(seed)
	o := hc.NewOut(dir)
	defer o.Close()
	root := scratchRoot("c05", seed)
	defer os.RemoveAll(root)

	// corpus: the witness of known finding F41 (REPLACE with a repeated existing key) runs first, for every seed
	dml.KnownReplaceWitness(g, o, root)
	// corpus: every statement kind inside IF / nested IF / WHILE / function body / PREPARE-EXECUTE, for every seed
	dml.NestedCorpus(g, o, root)
	// corpus: the STDIN table as the target of every statement kind, for every seed
	dml.StdinCorpus(g, o, root)
	// corpus: columns addressed by number (t.N) after DROP / ADD / RENAME of non-last columns, for every seed
	dml.NumberRefCorpus(g, o, root)
	// corpus: key matching with integer keys adjacent beyond 2^53, as integers and as digit strings
	dml.BigKeyCorpus(g, o, root)
	// corpus: multi-table DELETE / UPDATE over LEFT / RIGHT / FULL joins, unmatched records first / middle / last
	dml.OuterJoinCorpus(g, o, root)
	// corpus: multi-table UPDATE / DELETE over USING (…) / NATURAL joins, join column first / middle / last, SET columns before / after it
	dml.UsingJoinCorpus(g, o, root)
	// corpus: multi-table UPDATE / DELETE over join TREES of depth 2-3 (chains and nested joins of every kind, id-less sources at every position)
	treeN := 350
	if n > 5000 {
		treeN = 2500
	}
	dml.TreeJoinCorpus(g, o, root, treeN)
	tableNameSpellings(o, root)
	// corpus: the witness of the known finding "a column added to a fixed-length table with explicit positions is not written by COMMIT"
	dml.FixedAddWitness(g, o, root)
	// corpus: every kind of successful change as the first / second / third change of a table of every file format, COMMIT, read back by a fresh process
	dml.FormatCommitCorpus(g, o, root)

	stmts := 0
	for seq := 0; stmts < n; seq++ {
		r := dml.NewSequence(g, o, root, seq, false, 400)
		r.Wraps = 25
		r.NumRefs = 20
		if seq == 0 {
			// corpus: pre-finding F4 (REPLACE appended the unmatched rows in map order) always runs first
			if st := r.ReplaceWitness(); st != nil {
				r.Exec(st, 0)
				stmts++
			}
		}
		L := 1 + g.Intn(30)
		for i := 0; i < L; i++ {
			st := r.Gen(false)
			if st == nil {
				continue
			}
			out := r.Exec(st, 0)
			r.AfterStdin(out)
			stmts++
			res := "ok"
			if out.Err != nil {
				res = fmt.Sprintf("E%d", dml.ErrNum(out.Err))
			}
			o.Count("stmt:" + st.Kind)
			o.Count("result:" + res)
			store, rows := "new", 0
			if len(st.Targets) > 0 {
				t := r.Tab(st.Targets[0])
				rows = t.NextID
				store = "temp"
				if t.File {
					store = "file"
				}
			}
			o.Count("store:" + store)
			o.Count(fmt.Sprintf("rows~%d", band(rows)))
			o.NonTrivial(fmt.Sprintf("%s:%s:%s:%d:cpu%d:pos%d:%s", st.Kind, res, store, band(rows), r.CPU, i/5, countBand(out.Counts)))
			if g.Intn(10) == 0 {
				r.CommitOrRollback()
			}
		}
		r.Commit()
		o.Count(fmt.Sprintf("seq_len~%d", L/10*10))
		r.Close()
	}
	_ = filepath.Join
}

func band(n int) int {
	switch {
	case n == 0:
		return 0
	case n <= 3:
		return 3
	case n <= 20:
		return 20
	case n <= 100:
		return 100
	}
	return 400
}

func countBand(m map[string]int) string {
	s := ""
	for _, v := range m {
		switch {
		case v == 0:
			s += "0"
		case v == 1:
			s += "1"
		case v < 10:
			s += "s"
		default:
			s += "L"
		}
	}
	return s
}
