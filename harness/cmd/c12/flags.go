package main

// SESSION FLAGS whose handling keeps state or caches — --datetime-format lists (incl. mutually ambiguous formats),
// --timezone, --strict-equal, --ansi-quotes, --without-null, and @@ flags changed BETWEEN the statements of a
// program — over a table whose columns exercise them (dates in several spellings, ambiguous ones among them).
//   * op `c12.strtotime`: value.StrToTime itself under a format list against Model/ParseTimeUser (formats in the given
//     order, first match wins), called in a random order so that anything remembered from one call to the next shows;
//   * the same program at every --cpu value, twice: `cpu_dependent_output`;
//   * law `value_depends_on_other_rows`: a row-wise select list gives every row the value the same program gives a
//     table of that row ALONE (evaluated in a fresh session; the single rows are taken in two different orders, which
//     must agree: `value_depends_on_history`) — an evaluation-order-independent reference, valid at --cpu 1 too;
//   * GROUP BY over a converted key agrees with the grouping the harness makes from the single-row values.

import (
	"encoding/hex"
	"fmt"
	"os"
	"path/filepath"
	"sort"
	"strings"
	"time"

	"github.com/mithrandie/csvq/lib/option"
	"github.com/mithrandie/csvq/lib/value"

	"verifharness/hc"
)

// formats of the modelled vocabulary; the members of a group are mutually ambiguous for many texts
var fmtGroups = [][]string{
	{"%d/%m/%Y", "%m/%d/%Y", "%Y/%d/%m", "%e/%c/%Y", "%c/%e/%Y"},
	{"%d-%m-%Y", "%m-%d-%Y", "%Y-%d-%m", "%d-%m-%Y %H:%i:%s", "%m-%d-%Y %H:%i:%s"},
	{"%d/%m/%y", "%m/%d/%y", "%y/%m/%d"},
	{"%d.%m.%Y", "%m.%d.%Y", "%d %b %Y", "%b %d, %Y", "%d.%m.%Y %H:%i"},
	{"%d%m%Y", "%m%d%Y", "%Y%d%m"},
}

var monthAbbr = []string{"Jan", "Feb", "Mar", "Apr", "May", "Jun", "Jul", "Aug", "Sep", "Oct", "Nov", "Dec"}

func renderFormat(f string, y, mo, d, h, mi, s int) string {
	var sb strings.Builder
	for i := 0; i < len(f); i++ {
		if f[i] != '%' || i+1 == len(f) {
			sb.WriteByte(f[i])
			continue
		}
		i++
		switch f[i] {
		case 'Y':
			fmt.Fprintf(&sb, "%04d", y)
		case 'y':
			fmt.Fprintf(&sb, "%02d", y%100)
		case 'm':
			fmt.Fprintf(&sb, "%02d", mo)
		case 'c':
			fmt.Fprintf(&sb, "%d", mo)
		case 'd':
			fmt.Fprintf(&sb, "%02d", d)
		case 'e':
			fmt.Fprintf(&sb, "%d", d)
		case 'b':
			sb.WriteString(monthAbbr[mo-1])
		case 'H':
			fmt.Fprintf(&sb, "%02d", h)
		case 'i':
			fmt.Fprintf(&sb, "%02d", mi)
		case 's':
			fmt.Fprintf(&sb, "%02d", s)
		default:
			sb.WriteByte(f[i])
		}
	}
	return sb.String()
}

func pickFormats(g *hc.Gen) []string {
	if g.Intn(8) == 0 {
		return nil
	}
	grp := fmtGroups[g.Intn(len(fmtGroups))]
	perm := g.Perm(len(grp))
	n := 2 + g.Intn(3)
	if g.Intn(6) == 0 {
		n = 1
	}
	if n > len(grp) {
		n = len(grp)
	}
	out := make([]string, n)
	for i := range out {
		out[i] = grp[perm[i]]
	}
	if g.Intn(4) == 0 { // one format of another group as well
		o := fmtGroups[g.Intn(len(fmtGroups))]
		f := o[g.Intn(len(o))]
		dup := false
		for _, x := range out {
			dup = dup || x == f
		}
		if !dup {
			out = append(out, f)
		}
	}
	return out
}

// a text for the format list: written in one of the formats (a day ≤ 12 makes it fit the sibling formats too), in a
// built-in spelling, or not a date at all
func dateText(g *hc.Gen, fmts []string) string {
	y := 1990 + g.Intn(60)
	if g.Intn(12) == 0 {
		y = []int{1, 999, 1969, 1968, 2068, 2069, 9999}[g.Intn(7)]
	}
	mo, d := g.Intn(12)+1, g.Intn(28)+1
	switch g.Intn(4) {
	case 0:
		d = g.Intn(12) + 1 // fits day/month and month/day
	case 1:
		d = 13 + g.Intn(16) // only one reading
	}
	h, mi, s := g.Intn(24), g.Intn(60), g.Intn(60)
	var t string
	switch k := g.Intn(10); {
	case k < 6 && len(fmts) > 0:
		t = renderFormat(fmts[g.Intn(len(fmts))], y, mo, d, h, mi, s)
	case k < 7:
		all := fmtGroups[g.Intn(len(fmtGroups))]
		t = renderFormat(all[g.Intn(len(all))], y, mo, d, h, mi, s)
	case k < 9:
		t = []string{
			fmt.Sprintf("%04d-%02d-%02d", y, mo, d), fmt.Sprintf("%04d/%02d/%02d", y, mo, d), fmt.Sprintf("%04d-%d-%d", y, mo, d),
			fmt.Sprintf("%04d/%d/%d", y, mo, d), fmt.Sprintf("%04d-%02d-%02d %02d:%02d:%02d", y, mo, d, h, mi, s),
			fmt.Sprintf("%04d-%02d-%02dT%02d:%02d:%02dZ", y, mo, d, h, mi, s), fmt.Sprintf("%04d-%02d-%02dT%02d:%02d:%02d+09:00", y, mo, d, h, mi, s),
			fmt.Sprintf("%04d/%02d/%02d %02d:%02d:%02d.%03d", y, mo, d, h, mi, s, g.Intn(1000)), fmt.Sprintf("%04d-%02d-%02d %02d:%02d:%02d -0700", y, mo, d, h, mi, s),
		}[g.Intn(9)]
	default:
		t = []string{"", "abc", "13/13/2020", "32/01/2020", "00/00/0000", "2020-02-30", "12", "1.5", "true", "31/04/2021", "29/02/2021", "29/02/2020", "2/29/2020"}[g.Intn(13)]
	}
	switch g.Intn(14) {
	case 0:
		t = " " + t
	case 1:
		t = t + "  "
	}
	return t
}

func fmtsToken(fmts []string) string {
	if len(fmts) == 0 {
		return "-"
	}
	out := make([]string, len(fmts))
	for i, f := range fmts {
		out[i] = "x" + hex.EncodeToString([]byte(f))
	}
	return strings.Join(out, ",")
}

func runStrToTime(g *hc.Gen, o *hc.Out, n int) {
	for i := 0; i < n; i++ {
		fmts := pickFormats(g)
		// several texts under the same list, in random order: the answer for a text may not depend on the calls before
		texts := make([]string, 3+g.Intn(6))
		for j := range texts {
			texts[j] = dateText(g, fmts)
		}
		for _, t := range texts {
			tm, ok := value.StrToTime(t, fmts, time.UTC)
			impl := "-"
			if ok {
				impl = hc.EncTime(tm)
			}
			o.Context(fmt.Sprintf("value.StrToTime(%q, %q, UTC)", t, fmts))
			o.Case(fmt.Sprintf("c12.strtotime %s x%s", fmtsToken(fmts), hex.EncodeToString([]byte(t))), impl)
			sig := "none"
			if ok {
				sig = "ok"
			}
			o.NonTrivial(fmt.Sprintf("stt:%d:%s:%d", len(fmts), sig, len(t)/4))
		}
	}
}

// ---- programs under session flags ----

type fstep struct {
	exec    string // a statement that changes a flag (nothing is compared), or
	query   string // a SELECT
	rowwise bool   // its select list is evaluated per record: row i of the result is a function of row i of the table
	groupK  bool   // SELECT k, COUNT(*), MIN(id) … GROUP BY k over the converted key `k` of the row-wise query
}

type fprog struct {
	name    string
	formats []string
	zone    string
	strict  bool
	ansi    bool
	nonull  bool
	steps   []fstep
}

func (p fprog) open(dir string, cpu int) *hc.Proc {
	pr := hc.NewProc(dir)
	pr.SetCPU(cpu)
	for _, f := range p.formats { // like --datetime-format '["…","…"]'
		_ = pr.P.Tx.SetFlag(option.DatetimeFormatFlag, f)
	}
	if p.zone != "" {
		if err := pr.P.Tx.SetFlag(option.TimezoneFlag, p.zone); err != nil {
			panic(err)
		}
	}
	_ = pr.P.Tx.SetFlag(option.StrictEqualFlag, p.strict)
	_ = pr.P.Tx.SetFlag(option.AnsiQuotesFlag, p.ansi)
	_ = pr.P.Tx.SetFlag(option.WithoutNullFlag, p.nonull)
	return pr
}

// one run of the program: for every query step the rows as encoded cells, or the error
func (p fprog) run(dir string, cpu int) [][][]string {
	pr := p.open(dir, cpu)
	defer pr.Close()
	out := make([][][]string, len(p.steps))
	for si, st := range p.steps {
		if st.exec != "" {
			if _, err := pr.Exec(st.exec); err != nil {
				out[si] = [][]string{{"E", fmt.Sprint(hc.ErrCode(err)), err.Error()}}
			}
			continue
		}
		v, err := pr.Query(st.query)
		if err != nil {
			out[si] = [][]string{{"E", fmt.Sprint(hc.ErrCode(err)), err.Error()}}
			continue
		}
		rows := make([][]string, v.RecordLen())
		for i := range rows {
			rows[i] = make([]string, v.FieldLen())
			for j := range rows[i] {
				rows[i][j] = hc.EncVal(hc.ViewCell(v, i, j))
			}
		}
		out[si] = rows
	}
	return out
}

func rowsDigest(rows [][]string) string {
	var sb strings.Builder
	for _, r := range rows {
		sb.WriteString(strings.Join(r, ","))
		sb.WriteByte('\n')
	}
	return fmt.Sprintf("%d:%08x", len(rows), hashString(sb.String()))
}

func hashString(s string) uint64 {
	h := uint64(14695981039346656037)
	for i := 0; i < len(s); i++ {
		h = (h ^ uint64(s[i])) * 1099511628211
	}
	return h
}

func writeDates(dir string, rows [][]string) {
	_ = os.MkdirAll(dir, 0o755)
	var sb strings.Builder
	sb.WriteString("id,d,e,x,y\n")
	for _, r := range rows {
		for j, c := range r {
			if j > 0 {
				sb.WriteByte(',')
			}
			sb.WriteString("\"" + strings.ReplaceAll(c, "\"", "\"\"") + "\"")
		}
		sb.WriteByte('\n')
	}
	// an empty quoted field is an empty string, an empty unquoted one NULL (or '' under --without-null): keep both kinds
	text := strings.ReplaceAll(sb.String(), ",\"\",", ",,")
	if err := os.WriteFile(filepath.Join(dir, "dates.csv"), []byte(text), 0o644); err != nil {
		panic(err)
	}
}

func unquoteSet(s string) string { return strings.ReplaceAll(s, "'", "''") }

func runFlags(g *hc.Gen, o *hc.Out, scratch string, round int) {
	zones := []string{"Asia/Tokyo", "America/New_York", "Europe/London", "UTC"}
	mkQ := func(ansi bool) (string, string) {
		q := func(c string) string {
			if ansi {
				return "\"" + c + "\""
			}
			return c
		}
		d, e, x, y := q("d"), q("e"), q("x"), q("y")
		row := "SELECT id, DATETIME_FORMAT(" + d + ", '%Y%m%d%H%i%s') AS k, DATETIME(" + d + ") AS a, DATETIME_FORMAT(" + d + ", '%Y-%m-%d %H:%i:%s %Z') AS b, " +
			d + " < " + e + " AS c, " + d + " = " + e + " AS f, " + d + " = " + x + " AS g, " + x + " = " + y + " AS h, YEAR(" + d + ") AS yr, " +
			x + " IS NULL AS xn, COALESCE(" + x + ", 'nil') AS xc, " + x + " IN ('1', 'a') AS xi, DATE_DIFF(" + d + ", " + e + ") AS dd, UNIX_TIME(" + d + ") AS ut FROM dates"
		grp := "SELECT k, COUNT(*) AS c, MIN(id) AS i FROM (SELECT id, DATETIME_FORMAT(" + d + ", '%Y%m%d%H%i%s') AS k FROM dates) t GROUP BY k"
		return row, grp
	}
	var progs []fprog
	for pi := 0; pi < 5; pi++ {
		p := fprog{name: []string{"datetime-format", "datetime-format+timezone", "strict-equal", "ansi-quotes+without-null", "flags-changed-between-statements"}[pi]}
		p.formats = pickFormats(g)
		for len(p.formats) < 2 && pi != 2 {
			p.formats = pickFormats(g)
		}
		switch pi {
		case 1:
			p.zone = zones[g.Intn(3)]
		case 2:
			p.strict = true
		case 3:
			p.ansi, p.nonull = true, true
		}
		row, grp := mkQ(p.ansi)
		p.steps = []fstep{
			{query: row, rowwise: true},
			{query: grp, groupK: true},
			{query: "SELECT DISTINCT DATETIME(d) AS a FROM dates"},
			{query: "SELECT id FROM dates ORDER BY DATETIME(d), id"},
			{query: "SELECT d, COUNT(*) AS c, MIN(id) AS i FROM dates GROUP BY d"},
			{query: "SELECT DISTINCT d, x FROM dates"},
			{query: "SELECT id FROM dates ORDER BY d, x, id"},
			{query: "SELECT id FROM dates WHERE d < '2020-06-15' OR e >= x OR x = y"},
			{query: "SELECT a.id, b.id AS bid FROM dates a JOIN (SELECT id, d FROM dates WHERE id < 9) b ON a.d = b.d"},
		}
		if pi == 4 {
			// the flags change between the statements; the list of formats grows, shrinks, is read again
			other := pickFormats(g)
			for len(other) == 0 {
				other = pickFormats(g)
			}
			changes := []string{
				"ADD '" + unquoteSet(other[0]) + "' TO @@DATETIME_FORMAT;",
				"REMOVE 0 FROM @@DATETIME_FORMAT;",
				"SET @@DATETIME_FORMAT TO '[\"" + strings.Join(other, "\",\"") + "\"]';",
				"SET @@STRICT_EQUAL TO TRUE;",
				"SET @@TIMEZONE TO '" + zones[g.Intn(len(zones))] + "';",
				"REMOVE '" + unquoteSet(p.formats[0]) + "' FROM @@DATETIME_FORMAT;",
				"SET @@CPU TO " + fmt.Sprint(g.Intn(4)+1) + ";",
			}
			perm := g.Perm(len(changes))
			for _, ci := range perm[:4] {
				p.steps = append(p.steps, fstep{exec: changes[ci]}, fstep{query: row, rowwise: true}, fstep{query: grp, groupK: true},
					fstep{query: "SELECT id FROM dates ORDER BY DATETIME(d), id"})
			}
		}
		progs = append(progs, p)
	}

	for pi, p := range progs {
		// the table: a few dozen distinct row contents, each occurring many times, in random order
		nproto := 24 + g.Intn(16)
		protos := make([][]string, nproto)
		xs := []string{"1", "1.0", "01", " 1", "a", "A", "abc", "", "true", "TRUE", "2020-04-03", "03/04/2020"}
		for i := range protos {
			protos[i] = []string{dateText(g, p.formats), dateText(g, p.formats), xs[g.Intn(len(xs))], xs[g.Intn(len(xs))]}
			if g.Intn(5) == 0 {
				protos[i][1] = protos[i][0]
			}
		}
		n := 80*(g.Intn(9)+3) + g.Intn(3) - 1
		rows := make([][]string, n)
		which := make([]int, n)
		for i := range rows {
			which[i] = g.Intn(nproto)
			rows[i] = append([]string{fmt.Sprint(i)}, protos[which[i]]...)
		}
		base := filepath.Join(scratch, fmt.Sprintf("c12-flags-%d-%d", round, pi))
		writeDates(base, rows)

		describe := func() map[string]interface{} {
			return map[string]interface{}{"flags": p.name, "datetime_format": p.formats, "timezone": p.zone, "strict_equal": p.strict, "ansi_quotes": p.ansi, "without_null": p.nonull, "rows": n}
		}
		program := func(upto int) []string {
			var out []string
			for i := 0; i <= upto && i < len(p.steps); i++ {
				if p.steps[i].exec != "" {
					out = append(out, p.steps[i].exec)
				}
			}
			return append(out, p.steps[upto].query)
		}

		// (1) every row alone, in a fresh session, the single rows taken in two different orders
		alone := make([][][][]string, nproto) // proto -> step -> rows
		one := filepath.Join(scratch, fmt.Sprintf("c12-flags-%d-%d-one", round, pi))
		for pass := 0; pass < 2; pass++ {
			for k := 0; k < nproto; k++ {
				j := k
				if pass == 1 {
					j = nproto - 1 - k
				}
				writeDates(one, [][]string{append([]string{"0"}, protos[j]...)})
				res := p.run(one, 1)
				o.Eval()
				if pass == 0 {
					alone[j] = res
					continue
				}
				for si, st := range p.steps {
					if st.rowwise && rowsDigest(res[si]) != rowsDigest(alone[j][si]) {
						rec := describe()
						rec["program"], rec["row"], rec["first_evaluation"], rec["second_evaluation"] = program(si), protos[j], alone[j][si], res[si]
						o.Law("value_depends_on_history", rec)
						break
					}
				}
			}
		}
		_ = os.RemoveAll(one)

		// (2) the whole table at every --cpu value, twice
		var ref [][][]string
		refCPU := 0
		lawsLeft := 3
		for _, cpu := range cpus {
			for rep := 0; rep < 2; rep++ {
				res := p.run(base, cpu)
				o.Eval()
				if ref == nil {
					ref, refCPU = res, cpu
				}
				for si, st := range p.steps {
					if st.query == "" {
						continue
					}
					if d, d0 := rowsDigest(res[si]), rowsDigest(ref[si]); d != d0 && lawsLeft > 0 {
						lawsLeft--
						rec := describe()
						rec["program"], rec["cpu_a"], rec["cpu_b"], rec["digest_a"], rec["digest_b"] = program(si), refCPU, cpu, d0, d
						rec["first_difference"] = firstRowDiff(res[si], ref[si], rows)
						o.Law("cpu_dependent_output", rec)
					}
					if !st.rowwise && !st.groupK {
						continue
					}
					if len(res[si]) == 1 && len(res[si][0]) == 3 && res[si][0][0] == "E" {
						rec := describe()
						rec["program"], rec["cpu"], rec["error"] = program(si), cpu, res[si][0][2]
						o.Law("flag_program_error", rec)
						continue
					}
					if st.rowwise {
						// row i of the table has the value of its content alone
						bad := -1
						if len(res[si]) != n {
							bad = len(res[si])
						}
						for i := 0; i < n && bad < 0; i++ {
							a := alone[which[i]][si]
							if len(a) != 1 || strings.Join(a[0][1:], ",") != strings.Join(res[si][i][1:], ",") {
								bad = i
							}
						}
						if bad >= 0 && lawsLeft > 0 {
							lawsLeft--
							rec := describe()
							rec["program"], rec["cpu"], rec["row_index"] = program(si), cpu, bad
							if bad < n && bad < len(res[si]) {
								rec["row"], rec["in_the_table"], rec["alone"] = rows[bad], res[si][bad], alone[which[bad]][si]
								rec["rows_before_it"] = rows[maxInt(0, bad-3):bad]
							}
							o.Law("value_depends_on_other_rows", rec)
						}
					} else {
						// the grouping the harness makes from the single-row keys (column 1 of the row-wise step before it)
						type grp struct{ c, min int }
						want := map[string]*grp{}
						for i := 0; i < n; i++ {
							a := alone[which[i]][si-1]
							if len(a) != 1 {
								continue
							}
							k := a[0][1]
							if want[k] == nil {
								want[k] = &grp{0, i}
							}
							want[k].c++
						}
						var w, got []string
						for k, v := range want {
							w = append(w, fmt.Sprintf("%s,I%d,S%s", k, v.c, hex.EncodeToString([]byte(fmt.Sprint(v.min)))))
						}
						for _, r := range res[si] {
							got = append(got, strings.Join(r, ","))
						}
						sort.Strings(w)
						sort.Strings(got)
						if strings.Join(w, ";") != strings.Join(got, ";") && lawsLeft > 0 {
							lawsLeft--
							rec := describe()
							rec["program"], rec["cpu"], rec["groups_from_single_rows"], rec["groups_of_the_query"] = program(si), cpu, w, got
							o.Law("group_keys_depend_on_other_rows", rec)
						}
					}
				}
			}
		}
		o.Count("flag_programs")
		o.NonTrivial(fmt.Sprintf("flags:%s:%d:%d", p.name, len(p.formats), n/160))
		if os.Getenv("C12_KEEP") == "" {
			_ = os.RemoveAll(base)
		}
	}
}

func maxInt(a, b int) int {
	if a > b {
		return a
	}
	return b
}

func firstRowDiff(a, b [][]string, table [][]string) map[string]interface{} {
	n := len(a)
	if len(b) < n {
		n = len(b)
	}
	for i := 0; i < n; i++ {
		if strings.Join(a[i], ",") != strings.Join(b[i], ",") {
			rec := map[string]interface{}{"result_row": i, "b": a[i], "a": b[i]}
			return rec
		}
	}
	return map[string]interface{}{"rows_b": len(a), "rows_a": len(b)}
}
