package main

import (
	"fmt"
	"os"
	"path/filepath"
	"strings"

	"verifharness/hc"
)

// ---- objects with hidden state that the whole transaction shares ----
//
// A file that a transaction has loaded FOR UPDATE stays open: the cached view keeps ONE handler (one *os.File with one
// file position) until COMMIT / ROLLBACK.  An inline table object naming that file (CSV_INLINE / JSON_INLINE /
// INLINE::) reads through this handler.  When the inline object stands inside something evaluated per record (a
// correlated scalar sub-query, EXISTS, a LATERAL join), every worker of the outer query seeks and reads the same
// handle; the result has to be what one worker alone gets.  The file is larger than one read chunk (>= 8 KB) and the
// outer table has >= 400 rows, so that with --cpu >= 2 several evaluations are under way at the same time.
//
// Every program: prolog that takes the update handler (SELECT ... FOR UPDATE or an UPDATE that matches nothing), then
// the query, at --cpu 1, 2, 4, 8 twice each.  Errors are part of the compared output (error number and, for the first
// difference, the message).

var heldCPUs = []int{1, 2, 4, 8}

func runHeld(g *hc.Gen, o *hc.Out, scratch string, r int) {
	base := filepath.Join(scratch, fmt.Sprintf("c12-held-%d", r))
	_ = os.MkdirAll(base, 0o755)
	defer func() {
		if os.Getenv("C12_KEEP") == "" {
			_ = os.RemoveAll(base)
		}
	}()
	nk := g.Intn(6) + 5
	nitems := 120 + g.Intn(40) // x ~100 bytes: 12-16 KB, several read chunks of the loader
	ndrv := 400 + 80*g.Intn(3) + g.Intn(3) - 1
	var csv, js, tsv strings.Builder
	csv.WriteString("id,k,txt\n")
	tsv.WriteString("id\tk\ttxt\n")
	js.WriteString("[")
	for i := 1; i <= nitems; i++ {
		k := g.Intn(nk)
		txt := fmt.Sprintf("item-%05d-%s", i, strings.Repeat(g.Pick("xy", "yz", "zzz"), 30+g.Intn(12)))
		fmt.Fprintf(&csv, "%d,%d,%s\n", i, k, txt)
		fmt.Fprintf(&tsv, "%d\t%d\t%s\n", i, k, txt)
		if i > 1 {
			js.WriteString(",")
		}
		fmt.Fprintf(&js, "{\"id\":%d,\"k\":%d,\"txt\":%q}", i, k, txt)
	}
	js.WriteString("]")
	drv := make([][]string, ndrv)
	for i := range drv {
		drv[i] = []string{fmt.Sprint(i + 1), fmt.Sprint(g.Intn(nk + 1))}
	}
	_ = os.WriteFile(filepath.Join(base, "items.csv"), []byte(csv.String()), 0o644)
	_ = os.WriteFile(filepath.Join(base, "items.tsv"), []byte(tsv.String()), 0o644)
	_ = os.WriteFile(filepath.Join(base, "items.json"), []byte(js.String()), 0o644)
	writeCSV(filepath.Join(base, "drv.csv"), []string{"id", "k"}, drv)

	selForUpdate := "SELECT COUNT(*) FROM %s FOR UPDATE;"
	noopUpdate := "UPDATE %s SET txt = 'never' WHERE id < 0;"
	type prog struct{ prolog, query string }
	progs := []prog{
		// scalar sub-query per record
		{fmt.Sprintf(noopUpdate, "`items.csv`"), "SELECT o.id, (SELECT COUNT(*) FROM CSV_INLINE(',', `items.csv`) i WHERE i.k = o.k) AS n FROM drv o"},
		{fmt.Sprintf(selForUpdate, "`items.csv`"), "SELECT o.id, (SELECT MAX(i.txt) FROM INLINE::`items.csv` i WHERE i.k = o.k) AS m FROM drv o"},
		{fmt.Sprintf(selForUpdate, "`items.json`"), "SELECT o.id, (SELECT SUM(i.id) FROM JSON_INLINE('', `items.json`) i WHERE i.k = o.k) AS s FROM drv o"},
		{fmt.Sprintf(noopUpdate, "`items.tsv`"), "SELECT o.id FROM drv o WHERE EXISTS (SELECT 1 FROM CSV_INLINE('\\t', `items.tsv`) i WHERE i.k = o.k AND i.id > 100)"},
		// LATERAL join
		{fmt.Sprintf(selForUpdate, "`items.csv`"), "SELECT o.id, t.id, t.txt FROM drv o CROSS JOIN LATERAL (SELECT id, txt FROM CSV_INLINE(',', `items.csv`) i WHERE i.k = o.k ORDER BY id LIMIT 2) t"},
		{fmt.Sprintf(noopUpdate, "`items.json`"), "SELECT o.id, t.n FROM drv o CROSS JOIN LATERAL (SELECT COUNT(*) AS n FROM JSON_INLINE('', `items.json`) i WHERE i.k <> o.k) t"},
	}
	// which of the six run in this round: all of them in the first round, two of them afterwards
	for pi, p := range progs {
		if r > 0 && pi%3 != r%3 {
			continue
		}
		ref, refCPU, refMsg := "", 0, ""
		for _, cpu := range heldCPUs {
			for rep := 0; rep < 2; rep++ {
				pr := hc.NewProc(base)
				pr.SetCPU(cpu)
				if _, e := pr.Exec(p.prolog); e != nil {
					o.Law("prolog_error", map[string]interface{}{"prolog": p.prolog, "error": e.Error()})
				}
				v, err := pr.Query(p.query)
				d, msg := "E:", ""
				if err == nil {
					d = viewDigest(v)
				} else {
					d += fmt.Sprint(hc.ErrCode(err))
					msg = err.Error()
				}
				pr.Close()
				if ref == "" {
					ref, refCPU, refMsg = d, cpu, msg
				} else if d != ref {
					o.Law("cpu_dependent_output", map[string]interface{}{"prolog": p.prolog, "query": p.query, "cpu_a": refCPU, "cpu_b": cpu, "rows_items": nitems, "rows_drv": ndrv,
						"digest_a": ref, "digest_b": d, "error_a": refMsg, "error_b": msg})
				}
			}
		}
		o.Count("held_file_runs")
		o.Eval()
		o.NonTrivial(fmt.Sprintf("held%d:%s", pi, ref[:strings.Index(ref, ":")]))
	}
}
