package main

import (
	"crypto/sha256"
	"encoding/hex"
	"fmt"
	"io"
	"os"
	"path/filepath"
	"runtime"
	"sort"
	"strings"
	"time"

	"github.com/mithrandie/csvq/lib/option"
	"github.com/mithrandie/csvq/lib/query"

	"verifharness/hc"
)

func main() { hc.Main(run) }

func writeCSV(path string, header []string, rows [][]string) {
	var sb strings.Builder
	sb.WriteString(strings.Join(header, ",") + "\n")
	for _, r := range rows {
		sb.WriteString(strings.Join(r, ",") + "\n")
	}
	if err := os.WriteFile(path, []byte(sb.String()), 0o644); err != nil {
		panic(err)
	}
}

func viewDigest(v *query.View) string {
	h := sha256.New()
	for _, f := range v.Header {
		h.Write([]byte(f.Column + "\x00"))
	}
	for i := 0; i < v.RecordLen(); i++ {
		for j := 0; j < v.FieldLen(); j++ {
			h.Write([]byte(hc.EncVal(hc.ViewCell(v, i, j)) + "\x00"))
		}
		h.Write([]byte("\n"))
	}
	return fmt.Sprintf("%d:%s", v.RecordLen(), hex.EncodeToString(h.Sum(nil))[:16])
}

func dirDigest(dir string) string {
	ents, _ := os.ReadDir(dir)
	names := make([]string, 0, len(ents))
	for _, e := range ents {
		names = append(names, e.Name())
	}
	sort.Strings(names)
	h := sha256.New()
	for _, n := range names {
		b, _ := os.ReadFile(filepath.Join(dir, n))
		h.Write([]byte(n + "\x00"))
		h.Write(b)
	}
	return strings.Join(names, ",") + ":" + hex.EncodeToString(h.Sum(nil))[:16]
}

var cpus = []int{1, 2, 3, 4, 8, 16}

// a user-defined aggregate with an extra parameter evaluated per row, and a user-defined scalar function
const udaProlog = "DECLARE pick AGGREGATE (c, @w) AS BEGIN VAR @best := NULL; VAR @v; WHILE @v IN c DO IF @best IS NULL OR @v * @w > @best THEN @best := @v * @w; END IF; END WHILE; RETURN @best; END;\n"
const udfProlog = "DECLARE twice FUNCTION (@x) AS BEGIN RETURN @x * 2; END;\n"

func run(seed int64, n int, dir string, _ []string) {
	g := hc.NewGen(seed)
	o := hc.NewOut(dir)
	defer o.Close()
	scratch := os.Getenv("VERIF_SCRATCH")
	if scratch == "" {
		scratch = os.TempDir()
	}

	// ---- the partition of the record range over workers: model vs implementation ----
	for i := 0; i < n; i++ {
		length := g.Intn(3000)
		if g.Intn(3) == 0 {
			length = 80*(g.Intn(17)+1) + g.Intn(3) - 1
		}
		cpu := g.Intn(16) + 1
		minReq := []int{-1, -1, 0, 1, 7, 80, 150}[g.Intn(7)]
		gm := query.NewGoroutineTaskManager(length, minReq, cpu)
		number := gm.Number
		parts := make([]string, number)
		covered := 0
		okTile := true
		for k := 0; k < number; k++ {
			s, e := gm.RecordRange(k)
			parts[k] = fmt.Sprintf("%d-%d", s, e)
			if e > s {
				if s != covered {
					okTile = false
				}
				covered = e
			}
		}
		if covered != length && length > 0 {
			okTile = false
		}
		if !okTile {
			o.Law("ranges_do_not_tile", map[string]interface{}{"len": length, "number": number, "ranges": parts})
		}
		for k := 1; k < number; k++ { // give the borrowed goroutine slots back
			gm.Add()
			gm.Done()
		}
		o.Case(fmt.Sprintf("c12.number %d %d %d", length, minReq, cpu), fmt.Sprint(number))
		o.Case(fmt.Sprintf("c12.range %d %d", length, number), strings.Join(parts, ","))
		o.NonTrivial(fmt.Sprintf("range:%d:%d", length/80, number))
	}

	// ---- the slot bookkeeping: histories of NewGoroutineTaskManager / Done against the regenerated model ----
	for i := 0; i < n/4+5; i++ {
		if c := query.GetGoroutineManager().Count; c != 0 {
			o.Law("slot_count_not_zero_between_cases", map[string]interface{}{"count": c})
			query.GetGoroutineManager().Count = 0
		}
		var ops, outs []string
		var mgrs []*query.GoroutineTaskManager
		var left []int // Done calls a manager's workers still owe
		steps := g.Intn(12) + 1
		for k := 0; k < steps; k++ {
			if len(mgrs) == 0 || g.Intn(5) < 2 {
				length := g.Intn(4000)
				if g.Intn(3) == 0 {
					length = 80*(g.Intn(17)+1) + g.Intn(3) - 1
				}
				cpu := g.Intn(16) + 1
				minReq := []int{-1, -1, 0, 1, 7, 80, 150}[g.Intn(7)]
				m := query.NewGoroutineTaskManager(length, minReq, cpu)
				mgrs = append(mgrs, m)
				left = append(left, m.Number)
				ops = append(ops, fmt.Sprintf("n:%d:%d:%d", length, minReq, cpu))
				outs = append(outs, fmt.Sprintf("%d/%d", m.Number, query.GetGoroutineManager().Count))
				if m.Number < 1 || m.Number > cpu {
					o.Law("worker_number_out_of_bounds", map[string]interface{}{"len": length, "minReq": minReq, "cpu": cpu, "number": m.Number})
				}
			} else {
				j := g.Intn(len(mgrs))
				if left[j] == 0 || mgrs[j].Number < 2 { // run() calls Done only when there is more than one worker
					continue
				}
				mgrs[j].Add()
				mgrs[j].Done()
				left[j]--
				ops = append(ops, fmt.Sprintf("d:%d", j))
				outs = append(outs, fmt.Sprint(query.GetGoroutineManager().Count))
			}
			if c := query.GetGoroutineManager().Count; c < 0 {
				o.Law("slot_count_negative", map[string]interface{}{"ops": ops, "count": c})
			}
		}
		// every worker of every manager finishes: nothing may stay borrowed
		for j, m := range mgrs {
			for ; left[j] > 0 && m.Number > 1; left[j]-- {
				m.Add()
				m.Done()
				ops = append(ops, fmt.Sprintf("d:%d", j))
				outs = append(outs, fmt.Sprint(query.GetGoroutineManager().Count))
			}
		}
		if c := query.GetGoroutineManager().Count; c != 0 {
			o.Law("slots_leaked", map[string]interface{}{"ops": ops, "count": c})
			query.GetGoroutineManager().Count = 0
		}
		o.Case("c12.slots "+strings.Join(ops, " "), strings.Join(outs, " "))
		o.NonTrivial(fmt.Sprintf("slots:%d:%d", len(mgrs), len(ops)/4))
	}
	for i := 0; i < 40; i++ {
		req := g.Intn(80) - 8
		fl := &option.Flags{CPU: g.Intn(5)}
		fl.SetCPU(req)
		o.Case(fmt.Sprintf("c12.setcpu %d %d", req, runtime.NumCPU()), fmt.Sprint(fl.CPU))
	}

	// ---- every clause of the pipeline over a table whose every stage is cut: model (c12.pipe), the harness' own
	// slices, every --cpu value twice (stages.go) ----
	quick := os.Getenv("VERIF_TIER") != "thorough"
	g2 := hc.NewGen(seed*7919 + 12)
	t0 := time.Now()
	lap := func(what string) {
		if os.Getenv("C12_TIMING") != "" {
			fmt.Fprintf(os.Stderr, "%-10s %6.2fs\n", what, time.Since(t0).Seconds())
		}
		t0 = time.Now()
	}
	defer func() { lap("programs") }()
	for r := 0; r < 1+n/1500; r++ {
		runStages(g2, o, scratch, r, quick)
	}
	lap("stages")

	// ---- session flags that keep state or caches: value.StrToTime under user formats against the model
	// (c12.strtotime), programs under flag settings at every --cpu value, every row against itself alone (flags.go) ----
	runStrToTime(g2, o, n/3+20)
	for r := 0; r < 1+n/1500; r++ {
		runFlags(g2, o, scratch, r)
	}
	lap("flags")

	// ---- a file held open FOR UPDATE by the transaction and read as an inline table object by every worker (held.go) ----
	g3 := hc.NewGen(seed*104729 + 25)
	for r := 0; r < 1+n/1500; r++ {
		runHeld(g3, o, scratch, r)
	}
	lap("held")

	// ---- same program, every --cpu value, twice: results and written files must be identical ----
	rounds := n / 150
	if rounds < 2 {
		rounds = 2
	}
	for r := 0; r < rounds; r++ {
		k := g.Intn(17) + 1
		nbig := 80*k + g.Intn(3) - 1
		if nbig < 1 {
			nbig = 1
		}
		nsmall := g.Intn(30) + 1
		nb := g.Intn(9) + 2
		big := make([][]string, nbig)
		blockwise := r%2 == 1 // keys in contiguous blocks: whole worker chunks of the left table then have no partner
		for i := range big {
			b := g.Intn(nb)
			if blockwise {
				b = i * nb / nbig
			}
			big[i] = []string{fmt.Sprint(i), fmt.Sprint(g.Intn(50) - 10), fmt.Sprint(b), g.Pick("x", "y", "z", "X", " x", "")}
		}
		small := make([][]string, nsmall)
		for i := range small {
			b := g.Intn(nb + 2)
			if blockwise {
				b = []int{0, nb - 1, nb + 1}[g.Intn(3)] // only the first and the last block find partners
			}
			small[i] = []string{fmt.Sprint(i), fmt.Sprint(b), g.Pick("p", "q", "")}
		}
		base := filepath.Join(scratch, fmt.Sprintf("c12-%d", r))
		_ = os.MkdirAll(base, 0o755)
		writeCSV(filepath.Join(base, "big.csv"), []string{"id", "a", "b", "c"}, big)
		writeCSV(filepath.Join(base, "small.csv"), []string{"id", "b", "d"}, small)
		var sb strings.Builder
		sb.WriteString("id,b,d\n")
		for _, r := range small {
			sb.WriteString(strings.Join(r, ",") + "\n")
		}
		stdinCSV := sb.String()
		// the same big table in every other format: each loader has its own parallel conversion step
		{
			var jl, lt, ts, js strings.Builder
			ts.WriteString("id\ta\tb\tc\n")
			js.WriteString("[")
			for i, r := range big {
				fmt.Fprintf(&jl, "{\"id\":%s,\"a\":%s,\"b\":%s,\"c\":%q}\n", r[0], r[1], r[2], r[3])
				fmt.Fprintf(&lt, "id:%s\ta:%s\tb:%s\tc:%s\n", r[0], r[1], r[2], r[3])
				ts.WriteString(strings.Join(r, "\t") + "\n")
				if i > 0 {
					js.WriteString(",")
				}
				fmt.Fprintf(&js, "{\"id\":%s,\"a\":%s,\"b\":%s,\"c\":%q}", r[0], r[1], r[2], r[3])
			}
			js.WriteString("]")
			_ = os.WriteFile(filepath.Join(base, "bigl.jsonl"), []byte(jl.String()), 0o644)
			_ = os.WriteFile(filepath.Join(base, "bigt.ltsv"), []byte(lt.String()), 0o644)
			_ = os.WriteFile(filepath.Join(base, "bigv.tsv"), []byte(ts.String()), 0o644)
			_ = os.WriteFile(filepath.Join(base, "bigj.json"), []byte(js.String()), 0o644)
		}

		queries := []string{
			"SELECT id, a + 1 AS a1, c FROM big WHERE a > 3 AND c <> 'x'",
			"SELECT b, COUNT(*), SUM(a), MIN(a), MAX(a), AVG(a), LISTAGG(id, ',') FROM big GROUP BY b",
			"SELECT b, c, COUNT(*) FROM big GROUP BY b, c HAVING COUNT(*) > 1",
			"SELECT DISTINCT b, c FROM big",
			// every file format through its own loader
			"SELECT id, a, b, c FROM bigl WHERE a >= 0",
			"SELECT id, a, b, c FROM bigt WHERE a >= 0",
			"SELECT id, a, b, c FROM bigv WHERE a >= 0",
			"SELECT id, a, b, c FROM bigj WHERE a >= 0",
			"SELECT COUNT(*) FROM bigl WHERE 't' || id <> 't' || id OR c IS NULL",
			// several join columns: column order and row order of USING / NATURAL joins
			"SELECT * FROM big x JOIN small y USING (id, b)",
			"SELECT * FROM big NATURAL JOIN small",
			"SELECT * FROM big x FULL JOIN (SELECT id, b, a AS a2, c AS c2 FROM big WHERE id % 3 = 0) z USING (b, id)",
			"SELECT * FROM (SELECT id, a, b, c FROM big) p NATURAL LEFT JOIN (SELECT a, b, c, id FROM big WHERE a > 0) q",
			// floating-point aggregates: addition is not associative, so the totals must not depend on how a long
			// value list could be cut into ranges
			"SELECT SUM(id * 0.1), AVG(id * 0.1), SUM(a / 7.0), STDEV(a * 0.3), VAR(id * 0.01), MEDIAN(a * 1.1) FROM big",
			"SELECT b, SUM(id * 0.1), AVG(a / 3.0), SUM(DISTINCT a * 0.7) FROM big GROUP BY b",
			"SELECT id, SUM(id * 0.1) OVER (PARTITION BY b) AS s, AVG(a * 0.3) OVER (PARTITION BY c ORDER BY id) AS av FROM big",
			"SELECT DISTINCT b FROM big GROUP BY b, c",
			"SELECT DISTINCT COUNT(*) FROM big GROUP BY b, c",
			"SELECT id FROM big ORDER BY b, a DESC, id",
			// the first access to STDIN happens inside the per-record evaluation of the workers
			"SELECT id FROM big WHERE b IN (SELECT b FROM STDIN)",
			"SELECT id FROM big WHERE EXISTS (SELECT 1 FROM STDIN s WHERE s.b = big.b AND s.id < 4)",
			"SELECT id, (SELECT COUNT(*) FROM STDIN s WHERE s.b = big.b) AS n FROM big",
			"SELECT x.id, s.id FROM big x CROSS JOIN LATERAL (SELECT id FROM STDIN t WHERE t.b = x.b ORDER BY id LIMIT 1) s",
			// built-in functions evaluated per record by every worker: none of them may keep state between calls
			"SELECT id, FORMAT('%s-%05d-%s|%8.3f', c, id, b, a * 1.5) AS f, LPAD(id, 9, 'ab') AS l, UPPER(c) AS u, REPLACE(c, 'u', 'vv') AS r FROM big",
			"SELECT id, MD5(c || id) AS m, SHA1(c) AS s1, SHA256(id) AS s2, BASE64_ENCODE(c || id) AS b64, HEX_ENCODE(c) AS hx FROM big",
			"SELECT id, DATETIME_FORMAT(DATETIME(1700000000 + id), '%Y-%m-%d %H:%i:%s') AS df, ADD_DAY(DATETIME(1700000000), id) AS ad, YEAR(DATETIME(86400 * id)) AS y, DATE_DIFF(DATETIME(86400 * id), DATETIME(0)) AS dd FROM big",
			"SELECT id, REGEXP_REPLACE(c || id, '[0-9]+', 'N') AS rr, REGEXP_FIND(c || id, '[0-9]') AS rf, NUMBER_FORMAT(id * 1234.5678, 2) AS nf, JSON_VALUE('k', '{\"k\":' || id || '}') AS jv, INSTR(c || id, '1') AS ins FROM big",
			"SELECT id, ROUND(a / 7.0, 3) AS ro, POW(b, 2) AS pw, BIN(id) AS bi, SUBSTR(c || id, 1, 3) AS su, COALESCE(NULLIF(b, 1), id) AS co, IF(a > 0, c, 'neg') AS iff FROM big",
			// heavy ties: the order of rows with equal sort keys must not depend on how many workers there are
			"SELECT id, b FROM big ORDER BY b",
			"SELECT id, c FROM big ORDER BY c DESC NULLS FIRST, b",
			"SELECT id, b, RANK() OVER (ORDER BY b DESC) AS r FROM big",
			"SELECT id, c FROM big ORDER BY c LIMIT 50 OFFSET 20",
			"SELECT id FROM big ORDER BY b DESC LIMIT 37 PERCENT",
			"SELECT b, c, COUNT(*) FROM big GROUP BY b, c ORDER BY b",
			"SELECT id, b FROM (SELECT id, b FROM big ORDER BY b) t WHERE id % 2 = 0",
			"SELECT x.id, y.id FROM big x JOIN small y ON x.b = y.b",
			// the short table drives (the long one is the joined table), every join kind and spelling
			"SELECT x.id, y.id FROM small y JOIN big x ON x.b = y.b",
			"SELECT x.id, y.id FROM small y INNER JOIN big x USING (b)",
			"SELECT x.id, y.id FROM small y LEFT JOIN big x ON x.b = y.b",
			"SELECT x.id, y.id FROM small y FULL JOIN big x ON x.b = y.b AND x.id < 500",
			"SELECT x.id, y.id FROM small y, big x WHERE x.b = y.b AND x.id < 300",
			"SELECT x.id, y.id FROM small y NATURAL JOIN (SELECT id AS xid, b FROM big) x2 JOIN big x ON x.id = x2.xid",
			"SELECT x.id, y.id FROM big x LEFT JOIN small y ON x.b = y.b AND y.d = 'p'",
			"SELECT x.id, y.id FROM small y RIGHT JOIN big x ON x.b = y.b",
			"SELECT x.id, y.id FROM big x FULL JOIN small y ON x.b = y.b",
			"SELECT x.id, y.id FROM big x CROSS JOIN small y WHERE y.id < 2",
			"SELECT id, ROW_NUMBER() OVER (PARTITION BY b ORDER BY a, id) AS rn, SUM(a) OVER (PARTITION BY b) AS s, RANK() OVER (ORDER BY b) AS rk FROM big",
			"SELECT b FROM big UNION SELECT b FROM small",
			"SELECT b FROM big EXCEPT SELECT b FROM small",
			"SELECT b FROM big INTERSECT ALL SELECT b FROM small",
			"SELECT id FROM big WHERE b IN (SELECT b FROM small WHERE d = 'p')",
			"SELECT id, (SELECT COUNT(*) FROM small s WHERE s.b = big.b) AS n FROM big WHERE id < 40",
			"SELECT b, MEDIAN(a), COUNT(DISTINCT c) FROM big GROUP BY b ORDER BY b LIMIT 5 WITH TIES",
			"SELECT id, SUM(a) OVER (ORDER BY id) AS s, LAG(a) OVER (ORDER BY id) AS l, RANK() OVER (ORDER BY a DESC) AS rk, LISTAGG(c, ',') OVER (PARTITION BY b) AS la FROM big",
			"SELECT id, FIRST_VALUE(a) OVER (PARTITION BY b ORDER BY id ROWS BETWEEN 1 PRECEDING AND 1 FOLLOWING) AS f, NTILE(3) OVER (PARTITION BY c ORDER BY id) AS nt, CUME_DIST() OVER (PARTITION BY b ORDER BY a) AS cd FROM big",
			udaProlog + "SELECT id, pick(id, a) OVER (PARTITION BY b) AS p, pick(a, id) OVER (PARTITION BY c ORDER BY id) AS q FROM big",
			udaProlog + "SELECT b, pick(id, 1), pick(a, 2) FROM big GROUP BY b",
			udfProlog + "SELECT id, twice(a) AS t FROM big WHERE twice(b) > 2",
			// a recursive query inside a sub-query that is evaluated once per record, under a --limit-recursion just above
			// its depth (marker /*LR=n*/): every evaluation has to count its own iterations
			"/*LR=8*/SELECT id, (WITH RECURSIVE t (n) AS (SELECT 1 UNION ALL SELECT n + 1 FROM t WHERE n < 3 + x.b % 6) SELECT SUM(n) FROM t) AS s FROM (SELECT id, b FROM big WHERE id < 420) x",
			"/*LR=6*/SELECT id FROM (SELECT id, a FROM big WHERE id < 420) x WHERE a < (WITH RECURSIVE t (n) AS (SELECT 1 UNION ALL SELECT n + 1 FROM t WHERE n < 6) SELECT MAX(n) FROM t)",
			"/*LR=5*/SELECT x.id, r.n FROM (SELECT id, b FROM big WHERE id < 420) x CROSS JOIN LATERAL (WITH RECURSIVE t (n) AS (SELECT 1 UNION ALL SELECT n + 1 FROM t WHERE n < 2 + x.b % 4) SELECT n FROM t WHERE n > 1) r",
		}
		dml := []string{
			"UPDATE big SET c = 'u' WHERE b = 1; COMMIT;",
			"DELETE FROM big WHERE a < 0; INSERT INTO big (id, a, b, c) SELECT id + 100000, a, b, c FROM big WHERE b = 2; COMMIT;",
			"REPLACE INTO small (id, b, d) USING (id) VALUES (3, 99, 'r'), (1001, 1, 'n1'), (1002, 2, 'n2'), (1003, 3, 'n3'), (1004, 4, 'n4'), (1005, 5, 'n5'), (1006, 6, 'n6'), (1007, 7, 'n7'); COMMIT;",
			"UPDATE big x SET x.c = y.d FROM big x JOIN small y ON x.b = y.b AND y.id < 3; COMMIT;",
			"ALTER TABLE big ADD (e DEFAULT a * 2) AFTER a; ALTER TABLE big DROP c; COMMIT;",
			"CREATE TABLE `agg.csv` (b, n) AS SELECT b, COUNT(*) FROM big GROUP BY b; COMMIT;",
		}
		for qi, q := range queries {
			ref, refCPU := "", 0
			for _, cpu := range cpus {
				for rep := 0; rep < 2; rep++ {
					pr := hc.NewProc(base)
					pr.SetCPU(cpu)
					if strings.Contains(q, "STDIN") {
						_ = pr.P.Tx.Session.SetStdin(io.NopCloser(strings.NewReader(stdinCSV)))
					}
					qq := q
					if strings.HasPrefix(qq, "/*LR=") {
						var lr int64
						_, _ = fmt.Sscanf(qq, "/*LR=%d*/", &lr)
						pr.P.Tx.Flags.SetLimitRecursion(lr)
					}
					if k := strings.LastIndex(q, ";\n"); k >= 0 {
						if _, e := pr.Exec(q[:k+1]); e != nil {
							o.Law("prolog_error", e.Error())
						}
						qq = q[k+2:]
					}
					v, err := pr.Query(qq)
					d := "E:"
					if err == nil {
						d = viewDigest(v)
					} else {
						d += fmt.Sprint(hc.ErrCode(err))
					}
					pr.Close()
					if ref == "" {
						ref, refCPU = d, cpu
					} else if d != ref {
						o.Law("cpu_dependent_output", map[string]interface{}{"query": q, "cpu_a": refCPU, "cpu_b": cpu, "rows_big": nbig, "rows_small": nsmall, "digest_a": ref, "digest_b": d})
					}
				}
			}
			o.Count("query_runs")
			o.Eval()
			o.NonTrivial(fmt.Sprintf("q%d:%d:%s", qi, k, ref[:strings.Index(ref, ":")]))
		}
		for di, prog := range dml {
			ref, refCPU := "", 0
			for _, cpu := range cpus {
				for rep := 0; rep < 2; rep++ {
					work := filepath.Join(scratch, fmt.Sprintf("c12-%d-w", r))
					_ = os.RemoveAll(work)
					_ = os.MkdirAll(work, 0o755)
					for _, f := range []string{"big.csv", "small.csv"} {
						b, _ := os.ReadFile(filepath.Join(base, f))
						_ = os.WriteFile(filepath.Join(work, f), b, 0o644)
					}
					pr := hc.NewProc(work)
					pr.SetCPU(cpu)
					_, err := pr.Exec(prog)
					pr.Close()
					d := dirDigest(work)
					if err != nil {
						d += fmt.Sprintf(" E%d", hc.ErrCode(err))
					}
					if ref == "" {
						ref, refCPU = d, cpu
					} else if d != ref {
						o.Law("cpu_dependent_files", map[string]interface{}{"program": prog, "cpu_a": refCPU, "cpu_b": cpu, "rows_big": nbig, "digest_a": ref, "digest_b": d})
					}
					_ = os.RemoveAll(work)
				}
			}
			o.Count("dml_runs")
			o.Eval()
			o.NonTrivial(fmt.Sprintf("d%d:%d", di, k))
		}
		if os.Getenv("C12_KEEP") == "" {
			_ = os.RemoveAll(base)
		}
	}
}
