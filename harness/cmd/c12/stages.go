package main

// The clause pipeline of a SELECT over a table large enough that EVERY stage is cut into worker chunks:
// WHERE, GROUP BY, HAVING, DISTINCT, ORDER BY, OFFSET, LIMIT (rows / PERCENT / WITH TIES / FETCH), alone and combined,
// also through a derived table.  The table is a formula (id = i, k = (i*a + b) % m), so the Lean model rebuilds it
// from four numbers and runs the same stage list through Model/Pipeline.runImpl (op `c12.pipe`); the harness
// computes the expected rows itself as well (plain slices: rows[off:off+lim]) and every --cpu value / run is compared
// with both.

import (
	"fmt"
	"math/bits"
	"os"
	"path/filepath"
	"sort"
	"strings"

	"github.com/mithrandie/csvq/lib/query"
	"github.com/mithrandie/csvq/lib/value"

	"verifharness/hc"
)

type prow struct{ id, k int64 }

// one stage of the pipeline, in the token form the model driver reads
type pstage struct {
	kind string // w (WHERE id % a <> b), g (GROUP BY id % a), h (HAVING COUNT(*) > a), d (DISTINCT k-only rows), z (select list 0, k),
	// sk (ORDER BY k, id), sd (ORDER BY id DESC), st (ORDER BY k; rows compared as a set), o (OFFSET a), l (LIMIT a),
	// lp (LIMIT a PERCENT; b = the offset that precedes it), lt (LIMIT a WITH TIES on k; b = preceding offset)
	a, b int64
}

func (s pstage) tok() string {
	switch s.kind {
	case "w", "lp", "lt":
		return fmt.Sprintf("%s:%d:%d", s.kind, s.a, s.b)
	case "d", "z", "sk", "sd", "st":
		return s.kind
	}
	return fmt.Sprintf("%s:%d", s.kind, s.a)
}

const pipeMod = uint64(1)<<61 - 1

func pipeHash(rows []prow) uint64 {
	h := uint64(0)
	for _, r := range rows {
		hi, lo := bits.Mul64(h, 1000003)
		lo, c := bits.Add64(lo, uint64(r.id)*131+uint64(r.k)+1, 0)
		hi += c
		_, h = bits.Div64(hi%pipeMod, lo, pipeMod)
	}
	return h
}

func pipeDigest(rows []prow) string {
	var ends []string
	for i, r := range rows {
		if i < 3 || i >= len(rows)-3 {
			ends = append(ends, fmt.Sprintf("%d/%d", r.id, r.k))
		}
	}
	return fmt.Sprintf("%d %d %s", len(rows), pipeHash(rows), strings.Join(ends, ","))
}

// the harness' own evaluation of a stage list: nothing but loops and slices
func pipeRef(rows []prow, stages []pstage) []prow {
	cur := append([]prow(nil), rows...)
	for _, s := range stages {
		switch s.kind {
		case "w":
			var out []prow
			for _, r := range cur {
				if r.id%s.a != s.b {
					out = append(out, r)
				}
			}
			cur = out
		case "g":
			idx := map[int64]int{}
			var out []prow
			for _, r := range cur {
				key := r.id % s.a
				j, ok := idx[key]
				if !ok {
					j = len(out)
					idx[key] = j
					out = append(out, prow{key, 0})
				}
				out[j].k++
			}
			cur = out
		case "h":
			var out []prow
			for _, r := range cur {
				if r.k > s.a {
					out = append(out, r)
				}
			}
			cur = out
		case "d":
			seen := map[int64]bool{}
			var out []prow
			for _, r := range cur {
				if !seen[r.k] {
					seen[r.k] = true
					out = append(out, prow{r.k, r.k})
				}
			}
			cur = out
		case "z":
			out := make([]prow, len(cur))
			for i, r := range cur {
				out[i] = prow{0, r.k}
			}
			cur = out
		case "sk", "st":
			sort.SliceStable(cur, func(i, j int) bool {
				if cur[i].k != cur[j].k {
					return cur[i].k < cur[j].k
				}
				return cur[i].id < cur[j].id
			})
		case "sd":
			sort.SliceStable(cur, func(i, j int) bool { return cur[i].id > cur[j].id })
		case "o":
			if int(s.a) >= len(cur) {
				cur = nil
			} else {
				cur = cur[s.a:]
			}
		case "l":
			if int(s.a) < len(cur) {
				cur = cur[:s.a]
			}
		case "lp":
			total := int64(len(cur)) + s.b
			lim := (total*s.a + 99) / 100
			if int(lim) < len(cur) {
				cur = cur[:lim]
			}
		case "lt":
			lim := int(s.a)
			if lim < len(cur) && lim > 0 {
				for lim < len(cur) && cur[lim].k == cur[lim-1].k {
					lim++
				}
				cur = cur[:lim]
			} else if lim == 0 {
				cur = nil
			}
		}
	}
	return cur
}

// the SQL text of a stage list; `inner` (possibly empty) is a derived table the outer stages read from
func pipeSQL(inner, outer []pstage) string {
	one := func(from string, stages []pstage) string {
		sel, where, group, having, order, tail := "id, k", "", "", "", "", ""
		fetch, grouped := false, false
		for _, s := range stages {
			switch s.kind {
			case "w":
				where = fmt.Sprintf(" WHERE id %% %d <> %d", s.a, s.b)
			case "g":
				// the key is computed by a derived table (one more slot-wise stage), the outer query groups by it
				from = fmt.Sprintf("(SELECT id %% %d AS g FROM %s%s) u", s.a, from, where)
				where = ""
				sel = "g, COUNT(*) AS c"
				group = " GROUP BY g"
				grouped = true
			case "h":
				having = fmt.Sprintf(" HAVING COUNT(*) > %d", s.a)
			case "d":
				sel = "DISTINCT k AS id, k"
			case "z":
				sel = "0 AS id, k"
			case "sk":
				order = " ORDER BY k, id"
				if grouped {
					order = " ORDER BY c, g"
				}
			case "st":
				order = " ORDER BY k"
			case "sd":
				order = " ORDER BY id DESC"
			case "o":
				if s.a%2 == 1 { // the two spellings of the clause
					tail = fmt.Sprintf(" OFFSET %d ROWS", s.a)
					fetch = true
				} else {
					tail = fmt.Sprintf(" OFFSET %d", s.a)
				}
			case "l":
				if fetch {
					tail += fmt.Sprintf(" FETCH NEXT %d ROWS ONLY", s.a)
				} else if s.a%3 == 0 {
					tail += fmt.Sprintf(" FETCH FIRST %d ROWS ONLY", s.a)
				} else {
					tail = fmt.Sprintf(" LIMIT %d", s.a) + tail
				}
			case "lp":
				if fetch {
					tail += fmt.Sprintf(" FETCH NEXT %d PERCENT ONLY", s.a)
				} else {
					tail = fmt.Sprintf(" LIMIT %d PERCENT", s.a) + tail
				}
			case "lt":
				if fetch {
					tail += fmt.Sprintf(" FETCH NEXT %d ROWS WITH TIES", s.a)
				} else {
					tail = fmt.Sprintf(" LIMIT %d WITH TIES", s.a) + tail
				}
			}
		}
		return "SELECT " + sel + " FROM " + from + where + group + having + order + tail
	}
	if len(inner) == 0 {
		return one("seq", outer)
	}
	return one("("+one("seq", inner)+") t", outer)
}

func viewRows(v *query.View) ([]prow, bool) {
	out := make([]prow, v.RecordLen())
	for i := range out {
		a, oka := value.ToInteger(hc.ViewCell(v, i, 0)).(*value.Integer)
		b, okb := value.ToInteger(hc.ViewCell(v, i, 1)).(*value.Integer)
		if !oka || !okb {
			return nil, false
		}
		out[i] = prow{a.Raw(), b.Raw()}
	}
	return out, true
}

func firstDiff(a, b []prow) map[string]interface{} {
	n := len(a)
	if len(b) < n {
		n = len(b)
	}
	for i := 0; i < n; i++ {
		if a[i] != b[i] {
			return map[string]interface{}{"row": i, "got": fmt.Sprintf("%d/%d", a[i].id, a[i].k), "expected": fmt.Sprintf("%d/%d", b[i].id, b[i].k)}
		}
	}
	return map[string]interface{}{"rows_got": len(a), "rows_expected": len(b)}
}

func runStages(g *hc.Gen, o *hc.Out, scratch string, round int, quick bool) {
	// large enough that a worker is still inside its chunk when the next one starts (a schedule-dependent defect of a
	// stage shows only then), small enough to be loaded 12 times
	n := int64(20000 + g.Intn(20000))
	if !quick {
		n = int64(60000 + g.Intn(60000))
	}
	m := int64(g.Intn(40) + 7)
	a := int64(g.Intn(1000) + 1)
	b := int64(g.Intn(1000))
	rows := make([]prow, n)
	var sb strings.Builder
	sb.WriteString("id,k\n")
	for i := int64(0); i < n; i++ {
		rows[i] = prow{i, (i*a + b) % m}
		fmt.Fprintf(&sb, "%d,%d\n", i, rows[i].k)
	}
	base := filepath.Join(scratch, fmt.Sprintf("c12-seq-%d", round))
	_ = os.MkdirAll(base, 0o755)
	defer os.RemoveAll(base)
	if err := os.WriteFile(filepath.Join(base, "seq.csv"), []byte(sb.String()), 0o644); err != nil {
		panic(err)
	}

	off := func() int64 { return []int64{1, 2, 7, int64(g.Intn(60) + 1), int64(g.Intn(int(n/3)) + 1)}[g.Intn(5)] }
	lim := func(avail int64) int64 { return avail/2 + int64(g.Intn(int(avail/3))) } // what is left is still cut
	wm := int64(g.Intn(5) + 3)
	w := pstage{"w", wm, int64(g.Intn(int(wm)))}
	gm := int64(200 + g.Intn(400))
	gl := int64(5000 + g.Intn(3000)) // the grouped shapes read a LIMITed derived table (the model's bucket lists are quadratic)
	type shape struct{ inner, outer []pstage }
	o1, o2, o3, o4, o5, o6, o7 := off(), off(), off(), off(), off(), off(), off()
	shapes := []shape{
		// every form of the clause alone: a single-source query keeps the source order
		{nil, []pstage{{"o", o1, 0}}},
		{nil, []pstage{{"l", lim(n), 0}}},
		{nil, []pstage{{"o", o2, 0}, {"l", lim(n - o2), 0}}},
		{nil, []pstage{{"lp", int64(g.Intn(60) + 30), 0}}},
		{nil, []pstage{{"o", o3, 0}, {"lp", int64(g.Intn(50) + 40), o3}}},
		// after the other stages, each of them cut as well
		{nil, []pstage{w, {"o", o4, 0}, {"l", lim(n/2 - o4), 0}}},
		{nil, []pstage{{"sd", 0, 0}, {"o", o5, 0}, {"l", lim(n - o5), 0}}},
		{nil, []pstage{w, {"sk", 0, 0}, {"o", o6, 0}}},
		{nil, []pstage{{"st", 0, 0}, {"lt", lim(n), 0}}},
		// ORDER BY k alone leaves the order of equal keys open: which of them an OFFSET drops is not determined, so this
		// shape selects the key only
		{nil, []pstage{{"z", 0, 0}, {"st", 0, 0}, {"o", o7, 0}, {"lt", lim(n - o7), o7}}},
		{[]pstage{{"l", gl, 0}}, []pstage{w, {"g", gm, 0}, {"h", int64(g.Intn(12)), 0}, {"sk", 0, 0}, {"o", int64(g.Intn(20) + 1), 0}, {"l", int64(165 + g.Intn(30)), 0}}},
		{[]pstage{{"o", o4, 0}, {"l", gl, 0}}, []pstage{{"g", gm, 0}, {"o", int64(g.Intn(30) + 1), 0}}},
		{nil, []pstage{{"d", 0, 0}, {"o", int64(g.Intn(3) + 1), 0}}},
		// a derived table that ends in OFFSET / LIMIT feeds further stages
		{[]pstage{{"o", o1, 0}}, []pstage{w, {"l", lim((n - o1) / 2), 0}}},
		{[]pstage{w, {"o", o2, 0}, {"l", lim(n/2 - o2), 0}}, []pstage{{"sd", 0, 0}, {"o", o3 % 100, 0}}},
	}

	type res struct {
		rows []prow
		err  string
	}
	results := make([]map[string]res, len(shapes))     // digest -> rows, per shape
	producers := make([]map[string][]string, len(shapes)) // digest -> the runs that gave it
	order := make([][]string, len(shapes))
	for _, cpu := range cpus {
		for rep := 0; rep < 2; rep++ {
			pr := hc.NewProc(base)
			pr.SetCPU(cpu)
			for si, sh := range shapes {
				sql := pipeSQL(sh.inner, sh.outer)
				v, err := pr.Query(sql)
				var r res
				d := ""
				if err != nil {
					r.err = err.Error()
					d = fmt.Sprintf("E%d", hc.ErrCode(err))
				} else if rs, ok := viewRows(v); !ok {
					d = "not-integers"
				} else {
					if hasKind(sh.outer, "lt") || hasKind(sh.inner, "lt") { // ORDER BY k alone: rows with equal k in any order
						sort.SliceStable(rs, func(i, j int) bool {
							if rs[i].k != rs[j].k {
								return rs[i].k < rs[j].k
							}
							return rs[i].id < rs[j].id
						})
					}
					r.rows = rs
					d = pipeDigest(rs)
				}
				if results[si] == nil {
					results[si] = map[string]res{}
					producers[si] = map[string][]string{}
				}
				if _, seen := results[si][d]; !seen {
					results[si][d] = r
					order[si] = append(order[si], d)
				}
				producers[si][d] = append(producers[si][d], fmt.Sprintf("cpu%d#%d", cpu, rep))
				o.Eval()
			}
			pr.Close()
		}
	}
	for si, sh := range shapes {
		all := append(append([]pstage(nil), sh.inner...), sh.outer...)
		toks := make([]string, len(all))
		for i, s := range all {
			toks[i] = s.tok()
		}
		sql := pipeSQL(sh.inner, sh.outer)
		want := pipeRef(rows, all)
		wantD := pipeDigest(want)
		for _, d := range order[si] {
			// one line per DISTINCT answer the runs gave: the model must agree with every one of them
			o.Context(fmt.Sprintf("query: %s; table seq: id = 0..%d, k = (id*%d + %d) %% %d; answer of runs %s", sql, n-1, a, b, m, strings.Join(producers[si][d], " ")))
			o.Case(fmt.Sprintf("c12.pipe %d %d %d %d %s", n, a, b, m, strings.Join(toks, " ")), d)
			if d != wantD {
				rec := map[string]interface{}{"query": sql, "rows": n, "k_formula": fmt.Sprintf("(id*%d+%d)%%%d", a, b, m), "runs": producers[si][d], "digest": d, "expected": wantD}
				if r := results[si][d]; r.err != "" {
					rec["error"] = r.err
				} else {
					rec["first_difference"] = firstDiff(r.rows, want)
				}
				o.Law("stage_result_differs_from_table_slice", rec)
			}
		}
		if len(order[si]) > 1 {
			d0, d1 := order[si][0], order[si][1]
			o.Law("cpu_dependent_output", map[string]interface{}{"query": sql, "rows": n, "runs_a": producers[si][d0], "runs_b": producers[si][d1], "digest_a": d0, "digest_b": d1,
				"first_difference": firstDiff(results[si][d1].rows, results[si][d0].rows)})
		}
		o.Count("stage_programs")
		o.NonTrivial(fmt.Sprintf("pipe:%s:%d", strings.Join(kinds(all), ""), len(want)/2000))
	}
}

func hasKind(st []pstage, k string) bool {
	for _, s := range st {
		if s.kind == k {
			return true
		}
	}
	return false
}

func kinds(st []pstage) []string {
	out := make([]string, len(st))
	for i, s := range st {
		out[i] = s.kind
	}
	return out
}
