// Stream c08: the statement sequences of c05, but every step first runs statements with an error injected
// at a chosen record (division by zero in the k-th record's SET / VALUES / DEFAULT / WHERE expression or in a
// sub-query, wrong length of the k-th VALUES row, unknown field, a record written twice, duplicate / unknown
// column in ALTER and CREATE, cancellation at the k-th ctx.Err() call).  Laws checked on the implementation
// alone: `SELECT *` of EVERY table is identical before and after a failed statement, the uncommitted marks are
// unchanged, and after COMMIT the files are byte-identical to those of a control run (same repository, same
// statements without the failed ones).  The same op lines drive the Lean model (`stmtImpl`).
package main

import (
	"fmt"
	"os"

	"verifharness/dml"
	"verifharness/hc"
)

func main() { hc.Main(run) }

func run(seed int64, n int, dir string, _ []string) {
	g := hc.NewGen(seed)
	o := hc.NewOut(dir)
	defer o.Close()
	base := os.Getenv("VERIF_SCRATCH")
	if base == "" {
		base = os.TempDir()
	}
	root, err := os.MkdirTemp(base, fmt.Sprintf("c08-%d-", seed))
	if err != nil {
		panic(err)
	}
	defer os.RemoveAll(root)

	// corpus: cancellation at every ctx.Err() call of two-target UPDATE / DELETE statements, for every seed
	dml.CancelCorpus(g, o, root)
	// corpus: failures that come after the source query was evaluated, with discarded values poisoned
	dml.DiscardCorpus(g, o, root)
	// corpus: COMMIT fails at the k-th context check -> shorter data -> COMMIT again, files against a control run
	dml.CommitCorpus(g, o, root)
	// corpus: cancellation at every context check incl. those of the LOADING of 40- and 100-record tables
	dml.LoadCancelCorpus(g, o, root)
	// corpus: CREATE TABLE failing while tables are open (case-insensitive name collision, existing file, …)
	dml.CreateCorpus(g, o, root)
	// corpus: failing ALTER TABLE SET <attribute> on tables of every format; attribute listing, then COMMIT bytes
	dml.AttrCorpus(g, o, root)
	// corpus: tables of every file format with their attributes × every statement kind that can fail part-way, then a later change + COMMIT
	dml.FormatCorpus(g, o, root)
	// corpus: the witness of the known finding "a failing reload for update drops the cached view and its attributes"
	dml.DroppedCacheWitness(g, o, root)
	// corpus: first access through a table function with non-default options, then plain names in failing / succeeding statements
	dml.LoadFuncCorpus(g, o, root)
	// corpus: statements nested through failing user-defined functions; SELECTs failing in every clause position
	dml.NestedFailCorpus(g, o, root)

	stmts := 0
	scanned := false
	for seq := 0; stmts < n; seq++ {
		r := dml.NewSequence(g, o, root, seq, true, 400)
		r.OnlyFailureLaws = true
		r.SessionSetup(fmt.Sprintf("s%d", seq))
		r.Wraps = 20
		r.NumRefs = 15
		// every second sequence runs with the discarded value objects poisoned (lib/value, build tag verif)
		r.Poison = dml.SetPoison(seq%2 == 1) && seq%2 == 1
		if r.Poison {
			o.Count("sequences_with_poison")
		}
		L := 1 + g.Intn(8)
		abandon := false
		// cancellation at EVERY position of a multi-target statement (the first time the tables allow it, and
		// then for one sequence in six): the statement is re-run with the context failing at the 1st, 2nd, …
		// ctx.Err() call until it completes; after every failed attempt nothing may have changed
		if len(r.Tabs) >= 2 && (!scanned || g.Intn(8) == 0) {
			var st *dml.Stmt
			want := []string{"deletem", "updatem"}[g.Intn(2)]
			var fallback *dml.Stmt
			for tries := 0; tries < 400 && st == nil; tries++ {
				c := r.Gen(false)
				if c != nil && (c.Kind == "deletem" || c.Kind == "updatem") && len(c.Targets) == 2 &&
					r.Tab(c.Targets[0]).NextID <= 8 && r.Tab(c.Targets[1]).NextID <= 8 {
					if c.Kind == want {
						st = c
					} else if fallback == nil {
						fallback = c
					}
				}
			}
			if st == nil {
				st = fallback
			}
			if st != nil {
				scanned = true
				saved := r.CPU
				r.SetCPU(1)
				k, _, failed := r.ScanCancel(st, 3000, false)
				stmts += k + 1
				abandon = failed
				r.SetCPU(saved)
			}
		}
		if abandon {
			// one defect, one report: the tables of this sequence no longer agree with the control run
			r.Close()
			continue
		}
	steps:
		for i := 0; i < L; i++ {
			nf := 1 + g.Intn(2)
			for k := 0; k <= nf; k++ {
				var st *dml.Stmt
				var cancelAt int64
				switch {
				case k == nf:
					st = r.Gen(false) // the step's regular statement
				case g.Intn(6) == 0:
					st = r.Gen(false)
					cancelAt = int64(1 + g.Intn(40))
					if g.Intn(3) == 0 {
						cancelAt = int64(1 + g.Intn(900))
					}
				default:
					st = r.Gen(true)
				}
				if st == nil {
					continue
				}
				out := r.Exec(st, cancelAt)
				stmts++
				fault := "none"
				if cancelAt > 0 {
					fault = "cancel"
				} else if st.Fault != nil {
					fault = st.Fault.Kind
				}
				res := "ok"
				if out.Err != nil {
					res = fmt.Sprintf("E%d", dml.ErrNum(out.Err))
				}
				store, rows := "none", 0
				if len(st.Targets) > 0 {
					t := r.Tab(st.Targets[0])
					rows = t.NextID
					store = "temp"
					if t.File {
						store = "file"
					}
				}
				o.Count("stmt:" + st.Kind)
				o.Count("fault:" + fault)
				o.Count("result:" + res)
				o.Count("store:" + store)
				o.Count(fmt.Sprintf("rows~%d", band(rows)))
				if out.Err != nil {
					frow := -1
					if st.Fault != nil {
						frow = st.Fault.Row
					}
					pos := "mid"
					switch {
					case frow <= 0:
						pos = "first"
					case frow >= rows-1:
						pos = "last"
					}
					o.NonTrivial(fmt.Sprintf("%s:%s:%s:%s:%d:%s:cpu%d", st.Kind, fault, res, store, band(rows), pos, r.CPU))
				}
				if out.Err == nil {
					r.TwinExec(st)
				}
				r.AfterStdin(out)
				if len(out.Failed) > 0 {
					// one defect, one report: drop the rest of this sequence
					abandon = true
					break steps
				}
			}
			if g.Intn(4) == 0 {
				r.CompareTwin(fmt.Sprintf("step %d", i))
				if g.Intn(3) == 0 {
					// a COMMIT that fails at a random context check, then shorter data, then COMMIT again
					if _, law := r.FailedCommitEpisode(int64(1 + g.Intn(30))); law {
						abandon = true
						break steps
					}
				} else {
					r.CommitOrRollback()
				}
			}
		}
		if !abandon {
			r.CompareTwin("end of sequence")
			r.Commit()
		}
		r.Close()
	}
	dml.SetPoison(false)
}

func band(n int) int {
	switch {
	case n == 0:
		return 0
	case n <= 3:
		return 3
	case n <= 20:
		return 20
	case n <= 100:
		return 100
	}
	return 400
}
