package main

// Session flags that must not change what a transaction DOES.  csvq's manual describes --quiet, --stats, --color,
// --format (of query results), --count-diacritical-sign, --count-format-code, --east-asian-encoding, --json-escape and
// --without-null as options of what is PRINTED.  They are a dimension of the histories: set on the command line
// (in-process: Transaction.SetFlag before the first statement) and switched by SET @@… in the middle of a
// history.  Law output_flag_changed_transaction_state: the bytes in the directory after every statement, the
// temporary tables (STDIN included) after every COMMIT / ROLLBACK and the final state equal those of the SAME
// history run with every flag at its default — in-process statement by statement, and as real csvq processes
// (the temporary tables are printed by the procedure itself after every COMMIT / ROLLBACK).

import (
	"bytes"
	"fmt"
	"io"
	"os"
	"os/exec"
	"path/filepath"
	"regexp"
	"sort"
	"strings"

	"verifharness/hc"
)

type outFlag struct {
	name          string      // the name behind @@
	cli           []string    // the command-line spelling that switches it on
	on            interface{} // the value Transaction.SetFlag takes for "on"
	sqlOn, sqlOff string
}

// the options the manual describes as options of the OUTPUT (the six write options that are also the attributes of a
// created table are C01Session's dimension; STRIP_ENDING_LINE_BREAK is read by COMMIT on purpose)
var outFlags = []outFlag{
	{"QUIET", []string{"--quiet"}, true, "TRUE", "FALSE"},
	{"STATS", []string{"--stats"}, true, "TRUE", "FALSE"},
	{"COLOR", []string{"--color"}, true, "TRUE", "FALSE"},
	{"FORMAT", []string{"--format", "JSON"}, "JSON", "JSON", "TEXT"},
	{"FORMAT", []string{"--format", "CSV"}, "CSV", "CSV", "TEXT"},
	{"FORMAT", []string{"--format", "BOX"}, "BOX", "BOX", "TEXT"},
	{"COUNT_DIACRITICAL_SIGN", []string{"--count-diacritical-sign"}, true, "TRUE", "FALSE"},
	{"COUNT_FORMAT_CODE", []string{"--count-format-code"}, true, "TRUE", "FALSE"},
	{"EAST_ASIAN_ENCODING", []string{"--east-asian-encoding"}, true, "TRUE", "FALSE"},
	{"JSON_ESCAPE", []string{"--json-escape", "HEX"}, "HEX", "HEX", "BACKSLASH"},
	{"WITHOUT_NULL", []string{"--without-null"}, true, "TRUE", "FALSE"},
}

// the six write options: attributes of a table the procedure CREATES (C01Session's dimension) — for a procedure that
// creates no table they, too, decide only what is printed: an existing table is rewritten with its own attributes
var writeFlags = []outFlag{
	{"WITHOUT_HEADER", []string{"--without-header"}, true, "TRUE", "FALSE"},
	{"ENCLOSE_ALL", []string{"--enclose-all"}, true, "TRUE", "FALSE"},
	{"PRETTY_PRINT", []string{"--pretty-print"}, true, "TRUE", "FALSE"},
	{"LINE_BREAK", []string{"--line-break", "CRLF"}, "CRLF", "CRLF", "LF"},
	{"WRITE_ENCODING", []string{"--write-encoding", "SJIS"}, "SJIS", "SJIS", "UTF8"},
	{"WRITE_DELIMITER", []string{"--write-delimiter", ";"}, ";", "';'", "','"},
}

func (f outFlag) set(on bool) string {
	v := f.sqlOff
	if on {
		v = f.sqlOn
	}
	return fmt.Sprintf("SET @@%s TO %s;", f.name, v)
}

// pickOutFlag: QUIET is the flag the commit code itself reads, it is drawn more often than the others
func pickOutFlag(g *hc.Gen) outFlag {
	if g.Intn(3) == 0 {
		return outFlags[0]
	}
	return outFlags[g.Intn(len(outFlags))]
}

var reAnsi = regexp.MustCompile("\x1b\\[[0-9;]*m")

// dirBytes: every entry of the directory with its bytes (control files by name only: their content is a process id / time)
func dirBytes(dir string) string {
	ents, _ := os.ReadDir(dir)
	var st []string
	for _, e := range ents {
		if e.IsDir() {
			st = append(st, e.Name()+"/")
			continue
		}
		if strings.HasPrefix(e.Name(), ".") {
			st = append(st, e.Name())
			continue
		}
		b, _ := os.ReadFile(filepath.Join(dir, e.Name()))
		st = append(st, e.Name()+"="+hc.Hex(string(b)))
	}
	sort.Strings(st)
	return strings.Join(st, " ")
}

type flagStmt struct {
	sql  string
	flag bool // a SET @@… of an output flag: present in the variant only
	end  bool // COMMIT / ROLLBACK: the temporary tables are observed behind it
}

var (
	reFlFileIns = regexp.MustCompile("^INSERT INTO `f(\\d)\\.csv` \\(v\\) VALUES \\((\\d+)\\);$")
	reFlFileUpd = regexp.MustCompile("^UPDATE `f(\\d)\\.csv` SET v = v \\+ 1;$")
	reFlFileDel = regexp.MustCompile("^DELETE FROM `f(\\d)\\.csv` WHERE v = (\\d+);$")
	reFlTmpIns  = regexp.MustCompile(`^INSERT INTO (tt\d|STDIN) \(v\) VALUES \((\d+)\);$`)
	reFlTmpUpd  = regexp.MustCompile(`^UPDATE (tt\d|STDIN) SET v = v \+ 1;$`)
	reFlTmpDel  = regexp.MustCompile(`^DELETE FROM (tt\d|STDIN) WHERE v = (\d+);$`)
	reFlTmpRen  = regexp.MustCompile(`^ALTER TABLE tt(\d) RENAME h(\d) TO h\d;$`)
	reFlDecl    = regexp.MustCompile(`^DECLARE tt(\d) VIEW \(v, h0\);$`)
	reFlSet     = regexp.MustCompile(`^SET @@(\w+) TO (.+);$`)
)

// flagModelLine: the op line of the session machine for a statement of a flag history
func flagModelLine(sql string) string {
	tnum := func(t string) string {
		if t == "STDIN" {
			return "2"
		}
		return t[2:]
	}
	switch {
	case sql == "COMMIT;":
		return "c01.commit"
	case sql == "ROLLBACK;":
		return "c01.rollback"
	case sql == "CREATE TABLE `f2.csv` (v);":
		return "c01.create 2"
	}
	if m := reFlFileIns.FindStringSubmatch(sql); m != nil {
		return fmt.Sprintf("c01.dml %s append %s", m[1], m[2])
	}
	if m := reFlFileUpd.FindStringSubmatch(sql); m != nil {
		return fmt.Sprintf("c01.dml %s incr 0", m[1])
	}
	if m := reFlFileDel.FindStringSubmatch(sql); m != nil {
		return fmt.Sprintf("c01.dml %s delwhere %s", m[1], m[2])
	}
	if m := reFlTmpIns.FindStringSubmatch(sql); m != nil {
		return fmt.Sprintf("c01.dmltemp %s append %s", tnum(m[1]), m[2])
	}
	if m := reFlTmpUpd.FindStringSubmatch(sql); m != nil {
		return fmt.Sprintf("c01.dmltemp %s incr 0", tnum(m[1]))
	}
	if m := reFlTmpDel.FindStringSubmatch(sql); m != nil {
		return fmt.Sprintf("c01.dmltemp %s delwhere %s", tnum(m[1]), m[2])
	}
	if m := reFlTmpRen.FindStringSubmatch(sql); m != nil {
		return fmt.Sprintf("c01.dmltemp %s renhdr %s", m[1], m[2])
	}
	if m := reFlDecl.FindStringSubmatch(sql); m != nil {
		return "c01.dtemp " + m[1]
	}
	if m := reFlSet.FindStringSubmatch(sql); m != nil {
		return fmt.Sprintf("c01.setflag %s %s", m[1], hc.Hex(m[2]))
	}
	panic("flag history: no model line for " + sql)
}

const flagSnap = "(SELECT COALESCE(LISTAGG(v, ','), 'e') FROM %s)"

// flagHistories: `rounds` generated histories, each run with the flags at their defaults and with output flags set
func flagHistories(g *hc.Gen, o *hc.Out, scratch, bin string, rounds int) {
	for r := 0; r < rounds; r++ {
		oneFlagHistory(g, o, scratch, bin, r)
	}
}

func oneFlagHistory(g *hc.Gen, o *hc.Out, scratch, bin string, r int) {
	files := [][]int{{1, 2, 3}, {4}}
	stdin := ""
	if g.Intn(2) == 0 {
		stdin = "v\n7\n8\n"
	}
	temps := []string{"tt0", "tt1"}
	declared := map[string]bool{}
	if stdin != "" {
		temps = append(temps, "STDIN")
		declared["STDIN"] = true
	}
	// ---- the history
	var prog []flagStmt
	var cli []outFlag
	allowCreate := g.Intn(2) == 0
	pick := func() outFlag {
		if !allowCreate && g.Intn(3) == 0 {
			return writeFlags[g.Intn(len(writeFlags))]
		}
		return pickOutFlag(g)
	}
	for k, n := 0, g.Intn(3); k < n; k++ {
		cli = append(cli, pick())
	}
	live := map[string]outFlag{} // flags switched on by SET and not yet switched back
	created := false
	hdr := map[string]int{}
	steps := 5 + g.Intn(12)
	for s := 0; s < steps; s++ {
		f := fmt.Sprintf("`f%d.csv`", g.Intn(2))
		if created && g.Intn(3) == 0 {
			f = "`f2.csv`"
		}
		t := temps[g.Intn(len(temps))]
		switch c := g.Intn(24); {
		case c < 3:
			prog = append(prog, flagStmt{sql: fmt.Sprintf("INSERT INTO %s (v) VALUES (%d);", f, g.Intn(9))})
		case c < 4:
			prog = append(prog, flagStmt{sql: fmt.Sprintf("UPDATE %s SET v = v + 1;", f)})
		case c < 5:
			prog = append(prog, flagStmt{sql: fmt.Sprintf("DELETE FROM %s WHERE v = %d;", f, g.Intn(9))})
		case c < 6:
			if !created && allowCreate {
				prog = append(prog, flagStmt{sql: "CREATE TABLE `f2.csv` (v);"})
				created = true
			}
		case c < 8:
			if t != "STDIN" && !declared[t] {
				prog = append(prog, flagStmt{sql: fmt.Sprintf("DECLARE %s VIEW (v, h0);", t)})
				declared[t] = true
			}
		case c < 13:
			if declared[t] {
				prog = append(prog, flagStmt{sql: fmt.Sprintf("INSERT INTO %s (v) VALUES (%d);", t, g.Intn(9))})
			}
		case c < 14:
			if declared[t] {
				prog = append(prog, flagStmt{sql: fmt.Sprintf("UPDATE %s SET v = v + 1;", t)})
			}
		case c < 15:
			if declared[t] {
				prog = append(prog, flagStmt{sql: fmt.Sprintf("DELETE FROM %s WHERE v = %d;", t, g.Intn(9))})
			}
		case c < 16:
			if declared[t] && t != "STDIN" {
				// fails after a ROLLBACK took the earlier name back: identically in both runs
				prog = append(prog, flagStmt{sql: fmt.Sprintf("ALTER TABLE %s RENAME h%d TO h%d;", t, hdr[t], 1-hdr[t])})
				hdr[t] = 1 - hdr[t]
			}
		case c < 18:
			prog = append(prog, flagStmt{sql: "COMMIT;", end: true})
		case c < 20:
			prog = append(prog, flagStmt{sql: "ROLLBACK;", end: true})
			created = false
		default:
			fl := pick()
			if old, ok := live[fl.name]; ok && g.Intn(2) == 0 {
				prog = append(prog, flagStmt{sql: old.set(false), flag: true})
				delete(live, fl.name)
			} else {
				prog = append(prog, flagStmt{sql: fl.set(true), flag: true})
				live[fl.name] = fl
			}
		}
	}
	// a COMMIT … change … ROLLBACK tail in half of the histories: the shape in which a restore point matters
	if g.Intn(2) == 0 {
		for _, t := range temps {
			if declared[t] && g.Intn(2) == 0 {
				prog = append(prog, flagStmt{sql: fmt.Sprintf("INSERT INTO %s (v) VALUES (%d);", t, 10+g.Intn(9))})
			}
		}
		prog = append(prog, flagStmt{sql: "COMMIT;", end: true})
		for _, t := range temps {
			if declared[t] {
				prog = append(prog, flagStmt{sql: fmt.Sprintf("INSERT INTO %s (v) VALUES (%d);", t, 20+g.Intn(9))})
			}
		}
		prog = append(prog, flagStmt{sql: fmt.Sprintf("INSERT INTO `f0.csv` (v) VALUES (%d);", 20+g.Intn(9))})
		prog = append(prog, flagStmt{sql: "ROLLBACK;", end: true})
	}
	ending := g.Pick("normal", "normal", "error", "exit", "rollback")
	anyFlag := len(cli) > 0
	for _, st := range prog {
		anyFlag = anyFlag || st.flag
	}
	if !anyFlag {
		cli = append(cli, outFlags[0])
	}
	var names []string
	for _, f := range cli {
		names = append(names, strings.Join(f.cli, " "))
	}
	describe := func(withFlags bool) string {
		var sb strings.Builder
		for _, st := range prog {
			if st.flag && !withFlags {
				continue
			}
			sb.WriteString(st.sql + " ")
		}
		return strings.TrimSpace(sb.String())
	}

	// ---- in-process, statement by statement
	inproc := func(withFlags bool) []string {
		d := filepath.Join(scratch, fmt.Sprintf("c01-fl-%d-%v", r, withFlags))
		_ = os.RemoveAll(d)
		_ = os.MkdirAll(d, 0o755)
		defer os.RemoveAll(d)
		for p, xs := range files {
			_ = os.WriteFile(filepath.Join(d, fmt.Sprintf("f%d.csv", p)), fileBytes(xs), 0o644)
		}
		pr := hc.NewProc(d)
		defer pr.Close()
		pr.P.Tx.AutoCommit = false
		if stdin != "" {
			_ = pr.P.Tx.Session.SetStdin(io.NopCloser(strings.NewReader(stdin)))
		}
		if withFlags {
			for _, f := range cli {
				if err := pr.P.Tx.SetFlag(f.name, f.on); err != nil {
					o.Law("harness_statement_failed", map[string]interface{}{"flag": f.name, "error": err.Error()})
				}
			}
		}
		tempsNow := func() string {
			var ts []string
			for _, t := range temps {
				v, err := pr.Query("SELECT * FROM " + t)
				if err != nil {
					ts = append(ts, t+":?")
					continue
				}
				h := ""
				for _, c := range v.Header {
					h += c.Column + "."
				}
				ts = append(ts, t+":"+h+rowsOf(v.RecordLen(), func(i int) string { return hc.StrOf(hc.ViewCell(v, i, 0)) }))
			}
			return strings.Join(ts, ";")
		}
		// the run WITH flags is also a history of the session machine: every statement goes to the model (the flag steps
		// as `c01.setflag`, which the model answers with an unchanged state), observed as in the main stream
		tr := &tracker{}
		tr.exists[0], tr.exists[1] = true, true
		model := func(line, got string) {
			st := got + "|" + diskState(d, tr) + "|" + tempState(pr, tr) // (queried in both runs: the runs stay alike)
			if withFlags {
				if got == "" {
					st = strings.TrimPrefix(st, "|")
				}
				o.Case(line, st)
			}
		}
		model("c01.reset 1,2,3 4 - -", "")
		if stdin != "" {
			tr.temp[2] = true
			model("c01.dstdin 7,8", "ok")
		}
		var obs []string
		for _, st := range prog {
			if st.flag && !withFlags {
				continue
			}
			_, err := pr.Exec(st.sql)
			got := "ok"
			if err != nil {
				got = "failed"
			}
			line := flagModelLine(st.sql)
			fs := strings.Fields(line)
			switch fs[0] {
			case "c01.dml":
				tr.locked[int(fs[1][0]-'0')] = true
			case "c01.create":
				if !tr.exists[2] {
					tr.exists[2], tr.created[2], tr.locked[2] = true, true, true
				}
			case "c01.dtemp":
				if err == nil {
					tr.temp[int(fs[1][0]-'0')] = true
				}
			case "c01.commit":
				tr.endTx(true)
			case "c01.rollback":
				tr.endTx(false)
			}
			model(line, got)
			if st.flag {
				if err != nil {
					o.Law("harness_statement_failed", map[string]interface{}{"statement": st.sql, "error": err.Error()})
				}
				continue // its own observation point does not exist in the run without flags
			}
			ob := fmt.Sprintf("%v|%s", err == nil, dirBytes(d))
			if st.end {
				ob += "|" + tempsNow()
			}
			obs = append(obs, ob)
		}
		how := ending
		switch ending {
		case "normal":
			_ = pr.P.AutoCommit(pr.Ctx)
		case "rollback":
			_, _ = pr.Exec("ROLLBACK;")
			how = "error"
			_ = pr.P.AutoRollback()
		default:
			_ = pr.P.AutoRollback()
		}
		obs = append(obs, "end:"+tempsNow())
		_ = pr.P.ReleaseResourcesWithErrors()
		obs = append(obs, "released:"+dirBytes(d))
		tr.endTx(ending == "normal")
		model("c01.end "+how, "")
		return obs
	}
	base, variant := inproc(false), inproc(true)
	if len(base) != len(variant) {
		o.Law("harness_statement_failed", map[string]interface{}{"what": "observation counts differ", "program": describe(true)})
	} else {
		k := 0
		var stmts []string
		for _, st := range prog {
			if st.flag {
				continue
			}
			stmts = append(stmts, st.sql)
		}
		stmts = append(stmts, "(ending: "+ending+")", "(resources released)")
		for i := range base {
			if base[i] != variant[i] {
				o.Law("output_flag_changed_transaction_state", map[string]interface{}{
					"level": "in-process", "flags_at_start": names, "program_with_flags": describe(true), "program_without": describe(false),
					"stdin": stdin, "ending": ending, "first_difference_after": stmts[i], "with_flags": variant[i], "without_flags": base[i]})
				break
			}
			k++
		}
		_ = k
	}
	o.Eval()
	o.Count("flag_histories")
	for _, f := range cli {
		o.Count("flag_cli:" + f.name)
	}
	for _, st := range prog {
		if st.flag {
			o.Count("flag_set:" + strings.Fields(st.sql)[1])
		}
	}
	o.NonTrivial(fmt.Sprintf("flags:%s:%d:%s", ending, len(prog), strings.Join(names, "+")))

	// ---- the same history as real processes (every second one)
	if bin == "" || r%2 != 0 {
		return
	}
	proc := func(withFlags bool) string {
		d := filepath.Join(scratch, fmt.Sprintf("c01-flp-%d-%v", r, withFlags))
		_ = os.RemoveAll(d)
		_ = os.MkdirAll(d, 0o755)
		defer os.RemoveAll(d)
		for p, xs := range files {
			_ = os.WriteFile(filepath.Join(d, fmt.Sprintf("f%d.csv", p)), fileBytes(xs), 0o644)
		}
		var text strings.Builder
		n := 0
		decl := map[string]bool{"STDIN": stdin != ""}
		for _, st := range prog {
			if st.flag && !withFlags {
				continue
			}
			if strings.HasPrefix(st.sql, "ALTER TABLE tt") {
				continue // a failing statement ends a process: the renamed column is the in-process runs' business
			}
			if strings.HasPrefix(st.sql, "DECLARE ") {
				decl[strings.Fields(st.sql)[1]] = true
			}
			text.WriteString(st.sql + " ")
			if st.end {
				// the procedure prints its temporary tables itself
				var parts []string
				for _, t := range temps {
					if decl[t] {
						parts = append(parts, fmt.Sprintf("'%s=' || "+flagSnap, t, t))
					}
				}
				if len(parts) > 0 {
					text.WriteString(fmt.Sprintf("PRINT 'SNAP%d:' || %s; ", n, strings.Join(parts, " || ';' || ")))
				}
				n++
			}
		}
		switch ending {
		case "error":
			text.WriteString("SELECT 1 / 0 FROM DUAL;")
		case "exit":
			text.WriteString("EXIT;")
		case "rollback":
			text.WriteString("ROLLBACK;")
		}
		args := []string{"--repository", d}
		if withFlags {
			for _, f := range cli {
				args = append(args, f.cli...)
			}
		}
		c := exec.Command(bin, append(args, text.String())...)
		if stdin != "" {
			c.Stdin = strings.NewReader(stdin)
		}
		c.Dir = d
		c.Env = append(os.Environ(), "HOME="+d)
		var ob bytes.Buffer
		c.Stdout, c.Stderr = &ob, &ob
		err := c.Run()
		var snaps []string
		for _, l := range strings.Split(reAnsi.ReplaceAllString(ob.String(), ""), "\n") {
			if i := strings.Index(l, "SNAP"); i >= 0 {
				snaps = append(snaps, strings.Trim(l[i:], "'\" \r"))
			}
		}
		if strings.Contains(ob.String(), "Fatal Error") || strings.Contains(ob.String(), "panic:") {
			o.Law("internal_error", map[string]interface{}{"program": text.String(), "output": ob.String()})
		}
		return fmt.Sprintf("exit_ok=%v|%s|%s", err == nil, strings.Join(snaps, " "), dirBytes(d))
	}
	pb, pv := proc(false), proc(true)
	if pb != pv {
		o.Law("output_flag_changed_transaction_state", map[string]interface{}{
			"level": "process", "flags_on_command_line": names, "program_with_flags": describe(true), "program_without": describe(false),
			"stdin": stdin, "ending": ending, "with_flags": pv, "without_flags": pb})
	}
	if !strings.Contains(pb, "SNAP") && strings.Contains(describe(false), "DECLARE") && strings.Contains(describe(false), "COMMIT") {
		o.Count("flag_process_runs_without_snapshot")
	}
	o.Eval()
	o.Count("flag_process_runs")
}
