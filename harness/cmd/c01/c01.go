package main

// Histories of one transaction over table files and temporary tables, with commits by "another
// process" (the harness rewrites a file while the transaction holds no lock on it), executed statement
// by statement through the REAL processor; after every statement the SELECT result and the bytes on
// disk are compared with the session machine of lean/Csvq/Model/Session.lean.  With VERIF_CSVQ set the
// same programs are also run as real csvq processes with every kind of ending.

import (
	"bytes"
	"fmt"
	"io"
	"os"
	"os/exec"
	"path/filepath"
	"regexp"
	"runtime"
	"strconv"
	"strings"
	"syscall"

	"verifharness/hc"
)

func main() { hc.Main(run) }

const nFiles, nTemps = 4, 3 // temporary tables tt0, tt1 and — number 2 — the STDIN table

func tempName(t int) string {
	if t == 2 {
		return "STDIN"
	}
	return fmt.Sprintf("tt%d", t)
}

func tbl(xs []int) string {
	if len(xs) == 0 {
		return "e"
	}
	s := make([]string, len(xs))
	for i, x := range xs {
		s[i] = strconv.Itoa(x)
	}
	return strings.Join(s, ",")
}

func fileBytes(xs []int) []byte {
	var sb strings.Builder
	sb.WriteString("v\n")
	for _, x := range xs {
		fmt.Fprintf(&sb, "%d\n", x)
	}
	return []byte(sb.String())
}

// readFile renders a table file as "<line break>/<rows>": 0 = LF, 1 = CRLF, 2 = CR — the file attribute the
// histories change with ALTER TABLE … SET LINE_BREAK
func readFile(path string) string {
	b, err := os.ReadFile(path)
	if err != nil {
		return "-"
	}
	if len(b) == 0 {
		return "empty-file"
	}
	txt, attr := string(b), 0
	switch {
	case strings.Contains(txt, "\r\n"):
		attr = 1
		if strings.Count(txt, "\r\n") != strings.Count(txt, "\n") || strings.Count(txt, "\r\n") != strings.Count(txt, "\r") {
			return "garbled:" + hc.Hex(string(b))
		}
		txt = strings.ReplaceAll(txt, "\r\n", "\n")
	case strings.Contains(txt, "\r"):
		attr = 2
		if strings.Contains(txt, "\n") {
			return "garbled:" + hc.Hex(string(b))
		}
		txt = strings.ReplaceAll(txt, "\r", "\n")
	}
	lines := strings.Split(strings.TrimRight(txt, "\n"), "\n")
	if lines[0] != "v" {
		return "garbled:" + hc.Hex(string(b))
	}
	if len(lines) == 1 {
		return strconv.Itoa(attr) + "/e"
	}
	return strconv.Itoa(attr) + "/" + strings.Join(lines[1:], ",")
}

type tracker struct {
	locked  [nFiles]bool // FOR UPDATE / DML / CREATE since the last commit or rollback
	created [nFiles]bool
	exists  [nFiles]bool
	temp    [nTemps]bool
}

func (t *tracker) endTx(commit bool) {
	for p := 0; p < nFiles; p++ {
		if t.created[p] && !commit {
			t.exists[p] = false
		}
		t.locked[p], t.created[p] = false, false
	}
}

func diskState(dir string, tr *tracker) string {
	fs := make([]string, nFiles)
	for p := 0; p < nFiles; p++ {
		if tr.created[p] {
			if _, err := os.Stat(filepath.Join(dir, fmt.Sprintf("f%d.csv", p))); err == nil {
				fs[p] = "new"
			} else {
				fs[p] = "-"
			}
			continue
		}
		fs[p] = readFile(filepath.Join(dir, fmt.Sprintf("f%d.csv", p)))
	}
	// the tables this transaction holds for update, as visible to every other process: their lock files
	var held []string
	for p := 0; p < nFiles; p++ {
		if _, err := os.Stat(filepath.Join(dir, fmt.Sprintf(".f%d.csv.lock", p))); err == nil {
			held = append(held, strconv.Itoa(p))
		}
	}
	locks := "-"
	if len(held) > 0 {
		locks = strings.Join(held, ",")
	}
	return "disk:" + strings.Join(fs, ";") + "#L:" + locks
}

// inodeOf identifies the file object behind a table path: a COMMIT that rewrites a table renames a new
// file over it, so the inode changes exactly when the table was written.
func inodeOf(dir string, p int) uint64 {
	fi, err := os.Stat(filepath.Join(dir, fmt.Sprintf("f%d.csv", p)))
	if err != nil {
		return 0
	}
	if st, ok := fi.Sys().(*syscall.Stat_t); ok {
		return st.Ino
	}
	return 0
}

var rePos = regexp.MustCompile(`\[L:\d+ C:\d+\] `)

var reChanged = regexp.MustCompile(`(\d+) records? (?:inserted|updated|deleted|replaced) on "[^"]*f(\d)\.csv"`)

func tempState(pr *hc.Proc, tr *tracker) string {
	ts := make([]string, nTemps)
	for t := 0; t < nTemps; t++ {
		ts[t] = "-"
		if tr.temp[t] {
			v, err := pr.Query("SELECT * FROM " + tempName(t))
			if err != nil {
				ts[t] = "?" + err.Error()
				continue
			}
			// the header is part of the table: `h<k>` = the name its second column has now (STDIN has none: h0)
			hdr := "h0"
			if len(v.Header) > 1 {
				hdr = v.Header[1].Column
			}
			ts[t] = hdr + "/" + rowsOf(v.RecordLen(), func(i int) string { return hc.StrOf(hc.ViewCell(v, i, 0)) })
		}
	}
	return "temps:" + strings.Join(ts, ";")
}

func rowsOf(n int, cell func(int) string) string {
	if n == 0 {
		return "e"
	}
	s := make([]string, n)
	for i := range s {
		s[i] = cell(i)
	}
	return strings.Join(s, ",")
}

type op struct {
	line string // model op line
	sql  string // csvq statement ("" for other / end)
	kind string
	p    int
	data []int
}

func dmlSQL(target, kind string, arg int) string {
	switch kind {
	case "append":
		return fmt.Sprintf("INSERT INTO %s (v) VALUES (%d);", target, arg)
	case "delwhere":
		return fmt.Sprintf("DELETE FROM %s WHERE v = %d;", target, arg)
	case "incr":
		return fmt.Sprintf("UPDATE %s SET v = v + 1;", target)
	case "setlb":
		return fmt.Sprintf("ALTER TABLE %s SET LINE_BREAK TO %s;", target, []string{"LF", "CRLF"}[arg%2]) // CR is left out: csvq cannot read CR files back (known finding F24 of C02)
	case "renhdr":
		return fmt.Sprintf("ALTER TABLE %s RENAME h%d TO h%d;", target, arg%2, 1-arg%2)
	case "incrfail":
		// fails at the first row holding arg — after the rows in front of it were already assigned
		return fmt.Sprintf("UPDATE %s SET v = CASE WHEN v = %d THEN 1 / (v - v) ELSE v + 1 END;", target, arg)
	}
	return fmt.Sprintf("UPDATE %s SET v = 1 / (v - v);", target)
}

func run(seed int64, n int, dir string, _ []string) {
	g := hc.NewGen(seed)
	o := hc.NewOut(dir)
	defer o.Close()
	scratch := os.Getenv("VERIF_SCRATCH")
	if scratch == "" {
		scratch = os.TempDir()
	}
	bin := os.Getenv("VERIF_CSVQ")

	if bin != "" && os.Getenv("VERIF_RELOAD") == "only" {
		lockedReload(o, bin, scratch)
		bin = ""
	}
	if bin != "" {
		finalisationCorpus(o, bin, scratch)
		headerlessCorpus(o, bin, scratch)
		endingPlacement(o, bin, scratch)
		createdCorpus(o, bin, scratch)
		sessionCorpus(o, bin, scratch)
		if os.Getenv("VERIF_RELOAD") != "" {
			lockedReload(o, bin, scratch)
		}
	}
	createdFormats(hc.NewGen(seed*7919+3), o, scratch, 135)
	for h := 0; h < n; h++ {
		oneHistory(g, o, scratch, bin, h)
	}
	blockTemps(g, o, 20+n/10)
	// output flags must not change what a transaction does (flags.go); path-key collisions inside one transaction (collide.go)
	flagHistories(hc.NewGen(seed*15485863+11), o, scratch, bin, 40+n/10)
	collisionCorpus(o, bin, scratch)
	// an internal failure (injected panic) at a random statement of a procedure is an ending by error (panic.go)
	panicHistories(hc.NewGen(seed*104729+7), o, scratch, 30+n/8)
}

// blockTemps: COMMIT and ROLLBACK treat a temporary table the same wherever it was declared — at the top level,
// or inside the body of an IF, a WHILE, a cursor loop or nested ones, while that block is still running.  The
// same statement sequence is run in every placement; what the table holds at the end must not depend on it
// (the top-level placement is the one the model decides in the main stream).
func blockTemps(g *hc.Gen, o *hc.Out, rounds int) {
	for r := 0; r < rounds; r++ {
		var ops []string
		hdr := 0
		for k, n := 0, 3+g.Intn(8); k < n; k++ {
			switch g.Intn(9) {
			case 0, 1, 2:
				ops = append(ops, fmt.Sprintf("INSERT INTO bt (v) VALUES (%d);", g.Intn(9)))
			case 3:
				ops = append(ops, "UPDATE bt SET v = v + 1;")
			case 4:
				if g.Intn(2) == 0 {
					ops = append(ops, fmt.Sprintf("REPLACE INTO bt (v) USING (v) VALUES (%d), (%d);", g.Intn(9), 10+g.Intn(5)))
				} else {
					ops = append(ops, fmt.Sprintf("DELETE FROM bt WHERE v = %d;", g.Intn(9)))
				}
			case 5:
				ops = append(ops, fmt.Sprintf("ALTER TABLE bt RENAME h%d TO h%d;", hdr, 1-hdr)) // may fail after a ROLLBACK: identically in every placement
				hdr = 1 - hdr
			case 6, 7:
				ops = append(ops, "COMMIT;")
			default:
				ops = append(ops, "ROLLBACK;")
			}
		}
		ops = append(ops, "SELECT * FROM bt;")
		decl := "DECLARE bt VIEW (v, h0);"
		body := strings.Join(ops, " ")
		forms := [][2]string{
			{"top", decl + " " + body},
			{"if", "IF 1 = 1 THEN " + decl + " " + body + " END IF;"},
			{"while", "VAR @i := 0; WHILE @i < 1 DO " + decl + " " + body + " @i := @i + 1; END WHILE;"},
			{"cursor_loop", "DECLARE cu CURSOR FOR SELECT 1; OPEN cu; VAR @x; WHILE @x IN cu DO " + decl + " " + body + " END WHILE; CLOSE cu;"},
			{"if_in_while", "VAR @i := 0; WHILE @i < 1 DO IF 1 = 1 THEN " + decl + " " + body + " END IF; @i := @i + 1; END WHILE;"},
			{"declared_outside_if", decl + " IF 1 = 1 THEN " + body + " END IF;"},
			{"case", "CASE WHEN 1 = 1 THEN " + decl + " " + body + " END CASE;"},
		}
		ref := ""
		for i, f := range forms {
			pr := hc.NewProc("")
			out, err := pr.Exec(f[1])
			pr.Close()
			got := out
			if err != nil {
				got += "\nERROR: " + rePos.ReplaceAllString(err.Error(), "") // the position of the failing statement depends on the wrapping text
			}
			// the notices name nothing placement-specific; lines are compared as they are
			if i == 0 {
				ref = got
				continue
			}
			if got != ref {
				o.Law("temporary_table_restore_depends_on_block", map[string]interface{}{"placement": f[0], "program": f[1], "output": got, "top_level_output": ref})
			}
			o.Eval()
		}
		o.NonTrivial(fmt.Sprintf("blocktemps:%d:%v", len(ops), strings.Contains(body, "ROLLBACK")))
		o.Count("block_temp_rounds")
	}
}

// finalisationCorpus: fixed transactions that hold created AND updated tables of several kinds, interrupted
// at every point of the final COMMIT (each occurrence): the outcome is all or nothing — it equals the state of
// the same program ended by EXIT, or the state of the undisturbed COMMIT.
func finalisationCorpus(o *hc.Out, bin, scratch string) {
	progs := []string{
		"CREATE TABLE `n1.csv` (v); INSERT INTO `n1.csv` VALUES (1); UPDATE `f0.csv` SET v = v + 1; INSERT INTO `f1.csv` VALUES (9); ",
		"UPDATE `f0.csv` SET v = v + 1; CREATE TABLE `n1.csv` (v); CREATE TABLE `n2.csv` (v); INSERT INTO `n2.csv` VALUES (1), (2); DELETE FROM `f1.csv` WHERE v = 1; ",
		"INSERT INTO `f0.csv` VALUES (7); INSERT INTO `f1.csv` VALUES (8); INSERT INTO `f2.csv` VALUES (9); ",
		"CREATE TABLE `n1.csv` (v); CREATE TABLE `n2.csv` (v); INSERT INTO `n1.csv` VALUES (3); ",
		// every file format goes through its own encoder on its way to the disk
		"UPDATE `f0.csv` SET v = v + 1; INSERT INTO `g1.jsonl` VALUES (7); UPDATE `g2.ltsv` SET v = v + 1; ",
		"INSERT INTO `g1.jsonl` VALUES (7); UPDATE `g3.json` SET v = v + 1; INSERT INTO `g4.tsv` VALUES (5); ",
		"UPDATE `g2.ltsv` SET v = 0; UPDATE `g1.jsonl` SET v = 0; CREATE TABLE `n1.jsonl` (v); INSERT INTO `n1.jsonl` VALUES (1); ",
		"DELETE FROM `g3.json` WHERE v = 1; INSERT INTO `g4.tsv` VALUES (6); UPDATE `g1.jsonl` SET v = v * 2; UPDATE `f1.csv` SET v = 9; ",
	}
	run := func(tag, prog string, env []string) string {
		dx := filepath.Join(scratch, "c01-fin-"+tag)
		_ = os.RemoveAll(dx)
		_ = os.MkdirAll(dx, 0o755)
		for p, xs := range [][]int{{1, 2, 3}, {1, 1}, {}} {
			_ = os.WriteFile(filepath.Join(dx, fmt.Sprintf("f%d.csv", p)), fileBytes(xs), 0o644)
		}
		_ = os.WriteFile(filepath.Join(dx, "g1.jsonl"), []byte("{\"v\":1}\n{\"v\":2}\n{\"v\":3}\n"), 0o644)
		_ = os.WriteFile(filepath.Join(dx, "g2.ltsv"), []byte("k:a\tv:1\nk:b\tv:2\n"), 0o644)
		_ = os.WriteFile(filepath.Join(dx, "g3.json"), []byte("[{\"v\":1},{\"v\":2}]\n"), 0o644)
		_ = os.WriteFile(filepath.Join(dx, "g4.tsv"), []byte("v\n1\n2\n"), 0o644)
		c := exec.Command(bin, "--repository", dx, "--quiet", prog)
		c.Dir = dx
		c.Env = append(append(os.Environ(), "HOME="+dx), env...)
		_ = c.Run()
		var st []string
		ents, _ := os.ReadDir(dx)
		for _, e := range ents {
			b, _ := os.ReadFile(filepath.Join(dx, e.Name()))
			st = append(st, e.Name()+"="+hc.Hex(string(b)))
		}
		_ = os.RemoveAll(dx)
		return strings.Join(st, " ")
	}
	points := []string{"tx.commit.encode", "tx.commit.encoded", "tx.commit.create", "tx.commit.update", "commit.closefp", "commit.closetemp", "commit.rename", "commit.renamed", "cf.remove.lock", "cf.remove.temp"}
	for pi, body := range progs {
		rolledBack := run("exit", body+"EXIT;", nil)
		committed := run("commit", body+"COMMIT;", nil)
		if rolledBack == committed {
			o.Law("finalisation_corpus_is_vacuous", body)
		}
		for _, pt := range points {
			for k := 1; k <= 3; k++ {
				spec := fmt.Sprintf("%s#%d:%s", pt, k, []string{"SIGINT", "SIGTERM"}[(pi+k)%2])
				got := run("sig", body+"COMMIT;", []string{"VERIF_SIGNAL_AT=" + spec})
				if got != rolledBack && got != committed {
					o.Law("commit_not_atomic_under_signal", map[string]interface{}{"program": body + "COMMIT;", "signal_at": spec, "after_signal": got, "if_rolled_back": rolledBack, "if_committed": committed})
				}
				o.Eval()
				o.Count("finalisation_point:" + pt)
			}
		}
		o.NonTrivial(fmt.Sprintf("finalisation:%d", pi))
	}
}

// headerlessCorpus: tables that have no header line on disk and no record left at the end.  Whatever csvq decides
// to do with them (it refuses the whole commit: an empty text cannot be told from "no table"), the outcome is all
// or nothing: exit status 0 means EVERY table holds what the procedure last saw, any other status means no file
// changed and no created file exists.
func headerlessCorpus(o *hc.Out, bin, scratch string) {
	type cs struct {
		name  string
		flags []string
		prog  string
		// what the files must be after a run with exit status 0
		want map[string]string
	}
	cases := []cs{
		{"ltsv_all_deleted", nil, "UPDATE `f0.csv` SET v = v + 1; DELETE FROM `g2.ltsv`; SELECT COUNT(*) FROM `g2.ltsv`;", map[string]string{"f0.csv": "v\n2\n3\n", "g2.ltsv": ""}},
		{"no_header_csv_all_deleted", []string{"--no-header", "--without-header"}, "UPDATE `f0.csv` SET c1 = 'x' WHERE c1 = '1'; DELETE FROM `h.csv`;", map[string]string{"h.csv": ""}},
		{"created_without_header", []string{"--without-header"}, "CREATE TABLE `n.csv` (a, b); UPDATE `f0.csv` SET v = v + 1;", map[string]string{"n.csv": "", "f0.csv": "2\n3\n"}},
		// a change to a value that is EQUAL under csvq's loose `=` (other letter case, other number notation, blanks) is
		// still a change of the table the procedure saw, and reaches the file
		{"update_to_loosely_equal_number", nil, "UPDATE `f0.csv` SET v = v || '.0'; SELECT * FROM `f0.csv`;", map[string]string{"f0.csv": "v\n1.0\n2.0\n"}},
		{"update_to_other_letter_case", nil, "UPDATE `w.csv` SET name = UPPER(name), n = ' ' || n; SELECT * FROM `w.csv`;", map[string]string{"w.csv": "name,n\nAB, 1\nCD, 2\n"}},
		{"update_loosely_equal_then_commit_then_error", nil, "UPDATE `w.csv` SET name = UPPER(name); COMMIT; UPDATE `w.csv` SET name = LOWER(name); SELECT 1 / 0;", nil},
		// the session's WITHOUT_HEADER flag is about query output: a table file that has a header line keeps it
		{"without_header_flag_existing_table", []string{"--without-header"}, "UPDATE `f0.csv` SET v = v + 1;", map[string]string{"f0.csv": "v\n2\n3\n"}},
		{"without_header_set_in_procedure", nil, "SET @@WITHOUT_HEADER TO TRUE; INSERT INTO `w.csv` VALUES ('ef', 3); COMMIT; SELECT name FROM `w.csv`;", map[string]string{"w.csv": "name,n\nab,1\ncd,2\nef,3\n"}},
		{"case_twin_files", nil, "UPDATE `T2.csv` SET v = 'w'; UPDATE `t2.CSV` SET v = 'x'; SELECT v FROM `T2.csv`; SELECT v FROM `t2.CSV`;", map[string]string{"T2.csv": "id,v\n1,w\n", "t2.CSV": "id,v\n1,x\n"}},
		{"header_set_to_false", nil, "ALTER TABLE `f0.csv` SET HEADER TO FALSE; DELETE FROM `f0.csv`; INSERT INTO `g2.ltsv` (k, v) VALUES ('c', 9);", map[string]string{"f0.csv": "", "g2.ltsv": "k:a\tv:1\nk:b\tv:2\nk:c\tv:9\n"}},
	}
	for _, c := range cases {
		dx := filepath.Join(scratch, "c01-hl-"+c.name)
		_ = os.RemoveAll(dx)
		_ = os.MkdirAll(dx, 0o755)
		before := map[string]string{"f0.csv": "v\n1\n2\n", "g2.ltsv": "k:a\tv:1\nk:b\tv:2\n", "h.csv": "5\n6\n", "w.csv": "name,n\nab,1\ncd,2\n", "T2.csv": "id,v\n1,p\n", "t2.CSV": "id,v\n1,q\n"}
		for n, b := range before {
			_ = os.WriteFile(filepath.Join(dx, n), []byte(b), 0o644)
		}
		cmd := exec.Command(bin, append(append([]string{"--repository", dx, "--quiet"}, c.flags...), c.prog)...)
		cmd.Dir = dx
		cmd.Env = append(os.Environ(), "HOME="+dx)
		out, err := cmd.CombinedOutput()
		after := map[string]string{}
		ents, _ := os.ReadDir(dx)
		for _, e := range ents {
			b, _ := os.ReadFile(filepath.Join(dx, e.Name()))
			after[e.Name()] = string(b)
		}
		rep := map[string]interface{}{"case": c.name, "flags": c.flags, "program": c.prog, "output": string(out), "exit_ok": err == nil, "files_after": after}
		if err == nil {
			for n, w := range c.want {
				if got, ok := after[n]; !ok || got != w {
					rep["file"], rep["want"] = n, w
					if c.name == "case_twin_files" {
						o.Law("case_twin_files_share_one_cached_table", rep)
					} else {
						o.Law("normal_end_did_not_publish", rep)
					}
				}
			}
		} else if c.name == "update_loosely_equal_then_commit_then_error" {
			// the explicit COMMIT in the middle published the upper-cased names; the rest was rolled back
			if after["w.csv"] != "name,n\nAB,1\nCD,2\n" {
				rep["file"], rep["want"] = "w.csv", "name,n\nAB,1\nCD,2\n"
				o.Law("commit_did_not_publish", rep)
			}
		} else {
			for n, b := range before {
				if after[n] != b {
					rep["file"] = n
					o.Law("failed_run_changed_file", rep)
				}
			}
			for n := range after {
				if _, ok := before[n]; !ok {
					rep["file"] = n
					o.Law("failed_run_left_created_file", rep)
				}
			}
		}
		o.Eval()
		o.NonTrivial(fmt.Sprintf("headerless:%s:%v", c.name, err == nil))
		_ = os.RemoveAll(dx)
	}
}

// oneHistory runs one generated history; a Go panic raised inside csvq while executing a statement
// in-process is an internal failure of the implementation and is reported as such.
func oneHistory(g *hc.Gen, o *hc.Out, scratch, bin string, h int) {
	defer func() {
		if p := recover(); p != nil {
			buf := make([]byte, 4096)
			buf = buf[:runtime.Stack(buf, false)]
			o.Law("internal_panic", map[string]interface{}{"history": h, "panic": fmt.Sprint(p), "stack": string(buf)})
		}
	}()
	{
		d := filepath.Join(scratch, fmt.Sprintf("c01-%d", h))
		_ = os.RemoveAll(d)
		_ = os.MkdirAll(d, 0o755)
		tr := &tracker{}
		init := make([]string, nFiles)
		initial := make([][]int, nFiles)
		for p := 0; p < nFiles; p++ {
			init[p] = "-"
			if p < 2 || (p == 2 && g.Intn(2) == 0) {
				k := g.Intn(4)
				xs := make([]int, k)
				for i := range xs {
					xs[i] = g.Intn(5)
				}
				initial[p] = xs
				_ = os.WriteFile(filepath.Join(d, fmt.Sprintf("f%d.csv", p)), fileBytes(xs), 0o644)
				tr.exists[p] = true
				init[p] = tbl(xs)
			}
		}
		pr := hc.NewProc(d)
		pr.P.Tx.AutoCommit = false
		// output flags (flags.go) are a dimension of the histories: some are set "on the command line" here and
		// others are switched by SET @@… between the statements; the model's transaction state does not know them
		var cliFlags []outFlag
		flagged := g.Intn(2) == 0
		if flagged {
			for k, nf := 0, g.Intn(3); k < nf; k++ {
				f := pickOutFlag(g)
				if err := pr.P.Tx.SetFlag(f.name, f.on); err != nil {
					o.Law("harness_statement_failed", map[string]interface{}{"flag": f.name, "error": err.Error()})
				}
				cliFlags = append(cliFlags, f)
				o.Count("flag_cli:" + f.name)
			}
		}
		o.Case("c01.reset "+strings.Join(init, " "), diskState(d, tr)+"|"+tempState(pr, tr))
		// in half of the histories data is piped in: the STDIN table behaves like a temporary table whose
		// restore point is the piped data (COMMIT keeps, ROLLBACK and abnormal endings restore)
		stdinData := ""
		if g.Intn(2) == 0 {
			k := g.Intn(4)
			xs := make([]int, k)
			for i := range xs {
				xs[i] = g.Intn(5)
			}
			stdinData = string(fileBytes(xs))
			if err := pr.P.Tx.Session.SetStdin(io.NopCloser(strings.NewReader(stdinData))); err != nil {
				o.Law("set_stdin_error", err.Error())
			} else {
				tr.temp[2] = true
				o.Case("c01.dstdin "+tbl(xs), "ok|"+diskState(d, tr)+"|"+tempState(pr, tr))
			}
		}

		// files a transaction never changed must not be rewritten by its COMMIT: which files had at least one
		// record changed is read from csvq's own statement log, rewriting is seen as a new inode
		var program []op
		var inode [nFiles]uint64
		var changed [nFiles]bool
		snap := func() {
			for p := 0; p < nFiles; p++ {
				inode[p], changed[p] = inodeOf(d, p), false
			}
		}
		snap()
		checkRewritten := func(where string) {
			for p := 0; p < nFiles; p++ {
				if !changed[p] && !tr.created[p] && inode[p] != 0 && inodeOf(d, p) != inode[p] {
					var sqls []string
					for _, st := range program {
						sqls = append(sqls, strings.ReplaceAll(st.sql, "\x01", d))
					}
					o.Law("untouched_file_rewritten", map[string]interface{}{"file": fmt.Sprintf("f%d.csv", p), "at": where, "history": h, "initial_files": init, "statements_so_far": sqls})
				}
			}
		}
		// one file, many spellings: every way of naming a table must reach the same cached view and the same lock
		// (`\x01` stands for the absolute repository directory; replays in other directories put "." there)
		tn := func(p int) string {
			switch g.Intn(9) {
			case 0:
				return fmt.Sprintf("`./f%d.csv`", p)
			case 1:
				return fmt.Sprintf("`\x01/f%d.csv`", p)
			case 2:
				return fmt.Sprintf("`\x01//f%d.csv`", p)
			case 3:
				return fmt.Sprintf("`\x01/./f%d.csv`", p)
			case 4:
				return fmt.Sprintf("f%d", p)
			}
			return fmt.Sprintf("`f%d.csv`", p)
		}
		// in a FROM clause the same file can also be named by a table object or a table identification function:
		// it is still the transaction's one cached table
		tq := func(p int) string {
			switch g.Intn(12) {
			case 0:
				return fmt.Sprintf("URL::('file:./f%d.csv')", p)
			case 1:
				return fmt.Sprintf("FILE::('./f%d.csv')", p)
			case 2:
				return fmt.Sprintf("CSV(',', `f%d.csv`)", p)
			case 3:
				return fmt.Sprintf("FILE::('f%d.csv')", p)
			}
			return tn(p)
		}
		steps := 3 + g.Intn(14)
		for s := 0; s < steps; s++ {
			p := g.Intn(nFiles)
			t := g.Intn(nTemps)
			pickFile := func(exists bool) {
				if g.Intn(7) == 0 {
					return // sometimes the wrong kind on purpose: the statement must fail cleanly
				}
				for k := 0; k < 8 && tr.exists[p] != exists; k++ {
					p = g.Intn(nFiles)
				}
			}
			pickTemp := func(declared bool) {
				if g.Intn(7) == 0 {
					return
				}
				for k := 0; k < 4 && tr.temp[t] != declared; k++ {
					t = g.Intn(nTemps)
				}
			}
			var line, sql, got string
			kinds := []string{"append", "delwhere", "incr", "append", "fail", "incrfail"}
			switch c := g.Intn(20); {
			case c < 2 && flagged && g.Intn(2) == 0:
				// SET @@<output flag>: changes what is printed from here on, and nothing else
				f, on := pickOutFlag(g), g.Intn(3) > 0
				line, sql = fmt.Sprintf("c01.setflag %s %v", f.name, on), f.set(on)
			case c < 5:
				pickFile(true)
				line, sql = fmt.Sprintf("c01.select %d", p), fmt.Sprintf("SELECT v FROM %s", tq(p))
			case c < 7 && g.Intn(3) == 0:
				// FOR UPDATE reaches every table of the FROM clause
				pickFile(true)
				q := g.Intn(nFiles)
				for k := 0; k < 8 && (q == p || !tr.exists[q]); k++ {
					q = g.Intn(nFiles)
				}
				if q == p {
					continue
				}
				form := g.Pick("JOIN", "CROSS", "COMMA", "UNION", "EXCEPT", "INTERSECT")
				line = fmt.Sprintf("c01.selectfu2 %d %d", p, q)
				switch form {
				case "UNION", "EXCEPT", "INTERSECT":
					// set operations: FOR UPDATE reaches both operands
					line = fmt.Sprintf("c01.selectfu2 %d %d %s", p, q, strings.ToLower(form))
					sql = fmt.Sprintf("SELECT v FROM %s %s SELECT v FROM %s FOR UPDATE", tn(p), form, tn(q))
				case "JOIN":
					sql = fmt.Sprintf("SELECT a.v FROM %s a JOIN %s b ON a.v = b.v FOR UPDATE", tn(p), tn(q))
				case "CROSS":
					sql = fmt.Sprintf("SELECT a.v FROM %s a CROSS JOIN %s b WHERE a.v = b.v FOR UPDATE", tn(p), tn(q))
				default:
					sql = fmt.Sprintf("SELECT a.v FROM %s a, %s b WHERE a.v = b.v FOR UPDATE", tn(p), tn(q))
				}
				if tr.exists[p] {
					tr.locked[p] = true
					if tr.exists[q] {
						tr.locked[q] = true
					}
				}
			case c < 7:
				pickFile(true)
				line, sql = fmt.Sprintf("c01.selectfu %d", p), fmt.Sprintf("SELECT v FROM %s FOR UPDATE", tq(p))
				if tr.exists[p] {
					tr.locked[p] = true
				}
			case c < 12 && g.Intn(4) == 0:
				// multi-table DELETE over a LEFT JOIN: rows v = a of file p and the rows of file q they join with
				pickFile(true)
				q := g.Intn(nFiles)
				for k := 0; k < 8 && (q == p || !tr.exists[q]); k++ {
					q = g.Intn(nFiles)
				}
				if q == p {
					continue
				}
				a := g.Intn(5)
				line = fmt.Sprintf("c01.deljoin %d %d %d", p, q, a)
				sql = fmt.Sprintf("DELETE a, b FROM %s a LEFT JOIN %s b ON a.v = b.v WHERE a.v = %d;", tn(p), tn(q), a)
				if tr.exists[p] {
					tr.locked[p] = true
					if tr.exists[q] {
						tr.locked[q] = true
					}
				}
			case c < 12:
				pickFile(true)
				k, a := kinds[g.Intn(len(kinds))], g.Intn(5)
				if g.Intn(6) == 0 {
					// file attributes are part of what the procedure last saw: ALTER TABLE … SET
					k, a = "setlb", g.Intn(2)
				}
				line, sql = fmt.Sprintf("c01.dml %d %s %d", p, k, a), dmlSQL(tn(p), k, a)
				if tr.exists[p] {
					tr.locked[p] = true
				}
			case c < 13 && g.Intn(3) == 0:
				// CREATE TABLE IF NOT EXISTS: creates the table, or — when it exists — reads it like a plain SELECT
				// (no lock kept, no reload of a table the transaction has already loaded)
				line, sql = fmt.Sprintf("c01.createifne %d", p), fmt.Sprintf("CREATE TABLE IF NOT EXISTS `f%d.csv` (v);", p)
				if !tr.exists[p] {
					tr.exists[p], tr.created[p], tr.locked[p] = true, true, true
				}
			case c < 13:
				pickFile(false)
				line, sql = fmt.Sprintf("c01.create %d", p), fmt.Sprintf("CREATE TABLE `f%d.csv` (v);", p)
				if !tr.exists[p] {
					tr.exists[p], tr.created[p], tr.locked[p] = true, true, true
				}
			case c < 14:
				pickTemp(false)
				if t == 2 {
					continue // STDIN is not declared: it exists from the start of the run, or not at all
				}
				line, sql = fmt.Sprintf("c01.dtemp %d", t), fmt.Sprintf("DECLARE tt%d VIEW (v, h0);", t)
			case c < 16:
				pickTemp(true)
				k, a := kinds[g.Intn(len(kinds))], g.Intn(5)
				if t != 2 && g.Intn(4) == 0 {
					k = "renhdr" // the header of a temporary table is restored by ROLLBACK like its records
				}
				line, sql = fmt.Sprintf("c01.dmltemp %d %s %d", t, k, a), dmlSQL(tempName(t), k, a)
			case c < 17:
				line, sql = "c01.commit", "COMMIT;"
			case c < 18:
				line, sql = "c01.rollback", "ROLLBACK;"
			default:
				// another process commits to file p — only while this transaction holds no lock on it
				if tr.locked[p] || !tr.exists[p] {
					continue
				}
				k := g.Intn(4)
				xs := make([]int, k)
				for i := range xs {
					xs[i] = 5 + g.Intn(5)
				}
				_ = os.WriteFile(filepath.Join(d, fmt.Sprintf("f%d.csv", p)), fileBytes(xs), 0o644)
				inode[p] = inodeOf(d, p)
				o.Case(fmt.Sprintf("c01.other %d %s", p, tbl(xs)), "ok|"+diskState(d, tr)+"|"+tempState(pr, tr))
				o.Count("op:other")
				continue
			}
			// run the statement
			sql = strings.ReplaceAll(sql, "\x01", d)
			if strings.HasPrefix(sql, "SELECT") {
				v, err := pr.Query(sql)
				if err != nil {
					got = "failed"
				} else {
					got = "rows:" + rowsOf(v.RecordLen(), func(i int) string { return hc.StrOf(hc.ViewCell(v, i, 0)) })
				}
			} else {
				out, err := pr.Exec(sql)
				got = "ok"
				if err != nil {
					got = "failed"
					if hc.ErrNum(err) < 0 || strings.Contains(err.Error(), "Fatal") {
						o.Law("internal_error", map[string]interface{}{"sql": sql, "error": err.Error()})
					}
				}
				for _, m := range reChanged.FindAllStringSubmatch(out, -1) {
					if n, _ := strconv.Atoi(m[1]); n > 0 {
						fp, _ := strconv.Atoi(m[2])
						if fp < nFiles {
							changed[fp] = true
						}
					}
				}
			}
			if pr.P.Tx.Flags.Quiet && got == "ok" && (strings.HasPrefix(line, "c01.dml ") || strings.HasPrefix(line, "c01.deljoin ")) {
				// no statement log under --quiet: which files had a record changed is not known — every file of the statement may have
				for fp := range changed {
					changed[fp] = changed[fp] || strings.HasPrefix(line, "c01.deljoin ") || fp == p
				}
			}
			if strings.Contains(line, " setlb ") && got == "ok" && p < nFiles {
				changed[p] = true // ALTER TABLE … SET rewrites the file with the new attribute
			}
			// bookkeeping that depends on the outcome
			if strings.HasPrefix(line, "c01.dtemp") && got == "ok" {
				tr.temp[t] = true
			}
			if strings.HasPrefix(line, "c01.create") && got == "failed" && tr.created[p] {
				// creation refused (e.g. the file existed): undo the optimistic marks
			}
			if line == "c01.commit" {
				checkRewritten("COMMIT")
				tr.endTx(true)
				snap()
			}
			if line == "c01.rollback" {
				checkRewritten("ROLLBACK")
				tr.endTx(false)
				snap()
			}
			o.Case(line, got+"|"+diskState(d, tr)+"|"+tempState(pr, tr))
			o.Count("op:" + strings.Fields(line)[0])
			program = append(program, op{line: line, sql: strings.ReplaceAll(sql, d, "\x01"), kind: got})
		}
		// the way the run ends
		how := g.Pick("normal", "normal", "error", "exit", "interrupt", "interrupt")
		if how == "normal" {
			if err := pr.P.AutoCommit(pr.Ctx); err != nil {
				o.Law("autocommit_error", err.Error())
			}
			_ = pr.P.ReleaseResourcesWithErrors()
			checkRewritten("end of a normal run")
			tr.endTx(true)
		} else {
			_ = pr.P.AutoRollback()
			_ = pr.P.ReleaseResourcesWithErrors()
			tr.endTx(false)
		}
		final := diskState(d, tr)
		o.Case("c01.end "+how, final+"|"+tempState(pr, tr))
		o.NonTrivial(fmt.Sprintf("%s:%d:%s", how, steps, final))
		// no control files may remain
		ents, _ := os.ReadDir(d)
		for _, e := range ents {
			if strings.HasPrefix(e.Name(), ".") {
				o.Law("control_file_left", map[string]interface{}{"file": e.Name(), "ending": how})
			}
		}

		// the same program as a real process, ended the same way (no external writer here)
		if bin != "" && h%4 == 0 {
			d2 := filepath.Join(scratch, fmt.Sprintf("c01-%d-p", h))
			_ = os.RemoveAll(d2)
			_ = os.MkdirAll(d2, 0o755)
			tr2 := &tracker{}
			lines := []string{}
			for p := 0; p < nFiles; p++ {
				if initial[p] != nil || init[p] == "e" {
					_ = os.WriteFile(filepath.Join(d2, fmt.Sprintf("f%d.csv", p)), fileBytes(initial[p]), 0o644)
				}
			}
			lines = append(lines, "c01.reset "+strings.Join(init, " "))
			if stdinData != "" && tr.temp[2] {
				rows := strings.ReplaceAll(strings.TrimSuffix(strings.TrimPrefix(stdinData, "v\n"), "\n"), "\n", ",")
				if rows == "" {
					rows = "e"
				}
				lines = append(lines, "c01.dstdin "+rows)
			}
			var text strings.Builder
			var sourced []string
			stoppedByFailure := false
			interruptCommit := how == "interrupt" && g.Intn(2) == 0
			for _, st := range program {
				// this variant leaves the earlier COMMITs out; the recorded outcome of a later statement (a CREATE that
				// failed because the file had been committed) would no longer be the process's: not for such programs
				if st.line == "c01.commit" {
					interruptCommit = false
				}
			}
			for _, st := range program {
				s := strings.ReplaceAll(st.sql, "\x01", ".")
				if !strings.HasSuffix(s, ";") {
					s += ";"
				}
				if strings.Contains(s, "1 / (v - v)") {
					continue // fails or not depending on the table being empty; the "error" ending covers it
				}
				if interruptCommit && strings.HasPrefix(st.line, "c01.setflag") {
					continue // that variant reads csvq's commit log
				}
				// the same statement, sometimes reached through a nested statement list
				if !strings.HasPrefix(s, "DECLARE") && !strings.HasPrefix(s, "COMMIT") && !strings.HasPrefix(s, "ROLLBACK") && st.kind != "failed" {
					switch g.Intn(8) {
					case 0:
						src := filepath.Join(d2, fmt.Sprintf("src%d.sql", len(lines)))
						_ = os.WriteFile(src, []byte(s), 0o644)
						sourced = append(sourced, filepath.Base(src))
						s = fmt.Sprintf("SOURCE `%s`;", src)
					case 1:
						s = "IF TRUE THEN " + s + " END IF;"
					case 2:
						s = fmt.Sprintf("VAR @w%d := 0; WHILE @w%d < 1 DO %s @w%d := @w%d + 1; END WHILE;", len(lines), len(lines), s, len(lines), len(lines))
					case 3:
						if !strings.HasPrefix(s, "SELECT") {
							s = fmt.Sprintf("PREPARE st%d FROM '%s'; EXECUTE st%d;", len(lines), strings.ReplaceAll(strings.TrimSuffix(s, ";"), "'", "\\'"), len(lines))
						}
					}
				}
				text.WriteString(s + " ")
				lines = append(lines, st.line)
				if st.kind == "failed" {
					how = "error" // a real process stops at its first failing statement
					stoppedByFailure = true
					break
				}
			}
			if interruptCommit {
				// the signal arrives inside a final COMMIT, while the first table is being encoded: the
				// interrupted commit must publish nothing (every file as before that COMMIT)
				how = "interrupt-in-commit"
			}
			// a third interrupt variant: the signal arrives DURING THE LAST STATEMENT, which does not notice it
			// (an external command that signals csvq and then returns): no implicit commit may follow
			interruptLast := how == "interrupt" && !stoppedByFailure && g.Intn(2) == 0
			if interruptLast {
				sig := g.Pick("INT", "TERM")
				_ = os.WriteFile(filepath.Join(d2, "sig.sh"), []byte("kill -"+sig+" $PPID\nsleep 0.4\n"), 0o755)
				text.WriteString("$ sh sig.sh;")
				how = "interrupt-last"
			}
			// the ending statement, sometimes reached through a nested statement list (IF, WHILE, SOURCE, EXECUTE of
			// a string, PREPARE + EXECUTE): EXIT and a failing statement end the whole run from any depth
			wrapEnd := func(st string) string {
				switch g.Intn(7) {
				case 0:
					return "IF TRUE THEN " + st + " END IF;"
				case 1:
					return "VAR @we := 0; WHILE @we < 3 DO @we := @we + 1; " + st + " END WHILE;"
				case 2:
					src := filepath.Join(d2, "srcend.sql")
					_ = os.WriteFile(src, []byte(st), 0o644)
					sourced = append(sourced, "srcend.sql")
					return fmt.Sprintf("SOURCE `%s`;", src)
				case 3:
					return "EXECUTE '" + strings.ReplaceAll(strings.TrimSuffix(st, ";"), "'", "\\'") + "';"
				case 4:
					return "PREPARE stend FROM '" + strings.ReplaceAll(strings.TrimSuffix(st, ";"), "'", "\\'") + "'; EXECUTE stend;"
				case 5:
					return "PREPARE stend FROM 'IF TRUE THEN " + strings.ReplaceAll(st, "'", "\\'") + " END IF'; EXECUTE stend;"
				}
				return st
			}
			switch how {
			case "interrupt-in-commit":
				text.WriteString("COMMIT;")
			case "error":
				text.WriteString(wrapEnd("SELECT 1 / 0 FROM DUAL;") + " INSERT INTO `f0.csv` VALUES (77); INSERT INTO `f1.csv` VALUES (77);") // (unreached if a statement above already failed)
			case "exit":
				text.WriteString(wrapEnd("EXIT;") + " INSERT INTO `f0.csv` VALUES (78); INSERT INTO `f1.csv` VALUES (78);")
			}
			env := os.Environ()
			// a fourth variant: the signal arrives in the FINALISATION of the final COMMIT (after every table has
			// been encoded, while created files are made permanent and updated ones are swapped in): whatever
			// csvq does with it, the result is all or nothing — it equals the state of the same program ended by
			// EXIT instead of the COMMIT, or the state of the same program with the COMMIT undisturbed
			if how == "interrupt-in-commit" && g.Intn(2) == 0 {
				pt := g.Pick("tx.commit.encoded", "tx.commit.create", "tx.commit.update", "commit.closefp", "commit.closetemp", "commit.rename", "commit.renamed", "cf.remove.lock", "cf.remove.temp")
				spec := fmt.Sprintf("%s#%d:%s", pt, 1+g.Intn(3), g.Pick("SIGINT", "SIGTERM"))
				body := strings.TrimSuffix(text.String(), "COMMIT;")
				runIn := func(tag, prog string, extraEnv []string) string {
					dx := filepath.Join(scratch, fmt.Sprintf("c01-%d-%s", h, tag))
					_ = os.RemoveAll(dx)
					_ = os.MkdirAll(dx, 0o755)
					for p := 0; p < nFiles; p++ {
						if initial[p] != nil || init[p] == "e" {
							_ = os.WriteFile(filepath.Join(dx, fmt.Sprintf("f%d.csv", p)), fileBytes(initial[p]), 0o644)
						}
					}
					for _, f := range sourced {
						if b, err := os.ReadFile(filepath.Join(d2, f)); err == nil {
							_ = os.WriteFile(filepath.Join(dx, f), []byte(strings.ReplaceAll(string(b), d2, dx)), 0o644)
						}
					}
					c := exec.Command(bin, "--repository", dx, "--quiet", strings.ReplaceAll(prog, d2, dx))
					if stdinData != "" {
						c.Stdin = strings.NewReader(stdinData)
					}
					c.Dir = dx
					c.Env = append(append(os.Environ(), "HOME="+dx), extraEnv...)
					_ = c.Run()
					for _, f := range sourced {
						_ = os.Remove(filepath.Join(dx, f))
					}
					st := diskState(dx, &tracker{})
					ents, _ := os.ReadDir(dx)
					for _, e := range ents {
						if strings.HasPrefix(e.Name(), ".") {
							st += " +" + e.Name()
						}
					}
					_ = os.RemoveAll(dx)
					return st
				}
				rolledBack := runIn("ctl-exit", body+"EXIT;", nil)
				committed := runIn("ctl-commit", body+"COMMIT;", nil)
				signalled := runIn("sig", body+"COMMIT;", []string{"VERIF_SIGNAL_AT=" + spec})
				if signalled != rolledBack && signalled != committed {
					o.Law("commit_not_atomic_under_signal", map[string]interface{}{"program": body + "COMMIT;", "signal_at": spec, "after_signal": signalled, "if_rolled_back": rolledBack, "if_committed": committed})
				}
				o.Eval()
				o.Count("process_runs:interrupt-in-finalisation")
				o.Count("finalisation_point:" + pt)
				for _, f := range sourced {
					_ = os.Remove(filepath.Join(d2, f))
				}
				_ = os.RemoveAll(d2)
				pr.Close()
				_ = os.RemoveAll(d)
				return
			}
			if how == "interrupt-in-commit" {
				// the k-th table being encoded: created tables are encoded first, then updated ones, so k > 1
				// interrupts the commit after some tables were already encoded (none may be published)
				env = append(env, fmt.Sprintf("VERIF_SIGNAL_AT=tx.commit.encode#%d:%s", 1+g.Intn(3), g.Pick("SIGINT", "SIGTERM")))
			}
			if how == "interrupt" {
				// (variant 1) a first run lists the points; the signal is then delivered at the first file access:
				// the transaction has published nothing, so every file must keep its initial bytes
				trace := filepath.Join(scratch, fmt.Sprintf("c01-%d-trace", h))
				_ = os.Remove(trace)
				d3 := filepath.Join(scratch, fmt.Sprintf("c01-%d-t", h))
				_ = os.RemoveAll(d3)
				_ = os.MkdirAll(d3, 0o755)
				for p := 0; p < nFiles; p++ {
					if initial[p] != nil || init[p] == "e" {
						_ = os.WriteFile(filepath.Join(d3, fmt.Sprintf("f%d.csv", p)), fileBytes(initial[p]), 0o644)
					}
				}
				tc := exec.Command(bin, "--repository", d3, "--quiet", text.String())
				if stdinData != "" {
					tc.Stdin = strings.NewReader(stdinData)
				}
				tc.Dir = d3
				tc.Env = append(os.Environ(), "HOME="+d3, "VERIF_TRACE="+trace)
				_ = tc.Run()
				_ = os.RemoveAll(d3)
				tb, _ := os.ReadFile(trace)
				_ = os.Remove(trace)
				pts := strings.Fields(string(tb))
				if len(pts) == 0 {
					_ = os.RemoveAll(d2)
					pr.Close()
					_ = os.RemoveAll(d)
					return
				}
				env = append(env, "VERIF_SIGNAL_AT="+pts[0]+"#1:"+g.Pick("SIGINT", "SIGTERM", "SIGQUIT"))
				lines = lines[:1]
			}
			cmdArgs := []string{"--repository", d2}
			if !interruptCommit { // (that variant reads csvq's commit log to learn whether the COMMIT was reached)
				for _, f := range cliFlags {
					cmdArgs = append(cmdArgs, f.cli...)
				}
			}
			cmd := exec.Command(bin, append(cmdArgs, text.String())...)
			if stdinData != "" {
				cmd.Stdin = strings.NewReader(stdinData)
			}
			cmd.Dir = d2
			cmd.Env = append(env, "HOME="+d2)
			var ob bytes.Buffer
			cmd.Stdout, cmd.Stderr = &ob, &ob
			_ = cmd.Run()
			if strings.Contains(ob.String(), "Fatal Error") || strings.Contains(ob.String(), "panic:") {
				o.Law("internal_error", map[string]interface{}{"program": text.String(), "output": ob.String()})
			}
			// model: replay the lines silently, then the ending; only the final disk is compared
			for _, l := range lines {
				o.Case(strings.Replace(l, "c01.", "c01.q", 1), "-")
			}
			if how == "interrupt-last" {
				how = "interrupt"
				_ = os.Remove(filepath.Join(d2, "sig.sh"))
				if !strings.Contains(ob.String(), "signal received") {
					o.Law("signal_in_last_statement_not_reported", map[string]interface{}{"program": text.String(), "output": ob.String()})
				}
				o.Count("process_runs:interrupt-last")
			}
			if how == "interrupt-in-commit" {
				how = "interrupt"
				if stoppedByFailure {
					how = "error" // the final COMMIT was never reached
				} else if !strings.Contains(ob.String(), "signal received") || strings.Contains(ob.String(), "Commit: file") {
					// fewer tables were encoded than the chosen occurrence, or the cancellation was noticed by
					// no encoder (tables without records): the COMMIT completed - it must then be complete
					how = "normal"
				}
			}
			for _, f := range sourced {
				_ = os.Remove(filepath.Join(d2, f))
			}
			o.Context(text.String())
			o.Case("c01.qend "+how, diskState(d2, tr2))
			if interruptCommit {
				o.Count("process_runs:interrupt-in-commit")
			}
			o.Count("process_runs:" + how)
			_ = os.RemoveAll(d2)
		}
		pr.Close()
		_ = os.RemoveAll(d)
	}
}
