package main

import (
	"fmt"
	"os"
	"os/exec"
	"path/filepath"
	"runtime"
	"strings"
	"sync"

	"github.com/mithrandie/csvq/lib/option"
	"github.com/mithrandie/csvq/lib/parser"
	"github.com/mithrandie/csvq/lib/query"
	"github.com/mithrandie/go-text"

	"verifharness/hc"
)

// createdCorpus: "when a procedure ends normally, every table it CREATED … holds on disk exactly the state the
// procedure last saw" — over the space of created tables: the file name's extension in every letter-case spelling
// (the format of a created table is decided from it by NewFileInfoForCreate, the format of every later load by
// SearchFilePath), cell values that hold the OTHER formats' delimiters, every ALTER TABLE … SET attribute before and
// after the first INSERT, and the two normal endings (end of the procedure; COMMIT, more changes, end of the procedure).
// One real csvq process runs the procedure, a FRESH csvq process with the same options reads the table again; the
// reader names the table by its file name alone when the attributes are those a load assumes from the extension, and
// through the format-specified table function that carries the attributes otherwise (a single-line fixed-length
// table is read with FIXED('S[…]', file)).
//
// The expected attributes are the documented ones (docs: "Determination of file format", ALTER TABLE … SET), kept
// here as plain data — the model side of the same tables is Model/CreateTable.lean, tied to the code by
// extract/createfacts.

type cattrs struct {
	format   string // CSV TSV JSON JSONL LTSV FIXED
	delim    string // SQL text of the delimiter
	pos      string // delimiter positions text ("" = measured at every write: read with SPACES)
	single   bool
	enc      string // "" = session default
	noHeader bool
}

// docCreateFormat / docLoadFormat: the two documented tables (extension, letter case ignored)
func docCreateFormat(extLower string) string {
	switch extLower {
	case ".tsv":
		return "TSV"
	case ".json":
		return "JSON"
	case ".jsonl":
		return "JSONL"
	case ".ltsv":
		return "LTSV"
	}
	return "CSV"
}

func docLoadFormat(extLower string) string { return docCreateFormat(extLower) } // --import-format default CSV

func defaultDelim(format string) string {
	if format == "TSV" {
		return "\\t"
	}
	return ","
}

type calter struct {
	name  string
	sql   string // ALTER TABLE %s SET …
	apply func(a *cattrs)
	ok    func(a cattrs) bool // the statement changes something and is accepted
}

func setFormat(f string) func(a *cattrs) {
	return func(a *cattrs) {
		a.format = f
		switch f {
		case "TSV":
			a.delim = "\\t"
		case "JSON", "JSONL":
			a.enc = ""
		}
		// SetFormat leaves SingleLine and the positions alone; no corpus case sets positions AND a format
	}
}

func createdAlters() []calter {
	var as []calter
	for _, f := range []string{"CSV", "TSV", "JSON", "JSONL", "LTSV", "FIXED"} {
		f := f
		as = append(as, calter{"format_" + f, "FORMAT TO " + f, setFormat(f), func(a cattrs) bool { return a.format != f }})
	}
	as = append(as,
		calter{"delimiter_semicolon", "DELIMITER TO ';'", func(a *cattrs) { a.format, a.delim = "CSV", ";" }, func(a cattrs) bool { return true }},
		calter{"delimiter_tab", "DELIMITER TO '\\t'", func(a *cattrs) { a.format, a.delim = "TSV", "\\t" }, func(a cattrs) bool { return a.format != "TSV" }},
		calter{"positions_explicit", "DELIMITER_POSITIONS TO '[5, 10, 15]'", func(a *cattrs) { a.format, a.pos, a.single = "FIXED", "[5, 10, 15]", false }, func(a cattrs) bool { return true }},
		calter{"positions_spaces", "DELIMITER_POSITIONS TO 'SPACES'", func(a *cattrs) { a.format, a.pos, a.single = "FIXED", "", false }, func(a cattrs) bool { return true }},
		calter{"positions_single_line", "DELIMITER_POSITIONS TO 'S[5, 10, 15]'", func(a *cattrs) { a.format, a.pos, a.single = "FIXED", "S[5, 10, 15]", true }, func(a cattrs) bool { return true }},
		calter{"json_escape_hex", "JSON_ESCAPE TO HEX", func(a *cattrs) {}, func(a cattrs) bool { return true }},
		calter{"json_escape_hexall", "JSON_ESCAPE TO HEXALL", func(a *cattrs) {}, func(a cattrs) bool { return true }},
	)
	for _, e := range []string{"UTF8M", "UTF16", "SJIS"} {
		e := e
		as = append(as, calter{"encoding_" + e, "ENCODING TO " + e, func(a *cattrs) { a.enc = e }, func(a cattrs) bool { return a.format != "JSON" && a.format != "JSONL" }})
	}
	as = append(as,
		calter{"line_break_crlf", "LINE_BREAK TO CRLF", func(a *cattrs) {}, func(a cattrs) bool { return true }},
		// a file written with lone CRs is not read back by the go-text readers (known finding F24, C02's clause); JSON has no line structure
		calter{"line_break_cr", "LINE_BREAK TO CR", func(a *cattrs) {}, func(a cattrs) bool { return a.format == "JSON" }},
		calter{"header_false", "HEADER TO FALSE", func(a *cattrs) { a.noHeader = true }, func(a cattrs) bool { return true }},
		calter{"enclose_all", "ENCLOSE_ALL TO TRUE", func(a *cattrs) {}, func(a cattrs) bool { return true }},
		calter{"pretty_print", "PRETTY_PRINT TO TRUE", func(a *cattrs) {}, func(a cattrs) bool { return true }},
	)
	return as
}

// reader: how a fresh process (or the same procedure after a COMMIT) names the table so that it is read with the
// attributes it was written with
func (a cattrs) reader(name, extLower string) string {
	id := "`" + name + "`"
	enc := a.enc
	if enc == "" {
		enc = "AUTO"
	}
	nh := "FALSE"
	if a.noHeader {
		nh = "TRUE"
	}
	switch a.format {
	case "CSV", "TSV":
		if a.format == docLoadFormat(extLower) && a.delim == defaultDelim(a.format) && a.enc == "" && !a.noHeader {
			return id
		}
		return fmt.Sprintf("CSV('%s', %s, '%s', %s)", a.delim, id, enc, nh)
	case "FIXED":
		p := a.pos
		if p == "" {
			p = "SPACES"
		}
		return fmt.Sprintf("FIXED('%s', %s, '%s', %s)", p, id, enc, nh)
	case "JSON", "JSONL":
		if a.format == docLoadFormat(extLower) {
			return id
		}
		return fmt.Sprintf("%s('', %s)", a.format, id)
	default: // LTSV
		if a.format == docLoadFormat(extLower) && a.enc == "" {
			return id
		}
		return fmt.Sprintf("LTSV(%s, '%s')", id, enc)
	}
}

type ccase struct {
	name, extLower, alter, when, ending string
	prog, readBack                      string
	flags                               []string // session options, the same for the procedure and the fresh reader
	// results
	progOut, progErr string
	progOK           bool
	readOut, readErr string
	readOK           bool
	fileExists       bool
	fileHex          string
}

func createdCases() []ccase {
	exts := []string{".csv", ".tsv", ".txt", ".json", ".jsonl", ".ltsv", ""}
	spell := func(base, ext string, k int) string {
		switch k {
		case 0:
			return strings.ToLower(base) + ext
		case 1:
			return strings.ToUpper(base) + strings.ToUpper(ext)
		}
		// Mixed: first letter of the base and first letter behind the dot in upper case
		b := strings.ToUpper(base[:1]) + base[1:]
		if len(ext) > 1 {
			return b + "." + strings.ToUpper(ext[1:2]) + ext[2:]
		}
		return b
	}
	// cells hold the delimiters of the other formats: comma, tab, colon, double and single quote, semicolon, bar
	row := func(a cattrs, k int) string {
		tab := "c\\td"
		if a.format == "LTSV" || a.format == "FIXED" {
			tab = "c+d" // LTSV has no way to spell a tab in a value (it refuses the COMMIT); fixed-length pads with blanks
		}
		rows := [][3]string{{"a,b", "k:v", "q\"x"}, {"it''s", tab, "x;y"}, {"p|q", ",", "\"\""}, {"z:,", "\":", "l,m"}}
		r := rows[k%len(rows)]
		t := "('" + r[0] + "', '" + r[1] + "', '" + r[2] + "')"
		if a.format == "LTSV" {
			t = strings.ReplaceAll(t, ":", "=") // the go-text LTSV reader drops a colon inside a value (known finding F13, C02's clause)
		}
		return t
	}
	alters := createdAlters()
	var cs []ccase
	for ei, ext := range exts {
		for k := 0; k < 3; k++ {
			name := spell("tb", ext, k)
			start := cattrs{format: docCreateFormat(ext)}
			start.delim = defaultDelim(start.format)
			type av struct {
				al   *calter
				when string
			}
			variants := []av{{nil, "none"}}
			// the lower-case spelling gets the full cross product; the placement of the ALTER and the ending do not interact
			// with the spelling of the extension, so UPPER takes the ALTERs behind the INSERT, Mixed in front of it, both
			// with the plain normal end (and both endings for the table without ALTER)
			for i := range alters {
				if alters[i].ok(start) {
					if k != 1 {
						variants = append(variants, av{&alters[i], "before_insert"})
					}
					if k != 2 {
						variants = append(variants, av{&alters[i], "after_insert"})
					}
				}
			}
			for _, v := range variants {
				for _, ending := range []string{"normal_end", "commit_then_changes"} {
					if ending == "commit_then_changes" && k != 0 && v.al != nil {
						continue
					}
					a := start
					alt := ""
					if v.al != nil {
						v.al.apply(&a)
						alt = "ALTER TABLE `" + name + "` SET " + v.al.sql + "; "
					}
					id := "`" + name + "`"
					rd := a.reader(name, ext)
					var sb strings.Builder
					sb.WriteString("CREATE TABLE " + id + " (c1, c2, c3); ")
					if v.when == "before_insert" {
						sb.WriteString(alt)
					}
					if ending == "normal_end" {
						sb.WriteString("INSERT INTO " + id + " VALUES " + row(a, 0) + ", " + row(a, 1) + ", " + row(a, 2) + "; ")
						if v.when == "after_insert" {
							sb.WriteString(alt)
						}
						sb.WriteString("SELECT * FROM " + id + ";")
					} else {
						sb.WriteString("INSERT INTO " + id + " VALUES " + row(a, 0) + ", " + row(a, 1) + "; ")
						if v.when == "after_insert" {
							sb.WriteString(alt)
						}
						// after the COMMIT the table is loaded again from its file
						sb.WriteString("COMMIT; INSERT INTO " + rd + " VALUES " + row(a, 2) + ", " + row(a, 3) + "; UPDATE " + rd + " SET c3 = c3 || " + map[bool]string{true: "',='", false: "',:'"}[a.format == "LTSV"] + " WHERE c1 = 'a,b'; SELECT * FROM " + rd + ";")
					}
					an := "none"
					if v.al != nil {
						an = v.al.name
					}
					cs = append(cs, ccase{name: name, extLower: ext, alter: an, when: v.when, ending: ending, prog: sb.String(), readBack: "SELECT * FROM " + rd + ";"})
					// the same under STRIP_ENDING_LINE_BREAK (the other input of the ending-line-break rule of COMMIT)
					if k == 0 && (an == "none" || strings.HasPrefix(an, "positions_") || an == "format_JSONL" || an == "format_LTSV") {
						c := cs[len(cs)-1]
						c.flags = []string{"--strip-ending-line-break"}
						c.ending += "+strip"
						cs = append(cs, c)
					}
				}
			}
		}
		_ = ei
	}
	return cs
}

func createdCorpus(o *hc.Out, bin, scratch string) {
	cs := createdCases()
	var wg sync.WaitGroup
	workers := runtime.NumCPU()
	if workers > 12 {
		workers = 12
	}
	ch := make(chan int)
	for w := 0; w < workers; w++ {
		wg.Add(1)
		go func() {
			defer wg.Done()
			for i := range ch {
				c := &cs[i]
				dx := filepath.Join(scratch, fmt.Sprintf("c01-created-%d", i))
				_ = os.RemoveAll(dx)
				_ = os.MkdirAll(dx, 0o755)
				runq := func(sql string) (string, string, bool) {
					cmd := exec.Command(bin, append(append([]string{"--repository", dx, "--quiet", "--format", "JSON"}, c.flags...), sql)...)
					cmd.Dir = dx
					cmd.Env = append(os.Environ(), "HOME="+dx)
					var so, se strings.Builder
					cmd.Stdout, cmd.Stderr = &so, &se
					err := cmd.Run()
					return so.String(), se.String(), err == nil
				}
				c.progOut, c.progErr, c.progOK = runq(c.prog)
				if b, err := os.ReadFile(filepath.Join(dx, c.name)); err == nil {
					c.fileExists = true
					c.fileHex = hc.Hex(string(b))
				}
				if c.progOK {
					c.readOut, c.readErr, c.readOK = runq(c.readBack)
				}
				_ = os.RemoveAll(dx)
			}
		}()
	}
	for i := range cs {
		ch <- i
	}
	close(ch)
	wg.Wait()

	ended := 0
	for i := range cs {
		c := &cs[i]
		rep := map[string]interface{}{"file_name": c.name, "session_options": c.flags, "alter": c.alter, "alter_placed": c.when, "ending": c.ending, "program": c.prog,
			"last_select_of_the_procedure": c.progOut, "stderr": c.progErr, "fresh_process_reads_with": c.readBack, "fresh_process_output": c.readOut, "fresh_process_stderr": c.readErr, "file_bytes_hex": c.fileHex}
		switch {
		case !c.progOK:
			// the procedure was refused: nothing of it may be left (ending normal_end: no COMMIT was reached)
			if strings.HasPrefix(c.ending, "normal_end") && c.fileExists {
				o.Law("failed_run_left_created_file", rep)
			}
			o.Count("created:refused")
		case !c.readOK || c.readOut != c.progOut || strings.TrimSpace(c.progOut) == "":
			o.Law("created_table_read_back_differs", rep)
			ended++
		default:
			ended++
			o.NonTrivial(fmt.Sprintf("created:%s:%s:%s:%s", c.name, c.alter, c.when, c.ending))
		}
		o.Eval()
		o.Count("created:" + c.ending)
	}
	// the corpus means something only while (nearly) every procedure of it is accepted
	if ended*10 < len(cs)*9 {
		o.Law("created_corpus_is_vacuous", map[string]interface{}{"cases": len(cs), "ended_normally": ended})
	}
}

// createdFormats: the two decisions in-process, one op line per file name — the format NewFileInfoForCreate gives a
// new table of that name and the format SearchFilePath (automatic selection) gives the existing file of that name;
// the model side evaluates Model/CreateTable.lean (which extract/createfacts ties to the same two functions).
func createdFormats(g *hc.Gen, o *hc.Out, scratch string, n int) {
	dx := filepath.Join(scratch, "c01-extfmt")
	_ = os.RemoveAll(dx)
	_ = os.MkdirAll(dx, 0o755)
	defer os.RemoveAll(dx)
	exts := []string{".csv", ".tsv", ".txt", ".json", ".jsonl", ".ltsv", ".md", ".org", "", ".dat", ".jso", ".tsvx", ".", ".csv.bak", ".json.tsv"}
	letters := func(s string, mode int) string {
		b := []byte(s)
		for i := range b {
			up := false
			switch mode {
			case 1:
				up = true
			case 2:
				up = g.Intn(2) == 0
			}
			if up && b[i] >= 'a' && b[i] <= 'z' {
				b[i] -= 32
			}
		}
		return string(b)
	}
	seen := map[string]bool{}
	for k := 0; k < n; k++ {
		ext := exts[k%len(exts)]
		name := letters("n"+fmt.Sprint(k%7)+ext, (k/len(exts))%3)
		if k%11 == 10 {
			name = letters("d.tsv/"+name, 0) // the extension of a directory is not the extension of the file
		}
		if seen[name] {
			continue
		}
		seen[name] = true
		fmtName := func(f option.Format) string { return strings.ToLower(f.String()) }
		cr := "error"
		if fi, err := query.NewFileInfoForCreate(parser.Identifier{Literal: name}, dx, ',', text.UTF8); err == nil {
			cr = fmtName(fi.Format)
		}
		o.Case("c01.createfmt "+hc.Hex(name), cr)
		_ = os.MkdirAll(filepath.Dir(filepath.Join(dx, name)), 0o755)
		_ = os.WriteFile(filepath.Join(dx, name), []byte("a\n1\n"), 0o644)
		for _, dflt := range []option.Format{option.CSV, option.FIXED, option.LTSV} {
			ld := "error"
			if _, f, err := query.SearchFilePath(parser.Identifier{Literal: name}, dx, option.ImportOptions{Format: option.AutoSelect}, dflt); err == nil {
				ld = fmtName(f)
			}
			o.Case("c01.loadfmt "+hc.Hex(name)+" "+fmtName(dflt), ld)
		}
		_ = os.Remove(filepath.Join(dx, name))
		o.NonTrivial("extfmt:" + strings.ToLower(filepath.Ext(name)) + ":" + cr)
	}
}
