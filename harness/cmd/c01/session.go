package main

import (
	"fmt"
	"os"
	"os/exec"
	"path/filepath"
	"runtime"
	"strings"
	"sync"

	"verifharness/hc"
)

// sessionCorpus: the SESSION's options as a dimension of written files.  A created table takes six options of the
// session (write delimiter, write encoding, line break, without-header, enclose-all, pretty-print) as they are NOW and
// nothing else: not the format of results (--format / @@FORMAT / the extension of --out), not a value an option had
// earlier (Props/C01Session: created_attrs_depend_only_on_own_options, created_attrs_ignore_other_flags,
// result_format_does_not_change_write_delimiter).  Every history below is run as a real process that creates a table
// of every format extension; laws:
//   created_table_read_back_differs      a fresh process (same command-line options) reads the table — by the file name
//                                        alone where the six options have their defaults at CREATE, through the table
//                                        function carrying them otherwise — and prints what the procedure's last
//                                        SELECT printed;
//   created_file_depends_on_option_history  where the six options have their defaults at CREATE (result formats set, set
//                                        and set back; own options set and set back) the file's bytes are those of the
//                                        same procedure in a session without any history.
// The same for a result written with --out: out_file_depends_on_option_history (bytes under `SET @@FORMAT TO X; SET
// @@FORMAT TO G;` / an own option set and set back = bytes under --format G alone), out_file_read_back_differs (the file
// read with the table function of its format gives the table that was selected).

type shist struct {
	name   string
	flags  []string // both processes
	prefix string   // SET statements in front of the procedure (creating process only)
	apply  func(a *cattrs)
	// the six options have their default values when the table is created
	defaults bool
	outFile  string
}

var resultFormats = []string{"CSV", "TSV", "FIXED", "JSON", "JSONL", "LTSV", "GFM", "ORG", "BOX", "TEXT"}

type ownOpt struct {
	name, flag, flagVal, set, setBack string
	apply                             func(a *cattrs)
}

func ownOptions() []ownOpt {
	return []ownOpt{
		{"write_delimiter", "--write-delimiter", ";", "SET @@WRITE_DELIMITER TO ';';", "SET @@WRITE_DELIMITER TO ',';", func(a *cattrs) {
			if a.format == "CSV" {
				a.delim = ";"
			}
		}},
		{"write_encoding", "--write-encoding", "SJIS", "SET @@WRITE_ENCODING TO SJIS;", "SET @@WRITE_ENCODING TO UTF8;", func(a *cattrs) {
			if a.format != "JSON" && a.format != "JSONL" {
				a.enc = "SJIS"
			}
		}},
		{"line_break", "--line-break", "CRLF", "SET @@LINE_BREAK TO CRLF;", "SET @@LINE_BREAK TO LF;", func(a *cattrs) {}},
		{"enclose_all", "--enclose-all", "", "SET @@ENCLOSE_ALL TO TRUE;", "SET @@ENCLOSE_ALL TO FALSE;", func(a *cattrs) {}},
		{"without_header", "--without-header", "", "SET @@WITHOUT_HEADER TO TRUE;", "SET @@WITHOUT_HEADER TO FALSE;", func(a *cattrs) { a.noHeader = true }},
		{"pretty_print", "--pretty-print", "", "SET @@PRETTY_PRINT TO TRUE;", "SET @@PRETTY_PRINT TO FALSE;", func(a *cattrs) {}},
	}
}

func sessionHistories() []shist {
	id := func(a *cattrs) {}
	js := []string{"--format", "JSON"}
	var hs []shist
	for _, f := range resultFormats {
		hs = append(hs,
			shist{name: "result_format_" + f, flags: []string{"--format", f}, apply: id, defaults: true},
			shist{name: "result_format_" + f + "_and_back", flags: js, prefix: "SET @@FORMAT TO " + f + "; SET @@FORMAT TO JSON; ", apply: id, defaults: true})
	}
	for _, ext := range []string{".tsv", ".csv", ".json", ".md", ".txt"} {
		hs = append(hs, shist{name: "out_file" + ext, flags: []string{"--out", "res" + ext}, apply: id, defaults: true, outFile: "res" + ext})
	}
	for _, o := range ownOptions() {
		fl := append([]string{}, js...)
		fl = append(fl, o.flag)
		if o.flagVal != "" {
			fl = append(fl, o.flagVal)
		}
		hs = append(hs,
			shist{name: o.name + "_flag", flags: fl, apply: o.apply},
			shist{name: o.name + "_set", flags: js, prefix: o.set + " ", apply: o.apply},
			shist{name: o.name + "_set_and_back", flags: js, prefix: o.set + " " + o.setBack + " ", apply: id, defaults: true},
			// the option keeps its value through a change of the result format
			shist{name: o.name + "_set_then_result_format_TSV_and_back", flags: js, prefix: o.set + " SET @@FORMAT TO TSV; SET @@FORMAT TO JSON; ", apply: o.apply})
	}
	hs = append(hs, shist{name: "write_delimiter_flag_under_result_format_TSV", flags: []string{"--format", "TSV", "--write-delimiter", ";"}, apply: ownOptions()[0].apply})
	return hs
}

type scase struct {
	hist             shist
	name, ext        string
	prog, readBack   string
	progOut, progErr string
	progOK           bool
	readOut, readErr string
	readOK           bool
	fileHex          string
	fileExists       bool
}

func runPool(n int, f func(i int)) {
	var wg sync.WaitGroup
	workers := runtime.NumCPU()
	if workers > 12 {
		workers = 12
	}
	ch := make(chan int)
	for w := 0; w < workers; w++ {
		wg.Add(1)
		go func() {
			defer wg.Done()
			for i := range ch {
				f(i)
			}
		}()
	}
	for i := 0; i < n; i++ {
		ch <- i
	}
	close(ch)
	wg.Wait()
}

// csvqRun runs one csvq process in dx; what it printed is its standard output followed by the file it wrote with --out
func csvqRun(bin, dx string, flags []string, outFile, sql string) (string, string, bool) {
	cmd := exec.Command(bin, append(append([]string{"--repository", dx, "--quiet"}, flags...), sql)...)
	cmd.Dir = dx
	cmd.Env = append(os.Environ(), "HOME="+dx)
	var so, se strings.Builder
	cmd.Stdout, cmd.Stderr = &so, &se
	err := cmd.Run()
	out := so.String()
	if outFile != "" {
		b, _ := os.ReadFile(filepath.Join(dx, outFile))
		out += "\n--out:\n" + string(b)
		_ = os.Remove(filepath.Join(dx, outFile))
	}
	return out, se.String(), err == nil
}

func sessionCorpus(o *hc.Out, bin, scratch string) {
	names := []struct{ name, ext string }{{"sa.csv", ".csv"}, {"SB.TSV", ".tsv"}, {"sc.txt", ".txt"}, {"Sd.Json", ".json"}, {"se.jsonl", ".jsonl"}, {"SF.LTSV", ".ltsv"}, {"sg", ""}}
	hists := append([]shist{{name: "no_history", flags: []string{"--format", "JSON"}, apply: func(a *cattrs) {}, defaults: true}}, sessionHistories()...)
	var cs []scase
	for _, n := range names {
		for _, h := range hists {
			a := cattrs{format: docCreateFormat(n.ext)}
			a.delim = defaultDelim(a.format)
			h.apply(&a)
			rows := "('a,b', 'k:v', 'q\"x'), ('it''s', 'c+d', 'x;y'), ('p|q', ',', '\"\"')"
			if a.format == "LTSV" {
				rows = strings.ReplaceAll(rows, ":", "=") // known finding F13
			}
			id := "`" + n.name + "`"
			rd := id
			if !h.defaults {
				rd = a.reader(n.name, n.ext)
			}
			cs = append(cs, scase{hist: h, name: n.name, ext: n.ext,
				prog:     h.prefix + "CREATE TABLE " + id + " (c1, c2, c3); INSERT INTO " + id + " VALUES " + rows + "; SELECT * FROM " + id + ";",
				readBack: map[bool]string{true: "", false: h.prefix}[h.defaults] + "SELECT * FROM " + rd + ";"}) // an option still set at the end also shapes the printed result: the reader prints under it too
		}
	}
	runPool(len(cs), func(i int) {
		c := &cs[i]
		dx := filepath.Join(scratch, fmt.Sprintf("c01-session-%d", i))
		_ = os.RemoveAll(dx)
		_ = os.MkdirAll(dx, 0o755)
		c.progOut, c.progErr, c.progOK = csvqRun(bin, dx, c.hist.flags, c.hist.outFile, c.prog)
		if b, err := os.ReadFile(filepath.Join(dx, c.name)); err == nil {
			c.fileExists, c.fileHex = true, hc.Hex(string(b))
		}
		if c.progOK {
			c.readOut, c.readErr, c.readOK = csvqRun(bin, dx, c.hist.flags, c.hist.outFile, c.readBack)
		}
		_ = os.RemoveAll(dx)
	})
	control := map[string]string{}
	for i := range cs {
		if cs[i].hist.name == "no_history" && cs[i].progOK {
			control[cs[i].name] = cs[i].fileHex
		}
	}
	ended := 0
	for i := range cs {
		c := &cs[i]
		rep := map[string]interface{}{"file_name": c.name, "session_history": c.hist.name, "session_options": c.hist.flags, "program": c.prog,
			"last_select_of_the_procedure": c.progOut, "stderr": c.progErr, "fresh_process_reads_with": c.readBack, "fresh_process_output": c.readOut,
			"fresh_process_stderr": c.readErr, "file_bytes_hex": c.fileHex}
		o.Eval()
		o.Count("session:created")
		if !c.progOK {
			if c.fileExists {
				o.Law("failed_run_left_created_file", rep)
			}
			o.Count("session:refused")
			continue
		}
		ended++
		bad := false
		if !c.readOK || c.readOut != c.progOut || strings.TrimSpace(c.progOut) == "" {
			o.Law("created_table_read_back_differs", rep)
			bad = true
		}
		if ctl, ok := control[c.name]; ok && c.hist.defaults && c.fileHex != ctl {
			rep["file_bytes_hex_without_the_history"] = ctl
			o.Law("created_file_depends_on_option_history", rep)
			bad = true
		}
		if !bad {
			o.NonTrivial("session:" + c.name + ":" + c.hist.name)
		}
	}
	if ended*10 < len(cs)*9 {
		o.Law("session_corpus_is_vacuous", map[string]interface{}{"cases": len(cs), "ended_normally": ended})
	}
	outCorpus(o, bin, scratch)
}

// outCorpus: a result written with --out
func outCorpus(o *hc.Out, bin, scratch string) {
	src := "c1,c2,c3\n\"a,b\",k=v,\"q\"\"x\"\nit's,c+d,x;y\np|q,\",\",\"\"\"\"\"\"\n"
	readers := map[string]string{"CSV": "CSV(',', `o.bin`)", "TSV": "CSV('\\t', `o.bin`)", "FIXED": "FIXED('SPACES', `o.bin`)", "JSON": "JSON('', `o.bin`)", "JSONL": "JSONL('', `o.bin`)", "LTSV": "LTSV(`o.bin`)"}
	type ocase struct {
		g, hist        string
		flags          []string
		outFile, sql   string
		bytes, errText string
		ok             bool
		readOut        string
		readOK         bool
	}
	var cs []ocase
	for _, g := range resultFormats {
		cs = append(cs, ocase{g: g, hist: "control", flags: []string{"--format", g, "--out", "o.bin"}, outFile: "o.bin", sql: "SELECT * FROM src;"})
		for _, x := range []string{"TSV", "CSV", "JSON", "FIXED", "TEXT"} {
			if x != g {
				cs = append(cs, ocase{g: g, hist: "result_format_" + x + "_then_" + g, flags: []string{"--out", "o.bin"}, outFile: "o.bin", sql: "SET @@FORMAT TO " + x + "; SET @@FORMAT TO " + g + "; SELECT * FROM src;"})
			}
		}
		for _, op := range ownOptions() {
			cs = append(cs, ocase{g: g, hist: op.name + "_set_and_back", flags: []string{"--format", g, "--out", "o.bin"}, outFile: "o.bin", sql: op.set + " " + op.setBack + " SELECT * FROM src;"})
		}
	}
	// the format of the extension of --out, changed by SET
	for _, e := range []struct{ ext, g string }{{".tsv", "CSV"}, {".csv", "TSV"}, {".json", "CSV"}, {".tsv", "LTSV"}} {
		cs = append(cs, ocase{g: e.g, hist: "control_o" + e.ext, flags: []string{"--format", e.g, "--out", "o" + e.ext}, outFile: "o" + e.ext, sql: "SELECT * FROM src;"},
			ocase{g: e.g, hist: "extension" + e.ext + "_then_" + e.g, flags: []string{"--out", "o" + e.ext}, outFile: "o" + e.ext, sql: "SET @@FORMAT TO " + e.g + "; SELECT * FROM src;"})
	}
	want := ""
	runPool(len(cs)+1, func(i int) {
		dx := filepath.Join(scratch, fmt.Sprintf("c01-out-%d", i))
		_ = os.RemoveAll(dx)
		_ = os.MkdirAll(dx, 0o755)
		defer os.RemoveAll(dx)
		_ = os.WriteFile(filepath.Join(dx, "src.csv"), []byte(src), 0o644)
		if i == len(cs) {
			want, _, _ = csvqRun(bin, dx, []string{"--format", "JSON"}, "", "SELECT * FROM src;")
			return
		}
		c := &cs[i]
		cmd := exec.Command(bin, append(append([]string{"--repository", dx, "--quiet"}, c.flags...), c.sql)...)
		cmd.Dir = dx
		cmd.Env = append(os.Environ(), "HOME="+dx)
		var se strings.Builder
		cmd.Stderr = &se
		c.ok = cmd.Run() == nil
		c.errText = se.String()
		b, _ := os.ReadFile(filepath.Join(dx, c.outFile))
		c.bytes = string(b)
		if rd, loadable := readers[c.g]; loadable && c.ok {
			if c.outFile != "o.bin" {
				_ = os.Rename(filepath.Join(dx, c.outFile), filepath.Join(dx, "o.bin"))
			}
			c.readOut, _, c.readOK = csvqRun(bin, dx, []string{"--format", "JSON"}, "", "SELECT * FROM "+rd+";")
		}
	})
	control := map[string]string{}
	for _, c := range cs {
		if strings.HasPrefix(c.hist, "control") && c.ok {
			control[c.g+"/"+c.outFile] = c.bytes
		}
	}
	for _, c := range cs {
		rep := map[string]interface{}{"result_format": c.g, "session_history": c.hist, "options": c.flags, "program": c.sql, "stderr": c.errText,
			"out_file_hex": hc.Hex(c.bytes), "selected_table": want, "read_back": c.readOut}
		o.Eval()
		o.Count("session:out")
		if !c.ok {
			o.Law("out_corpus_case_refused", rep)
			continue
		}
		bad := false
		if ctl, ok := control[c.g+"/"+c.outFile]; ok && c.bytes != ctl {
			rep["out_file_hex_without_the_history"] = hc.Hex(ctl)
			o.Law("out_file_depends_on_option_history", rep)
			bad = true
		}
		if _, loadable := readers[c.g]; loadable && (!c.readOK || c.readOut != want || strings.TrimSpace(want) == "") {
			o.Law("out_file_read_back_differs", rep)
			bad = true
		}
		if !bad {
			o.NonTrivial("out:" + c.g + ":" + c.hist)
		}
	}
}
