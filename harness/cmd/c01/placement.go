package main

import (
	"fmt"
	"os"
	"os/exec"
	"path/filepath"
	"strings"

	"verifharness/hc"
)

// endingPlacement: "when it ends by an error or EXIT … every table file is exactly as it was at the most recent COMMIT
// and files created since then do not exist" — wherever the ending statement stands: at the top level or at any depth
// of nested statement lists (IF / ELSEIF / ELSE, CASE, WHILE, WHILE IN, SOURCE, a sourced file that sources another,
// EXECUTE of a string, PREPARE + EXECUTE).  The procedure commits once in the middle, so the state to come back to is
// that commit point (not the start); the statements behind the ending must not run.  One real process per
// wrapper × ending; deterministic.
func endingPlacement(o *hc.Out, bin, scratch string) {
	endings := []struct{ name, st string }{{"exit", "EXIT;"}, {"error", "SELECT 1 / 0 FROM DUAL;"}}
	for _, w := range hc.EndingWrappers() {
		for _, e := range endings {
			dx := filepath.Join(scratch, "c01-place-"+w.Name+"-"+e.name)
			_ = os.RemoveAll(dx)
			_ = os.MkdirAll(dx, 0o755)
			_ = os.WriteFile(filepath.Join(dx, "a.csv"), []byte("id,v\n1,p\n2,q\n"), 0o644)
			_ = os.WriteFile(filepath.Join(dx, "b.csv"), []byte("id,w\n0,x\n1,y\n2,z\n"), 0o644)
			prog := "UPDATE a SET v = 'c1' WHERE id = 1; CREATE TABLE `k.csv` (x); INSERT INTO `k.csv` VALUES (7); COMMIT; " +
				"UPDATE a SET v = 'lost' WHERE id = 2; INSERT INTO b VALUES (9, 'lost'); CREATE TABLE `c.csv` (x, y); INSERT INTO `k.csv` VALUES (8); " +
				w.Wrap(dx, e.st) + " PRINT 'LATE-STATEMENT'; INSERT INTO b VALUES (10, 'late');"
			want := map[string]string{"a.csv": "id,v\n1,c1\n2,q\n", "b.csv": "id,w\n0,x\n1,y\n2,z\n", "k.csv": "x\n7\n"}
			cmd := exec.Command(bin, "--repository", dx, "--quiet", prog)
			cmd.Dir = dx
			cmd.Env = append(os.Environ(), "HOME="+dx)
			out, _ := cmd.CombinedOutput()
			after := map[string]string{}
			ents, _ := os.ReadDir(dx)
			for _, en := range ents {
				if strings.HasSuffix(en.Name(), ".sql") {
					continue
				}
				b, _ := os.ReadFile(filepath.Join(dx, en.Name()))
				after[en.Name()] = string(b)
			}
			rep := map[string]interface{}{"wrapper": w.Name, "ending": e.name, "program": prog, "output": string(out), "files_after": after}
			bad := false
			for n, wv := range want {
				if after[n] != wv {
					rep["file"], rep["want"] = n, wv
					bad = true
				}
			}
			for n := range after {
				if _, ok := want[n]; !ok {
					rep["left_behind"] = n
					bad = true
				}
			}
			if strings.Contains(string(out), "LATE-STATEMENT") || strings.Contains(string(out), "LATE-IN-FILE") {
				rep["ran_after_ending"] = true
				bad = true
			}
			if bad {
				o.Law("abnormal_end_from_nested_list_not_at_commit_point", rep)
			}
			o.Eval()
			o.Count("placement:" + w.Name + ":" + e.name)
			o.NonTrivial(fmt.Sprintf("placement:%s:%s", w.Name, e.name))
			_ = os.RemoveAll(dx)
		}
	}
}
