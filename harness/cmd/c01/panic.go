package main

// An INTERNAL FAILURE (a Go panic on the statement's own goroutine) in the middle of a procedure is an ending by
// error: Processor.execute's deferred recover turns it into a Fatal Error, nothing after it runs, Execute does not
// auto-commit, the deferred AutoRollback of the command puts every table back to the most recent commit point.
// No input makes csvq panic, so the failure is injected from outside, through the exported Session API only: the
// standard-output device of the session panics when a marker is written to it, and the program PRINTs the marker at
// a random position — at the top level, inside IF / WHILE / CASE bodies (a nested statement list has its own
// recover), inside a user-defined function called by a statement or by the VALUES list of an INSERT.
// The whole procedure goes through ONE Processor.Execute with Tx.AutoCommit = true, as action.Run does.
// The model sees the statements in front of the failure and then `end error` (op lines `c01.q…`, `c01.qend error`);
// the same procedure with a harmless marker is the control (`c01.qend normal`).

import (
	"bytes"
	"fmt"
	"os"
	"path/filepath"
	"strings"
	"time"

	"github.com/mithrandie/csvq/lib/parser"
	"github.com/mithrandie/csvq/lib/query"

	"verifharness/hc"
)

const panicMarker = "boom-c01"

// a standard-output device that fails internally when the marker reaches it
type failingDevice struct {
	buf   bytes.Buffer
	fired int
}

func (w *failingDevice) Write(p []byte) (int, error) {
	if bytes.Contains(p, []byte(panicMarker)) {
		w.fired++
		panic("output device failed")
	}
	return w.buf.Write(p)
}

func (w *failingDevice) Close() error { return nil }

type pstmt struct{ line, sql string }

func panicHistories(g *hc.Gen, o *hc.Out, scratch string, rounds int) {
	for r := 0; r < rounds; r++ {
		// ---- the files and a history of statements that cannot fail by themselves
		init := make([]string, nFiles)
		initial := make([][]int, nFiles)
		exists := [nFiles]bool{}
		for p := 0; p < nFiles; p++ {
			init[p] = "-"
			if p < 2 || (p == 2 && g.Intn(2) == 0) {
				xs := make([]int, g.Intn(4))
				for i := range xs {
					xs[i] = g.Intn(5)
				}
				initial[p], exists[p], init[p] = xs, true, tbl(xs)
			}
		}
		temp := [2]bool{}
		var stmts []pstmt
		m := 2 + g.Intn(8)
		for len(stmts) < m {
			p := g.Intn(nFiles)
			switch c := g.Intn(12); {
			case c < 6:
				for k := 0; k < 8 && !exists[p]; k++ {
					p = g.Intn(nFiles)
				}
				if !exists[p] {
					continue
				}
				k, a := g.Pick("append", "append", "delwhere", "incr"), g.Intn(5)
				stmts = append(stmts, pstmt{fmt.Sprintf("c01.qdml %d %s %d", p, k, a), dmlSQL(fmt.Sprintf("`f%d.csv`", p), k, a)})
			case c < 7:
				for k := 0; k < 8 && exists[p]; k++ {
					p = g.Intn(nFiles)
				}
				if exists[p] {
					continue
				}
				exists[p] = true
				stmts = append(stmts, pstmt{fmt.Sprintf("c01.qcreate %d", p), fmt.Sprintf("CREATE TABLE `f%d.csv` (v);", p)})
			case c < 8:
				t := g.Intn(2)
				if temp[t] {
					continue
				}
				temp[t] = true
				stmts = append(stmts, pstmt{fmt.Sprintf("c01.qdtemp %d", t), fmt.Sprintf("DECLARE tt%d VIEW (v, h0);", t)})
			case c < 9:
				t := g.Intn(2)
				if !temp[t] {
					continue
				}
				k, a := g.Pick("append", "delwhere", "incr"), g.Intn(5)
				stmts = append(stmts, pstmt{fmt.Sprintf("c01.qdmltemp %d %s %d", t, k, a), dmlSQL(fmt.Sprintf("tt%d", t), k, a)})
			case c < 11:
				stmts = append(stmts, pstmt{"c01.qcommit", "COMMIT;"})
			default:
				// after a ROLLBACK a created file is gone again: keep the bookkeeping simple, no CREATE before it
				ok := true
				for _, s := range stmts {
					ok = ok && !strings.HasPrefix(s.line, "c01.qcreate")
				}
				if ok {
					stmts = append(stmts, pstmt{"c01.qrollback", "ROLLBACK;"})
				}
			}
		}
		k := g.Intn(m + 1) // statements executed before the failure
		if k == 0 && g.Intn(3) > 0 {
			k = 1 + g.Intn(m)
		}

		// ---- where the failure happens
		placement := g.Pick("top", "if", "while", "case", "if_in_while", "function", "function_in_values", "function_in_if")
		// the borders of the block for the nested placements.  DECLARE … VIEW stays outside (a table declared inside
		// a block is local to it)
		bi, bj := k, k
		for bi > 0 && g.Intn(2) == 0 && !strings.HasPrefix(stmts[bi-1].line, "c01.qdtemp") {
			bi--
		}
		for bj < m && g.Intn(2) == 0 && !strings.HasPrefix(stmts[bj].line, "c01.qdtemp") {
			bj++
		}
		build := func(marker string) string {
			print := "PRINT '" + marker + "';"
			sqls := make([]string, len(stmts))
			for i, s := range stmts {
				sqls[i] = s.sql
			}
			join := func(a, b int) string { return strings.Join(sqls[a:b], " ") }
			prolog := ""
			boom := print
			switch placement {
			case "function", "function_in_if":
				prolog = "DECLARE boomf FUNCTION () AS BEGIN " + print + " RETURN 1; END; "
				boom = "VAR @bx := boomf();"
			case "function_in_values":
				prolog = "DECLARE boomf FUNCTION () AS BEGIN " + print + " RETURN 1; END; DECLARE bsink VIEW (v); "
				boom = "INSERT INTO bsink (v) VALUES (boomf());"
			}
			switch placement {
			case "top", "function", "function_in_values":
				return prolog + join(0, k) + " " + boom + " " + join(k, m)
			}
			// a block around the statements bi … bj-1, the failure inside it
			i, j := bi, bj
			body := join(i, k) + " " + boom + " " + join(k, j)
			var block string
			switch placement {
			case "if", "function_in_if":
				block = "IF 1 = 1 THEN " + body + " END IF;"
			case "while":
				block = "VAR @bi := 0; WHILE @bi < 1 DO @bi := @bi + 1; " + body + " END WHILE;"
			case "case":
				block = "CASE WHEN 1 = 1 THEN " + body + " END CASE;"
			default:
				block = "VAR @bi := 0; WHILE @bi < 1 DO @bi := @bi + 1; IF 1 = 1 THEN " + body + " END IF; END WHILE;"
			}
			return prolog + join(0, i) + " " + block + " " + join(j, m)
		}
		programFail := build(panicMarker)
		programCtl := build("harmless")

		for _, variant := range []string{"failure", "control"} {
			program, upto, ending := programFail, k, "error"
			if variant == "control" {
				program, upto, ending = programCtl, m, "normal"
			}
			d := filepath.Join(scratch, fmt.Sprintf("c01-panic-%d", r))
			_ = os.RemoveAll(d)
			_ = os.MkdirAll(d, 0o755)
			tr := &tracker{}
			for p := 0; p < nFiles; p++ {
				if initial[p] != nil {
					_ = os.WriteFile(filepath.Join(d, fmt.Sprintf("f%d.csv", p)), fileBytes(initial[p]), 0o644)
					tr.exists[p] = true
				}
			}
			pr := hc.NewProc(d)
			dev := &failingDevice{}
			pr.P.Tx.Session.SetStdout(dev)
			o.Case("c01.reset "+strings.Join(init, " "), diskState(d, tr)+"|"+tempState(pr, tr))

			pr.P.Tx.AutoCommit = true // what action.Run does for `csvq <procedure>`
			parsed, _, perr := parser.Parse(program, "", false, false)
			if perr != nil {
				o.Law("panic_history_does_not_parse", map[string]interface{}{"program": program, "error": perr.Error()})
				pr.Close()
				continue
			}
			// (quiet, as the notices of COMMIT / ROLLBACK go to the same device: Session.WriteToStdout holds the session
			// mutex while the device writes, a device that panics leaves it locked and the next notice would block)
			pr.P.Tx.Flags.SetQuiet(true)
			var flow query.StatementFlow
			var err error
			done := make(chan struct{})
			go func() {
				defer close(done)
				flow, err = pr.P.Execute(pr.Ctx, parsed)
				// what the command does on every exit path
				_ = pr.P.AutoRollback()
				_ = pr.P.ReleaseResourcesWithErrors()
			}()
			select {
			case <-done:
			case <-time.After(20 * time.Second):
				o.Law("run_hangs_after_internal_failure", map[string]interface{}{"program": program, "variant": variant, "placement": placement})
				continue
			}

			// the bookkeeping `diskState` needs, up to the statement the run reached
			for _, s := range stmts[:upto] {
				f := strings.Fields(s.line)
				switch f[0] {
				case "c01.qcreate":
					var p int
					fmt.Sscan(f[1], &p)
					tr.exists[p], tr.created[p] = true, true
				case "c01.qcommit":
					tr.endTx(true)
				case "c01.qrollback":
					tr.endTx(false)
				}
			}
			tr.endTx(ending == "normal")
			final := diskState(d, tr)

			rec := func() map[string]interface{} {
				e := "<nil>"
				if err != nil {
					e = strings.SplitN(err.Error(), "\n", 2)[0]
				}
				return map[string]interface{}{"program": program, "initial_files": init, "placement": placement, "statements_before_the_failure": k,
					"returned_flow": int(flow), "returned_error": e, "files_after_the_run": final}
			}
			if variant == "failure" {
				if dev.fired == 0 {
					o.Law("panic_not_injected", rec()) // the harness' own vacuity guard
				} else {
					if err == nil {
						o.Law("internal_failure_not_reported", rec())
					} else if !strings.Contains(err.Error(), "Fatal Error") {
						o.Law("internal_failure_reported_as_ordinary_error", rec())
					}
				}
			} else if err != nil {
				o.Law("control_run_failed", rec())
			}
			for _, s := range stmts[:upto] {
				o.Case(s.line, "-")
			}
			o.Context(fmt.Sprintf("%s run, placement %s, %d statement(s) before the failure; procedure: %s; Execute returned flow=%d err=%v", variant, placement, k, program, int(flow), rec()["returned_error"]))
			o.Case("c01.qend "+ending, final)
			o.NonTrivial(fmt.Sprintf("panic:%s:%s:%d:%s", variant, placement, k, final))
			o.Count("panic_runs:" + variant)
			ents, _ := os.ReadDir(d)
			for _, e := range ents {
				if strings.HasPrefix(e.Name(), ".") {
					o.Law("control_file_left", map[string]interface{}{"file": e.Name(), "ending": "internal failure (" + variant + ")", "program": program})
				}
			}
			_ = os.RemoveAll(d)
		}
	}
}
