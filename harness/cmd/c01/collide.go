package main

// PATH-KEY COLLISIONS inside one transaction.  csvq keys its handler container, its view cache and its list of
// uncommitted tables by the UPPER-CASED cleaned absolute path; on a case-sensitive file system `T.csv` is another file
// than `t.csv` but the same key.  A CREATE TABLE whose name collides with a table the transaction already holds (for
// update, created, or only read) is refused — and being refused it must change nothing:
//
//	law failed_create_left_files_or_dropped_locks
//	  * after the failing CREATE the directory holds exactly what it held before it (the control files of the tables
//	    the transaction holds included), byte for byte;
//	  * the held table is STILL held: a second transaction that wants it times out, exactly as before the CREATE;
//	  * the way the run ends (error, ROLLBACK, normal end) leaves what it leaves without the refused statement.
//
// (Known finding F86 — two EXISTING files that differ only in letter case share one cached table — is a different
// matter with its own law, case_twin_files_share_one_cached_table; no statement here reads or writes through a
// second existing twin.)

import (
	"bytes"
	"fmt"
	"os"
	"os/exec"
	"path/filepath"
	"runtime"
	"strings"

	"github.com/mithrandie/csvq/lib/option"

	"verifharness/hc"
)

type holder struct {
	name    string
	sql     string // takes (or only reads) the table
	file    string // the table file held
	locking bool   // a second transaction has to wait for it
	// what the held file holds after a normal end
	committed string
}

const collideInitial = "a,b\n1,x\n2,y\n"

// probeHeld: does a SECOND transaction (own container, own cache — another process as far as the files go) get the
// table for update within `wait` seconds?  Changes nothing either way.  (A table expected to be held is probed with 0.1 s —
// a slow machine can only turn "acquired" into "timeout" there, hiding a violation, never raising one; a table expected
// to be free is probed with 2 s, which is never waited for.)
func probeHeld(dir, file string, wait float64) string {
	pr := hc.NewProc(dir)
	defer pr.Close()
	pr.P.Tx.AutoCommit = false
	_ = pr.P.Tx.SetFlag(option.WaitTimeoutFlag, wait)
	_, err := pr.Query("SELECT * FROM `" + file + "` FOR UPDATE")
	switch {
	case err == nil:
		return "acquired"
	case strings.Contains(err.Error(), "exceeded"):
		return "timeout"
	}
	return "error:" + rePos.ReplaceAllString(err.Error(), "")
}

func collisionCorpus(o *hc.Out, bin, scratch string) {
	holders := []holder{
		{"update", "UPDATE t SET b = 'z' WHERE a = 1;", "t.csv", true, "a,b\n1,z\n2,y\n"},
		{"insert", "INSERT INTO t VALUES (3, 'w');", "t.csv", true, "a,b\n1,x\n2,y\n3,w\n"},
		{"for_update", "SELECT * FROM t FOR UPDATE;", "t.csv", true, collideInitial},
		{"created", "CREATE TABLE `n.csv` (a, b);", "n.csv", true, "a,b\n"},
		{"read_only", "SELECT * FROM t;", "t.csv", false, collideInitial},
	}
	// spellings of another file with the same key: letter case of name and extension, ./, a path that needs cleaning,
	// an absolute path (\x01 = the directory)
	twins := func(base string) [][2]string {
		up := strings.ToUpper(base)
		return [][2]string{
			{up + ".csv", up + ".csv"},
			{"./" + base + ".CSV", base + ".CSV"},
			{"sub/../" + up + ".CSV", up + ".CSV"},
			{"\x01/" + up + ".csv", up + ".csv"},
			{"./sub/.././" + base + ".Csv", base + ".Csv"},
		}
	}
	endings := []string{"error", "rollback", "normal"}
	n := 0
	for _, h := range holders {
		for ti, tw := range twins(strings.TrimSuffix(h.file, ".csv")) {
			ending := endings[(n+ti)%len(endings)]
			n++
			func() {
				defer func() {
					// a Go panic inside csvq (e.g. a COMMIT that reaches for a handler the refused CREATE closed)
					if p := recover(); p != nil {
						buf := make([]byte, 2048)
						buf = buf[:runtime.Stack(buf, false)]
						o.Law("internal_panic", map[string]interface{}{"corpus": "collision", "holder": h.name, "create": tw[0], "ending": ending, "panic": fmt.Sprint(p), "stack": string(buf)})
					}
				}()
				d := filepath.Join(scratch, fmt.Sprintf("c01-col-%s-%d", h.name, ti))
				_ = os.RemoveAll(d)
				_ = os.MkdirAll(filepath.Join(d, "sub"), 0o755)
				_ = os.WriteFile(filepath.Join(d, "t.csv"), []byte(collideInitial), 0o644)
				initial := dirBytes(d)
				create := fmt.Sprintf("CREATE TABLE `%s` (a, b);", strings.ReplaceAll(tw[0], "\x01", d))
				rep := map[string]interface{}{"holder": h.name, "held_file": h.file, "holding_statement": h.sql, "create": strings.ReplaceAll(create, d, "<dir>"), "ending": ending}
				bad := func(what string, more map[string]interface{}) {
					r := map[string]interface{}{"what": what}
					for k, v := range rep {
						r[k] = v
					}
					for k, v := range more {
						r[k] = v
					}
					o.Law("failed_create_left_files_or_dropped_locks", r)
				}

				pr := hc.NewProc(d)
				pr.P.Tx.AutoCommit = false
				var herr error
				if strings.HasPrefix(h.sql, "SELECT") {
					_, herr = pr.Query(strings.TrimSuffix(h.sql, ";"))
				} else {
					_, herr = pr.Exec(h.sql)
				}
				if herr != nil {
					o.Law("harness_statement_failed", map[string]interface{}{"statement": h.sql, "error": herr.Error()})
					pr.Close()
					_ = os.RemoveAll(d)
					return
				}
				before := dirBytes(d)
				wait := 2.0
				if h.locking {
					wait = 0.1
				}
				probe0 := probeHeld(d, h.file, wait)
				if h.locking && probe0 != "timeout" {
					// the control: without it the "still held" half of the law says nothing
					o.Law("collision_probe_is_vacuous", map[string]interface{}{"holder": h.name, "probe": probe0})
				}
				_, cerr := pr.Exec(create)
				after := dirBytes(d)
				probe1 := probeHeld(d, h.file, wait)
				rep["create_error"] = ""
				if cerr != nil {
					rep["create_error"] = rePos.ReplaceAllString(strings.ReplaceAll(cerr.Error(), d, "<dir>"), "")
					if after != before {
						bad("the refused CREATE changed the directory", map[string]interface{}{"directory_before": before, "directory_after": after})
					}
				} else {
					want := strings.Fields(before)
					want = append(want, tw[1]+"=", "."+tw[1]+".lock")
					got := strings.Fields(after)
					if !sameSet(want, got) {
						bad("the accepted CREATE left more or less than the new file and its lock file", map[string]interface{}{"directory_before": before, "directory_after": after})
					}
				}
				if probe1 != probe0 {
					bad("the table held before the CREATE is not held as before", map[string]interface{}{"second_transaction_before": probe0, "second_transaction_after": probe1})
				}
				// the ending
				var endErr error
				switch ending {
				case "normal":
					endErr = pr.P.AutoCommit(pr.Ctx)
				case "rollback":
					_, endErr = pr.Exec("ROLLBACK;")
				default:
					endErr = pr.P.AutoRollback()
				}
				_ = pr.P.ReleaseResourcesWithErrors()
				final := dirBytes(d)
				expect := initial
				if ending == "normal" {
					m := map[string]string{"t.csv": collideInitial}
					m[h.file] = h.committed
					if cerr == nil {
						m[tw[1]] = "a,b\n"
					}
					var st []string
					for k, v := range m {
						st = append(st, k+"="+hc.Hex(v))
					}
					st = append(st, "sub/")
					expect = strings.Join(st, " ")
				}
				if !sameSet(strings.Fields(expect), strings.Fields(final)) || endErr != nil {
					e := ""
					if endErr != nil {
						e = endErr.Error()
					}
					bad("the ending did not leave what it leaves without the refused statement", map[string]interface{}{"directory_at_end": final, "expected": expect, "ending_error": e})
				}
				pr.Close()
				o.Eval()
				o.Count("collision_cases")
				o.Count(fmt.Sprintf("collision_create_refused:%v", cerr != nil))
				o.NonTrivial(fmt.Sprintf("collide:%s:%d:%s:%v", h.name, ti, ending, cerr != nil))

				// the same as ONE real process: holding statement, CREATE, a change of the new table
				if bin != "" {
					_ = os.RemoveAll(d)
					_ = os.MkdirAll(filepath.Join(d, "sub"), 0o755)
					_ = os.WriteFile(filepath.Join(d, "t.csv"), []byte(collideInitial), 0o644)
					prog := h.sql + " " + create + fmt.Sprintf(" INSERT INTO `%s` VALUES (8, 9);", strings.ReplaceAll(tw[0], "\x01", d))
					c := exec.Command(bin, "--repository", d, prog)
					c.Dir = d
					c.Env = append(os.Environ(), "HOME="+d)
					var ob bytes.Buffer
					c.Stdout, c.Stderr = &ob, &ob
					perr := c.Run()
					final := dirBytes(d)
					if perr != nil {
						// ended by an error: everything as at the start, nothing created, no control file
						if final != initial {
							bad("a run that ended by an error left files or changes behind", map[string]interface{}{"level": "process", "program": strings.ReplaceAll(prog, d, "<dir>"), "output": strings.ReplaceAll(ob.String(), d, "<dir>"), "directory_at_end": final, "expected": initial})
						}
					} else {
						m := map[string]string{"t.csv": collideInitial}
						m[h.file] = h.committed
						m[tw[1]] = "a,b\n8,9\n"
						var st []string
						for k, v := range m {
							st = append(st, k+"="+hc.Hex(v))
						}
						st = append(st, "sub/")
						if !sameSet(st, strings.Fields(final)) {
							bad("a run that ended normally did not publish what the procedure last saw", map[string]interface{}{"level": "process", "program": strings.ReplaceAll(prog, d, "<dir>"), "output": strings.ReplaceAll(ob.String(), d, "<dir>"), "directory_at_end": final, "expected": strings.Join(st, " ")})
						}
					}
					if (perr != nil) != (cerr != nil) {
						bad("the CREATE is refused in one run and accepted in the other", map[string]interface{}{"level": "process", "output": strings.ReplaceAll(ob.String(), d, "<dir>")})
					}
					o.Eval()
					o.Count("collision_process_runs")
				}
				_ = os.RemoveAll(d)
			}()
		}
	}
}

func sameSet(a, b []string) bool {
	if len(a) != len(b) {
		return false
	}
	m := map[string]int{}
	for _, x := range a {
		m[x]++
	}
	for _, x := range b {
		m[x]--
	}
	for _, v := range m {
		if v != 0 {
			return false
		}
	}
	return true
}
