package main

// lockedReload: the reload that gives a transaction the CURRENT file under its lock, when the lock had to be waited
// for.  A real csvq process A is held (VERIF_PAUSE_AT, build tag verif) just before it takes the update lock of
// the table; a second process B then changes and commits the same table; A is let go.  Whatever A did with the
// table before — a plain SELECT, a COMMIT, a ROLLBACK, nothing — the table A works on from there is B's committed
// file plus A's own changes, on screen and on disk.

import (
	"bytes"
	"fmt"
	"os"
	"os/exec"
	"path/filepath"
	"time"

	"verifharness/hc"
)

func lockedReload(o *hc.Out, bin, scratch string) {
	const init = "id,v\n1,a\n2,b\n"
	const other = "UPDATE t SET v = 'B' WHERE id = 1"
	type form struct {
		name, prog string
		k          int // A is held at its k-th attempt to take an update lock
		wantOut    string
		wantFile   string
	}
	forms := []form{
		{"plain_select_then_update", "SELECT v FROM t; UPDATE t SET v = 'A' WHERE id = 2; SELECT id, v FROM t ORDER BY id", 1,
			"v\na\nb\nid,v\n1,B\n2,A\n", "id,v\n1,B\n2,A\n"},
		{"plain_select_then_insert", "SELECT v FROM t; INSERT INTO t VALUES (3, 'A'); SELECT id, v FROM t ORDER BY id", 1,
			"v\na\nb\nid,v\n1,B\n2,b\n3,A\n", "id,v\n1,B\n2,b\n3,A\n"},
		{"plain_select_then_delete", "SELECT v FROM t; DELETE FROM t WHERE id = 2; SELECT id, v FROM t ORDER BY id", 1,
			"v\na\nb\nid,v\n1,B\n", "id,v\n1,B\n"},
		{"plain_select_then_select_for_update", "SELECT v FROM t; SELECT id, v FROM t ORDER BY id FOR UPDATE", 1,
			"v\na\nb\nid,v\n1,B\n2,b\n", "id,v\n1,B\n2,b\n"},
		{"first_access_for_update", "SELECT id, v FROM t ORDER BY id FOR UPDATE", 1,
			"id,v\n1,B\n2,b\n", "id,v\n1,B\n2,b\n"},
		{"first_access_update", "UPDATE t SET v = 'A' WHERE id = 2; SELECT id, v FROM t ORDER BY id", 1,
			"id,v\n1,B\n2,A\n", "id,v\n1,B\n2,A\n"},
		{"after_commit_for_update", "UPDATE t SET v = 'A' WHERE id = 2; COMMIT; SELECT id, v FROM t ORDER BY id FOR UPDATE", 2,
			"id,v\n1,B\n2,A\n", "id,v\n1,B\n2,A\n"},
		{"after_commit_update", "UPDATE t SET v = 'A' WHERE id = 2; COMMIT; UPDATE t SET v = v || '2' WHERE id = 2; SELECT id, v FROM t ORDER BY id", 2,
			"id,v\n1,B\n2,A2\n", "id,v\n1,B\n2,A2\n"},
		{"after_rollback_update", "UPDATE t SET v = 'A' WHERE id = 2; ROLLBACK; UPDATE t SET v = v || '2' WHERE id = 2; SELECT id, v FROM t ORDER BY id", 2,
			"id,v\n1,B\n2,b2\n", "id,v\n1,B\n2,b2\n"},
		{"after_rollback_plain_select_then_update", "UPDATE t SET v = 'A' WHERE id = 2; ROLLBACK; SELECT v FROM t; UPDATE t SET v = v || '2' WHERE id = 2; SELECT id, v FROM t ORDER BY id", 2,
			"v\na\nb\nid,v\n1,B\n2,b2\n", "id,v\n1,B\n2,b2\n"},
	}
	for i, f := range forms {
		d := filepath.Join(scratch, fmt.Sprintf("c20r-%d", i))
		_ = os.RemoveAll(d)
		_ = os.MkdirAll(d, 0o755)
		path := filepath.Join(d, "t.csv")
		_ = os.WriteFile(path, []byte(init), 0o644)
		gate := filepath.Join(d, "gate")
		run := func(prog string, env ...string) (string, string, error) {
			cmd := exec.Command(bin, "--repository", d, "--quiet", "--format", "CSV", "--wait-timeout", "10", prog+"; COMMIT;")
			cmd.Dir = d
			cmd.Env = append(append(os.Environ(), "HOME="+d), env...)
			var so, se bytes.Buffer
			cmd.Stdout, cmd.Stderr = &so, &se
			err := cmd.Run()
			return so.String(), se.String(), err
		}
		type res struct {
			out, errOut string
			err         error
		}
		done := make(chan res, 1)
		go func() {
			out, eo, err := run(f.prog, fmt.Sprintf("VERIF_PAUSE_AT=lock.check#%d:%s", f.k, gate))
			done <- res{out, eo, err}
		}()
		reached := false
		for k := 0; k < 2000; k++ {
			if _, err := os.Stat(gate + ".reached"); err == nil {
				reached = true
				break
			}
			time.Sleep(5 * time.Millisecond)
		}
		_, eo2, err2 := run(other)
		_ = os.WriteFile(gate, nil, 0o644)
		r := <-done
		_ = os.Remove(gate)
		_ = os.Remove(gate + ".reached")
		b, _ := os.ReadFile(path)
		rep := map[string]interface{}{"form": f.name, "transaction": f.prog, "other_process": other, "held_before_lock": reached,
			"output": r.out, "want_output": f.wantOut, "file": string(b), "want_file": f.wantFile, "stderr": r.errOut + eo2}
		switch {
		case !reached || r.err != nil || err2 != nil:
			o.Law("locked_reload_scenario_failed", rep)
		case r.out != f.wantOut:
			o.Law("locked_reload_shows_stale_table", rep)
		case string(b) != f.wantFile:
			o.Law("locked_reload_overwrote_other_commit", rep)
		}
		o.NonTrivial("locked_reload:" + f.name)
		o.Count("locked_reload_scenarios")
		o.Eval()
		_ = os.RemoveAll(d)
	}
}
