package main

// freshAfterEnd: after COMMIT or ROLLBACK the next read sees the current file (`fresh_after_commit`,
// `fresh_after_rollback`), also for a table the ended transaction had only READ: plain SELECT of t (and, in some
// variants, a change to another table u); COMMIT / ROLLBACK; another process commits to t; SELECT of t.

import (
	"fmt"
	"os"
	"path/filepath"

	"verifharness/hc"
)

func freshAfterEnd(o *hc.Out, scratch string) {
	k := 0
	for _, end := range []string{"COMMIT", "ROLLBACK"} {
		for _, mid := range []string{"", "UPDATE u SET w = 'mine'", "SELECT w FROM u FOR UPDATE", "INSERT INTO u VALUES ('more')"} {
			k++
			d := filepath.Join(scratch, fmt.Sprintf("c20e-%d", k))
			_ = os.RemoveAll(d)
			_ = os.MkdirAll(d, 0o755)
			tpath := filepath.Join(d, "t.csv")
			_ = os.WriteFile(tpath, []byte("k,v\n1,old\n"), 0o644)
			_ = os.WriteFile(filepath.Join(d, "u.csv"), []byte("w\nx\n"), 0o644)
			p := hc.NewProc(d)
			read := func() string {
				v, err := p.Query("SELECT v FROM t")
				if err != nil || v.RecordLen() != 1 {
					return fmt.Sprintf("<error %d>", hc.ErrNum(err))
				}
				return hc.StrOf(v.RecordSet[0][0][0])
			}
			first := read()
			var errs []int
			if mid != "" {
				_, e := p.Exec(mid + ";")
				errs = append(errs, hc.ErrNum(e))
			}
			_, e := p.Exec(end + ";")
			errs = append(errs, hc.ErrNum(e))
			_ = os.WriteFile(tpath, []byte("k,v\n1,new\n"), 0o644) // the transaction has ended: nobody holds t
			second := read()
			clean := true
			for _, c := range errs {
				clean = clean && c == 0
			}
			if clean && (first != "old" || second != "new") {
				o.Law("read_after_end_shows_stale_table", map[string]interface{}{"statements": []string{"SELECT v FROM t", mid, end},
					"first_select": first, "other_process_then_wrote": "k,v\n1,new\n", "select_in_next_transaction": second})
			}
			o.NonTrivial(fmt.Sprintf("fresh_after_end:%s:%s:%v", end, mid, clean))
			o.Count("fresh_after_end_scenarios")
			o.Eval()
			p.Close()
			_ = os.RemoveAll(d)
		}
	}
}
