package main

// failedCommit: a COMMIT that fails before anything is written (a changed LTSV table whose column label cannot be
// encoded) has not ended the transaction: its loaded tables stay loaded, its own earlier changes stay visible and
// its locks stay held — the next read must not go back to the files.

import (
	"fmt"
	"os"
	"path/filepath"

	"verifharness/hc"
)

func failedCommit(o *hc.Out, scratch string) {
	for i, first := range []string{"UPDATE t SET v = 'mine' WHERE k = 1", "INSERT INTO t VALUES (2, 'mine')", "SELECT v FROM t"} {
		d := filepath.Join(scratch, fmt.Sprintf("c20c-%d", i))
		_ = os.RemoveAll(d)
		_ = os.MkdirAll(d, 0o755)
		tpath := filepath.Join(d, "t.csv")
		_ = os.WriteFile(tpath, []byte("k,v\n1,old\n"), 0o644)
		_ = os.WriteFile(filepath.Join(d, "u.ltsv"), []byte("a:1\tb:2\n"), 0o644)
		p := hc.NewProc(d)
		read := func() string {
			v, err := p.Query("SELECT v FROM t ORDER BY k")
			if err != nil {
				return fmt.Sprintf("<error %d>", hc.ErrNum(err))
			}
			s := ""
			for _, r := range v.RecordSet {
				s += hc.StrOf(r[0][0]) + ";"
			}
			return s
		}
		_, err0 := p.Exec(first + ";")
		before := read()
		_, err1 := p.Exec("ALTER TABLE `u.ltsv` RENAME a TO `a:b`;")
		_, errc := p.Exec("COMMIT;")
		plain := i == 2
		if plain {
			// t is only loaded, not locked: another process commits meanwhile
			_ = os.WriteFile(tpath, []byte("k,v\n1,new\n"), 0o644)
		}
		after := read()
		b, _ := os.ReadFile(tpath)
		rep := map[string]interface{}{"statements": []string{first, "ALTER TABLE `u.ltsv` RENAME a TO `a:b`", "COMMIT"},
			"errors": []int{hc.ErrNum(err0), hc.ErrNum(err1), hc.ErrNum(errc)}, "select_before_commit": before,
			"select_after_failed_commit": after, "other_process_committed_meanwhile": plain, "file_t": string(b)}
		if err0 == nil && err1 == nil && errc != nil && after != before {
			o.Law("failed_commit_lost_loaded_table", rep)
		}
		if errc == nil {
			o.Count("failed_commit_succeeded")
		}
		o.NonTrivial(fmt.Sprintf("failed_commit:%d:%d", i, hc.ErrNum(errc)))
		o.Count("failed_commit_scenarios")
		o.Eval()
		p.Close()
		_ = os.RemoveAll(d)
	}
}
