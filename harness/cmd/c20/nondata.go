package main

// nonData: statements that are not data statements leave a loaded table alone.  Inside ONE transaction: plain
// SELECT of t; another transaction (own session, real UPDATE + COMMIT) commits to t; a non-data statement of EVERY
// kind — SET of every flag (the import options with their current and with another value), ADD / REMOVE flag
// elements, SHOW, variables, environment variables, cursors, functions, prepared statements, ECHO / PRINT / PRINTF,
// CHDIR to the same directory, PWD, RELOAD CONFIG, SHOW objects / fields, SYNTAX, an external command, DECLARE /
// DISPOSE of unrelated objects —; second SELECT of t.  Law `non_data_statement_reloaded_table`; the op line is
// decided by Model/SessionStmt.lean.

import (
	"fmt"
	"os"
	"path/filepath"
	"strings"

	"verifharness/hc"
)

type ndCase struct {
	label string
	kinds string // the cases of Processor.ExecuteStatement it goes through
	sql   string
	reads int // 1: an expression of the statement reads t itself
}

func nonDataCases(d, cwd string) []ndCase {
	var cs []ndCase
	set := func(flag, val string) {
		cs = append(cs, ndCase{"set_" + strings.ToLower(flag) + "_" + hc.Hex(val)[:min(8, len(hc.Hex(val)))], "parser.SetFlag", fmt.Sprintf("SET @@%s TO %s;", flag, val), 0})
	}
	// import options: the current value and another one
	for _, fv := range [][]string{
		{"IMPORT_FORMAT", "'CSV'", "'TSV'"}, {"DELIMITER", "','", "';'"}, {"ALLOW_UNEVEN_FIELDS", "FALSE", "TRUE"},
		{"DELIMITER_POSITIONS", "'SPACES'", "'[2, 5]'"}, {"JSON_QUERY", "''", "'a.b'"}, {"ENCODING", "'UTF8'", "'SJIS'"},
		{"NO_HEADER", "FALSE", "TRUE"}, {"WITHOUT_NULL", "FALSE", "TRUE"},
	} {
		set(fv[0], fv[1])
		set(fv[0], fv[2])
	}
	for _, fv := range [][]string{
		{"REPOSITORY", "'" + d + "'"}, {"TIMEZONE", "'UTC'"}, {"DATETIME_FORMAT", "'%Y%m%d'"}, {"ANSI_QUOTES", "TRUE"},
		{"STRICT_EQUAL", "TRUE"}, {"WAIT_TIMEOUT", "5"}, {"STRIP_ENDING_LINE_BREAK", "TRUE"}, {"FORMAT", "'JSON'"},
		{"WRITE_ENCODING", "'UTF8'"}, {"WRITE_DELIMITER", "';'"}, {"WRITE_DELIMITER_POSITIONS", "'[3, 9]'"},
		{"WITHOUT_HEADER", "TRUE"}, {"LINE_BREAK", "'CRLF'"}, {"ENCLOSE_ALL", "TRUE"}, {"JSON_ESCAPE", "'HEX'"},
		{"PRETTY_PRINT", "TRUE"}, {"SCIENTIFIC_NOTATION", "TRUE"}, {"EAST_ASIAN_ENCODING", "TRUE"},
		{"COUNT_DIACRITICAL_SIGN", "TRUE"}, {"COUNT_FORMAT_CODE", "TRUE"}, {"COLOR", "TRUE"}, {"QUIET", "TRUE"},
		{"CPU", "2"}, {"STATS", "TRUE"},
	} {
		set(fv[0], fv[1])
	}
	add := func(label, kinds, sql string, reads int) { cs = append(cs, ndCase{label, kinds, sql, reads}) }
	add("add_remove_flag_element", "parser.AddFlagElement,parser.RemoveFlagElement", "ADD '%Y' TO @@DATETIME_FORMAT; REMOVE '%Y' FROM @@DATETIME_FORMAT;", 0)
	add("show_flag", "parser.ShowFlag", "SHOW @@DELIMITER; SHOW @@IMPORT_FORMAT; SHOW @@REPOSITORY;", 0)
	add("variables", "parser.VariableDeclaration,parser.VariableSubstitution,parser.DisposeVariable", "VAR @a := 1; @a := @a + 1; DISPOSE @a;", 0)
	add("variable_from_subquery_on_t", "parser.VariableDeclaration", "VAR @c := (SELECT v FROM t);", 1)
	add("env_vars", "parser.SetEnvVar,parser.UnsetEnvVar", "SET @%C20_ND TO 'x'; UNSET @%C20_ND;", 0)
	add("cursor", "parser.VariableDeclaration,parser.CursorDeclaration,parser.OpenCursor,parser.FetchCursor,parser.CloseCursor,parser.DisposeCursor",
		"VAR @b; DECLARE cur CURSOR FOR SELECT 1; OPEN cur; FETCH cur INTO @b; CLOSE cur; DISPOSE CURSOR cur;", 0)
	add("cursor_over_other_table", "parser.VariableDeclaration,parser.CursorDeclaration,parser.OpenCursor,parser.FetchCursor,parser.CloseCursor,parser.DisposeCursor",
		"VAR @b; DECLARE cur CURSOR FOR SELECT w FROM u; OPEN cur; FETCH cur INTO @b; CLOSE cur; DISPOSE CURSOR cur;", 0)
	add("function", "parser.FunctionDeclaration,parser.Print,parser.DisposeFunction", "DECLARE f FUNCTION (@x) AS BEGIN RETURN @x + 1; END; PRINT f(1); DISPOSE FUNCTION f;", 0)
	add("aggregate", "parser.AggregateDeclaration,parser.DisposeFunction", "DECLARE ag AGGREGATE (c) AS BEGIN RETURN 1; END; DISPOSE FUNCTION ag;", 0)
	add("prepare", "parser.StatementPreparation,parser.DisposeStatement", "PREPARE st FROM 'SELECT 1'; DISPOSE PREPARE st;", 0)
	add("echo_print_printf", "parser.Echo,parser.Print,parser.Printf", "ECHO 'x'; PRINT 1; PRINTF '%s' USING 1;", 0)
	add("print_subquery_on_other_table", "parser.Print", "PRINT (SELECT COUNT(*) FROM u);", 0)
	add("chdir_pwd", "parser.Chdir,parser.Pwd", "CHDIR '"+cwd+"'; PWD;", 0)
	add("reload", "parser.Reload", "RELOAD CONFIG;", 0)
	add("show_objects", "parser.ShowObjects", "SHOW TABLES; SHOW VIEWS; SHOW CURSORS; SHOW FUNCTIONS; SHOW STATEMENTS; SHOW FLAGS; SHOW ENV; SHOW RUNINFO;", 0)
	add("show_fields_other_table", "parser.ShowFields", "SHOW FIELDS FROM u;", 0)
	add("show_fields_t", "parser.ShowFields", "SHOW FIELDS FROM t;", 1)
	add("syntax", "parser.Syntax", "SYNTAX 'select';", 0)
	add("external_command", "parser.ExternalCommand", "$echo c20;", 0)
	add("flow_control_in_loop", "parser.VariableDeclaration,parser.FlowControl", "VAR @i := 0; WHILE @i < 2 DO @i := @i + 1; CONTINUE; END WHILE;", 0)
	// temporary tables and containers of other statements: not non-data kinds of the model (no op line), same law
	add("declare_dispose_unrelated_view", "", "DECLARE tv VIEW (a); INSERT INTO tv VALUES (1); DISPOSE VIEW tv;", 0)
	add("execute_prepared_select", "", "PREPARE st FROM 'SELECT 1'; EXECUTE st; DISPOSE PREPARE st;", 0)
	add("if_case_while_with_prints", "", "IF TRUE THEN PRINT 1; END IF; CASE WHEN TRUE THEN PRINT 2; END CASE; VAR @j := 0; WHILE @j < 1 DO @j := @j + 1; END WHILE;", 0)
	add("select_other_table_for_update", "", "SELECT w FROM u FOR UPDATE;", 0)
	return cs
}

func nonData(o *hc.Out, scratch string) {
	cwd, _ := os.Getwd()
	d := filepath.Join(scratch, "c20n")
	for i, c := range nonDataCases(d, cwd) {
		_ = os.RemoveAll(d)
		_ = os.MkdirAll(d, 0o755)
		tpath := filepath.Join(d, "t.csv")
		_ = os.WriteFile(tpath, []byte("k,v\n1,old\n"), 0o644)
		_ = os.WriteFile(filepath.Join(d, "u.csv"), []byte("w\nx\n"), 0o644)
		p := hc.NewProc(d)
		read := func() string {
			v, err := p.Query("SELECT v FROM t")
			if err != nil || v.RecordLen() != 1 {
				return fmt.Sprintf("<error %d>", hc.ErrNum(err))
			}
			return hc.StrOf(v.RecordSet[0][0][0])
		}
		first := read()
		other := hc.NewProc(d)
		_, oerr := other.Exec("UPDATE t SET v = 'new' WHERE k = 1; COMMIT;")
		other.Close()
		b, _ := os.ReadFile(tpath)
		_, err := p.Exec(c.sql)
		second := read()
		rep := map[string]interface{}{"statements": []string{"SELECT v FROM t", c.sql, "SELECT v FROM t"}, "first_select": first,
			"other_process": "UPDATE t SET v = 'new' WHERE k = 1; COMMIT;", "file_after_other_commit": string(b),
			"non_data_statement_error": hc.ErrNum(err), "second_select": second}
		switch {
		case oerr != nil || string(b) != "k,v\n1,new\n" || first != "old":
			o.Law("non_data_scenario_failed", rep)
		case err != nil:
			o.Count("non_data_statement_failed:" + c.label)
			if second != first {
				o.Law("non_data_statement_reloaded_table", rep)
			}
		default:
			if second != first {
				o.Law("non_data_statement_reloaded_table", rep)
			}
			if c.kinds == "" {
				o.Eval()
				break
			}
			o.Context(c.sql)
			o.Case(fmt.Sprintf("c20.nondata %s %s %d", c.label, c.kinds, c.reads), fmt.Sprintf("first=%s second=%s", first, second))
		}
		o.NonTrivial(fmt.Sprintf("nondata:%d:%s:%d", i, c.label, hc.ErrNum(err)))
		o.Count("non_data_scenarios")
		p.Close()
	}
	_ = os.RemoveAll(d)
}
