package main

// failedReload: the documented reload (first data-changing access to a table loaded by a plain SELECT) FAILS while
// the new contents are read — another process left a file this transaction cannot load.  The failed statement
// changed nothing: every later read of the transaction still shows the data it had loaded (the model's `load`
// returns `none` with the state unchanged; `gen_failed_reload_restores_cache`).

import (
	"fmt"
	"os"
	"path/filepath"

	"verifharness/hc"
)

func failedReload(o *hc.Out, scratch string) {
	stmts := []struct{ name, sql string }{
		{"update", "UPDATE t SET v = 'mine' WHERE k = 1"},
		{"insert", "INSERT INTO t VALUES (2, 'mine')"},
		{"delete", "DELETE FROM t WHERE k = 1"},
		{"select_for_update", "SELECT v FROM t FOR UPDATE"},
	}
	broken := []struct{ name, bytes string }{
		{"surplus_field", "k,v\n1,new,extra\n"},
		{"unterminated_quote", "k,v\n1,\"new\n"},
	}
	for i, st := range stmts {
		for j, br := range broken {
			d := filepath.Join(scratch, fmt.Sprintf("c20f-%d-%d", i, j))
			_ = os.RemoveAll(d)
			_ = os.MkdirAll(d, 0o755)
			tpath := filepath.Join(d, "t.csv")
			_ = os.WriteFile(tpath, []byte("k,v\n1,old\n"), 0o644)
			p := hc.NewProc(d)
			read := func() string {
				v, err := p.Query("SELECT v FROM t")
				if err != nil {
					return fmt.Sprintf("<error %d>", hc.ErrNum(err))
				}
				if v.RecordLen() != 1 {
					return fmt.Sprintf("<%d records>", v.RecordLen())
				}
				return hc.StrOf(v.RecordSet[0][0][0])
			}
			first := read()
			_ = os.WriteFile(tpath, []byte(br.bytes), 0o644) // nobody holds a lock on t: another process replaces it
			_, err := p.Exec(st.sql + ";")
			second := read()
			rep := map[string]interface{}{"statement": st.sql, "file_left_by_other_process": br.bytes, "first_select": first,
				"statement_error": hc.ErrNum(err), "select_after_failed_statement": second}
			if err != nil && (first != "old" || second != first) {
				o.Law("failed_reload_lost_loaded_table", rep)
			}
			if err == nil {
				o.Count("failed_reload_statement_succeeded")
			}
			o.NonTrivial(fmt.Sprintf("failed_reload:%s:%s:%d", st.name, br.name, hc.ErrNum(err)))
			o.Count("failed_reload_scenarios")
			o.Eval()
			p.Close()
			_ = os.RemoveAll(d)
		}
	}
}
