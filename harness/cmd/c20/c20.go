package main

// Parallel loaders of ONE transaction (property C20).  One statement whose per-record sub-query is the FIRST access
// of the transaction to table t runs on several worker goroutines (outer table >= 160 records, cpu >= 2): every
// worker calls cacheViewFromFile for t at the same moment.  The schedule is steered through the yield points of
// lib/file (file.VerifHook, build tag verif):
//
//	the first worker that is about to read t from the disk is held for a moment, so that the others reach the
//	loader too; whenever t is about to be read from the disk for the j-th time (j = 2 or 3) ANOTHER csvq
//	transaction (own session, the real UPDATE + COMMIT code) changes t and commits; the same happens in any case
//	between the statement and a following SELECT of the same transaction.
//
// Laws on the real code: `statement_saw_two_versions_of_table` (all records of the statement and the following
// SELECT see one version of t), `table_read_more_than_once` (t's file is opened once per transaction).  The op line
// is decided by the concurrent loader machine of lean/Csvq/Model/ParLoad.lean.

import (
	"fmt"
	"os"
	"path/filepath"
	"strings"
	"sync/atomic"
	"time"

	"github.com/mithrandie/csvq/lib/file"

	"verifharness/hc"
)

func main() { hc.Main(run) }

type form struct {
	name string
	// sql over the outer table o and the table expression T (aliased tt); kept = true: the records that saw 'old'
	// are the ones in the result (WHERE forms); otherwise column 1 of every record is the value seen
	sql  string
	kept bool
}

var forms = []form{
	{"select_list", "SELECT id, (SELECT tt.v FROM %s AS tt WHERE tt.k = o.g) AS v FROM o", false},
	{"where", "SELECT id FROM o WHERE (SELECT tt.v FROM %s AS tt WHERE tt.k = o.g) = 'old'", true},
	{"exists", "SELECT id FROM o WHERE EXISTS (SELECT 1 FROM %s AS tt WHERE tt.k = o.g AND tt.v = 'old')", true},
	{"in", "SELECT id FROM o WHERE o.g IN (SELECT tt.k FROM %s AS tt WHERE tt.v = 'old')", true},
	{"lateral", "SELECT o.id, x.v FROM o CROSS JOIN LATERAL (SELECT tt.v FROM %s AS tt WHERE tt.k = o.g) AS x", false},
}

type spelling struct {
	name string
	expr func(dir string) string
}

var spellings = []spelling{
	{"name", func(string) string { return "t" }},
	{"path", func(d string) string { return "`" + filepath.Join(d, "t.csv") + "`" }},
	{"file_object", func(d string) string { return "FILE::('" + filepath.Join(d, "t.csv") + "')" }},
	{"csv_object", func(string) string { return "CSV(',', `t.csv`)" }},
}

type variant struct {
	f        form
	sp       spelling
	cpu      int
	outer    int
	commitAt int  // the other transaction commits when t is about to be read for the commitAt-th time
	preload  bool // the outer table was read by an earlier statement of the transaction
}

func variants() []variant {
	var vs []variant
	for i, f := range forms {
		for j, sp := range spellings {
			k := i*len(spellings) + j
			v := variant{f: f, sp: sp, cpu: 4, outer: 400, commitAt: 2 + k%2, preload: k%3 == 0}
			switch k % 5 {
			case 1:
				v.cpu, v.outer, v.commitAt = 2, 160, 2
			case 3:
				v.cpu, v.outer = 3, 330
			}
			vs = append(vs, v)
		}
	}
	return vs
}

func run(seed int64, n int, dir string, _ []string) {
	o := hc.NewOut(dir)
	defer o.Close()
	scratch := os.Getenv("VERIF_SCRATCH")
	if scratch == "" {
		scratch = os.TempDir()
	}
	if bin := os.Getenv("VERIF_CSVQ"); bin != "" {
		parLoadProcesses(o, bin, scratch)
	}
	failedReload(o, scratch)
	failedCommit(o, scratch)
	freshAfterEnd(o, scratch)
	nonData(o, scratch)
	vs := variants()
	// the seed rotates the list (every variant runs on every seed; n caps the number for debugging)
	for i := 0; i < len(vs) && (n <= 0 || i < n); i++ {
		parLoad(o, scratch, vs[(i+int(seed%int64(len(vs)))+len(vs))%len(vs)], i)
	}
}

func parLoad(o *hc.Out, scratch string, v variant, idx int) {
	d := filepath.Join(scratch, fmt.Sprintf("c20p-%d", idx))
	_ = os.RemoveAll(d)
	_ = os.MkdirAll(d, 0o755)
	defer func() { file.VerifHook = nil; _ = os.RemoveAll(d) }()

	var sb strings.Builder
	sb.WriteString("id,g\n")
	for i := 1; i <= v.outer; i++ {
		fmt.Fprintf(&sb, "%d,1\n", i)
	}
	_ = os.WriteFile(filepath.Join(d, "o.csv"), []byte(sb.String()), 0o644)
	tpath := filepath.Join(d, "t.csv")
	_ = os.WriteFile(tpath, []byte("k,v\n1,old\n"), 0o644)

	newProc := func() *hc.Proc {
		p := hc.NewProc(d)
		p.SetCPU(v.cpu)
		return p
	}

	var inOther, otherDone, otherFailed int32
	otherCommit := func() {
		if !atomic.CompareAndSwapInt32(&otherDone, 0, 1) {
			return
		}
		atomic.StoreInt32(&inOther, 1)
		defer atomic.StoreInt32(&inOther, 0)
		other := newProc()
		defer other.Close()
		if _, err := other.Exec("UPDATE t SET v = 'new' WHERE k = 1; COMMIT;"); err != nil {
			atomic.StoreInt32(&otherFailed, 1)
		}
		if b, _ := os.ReadFile(tpath); string(b) != "k,v\n1,new\n" {
			atomic.StoreInt32(&otherFailed, 1)
		}
	}

	main := newProc()
	defer main.Close()
	if v.preload {
		if _, err := main.Query("SELECT COUNT(*) FROM o"); err != nil {
			o.Law("parallel_load_scenario_failed", map[string]interface{}{"variant": describe(v, ""), "error": err.Error()})
			return
		}
	}

	// from here on every read handler the transaction opens is one for t, except the first one when o is not loaded yet
	base := int32(1)
	if v.preload {
		base = 0
	}
	var stats, opens int32
	var committedInside int32
	file.VerifHook = func(name string) {
		if atomic.LoadInt32(&inOther) == 1 {
			return
		}
		switch name {
		case "read.open":
			atomic.AddInt32(&opens, 1)
		case "rlock.stat":
			k := atomic.AddInt32(&stats, 1) - base
			switch {
			case k == 1:
				time.Sleep(25 * time.Millisecond) // the first load of t: the other workers reach the loader meanwhile
			case int(k) == v.commitAt:
				atomic.StoreInt32(&committedInside, 1)
				otherCommit()
			}
		}
	}

	sql := fmt.Sprintf(v.f.sql, v.sp.expr(d))
	view, err := main.Query(sql)
	if err != nil {
		o.Law("parallel_load_scenario_failed", map[string]interface{}{"variant": describe(v, sql), "error": err.Error()})
		return
	}
	seen := map[string]int{}
	if v.f.kept {
		seen["old"] = view.RecordLen()
		if view.RecordLen() < v.outer {
			seen["new"] = v.outer - view.RecordLen()
		}
	} else {
		for _, r := range view.RecordSet {
			seen[hc.StrOf(r[1][0])]++
		}
		if view.RecordLen() != v.outer {
			seen["<missing>"] = v.outer - view.RecordLen()
		}
	}
	if seen["old"] == 0 {
		delete(seen, "old")
	}

	// in any case another process commits before the next statement of the transaction
	otherCommit()

	next := "<error>"
	if nv, err := main.Query(fmt.Sprintf("SELECT tt.v FROM %s AS tt", v.sp.expr(d))); err == nil && nv.RecordLen() == 1 {
		next = hc.StrOf(nv.RecordSet[0][0][0])
	}
	file.VerifHook = nil

	reads := int(atomic.LoadInt32(&opens) - base)
	stmt := "mixed"
	if len(seen) == 1 {
		for k := range seen {
			stmt = k
		}
	}
	rep := map[string]interface{}{"variant": describe(v, sql), "records_by_value_seen": seen, "following_select": next,
		"reads_of_t": reads, "other_committed_inside_statement": atomic.LoadInt32(&committedInside) == 1,
		"other_process": "UPDATE t SET v = 'new' WHERE k = 1; COMMIT;"}
	switch {
	case atomic.LoadInt32(&otherFailed) == 1:
		o.Law("parallel_load_scenario_failed", rep)
	default:
		if len(seen) != 1 || stmt != next {
			o.Law("statement_saw_two_versions_of_table", rep)
		}
		if reads != 1 {
			o.Law("table_read_more_than_once", rep)
		}
	}
	versions := map[string]bool{next: true}
	for k := range seen {
		versions[k] = true
	}
	pre := 0
	if v.preload {
		pre = 1
	}
	o.Context(sql)
	o.Case(fmt.Sprintf("c20.parload %s %s %d %d %d %d", v.f.name, v.sp.name, v.cpu, v.outer, v.commitAt, pre),
		fmt.Sprintf("reads=%d versions=%d stmt=%s next=%s", reads, len(versions), stmt, next))
	o.NonTrivial(fmt.Sprintf("parload:%s:%s:%d:%d:%d", v.f.name, v.sp.name, v.cpu, v.commitAt, pre))
	o.Count("parallel_load_scenarios")
}

func describe(v variant, sql string) map[string]interface{} {
	return map[string]interface{}{"form": v.f.name, "table_named_by": v.sp.name, "cpu": v.cpu, "outer_records": v.outer,
		"other_commits_at_read_of_t": v.commitAt, "outer_table_loaded_before": v.preload, "statement": sql}
}
