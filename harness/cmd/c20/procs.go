package main

// The parallel-load scenario with REAL csvq processes (VERIF_CSVQ, build tag verif): process A runs the statement
// with --cpu 4 and is held (VERIF_PAUSE_AT) when it is about to read a table file for the third time — the outer
// table is the first read, t the second, so a third read is a SECOND read of t inside one transaction; process B
// then changes t and commits; A is let go.  When A never gets there (t is read once) B commits after A has ended.
// VERIF_TRACE gives the number of files A opened for reading.

import (
	"bytes"
	"fmt"
	"os"
	"os/exec"
	"path/filepath"
	"strings"
	"time"

	"verifharness/hc"
)

func parLoadProcesses(o *hc.Out, bin, scratch string) {
	type pform struct{ name, stmt string }
	pforms := []pform{
		{"select_list", "SELECT id, (SELECT tt.v FROM t AS tt WHERE tt.k = o.g) AS v FROM o"},
		{"lateral_file_object", "SELECT o.id, x.v FROM o CROSS JOIN LATERAL (SELECT tt.v FROM FILE::('t.csv') AS tt WHERE tt.k = o.g) AS x"},
	}
	const outer = 400
	for i, f := range pforms {
		d := filepath.Join(scratch, fmt.Sprintf("c20q-%d", i))
		_ = os.RemoveAll(d)
		_ = os.MkdirAll(d, 0o755)
		var sb strings.Builder
		sb.WriteString("id,g\n")
		for r := 1; r <= outer; r++ {
			fmt.Fprintf(&sb, "%d,1\n", r)
		}
		_ = os.WriteFile(filepath.Join(d, "o.csv"), []byte(sb.String()), 0o644)
		_ = os.WriteFile(filepath.Join(d, "t.csv"), []byte("k,v\n1,old\n"), 0o644)
		gate, trace := filepath.Join(d, "gate"), filepath.Join(d, "trace")
		run := func(prog string, env ...string) (string, string, error) {
			cmd := exec.Command(bin, "--repository", d, "--quiet", "--format", "CSV", "--cpu", "4", "--wait-timeout", "10", prog)
			cmd.Dir = d
			cmd.Env = append(append(os.Environ(), "HOME="+d), env...)
			var so, se bytes.Buffer
			cmd.Stdout, cmd.Stderr = &so, &se
			err := cmd.Run()
			return so.String(), se.String(), err
		}
		type res struct {
			out, errOut string
			err         error
		}
		done := make(chan res, 1)
		prog := f.stmt + "; SELECT tt.v FROM t AS tt;"
		go func() {
			out, eo, err := run(prog, "VERIF_PAUSE_AT=rlock.stat#3:"+gate, "VERIF_TRACE="+trace)
			done <- res{out, eo, err}
		}()
		var r res
		ended, reached := false, false
		for k := 0; k < 4000 && !ended && !reached; k++ {
			select {
			case r = <-done:
				ended = true
			default:
				if _, err := os.Stat(gate + ".reached"); err == nil {
					reached = true
				} else {
					time.Sleep(5 * time.Millisecond)
				}
			}
		}
		const other = "UPDATE t SET v = 'new' WHERE k = 1; COMMIT;"
		_, eo2, err2 := run(other)
		_ = os.WriteFile(gate, nil, 0o644)
		if !ended {
			r = <-done
		}
		opens := 0
		if b, err := os.ReadFile(trace); err == nil {
			opens = strings.Count(string(b), "read.open\n")
		}
		lines := strings.Split(strings.TrimRight(r.out, "\n"), "\n")
		seen := map[string]int{}
		next := "<error>"
		if len(lines) == outer+3 {
			for _, l := range lines[1 : outer+1] {
				if j := strings.LastIndex(l, ","); j >= 0 {
					seen[l[j+1:]]++
				}
			}
			next = lines[outer+2]
		}
		rep := map[string]interface{}{"form": f.name, "process_A": prog, "cpu": 4, "outer_records": outer,
			"process_B": other, "A_held_before_a_second_read_of_t": reached, "records_by_value_seen": seen,
			"following_select": next, "files_opened_for_reading_by_A": opens, "stderr": r.errOut + eo2}
		switch {
		case r.err != nil || err2 != nil || len(lines) != outer+3:
			o.Law("parallel_load_scenario_failed", rep)
		default:
			if len(seen) != 1 || seen[next] == 0 {
				o.Law("statement_saw_two_versions_of_table", rep)
			}
			if opens != 2 { // o and t, once each
				o.Law("table_read_more_than_once", rep)
			}
		}
		o.NonTrivial("parload_processes:" + f.name)
		o.Count("parallel_load_process_scenarios")
		o.Eval()
		_ = os.RemoveAll(d)
	}
}
