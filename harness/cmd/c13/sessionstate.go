package main

// State of the transaction that is NOT per query: the cache of remote tables (Transaction.UrlCache, a plain map
// under Tx.viewLoadingMutex) and the registry of changed tables (Transaction.UncommittedViews, plain maps under its
// own RWMutex).  Both are reached from per-record evaluation:
//
//   - a table named by a URL inside a per-record sub-query (EXISTS / IN / scalar / LATERAL) of an outer table that is
//     split over several workers: every worker loads the not-yet-cached URL at the same moment.  An in-process HTTP
//     server on the loopback interface serves the tables; every statement uses URLs of its own (and several of them)
//     so that the slow path — request, then store into the cache — runs on several workers at once;
//   - table-changing statements inside a user-defined function called per record: the statements are serialised by
//     Tx.operationMutex, the registration of the changed table happens after it.  Only the FIRST change of a table
//     writes the registry, so the function changes one of twelve tables chosen by its argument (different workers
//     change different tables first), and the other workers read the registry meanwhile (@#UNCOMMITTED,
//     @#UPDATED_VIEWS, @#CREATED, @#UPDATED, @#LOADED_TABLES).
//
// On the unchanged tree both are free of data races (the request is made and stored under the mutex; the registry
// takes the write lock); what a statement inside a user-defined function otherwise stirs up is the known F105 / F110.

import (
	"fmt"
	"net"
	"net/http"
	"os"
	"path/filepath"
	"strings"
	"sync/atomic"
	"time"

	"verifharness/hc"
)

func runSessionState(g *hc.Gen, scratch string, thorough bool, cs *childStats, sigs map[string]bool) {
	repo, err := os.MkdirTemp(scratch, "c13sess-")
	if err != nil {
		panic(err)
	}
	defer os.RemoveAll(repo)
	rows := 330
	if thorough {
		rows = 900
	}
	big := []string{"id,grp,val"}
	for i := 1; i <= rows; i++ {
		big = append(big, fmt.Sprintf("%d,%d,%d", i, g.Intn(40), g.Intn(1000)))
	}
	writeLines(filepath.Join(repo, "big.csv"), big)
	mid := []string{"id,grp"}
	for i := 1; i <= 172; i++ {
		mid = append(mid, fmt.Sprintf("%d,%d", i, g.Intn(12)))
	}
	writeLines(filepath.Join(repo, "mid.csv"), mid)
	for k := 0; k < 12; k++ {
		writeLines(filepath.Join(repo, fmt.Sprintf("u%d.csv", k)), []string{"a,b", "1,1", "2,2"})
	}
	sig := func(s string) {
		if !sigs[s] {
			sigs[s] = true
			cs.Sigs = append(cs.Sigs, s)
		}
	}

	// ---- remote tables
	var remote strings.Builder
	remote.WriteString("k,name\n")
	for i := 0; i < 37; i++ {
		fmt.Fprintf(&remote, "%d,n%d\n", i, i)
	}
	body := []byte(remote.String())
	var requests int64
	ln, err := net.Listen("tcp", "127.0.0.1:0")
	if err != nil {
		// no loopback interface in this sandbox: counted, the rest of the phase still runs
		cs.Errors["session_state:no_loopback_listener"]++
	} else {
		srv := &http.Server{Handler: http.HandlerFunc(func(w http.ResponseWriter, r *http.Request) {
			atomic.AddInt64(&requests, 1)
			time.Sleep(2 * time.Millisecond) // a server that takes its time: the requests of the workers overlap
			if strings.HasSuffix(r.URL.Path, ".json") {
				w.Header().Set("Content-Type", "application/json")
				_, _ = w.Write([]byte(`[{"k":1,"name":"a"},{"k":2,"name":"b"},{"k":3,"name":"c"}]`))
				return
			}
			w.Header().Set("Content-Type", "text/csv")
			_, _ = w.Write(body)
		})}
		go func() { _ = srv.Serve(ln) }()
		defer srv.Close()
		base := "http://" + ln.Addr().String()
		n := 0
		url := func(ext string) string {
			n++
			return fmt.Sprintf("%s/t%d.%s", base, n, ext)
		}
		forms := []struct{ name, sql string }{
			{"exists", "SELECT COUNT(*) FROM big WHERE EXISTS (SELECT 1 FROM %s s WHERE s.k = big.grp)"},
			{"in", "SELECT COUNT(*) FROM big WHERE grp IN (SELECT k FROM %s s) OR grp IN (SELECT k FROM %s s2)"},
			{"scalar", "SELECT id, (SELECT MAX(s.name) FROM %s s WHERE s.k = big.grp) FROM big"},
			{"lateral", "SELECT COUNT(*) FROM big CROSS JOIN LATERAL (SELECT s.name FROM %s s WHERE s.k = big.grp) l"},
			{"three_urls", "SELECT COUNT(*) FROM big WHERE EXISTS (SELECT 1 FROM %s a WHERE a.k = big.grp) AND grp NOT IN (SELECT k + 100 FROM %s b) AND (SELECT COUNT(*) FROM %s c) > 0"},
			{"json", "SELECT COUNT(*) FROM big WHERE grp IN (SELECT k FROM %s s)"},
			{"order_by", "SELECT id FROM big ORDER BY (SELECT MIN(s.k) FROM %s s WHERE s.k >= big.grp), id"},
		}
		rot := 0
		for _, f := range forms {
			cpus := []int{[]int{4, 2, 8}[rot%3]}
			rot++
			if thorough {
				cpus = []int{2, 4, 8}
			}
			for _, cpu := range cpus {
				ext := "csv"
				if f.name == "json" {
					ext = "json"
				}
				args := make([]interface{}, strings.Count(f.sql, "%s"))
				for i := range args {
					args[i] = url(ext)
				}
				before := atomic.LoadInt64(&requests)
				p := hc.NewProc(repo)
				q := fmt.Sprintf("SET @@CPU TO %d; %s;", cpu, fmt.Sprintf(f.sql, args...))
				t0 := time.Now()
				_, err := p.Exec(q)
				p.Close()
				trace(t0, q)
				cs.Queries++
				cs.Kinds["session:remote:"+f.name]++
				if err != nil {
					cs.Errors[fmt.Sprintf("session_remote:%s:%d", f.name, hc.ErrCode(err))]++
					if len(cs.Samples) < 12 {
						cs.Samples = append(cs.Samples, "ERROR session remote: "+firstLine(err)+" "+q)
					}
				} else if got := atomic.LoadInt64(&requests) - before; got != int64(len(args)) {
					// every URL is requested once per transaction, whoever asks first: the cache
					cs.Errors["law:remote_table_requested_once"]++
					if len(cs.Laws) < 40 {
						cs.Laws = append(cs.Laws, childLaw{"remote_table_requested_once", map[string]interface{}{"statement": q, "distinct_urls": len(args), "requests_seen_by_the_server": got}})
					}
				}
				sig(fmt.Sprintf("session/remote/%s/cpu%d/err%d", f.name, cpu, hc.ErrCode(err)))
			}
		}
	}

	// ---- table-changing statements inside a user-defined function, the registry read by the other workers
	var branches []string
	for k := 0; k < 12; k++ {
		stmt := fmt.Sprintf("INSERT INTO u%d VALUES (@a, %d)", k, k)
		switch k % 4 {
		case 1:
			stmt = fmt.Sprintf("UPDATE u%d SET b = @a WHERE a = 1", k)
		case 2:
			stmt = fmt.Sprintf("REPLACE INTO u%d (a, b) USING (a) VALUES (2, @a)", k)
		case 3:
			stmt = fmt.Sprintf("DELETE FROM u%d WHERE a = 2", k)
		}
		kw := "ELSEIF"
		if k == 0 {
			kw = "IF"
		}
		branches = append(branches, fmt.Sprintf("%s @a %% 12 = %d THEN %s;", kw, k, stmt))
	}
	dml := "DECLARE uf FUNCTION (@a) AS BEGIN " + strings.Join(branches, " ") + " END IF; RETURN @a; END;"
	uses := []struct{ name, sql string }{
		{"dml_where", "SELECT COUNT(*) FROM mid WHERE uf(id) = id"},
		{"dml_and_registry", "SELECT COUNT(*) FROM mid WHERE (id % 2 = 0 AND uf(id) = id) OR (id % 2 = 1 AND @#UNCOMMITTED IS NOT NULL AND @#UPDATED_VIEWS >= 0)"},
		{"dml_select_registry", "SELECT id, uf(id), @#UNCOMMITTED, @#CREATED, @#UPDATED, @#UPDATED_VIEWS, @#LOADED_TABLES FROM mid"},
		{"dml_order_by", "SELECT id FROM mid ORDER BY uf(id) + @#UPDATED_VIEWS, id"},
	}
	rot := 0
	for _, u := range uses {
		cpus := []int{[]int{2, 4, 8}[rot%3]}
		rot++
		if thorough {
			cpus = []int{2, 4, 8}
		}
		for _, cpu := range cpus {
			p := hc.NewProc(repo)
			q := fmt.Sprintf("SET @@CPU TO %d; %s %s;", cpu, dml, u.sql)
			t0 := time.Now()
			_, err := p.Exec(q)
			var after string
			if err == nil {
				after, _ = p.Exec("SELECT @#UPDATED;")
			}
			p.Close()
			trace(t0, q)
			cs.Queries++
			cs.Kinds["session:"+u.name]++
			if err != nil {
				cs.Errors[fmt.Sprintf("session:%s:%d", u.name, hc.ErrCode(err))]++
				if len(cs.Samples) < 12 {
					cs.Samples = append(cs.Samples, "ERROR session: "+firstLine(err)+" "+u.sql)
				}
			} else if u.name == "dml_where" && !strings.Contains(after, "12") {
				// every changed table is registered exactly once, whoever changed it first
				cs.Errors["law:changed_tables_registered_once"]++
				if len(cs.Laws) < 40 {
					cs.Laws = append(cs.Laws, childLaw{"changed_tables_registered_once", map[string]interface{}{"statement": u.sql, "function": dml, "expected_updated_tables": 12, "got": strings.TrimSpace(after)}})
				}
			}
			sig(fmt.Sprintf("session/%s/cpu%d/err%d", u.name, cpu, hc.ErrCode(err)))
		}
	}
}
