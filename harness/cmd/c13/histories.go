package main

// Histories: what a statement leaves behind for the statements that follow it in the same process.
//
// csvq recycles its scope objects through process-wide pools (nodeScopePool: two plain maps per query node,
// blockScopePool: the declaration maps of a block).  An object that some path releases twice sits in the pool
// twice; the pool later hands it to two queries that are alive at the same time — the sub-queries evaluated by
// different workers of a WHERE clause — and these then read and write one unsynchronised map.  Only a HISTORY
// shows that: statements that leave every clause on its error path first, the parallel statements afterwards.
//
//	pass 1 (@@CPU 1, everything on one goroutine): after every failing statement the pool probe —
//	        law pool_hands_out_distinct_scopes: N objects taken from each pool while all are held are pairwise
//	        distinct, empty, and none is a block of the live session scope;
//	pass 2 (@@CPU 4): all failing statements again, without the probe in between, then statements whose WHERE /
//	        select list / ORDER BY evaluates sub-queries with table aliases on several workers — the race detector
//	        watches them, and law parallel_result_after_failures compares their output with the output of the
//	        same statements before the history.
//
// A failing statement = (clause the SELECT fails in) × (where that SELECT stands) × (what makes it fail).

import (
	"fmt"
	"os"
	"path/filepath"
	"reflect"
	"strings"

	"github.com/mithrandie/csvq/lib/query"

	"verifharness/hc"
)

type childLaw struct {
	Law  string      `json:"law"`
	Case interface{} `json:"case"`
}

// the expressions that fail when they are evaluated, and the error they fail with
var failAtoms = []string{"nosuchfield", "DATETIME_FORMAT(id)", "(SELECT id FROM small)", "boom(id)"}

// failing values for LIMIT / OFFSET (no column in reach there)
var failNumbers = []string{"'x'", "DATETIME_FORMAT(1)", "(SELECT id FROM small)", "boom(1)"}

type failSelect struct {
	clause string
	sql    string // %s = the failing expression
	number bool   // takes a failNumbers entry instead of a failAtoms entry
}

// one-column SELECTs over `small f` that are correct up to the named clause
func failSelects() []failSelect {
	return []failSelect{
		{"with", "WITH w AS (SELECT %s AS x FROM small) SELECT x FROM w", false},
		{"select", "SELECT %s FROM small f", false},
		{"from_table", "SELECT id FROM nosuchtable f WHERE %s = 1", false},
		{"from_derived", "SELECT x FROM (SELECT %s AS x FROM small) f", false},
		{"join_on", "SELECT f.id FROM small f JOIN small g ON f.id = g.id AND %s IS NULL", false},
		{"where", "SELECT id FROM small f WHERE %s = 1", false},
		{"group_by", "SELECT COUNT(*) FROM small f GROUP BY %s", false},
		{"having", "SELECT grp FROM small f GROUP BY grp HAVING %s = 1", false},
		{"order_by", "SELECT id FROM small f ORDER BY %s", false},
		{"limit", "SELECT id FROM small f ORDER BY id LIMIT %s", true},
		{"limit_percent", "SELECT id FROM small f LIMIT %s PERCENT", true},
		{"offset", "SELECT id FROM small f ORDER BY id LIMIT 5 OFFSET %s", true},
		{"offset_only", "SELECT id FROM small f OFFSET %s", true},
		{"offset_with", "WITH w AS (SELECT id FROM small) SELECT id FROM w LIMIT 3 OFFSET %s", true},
	}
}

type failPosition struct {
	name string
	sql  string // %s = the failing SELECT
}

func failPositions() []failPosition {
	return []failPosition{
		{"top", "%s"},
		{"where_in", "SELECT b.id FROM big b WHERE b.grp IN (%s)"},
		{"where_exists", "SELECT b.id FROM big b WHERE b.id > 0 AND EXISTS (%s)"},
		{"scalar", "SELECT b.id, (%s) FROM big b"},
		{"order_scalar", "SELECT b.id FROM big b ORDER BY (%s), b.id"},
		{"derived", "SELECT COUNT(*) FROM (%s) d"},
		{"lateral", "SELECT b.id FROM big b CROSS JOIN LATERAL (%s) l"},
		{"union_rhs", "SELECT 1 UNION ALL (%s)"},
		{"cursor", "DECLARE fc CURSOR FOR %s; OPEN fc"},
		{"insert_select", "DECLARE ft VIEW (a); INSERT INTO ft (a) SELECT b.id FROM big b WHERE b.grp IN (%s)"},
		{"update_where", "UPDATE big SET txt = 'u' WHERE grp IN (%s)"},
		{"update_set", "UPDATE big SET txt = (%s) WHERE id < 200"},
		{"delete_where", "DELETE FROM big WHERE grp IN (%s)"},
		{"create_as", "CREATE TABLE `fnew.csv` (a) AS %s"},
		{"udf_body", "DECLARE fz FUNCTION (@a) AS BEGIN VAR @r; @r := (%s); RETURN @r; END; SELECT b.id FROM big b WHERE fz(b.id) = 1"},
		{"if_block", "IF TRUE THEN VAR @q := (%s); END IF"},
		{"while_block", "VAR @i := 0; WHILE @i < 2 DO @i := @i + 1; IF @i = 2 THEN VAR @q := (%s); END IF; END WHILE"},
		{"select_into", "VAR @v; SELECT (%s) INTO @v FROM small WHERE id = 3"},
	}
}

const historyPrelude = "DECLARE boom FUNCTION (@a) AS BEGIN TRIGGER ERROR 'boom'; END;"

// statements that keep several query nodes alive at once on several goroutines (aliases in every sub-query: the
// alias map of the node scope is written when a table is loaded)
var parallelProbes = []string{
	"SELECT COUNT(*) FROM big b WHERE EXISTS (SELECT 1 FROM tiny s WHERE s.id = b.id)",
	"SELECT COUNT(*), SUM(x) FROM (SELECT b.id, (SELECT COUNT(*) FROM tiny s JOIN tiny s2 ON s.grp = s2.grp WHERE s.id = b.id) AS x FROM big b) t",
	"SELECT COUNT(*) FROM big b WHERE b.grp IN (SELECT s.grp FROM tiny s WHERE s.id > b.id) AND b.id NOT IN (SELECT s.id FROM tiny s WHERE s.grp = b.grp)",
	"SELECT COUNT(*) FROM big b WHERE (WITH w AS (SELECT id FROM tiny s WHERE s.grp = b.grp) SELECT COUNT(*) FROM w w1 JOIN w w2 ON w1.id = w2.id) >= 0",
	"SELECT MIN(b.id), MAX(b.id) FROM big b CROSS JOIN LATERAL (SELECT s.id FROM tiny s WHERE s.id = b.id) l WHERE (SELECT MAX(s.id) FROM tiny s WHERE s.grp = b.grp) > 0",
}

func firstPointer(v reflect.Value, depth int) uintptr {
	if depth > 4 {
		return 0
	}
	switch v.Kind() {
	case reflect.Ptr, reflect.Map:
		return v.Pointer()
	case reflect.Struct:
		for i := 0; i < v.NumField(); i++ {
			if p := firstPointer(v.Field(i), depth+1); p != 0 {
				return p
			}
		}
	}
	return 0
}

// mapsLen: the number of entries of the maps directly inside a scope struct (unexported fields are fine for Len)
func mapsLen(v reflect.Value) int {
	n := 0
	for i := 0; i < v.NumField(); i++ {
		if f := v.Field(i); f.Kind() == reflect.Map {
			n += f.Len()
		}
	}
	return n
}

// scopePoolProbe takes n node scopes and n block scopes out of csvq's pools and holds them all: they must be
// pairwise distinct objects, empty, and none may be a block of the live scope.  An object that was released
// twice (or while in use) comes out twice.  Each distinct object is given back once.
func scopePoolProbe(live *query.ReferenceScope, n int) string {
	problem := ""
	seenN := map[uintptr]int{}
	var nodes []query.NodeScope
	for i := 0; i < n; i++ {
		nd := query.GetNodeScope()
		nodes = append(nodes, nd)
		p := firstPointer(reflect.ValueOf(nd), 0)
		if prev, dup := seenN[p]; dup && p != 0 && problem == "" {
			problem = fmt.Sprintf("node scopes %d and %d taken from nodeScopePool while both are held are the same object (one map for two live queries)", prev, i)
		}
		if l := mapsLen(reflect.ValueOf(nd)); l != 0 && problem == "" {
			problem = fmt.Sprintf("node scope %d taken from nodeScopePool is not empty (%d entries)", i, l)
		}
		seenN[p] = i
	}
	seenB := map[uintptr]string{}
	if live != nil {
		for i, b := range live.Blocks {
			seenB[firstPointer(reflect.ValueOf(b), 0)] = fmt.Sprintf("block %d of the live session scope", i)
		}
	}
	var blocks []query.BlockScope
	for i := 0; i < n; i++ {
		b := query.GetBlockScope()
		blocks = append(blocks, b)
		p := firstPointer(reflect.ValueOf(b), 0)
		if prev, dup := seenB[p]; dup && p != 0 && problem == "" {
			problem = fmt.Sprintf("block scope %d taken from blockScopePool is the same object as %s", i, prev)
		}
		if (b.Variables.Len() != 0 || b.Functions.Len() != 0 || b.Cursors.Len() != 0 || b.TemporaryTables.Len() != 0) && problem == "" {
			problem = fmt.Sprintf("block scope %d taken from blockScopePool is not empty", i)
		}
		seenB[p] = fmt.Sprintf("pool block %d", i)
	}
	doneN := map[uintptr]bool{}
	for _, nd := range nodes {
		if p := firstPointer(reflect.ValueOf(nd), 0); !doneN[p] {
			doneN[p] = true
			query.PutNodeScope(nd)
		}
	}
	doneB := map[uintptr]bool{}
	for _, b := range blocks {
		if p := firstPointer(reflect.ValueOf(b), 0); !doneB[p] {
			doneB[p] = true
			query.PutBlockScope(b)
		}
	}
	return problem
}

type failStmt struct{ clause, position, sql string }

// failingStatements: quick = every clause at three positions (rotating) so that every position occurs; thorough =
// the full product.  The failing expression rotates.
func failingStatements(thorough bool) []failStmt {
	var out []failStmt
	sels, poss := failSelects(), failPositions()
	k := 0
	for i, fs := range sels {
		for j, fp := range poss {
			if !thorough && (j+len(poss)-(i*4)%len(poss))%len(poss) >= 4 {
				continue
			}
			atom := failAtoms[k%len(failAtoms)]
			if fs.number {
				atom = failNumbers[k%len(failNumbers)]
			}
			k++
			out = append(out, failStmt{fs.clause, fp.name, fmt.Sprintf(fp.sql, fmt.Sprintf(fs.sql, atom))})
		}
	}
	return out
}

func runFailingHistories(g *hc.Gen, scratch string, thorough bool, cs *childStats, sigs map[string]bool) {
	repo, err := os.MkdirTemp(scratch, "c13hist-")
	if err != nil {
		panic(err)
	}
	defer os.RemoveAll(repo)
	big := []string{"id,grp,val,txt"}
	for i := 1; i <= 330; i++ {
		big = append(big, fmt.Sprintf("%d,%d,%d,t%d", i, g.Intn(9), g.Intn(1000), g.Intn(5)))
	}
	small := []string{"id,grp,name"}
	for i := 1; i <= 40; i++ {
		small = append(small, fmt.Sprintf("%d,%d,n%d", i*3, g.Intn(9), i))
	}
	writeLines(filepath.Join(repo, "big.csv"), big)
	writeLines(filepath.Join(repo, "small.csv"), small)
	writeTiny(repo)
	stmts := failingStatements(thorough)
	sig := func(s string) {
		if !sigs[s] {
			sigs[s] = true
			cs.Sigs = append(cs.Sigs, s)
		}
	}
	law := func(name string, c interface{}) {
		cs.Errors["law:"+name]++
		if len(cs.Laws) < 40 {
			cs.Laws = append(cs.Laws, childLaw{name, c})
		}
	}

	// the pools as the earlier workloads left them
	if p := scopePoolProbe(nil, 96); p != "" {
		law("pool_hands_out_distinct_scopes", map[string]interface{}{"history": "the workloads before the failing-statement histories (load matrix, correlated sub-queries, special statements, failing loads)", "probe": p})
	}

	// pass 1: one goroutine, probe after every failing statement
	pr := hc.NewProc(repo)
	if _, err := pr.Exec("SET @@CPU TO 1; " + historyPrelude); err != nil {
		panic(err)
	}
	for _, fs := range stmts {
		cleanup := func() {
			_, _ = pr.Exec("DISPOSE CURSOR fc;")
			_, _ = pr.Exec("DISPOSE VIEW ft;")
			_, _ = pr.Exec("DISPOSE FUNCTION fz;")
			_, _ = pr.Exec("DISPOSE @v;")
			_, _ = pr.Exec("DISPOSE @i;")
		}
		var err error
		for rep := 0; rep < 2; rep++ { // twice: the race detector's sync.Pool drops one Put in four
			if rep > 0 {
				cleanup()
			}
			_, err = pr.Exec(fs.sql + ";")
		}
		cs.Queries++
		cs.Kinds["history:fail:"+fs.clause]++
		cs.Kinds["history:at:"+fs.position]++
		if err == nil {
			cs.Errors["expected_error_missing:history:"+fs.clause+":"+fs.position]++
			if len(cs.Samples) < 12 {
				cs.Samples = append(cs.Samples, "NO ERROR "+fs.sql)
			}
		}
		sig(fmt.Sprintf("history/%s/%s/err%d", fs.clause, fs.position, hc.ErrCode(err)))
		if os.Getenv("C13_TRACE") != "" {
			fmt.Fprintln(os.Stderr, "TRACE history", fs.clause, fs.position, firstLine(err))
		}
		if err != nil && strings.Contains(err.Error(), "redeclared") {
			cs.Errors["history_statement_not_reached:"+fs.position]++
		}
		if p := scopePoolProbe(pr.P.ReferenceScope, 48); p != "" {
			law("pool_hands_out_distinct_scopes", map[string]interface{}{
				"history": []string{"SET @@CPU TO 1; " + historyPrelude, fs.sql + ";   -- " + firstLine(err), "(the same statement once more)"},
				"clause":  fs.clause, "position": fs.position, "probe": p})
		}
		cleanup()
	}
	pr.Close()

	// pass 2: the parallel statements before and after the history, several workers
	rounds := 1
	if thorough {
		rounds = 3
	}
	for round := 0; round < rounds; round++ {
		cpu := []int{4, 2, 8}[round%3]
		pr := hc.NewProc(repo)
		if _, err := pr.Exec(fmt.Sprintf("SET @@CPU TO %d; %s", cpu, historyPrelude)); err != nil {
			panic(err)
		}
		want := make([]string, len(parallelProbes))
		for i, q := range parallelProbes {
			out, err := pr.Exec(q + ";")
			cs.Queries++
			cs.Kinds["history:parallel_before"]++
			if err != nil {
				cs.Errors["history_parallel_before:"+fmt.Sprint(hc.ErrCode(err))]++
				if len(cs.Samples) < 12 {
					cs.Samples = append(cs.Samples, "ERROR history parallel: "+firstLine(err)+" "+q)
				}
			}
			want[i] = out
		}
		var hist []string
		for _, fs := range stmts {
			_, err := pr.Exec(fs.sql + ";")
			cs.Queries++
			cs.Kinds["history:fail_parallel"]++
			if err != nil && len(hist) < 400 {
				hist = append(hist, fs.sql+";")
			}
			_, _ = pr.Exec("DISPOSE CURSOR fc;")
			_, _ = pr.Exec("DISPOSE VIEW ft;")
			_, _ = pr.Exec("DISPOSE FUNCTION fz;")
			_, _ = pr.Exec("DISPOSE @v;")
			_, _ = pr.Exec("DISPOSE @i;")
		}
		for rep := 0; rep < 3; rep++ {
			for i, q := range parallelProbes {
				out, err := pr.Exec(q + ";")
				cs.Queries++
				cs.Kinds["history:parallel_after"]++
				if err != nil || out != want[i] {
					law("parallel_result_after_failures", map[string]interface{}{
						"history":   fmt.Sprintf("SET @@CPU TO %d; %s then %d failing statements, e.g. %s", cpu, historyPrelude, len(hist), strings.Join(head(hist, 3), " ")),
						"statement": q, "before": strings.TrimSpace(want[i]), "after": strings.TrimSpace(out), "error": firstLine(err)})
				}
				sig(fmt.Sprintf("history/parallel%d/cpu%d/err%d", i, cpu, hc.ErrCode(err)))
			}
		}
		if p := scopePoolProbe(pr.P.ReferenceScope, 96); p != "" {
			law("pool_hands_out_distinct_scopes", map[string]interface{}{
				"history": fmt.Sprintf("SET @@CPU TO %d; %d failing statements (every clause × position), then the parallel statements", cpu, len(hist)), "probe": p})
		}
		pr.Close()
	}
}

func firstLine(err error) string {
	if err == nil {
		return ""
	}
	return strings.SplitN(err.Error(), "\n", 2)[0]
}

func head(xs []string, n int) []string {
	if len(xs) > n {
		return xs[:n]
	}
	return xs
}
