package main

// The load matrix: every input format × {file, stdin} × {header, no header} with row counts on both
// sides of every internal threshold of the loaders, at @@CPU 1, 2, 4 and 8:
//
//	fileLoadingPreparedRecordSetCap = fileLoadingBuffer = 300 records (capacity re-estimate, full channel)
//	MinimumRequiredPerCPUCore = 80 rows per worker  →  160 / 320 / 640 rows for 2 / 4 / 8 workers
//
// The producer/consumer goroutines of readRecordSet / loadViewFromJsonLinesFile only overlap for files
// longer than the prepared capacity; a statement over such a table is executed for every combination.

import (
	"bytes"
	"context"
	"fmt"
	"io"
	"os"
	"path/filepath"
	"strings"
	"time"

	"verifharness/hc"
)

var matrixRowsQuick = []int{159, 161, 299, 301, 650}
var matrixRowsThorough = []int{1, 79, 81, 159, 161, 299, 300, 301, 319, 321, 599, 601, 639, 641, 1300, 2500}
var matrixCPUs = []int{1, 2, 4, 8}

type matrixData struct {
	csv, csvNoHdr, tsv, tsvNoHdr, fixed, fixedNoHdr, ltsv, jsonl, json []byte
}

func genMatrixData(g *hc.Gen, rows int) matrixData {
	words := []string{"alpha", "beta", "gamma", "delta", "epsilon"}
	var csv, tsv, fixed, ltsv, jsonl []string
	for i := 1; i <= rows; i++ {
		grp, val, txt := g.Intn(5), g.Intn(1000)-500, words[g.Intn(len(words))]
		csv = append(csv, fmt.Sprintf("%d,%d,%d,%s", i, grp, val, txt))
		tsv = append(tsv, fmt.Sprintf("%d\t%d\t%d\t%s", i, grp, val, txt))
		fixed = append(fixed, fmt.Sprintf("%-6d%-4d%-8d%-8s", i, grp, val, txt))
		ltsv = append(ltsv, fmt.Sprintf("id:%d\tgrp:%d\tval:%d\ttxt:%s", i, grp, val, txt))
		jsonl = append(jsonl, fmt.Sprintf(`{"id":%d,"grp":%d,"val":%d,"txt":"%s"}`, i, grp, val, txt))
	}
	join := func(hdr string, ls []string) []byte {
		if hdr != "" {
			ls = append([]string{hdr}, ls...)
		}
		return []byte(strings.Join(ls, "\n") + "\n")
	}
	return matrixData{
		csv: join("id,grp,val,txt", csv), csvNoHdr: join("", csv),
		tsv: join("id\tgrp\tval\ttxt", tsv), tsvNoHdr: join("", tsv),
		fixed: join(fmt.Sprintf("%-6s%-4s%-8s%-8s", "id", "grp", "val", "txt"), fixed), fixedNoHdr: join("", fixed),
		ltsv: join("", ltsv), jsonl: join("", jsonl), json: []byte("[" + strings.Join(jsonl, ",") + "]\n"),
	}
}

type matrixCase struct {
	name  string // format/header
	file  string
	data  func(matrixData) []byte
	table string // table expression with %s for the table identifier
	col   string // a column to aggregate
}

func matrixCases() []matrixCase {
	return []matrixCase{
		{"csv/header", "m.csv", func(d matrixData) []byte { return d.csv }, "CSV(',', %s)", "val"},
		{"csv/noheader", "mn.csv", func(d matrixData) []byte { return d.csvNoHdr }, "CSV(',', %s, 'UTF8', TRUE)", "c3"},
		{"tsv/header", "m.tsv", func(d matrixData) []byte { return d.tsv }, "CSV('\\t', %s)", "val"},
		{"tsv/noheader", "mn.tsv", func(d matrixData) []byte { return d.tsvNoHdr }, "CSV('\\t', %s, 'UTF8', TRUE)", "c3"},
		{"fixed/header", "m.txt", func(d matrixData) []byte { return d.fixed }, "FIXED('[6,10,18,26]', %s)", "val"},
		{"fixed/noheader", "mn.txt", func(d matrixData) []byte { return d.fixedNoHdr }, "FIXED('[6,10,18,26]', %s, 'UTF8', TRUE)", "c3"},
		{"ltsv", "m.ltsv", func(d matrixData) []byte { return d.ltsv }, "LTSV(%s)", "val"},
		{"jsonl", "m.jsonl", func(d matrixData) []byte { return d.jsonl }, "JSONL('{}', %s)", "val"},
		{"json", "m.json", func(d matrixData) []byte { return d.json }, "JSON('{}', %s)", "val"},
	}
}

// runLoadMatrix executes the matrix; quick: every (case, source, row count) once with the CPU numbers
// rotating; thorough: the full product.
func runLoadMatrix(g *hc.Gen, scratch string, thorough bool, cs *childStats, sigs map[string]bool) {
	rowsList := matrixRowsQuick
	if thorough {
		rowsList = matrixRowsThorough
	}
	repo, err := os.MkdirTemp(scratch, "c13mx-")
	if err != nil {
		panic(err)
	}
	defer os.RemoveAll(repo)
	rot := 0
	for _, rows := range rowsList {
		d := genMatrixData(g, rows)
		for _, mc := range matrixCases() {
			_ = os.WriteFile(filepath.Join(repo, mc.file), mc.data(d), 0o644)
		}
		for _, mc := range matrixCases() {
			for _, src := range []string{"file", "stdin"} {
				cpus := []int{matrixCPUs[rot%len(matrixCPUs)]}
				rot++
				if thorough {
					cpus = matrixCPUs
				}
				for _, cpu := range cpus {
					pr := hc.NewProc(repo)
					ident := "`" + mc.file + "`"
					if src == "stdin" {
						ident = "STDIN"
						if e := pr.P.Tx.Session.SetStdin(io.NopCloser(bytes.NewReader(mc.data(d)))); e != nil {
							panic(e)
						}
					}
					sql := fmt.Sprintf("SET @@CPU TO %d; SELECT COUNT(*), MAX(%s) FROM %s;", cpu, mc.col, fmt.Sprintf(mc.table, ident))
					out, err := pr.Exec(sql)
					pr.Close()
					cs.Queries++
					kind := "loadmx:" + mc.name + ":" + src
					cs.Kinds[kind]++
					if err != nil {
						cs.Errors[fmt.Sprintf("%s:%d", kind, hc.ErrCode(err))]++
						if len(cs.Samples) < 12 {
							cs.Samples = append(cs.Samples, "ERROR "+kind+": "+strings.SplitN(err.Error(), "\n", 2)[0])
						}
					} else if !strings.Contains(out, fmt.Sprintf("%d", rows)) {
						cs.Errors["loadmx_wrong_count:"+kind]++
					}
					sig := fmt.Sprintf("%s/rows%d/cpu%d", kind, rows, cpu)
					if !sigs[sig] {
						sigs[sig] = true
						cs.Sigs = append(cs.Sigs, sig)
					}
					if len(cs.Samples) < 3 && src == "stdin" && rows > 300 {
						cs.Samples = append(cs.Samples, fmt.Sprintf("rows=%d (stdin) %s", rows, sql))
					}
				}
			}
		}
	}
}

// Correlated sub-queries with many distinct outer-column references: the outer record's field-index cache
// passes 8 entries (and changes its representation) before the sub-query starts, the sub-query's workers
// then resolve further outer references concurrently.  Both regimes: outer table below / above the size
// that is split over several workers, inner table always above it.
func runCorrelated(g *hc.Gen, scratch string, thorough bool, cs *childStats, sigs map[string]bool) {
	repo, err := os.MkdirTemp(scratch, "c13corr-")
	if err != nil {
		panic(err)
	}
	defer os.RemoveAll(repo)
	wide := func(rows int) []byte {
		ls := []string{"id,k1,k2,k3,k4,k5,k6,k7,k8,k9,k10,k11,k12"}
		for i := 1; i <= rows; i++ {
			l := fmt.Sprintf("%d", i)
			for k := 0; k < 12; k++ {
				l += fmt.Sprintf(",%d", g.Intn(7))
			}
			ls = append(ls, l)
		}
		return []byte(strings.Join(ls, "\n") + "\n")
	}
	_ = os.WriteFile(filepath.Join(repo, "wsmall.csv"), wide(70), 0o644)
	_ = os.WriteFile(filepath.Join(repo, "wbig.csv"), wide(200), 0o644)
	in := []string{"id,grp,v"}
	for i := 1; i <= 230; i++ {
		in = append(in, fmt.Sprintf("%d,%d,%d", i, g.Intn(7), g.Intn(7)))
	}
	_ = os.WriteFile(filepath.Join(repo, "inn.csv"), []byte(strings.Join(in, "\n")+"\n"), 0o644)
	pre := "o.k1 + o.k2 + o.k3 + o.k4 + o.k5 + o.k6 + o.k7 + o.k8 + o.k9 + o.k10 >= 0"
	forms := []struct{ name, sql string }{
		{"exists", "SELECT o.id FROM %s o WHERE " + pre + " AND EXISTS (SELECT 1 FROM inn i WHERE i.grp = o.k11 AND i.v > o.k12)"},
		{"in", "SELECT o.id FROM %s o WHERE " + pre + " AND o.id IN (SELECT i.id FROM inn i WHERE i.grp = o.k11 AND i.v <= o.k12)"},
		{"scalar", "SELECT o.id, o.k1 + o.k2 + o.k3 + o.k4 + o.k5 + o.k6 + o.k7 + o.k8 + o.k9, (SELECT COUNT(*) FROM inn i WHERE i.grp = o.k10 AND i.v < o.k11 + o.k12) FROM %s o"},
		{"exists_group", "SELECT o.k1, COUNT(*) FROM %s o WHERE o.k2 + o.k3 + o.k4 + o.k5 + o.k6 + o.k7 + o.k8 + o.k9 + o.k10 >= 0 AND NOT EXISTS (SELECT 1 FROM inn i WHERE i.id = o.id AND i.grp = o.k11 AND i.v = o.k12) GROUP BY o.k1"},
	}
	rot := 0
	for _, outer := range []string{"wsmall", "wbig"} {
		for _, f := range forms {
			cpus := []int{[]int{2, 4, 8}[rot%3]}
			rot++
			if thorough {
				cpus = []int{2, 4, 8}
			}
			for _, cpu := range cpus {
				pr := hc.NewProc(repo)
				sql := fmt.Sprintf("SET @@CPU TO %d; %s;", cpu, fmt.Sprintf(f.sql, outer))
				_, err := pr.Exec(sql)
				pr.Close()
				cs.Queries++
				kind := "correlated:" + f.name + ":" + outer
				cs.Kinds[kind]++
				if err != nil {
					cs.Errors[fmt.Sprintf("%s:%d", kind, hc.ErrCode(err))]++
					if len(cs.Samples) < 12 {
						cs.Samples = append(cs.Samples, "ERROR "+kind+": "+strings.SplitN(err.Error(), "\n", 2)[0])
					}
				}
				sig := fmt.Sprintf("%s/cpu%d", kind, cpu)
				if !sigs[sig] {
					sigs[sig] = true
					cs.Sigs = append(cs.Sigs, sig)
				}
			}
		}
	}
}

// Stateful / non-deterministic built-ins, the functions with an evaluation path of their own, list
// aggregates ordered by expressions over derived tables with many groups, and prepared statements
// (EXECUTE … USING literal and non-literal replace values, named placeholders, cursors for prepared
// statements): everything that reaches state shared through the context / the session by all workers.
func runSpecial(g *hc.Gen, scratch string, thorough bool, cs *childStats, sigs map[string]bool) {
	repo, err := os.MkdirTemp(scratch, "c13spec-")
	if err != nil {
		panic(err)
	}
	defer os.RemoveAll(repo)
	makeTables(g, repo, 700, 220)
	derived := "(SELECT id, grp, val, txt, id % 180 AS g FROM big) t"
	stmts := []struct{ name, sql string }{
		{"rand", "SELECT id, RAND() FROM big"},
		{"rand_range", "SELECT id, RAND(1, 100) FROM big WHERE RAND() < 2 ORDER BY RAND()"},
		{"now", "SELECT id, NOW(), DATETIME_FORMAT(NOW(), '%Y') FROM big WHERE NOW() IS NOT NULL"},
		{"json_object", "SELECT id, JSON_OBJECT(txt, id), JSON_OBJECT() FROM big"},
		{"listagg_within", "SELECT g, LISTAGG(txt, ',') WITHIN GROUP (ORDER BY val + 1), JSON_AGG(val) WITHIN GROUP (ORDER BY txt || 'x' DESC, id) FROM " + derived + " GROUP BY g"},
		{"listagg_within_plain", "SELECT grp, LISTAGG(DISTINCT txt, ',') WITHIN GROUP (ORDER BY txt), COUNT(DISTINCT val) FROM big GROUP BY grp"},
		{"agg_expr_derived", "SELECT g, SUM(val * 2), MEDIAN(val + id), MAX(UPPER(txt)) FROM " + derived + " GROUP BY g HAVING COUNT(*) > 0 ORDER BY g"},
		{"listagg_analytic", "SELECT id, LISTAGG(txt, '') OVER (PARTITION BY g ORDER BY val + 1) FROM " + derived},
		{"cursor_udf", "DECLARE cur CURSOR FOR SELECT id FROM small; OPEN cur; DECLARE cf FUNCTION (@a) AS BEGIN DECLARE @x; FETCH cur INTO @x; RETURN @x; END; " +
			"SELECT id, cf(id), CURSOR cur COUNT, CURSOR cur IS OPEN FROM big WHERE (cf(id) > 0 OR id > 0) AND (CURSOR cur IS IN RANGE OR id > 0); CLOSE cur; DISPOSE CURSOR cur"},
		{"inline_in_subquery", "SELECT COUNT(*) FROM big WHERE grp IN (SELECT a FROM JSON_INLINE('', '[{\"a\":1},{\"a\":2}]') j)"},
		{"inline_csv_in_subquery", "SELECT id, (SELECT MAX(c1) FROM CSV_INLINE(',', '1\n2\n3', 'UTF8', TRUE) x WHERE c1 <= big.grp) FROM big WHERE EXISTS (SELECT 1 FROM JSON_INLINE('', '[{\"a\":1},{\"a\":5}]') j WHERE j.a >= big.grp)"},
		{"recursive_setop_subquery", "WITH RECURSIVE r (n) AS (SELECT 1 UNION ALL SELECT n + 1 FROM r WHERE n < 3 AND EXISTS (SELECT 1 FROM small WHERE grp IN (SELECT 1 UNION SELECT 2 FROM small b2 WHERE b2.id > 5000))) SELECT * FROM r"},
		{"recursive_parallel_term", "WITH RECURSIVE r (n) AS (SELECT id FROM big WHERE id <= 100 UNION ALL SELECT n + 1000 FROM r WHERE n < 1000 AND n % 7 IN (SELECT grp FROM small INTERSECT SELECT grp FROM big)) SELECT COUNT(*) FROM r"},
		{"alter_add_no_default", "ALTER TABLE big ADD (e1, e2)"},
		{"alter_add_mixed_defaults", "ALTER TABLE big ADD (e3, e4 DEFAULT (SELECT COUNT(*) FROM small s WHERE s.grp < 5), e5) FIRST"},
		{"alter_add_slow_default", "ALTER TABLE big ADD (e6 DEFAULT (SELECT MAX(s.name) FROM small s WHERE s.grp = big.grp), e7, e8 DEFAULT UPPER(txt) || id) AFTER grp"},
		{"alter_add_single", "ALTER TABLE big ADD e9 LAST; ALTER TABLE big ADD (e10, e11, e12, e13) BEFORE id"},
		{"prepared_literal", "PREPARE p1 FROM 'SELECT id, val + ? FROM big WHERE grp < ?'; EXECUTE p1 USING 50, 4; EXECUTE p1 USING 1.5, 9"},
		{"prepared_variable", "DECLARE @pv := 3; PREPARE p2 FROM 'SELECT id, val + ?, txt || ? FROM big WHERE grp < ? ORDER BY val * ?'; EXECUTE p2 USING @pv, @pv || 'x', @pv + 2, @pv - 5; EXECUTE p2 USING @pv + 1, 'lit', (SELECT MAX(grp) FROM small), 2"},
		{"prepared_named", "DECLARE @pn := 7; PREPARE p3 FROM 'SELECT id, :a + val, :b FROM big WHERE val > :a - 100 AND EXISTS (SELECT 1 FROM small s WHERE s.id = big.id + :c)'; EXECUTE p3 USING @pn * 2 AS a, (SELECT COUNT(*) FROM small) AS b, @pn AS c"},
		{"prepared_group", "DECLARE @pg := 2; PREPARE p4 FROM 'SELECT grp, SUM(val * ?), COUNT(*) FROM big WHERE id % ? = 0 GROUP BY grp HAVING COUNT(*) > ?'; EXECUTE p4 USING @pg + 1, @pg, @pg - 2"},
		{"prepared_cursor", "DECLARE @pc := 11; PREPARE p5 FROM 'SELECT id, val * ? FROM big WHERE grp <> ? ORDER BY id'; DECLARE c5 CURSOR FOR p5; OPEN c5 USING @pc + 1, @pc - 9; DECLARE @x; DECLARE @y; FETCH LAST c5 INTO @x, @y; CLOSE c5; OPEN c5 USING 3, (SELECT MIN(grp) FROM small); FETCH FIRST c5 INTO @x, @y; CLOSE c5; DISPOSE CURSOR c5"},
		{"prepared_update", "DECLARE @pu := 5; PREPARE p6 FROM 'UPDATE big SET val = val + ?, txt = txt || ? WHERE grp = ?'; EXECUTE p6 USING @pu, 'u' || @pu, @pu - 3"},
	}
	rot := 0
	for _, st := range stmts {
		cpus := []int{[]int{2, 4, 8}[rot%3]}
		rot++
		if thorough {
			cpus = []int{2, 4, 8}
		}
		for _, cpu := range cpus {
			pr := hc.NewProc(repo)
			sql := fmt.Sprintf("SET @@CPU TO %d; %s;", cpu, st.sql)
			_, err := pr.Exec(sql)
			pr.Close()
			cs.Queries++
			kind := "special:" + st.name
			cs.Kinds[kind]++
			if err != nil {
				cs.Errors[fmt.Sprintf("%s:%d", kind, hc.ErrCode(err))]++
				if len(cs.Samples) < 12 {
					cs.Samples = append(cs.Samples, "ERROR "+kind+": "+strings.SplitN(err.Error(), "\n", 2)[0])
				}
			}
			sig := fmt.Sprintf("%s/cpu%d", kind, cpu)
			if !sigs[sig] {
				sigs[sig] = true
				cs.Sigs = append(cs.Sigs, sig)
			}
		}
	}
}

// Loads that FAIL in the middle of a file (after the loader's two goroutines are well under way) and loads
// that are cancelled while they run: the error slot, the position counter and the channels of the
// producer/consumer pair are then used on their unhappy paths.
func runFailingLoads(g *hc.Gen, scratch string, thorough bool, cs *childStats, sigs map[string]bool) {
	repo, err := os.MkdirTemp(scratch, "c13fail-")
	if err != nil {
		panic(err)
	}
	defer os.RemoveAll(repo)
	type bad struct{ name, file, table, badLine string }
	cases := []bad{
		{"csv_surplus_field", "b1.csv", "`b1.csv`", "9001,1,2,three,SURPLUS,FIELD"},
		{"csv_broken_quote", "b2.csv", "`b2.csv`", "9002,1,\"broken quote,x"},
		{"tsv_surplus_field", "b3.tsv", "CSV('\\t', `b3.tsv`)", "9003\t1\t2\tthree\tSURPLUS"},
		{"ltsv_no_separator", "b4.ltsv", "LTSV(`b4.ltsv`)", "line without any label separator"},
		{"jsonl_broken", "b5.jsonl", "JSONL('{}', `b5.jsonl`)", "{\"id\": 9005, \"grp\": "},
		{"jsonl_not_object", "b6.jsonl", "JSONL('{}', `b6.jsonl`)", "[1, 2, 3]"},
	}
	positions := []int{2, 350, 690}
	if thorough {
		positions = []int{2, 150, 299, 301, 350, 600, 690, 699}
	}
	rot := 0
	for _, bc := range cases {
		for _, at := range positions {
			d := genMatrixData(g, 700)
			var src []byte
			switch {
			case strings.HasSuffix(bc.file, ".csv"):
				src = d.csv
			case strings.HasSuffix(bc.file, ".tsv"):
				src = d.tsv
			case strings.HasSuffix(bc.file, ".ltsv"):
				src = d.ltsv
			default:
				src = d.jsonl
			}
			lines := strings.Split(strings.TrimSuffix(string(src), "\n"), "\n")
			if at < len(lines) {
				lines = append(lines[:at], append([]string{strings.ReplaceAll(strings.ReplaceAll(bc.badLine, "\\t", "\t"), "\\\"", "\"")}, lines[at:]...)...)
			}
			_ = os.WriteFile(filepath.Join(repo, bc.file), []byte(strings.Join(lines, "\n")+"\n"), 0o644)
			cpu := []int{2, 4, 8}[rot%3]
			rot++
			for _, src := range []string{"file", "stdin"} {
				pr := hc.NewProc(repo)
				table := bc.table
				if src == "stdin" {
					table = strings.Replace(table, "`"+bc.file+"`", "STDIN", 1)
					if table == "STDIN" {
						table = "CSV(',', STDIN)"
					}
					data, _ := os.ReadFile(filepath.Join(repo, bc.file))
					_ = pr.P.Tx.Session.SetStdin(io.NopCloser(bytes.NewReader(data)))
				}
				sql := fmt.Sprintf("SET @@CPU TO %d; SELECT COUNT(*) FROM %s;", cpu, table)
				_, err := pr.Exec(sql)
				pr.Close()
				cs.Queries++
				kind := "failload:" + bc.name + ":" + src
				cs.Kinds[kind]++
				if err == nil {
					cs.Errors["failload_no_error:"+bc.name]++
				}
				sig := fmt.Sprintf("%s/at%d/cpu%d/err%d", kind, at, cpu, hc.ErrCode(err))
				if !sigs[sig] {
					sigs[sig] = true
					cs.Sigs = append(cs.Sigs, sig)
				}
			}
		}
	}
	// cancellation while a long file is being loaded
	big := genMatrixData(g, 20000)
	_ = os.WriteFile(filepath.Join(repo, "long.csv"), big.csv, 0o644)
	_ = os.WriteFile(filepath.Join(repo, "long.jsonl"), big.jsonl, 0o644)
	_ = os.WriteFile(filepath.Join(repo, "long.ltsv"), big.ltsv, 0o644)
	delays := []time.Duration{50 * time.Microsecond, 300 * time.Microsecond, 1 * time.Millisecond, 3 * time.Millisecond, 8 * time.Millisecond}
	for _, tbl := range []string{"`long.csv`", "JSONL('{}', `long.jsonl`)", "LTSV(`long.ltsv`)"} {
		for _, dl := range delays {
			pr := hc.NewProc(repo)
			ctx, cancel := context.WithCancel(pr.Ctx)
			pr.Ctx = ctx
			go func(d time.Duration) {
				time.Sleep(d)
				cancel()
			}(dl)
			_, err := pr.Exec("SET @@CPU TO 4; SELECT COUNT(*), MAX(val) FROM " + tbl + ";")
			cancel()
			pr.Close()
			cs.Queries++
			kind := "cancelload:" + strings.SplitN(strings.Trim(tbl, "`"), "(", 2)[0]
			cs.Kinds[kind]++
			sig := fmt.Sprintf("%s/%v/err%v", kind, dl, err != nil)
			if !sigs[sig] {
				sigs[sig] = true
				cs.Sigs = append(cs.Sigs, sig)
			}
		}
	}
}
