// c13 — dynamic cross-check of the access classification of property C13.
//
// Meant to be built with `-race`.  The process re-executes itself with
// GORACE="halt_on_error=0 log_path=<out>/race" (the race detector reads GORACE at start-up); the child
// runs filter / join / GROUP BY / ORDER BY / DISTINCT / analytic / DML / file-load workloads through the
// real processor, in-process, on tables of 200–3000 rows with @@CPU 2…8; the parent reads the race
// detector's log, normalises every report to the innermost csvq frame of each of the two accesses and
// records each distinct pair as a failed law `race:<funcA>+<funcB>` (the report is the replay).  Laws the child
// checks itself on the real code (pool probe after a history of failing statements, results after a history,
// the view of a record unchanged by evaluating an expression for it) come back through child.json.
//
// Environment: C13_ONLY=phase,… runs some phases only and C13_TRACE=1 prints statement times (development aids);
// Two findings of these workloads on the unchanged tree: SET @@flag inside a user-defined function evaluated in
// parallel (F105, recorded as known; C13_UDF_SETFLAG=0 leaves its workload out) and Header.Copy sharing the Aliases
// arrays (F106, fixed in /repo 8074f73; C13_ALIAS_SPARE=0 leaves its workload out).  Both run by default.
package main

import (
	"bufio"
	"encoding/json"
	"fmt"
	"os"
	"os/exec"
	"path/filepath"
	"regexp"
	"sort"
	"strconv"
	"strings"
	"syscall"
	"time"

	"verifharness/hc"
)

func main() { hc.Main(runC13) }

type childStats struct {
	Queries  int            `json:"queries"`
	Kinds    map[string]int `json:"kinds"`
	Sigs     []string       `json:"sigs"`
	Errors   map[string]int `json:"errors"`
	Samples  []string       `json:"samples"`
	MaxProcs int            `json:"maxprocs"`
	Laws     []childLaw     `json:"laws"` // laws the workload process checked itself (pool probe, results after a history)
}

func runC13(seed int64, n int, dir string, args []string) {
	if os.Getenv("C13_CHILD") == "1" {
		child(seed, n, dir)
		return
	}
	o := hc.NewOut(dir)
	evaluations := 0
	defer func() {
		o.Close()
		// hc.Out counts o.Case lines; this stream has no model lines: report the executed statements
		p := filepath.Join(dir, "stats.json")
		var st map[string]interface{}
		if b, err := os.ReadFile(p); err == nil && json.Unmarshal(b, &st) == nil {
			st["evaluations"] = evaluations
			nb, _ := json.MarshalIndent(st, "", " ")
			_ = os.WriteFile(p, nb, 0o644)
		}
	}()
	if !raceEnabled {
		o.Count("race_detector_off")
		o.Law("race_detector_unavailable", "binary built without -race: the dynamic cross-check did not run")
		return
	}
	logBase := filepath.Join(dir, "race")
	cmd := exec.Command(os.Args[0], os.Args[1:]...)
	cmd.Env = append(os.Environ(), "C13_CHILD=1", "GORACE=halt_on_error=0 exitcode=0 history_size=3 log_path="+logBase)
	cmd.Stdout, cmd.Stderr = os.Stderr, os.Stderr
	if err := cmd.Run(); err != nil {
		fmt.Fprintln(os.Stderr, "c13: workload process failed:", err)
		os.Exit(3)
	}
	var cs childStats
	if b, err := os.ReadFile(filepath.Join(dir, "child.json")); err == nil {
		_ = json.Unmarshal(b, &cs)
	}
	evaluations = cs.Queries
	for k, v := range cs.Kinds {
		o.Stats["kind:"+k] += v
	}
	for k, v := range cs.Errors {
		o.Stats["error:"+k] += v
	}
	for _, s := range cs.Sigs {
		o.NonTrivial(s)
	}
	o.Samples = append(o.Samples, cs.Samples...)
	o.Stats["race_detector_on"] = 1
	for _, l := range cs.Laws {
		o.Law(l.Law, l.Case)
	}

	logs, _ := filepath.Glob(logBase + ".*")
	seen := map[string]bool{}
	for _, lf := range logs {
		b, err := os.ReadFile(lf)
		if err != nil {
			continue
		}
		for _, rep := range splitReports(string(b)) {
			o.Stats["race_reports"]++
			fr := topFrames(rep)
			name := "race:" + frameNames(fr)
			if seen[name] {
				continue
			}
			seen[name] = true
			if len(rep) > 6000 {
				rep = rep[:6000] + "\n…"
			}
			o.Law(name, map[string]interface{}{"frames": fr, "report": rep})
		}
	}
}

var reSep = regexp.MustCompile(`(?m)^==================\s*$`)

func splitReports(s string) []string {
	var out []string
	for _, part := range reSep.Split(s, -1) {
		if strings.Contains(part, "WARNING: DATA RACE") {
			out = append(out, strings.TrimSpace(part))
		}
	}
	return out
}

type frame struct {
	Func string `json:"func"`
	File string `json:"file"`
	Line int    `json:"line"`
}

var reAccessHdr = regexp.MustCompile(`^(Write|Read|Previous write|Previous read|Atomic write|Atomic read|Previous atomic write|Previous atomic read) at `)
var reLoc = regexp.MustCompile(`^\s+(\S+\.go):(\d+)`)

// topFrames: for each of the two conflicting accesses of a report, the innermost frame that lies in
// csvq (or, failing that, the innermost frame at all).
func topFrames(rep string) []frame {
	lines := strings.Split(rep, "\n")
	var out []frame
	for i := 0; i < len(lines) && len(out) < 2; i++ {
		if !reAccessHdr.MatchString(lines[i]) {
			continue
		}
		var first, chosen *frame
		for j := i + 1; j+1 < len(lines); j += 2 {
			fn := strings.TrimSpace(lines[j])
			if fn == "" {
				break
			}
			m := reLoc.FindStringSubmatch(lines[j+1])
			if m == nil {
				break
			}
			ln, _ := strconv.Atoi(m[2])
			if k := strings.LastIndex(fn, "("); k > 0 {
				fn = fn[:k]
			}
			f := &frame{Func: fn, File: m[1], Line: ln}
			if first == nil {
				first = f
			}
			if strings.Contains(fn, "mithrandie/csvq/") {
				chosen = f
				break
			}
		}
		if chosen == nil {
			chosen = first
		}
		if chosen != nil {
			chosen.Func = strings.TrimPrefix(chosen.Func, "github.com/mithrandie/csvq/lib/")
			chosen.File = filepath.Base(chosen.File)
			out = append(out, *chosen)
		}
	}
	return out
}

func frameNames(fr []frame) string {
	var ns []string
	for _, f := range fr {
		ns = append(ns, f.Func)
	}
	sort.Strings(ns)
	return strings.Join(ns, "+")
}

// ---------------------------------------------------------------------------------------------
// the workload process
// ---------------------------------------------------------------------------------------------

func writeLines(path string, lines []string) {
	f, err := os.Create(path)
	if err != nil {
		panic(err)
	}
	w := bufio.NewWriter(f)
	for _, l := range lines {
		w.WriteString(l)
		w.WriteByte('\n')
	}
	w.Flush()
	f.Close()
}

func makeTables(g *hc.Gen, repo string, rows int, small int) {
	words := []string{"alpha", "beta", "gamma", "delta", "epsilon", "zeta", "eta", "theta"}
	var csv, tsv, fixed, jsonl, ltsv []string
	csv = append(csv, "id,grp,val,txt")
	tsv = append(tsv, "id\tgrp\tval\ttxt")
	fixed = append(fixed, fmt.Sprintf("%-6s%-4s%-10s%-8s", "id", "grp", "val", "txt"))
	for i := 1; i <= rows; i++ {
		grp := g.Intn(7)
		val := g.Intn(2000) - 1000
		txt := words[g.Intn(len(words))]
		fv := fmt.Sprintf("%d.%02d", val, g.Intn(100))
		csv = append(csv, fmt.Sprintf("%d,%d,%s,%s", i, grp, fv, txt))
		tsv = append(tsv, fmt.Sprintf("%d\t%d\t%s\t%s", i, grp, fv, txt))
		fixed = append(fixed, fmt.Sprintf("%-6d%-4d%-10s%-8s", i, grp, fv, txt))
		jsonl = append(jsonl, fmt.Sprintf(`{"id":%d,"grp":%d,"val":%s,"txt":"%s"}`, i, grp, fv, txt))
		ltsv = append(ltsv, fmt.Sprintf("id:%d\tgrp:%d\tval:%s\ttxt:%s", i, grp, fv, txt))
	}
	writeLines(filepath.Join(repo, "big.csv"), csv)
	writeLines(filepath.Join(repo, "dtsv.tsv"), tsv)
	writeLines(filepath.Join(repo, "dfix.txt"), fixed)
	writeLines(filepath.Join(repo, "djl.jsonl"), jsonl)
	writeLines(filepath.Join(repo, "dlt.ltsv"), ltsv)
	js := "[" + strings.Join(jsonl, ",") + "]"
	writeLines(filepath.Join(repo, "djs.json"), []string{js})
	var sm []string
	sm = append(sm, "id,grp,name")
	for i := 1; i <= small; i++ {
		sm = append(sm, fmt.Sprintf("%d,%d,%s%d", i*3, g.Intn(9), words[g.Intn(len(words))], i))
	}
	writeLines(filepath.Join(repo, "small.csv"), sm)
}

// cpuMillis: processor time of this process so far (the wall clock of a phase depends on what else the machine does)
func cpuMillis() int {
	var ru syscall.Rusage
	if syscall.Getrusage(syscall.RUSAGE_SELF, &ru) != nil {
		return 0
	}
	return int(ru.Utime.Sec+ru.Stime.Sec)*1000 + int(ru.Utime.Usec+ru.Stime.Usec)/1000
}

type wl struct {
	kind string
	sql  string
}

func workloads() []wl {
	return []wl{
		{"load_csv", "SELECT COUNT(*) FROM big"},
		{"load_tsv", "SELECT COUNT(*), MAX(val) FROM CSV('\\t', `dtsv.tsv`)"},
		{"load_fixed", "SELECT COUNT(*), MAX(id) FROM FIXED('[6,10,20,28]', `dfix.txt`)"},
		{"load_jsonl", "SELECT COUNT(*), MAX(id) FROM JSONL('{}', `djl.jsonl`)"},
		{"load_json", "SELECT COUNT(*) FROM JSON('{}', `djs.json`)"},
		{"load_ltsv", "SELECT COUNT(*), MIN(val) FROM LTSV(`dlt.ltsv`)"},
		{"filter", "SELECT id, val FROM big WHERE val > 0 AND grp IN (1, 2, 3) OR txt = 'alpha'"},
		{"filter_fn", "SELECT id, UPPER(txt) || '-' || grp, ROUND(val, 1), ABS(val) FROM big WHERE id % 3 = 1"},
		{"filter_subquery", "SELECT id FROM big b WHERE EXISTS (SELECT 1 FROM small s WHERE s.id = b.id)"},
		{"select_case", "SELECT id, CASE WHEN val < 0 THEN 'neg' WHEN val = 0 THEN 'zero' ELSE 'pos' END AS s, COALESCE(NULLIF(grp, 3), -1) FROM big"},
		{"cross_join", "SELECT COUNT(*) FROM big CROSS JOIN small"},
		{"inner_join", "SELECT b.id, s.name FROM big b INNER JOIN small s ON b.id = s.id"},
		{"inner_join_grp", "SELECT COUNT(*) FROM big b JOIN small s ON b.grp = s.grp AND b.id < 400"},
		{"left_join", "SELECT b.id, s.name FROM big b LEFT JOIN small s ON b.id = s.id WHERE b.id < 900"},
		{"right_join", "SELECT b.id, s.name FROM small s RIGHT JOIN big b ON b.id = s.id WHERE b.id < 900"},
		{"full_join", "SELECT b.id, s.id FROM big b FULL JOIN small s ON b.id = s.id"},
		{"natural_join", "SELECT COUNT(*) FROM big NATURAL JOIN small"},
		{"lateral_join", "SELECT b.id, l.c FROM small b CROSS JOIN LATERAL (SELECT COUNT(*) AS c FROM small s WHERE s.grp = b.grp) l"},
		{"group_by", "SELECT grp, txt, COUNT(*), SUM(val), AVG(val), MIN(val), MAX(id), LISTAGG(txt, ',') FROM big GROUP BY grp, txt"},
		{"group_all", "SELECT COUNT(*), SUM(val), MEDIAN(val), COUNT(DISTINCT grp) FROM big"},
		{"having", "SELECT grp, COUNT(*) FROM big GROUP BY grp HAVING COUNT(*) > 10"},
		{"order_by", "SELECT id, val FROM big ORDER BY grp DESC, val ASC NULLS LAST, txt"},
		{"order_limit", "SELECT id FROM big ORDER BY val DESC LIMIT 17 OFFSET 5"},
		{"distinct", "SELECT DISTINCT grp, txt FROM big"},
		{"union", "SELECT id FROM big WHERE grp = 1 UNION SELECT id FROM small"},
		{"intersect", "SELECT id FROM big INTERSECT SELECT id FROM small"},
		{"except", "SELECT id FROM big EXCEPT SELECT id FROM small"},
		{"analytic_rank", "SELECT id, ROW_NUMBER() OVER (PARTITION BY grp ORDER BY val), RANK() OVER (PARTITION BY txt ORDER BY grp), DENSE_RANK() OVER (ORDER BY grp) FROM big"},
		{"analytic_agg", "SELECT id, SUM(val) OVER (PARTITION BY grp), COUNT(val) OVER (PARTITION BY grp, txt), AVG(val) OVER (PARTITION BY txt ORDER BY id ROWS BETWEEN 2 PRECEDING AND CURRENT ROW) FROM big"},
		{"analytic_nav", "SELECT id, FIRST_VALUE(val) OVER (PARTITION BY grp ORDER BY id), LAG(val, 1, 0) OVER (PARTITION BY grp ORDER BY id), LEAD(id) OVER (PARTITION BY txt ORDER BY id), NTILE(4) OVER (ORDER BY id) FROM big"},
		{"analytic_dist", "SELECT id, CUME_DIST() OVER (PARTITION BY grp ORDER BY val), PERCENT_RANK() OVER (ORDER BY val), LISTAGG(txt, '') OVER (PARTITION BY grp, txt) FROM big WHERE id < 700"},
		{"with_recursive", "WITH RECURSIVE n (i) AS (SELECT 1 UNION ALL SELECT i + 1 FROM n WHERE i < 300) SELECT COUNT(*), SUM(i) FROM n"},
		{"subquery_from", "SELECT g, c FROM (SELECT grp AS g, COUNT(*) AS c FROM big GROUP BY grp) t WHERE c > 1 ORDER BY g"},
		{"update", "UPDATE big SET val = val + 1, txt = txt || 'x' WHERE grp = 2"},
		{"update_join", "UPDATE b SET b.txt = s.name FROM big b JOIN small s ON b.id = s.id"},
		{"delete", "DELETE FROM big WHERE id % 5 = 0"},
		{"insert_select", "INSERT INTO big (id, grp, val, txt) SELECT id + 100000, grp, val, txt FROM big WHERE grp = 4"},
		{"replace", "REPLACE INTO small (id, grp, name) USING (id) SELECT id, grp, txt FROM big WHERE id < 500"},
		{"add_columns", "ALTER TABLE big ADD (extra1, extra2) AFTER grp"},
		{"tmp_table", "DECLARE tt VIEW (a, b) AS SELECT id, val FROM big; SELECT COUNT(*) FROM tt WHERE a > 10"},
		{"cursor", "DECLARE cur CURSOR FOR SELECT id, val FROM big ORDER BY val; OPEN cur; DECLARE @a; DECLARE @b; FETCH LAST cur INTO @a, @b; CLOSE cur; DISPOSE CURSOR cur"},
		{"err_field", "SELECT id FROM big WHERE nosuchfield = 1"},
		{"err_function", "SELECT id, DATETIME_FORMAT(id) FROM big"},
		{"err_subquery", "SELECT id, (SELECT id FROM small) FROM big"},
		{"err_group", "SELECT grp, COUNT(*) FROM big GROUP BY nosuchfield"},
		{"err_analytic", "SELECT id, SUM(nosuchfield) OVER (PARTITION BY grp) FROM big"},
		{"err_join", "SELECT COUNT(*) FROM big b JOIN small s ON b.id = s.nosuchfield"},
	}
}

func child(seed int64, n int, dir string) {
	g := hc.NewGen(seed)
	scratch := os.Getenv("VERIF_SCRATCH")
	if scratch == "" {
		scratch = os.TempDir()
	}
	cs := childStats{Kinds: map[string]int{}, Errors: map[string]int{}}
	sigs := map[string]bool{}
	ws := workloads()
	bands := [][2]int{{200, 400}, {400, 900}, {900, 1800}, {1800, 3000}}
	round := 0
	thorough := os.Getenv("VERIF_TIER") == "thorough"
	for _, ph := range []struct {
		name string
		run  func(*hc.Gen, string, bool, *childStats, map[string]bool)
	}{
		{"load_matrix", runLoadMatrix}, {"correlated", runCorrelated}, {"special", runSpecial}, {"failing_loads", runFailingLoads},
		{"function_grid", runFunctionGrid}, {"failing_histories", runFailingHistories}, {"record_views", runRecordViews}, {"udf_state", runUDFState}, {"session_state", runSessionState},
	} {
		if only := os.Getenv("C13_ONLY"); only != "" && !strings.Contains(","+only+",", ","+ph.name+",") {
			continue // development aid: run some phases only
		}
		t0, c0 := time.Now(), cpuMillis()
		ph.run(g, scratch, thorough, &cs, sigs)
		cs.Kinds["phase_ms:"+ph.name] = int(time.Since(t0) / time.Millisecond)
		cs.Kinds["phase_cpu_ms:"+ph.name] = cpuMillis() - c0
	}
	n += cs.Queries // the matrix comes on top of the n generated statements
	for cs.Queries < n {
		repo, err := os.MkdirTemp(scratch, "c13repo-")
		if err != nil {
			panic(err)
		}
		band := bands[round%len(bands)]
		rows := band[0] + g.Intn(band[1]-band[0]+1)
		small := 200 + g.Intn(120)
		makeTables(g, repo, rows, small)
		perm := g.Perm(len(ws))
		for _, k := range perm {
			if cs.Queries >= n {
				break
			}
			w := ws[k]
			cpu := 2 + g.Intn(7)
			pr := hc.NewProc(repo)
			sql := fmt.Sprintf("SET @@CPU TO %d; %s;", cpu, w.sql)
			_, err := pr.Exec(sql)
			pr.Close()
			cs.Queries++
			cs.Kinds[w.kind]++
			ec := hc.ErrCode(err)
			if strings.HasPrefix(w.kind, "err_") {
				if err == nil {
					cs.Errors["expected_error_missing:"+w.kind]++
				}
			} else if err != nil {
				cs.Errors[fmt.Sprintf("%s:%d", w.kind, ec)]++
				if len(cs.Samples) < 12 {
					cs.Samples = append(cs.Samples, "ERROR "+w.kind+": "+strings.SplitN(err.Error(), "\n", 2)[0])
				}
			}
			sig := fmt.Sprintf("%s/cpu%d/rows%d-%d/err%d", w.kind, cpu, band[0], band[1], ec)
			if !sigs[sig] {
				sigs[sig] = true
				cs.Sigs = append(cs.Sigs, sig)
			}
			if len(cs.Samples) < 6 && cs.Queries%11 == 1 {
				cs.Samples = append(cs.Samples, fmt.Sprintf("rows=%d %s", rows, sql))
			}
		}
		_ = os.RemoveAll(repo)
		round++
	}
	b, _ := json.Marshal(cs)
	_ = os.WriteFile(filepath.Join(dir, "child.json"), b, 0o644)
}
