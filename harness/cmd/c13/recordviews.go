package main

// Per-record evaluation that builds something of its own from the record's view: JSON_OBJECT (a one-record view
// with the outer header, then a select clause over it), sub-queries (a query node per record), user-defined
// functions (a block per invocation).  All of them run once per record on every worker of WHERE / the select
// list / ORDER BY / GROUP BY / a join condition; whatever they take from the outer view without copying it —
// the header above all — is shared by all workers.
//
//	law record_evaluation_leaves_view_unchanged (deterministic, no second goroutine needed): evaluating an
//	    expression for one record of a view leaves that view's header (names, aliases, flags of every field) and
//	    its records as they were;
//	law inner_names_stay_inside: a name given inside JSON_OBJECT(… AS name) does not resolve in the enclosing query;
//	and the same expressions over 330 / 700 rows at @@CPU 2/4/8 under the race detector.

import (
	"context"
	"fmt"
	"os"
	"path/filepath"
	"reflect"
	"strings"
	"time"

	"github.com/mithrandie/csvq/lib/parser"
	"github.com/mithrandie/csvq/lib/query"

	"verifharness/hc"
)

type memberList struct {
	name    string
	members string
	aliases []string // names that exist only inside the function
	grouped bool     // usable over grouped records (group key only)
}

func jsonObjectMembers() []memberList {
	return []memberList{
		{"none", "", nil, false},
		{"star", "*", nil, false},
		{"table_star", "big.*", nil, false},
		{"plain", "id, txt", nil, false},
		{"plain_aliased", "id AS `rec.id`, txt AS `rec.label`", []string{"`rec.id`", "`rec.label`"}, false},
		{"plain_one_alias", "grp AS g, val", []string{"g"}, true},
		{"alias_same_name", "id AS ID, txt AS Txt", nil, false},
		{"column_number", "big.1 AS c_one, big.3 AS c_three, grp", []string{"c_one", "c_three"}, false},
		{"star_and_alias", "*, id AS again", []string{"again"}, false},
		{"computed", "id + 1 AS n, UPPER(txt) AS t, grp AS gg", []string{"n", "t", "gg"}, false},
		{"subquery", "(SELECT MAX(s.id) FROM tiny s WHERE s.grp = big.grp) AS m, grp AS g2", []string{"m", "g2"}, false},
		{"udf", "twice(id) AS u, txt AS tt", []string{"u", "tt"}, false},
		{"nested_json", "JSON_OBJECT(id AS inner_id) AS o, id AS outer_id", []string{"o", "outer_id", "inner_id"}, false},
	}
}

const recordViewPrelude = "DECLARE twice FUNCTION (@a) AS BEGIN VAR @x := @a * 2; RETURN @x; END;"

// other per-record expressions that reach the scope / the view
var scopedExprs = []string{
	"(SELECT COUNT(*) FROM tiny s WHERE s.grp = big.grp)",
	"EXISTS (SELECT 1 FROM tiny s JOIN tiny s2 ON s.id = s2.id WHERE s.id = big.id)",
	"id IN (SELECT s.id FROM tiny s WHERE s.grp <= big.grp)",
	"twice(twice(id)) + twice(grp)",
	"CASE WHEN id % 2 = 0 THEN JSON_OBJECT(id AS even) ELSE JSON_OBJECT(id AS odd, txt) END",
	"COALESCE(JSON_VALUE('k', JSON_OBJECT(id AS k)), 'x') || txt",
	"(NOW() IS NOT NULL AND RAND() >= 0)",
}

// development aid: C13_TRACE=1 prints the time every statement of the newer phases took
func trace(t0 time.Time, q string) {
	if os.Getenv("C13_TRACE") != "" {
		fmt.Fprintln(os.Stderr, "TRACE", time.Since(t0), q)
	}
}

// tiny.csv: the table of the per-record sub-queries (their cost is paid once per outer record)
func writeTiny(repo string) {
	writeLines(filepath.Join(repo, "tiny.csv"), []string{"id,grp,name", "3,0,a", "6,1,b", "9,2,c", "12,3,d", "15,1,e", "18,5,f"})
}

func parseExpr(expr string) (parser.QueryExpression, error) {
	stmts, _, err := parser.Parse("SELECT "+expr+" FROM big", "", false, false)
	if err != nil {
		return nil, err
	}
	sq, ok := stmts[0].(parser.SelectQuery)
	if !ok {
		return nil, fmt.Errorf("not a select query")
	}
	se, ok := sq.SelectEntity.(parser.SelectEntity)
	if !ok {
		return nil, fmt.Errorf("not a select entity")
	}
	f, ok := se.SelectClause.(parser.SelectClause).Fields[0].(parser.Field)
	if !ok {
		return nil, fmt.Errorf("not a field")
	}
	return f.Object, nil
}

// spareCells: the cells between len and cap of every slice inside the header (and of the header itself) — an append
// to a shallow copy writes there without changing what the owner sees
func spareCells(h query.Header) [][]string {
	var out [][]string
	for _, f := range h {
		out = append(out, append([]string(nil), f.Aliases[:cap(f.Aliases)]...))
	}
	for _, f := range h[len(h):cap(h)] {
		out = append(out, []string{fmt.Sprintf("%+v", f)})
	}
	return out
}

func headerText(h query.Header) string {
	var sb strings.Builder
	for _, f := range h {
		fmt.Fprintf(&sb, "%+v;", f)
	}
	return sb.String()
}

func runRecordViews(g *hc.Gen, scratch string, thorough bool, cs *childStats, sigs map[string]bool) {
	repo, err := os.MkdirTemp(scratch, "c13rv-")
	if err != nil {
		panic(err)
	}
	defer os.RemoveAll(repo)
	rows := 330
	if thorough {
		rows = 700
	}
	makeTables(g, repo, rows, 60)
	writeTiny(repo)
	sig := func(s string) {
		if !sigs[s] {
			sigs[s] = true
			cs.Sigs = append(cs.Sigs, s)
		}
	}
	law := func(name string, c interface{}) {
		cs.Errors["law:"+name]++
		if len(cs.Laws) < 40 {
			cs.Laws = append(cs.Laws, childLaw{name, c})
		}
	}
	members := jsonObjectMembers()
	var exprs []string
	for _, m := range members {
		exprs = append(exprs, "JSON_OBJECT("+m.members+")")
	}
	exprs = append(exprs, scopedExprs...)

	// ---- the deterministic laws, one goroutine
	pr := hc.NewProc(repo)
	if _, err := pr.Exec("SET @@CPU TO 1; " + recordViewPrelude); err != nil {
		panic(err)
	}
	// the view of the table as a FROM clause hands it to the later clauses (not fixed: the fields keep their table)
	fromStmts, _, err := parser.Parse("SELECT 1 FROM big", "", false, false)
	if err != nil {
		panic(err)
	}
	from := fromStmts[0].(parser.SelectQuery).SelectEntity.(parser.SelectEntity).FromClause.(parser.FromClause)
	view, err := query.LoadView(pr.Ctx, pr.P.ReferenceScope.CreateNode(), from.Tables, false, false)
	if err != nil {
		panic(err)
	}
	for _, e := range exprs {
		ex, err := parseExpr(e)
		if err != nil {
			panic(fmt.Sprintf("%s: %v", e, err))
		}
		hBefore, rBefore := view.Header.Copy(), view.RecordSet.Copy()
		spare := spareCells(view.Header) // what lies between len and cap of the slices inside the header
		var evalErr error
		for _, ri := range []int{0, 1, rows - 1} {
			sc := pr.P.ReferenceScope.CreateScopeForRecordEvaluation(view, ri)
			if _, evalErr = query.Evaluate(context.Background(), sc, ex); evalErr != nil {
				break
			}
		}
		cs.Queries++
		cs.Kinds["recordview:law"]++
		if evalErr != nil {
			cs.Errors["recordview_law_eval:"+fmt.Sprint(hc.ErrCode(evalErr))]++
			if len(cs.Samples) < 12 {
				cs.Samples = append(cs.Samples, "ERROR recordview law: "+firstLine(evalErr)+" "+e)
			}
		}
		if !reflect.DeepEqual(hBefore, view.Header) || !reflect.DeepEqual(rBefore, view.RecordSet) || !reflect.DeepEqual(spare, spareCells(hBefore)) {
			law("record_evaluation_leaves_view_unchanged", map[string]interface{}{
				"table": fmt.Sprintf("big (%d records: id, grp, val, txt)", rows), "expression": e,
				"what":          "query.Evaluate(scope.CreateScopeForRecordEvaluation(view, i), expression) for i = 0, 1, last changed the view that all workers of the clause share",
				"header_before": headerText(hBefore), "header_after": headerText(view.Header)})
			view.Header = hBefore
			view.RecordSet = rBefore
		}
		sig("recordview/law/" + e)
	}
	if os.Getenv("C13_ALIAS_SPARE") != "0" {
		// F106 (fixed in /repo, 8074f73; on by default, C13_ALIAS_SPARE=0 switches it off): Header.Copy copied
		// the fields by value — the Aliases slices of the copy share their backing arrays with the original.  A column
		// that already has three names (cap 4) gets the fourth one appended in place by every worker's "copy".
		for _, n := range []string{"a1", "a2", "a3"} {
			view.Header[0].Aliases = append(view.Header[0].Aliases, n)
		}
		ex, err := parseExpr("JSON_OBJECT(id AS a4)")
		if err != nil {
			panic(err)
		}
		hBefore, spare := view.Header.Copy(), spareCells(view.Header)
		sc := pr.P.ReferenceScope.CreateScopeForRecordEvaluation(view, 0)
		_, _ = query.Evaluate(context.Background(), sc, ex)
		cs.Queries++
		if !reflect.DeepEqual(hBefore, view.Header) || !reflect.DeepEqual(spare, spareCells(view.Header)) {
			law("record_evaluation_leaves_view_unchanged", map[string]interface{}{
				"table": "big, column id known as a1, a2, a3 (SELECT id AS a1, id AS a2, id AS a3, …: len 3, cap 4)", "expression": "JSON_OBJECT(id AS a4)",
				"what":               "the per-record view's header is a shallow copy: the append of the fourth name wrote into the backing array of the outer header's Aliases",
				"spare_cells_before": spare, "spare_cells_after": spareCells(view.Header)})
		}
		view.Header[0].Aliases = nil
		exprs = append(exprs, "id AS a1, id AS a2, id AS a3, JSON_OBJECT(id AS a4, grp AS g4)")
	}
	for _, m := range members {
		for _, a := range m.aliases {
			q := fmt.Sprintf("SELECT JSON_OBJECT(%s) AS j FROM big ORDER BY %s", m.members, a)
			_, err := pr.Exec(q + ";")
			cs.Queries++
			cs.Kinds["recordview:inner_name"]++
			if err == nil || !strings.Contains(err.Error(), "does not exist") {
				law("inner_names_stay_inside", map[string]interface{}{"statement": q, "expected": "field " + a + " does not exist", "got": firstLine(err)})
			}
		}
	}
	pr.Close()

	// ---- the same expressions per record on several workers, every clause
	type clause struct {
		name, sql string
		grouped   bool
	}
	clauses := []clause{
		{"select", "SELECT id, %s FROM big", false},
		{"where", "SELECT COUNT(*) FROM big WHERE %s IS NOT NULL OR id > 0", false},
		{"order_by", "SELECT id FROM big ORDER BY %s, id", false},
		{"group_by", "SELECT COUNT(*) FROM big GROUP BY %s", false},
		{"having", "SELECT grp, COUNT(*) FROM big GROUP BY grp HAVING %s IS NOT NULL", true},
		{"join_on", "SELECT COUNT(*) FROM big JOIN (SELECT id AS sid FROM tiny) s0 ON big.id = s0.sid AND %s IS NOT NULL", false},
		{"aggregate_arg", "SELECT grp, LISTAGG(%s, ';') FROM big GROUP BY grp", false},
		{"analytic_arg", "SELECT id, FIRST_VALUE(%s) OVER (PARTITION BY grp ORDER BY id) FROM big", false},
		{"update_set", "UPDATE big SET txt = %s WHERE id %% 2 = 0", false},
		{"insert_select", "DECLARE rvt VIEW (a, b); INSERT INTO rvt (a, b) SELECT id, %s FROM big", false},
	}
	rot := 0
	for ei, e := range exprs {
		for ci, c := range clauses {
			isJson := ei < len(members)
			if strings.Contains(e, " AS a1, ") && c.name != "select" {
				continue
			}
			if c.grouped && !(isJson && members[ei].grouped) {
				continue
			}
			// quick: the two clauses every record of the table goes through in parallel for every expression, the
			// other clauses rotating; thorough: every clause
			if !thorough && ci >= 2 && (ei+ci)%4 != 0 && !c.grouped {
				continue
			}
			cpus := []int{[]int{4, 2, 8}[rot%3]}
			rot++
			if thorough {
				cpus = []int{2, 4, 8}
			}
			for _, cpu := range cpus {
				p := hc.NewProc(repo)
				q := fmt.Sprintf(c.sql, e)
				t0 := time.Now()
				_, err := p.Exec(fmt.Sprintf("SET @@CPU TO %d; %s %s;", cpu, recordViewPrelude, q))
				p.Close()
				trace(t0, q)
				cs.Queries++
				cs.Kinds["recordview:"+c.name]++
				if err != nil {
					cs.Errors[fmt.Sprintf("recordview:%s:%d", c.name, hc.ErrCode(err))]++
					if len(cs.Samples) < 12 {
						cs.Samples = append(cs.Samples, "ERROR recordview: "+firstLine(err)+" "+q)
					}
				}
				sig(fmt.Sprintf("recordview/%s/%d/cpu%d/err%d", c.name, ei, cpu, hc.ErrCode(err)))
			}
		}
	}
}

// User-defined functions that change state when they are called per record from a parallel clause: their own
// variables / temporary tables / cursors (a block per invocation), variables and cursors of the session scope, an
// environment variable — and, behind the switch C13_UDF_SETFLAG=1, a flag of the transaction (SET @@…): the flags
// are read without a lock by the evaluation of every other record (reported; not part of the default run until
// it is decided whether that is to be fixed or recorded).
func runUDFState(g *hc.Gen, scratch string, thorough bool, cs *childStats, sigs map[string]bool) {
	repo, err := os.MkdirTemp(scratch, "c13udf-")
	if err != nil {
		panic(err)
	}
	defer os.RemoveAll(repo)
	rows := 400
	if thorough {
		rows = 1500
	}
	makeTables(g, repo, rows, 60)
	writeTiny(repo)
	type udf struct{ name, decl string }
	udfs := []udf{
		{"local_var", "DECLARE uf FUNCTION (@a) AS BEGIN VAR @x := @a * 2; @x := @x + 1; DECLARE @y := @x; RETURN @y - @a - 1; END;"},
		{"outer_var", "VAR @outer := 0; DECLARE uf FUNCTION (@a) AS BEGIN @outer := @a; RETURN @a; END;"},
		{"local_table", "DECLARE uf FUNCTION (@a) AS BEGIN DECLARE lt VIEW (c) AS SELECT @a; VAR @r; SELECT c INTO @r FROM lt; DISPOSE VIEW lt; RETURN @r; END;"},
		{"local_cursor", "DECLARE uf FUNCTION (@a) AS BEGIN DECLARE lc CURSOR FOR SELECT id FROM small WHERE id >= @a; OPEN lc; VAR @r; FETCH lc INTO @r; CLOSE lc; RETURN @a; END;"},
		{"local_function", "DECLARE uf FUNCTION (@a) AS BEGIN DECLARE inner1 FUNCTION (@b) AS BEGIN RETURN @b + 1; END; RETURN inner1(@a) - 1; END;"},
		{"env_var", "DECLARE uf FUNCTION (@a) AS BEGIN SET @%C13_UDF_ENV TO 'v'; RETURN @a; END;"},
		{"blocks", "DECLARE uf FUNCTION (@a) AS BEGIN VAR @i := 0; WHILE @i < 2 DO @i := @i + 1; IF @i = 1 THEN VAR @z := @a; ELSE VAR @z := 0; END IF; END WHILE; RETURN @a; END;"},
		{"recursive", "DECLARE uf FUNCTION (@a) AS BEGIN IF @a % 3 = 0 THEN RETURN @a; END IF; VAR @k := uf(@a - @a % 3); RETURN @k - @k + @a; END;"},
	}
	if os.Getenv("C13_UDF_SETFLAG") != "0" { // known finding F105: reported as KNOWN-FINDING when the race detector sees it
		udfs = append(udfs,
			udf{"set_flag_datetime_format", "DECLARE uf FUNCTION (@a) AS BEGIN SET @@DATETIME_FORMAT TO '%Y'; RETURN @a; END;"},
			udf{"set_flag_strict_equal", "DECLARE uf FUNCTION (@a) AS BEGIN SET @@STRICT_EQUAL TO FALSE; RETURN @a; END;"},
			udf{"add_flag_element", "DECLARE uf FUNCTION (@a) AS BEGIN ADD '%Y%m' TO @@DATETIME_FORMAT; RETURN @a; END;"})
	}
	if os.Getenv("C13_UDF_STATEMENTS") != "0" { // known finding F110; C13_UDF_STATEMENTS=0 leaves these workloads out
		// OPEN (found by the interprocedural facts, reported, off by default so that the check stays green until it is
		// decided): statements inside a user-defined function that change session / transaction / file state —
		// SOURCE (file.Container.m, a plain map: Container.Add / Remove race, confirmed), SET @@WAIT_TIMEOUT
		// (Transaction.WaitTimeout / RetryDelay against the unlocked reads of the loaders), ALTER TABLE … SET (FileInfo.*)
		writeLines(filepath.Join(repo, "udfsrc.sql"), []string{"VAR @udfsrc := 1;"})
		writeLines(filepath.Join(repo, "udftab.csv"), []string{"a,b", "1,2", "3,4"})
		udfs = append(udfs,
			udf{"stmt_source", "DECLARE uf FUNCTION (@a) AS BEGIN SOURCE `" + filepath.Join(repo, "udfsrc.sql") + "`; RETURN @a; END;"},
			udf{"stmt_wait_timeout", "DECLARE uf FUNCTION (@a) AS BEGIN SET @@WAIT_TIMEOUT TO 5; VAR @n; SELECT COUNT(*) INTO @n FROM small; RETURN @a; END;"},
			udf{"stmt_table_attribute", "DECLARE uf FUNCTION (@a) AS BEGIN ALTER TABLE udftab SET DELIMITER TO ';'; VAR @n; SELECT COUNT(*) INTO @n FROM udftab; RETURN @a; END;"})
	}
	uses := []struct{ name, sql string }{
		{"where", "SELECT COUNT(*) FROM big WHERE uf(id) = id AND txt = txt"},
		{"select", "SELECT id, uf(id), txt FROM big WHERE val > -2000"},
		{"order_by", "SELECT id FROM big ORDER BY uf(id) DESC"},
		{"group_by", "SELECT COUNT(*) FROM big GROUP BY uf(grp)"},
		{"subquery", "SELECT COUNT(*) FROM big WHERE EXISTS (SELECT 1 FROM tiny s WHERE uf(s.id) = big.id)"},
	}
	rot := 0
	for _, u := range udfs {
		for ui, use := range uses {
			if !thorough && ui >= 2 && (rot+ui)%3 != 0 && !strings.HasPrefix(u.name, "set_flag") && !strings.HasPrefix(u.name, "add_flag") && !strings.HasPrefix(u.name, "stmt_") {
				continue
			}
			cpu := []int{4, 2, 8}[rot%3]
			rot++
			p := hc.NewProc(repo)
			q := fmt.Sprintf("SET @@CPU TO %d; %s %s;", cpu, u.decl, use.sql)
			t0 := time.Now()
			out, err := p.Exec(q)
			p.Close()
			trace(t0, q)
			cs.Queries++
			cs.Kinds["udfstate:"+u.name]++
			if err != nil {
				cs.Errors[fmt.Sprintf("udfstate:%s:%d", u.name, hc.ErrCode(err))]++
				if len(cs.Samples) < 12 {
					cs.Samples = append(cs.Samples, "ERROR udfstate: "+firstLine(err)+" "+q)
				}
			} else if use.name == "where" && !strings.Contains(out, fmt.Sprint(rows)) {
				// every invocation answers for its own argument: uf(id) = id for every record
				cs.Errors["law:udf_invocations_independent"]++
				if len(cs.Laws) < 40 {
					cs.Laws = append(cs.Laws, childLaw{"udf_invocations_independent", map[string]interface{}{"statement": q, "expected_count": rows, "got": strings.TrimSpace(out)}})
				}
			}
			if !sigs[fmt.Sprintf("udfstate/%s/%s/cpu%d", u.name, use.name, cpu)] {
				sigs[fmt.Sprintf("udfstate/%s/%s/cpu%d", u.name, use.name, cpu)] = true
				cs.Sigs = append(cs.Sigs, fmt.Sprintf("udfstate/%s/%s/cpu%d", u.name, use.name, cpu))
			}
		}
	}
	_ = os.Unsetenv("C13_UDF_ENV")
}
