package main

// The function grid: every built-in scalar function of the `Functions` map (lib/query/function.go, read from
// the source), evaluated once per record by several workers over 700 rows — a function that keeps state
// outside its arguments (a package-level formatter, a cache, a random source) shows up under the race detector.
// Also here: STDIN touched for the first time inside per-record evaluation.

import (
	"bytes"
	"fmt"
	"go/ast"
	"go/parser"
	"go/token"
	"io"
	"os"
	"path/filepath"
	"sort"
	"strconv"
	"strings"

	"verifharness/hc"
)

func builtinNames(repo string) []string {
	fset := token.NewFileSet()
	f, err := parser.ParseFile(fset, filepath.Join(repo, "lib", "query", "function.go"), nil, 0)
	if err != nil {
		panic(err)
	}
	var names []string
	for _, d := range f.Decls {
		gd, ok := d.(*ast.GenDecl)
		if !ok || gd.Tok != token.VAR {
			continue
		}
		for _, sp := range gd.Specs {
			vs := sp.(*ast.ValueSpec)
			if len(vs.Names) != 1 || vs.Names[0].Name != "Functions" || len(vs.Values) != 1 {
				continue
			}
			if cl, ok := vs.Values[0].(*ast.CompositeLit); ok {
				for _, el := range cl.Elts {
					if kv, ok := el.(*ast.KeyValueExpr); ok {
						if bl, ok := kv.Key.(*ast.BasicLit); ok && bl.Kind == token.STRING {
							if s, err := strconv.Unquote(bl.Value); err == nil {
								names = append(names, s)
							}
						}
					}
				}
			}
		}
	}
	sort.Strings(names)
	return names
}

func runFunctionGrid(g *hc.Gen, scratch string, thorough bool, cs *childStats, sigs map[string]bool) {
	repoSrc := os.Getenv("VERIF_REPO")
	if repoSrc == "" {
		repoSrc = "/repo"
	}
	repo, err := os.MkdirTemp(scratch, "c13grid-")
	if err != nil {
		panic(err)
	}
	defer os.RemoveAll(repo)
	words := []string{"alpha", "Beta", " gamma ", "12", "3.5", "true", "a;b|c", "%s-%d", "2012-02-03", "x'y"}
	rows := []string{"id,grp,val,txt,dt"}
	for i := 1; i <= 700; i++ {
		rows = append(rows, fmt.Sprintf("%d,%d,%d.%02d,%s,20%02d-%02d-%02d %02d:%02d:%02d", i, g.Intn(7), g.Intn(200)-100, g.Intn(100), words[g.Intn(len(words))],
			g.Intn(30), 1+g.Intn(12), 1+g.Intn(28), g.Intn(24), g.Intn(60), g.Intn(60)))
	}
	_ = os.WriteFile(filepath.Join(repo, "fg.csv"), []byte(strings.Join(rows, "\n")+"\n"), 0o644)
	_ = os.WriteFile(filepath.Join(repo, "fg1.csv"), []byte(rows[0]+"\n"+rows[1]+"\n"), 0o644)
	_ = os.WriteFile(filepath.Join(repo, "stdin_src.csv"), []byte("grp,name\n1,a\n2,b\n3,c\n"), 0o644)
	col := map[byte]string{'N': "grp", 'F': "val", 'S': "txt", 'D': "dt"}

	// signatures: per function and arity one type vector per first-argument type, probed on one row
	names := builtinNames(repoSrc)
	if len(names) < 50 {
		panic(fmt.Sprintf("only %d function names found in the Functions map", len(names)))
	}
	var cands []string
	cands = append(cands, "")
	for _, a := range "DSNF" {
		cands = append(cands, string(a))
		for _, b := range "SNDF" {
			cands = append(cands, string(a)+string(b))
			for _, d := range "SNDF" {
				cands = append(cands, string(a)+string(b)+string(d))
			}
		}
	}
	cands = append(cands, "FNSSS", "SNSS", "SNSSS", "SSSS", "SNNN", "DNNN")
	call := func(fn, cand string) string {
		args := make([]string, len(cand))
		for i := range cand {
			args[i] = col[cand[i]]
		}
		return fn + "(" + strings.Join(args, ", ") + ")"
	}
	type fsig struct{ fn, cand string }
	var grid []fsig
	pr := hc.NewProc(repo)
	for _, fn := range names {
		if fn == "RAND" {
			continue // has its own workload
		}
		kept := map[string]bool{}
		for _, cand := range cands {
			key := fmt.Sprintf("%d", len(cand))
			if len(cand) > 0 {
				key += string(cand[0])
			}
			if kept[key] {
				continue
			}
			if _, err := pr.Query("SELECT " + call(fn, cand) + " FROM fg1"); err == nil {
				kept[key] = true
				grid = append(grid, fsig{fn, cand})
			}
		}
	}
	pr.Close()
	cs.Kinds["funcgrid:functions"] = len(names)
	if !thorough {
		// quick: one signature per function and arity class, the one with the richest first argument
		seen := map[string]bool{}
		var g2 []fsig
		for _, s := range grid {
			k := fmt.Sprintf("%s/%d", s.fn, len(s.cand))
			if !seen[k] {
				seen[k] = true
				g2 = append(g2, s)
			}
		}
		grid = g2
	}
	run := func(exprs []string, cpu int) error {
		p := hc.NewProc(repo)
		_, err := p.Exec(fmt.Sprintf("SET @@CPU TO %d; SELECT id, %s FROM fg;", cpu, strings.Join(exprs, ", ")))
		p.Close()
		cs.Queries++
		return err
	}
	const batch = 8
	rot := 0
	for i := 0; i < len(grid); i += batch {
		end := i + batch
		if end > len(grid) {
			end = len(grid)
		}
		var exprs []string
		for _, s := range grid[i:end] {
			exprs = append(exprs, call(s.fn, s.cand))
		}
		cpus := []int{[]int{2, 4, 8}[rot%3]}
		rot++
		if thorough {
			cpus = []int{2, 4, 8}
		}
		for _, cpu := range cpus {
			cs.Kinds["funcgrid:batch"]++
			if err := run(exprs, cpu); err != nil {
				// some row makes one of the calls fail: run the calls of this batch one by one (errors are fine)
				for _, e := range exprs {
					cs.Kinds["funcgrid:single"]++
					if err := run([]string{e}, cpu); err != nil {
						cs.Kinds["funcgrid:call_error"]++
					}
				}
			}
		}
		for _, s := range grid[i:end] {
			sg := "funcgrid/" + s.fn + "/" + s.cand
			if !sigs[sg] {
				sigs[sg] = true
				cs.Sigs = append(cs.Sigs, sg)
			}
		}
	}
	// functions whose interesting state depends on the argument VALUES
	for _, q := range []string{
		"SELECT id, FORMAT('%s:%05d:%q:%-8s|', txt, id, txt, dt), FORMAT('%d%%', grp) FROM fg",
		"SELECT id, REGEXP_REPLACE(txt, '[a-z]+', 'X'), REGEXP_MATCH(txt, '^' || grp), REGEXP_FIND_ALL(dt, '[0-9]+') FROM fg",
		"SELECT id, DATETIME_FORMAT(dt, '%Y/%m/%d %H'), DATETIME(dt), ADD_MONTH(dt, grp), JSON_VALUE('a.b', '{\"a\":{\"b\":' || id || '}}') FROM fg",
		"SELECT id, NUMBER_FORMAT(val, 2, '.', ',', ''), LPAD(txt, 12, '*'), SUBSTRING(txt, 2, 3), WIDTH(txt), MD5(txt), BASE64_ENCODE(txt) FROM fg",
	} {
		p := hc.NewProc(repo)
		_, err := p.Exec("SET @@CPU TO 4; " + q + ";")
		p.Close()
		cs.Queries++
		cs.Kinds["funcgrid:valued"]++
		if err != nil {
			cs.Errors["funcgrid_valued:"+strconv.Itoa(hc.ErrCode(err))]++
			if len(cs.Samples) < 12 {
				cs.Samples = append(cs.Samples, "ERROR funcgrid: "+strings.SplitN(err.Error(), "\n", 2)[0])
			}
		}
	}

	// STDIN read for the first time inside per-record evaluation
	stdinData := []byte("grp,name\n1,a\n2,b\n3,c\n5,e\n")
	rot = 0
	for _, q := range []string{
		"SELECT id FROM fg WHERE grp IN (SELECT grp FROM STDIN)",
		"SELECT id FROM fg WHERE EXISTS (SELECT 1 FROM STDIN s WHERE s.grp = fg.grp)",
		"SELECT id, (SELECT MAX(name) FROM STDIN s WHERE s.grp = fg.grp) FROM fg",
		"SELECT fg.id, l.name FROM fg CROSS JOIN LATERAL (SELECT name FROM STDIN s WHERE s.grp = fg.grp) l",
		"SELECT id, CASE WHEN grp > 2 THEN (SELECT COUNT(*) FROM STDIN) ELSE 0 END FROM fg ORDER BY (SELECT MIN(grp) FROM STDIN) + id",
	} {
		cpus := []int{[]int{2, 4, 8}[rot%3]}
		rot++
		if thorough {
			cpus = []int{2, 4, 8}
		}
		for _, cpu := range cpus {
			p := hc.NewProc(repo)
			if e := p.P.Tx.Session.SetStdin(io.NopCloser(bytes.NewReader(stdinData))); e != nil {
				panic(e)
			}
			_, err := p.Exec(fmt.Sprintf("SET @@CPU TO %d; %s;", cpu, q))
			p.Close()
			cs.Queries++
			cs.Kinds["stdin_in_subquery"]++
			if err != nil {
				cs.Errors["stdin_in_subquery:"+strconv.Itoa(hc.ErrCode(err))]++
				if len(cs.Samples) < 12 {
					cs.Samples = append(cs.Samples, "ERROR stdin_in_subquery: "+strings.SplitN(err.Error(), "\n", 2)[0])
				}
			}
			sg := fmt.Sprintf("stdin_in_subquery/%d/cpu%d", rot, cpu)
			if !sigs[sg] {
				sigs[sg] = true
				cs.Sigs = append(cs.Sigs, sg)
			}
		}
	}
}
