//go:build verif

package main

import (
	"math"
	"time"

	"github.com/mithrandie/csvq/lib/value"
)

// hook H2 (lib/value/verif_on.go): with VERIF_POISON_DISCARD=1 a discarded object is overwritten with
// these values and never re-issued.
const poisonAvailable = true

var poisonTime = time.Unix(-6148914691, 0)

// poisonOf: which poison value p holds ("" = none).
func poisonOf(p value.Primary) string {
	switch v := p.(type) {
	case *value.String:
		if v.Raw() == value.VerifPoisonString {
			return "string"
		}
	case *value.Integer:
		if v.Raw() == value.VerifPoisonInteger {
			return "integer"
		}
	case *value.Float:
		if math.Float64bits(v.Raw()) == 0x7FF80000DEADBEEF {
			return "float"
		}
	case *value.Datetime:
		if v.Raw().Equal(poisonTime) {
			return "datetime"
		}
	}
	return ""
}

// poisonTexts: how the poison values look in printed output (the NaN poison prints as an ordinary NaN and
// is recognised on values only).
func poisonTexts() map[string]string {
	return map[string]string{
		"<discarded>":          "string",
		"-6148914691236517206": "integer",
		poisonTime.UTC().Format("2006-01-02T15:04:05"): "datetime",
		poisonTime.UTC().Format("2006-01-02 15:04:05"): "datetime",
	}
}
