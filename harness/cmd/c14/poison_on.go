//go:build verif

package main

import (
	"math"
	"reflect"
	"time"

	"github.com/mithrandie/csvq/lib/value"
)

// hook H2 (lib/value/verif_on.go): with VERIF_POISON_DISCARD=1 a discarded object is overwritten with
// these values and never re-issued.
const poisonAvailable = true

var poisonTime = time.Unix(-6148914691, 0)

// poisonOf: which poison value p holds ("" = none).
func poisonOf(p value.Primary) string {
	switch v := p.(type) {
	case *value.String:
		if v.Raw() == value.VerifPoisonString {
			return "string"
		}
	case *value.Integer:
		if v.Raw() == value.VerifPoisonInteger {
			return "integer"
		}
	case *value.Float:
		if math.Float64bits(v.Raw()) == 0x7FF80000DEADBEEF {
			return "float"
		}
	case *value.Datetime:
		if v.Raw().Equal(poisonTime) {
			return "datetime"
		}
	}
	return ""
}

// poisonTexts: how the poison values look in printed output (the NaN poison prints as an ordinary NaN and
// is recognised on values only).
func poisonTexts() map[string]string {
	return map[string]string{
		"<discarded>":          "string",
		"-6148914691236517206": "integer",
		poisonTime.UTC().Format("2006-01-02T15:04:05"): "datetime",
		poisonTime.UTC().Format("2006-01-02 15:04:05"): "datetime",
	}
}

// poisonInTree walks a parsed statement (structs, slices, interfaces, pointers) and reports the first
// literal value that holds a poison: the syntax tree still points at an object that was discarded.
func poisonInTree(x reflect.Value, depth int) string {
	if depth > 80 || !x.IsValid() {
		return ""
	}
	switch x.Kind() {
	case reflect.Ptr, reflect.Interface:
		if x.IsNil() {
			return ""
		}
		if x.CanInterface() {
			if p, ok := x.Interface().(value.Primary); ok {
				return poisonOf(p)
			}
		}
		return poisonInTree(x.Elem(), depth+1)
	case reflect.Struct:
		for i := 0; i < x.NumField(); i++ {
			if w := poisonInTree(x.Field(i), depth+1); w != "" {
				return w
			}
		}
	case reflect.Slice, reflect.Array:
		for i := 0; i < x.Len(); i++ {
			if w := poisonInTree(x.Index(i), depth+1); w != "" {
				return w
			}
		}
	case reflect.Map:
		it := x.MapRange()
		for it.Next() {
			if w := poisonInTree(it.Value(), depth+1); w != "" {
				return w
			}
		}
	}
	return ""
}
