//go:build !verif

package main

import "github.com/mithrandie/csvq/lib/value"

const poisonAvailable = false

func poisonOf(value.Primary) string  { return "" }
func poisonTexts() map[string]string { return nil }
