//go:build !verif

package main

import (
	"reflect"

	"github.com/mithrandie/csvq/lib/value"
)

const poisonAvailable = false

func poisonOf(value.Primary) string          { return "" }
func poisonTexts() map[string]string         { return nil }
func poisonInTree(reflect.Value, int) string { return "" }
