package main

// A value changed WITHIN one statement.
//
// "Executing the same statement again gives the same values" does not see an evaluation step that edits a list the
// rest of the SAME statement reads: the grouped record of a view holds, per column, one list with the group's values,
// and every aggregate / list function of the select list, of HAVING and of ORDER BY reads that list; the records of a
// partition are shared by every analytic function of the select list.  A helper that sorts, compacts or truncates the
// list it is given (DISTINCT, ORDER BY inside LISTAGG / JSON_AGG … WITHIN GROUP, MEDIAN's sort, a window frame) changes
// what the expressions evaluated AFTER it read — the second run of the statement then repeats exactly the same wrong
// values.
//
// For every aggregate function of query.AggregateFunctions, the list functions, a user-defined aggregate, and every
// "modifier" (DISTINCT, WITHIN GROUP (ORDER BY …), analytic ORDER BY, window frames, IGNORE NULLS) a candidate
// expression c is placed between two copies of a probe p that reads the same column:
//
//	SELECT k, p, c, p FROM w GROUP BY k        (and without GROUP BY: one group)
//	SELECT k, c, p FROM w GROUP BY k           (candidate first)
//	SELECT k, p FROM w GROUP BY k HAVING c IS NULL OR c IS NOT NULL
//	SELECT k, p FROM w GROUP BY k ORDER BY c, k
//	SELECT id, pa, ca, pa FROM w ORDER BY id   (analytic functions over the same partition)
//
// over groups that hold duplicates FOLLOWED by a different value (1,1,2,3,3 — in-place compaction of 1,2,2 would be
// invisible), NULLs and single rows.  Law same_expression_same_value_within_statement: two syntactically equal
// (deterministic) expressions of one SELECT over the same group have equal values, and equal to what the statement
// without the candidate gives; afterwards the table is read again and must show its original cells (reread:table).

import (
	"fmt"
	"os"
	"path/filepath"
	"sort"
	"strings"

	"github.com/mithrandie/csvq/lib/query"
)

type withinState struct {
	ready    bool
	baseline []string
	aggs     []string
	nstmt    int
}

func (c *ctx) withinRows(q string) ([][]string, error) {
	v, err := c.pr.Query(q)
	c.evals++
	if err != nil || v == nil {
		return nil, err
	}
	out := make([][]string, 0, v.RecordLen())
	for _, rec := range v.RecordSet {
		row := make([]string, len(rec))
		for j, cell := range rec {
			row[j] = cell[0].String()
		}
		out = append(out, row)
	}
	return out, nil
}

// withinSetup writes the table w (k, id, x, y) and declares the user-defined aggregate.
func (c *ctx) withinSetup(repo string) {
	g := c.g
	var rows []string
	rows = append(rows, "id,k,x,y")
	id := 0
	add := func(k string, x string, y string) {
		id++
		rows = append(rows, fmt.Sprintf("%d,%s,%s,%s", id, k, x, y))
	}
	ys := []string{"b", "b", "a", "c", "c", "", "B", "10", "9"}
	for gi := 0; gi < 7; gi++ {
		k := string(rune('a' + gi))
		a, b, d := g.Intn(9)+1, g.Intn(9)+11, g.Intn(9)+21
		var xs []int
		switch gi {
		case 0:
			xs = []int{a, a, b, d, d} // the shape of the demonstration: duplicates followed by different values
		case 1:
			xs = []int{b, b, a}
		case 2:
			xs = []int{a}
		case 3:
			xs = []int{a, a}
		case 4:
			xs = []int{d, a, d, b, a, a, b}
		default:
			n := 3 + g.Intn(5)
			v := []int{a, b, d}
			for i := 0; i < n; i++ {
				xs = append(xs, v[g.Intn(3)])
			}
			xs = append([]int{xs[0]}, xs...) // a duplicate first
			xs = append(xs, a+b+d)           // a value that occurs once, last
		}
		for i, x := range xs {
			xv := fmt.Sprint(x)
			if gi == 4 && i == 3 {
				xv = "" // NULL inside a group
			}
			add(k, xv, ys[(gi+i)%len(ys)])
		}
	}
	if err := os.WriteFile(filepath.Join(repo, "w.csv"), []byte(strings.Join(rows, "\n")+"\n"), 0o644); err != nil {
		panic(err)
	}
	const uda = "DECLARE wagg AGGREGATE (list) AS BEGIN VAR @v; VAR @acc := 0; VAR @n := 0; WHILE @v IN list DO IF @v IS NOT NULL THEN @acc := @acc + @v * (@n + 1); @n := @n + 1; END IF; END WHILE; RETURN @acc; END;"
	if _, err := c.pr.Exec(uda); err != nil {
		panic(err)
	}
	base, err := c.withinRows("SELECT * FROM w ORDER BY id")
	if err != nil || len(base) < 15 {
		panic(fmt.Sprintf("within: table w unreadable: %v", err))
	}
	c.within.baseline = nil
	for _, r := range base {
		c.within.baseline = append(c.within.baseline, strings.Join(r, "|"))
	}
	for name := range query.AggregateFunctions {
		c.within.aggs = append(c.within.aggs, name)
	}
	sort.Strings(c.within.aggs)
	if len(c.within.aggs) < 8 {
		panic("within: query.AggregateFunctions has fewer than 8 entries")
	}
	c.within.ready = true
}

type withinCand struct {
	expr string // the candidate expression (aggregate context) or analytic expression
	sig  string // function/modifier for the non-trivial signature
}

func (c *ctx) withinAggCandidates() []withinCand {
	var out []withinCand
	for _, col := range []string{"x", "y"} {
		for _, f := range c.within.aggs {
			out = append(out, withinCand{fmt.Sprintf("%s(%s)", f, col), f + "/plain"})
			out = append(out, withinCand{fmt.Sprintf("%s(DISTINCT %s)", f, col), f + "/distinct"})
		}
		for _, f := range []string{"LISTAGG", "JSON_AGG"} {
			sep := ""
			if f == "LISTAGG" {
				sep = ", '-'"
			}
			out = append(out,
				withinCand{fmt.Sprintf("%s(%s%s)", f, col, sep), f + "/plain"},
				withinCand{fmt.Sprintf("%s(DISTINCT %s%s)", f, col, sep), f + "/distinct"},
				withinCand{fmt.Sprintf("%s(%s%s) WITHIN GROUP (ORDER BY %s DESC)", f, col, sep, col), f + "/order"},
				withinCand{fmt.Sprintf("%s(DISTINCT %s%s) WITHIN GROUP (ORDER BY %s)", f, col, sep, col), f + "/distinct_order"},
				withinCand{fmt.Sprintf("%s(%s%s) WITHIN GROUP (ORDER BY id DESC)", f, col, sep), f + "/order_other"},
			)
		}
		out = append(out, withinCand{fmt.Sprintf("wagg(%s)", col), "uda/plain"}, withinCand{fmt.Sprintf("wagg(DISTINCT %s)", col), "uda/distinct"})
	}
	return out
}

func (c *ctx) withinAnalyticCandidates() []withinCand {
	var out []withinCand
	overs := []struct{ over, sig string }{
		{"OVER (PARTITION BY k)", "partition"},
		{"OVER (PARTITION BY k ORDER BY x DESC)", "order"},
		{"OVER (PARTITION BY k ORDER BY id ROWS BETWEEN 1 PRECEDING AND 1 FOLLOWING)", "frame"},
		{"OVER (PARTITION BY k ORDER BY x ROWS BETWEEN UNBOUNDED PRECEDING AND CURRENT ROW)", "frame_order"},
	}
	for _, f := range append(append([]string{}, c.within.aggs...), "wagg") {
		for _, o := range overs {
			out = append(out, withinCand{fmt.Sprintf("%s(x) %s", f, o.over), "an:" + f + "/" + o.sig})
			out = append(out, withinCand{fmt.Sprintf("%s(DISTINCT x) %s", f, o.over), "an:" + f + "/distinct_" + o.sig})
		}
	}
	for _, f := range []string{"LISTAGG", "JSON_AGG"} {
		for _, o := range overs[:2] {
			out = append(out, withinCand{fmt.Sprintf("%s(x) %s", f, o.over), "an:" + f + "/" + o.sig})
			out = append(out, withinCand{fmt.Sprintf("%s(DISTINCT x) %s", f, o.over), "an:" + f + "/distinct_" + o.sig})
		}
	}
	for _, f := range []string{"FIRST_VALUE(x)", "LAST_VALUE(x)", "NTH_VALUE(x, 2)", "FIRST_VALUE(x) IGNORE NULLS", "LAST_VALUE(x) IGNORE NULLS", "NTH_VALUE(x, 2) IGNORE NULLS", "LAG(x)", "LEAD(x)", "LAG(x, 2, 0) IGNORE NULLS", "LEAD(x, 1) IGNORE NULLS"} {
		out = append(out, withinCand{f + " OVER (PARTITION BY k ORDER BY x DESC, id)", "an:" + strings.SplitN(f, "(", 2)[0] + "/order"})
	}
	for _, f := range []string{"ROW_NUMBER()", "RANK()", "DENSE_RANK()", "CUME_DIST()", "PERCENT_RANK()", "NTILE(2)"} {
		out = append(out, withinCand{f + " OVER (PARTITION BY k ORDER BY x DESC)", "an:" + strings.SplitN(f, "(", 2)[0] + "/order"})
	}
	return out
}

var withinProbes = []string{"LISTAGG(x, ',')", "SUM(x)", "LISTAGG(y, ',')", "COUNT(DISTINCT x)"}
var withinAnProbes = []string{"LISTAGG(x, ',') OVER (PARTITION BY k)", "SUM(x) OVER (PARTITION BY k)", "MEDIAN(x) OVER (PARTITION BY k)"}

// withinCheck runs one statement with two probe columns (0-based positions a and b; b < 0: one probe) and the
// statement without the candidate, whose probe column is `basecol`; rows are matched by their first column.
func (c *ctx) withinCheck(shape string, cand withinCand, sql string, a, b int, base string, basecol int) {
	c.within.nstmt++
	rows, err := c.withinRows(sql)
	brows, berr := c.withinRows(base)
	c.nt(fmt.Sprintf("within/%s/%s/%v", shape, cand.sig, err != nil))
	if berr != nil {
		panic(fmt.Sprintf("within: the statement without the candidate fails: %s: %v", base, berr))
	}
	if err != nil {
		// the candidate itself is refused (e.g. DISTINCT in a position csvq does not support): no statement
		c.o.Count("within_candidate_error")
		return
	}
	c.o.Count("within:" + shape)
	want := map[string]string{}
	for _, r := range brows {
		want[r[0]] = r[basecol]
	}
	if len(rows) != len(brows) {
		c.o.Law("same_expression_same_value_within_statement", map[string]string{"sql": sql, "without_candidate": base, "difference": fmt.Sprintf("%d rows with the candidate, %d without", len(rows), len(brows))})
		return
	}
	for _, r := range rows {
		if b >= 0 && r[a] != r[b] {
			c.o.Law("same_expression_same_value_within_statement", map[string]string{"sql": sql, "row": strings.Join(r, " | "),
				"difference": fmt.Sprintf("columns %d and %d are the same expression over the same group: %s and %s", a+1, b+1, r[a], r[b])})
			return
		}
		if w, ok := want[r[0]]; !ok || w != r[a] {
			c.o.Law("same_expression_same_value_within_statement", map[string]string{"sql": sql, "row": strings.Join(r, " | "), "without_candidate": base,
				"difference": fmt.Sprintf("column %d is %s; the same expression in the statement without the candidate gives %s", a+1, r[a], w)})
			return
		}
	}
}

func (c *ctx) withinReread(after string) {
	again, err := c.withinRows("SELECT * FROM w ORDER BY id")
	var got []string
	for _, r := range again {
		got = append(got, strings.Join(r, "|"))
	}
	if err != nil || strings.Join(got, "\n") != strings.Join(c.within.baseline, "\n") {
		c.o.Law("reread:table", map[string]string{"table": "w", "after": after, "second": strings.Join(got, "\n"), "first": strings.Join(c.within.baseline, "\n")})
	}
}

func (c *ctx) withinOne(cand withinCand, p string, shape int) {
	switch shape {
	case 0:
		c.withinCheck("group", cand, fmt.Sprintf("SELECT k, %s, %s, %s FROM w GROUP BY k ORDER BY k", p, cand.expr, p), 1, 3,
			fmt.Sprintf("SELECT k, %s FROM w GROUP BY k ORDER BY k", p), 1)
	case 1:
		c.withinCheck("all", cand, fmt.Sprintf("SELECT 1, %s, %s, %s FROM w", p, cand.expr, p), 1, 3, fmt.Sprintf("SELECT 1, %s FROM w", p), 1)
	case 2:
		c.withinCheck("first", cand, fmt.Sprintf("SELECT k, %s, %s FROM w GROUP BY k ORDER BY k", cand.expr, p), 2, -1,
			fmt.Sprintf("SELECT k, %s FROM w GROUP BY k ORDER BY k", p), 1)
	case 3:
		c.withinCheck("having", cand, fmt.Sprintf("SELECT k, %s FROM w GROUP BY k HAVING %s IS NULL OR %s IS NOT NULL ORDER BY k", p, cand.expr, cand.expr), 1, -1,
			fmt.Sprintf("SELECT k, %s FROM w GROUP BY k ORDER BY k", p), 1)
	case 4:
		c.withinCheck("orderby", cand, fmt.Sprintf("SELECT k, %s, %s FROM w GROUP BY k ORDER BY %s, %s, k", p, p, cand.expr, p), 1, 2,
			fmt.Sprintf("SELECT k, %s FROM w GROUP BY k ORDER BY k", p), 1)
	}
}

func (c *ctx) withinAnalyticOne(cand withinCand, p string) {
	c.withinCheck("analytic", cand, fmt.Sprintf("SELECT id, %s, %s, %s FROM w ORDER BY id", p, cand.expr, p), 1, 3,
		fmt.Sprintf("SELECT id, %s FROM w ORDER BY id", p), 1)
}

// withinPhase: the whole grid (full = true: first workload process of a run) or a random sample of it.
func (c *ctx) withinPhase(repo string, full bool, sample int) {
	if !c.within.ready {
		c.withinSetup(repo)
	}
	aggs, ans := c.withinAggCandidates(), c.withinAnalyticCandidates()
	if full {
		for _, cand := range aggs {
			for pi, p := range withinProbes {
				for shape := 0; shape < 5; shape++ {
					if pi >= 2 && shape != 0 && shape != 3 {
						continue
					}
					c.withinOne(cand, p, shape)
				}
			}
			c.withinReread(cand.expr)
		}
		for _, cand := range ans {
			for _, p := range withinAnProbes {
				c.withinAnalyticOne(cand, p)
			}
			c.withinReread(cand.expr)
		}
		c.o.Stats["within_candidates"] = len(aggs) + len(ans)
		return
	}
	for i := 0; i < sample; i++ {
		if c.g.Intn(3) == 0 {
			cand := ans[c.g.Intn(len(ans))]
			c.withinAnalyticOne(cand, withinAnProbes[c.g.Intn(len(withinAnProbes))])
		} else {
			cand := aggs[c.g.Intn(len(aggs))]
			c.withinOne(cand, withinProbes[c.g.Intn(len(withinProbes))], c.g.Intn(5))
		}
	}
	c.withinReread("a sample of within-statement shapes")
}
